#!/usr/bin/env python3
"""refresh the theorem counts in DESIGN.md §13.3 (third column starts with '<n>:') from lean/Props/Cxx.lean"""
import re, os
V = os.path.dirname(os.path.dirname(os.path.abspath(__file__)))
s = open(os.path.join(V, "DESIGN.md")).read()
i = s.index("### §13.3"); j = s.index("### §13.4")
sec = s[i:j]; total = 0
def fix(m):
    global total
    pid = m.group(1)
    n = len(re.findall(r"^theorem ", open(os.path.join(V, "lean", "Props", pid + ".lean")).read(), re.M))
    total += n
    return f"| {pid} | {m.group(2)} | {n}:"
sec2 = re.sub(r"^\| (C\d\d) \| ([^|]*) \| \d+:", fix, sec, flags=re.M)
open(os.path.join(V, "DESIGN.md"), "w").write(s[:i] + sec2 + s[j:])
print("theorems of record:", total)

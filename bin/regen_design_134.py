import json,glob,os,re
notes=json.load(open('/verif/seeded/NOTES.json'))
rows=[]
n_missed=0
for d in sorted(glob.glob('/verif/seeded/C*')):
    n=os.path.basename(d)
    m=json.load(open(d+'/meta.json'))
    summ=m.get('summary') or m.get('change') or ''
    if isinstance(summ,dict): summ=json.dumps(summ)
    summ=re.sub(r'\s+',' ',str(summ))[:200]
    needs=re.sub(r'\s+',' ',str(m.get('needs','')))[:170]
    kinds={}
    for p in glob.glob(d+'/replays/*.json'):
        k=json.load(open(p)).get('kind_of_replay'); kinds[k]=kinds.get(k,0)+1
    conf=m.get('confirmed',{})
    c="confirmed" if conf.get('demo_exit_clean')==0 and conf.get('demo_exit_patched') not in (0,None) and conf.get('suite_stable_pass_still_passing') else "confirmation pending"
    if n in notes: n_missed+=1
    res=notes.get(n, "caught (quick): "+", ".join("%d× %s"%(v,k) for k,v in kinds.items()))
    rows.append("| %s | %s | %s | %s; %s |" % (n, summ.replace('|','/'), needs.replace('|','/'), res, c))
p='/verif/DESIGN.md'
s=open(p).read()
a=s.index("| seed | change (from the seeder's meta.json) | needs | result of `bin/seedtest` |")
b=s.index("## Appendix A")
tail_marker="---------------------------------------------------------------------------------------------------\n\n"
new="| seed | change (from the seeder's meta.json) | needs | result of `bin/seedtest` |\n|---|---|---|---|\n"+"\n".join(rows)+"\n\n"
new+="%d seeded changes in four independent rounds (from round b on the seeder was told which *mechanisms* earlier rounds had used and asked for a different clause of the property).  %d were missed at first and are caught after the strengthening named in their row (bold); every catch is an `impl-counterexample` replay — a concrete input/history on which the property fails on the real code — none relies on `no-failing-input-found`.  Lesson recorded for the technique: every miss was a *generator/tie blind spot* (an entry point, option value, object route or input shape that neither the model nor the harness exercised), never a wrong theorem; the theorems do not help where the tie does not reach.\n\n" % (len(rows), n_missed)
s=s[:a]+new+tail_marker+s[b:]
open(p,'w').write(s)
print(len(rows),'rows',n_missed,'missed-at-first')

import json,glob,os,re
notes=json.load(open('/verif/seeded/NOTES.json'))
try: results=json.load(open('/verif/seeded/RESULTS.json'))
except Exception: results={}
rows=[]
n_missed=0
for d in sorted(glob.glob('/verif/seeded/C[0-9][0-9]-*')):
    n=os.path.basename(d)
    m=json.load(open(d+'/meta.json'))
    summ=m.get('summary') or m.get('change') or ''
    if isinstance(summ,dict): summ=json.dumps(summ)
    summ=re.sub(r'\s+',' ',str(summ))[:200]
    needs=re.sub(r'\s+',' ',str(m.get('needs','')))[:170]
    kinds={}
    for p in glob.glob(d+'/replays/*.json'):
        k=json.load(open(p)).get('kind_of_replay'); kinds[k]=kinds.get(k,0)+1
    conf=m.get('confirmed',{})
    c="confirmed" if conf.get('demo_exit_clean')==0 and conf.get('demo_exit_patched') not in (0,None) and conf.get('suite_stable_pass_still_passing') else "confirmation pending"
    if n in notes: n_missed+=1
    r=results.get(n)
    if r is not None:
        kinds=r.get('kinds') or kinds
        final=("caught" if r.get('exit')==1 else "NOT CAUGHT (exit %s)"%r.get('exit'))+" (quick, final re-run): "+", ".join("%d× %s"%(v,k) for k,v in sorted(kinds.items()))
    else:
        final="caught (quick): "+", ".join("%d× %s"%(v,k) for k,v in kinds.items())
    res=(notes[n]+" — "+final) if n in notes else final
    if m.get('obsolete'):
        res=(notes.get(n,'')+" — " if n in notes else "")+"**obsolete**: "+str(m['obsolete'])
    rows.append("| %s | %s | %s | %s; %s |" % (n, summ.replace('|','/'), needs.replace('|','/'), res, c))
p='/verif/DESIGN.md'
s=open(p).read()
a=s.index("| seed | change (from the seeder's meta.json) | needs | result of `bin/seedtest` |")
b=s.index("## Appendix A")
tail_marker="---------------------------------------------------------------------------------------------------\n\n"
new="| seed | change (from the seeder's meta.json) | needs | result of `bin/seedtest` |\n|---|---|---|---|\n"+"\n".join(rows)+"\n\n"
rounds=sorted(set(os.path.basename(d).split('-')[1] for d in glob.glob('/verif/seeded/C[0-9][0-9]-*')))
nofail=[n for n,r in results.items() if r.get('exit')==1 and set(r.get('kinds',{}))-{'impl-counterexample'} and 'impl-counterexample' not in r.get('kinds',{})]
notcaught=[n for n,r in results.items() if r.get('exit')!=1 and not r.get('obsolete')]
new+="%d seeded changes in %d independent rounds (%s; from round b on the seeder was told which *mechanisms* earlier rounds had used and asked for a different clause of the property).  %d were missed at first (or, where the row says so, would have been) and are caught after the strengthening named in their row (bold).  Final re-run of all of them (`bin/seedall`, results in `seeded/RESULTS.json`): %d not caught%s; %d caught only through a broken obligation/correspondence without a concrete failing input%s; all others with at least one `impl-counterexample` replay — a concrete input/history on which the property fails on the real code.  Lesson recorded for the technique: every miss was a *generator/tie blind spot* (an entry point, option value, object route, input type or call sequence that neither the model nor the harness exercised), never a wrong theorem; the theorems do not help where the tie does not reach, which is why the builders' phase 4 (hand-made mutants per clause and dimension, `corpus/Cxx/MUTANTS.md`) went looking for such blind spots ahead of the seeders.\n\n" % (len(rows), len(rounds), ", ".join(rounds), n_missed, len(notcaught), (" ("+", ".join(notcaught)+")") if notcaught else "", len(nofail), (" ("+", ".join(nofail)+")") if nofail else "")
s=s[:a]+new+tail_marker+s[b:]
open(p,'w').write(s)
print(len(rows),'rows',n_missed,'missed-at-first')

import json,re,subprocess
kf=json.load(open('/verif/KNOWN_FINDINGS.json'))
log=subprocess.run(['git','-C','/repo','log','--format=%h %s','e4ca1f6..HEAD'],capture_output=True,text=True).stdout.strip().split('\n')
p='/verif/DESIGN.md'
s=open(p).read()
a=s.index("### §13.2 Defects of the pinned tree")
b=s.index("### §13.3 Per-property status")
fixes="\n".join("- `%s` %s" % (l.split(' ',1)[0], l.split(' ',1)[1][5:]) for l in reversed(log))
def clean(x): return re.sub(r'\s+',' ',x)[:330]
rec="\n".join("- **%s** `%s` — %s" % (f['property'], f['signature'], clean(f['what'])) for f in kf['findings'])
new='''### §13.2 Defects of the pinned tree: what was repaired, what is recorded

**Repaired in `/repo`** — %d commits on top of the pinned snapshot `e4ca1f6`, one per defect, each message
starting `fix:`, each touching only what the defect requires; the pinned suite is unchanged (1234/1234 stable tests
pass, checked with `bin/suite` after every batch).  Every one was first a concrete failing input produced by a
check (or by a seeder/builder), and each is listed under `fixed` in `KNOWN_FINDINGS.json`; a fixed entry suppresses
nothing — the witnesses stay in `corpus/` and a regression is reported as a VIOLATION.

%s

**Recorded, not repaired** (printed as `KNOWN-FINDING:` on the unchanged tree, exit 0; narrow signatures, so another
violation of the same property is still reported):

%s

Why these were not repaired: the `dns.edns.option_from_wire` exceptions are pinned by the suite
(`testECSOption_from_wire_invalid` expects `ValueError`); Chaosnet A lower-casing is BIND-compatible behaviour a
maintainer may want; the delegation-point NSEC bitmap repair is a ~20-line change whose tests need `cryptography`
(absent here); the RFC 4034 §6.2 types without a class have no small repair; nested cuts in the B-tree zone need
`update_glue_flag` redesigned; CNAME at a cut, APL unknown families and the UPDATE metaclass forms are
behaviour changes larger than a minimal repair.

The D-numbers of §6 map as follows: D01 D02 D03 D04 D05 D06 D07 D08 D09 D10 D11 D12 D13 D14 D15 D19 D20 repaired;
D16 recorded; D17 recorded (Chaosnet A); D18 recorded (APL).

''' % (len(log), fixes, rec)
s=s[:a]+new+s[b:]
open(p,'w').write(s)
print(len(log),'fix commits;',len(kf['findings']),'findings')

"""LRUCache.get unlinks the node before it looks at node.value.expiration.  If that read raises (a stub / broken
value object; any exception between unlink and link_after) the node stays in the dict but is out of the LRU list;
later operations resurrect evicted nodes and finally put() raises KeyError for ever."""
import sys
import dns.resolver

class Flaky:
    def __init__(self): self.n = 0
    @property
    def expiration(self):
        self.n += 1
        if self.n == 1:
            raise RuntimeError("not yet")
        return 1e18
class Ok:
    expiration = 1e18

c = dns.resolver.LRUCache(3)
c.put("a", Ok()); c.put("h", Flaky()); c.put("b", Ok())
try:
    c.get("h")
except RuntimeError:
    pass
def ring():
    out, n = [], c.sentinel.next
    while n is not c.sentinel and len(out) < 10:
        out.append(n.key); n = n.next
    return out
bad = []
if sorted(ring()) != sorted(c.data):
    bad.append(f"after the failed get: dict {sorted(c.data)} but list {ring()}")
try:
    for k in ("x", "h", "y", "z"):
        c.put(k, Ok())
except KeyError as e:
    bad.append(f"a later put raises KeyError({e})")
print("FAIL\n  " + "\n  ".join(bad) if bad else "OK")
sys.exit(1 if bad else 0)

"""A node that is empty when a write transaction commits must still be frozen.
The writer empties its own copy of a node through the node-level API (txn.version.nodes[name] is the transaction's
private, mutable node), commits; the committed version then holds a plain mutable node."""
import sys
import dns.btreezone, dns.name, dns.rdataclass, dns.rdataset, dns.rdatatype, dns.versioned

bad = []
for cls in (dns.versioned.Zone, dns.btreezone.Zone):
    z = cls(dns.name.from_text("example."))
    a = dns.name.from_text("a", None)
    with z.writer() as t:
        t.replace(a, dns.rdataset.from_text("IN", "TXT", 60, '"x"'))
        node = t.version.nodes[a]
        node.delete_rdataset(dns.rdataclass.IN, dns.rdatatype.TXT)      # node is now empty, hence falsy
    r = z.reader()
    before = sorted((n.to_text(), rds.to_text()) for n, rds in r.iterate_rdatasets())
    n = z.find_node(a)
    if not n.is_immutable():
        bad.append(f"{cls.__module__}: node 'a' of the committed version is a mutable {type(n).__name__}")
    try:
        n.replace_rdataset(dns.rdataset.from_text("IN", "A", 60, "192.0.2.1"))
        bad.append(f"{cls.__module__}: replace_rdataset on it did not raise")
    except TypeError:
        pass
    after = sorted((n_.to_text(), rds.to_text()) for n_, rds in r.iterate_rdatasets())
    if after != before:
        bad.append(f"{cls.__module__}: an open reader's view changed without a commit: {after}")
    r.rollback()
print("FAIL\n  " + "\n  ".join(bad) if bad else "OK")
sys.exit(1 if bad else 0)

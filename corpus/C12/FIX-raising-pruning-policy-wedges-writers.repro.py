"""A pruning policy that raises during a commit must not wedge the zone (documented: 'if the commit fails the
transaction is also rolled back'; C12: every waiting writer is admitted once its predecessors end)."""
import sys, threading
import dns.name, dns.rdataset, dns.versioned

z = dns.versioned.Zone(dns.name.from_text("example."))
z.set_max_versions(None)
with z.writer() as w:
    w.replace("a", dns.rdataset.from_text("IN", "TXT", 60, '"1"'))
calls = []
def policy(zone, version):
    calls.append(version.id)
    raise RuntimeError("policy bug")
z._pruning_policy = policy          # as set_pruning_policy would install it (that call itself raises in the prune it runs)
w = z.writer()
w.replace("b", dns.rdataset.from_text("IN", "TXT", 60, '"2"'))
try:
    w.commit()
    print("commit did not raise")
except RuntimeError as e:
    print("commit raised:", e)
ids = [v.id for v in z._versions]
print("retained", ids, "| write txn still registered:", z._write_txn is not None,
      "| zone.nodes is newest version's:", z.nodes is z._versions[-1].nodes)
z._pruning_policy = z._default_pruning_policy
done = []
t = threading.Thread(target=lambda: (z.writer().rollback(), done.append(1)), daemon=True)
t.start(); t.join(2)
bad = []
if not done: bad.append("the next writer() blocks for ever")
if z._write_txn is not None and not done: bad.append("_write_txn left set by an ended transaction")
if z.nodes is not z._versions[-1].nodes: bad.append("a version is in _versions (readers get it) but zone.nodes is not it")
print("FAIL: " + "; ".join(bad) if bad else "OK")
sys.exit(1 if bad else 0)

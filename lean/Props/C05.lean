import Model.RdataText
import Proofs.RdataTextNum
import Proofs.RdataTextEsc
import Proofs.RdataTextRec
import Proofs.RdataTextEnc
import Proofs.RdataTextPrint
/-!
# C05 — every record type's master-file text parses back to an equal record

Theorems of record.  The models (`Model.IPAddr`, `Model.TextFields`, `Model.RdataText`) follow `dns/ipv4.py`,
`dns/ipv6.py`, `dns/tokenizer.py`, `dns/rdata.py` and the `to_styled_text`/`from_text` pairs of the modelled record
types; constants (`Consts.*`, `ConstsC05.*`) are regenerated from the working tree on every run.
-/
namespace C05
open Model

/-- "address text codecs used by A/AAAA/APL/IPSECKEY/…": `dns.ipv4.inet_aton(dns.ipv4.inet_ntoa(a)) == a`
for every 4-octet address. -/
theorem ipv4_roundtrip (a b c d : Nat) (ha : a < 256) (hb : b < 256) (hc : c < 256) (hd : d < 256) :
    ∃ t, ip4Ntoa [a, b, c, d] = some t ∧ ip4Aton t = some [a, b, c, d] :=
  ip4_roundtrip a b c d ha hb hc hd

/-- "address text codecs used by A/AAAA/APL/IPSECKEY/…": `dns.ipv6.inet_aton(dns.ipv6.inet_ntoa(a)) == a` for every
16-octet address — whatever zero run the printer selects for `::`, including the embedded-IPv4 forms
`::a.b.c.d` and `::ffff:a.b.c.d`. -/
theorem ipv6_roundtrip (a : Bytes) (hlen : a.length = 16) (ha : ∀ x ∈ a, x < 256) :
    ∃ t, ip6Ntoa a = some t ∧ ip6Aton t = some a :=
  ip6_roundtrip a hlen ha

/-- non-vacuity and a reading aid: `2001:db8::1` -/
example : ip6Ntoa [0x20, 1, 0x0d, 0xb8, 0, 0, 0, 0, 0, 0, 0, 0, 0, 0, 0, 1]
    = some [50, 48, 48, 49, 58, 100, 98, 56, 58, 58, 49] := by decide

/-- "with arbitrary octets in character-strings": the quoted form `"` ++ `_escapify(s)` ++ `"` of any octet string
(all 256 values) is read by the tokenizer as exactly one QUOTED_STRING token whose raw value is the escaped text, and
`Token.unescape_to_bytes` (the octet-correct path used by TXT-like types) gives back `s`. -/
theorem charstring_roundtrip (s : Bytes) (hs : ∀ c ∈ s, c < 256) :
    lexLine (quote (escapifyR s)) = some [⟨.quoted, escapifyR s⟩] ∧ unescapeBytes (escapifyR s) = some s := by
  have hesc := escROk_generated
  constructor
  · apply lexLine_of_lexes
    have := lexes_quoted (escapifyR s) (quoteBody_escapify _ hesc s hs)
    simpa [quote] using this
  · exact unescapeBytes_escapify _ hesc s hs

/-- the lossless style `txt_is_utf8` (TXT, SPF, AVC, NINFO, RESINFO, WALLET): a string that is valid UTF-8 is printed through
`_escapify_unicode` of its decoded form — only `"`, `\\` and C0 controls are escaped, every other code point (DEL, C1,
NBSP, soft hyphen, zero-width/ideographic spaces, combining marks, astral planes) is emitted raw — and a string that is not
valid UTF-8 falls back to `_escapify`.  Either way the quoted text is one QUOTED_STRING token and
`Token.unescape_to_bytes` restores the octets. -/
theorem txt_utf8_roundtrip (utf8 : Bool) (s : Bytes) (hs : ∀ c ∈ s, c < 256) :
    let e := txtElement utf8 ConstsC05.unicodeEscaped Consts.rdataEscaped s
    lexLine (quote e) = some [⟨.quoted, e⟩] ∧ unescapeBytes e = some s := by
  obtain ⟨hq, hu⟩ := txtElement_rt utf8 s hs
  refine ⟨?_, hu⟩
  apply lexLine_of_lexes
  have := lexes_quoted _ hq
  simpa [quote] using this

/-- non-vacuity: `a<NBSP>b` (61 c2 a0 62) is valid UTF-8 and is printed raw as the code point U+00A0 -/
example : txtElement true ConstsC05.unicodeEscaped Consts.rdataEscaped [0x61, 0xC2, 0xA0, 0x62] = [0x61, 0xA0, 0x62] := by decide

/-- the same through `Token.unescape` + `str.encode()`, i.e. `Tokenizer.get_string` (the code-point path; the
character-string fields of HINFO/ISDN/X25/CAA/NAPTR and the URI target left it with the `fix:` commits 6aa8f9c / 210fbe5,
it remains in use for tokens that are ASCII by construction — GPOS, mnemonics, salts): `unescape` returns the octets as
*code points*, and UTF-8 encoding is the identity only below 0x80, so this path is exact only there. -/
theorem charstring_codepoint_path_ascii (s : Bytes) (hs : ∀ c ∈ s, c < 128) :
    (unescapeCP (escapifyR s)).bind utf8Encode = some s := by
  have hesc := escROk_generated
  rw [show escapifyR s = escapifyRWith Consts.rdataEscaped s from rfl,
    unescapeCP_escapify _ hesc s (fun c hc => by have := hs c hc; omega)]
  simp [utf8Encode_ascii s hs]

/-- why `get_string` must not be used for character-strings (the witness of D03): octet 0xC8 (`\200`) comes back as the two octets C3 88 -/
theorem charstring_codepoint_path_loses_high_octets :
    (unescapeCP (escapifyR [200])).bind utf8Encode = some [195, 136] := by decide

example : ∀ c ∈ ([0, 34, 92, 10, 200, 255] : Bytes), c < 256 := by decide

/-- "hex and base64 blobs with `_wordbreak` chunking and `concatenate_remaining_identifiers`": for any data, any chunk
size and any blank separator (or chunking off), the chunks are read back as identifiers whose concatenation is the
encoded text, and `unhexlify` inverts `hexlify`. -/
theorem hex_blob_parse_print (d : Bytes) (hd : ∀ x ∈ d, x < 256) (chunk : Nat) (sep : List Nat) (hc : ChunkOk chunk sep)
    (allowEmpty : Bool) (hne : allowEmpty = true ∨ d ≠ []) :
    ∃ toks, Lexes (wordbreak (hexlify d) chunk sep) toks ∧
      (concatIdents allowEmpty toks).bind unhexlify = some d := by
  refine ⟨_, lexes_wordbreak _ (hexlify_plain d hd) chunk sep hc, ?_⟩
  have hne' : allowEmpty = true ∨ hexlify d ≠ [] := by
    rcases hne with h | h
    · exact Or.inl h
    · exact Or.inr (fun e => h ((hexlify_eq_nil d).mp e))
  rw [concatIdents_chunks allowEmpty _ (hexlify_plain d hd) chunk hne']
  simp [unhexlify_hexlify d hd]

/-- the same for base64: the executable codec of the model is proved to satisfy the contract
(`b64decode(b64encode(d)) = d`, alphabet free of delimiters); the *implementation's* `base64` module is external. -/
theorem base64_blob_parse_print (d : Bytes) (hd : ∀ x ∈ d, x < 256) (hne : d ≠ []) (chunk : Nat) (sep : List Nat)
    (hc : ChunkOk chunk sep) :
    ∃ toks, Lexes (wordbreak (b64Encode d) chunk sep) toks ∧
      (concatIdents false toks).bind b64Decode = some d := by
  refine ⟨_, lexes_wordbreak _ (b64Encode_plain d) chunk sep hc, ?_⟩
  rw [concatIdents_chunks false _ (b64Encode_plain d) chunk (Or.inr (fun e => hne ((b64Encode_eq_nil d).mp e)))]
  simp [b64_roundtrip d hd]

/-- "the RFC 3597 generic form of … unknown types": `\# len hex` of any octet string, under every lossless hex
chunking style, is parsed back by `dns.rdata.from_text` to the same data (any origin / relativize setting). -/
theorem generic_form (st : Style) (env : PEnv) (data : Bytes) (hd : ∀ x ∈ data, x < 256)
    (hc : ChunkOk st.hexChunk st.hexSep) :
    fromTextRdata none env (printGeneric st data) = some (.generic data) :=
  generic_unknown_roundtrip st env data hd hc

/-- "the RFC 3597 generic form of known … types … under any origin/relativization choice": when the wire codec of the
type round-trips on the value against the origin `dns.rdata.from_text` uses for the wire form
(`wire_origin = (relativize_to or origin) if relativize else None`, commit 7f93d2c — names at or below the origin are
relativized on decoding and re-encoded against the same origin, so they no longer trip the re-encode check), the generic
text of the wire form parses back to the value.  The two hypotheses are the C02 wire round trip of the type. -/
theorem generic_form_known (tn : String) (sch : Schema) (hsch : schemaOf tn = some sch) (st : Style) (env : PEnv)
    (vals : List FV) (tail : Option FV) (w : Bytes) (hw : ∀ x ∈ w, x < 256) (hc : ChunkOk st.hexChunk st.hexSep)
    (hwire : sch.wire = true)
    (henc : encRec tn sch (wireOrigin env) vals tail = some w)
    (hdec : decRec tn sch w (wireOrigin env) = some (vals, tail)) :
    fromTextRdata (some tn) env (printGeneric st w) = some (.known vals tail) := by
  unfold fromTextRdata
  have hlex := printGeneric_lexes st w hw hc
  rw [lexLine_of_lexes _ _ hlex]
  have hstart : isGenericStart ([⟨.ident, [92, 35]⟩, ⟨.ident, natToDec w.length⟩] ++
      identToks (wordbreakChunks (hexlify w) st.hexChunk)) = true := by
    simp [isGenericStart]
  simp only [hsch, hstart, if_true, hwire, Bool.not_true, Bool.false_eq_true, if_false, parseGeneric_tokens w hw st.hexChunk, hdec, henc]

/-- non-vacuity of the encode hypothesis on the former failing input (`MX 10 m` relative to `ex.`, i.e. the wire form of
`10 m.ex.` read with origin `ex.`): the relativized name re-encodes to the given octets.  (The decode hypothesis runs
`fromWire`, defined by well-founded recursion, which `decide` cannot unfold; it is exercised on this and ~900 other
values per run by the correspondence op `c05.parse` against the implementation.) -/
example : (schemaOf "MX").bind (fun sch => encRec "MX" sch (wireOrigin { origin := some [[101, 120], []] })
    [.n 10, .nm [[109]]] none) = some [0, 10, 1, 109, 2, 101, 120, 0] := by decide

/-- "for relative and absolute names under any origin/relativization choice": a legal name over all 256 octets comes back
from its text *unchanged* in each of the configurations of `NameCfgOk` — nothing rewrites names; an absolute name read
with `relativize=False` under any origin; or the zone-file configuration (absolute origin `O` for parsing with
`relativize=True`, printing against no origin or against `O` with either `relativize` value, the name relative with
`n ++ O` legal or absolute and not below `O`).  In general `as_name` on the printed name `m` returns `nameBack env m`
(`asName_toText`): `from_text` appends the origin to a relative `m`, then `choose_relativity` is applied — so a relative
name read with `relativize=False` comes back derelativized, which is equal modulo the origin but not the same value. -/
theorem name_field_any_origin (st : Style) (env : PEnv) (n : Name) (hw : WfName n) (ho : OctetsOk n)
    (hcfg : NameCfgOk st env n) :
    ∃ text, printField st .name (.nm n) = some text ∧ Lexes text [⟨.ident, text⟩] ∧
      parseField env .name ⟨.ident, text⟩ = some (.nm n) := by
  obtain ⟨t, hp, hl, hpa, _⟩ := field_name st env n (nameCfg_ok st env n hw ho hcfg)
  exact ⟨t, hp, hl, hpa⟩

/-- "under any origin/relativization choice", `relativize_to` different from `origin` (a zone-file `$ORIGIN` below, above
or beside the zone origin): a relative name `m` in the text is completed with `origin` and the result is relativized
against `relativize_to` — `as_name(text of m) = relativize(derelativize(m, origin), relativize_to)`.  The same `asName`
reads the name of every name-bearing field kind (`.name`, the HIP server list, the IPSECKEY / AMTRELAY gateway). -/
theorem name_field_relativize_to (env : PEnv) (m o r q : Name) (hw : WfName m) (hoct : OctetsOk m)
    (ho : env.origin = some o) (hrt : env.relTo = some r) (hr : r ≠ []) (hrel : env.relativize = true)
    (hm : isAbs m = false) (hq : validate (m ++ o) = .ok q) :
    parseField env .name ⟨.ident, toText m⟩ =
      (match relativize q r with | .ok x => some (.nm x) | .error _ => none) ∧
    parseGatewayTok env 3 ⟨.ident, toText m⟩ =
      (match relativize q r with | .ok x => some ([], x) | .error _ => none) := by
  have h := asName_toText env m hw hoct
  have hb : nameBack env m = (match relativize q r with | .ok x => some x | .error _ => none) := by
    simp only [nameBack, ho, hrt, hrel, hm, hq, orOrigin, hr, chooseRelativity, if_false, if_true, Bool.false_eq_true]
    cases relativize q r <;> rfl
  constructor
  · simp only [parseField, h, hb]
    cases relativize q r <;> rfl
  · simp only [parseGatewayTok, h, hb]
    cases relativize q r <;> rfl

/-- well-formed for text (the decidable side conditions are spelled out in `FieldOk` / `TailOk`):
every field within its range, names legal and printed/parsed in a configuration that does not rewrite them,
character-strings of any octets within their length limits, blobs non-empty, chunking lossless, and the
constructor's own validation. -/
def WfText (tn : String) (st : Style) (env : PEnv) (vals : List FV) (tail : Option FV) : Prop :=
  ∃ sch, schemaOf tn = some sch ∧ FieldsOk st env sch.fields vals ∧ TailOk st env vals sch.tail tail ∧ (sch.tail = .bitmap → sch.fields ≠ []) ∧
    sch.check vals tail = true

/-- "for every implemented record type and every well-formed value, the text form parses back to an equal record: with
arbitrary octets in character-strings and names … producing text never fails": for every type described by a schema whose
field kinds have a round-trip lemma, `to_styled_text` succeeds and `dns.rdata.from_text` of its output returns exactly the
value — all 256 octet values in every character-string (HINFO, ISDN, X25, NAPTR, CAA, URI, TXT-like), every lossless
chunking style. -/
theorem parseText_printText (tn : String) (st : Style) (env : PEnv) (vals : List FV) (tail : Option FV)
    (h : WfText tn st env vals tail) :
    ∃ sch text, schemaOf tn = some sch ∧ printRec sch st vals tail = some text ∧
      fromTextRdata (some tn) env text = some (.known vals tail) := by
  obtain ⟨sch, hsch, hf, ht, hbf, hchk⟩ := h
  obtain ⟨text, hp, hr⟩ := record_roundtrip tn sch hsch st env vals tail hf ht hbf hchk
  exact ⟨sch, text, hsch, hp, hr⟩

/-- "producing text never fails for a record the library accepted from text or wire", for the schema types under `WfText`
(the URI counter-example of D04 is gone with commit 210fbe5: the target is printed through `_escapify`) -/
theorem text_total (tn : String) (st : Style) (env : PEnv) (vals : List FV) (tail : Option FV)
    (h : WfText tn st env vals tail) : ∃ sch text, schemaOf tn = some sch ∧ printRec sch st vals tail = some text := by
  obtain ⟨sch, text, a, b, _⟩ := parseText_printText tn st env vals tail h
  exact ⟨sch, text, a, b⟩

/-- field kinds that have a round-trip lemma -/
def kindProved : FK → Bool
  | .uint _ | .ttl | .algo | .name | .ip4 | .ip6 | .salt | .oct16 | .eui _ | .hex16x4 | .nsap => true
  | .cstr _ _ _ => true
  | .rdtype | .algoName | .scheme | .ctype | .keyFlags | .keyProto | .sigtime | .b32hex => true
  | .hexOne | .b64One | .nameRaw | .rcode | .gpos _ => true

/-- the record types whose every field kind is covered by `parseText_printText` -/
def provedTypes : List String :=
  ["A", "AAAA", "NS", "CNAME", "PTR", "DNAME", "NSAP-PTR", "MX", "AFSDB", "RT", "KX", "LP", "PX", "SRV", "RP", "SOA",
   "TXT", "SPF", "AVC", "NINFO", "RESINFO", "WALLET", "HINFO", "X25", "ISDN", "NAPTR", "CAA", "URI", "DS", "DLV", "CDS",
   "TLSA", "SMIMEA", "SSHFP", "ZONEMD", "DNSKEY", "CDNSKEY", "DHCID", "OPENPGPKEY", "BRID", "HHIT", "L32", "NSEC3PARAM",
   "CH-A", "EUI48", "EUI64", "NID", "L64", "NSAP",
   "CERT", "DSYNC", "KEY", "RRSIG", "SIG", "NSEC", "CSYNC", "NSEC3",
   "HIP", "TKEY", "TSIG", "IPSECKEY", "AMTRELAY", "APL", "WKS", "GPOS"]

/-- every type in `provedTypes` has a schema made of proved field kinds only (complete finite table, by `decide`) -/
theorem provedTypes_covered :
    ∀ t ∈ provedTypes, ∃ sch, schemaOf t = some sch ∧ sch.fields.all kindProved = true := by
  decide

/-- the record types for which "accepted from text ⇒ encodable to wire" is proved: every schema type (HIP and TKEY since
commit 18b73c9 bounds their key / other data by the 16-bit wire length; witnesses `corpus/C05/hip-key-65536-octets.json`,
`tkey-key-65536-octets.json`) except AMTRELAY, whose two header octets are not in schema order (oracle only) -/
def encodableTypes : List String :=
  ["A", "AAAA", "NS", "CNAME", "PTR", "DNAME", "NSAP-PTR", "MX", "AFSDB", "RT", "KX", "LP", "PX", "SRV", "RP", "SOA",
   "TXT", "SPF", "AVC", "NINFO", "RESINFO", "WALLET", "HINFO", "X25", "ISDN", "NAPTR", "CAA", "URI", "DS", "DLV", "CDS",
   "TLSA", "SMIMEA", "SSHFP", "ZONEMD", "DNSKEY", "CDNSKEY", "DHCID", "OPENPGPKEY", "BRID", "HHIT", "L32", "NSEC3PARAM",
   "CH-A", "EUI48", "EUI64", "NID", "L64", "NSAP",
   "CERT", "DSYNC", "KEY", "RRSIG", "SIG", "NSEC", "CSYNC", "NSEC3", "GPOS", "TSIG", "IPSECKEY", "APL", "WKS",
   "TKEY", "HIP"]

/-- HIP's header is not in schema order: it has its own encoder (`encHip`) and lemma (`hip_encodable`) -/
theorem encodableTypes_schemas :
    ∀ t ∈ encodableTypes, ∃ sch, schemaOf t = some sch ∧ (t = "HIP" ∨ schemaEncodable t sch = true) := by
  decide

/-- "a record accepted from text can always be encoded to wire": whatever `dns.rdata.from_text` returns for a type of
`encodableTypes` — from *any* text, any origin / relativize / relativize_to — is within what `to_wire` can pack:
integers fit their `struct` formats, character-strings, salts and hashes are at most 255 octets, addresses have 4 / 16
octets, bitmap windows are below 256 with at most 32 octets, and names can be written against any absolute origin `O`
under which the relative names of the value fit (`NamesFit`: a relative name needs an origin — `to_wire()` without one
raises `NeedAbsoluteNameOrOrigin` by design — and `n ++ O` must be a legal name, else `NameTooLong`; a name read against
the parse origin always fits it, the TKEY / TSIG algorithm name is read without any origin); HIP / TKEY keys and
TKEY other data fit their 16-bit lengths.  For the RFC 3597
generic syntax the value was re-encoded by `from_text` itself against `wireOrigin env`, so it is encodable against that.
`encRec` is tied to `Rdata.to_wire` by the correspondence op `c05.wire.enc`; composing with the C02 codec theorems was
not possible (C02 models the message-level codec over its own field kinds), so `encRec`'s packing guards are stated in
this model. -/
theorem text_accepts_encodable (tn : String) (htn : tn ∈ encodableTypes) (env : PEnv) (text : Text)
    (vals : List FV) (tail : Option FV) (h : fromTextRdata (some tn) env text = some (.known vals tail)) :
    ∃ sch toks, schemaOf tn = some sch ∧ lexLine text = some toks ∧
      (isGenericStart toks = false → ∀ O, isAbs O = true → NamesFit O vals tail → (encRec tn sch (some O) vals tail).isSome = true) ∧
      (isGenericStart toks = true → (encRec tn sch (wireOrigin env) vals tail).isSome = true) := by
  obtain ⟨sch, hsch, henc⟩ := encodableTypes_schemas tn htn
  unfold fromTextRdata at h
  cases hl : lexLine text with
  | none => simp [hl] at h
  | some toks =>
    simp only [hl, hsch] at h
    refine ⟨sch, toks, hsch, rfl, ?_, ?_⟩
    · intro hg O hO hfit
      simp only [hg, Bool.false_eq_true, if_false] at h
      cases hp : parseRec sch env toks with
      | none => simp [hp] at h
      | some p =>
        obtain ⟨v, t⟩ := p
        simp only [hp, Option.map_some, Option.some.injEq, Parsed.known.injEq] at h
        obtain ⟨rfl, rfl⟩ := h
        by_cases hh : tn = "HIP"
        · subst hh
          simp only [encRec, if_true]
          exact hip_encodable sch hsch env O hO toks _ _ hp hfit
        · simp only [encRec, hh, if_false]
          rcases henc with e | henc
          · exact absurd e hh
          · exact record_encodable tn sch env O hO henc toks _ _ hp hfit
    · intro hg
      simp only [hg, if_true] at h
      split at h
      · cases h
      · split at h
        · cases h
        · split at h
          · cases h
          · rename_i v t _
            split at h
            · rename_i w hw
              split at h
              · injection h with h; injection h with h1 h2; subst h1; subst h2
                rw [hw]; rfl
              · cases h
            · cases h

/-- "producing text never fails for a record the library accepted from text": for **every** schema type (all 65) and
*any* text, origin, relativize and relativize_to, whatever `dns.rdata.from_text` returns through the type's own syntax
can be printed under every style whose name handling succeeds on the names of the value (`NamesPrint`: `choose_relativity`
raises only `NameTooLong`, when `relativize=False` asks to complete a relative name with an origin it does not fit —
with no style origin, or `relativize=True`, it never raises, see `namesPrint_of_no_origin`).  No other field can make
`to_styled_text` raise: addresses have 4 / 16 octets, numbers, mnemonics, times, blobs and strings always print. -/
theorem text_accepted_prints (tn : String) (sch : Schema) (hsch : schemaOf tn = some sch) (env : PEnv) (text : Text)
    (toks : List Tok) (hl : lexLine text = some toks) (hg : isGenericStart toks = false)
    (vals : List FV) (tail : Option FV) (h : fromTextRdata (some tn) env text = some (.known vals tail))
    (st : Style) (hn : NamesPrint st vals tail) : (printRec sch st vals tail).isSome = true := by
  unfold fromTextRdata at h
  simp only [hl, hsch, hg, Bool.false_eq_true, if_false] at h
  cases hp : parseRec sch env toks with
  | none => simp [hp] at h
  | some p =>
    obtain ⟨v, t⟩ := p
    simp only [hp, Option.map_some, Option.some.injEq, Parsed.known.injEq] at h
    obtain ⟨rfl, rfl⟩ := h
    exact record_printable sch env st toks _ _ hp hn

/-- a style without origin prints every name as it is stored -/
theorem namesPrint_of_no_origin (st : Style) (ho : st.origin = none) (vals : List FV) (tail : Option FV) :
    NamesPrint st vals tail := by
  have h : ∀ n, NamePrints st n := fun n => ⟨toText n, by simp [nameToStyled, chooseRelativity, ho]⟩
  exact ⟨fun _ _ n _ => h n, fun _ _ n _ => h n⟩

/-- non-vacuity: the hypotheses are satisfiable — `TXT "a\200" ""` is accepted from its text (by `parseText_printText`)
and its names (none) print under every style -/
example : ∃ sch text, schemaOf "TXT" = some sch ∧
    fromTextRdata (some "TXT") {} text = some (.known [] (some (.bl [[97, 200], []]))) ∧
    NamesPrint {} [] (some (.bl [[97, 200], []])) ∧ (printRec sch {} [] (some (.bl [[97, 200], []]))).isSome = true := by
  have hw : WfText "TXT" {} {} [] (some (.bl [[97, 200], []])) := by
    refine ⟨_, rfl, trivial, ⟨by simp, ?_⟩, by decide, rfl⟩
    intro s hs; simp at hs; rcases hs with rfl | rfl <;> refine ⟨by decide, by decide⟩
  obtain ⟨sch, text, h1, h2, h3⟩ := parseText_printText "TXT" {} {} [] _ hw
  exact ⟨sch, text, h1, h3, namesPrint_of_no_origin {} rfl _ _, by rw [h2]; rfl⟩

/-- non-vacuity: `CAA 0 issue "ca.example"`'s value is packed (the value field is the rest of the rdata) -/
example : (schemaOf "CAA").bind (fun sch => encRec "CAA" sch (some [[]]) [.n 0, .b [105], .b [99, 97]] none)
    = some [0, 1, 105, 99, 97] := by decide

/-- non-vacuity: `MX 10 mail.example.`, `TXT "a\200" ""`, `DS 1 8 2 <32 octets>` are well-formed for text -/
example : WfText "MX" {} {} [.n 10, .nm [[109, 97, 105, 108], [101, 120], []]] none := by
  refine ⟨_, rfl, ⟨by simp [FieldOk, u16], ⟨?_, trivial⟩⟩, trivial, by decide, rfl⟩
  refine nameCfg_ok _ _ _ ?_ ?_ (Or.inl ⟨rfl, rfl, rfl⟩)
  · refine ⟨?_, ?_, ?_⟩ <;> decide
  · unfold OctetsOk; decide

/-- the zone-file configuration: `MX 10 mail` relative to the origin `ex.`, printed against that origin with either
`relativize` value (`mail` / `mail.ex.`), parsed with `origin=ex., relativize=True` -/
example (r : Bool) : WfText "MX" { origin := some [[101, 120], []], relativize := r }
    { origin := some [[101, 120], []], relativize := true } [.n 10, .nm [[109, 97, 105, 108]]] none := by
  refine ⟨_, rfl, ⟨by simp [FieldOk, u16], ⟨?_, trivial⟩⟩, trivial, by decide, rfl⟩
  refine nameCfg_ok _ _ _ ?_ ?_ (Or.inr (Or.inr ⟨[[101, 120], []], rfl, by decide, by unfold OctetsOk; decide, rfl,
    by decide, Or.inr rfl, Or.inl ⟨by decide, ?_⟩⟩))
  · refine ⟨?_, ?_, ?_⟩ <;> decide
  · unfold OctetsOk; decide
  · refine ⟨?_, ?_, ?_⟩ <;> decide

/-- `HINFO "\\200\"" ""`: a high octet and a quote in a character-string -/
example : WfText "HINFO" {} {} [.b [200, 34], .b []] none := by
  refine ⟨_, rfl, ⟨⟨by decide, by intro m hm; cases hm; decide, by intro m hm; cases hm; decide⟩,
    ⟨⟨by decide, by intro m hm; cases hm; decide, by intro m hm; cases hm; decide⟩, trivial⟩⟩, trivial, by decide, rfl⟩

/-- TXT under `txt_is_utf8` with a string that is valid UTF-8 (NBSP) and one that is not -/
example : WfText "TXT" { txtUtf8 := true } {} [] (some (.bl [[0x61, 0xC2, 0xA0], [0xFF]])) := by
  refine ⟨_, rfl, trivial, ⟨by simp, ?_⟩, by decide, rfl⟩
  intro s hs; simp at hs; rcases hs with rfl | rfl <;> refine ⟨by decide, by decide⟩

example : WfText "TXT" {} {} [] (some (.bl [[97, 200], []])) := by
  refine ⟨_, rfl, trivial, ⟨by simp, ?_⟩, by decide, rfl⟩
  intro s hs; simp at hs; rcases hs with rfl | rfl <;> refine ⟨by decide, by decide⟩

/-- `AMTRELAY 10 0 0 .` and `IPSECKEY 10 0 0 .` (no gateway, algorithm 0 ⇒ no key: the case repaired by a158101) -/
example : WfText "AMTRELAY" {} {} [.n 10, .n 0, .n 0] (some (.gw 0 [] [] [])) := by
  refine ⟨_, rfl, ⟨by simp [FieldOk, u8], ⟨by simp [FieldOk], ⟨by simp [FieldOk], trivial⟩⟩⟩, ⟨rfl, Or.inl ⟨rfl, rfl, rfl⟩, rfl⟩, by decide, rfl⟩

example : WfText "IPSECKEY" {} {} [.n 10, .n 0, .n 0] (some (.gw 0 [] [] [])) := by
  refine ⟨_, rfl, ⟨by simp [FieldOk, u8], ⟨by simp [FieldOk, u8], ⟨by simp [FieldOk, u8], trivial⟩⟩⟩,
    ⟨rfl, Or.inl ⟨rfl, rfl, rfl⟩, 0, rfl, fun _ => rfl, by simp, Or.inr ⟨blanks_space, by decide⟩⟩, by decide, rfl⟩

/-- `APL !1:192.168.0.0/16 2:2001:db8::/32` -/
example : WfText "APL" {} {} [] (some (.apl [(1, true, [192, 168, 0, 0], 16),
    (2, false, [0x20, 1, 0x0d, 0xb8, 0, 0, 0, 0, 0, 0, 0, 0, 0, 0, 0, 0], 32)])) := by
  refine ⟨_, rfl, trivial, ?_, by decide, rfl⟩
  intro it hit
  simp at hit
  rcases hit with rfl | rfl
  · exact Or.inl ⟨rfl, ⟨192, 168, 0, 0, rfl, by decide, by decide, by decide, by decide⟩, by decide⟩
  · exact Or.inr (Or.inl ⟨rfl, rfl, by decide, by decide⟩)

/-- `APL !7:ab00/255`: an item of an unknown address family (hex digits since commit dc89065), trailing zero octet kept -/
example : WfText "APL" {} {} [] (some (.apl [(7, true, [0xab, 0], 255)])) := by
  refine ⟨_, rfl, trivial, ?_, by decide, rfl⟩
  intro it hit
  simp at hit
  subst hit
  exact Or.inr (Or.inr ⟨by decide, by decide, by decide, by decide, by decide, by decide⟩)

/-- `WKS 10.0.0.1 6 25` (SMTP over TCP) -/
example : WfText "WKS" {} {} [] (some (.wks [10, 0, 0, 1] 6 [0, 0, 0, 0x40])) := by
  refine ⟨_, rfl, trivial, ⟨⟨10, 0, 0, 1, rfl, by decide, by decide, by decide, by decide⟩, by decide, by decide, by decide, by decide⟩,
    by decide, rfl⟩

/-- `GPOS -32.6882 116.8652 10.0`, and the latitude bound: `90.000000000000007` (< 90 + 2^-47) is accepted because
`float()` rounds it to 90.0, `90.00000000000001` is not -/
example : WfText "GPOS" {} {} [.b [45, 51, 50, 46, 54, 56, 56, 50], .b [49, 49, 54, 46, 56, 54, 53, 50], .b [49, 48, 46, 48]] none := by
  refine ⟨_, rfl, ⟨⟨by decide, by decide⟩, ⟨⟨by decide, by decide⟩, ⟨⟨by decide, by decide⟩, trivial⟩⟩⟩, trivial, by decide, rfl⟩

example : gposCheck (some (90, 47)) [57, 48, 46, 48, 48, 48, 48, 48, 48, 48, 48, 48, 48, 48, 48, 48, 48, 55] = true ∧
    gposCheck (some (90, 47)) [57, 48, 46, 48, 48, 48, 48, 48, 48, 48, 48, 48, 48, 48, 48, 48, 49] = false := by decide

end C05

import Model.Render
import Proofs.RenderSize
import Proofs.RenderTrunc
import Proofs.RenderPad
import Proofs.RenderParses
import Proofs.ParsePad
import Proofs.RenderObj
import Proofs.OriginTrunc
/-!
# C08 — rendered messages respect the size limit; truncation and padding are exact

Theorems of record about `Model/Render.lean` (`dns/renderer.py`, `Message.to_wire`).  The clamp bounds
(`ConstsC03.minSize`/`maxSize`), the TC bit, the OPT sizes and the section numbers are regenerated from
the working tree on every run.
-/
namespace C08
open Model

/-- "A rendered message never exceeds its effective size limit": whatever the message, the requested limit
(0 = default), and whether or not truncation is preferred, a successful rendering is at most the clamped
limit long, and the clamped limit lies in [512, 65535].  (Every other outcome is an error: `TooBig`, or the
other renderer errors.) -/
theorem never_exceeds (m : Message) (lim : Nat) (pt : Bool) (w : Bytes) (h : m.toWire lim pt = .ok w) :
    w.length ≤ clampSize lim m.requestPayload ∧
      ConstsC03.minSize ≤ clampSize lim m.requestPayload ∧ clampSize lim m.requestPayload ≤ ConstsC03.maxSize := by
  refine ⟨?_, clampSize_bounds _ _⟩
  unfold Message.toWire at h
  split at h
  · simp at h
  · rename_i r hr
    simp at h; subst h
    unfold Message.render at hr
    split at hr
    · simp at hr
    · rename_i tsigRes _
      split at hr
      · simp at hr
      · rename_i r3 h3
        obtain ⟨hi, hsum, _⟩ := renderSections_inv m _ pt _ _ r3 h3
        have h12 : 12 ≤ r3.maxSize + r3.reserved := by
          rw [hsum]
          have := (clampSize_bounds lim m.requestPayload).1
          have : 12 ≤ ConstsC03.minSize := by decide
          omega
        have := finish_bound r3 m.opt m.tsig m.pad _ _ r hi h12 hr
        rw [hsum] at this
        exact this

/-- "A record set that does not fit is removed whole … no compression pointer into removed bytes":
when an `add_question`/`add_rrset` overflows the budget, the renderer state afterwards is *exactly* the state
before the call (buffer, compression table, counts, budget) except that the current section has advanced.
In particular every invariant of the table (all entries below the end of the buffer, all entries decodable)
that held before the call holds after it. -/
theorem rollback_exact (s : RState) (it : Item) (s' : RState) (hb : TblBelow s) (h : s.addItem it = .tooBig s') :
    s' = { s with sec := it.sec } ∧ s'.out = s.out ∧ s'.tbl = s.tbl ∧ s'.counts = s.counts ∧ TblBelow s' := by
  have hspec := addItem_spec s it hb
  rw [h] at hspec
  obtain ⟨rfl, _⟩ := hspec.tooBig_eq
  exact ⟨rfl, rfl, rfl, rfl, hb⟩

/-- `rollback_exact` for *any* exception raised while an item is being written, not only `TooBig` (repair 2e4231d:
`_track_size` rolls back in an `except BaseException`): whatever the unfinished write had done — any octets `o` appended
to the buffer, any entries `t` added to the compression table for names inside those octets (`Appends`; every step of
writing an item is of this form: `toWireC_appends`, `rdataToWire_appends`, `rrsetToWire_appends`, and they compose) —
`_rollback(start)` leaves the renderer exactly as it was before the call, except for the section marker `_set_section`
had already moved.  This is the state the model's `.err` outcome stands for. -/
theorem rollback_exact_any (s : RState) (hb : TblBelow s) (sec : Nat) (o : Bytes) (t : CTable)
    (ha : Appends s.out s.tbl o t) :
    ({ s with sec := sec, out := o, tbl := t } : RState).rollback s.out.length = { s with sec := sec } ∧
    TblBelow { s with sec := sec } :=
  ⟨rollback_appends { s with sec := sec } o t ha hb, hb⟩

-- non-vacuity: the owner `ok.example.` and a record header written at offset 29, the suffix `example.` already in the table,
-- one entry added for `ok.example.`; then the RDATA raises: rolling back to 29 restores buffer and table
example : ({ out := List.replicate 29 0 ++ [2,111,107,192,16,0,2,0,1,0,0,1,44,0,0], tbl := [([[101,120,97,109,112,108,101],[]], 16), ([[111,107],[101,120,97,109,112,108,101],[]], 29)], maxSize := 65535, id := 1, flags := 0, sec := 1 } : RState).rollback 29
    = { out := List.replicate 29 0, tbl := [([[101,120,97,109,112,108,101],[]], 16)], maxSize := 65535, id := 1, flags := 0, sec := 1 } := by
  rfl

/-- … and the invariant "every table entry points into the buffer" holds in every state the section loops of
`to_wire` reach, so `rollback_exact` applies at every `TooBig`. -/
theorem table_below_reachable (m : Message) (L : Nat) (pt : Bool) (a b : Nat) (r : RState)
    (h : m.renderSections L pt a b = .ok r) : TblBelow r :=
  (renderSections_inv m L pt a b r h).1.below

/-- "when truncation is preferred, returns … a prefix of the record sets in section order, with TC set exactly
when something before the additional section was left out, and still carrying the configured OPT and TSIG
records.  A record set that does not fit is removed whole (no partial record sets, counts consistent …)":
a successful rendering with `prefer_truncation` is *byte for byte* either the ordinary rendering of `m`, or the
ordinary (untruncated, `prefer_truncation=False`) rendering of `m.cut k tc` for some `k` smaller than the number
of record sets, where `m.cut k tc` is `m` with every section cut so that exactly the first `k` record sets in
section order remain (whole record sets; same id, OPT, padding, TSIG, origin), and whose flags are `m.flags`
with TC added exactly when `tc = m.tcAt k`, i.e. when the first dropped record set lies in a section before
ADDITIONAL.  Header counts, parseability and compression soundness of the result are therefore those of an
ordinary rendering (C03). -/
theorem truncation_prefix (m : Message) (lim : Nat) (w : Bytes) (h : m.toWire lim true = .ok w) :
    m.toWire lim false = .ok w ∨
    ∃ k, ∃ hk : k < m.items.length, (m.cut k (m.tcAt k)).toWire lim false = .ok w ∧
      (m.cut k (m.tcAt k)).items = m.items.take k ∧
      (m.cut k (m.tcAt k)).opt = m.opt ∧ (m.cut k (m.tcAt k)).tsig = m.tsig ∧
      (m.cut k (m.tcAt k)).flags = (if m.tcAt k then m.flags ||| ConstsC03.tcFlag else m.flags) ∧
      (m.tcAt k = true ↔ m.items[k].sec < ConstsC03.secADDITIONAL) := by
  rcases toWire_truncation m lim w h with h1 | ⟨k, hk, h2⟩
  · exact Or.inl h1
  · refine Or.inr ⟨k, hk, h2, items_cut m k _, rfl, rfl, rfl, ?_⟩
    rw [tcAt_of_lt m k hk]
    simp

/-- "… counts consistent … and still carrying the configured OPT and TSIG records": whatever is truncated, the header of
the result counts exactly the kept records per section plus one for the OPT record if the message has one and one for
the TSIG record if it has one — `prefer_truncation` never drops OPT or TSIG (they are rendered after the section
loops, in the space reserved for them), and never leaves a count that disagrees with the records present.  `mc` is
the message actually rendered: `m` itself, or `m` cut to its first `k` record sets (`truncation_prefix`). -/
theorem truncation_counts_opt_tsig (m : Message) (lim : Nat) (w : Bytes) (h : m.toWire lim true = .ok w) :
    ∃ mc : Message, (mc = m ∨ ∃ k, k < m.items.length ∧ mc = m.cut k (m.tcAt k)) ∧ mc.opt = m.opt ∧ mc.tsig = m.tsig ∧
      mc.toWire lim false = .ok w ∧
      w.take 12 = u16 m.id ++ u16 mc.flags ++ u16 mc.q.length ++ u16 (rrCount mc.an) ++ u16 (rrCount mc.au)
        ++ u16 (rrCount mc.ad + (if m.opt.isSome then 1 else 0) + (if m.tsig.isSome then 1 else 0)) := by
  have key : ∀ mc : Message, mc.toWire lim false = .ok w →
      w.take 12 = u16 mc.id ++ u16 mc.flags ++ u16 mc.q.length ++ u16 (rrCount mc.an) ++ u16 (rrCount mc.au)
        ++ u16 (rrCount mc.ad + (if mc.opt.isSome then 1 else 0) + (if mc.tsig.isSome then 1 else 0)) := by
    intro mc hmc
    unfold Message.toWire at hmc
    cases hr : mc.render lim false with
    | error e => rw [hr] at hmc; simp at hmc
    | ok r =>
      rw [hr] at hmc
      simp at hmc; subst hmc
      exact (render_counts mc lim r hr).2
  rcases toWire_truncation m lim w h with h1 | ⟨k, hk, h2⟩
  · exact ⟨m, Or.inl rfl, rfl, rfl, h1, key m h1⟩
  · exact ⟨m.cut k (m.tcAt k), Or.inr ⟨k, hk, rfl⟩, rfl, rfl, h2, key _ h2⟩

/-- "returns a parseable message … still carrying the configured OPT and TSIG records": for every well-formed message
(`MsgOkP`: absolute names, opcode other than UPDATE, with or without OPT — with or without a padding request —, with or
without TSIG), at any limit, the rendering with `prefer_truncation` parses, without trailing junk, to the kept prefix
of `m` (`m` itself, or `m.cut k tc` as in `truncation_prefix`) up to the ASCII case of compressed names, with its TSIG
record and with its OPT record — the original options, followed when padding was requested by one PADDING option of
fewer than `pad` zero octets (`OptPadRel`).  Remaining gap to the full statement: relative names / origins, and
update messages (for which `C03.update_forms` gives the untruncated round trip). -/
theorem result_parses (m : Message) (lim : Nat) (w : Bytes) (hok : MsgOkP eqvSpec m) (h : m.toWire lim true = .ok w)
    (cfg : PCfg) (horg : cfg.origin = none) (hnorr : cfg.oneRRPerRRset = false) (hkey : cfg.hasKey = true) :
    ∃ m' opt', parseMessage cfg w = .ok m' ∧ OptPadRel m.pad m.opt opt' ∧
      (m'.simT eqvSpec { m with opt := opt' } ∨
        ∃ k, k < m.items.length ∧ m'.simT eqvSpec { m.cut k (m.tcAt k) with opt := opt' }) := by
  rcases toWire_truncation m lim w h with h1 | ⟨k, hk, h2⟩
  · obtain ⟨m', opt', hp, hs, hr⟩ := parse_toWire_pad m lim w hok h1 cfg horg hnorr hkey
    exact ⟨m', opt', hp, hr, Or.inl hs⟩
  · obtain ⟨m', opt', hp, hs, hr⟩ := parse_toWire_pad (m.cut k (m.tcAt k)) lim w (hok.cut k _) h2 cfg horg hnorr hkey
    exact ⟨m', opt', hp, hr, Or.inr ⟨k, hk, hs⟩⟩

/-- `result_parses` for messages that carry an origin (relative names): the truncated rendering, parsed with the same
origin, is the message or its prefix `m.cut k` *after relativisation* (`relNorm`: every section name made absolute against
the origin and relativized again — the message itself when its names are normal, see `C03.parse_render_origin`), with
the OPT (up to the padding option) and the TSIG kept; guard: the absolutized message is well formed (`MsgOkP`). -/
theorem result_parses_origin (m : Message) (o : Name) (hm : m.origin = some o) (ho : isAbs o = true) (lim : Nat) (w : Bytes)
    (hok : MsgOkP eqvSpec (m.absolutize o)) (h : m.toWire lim true = .ok w)
    (cfg : PCfg) (horg : cfg.origin = none) (hnorr : cfg.oneRRPerRRset = false) (hkey : cfg.hasKey = true) :
    ∃ m' opt', parseMessage { cfg with origin := some o } w = .ok m' ∧ m'.origin = some o ∧ OptPadRel m.pad m.opt opt' ∧
      (m'.simT eqvSpec { m.relNorm o with opt := opt' } ∨
        ∃ k, k < m.items.length ∧ m'.simT eqvSpec { (m.cut k (m.tcAt k)).relNorm o with opt := opt' }) :=
  parse_toWire_trunc_origin m o hm ho lim w hok h cfg horg hnorr hkey

-- non-vacuity: a message with origin `ex.` and relative owners whose second record set does not fit in 512 octets is cut to one set
set_option maxRecDepth 100000 in
example : (({ id := 1, flags := 32768, origin := some [[101,120],[]], q := [{ name := [[119]], rdclass := 1, rdtype := 16 }], an := [{ name := [[119]], rdclass := 1, rdtype := 16, ttl := 1, rdatas := [.raw (List.replicate 300 7)] }, { name := [[120]], rdclass := 1, rdtype := 16, ttl := 1, rdatas := [.raw (List.replicate 300 7)] }] } : Message).toWire 512 true).map (fun w => (w.length, w.take 4, w.drop 4 |>.take 4)) = .ok (334, [0, 1, 130, 0], [0, 1, 0, 1]) := by
  rfl

/-- "when padding is requested the final length, TSIG included, is a multiple of the block size": for every message
that carries an OPT record and requests padding (`pad ≠ 0`), with or without TSIG, at any limit, with or without
truncation, a successful rendering has a length divisible by the block size.  (The TSIG reserve is exact because
`Message.to_wire` renders the TSIG against a fresh compression table — repair b2718ca of DESIGN §6 D07; before it
the key name could be compressed and the witness below came out at 121 octets.) -/
theorem padding_multiple (m : Message) (lim : Nat) (pt : Bool) (w : Bytes) (o : EOpt)
    (hopt : m.opt = some o) (hpad : m.pad ≠ 0) (h : m.toWire lim pt = .ok w) :
    w.length % m.pad = 0 :=
  toWire_pad m lim pt w o hopt hpad h

-- regression (former D07 witness): `www.example. A`, `use_edns(0, pad=128)`, TSIG key `key.example.` now renders to 128 octets
set_option maxRecDepth 100000 in
example : (({ id := 1, flags := 256, requestPayload := 1232, pad := 128, q := [{ name := [[119,119,119],[101,120,97,109,112,108,101],[]], rdclass := 1, rdtype := 1 }], opt := some { ttl := 0, payload := 1232, options := [] }, tsig := some { name := [[107,101,121],[101,120,97,109,112,108,101],[]], alg := [[104,109,97,99,45,115,104,97,50,53,54],[]], time := 1700000000, fudge := 300, mac := List.replicate 32 0, origId := 1, error := 0, other := [] } } : Message).toWire 0 false).map List.length = .ok 128 := by
  rfl

/-- `padding_multiple` on the re-emit route: a message as the receiving side holds it — the result `m'` of parsing any
octets `w0` with a key —, possibly modified (`f`: any change of the sections), given an OPT record and a block size with
`use_edns(pad=…)` and rendered again, comes out as a multiple of the block, whether its TSIG record is re-emitted as
received or signed anew: in the model the MAC is data of the message, so "signed just now" and "carried over" are the
same rendering, and `Message.to_wire` clears the compression table before the TSIG record *because a TSIG is present*,
not because it was signed (the padding arithmetic counted its owner uncompressed either way). -/
theorem padding_multiple_reemit (cfg : PCfg) (w0 : Bytes) (m' : Message) (_hp : parseMessage cfg w0 = .ok m')
    (f : Message → Message) (o : EOpt) (pad : Nat) (hpad : pad ≠ 0) (lim : Nat) (pt : Bool) (w : Bytes)
    (h : ({ f m' with opt := some o, pad := pad } : Message).toWire lim pt = .ok w) :
    w.length % pad = 0 :=
  toWire_pad { f m' with opt := some o, pad := pad } lim pt w o rfl hpad h

-- non-vacuity: a received message (MAC and time as they came) with key `key.example.` below the question's suffix, padded to 128
set_option maxRecDepth 100000 in
example : (({ id := 4660, flags := 33152, requestPayload := 1232, pad := 128, q := [{ name := [[119,119,119],[101,120,97,109,112,108,101],[]], rdclass := 1, rdtype := 1 }], opt := some { ttl := 0, payload := 1232, options := [] }, tsig := some { name := [[107,101,121],[101,120,97,109,112,108,101],[]], alg := [[104,109,97,99,45,115,104,97,50,53,54],[]], time := 1690000000, fudge := 300, mac := (List.range 32).map (· + 1), origId := 4660, error := 0, other := [] } } : Message).toWire 0 true).map List.length = .ok 128 := by
  rfl

/-- … the same through the `Renderer` *object* (`add_opt(opt, pad, opt_size, tsig_size)`, `write_header`, then
`add_tsig` / `add_multi_tsig`, i.e. `_write_tsig`, the MAC being given), for a caller that does not go through
`Message.to_wire`: in any renderer state (`KeysLong`: the root name is never a table key, and the header is there — both
hold in every reachable state), whatever the compression table holds, if `add_opt` is handed the exact sizes — the OPT
record with an empty PADDING option and the TSIG record with an *uncompressed* owner — and both calls succeed, then the
signed message is a multiple of the block, and the TSIG leaves the compression table alone.  This rests on `was_padded`
being set whenever a PADDING option is written, also an empty one (unpadded size already aligned): `_write_tsig` then
writes the owner name without the table even if the key name shares a suffix with a rendered name. -/
theorem renderer_padding_multiple (s : RState) (hk : KeysLong s.tbl) (hlen : 12 ≤ s.out.length) (o : EOpt) (t : Tsig)
    (pad a b : Nat) (hpad : pad ≠ 0) (ha : a = 11 + (o.options.map fun p => p.2.length + 4).sum + 4)
    (habs : isAbs t.name = true) (hb : b = (toWire t.name).length + 10 + (tsigRdataWire t).length)
    (s1 s2 : RState) (h1 : s.addOpt o pad a b = .ok s1) (h2 : s1.writeHeader.writeTsig t = .ok s2) :
    s2.out.length % pad = 0 ∧ s2.tbl = s1.tbl :=
  addOpt_writeTsig_multiple s hk hlen o t pad a b hpad ha habs hb s1 s2 h1 h2

def okOf : Step → Option RState
  | .ok s => some s
  | _ => none

-- non-vacuity, on the aligned case: question `www.example.`, block 128, `opt_size` 15, `tsig_size` 84 (key `key.example.`,
-- hmac-sha256): 29 + 15 + 84 = 128, so the PADDING option is empty (44 octets after the OPT) and the total is 128
set_option maxRecDepth 100000 in
example : ((okOf ((RState.init 1 256 65535 none).addQuestion [[119,119,119],[101,120,97,109,112,108,101],[]] 1 1)).bind fun s =>
    (okOf (s.addOpt { ttl := 0, payload := 1232, options := [] } 128 15 84)).bind fun s1 =>
    (okOf (s1.writeHeader.writeTsig { name := [[107,101,121],[101,120,97,109,112,108,101],[]], alg := [[104,109,97,99,45,115,104,97,50,53,54],[]], time := 1700000000, fudge := 300, mac := List.replicate 32 0, origId := 1, error := 0, other := [] })).map fun s2 =>
    (s1.out.length, s2.out.length)) = some (44, 128) := by
  rfl

/-- a block so large that the padding would not fit a PADDING option (more than 65535 octets: 16-bit option length) is
`TooBig`, raised by `add_opt` before anything is written, marked or counted (repair 2d35a76; before it the option encoder's
`struct.error` escaped) -/
theorem padding_too_long_is_too_big (s : RState) (o : EOpt) (pad a b : Nat) (hpad : pad ≠ 0)
    (hbig : padLen s.out.length pad a b > 65535) : s.addOpt o pad a b = .tooBig s := by
  unfold RState.addOpt
  rw [if_pos ⟨hpad, hbig⟩]

-- non-vacuity: block 70000 on a renderer holding the header only
example : padLen (RState.init 1 0 65535 none).out.length 70000 15 0 = 69973 := by decide

/-- "rendering either raises the too-big error or …": when the OPT and TSIG reserves alone exceed the clamped limit
nothing is rendered and the outcome is `TooBig` (repair 1c55079; formerly `ValueError` from `Renderer.reserve`). -/
theorem reserve_too_big (m : Message) (lim : Nat) (pt : Bool) (b : Nat) (hb : m.tsigReserve = .ok b)
    (hbig : m.optReserve + b > clampSize lim m.requestPayload) : m.toWire lim pt = .error .tooBig := by
  simp [Message.toWire, Message.render, hb, Message.renderSections, hbig]

-- non-vacuity of `padding_multiple`: a padded EDNS query renders, to 128 octets
set_option maxRecDepth 100000 in
example : (({ id := 1, flags := 256, pad := 128, q := [{ name := [[119,119,119],[101,120,97,109,112,108,101],[]], rdclass := 1, rdtype := 1 }], opt := some { ttl := 0, payload := 1232, options := [] } } : Message).toWire 0 false).map List.length = .ok 128 := by
  rfl

-- non-vacuity of `truncation_prefix`: a response whose second answer does not fit in 512 octets is cut after the
-- first (331 octets, TC set)
set_option maxRecDepth 100000 in
example : (({ id := 1, flags := 32768, q := [{ name := [[119], []], rdclass := 1, rdtype := 16 }], an := [{ name := [[119], []], rdclass := 1, rdtype := 16, ttl := 1, rdatas := [.raw (List.replicate 300 7)] }, { name := [[120], []], rdclass := 1, rdtype := 16, ttl := 1, rdatas := [.raw (List.replicate 300 7)] }] } : Message).toWire 512 true).map (fun w => (w.length, w.take 4)) = .ok (331, [0, 1, 130, 0]) := by
  rfl

/-- non-vacuity: a two-record response rendered under a 512 limit with truncation succeeds -/
example : ∃ w, ({ id := 1, flags := 32768, q := [{ name := [[119], [101], []], rdclass := 1, rdtype := 1 }], an := [{ name := [[119], [101], []], rdclass := 1, rdtype := 1, ttl := 60, rdatas := [.raw [1, 2, 3, 4]] }] } : Message).toWire 512 true = .ok w :=
  ⟨_, rfl⟩

end C08

import Model.Render
import Proofs.RenderSize
import Proofs.RenderTrunc
import Proofs.RenderPad
import Proofs.RenderParses
/-!
# C08 — rendered messages respect the size limit; truncation and padding are exact

Theorems of record about `Model/Render.lean` (`dns/renderer.py`, `Message.to_wire`).  The clamp bounds
(`ConstsC03.minSize`/`maxSize`), the TC bit, the OPT sizes and the section numbers are regenerated from
the working tree on every run.
-/
namespace C08
open Model

/-- "A rendered message never exceeds its effective size limit": whatever the message, the requested limit
(0 = default), and whether or not truncation is preferred, a successful rendering is at most the clamped
limit long, and the clamped limit lies in [512, 65535].  (Every other outcome is an error: `TooBig`, or the
other renderer errors.) -/
theorem never_exceeds (m : Message) (lim : Nat) (pt : Bool) (w : Bytes) (h : m.toWire lim pt = .ok w) :
    w.length ≤ clampSize lim m.requestPayload ∧
      ConstsC03.minSize ≤ clampSize lim m.requestPayload ∧ clampSize lim m.requestPayload ≤ ConstsC03.maxSize := by
  refine ⟨?_, clampSize_bounds _ _⟩
  unfold Message.toWire at h
  split at h
  · simp at h
  · rename_i r hr
    simp at h; subst h
    unfold Message.render at hr
    split at hr
    · simp at hr
    · rename_i tsigRes _
      split at hr
      · simp at hr
      · rename_i r3 h3
        obtain ⟨hi, hsum, _⟩ := renderSections_inv m _ pt _ _ r3 h3
        have h12 : 12 ≤ r3.maxSize + r3.reserved := by
          rw [hsum]
          have := (clampSize_bounds lim m.requestPayload).1
          have : 12 ≤ ConstsC03.minSize := by decide
          omega
        have := finish_bound r3 m.opt m.tsig m.pad _ _ r hi h12 hr
        rw [hsum] at this
        exact this

/-- "A record set that does not fit is removed whole … no compression pointer into removed bytes":
when an `add_question`/`add_rrset` overflows the budget, the renderer state afterwards is *exactly* the state
before the call (buffer, compression table, counts, budget) except that the current section has advanced.
In particular every invariant of the table (all entries below the end of the buffer, all entries decodable)
that held before the call holds after it. -/
theorem rollback_exact (s : RState) (it : Item) (s' : RState) (hb : TblBelow s) (h : s.addItem it = .tooBig s') :
    s' = { s with sec := it.sec } ∧ s'.out = s.out ∧ s'.tbl = s.tbl ∧ s'.counts = s.counts ∧ TblBelow s' := by
  have hspec := addItem_spec s it hb
  rw [h] at hspec
  obtain ⟨rfl, _⟩ := hspec.tooBig_eq
  exact ⟨rfl, rfl, rfl, rfl, hb⟩

/-- … and the invariant "every table entry points into the buffer" holds in every state the section loops of
`to_wire` reach, so `rollback_exact` applies at every `TooBig`. -/
theorem table_below_reachable (m : Message) (L : Nat) (pt : Bool) (a b : Nat) (r : RState)
    (h : m.renderSections L pt a b = .ok r) : TblBelow r :=
  (renderSections_inv m L pt a b r h).1.below

/-- "when truncation is preferred, returns … a prefix of the record sets in section order, with TC set exactly
when something before the additional section was left out, and still carrying the configured OPT and TSIG
records.  A record set that does not fit is removed whole (no partial record sets, counts consistent …)":
a successful rendering with `prefer_truncation` is *byte for byte* either the ordinary rendering of `m`, or the
ordinary (untruncated, `prefer_truncation=False`) rendering of `m.cut k tc` for some `k` smaller than the number
of record sets, where `m.cut k tc` is `m` with every section cut so that exactly the first `k` record sets in
section order remain (whole record sets; same id, OPT, padding, TSIG, origin), and whose flags are `m.flags`
with TC added exactly when `tc = m.tcAt k`, i.e. when the first dropped record set lies in a section before
ADDITIONAL.  Header counts, parseability and compression soundness of the result are therefore those of an
ordinary rendering (C03). -/
theorem truncation_prefix (m : Message) (lim : Nat) (w : Bytes) (h : m.toWire lim true = .ok w) :
    m.toWire lim false = .ok w ∨
    ∃ k, ∃ hk : k < m.items.length, (m.cut k (m.tcAt k)).toWire lim false = .ok w ∧
      (m.cut k (m.tcAt k)).items = m.items.take k ∧
      (m.cut k (m.tcAt k)).opt = m.opt ∧ (m.cut k (m.tcAt k)).tsig = m.tsig ∧
      (m.cut k (m.tcAt k)).flags = (if m.tcAt k then m.flags ||| ConstsC03.tcFlag else m.flags) ∧
      (m.tcAt k = true ↔ m.items[k].sec < ConstsC03.secADDITIONAL) := by
  rcases toWire_truncation m lim w h with h1 | ⟨k, hk, h2⟩
  · exact Or.inl h1
  · refine Or.inr ⟨k, hk, h2, items_cut m k _, rfl, rfl, rfl, ?_⟩
    rw [tcAt_of_lt m k hk]
    simp

/-- "returns a parseable message": full statement — for every well-formed `m`, `m.toWire lim true = .ok w →
∃ m', parseMessage cfg w = .ok m'`.  Proved for the class of messages for which C03's render-then-parse theorem is
proved (`MsgOkT`: absolute names, with or without OPT, with or without TSIG, no padding, not an update): the truncated rendering parses, without trailing
junk, to the kept prefix of `m` (up to the ASCII case of compressed names), with TC as stated in
`truncation_prefix`.  What is missing: the same cases as for `C03.parse_render_partial`. -/
theorem result_parses_partial (m : Message) (lim : Nat) (w : Bytes) (hok : MsgOkT m) (h : m.toWire lim true = .ok w)
    (cfg : PCfg) (horg : cfg.origin = none) (hnorr : cfg.oneRRPerRRset = false) (hkey : cfg.hasKey = true) :
    ∃ m', parseMessage cfg w = .ok m' ∧
      (m'.simT m ∨ ∃ k, k < m.items.length ∧ m'.simT (m.cut k (m.tcAt k))) := by
  rcases toWire_truncation m lim w h with h1 | ⟨k, hk, h2⟩
  · obtain ⟨m', hp, hs⟩ := parse_toWire_full m lim w hok h1 cfg horg hnorr hkey
    exact ⟨m', hp, Or.inl hs⟩
  · obtain ⟨m', hp, hs⟩ := parse_toWire_full (m.cut k (m.tcAt k)) lim w (hok.cut k _) h2 cfg horg hnorr hkey
    exact ⟨m', hp, Or.inr ⟨k, hk, hs⟩⟩

/-- "when padding is requested the final length, TSIG included, is a multiple of the block size" — proved for
every message that carries no TSIG (any limit, with or without truncation).
Full statement (not provable for the code as shipped, see `padding_counterexample_D07`):
  `m.opt = some o → m.pad ≠ 0 → m.toWire lim pt = .ok w → w.length % m.pad = 0`.
What is missing: the TSIG reserve (`_compute_tsig_reserve`) assumes an uncompressed owner name, but
`Message.to_wire` appends the TSIG through `add_rrset` with the compression table, so the record is shorter than
reserved whenever a suffix of the key name already occurs in the message. -/
theorem padding_multiple_partial (m : Message) (lim : Nat) (pt : Bool) (w : Bytes) (o : EOpt)
    (hopt : m.opt = some o) (hpad : m.pad ≠ 0) (hguard : m.tsig = none) (h : m.toWire lim pt = .ok w) :
    w.length % m.pad = 0 :=
  toWire_pad_no_tsig m lim pt w o hopt hpad hguard h

/-- DESIGN §6 D07, in the model of the code as shipped: `www.example. A` with `use_edns(0, pad=128)` and a TSIG
key `key.example.` renders to 121 octets (the key name is compressed to `key` + pointer, 9 octets shorter than
the reserve), so the padded length is 121 mod 128. -/
theorem padding_counterexample_D07 :
    (({ id := 1, flags := 256, requestPayload := 1232, pad := 128, q := [{ name := [[119,119,119],[101,120,97,109,112,108,101],[]], rdclass := 1, rdtype := 1 }], opt := some { ttl := 0, payload := 1232, options := [] }, tsig := some { name := [[107,101,121],[101,120,97,109,112,108,101],[]], alg := [[104,109,97,99,45,115,104,97,50,53,54],[]], time := 1700000000, fudge := 300, mac := List.replicate 32 0, origId := 1, error := 0, other := [] } } : Message).toWire 0 false).map (fun w => w.length % 128) = .ok 121 := by
  rfl

-- non-vacuity of `padding_multiple_partial`: a padded EDNS query renders, to 128 octets
set_option maxRecDepth 100000 in
example : (({ id := 1, flags := 256, pad := 128, q := [{ name := [[119,119,119],[101,120,97,109,112,108,101],[]], rdclass := 1, rdtype := 1 }], opt := some { ttl := 0, payload := 1232, options := [] } } : Message).toWire 0 false).map List.length = .ok 128 := by
  rfl

-- non-vacuity of `truncation_prefix`: a response whose second answer does not fit in 512 octets is cut after the
-- first (331 octets, TC set)
set_option maxRecDepth 100000 in
example : (({ id := 1, flags := 32768, q := [{ name := [[119], []], rdclass := 1, rdtype := 16 }], an := [{ name := [[119], []], rdclass := 1, rdtype := 16, ttl := 1, rdatas := [.raw (List.replicate 300 7)] }, { name := [[120], []], rdclass := 1, rdtype := 16, ttl := 1, rdatas := [.raw (List.replicate 300 7)] }] } : Message).toWire 512 true).map (fun w => (w.length, w.take 4)) = .ok (331, [0, 1, 130, 0]) := by
  rfl

/-- non-vacuity: a two-record response rendered under a 512 limit with truncation succeeds -/
example : ∃ w, ({ id := 1, flags := 32768, q := [{ name := [[119], [101], []], rdclass := 1, rdtype := 1 }], an := [{ name := [[119], [101], []], rdclass := 1, rdtype := 1, ttl := 60, rdatas := [.raw [1, 2, 3, 4]] }] } : Message).toWire 512 true = .ok w :=
  ⟨_, rfl⟩

end C08

import Model.Net
import Proofs.NetUdp
import Proofs.NetStream
/-!
# C18 — A network exchange returns only a genuine response; stream framing is exact

Theorems of record.  `Model.Net` follows `dns/query.py` (`_addresses_equal`, `_matches_destination`, `_wait_for`,
`_udp_recv`, `receive_udp`, `udp`, `_net_read`, `_net_write`, `send_tcp`, `receive_tcp`, `tcp`) and
`Message.is_response`; `ConstsC18.*` is regenerated from the working tree on every run.  Scripts are arbitrary
lists: of datagrams (source address, what the parser finds in them) and would-block waits for UDP, of `recv`
results (chunk, would-block, EOF) and `send` results (k octets accepted, would-block) for streams; the deadline
is arbitrary.  `coe = false` is `dns.query`; `coe = true` is `dns.asyncquery.receive_udp` as shipped
(`continue_on_error=ignore_errors`), for which the "malformed is never returned" clause is refuted below.
-/
namespace C18
open Model Model.Net

/-- The constants the acceptance predicate and the framing use are the RFC 1035 / RFC 6891 ones
(QR, TC, opcode field, rcode field and its EDNS extension, the four rcodes that may come without a question,
a two-octet big-endian length prefix, the multicast ranges). -/
theorem consts_rfc :
    ConstsC18.QR = 0x8000 ∧ ConstsC18.TC = 0x0200 ∧ ConstsC18.opcodeMask = 0x7800 ∧ ConstsC18.opcodeShift = 11 ∧
    ConstsC18.opUpdate = 5 ∧ ConstsC18.rcodeMask = 0xF ∧ ConstsC18.ednsRcodeShift = 20 ∧ ConstsC18.ednsRcodeMask = 0xFF0 ∧
    ConstsC18.rcodeNoQuestion = [1, 2, 4, 5] ∧ ConstsC18.lenPrefix = 2 ∧ ConstsC18.lenPrefixBigEndianU16 = 1 ∧
    ConstsC18.mcast4Lo = 224 ∧ ConstsC18.mcast4Hi = 239 ∧ ConstsC18.mcast6 = 255 := by decide

/-- "a response to the query that was sent (QR set, same id, opcode and question)": `is_response` holds exactly
when QR is set, the ids and opcodes agree, and the question sections agree as sets of (name up to ASCII case,
class, type) — or the documented exceptions apply: an rcode of FORMERR/SERVFAIL/NOTIMP/REFUSED with an empty
question section, or an UPDATE query. -/
theorem isResponse_spec (q r : Msg) :
    isResponse q r = true ↔
      qr r.flags = true ∧ q.id = r.id ∧ opcodeOf q.flags = opcodeOf r.flags ∧
      ((ConstsC18.rcodeNoQuestion.contains (rcodeOf r.flags r.ednsflags) = true ∧ r.question = []) ∨
        opcodeOf q.flags = ConstsC18.opUpdate ∨
        ((∀ x ∈ q.question, ∃ y ∈ r.question, QEntry.same x y = true) ∧
         (∀ y ∈ r.question, ∃ x ∈ q.question, QEntry.same y x = true))) := by
  rw [isResponse_iff, questionsMatch_iff]

/-- "arrived from the queried address and port": the source check compares the *binary* forms of the two hosts
(so another spelling of the same address is the same address, and a different address never is) and the rest of
the address tuples (port; flow and scope for IPv6). -/
theorem addresses_equal_binary (af : Nat) (a b : Addr) :
    addressesEqual af a b = .ok true ↔
      ∃ n, inetPton af a.host = .ok n ∧ inetPton af b.host = .ok n ∧ a.rest = b.rest :=
  addressesEqual_iff af a b

/-- **A UDP exchange returns only a genuine response.**  For every script of datagrams and waits, every option
combination, every deadline and every send behaviour: if `udp()` returns, the message is a response to the query
sent (`is_response`), it is the datagram at the reported position of the script, that datagram came from the
queried address and port (binary comparison; or, for a multicast destination, from the queried port), and it
was a complete, well-formed message (no unignored trailing octets; no TC when truncation is to be raised). -/
theorem returned_is_response (q : Msg) (af : Nat) (dest : Addr) (timeout : Option Nat) (o : UOpts)
    (blocks : List Nat) (script : List UEv) (now : Nat) (r : URet)
    (h : udp false q af dest timeout o blocks script now = .ok r) :
    isResponse q r.msg = true ∧
    ∃ w, (dgrams script)[r.idx]? = some (r.src, w) ∧ SrcOk af r.src dest ∧
      ∃ tr, w = .full r.msg tr ∧ (tr = true → o.ignoreTrailing = true) ∧
        (tc r.msg.flags && o.raiseOnTruncation) = false := by
  unfold udp at h
  cases hs : udpSend (expiration timeout now) blocks now with
  | error e => simp [hs] at h
  | ok now1 =>
    cases hr : receiveUdp false af (some dest) (expiration timeout now) o (some q) script now1 0 with
    | error f => simp [hs, hr] at h
    | ok r' =>
      simp only [hs, hr] at h
      obtain ⟨_, w, h2, h3, h4, h5⟩ := receiveUdp_ok false af (some dest) _ o (some q) script now1 0 r' hr
      have hresp : isResponse q r'.msg = true := by
        cases hie : o.ignoreErrors
        · rw [hie] at h
          cases hq : isResponse q r'.msg
          · simp [hq] at h
          · rfl
        · simpa [rejects, hie] using h5
      simp only [hresp, Bool.or_true, Bool.not_true] at h
      simp at h
      subst h
      refine ⟨hresp, w, by simpa using h2, matchesDestination_true af _ dest _ h3, ?_⟩
      simp only [Bool.false_and] at h4
      exact (fromWire_ok_iff w _ _ _).1 h4

/-- **Spoofed, mismatched or malformed datagrams are skipped or raise as configured.**  At any point of the
exchange, for the datagram at the head of the script:
(a) from a foreign source (binary addresses or ports differ, no multicast exemption): passed over under
`ignore_unexpected`, `UnexpectedSource` otherwise;
(b) from the queried address but malformed: passed over under `ignore_errors`, the parser's error otherwise;
(c) well-formed but not a response to the query: passed over under `ignore_errors`; otherwise it is handed to
`udp()`, which raises `BadResponse` (`bad_response_raised`).
In no case is it returned by `udp()` (`returned_is_response`). -/
theorem spoof_skipped_or_raised (af : Nat) (dest : Addr) (exp : Option Nat) (o : UOpts) (q : Msg)
    (src : Addr) (w : Wire) (rest : List UEv) (now idx : Nat) :
    (∀ mc, addressesEqual af src dest = .ok false → isMulticast dest.host = .ok mc →
        (mc && src.rest == dest.rest) = false →
        receiveUdp false af (some dest) exp o (some q) (.dgram src w :: rest) now idx =
          if o.ignoreUnexpected then receiveUdp false af (some dest) exp o (some q) rest now (idx + 1)
          else .error ⟨.unexpectedSource, idx + 1⟩) ∧
    (matchesDestination af src (some dest) o.ignoreUnexpected = .ok true →
        fromWire w o.ignoreTrailing o.raiseOnTruncation false = .error .formError →
        receiveUdp false af (some dest) exp o (some q) (.dgram src w :: rest) now idx =
          if o.ignoreErrors then receiveUdp false af (some dest) exp o (some q) rest now (idx + 1)
          else .error ⟨.formError, idx + 1⟩) ∧
    (matchesDestination af src (some dest) o.ignoreUnexpected = .ok true →
        fromWire w o.ignoreTrailing o.raiseOnTruncation false = .error .other →
        receiveUdp false af (some dest) exp o (some q) (.dgram src w :: rest) now idx =
          if o.ignoreErrors then receiveUdp false af (some dest) exp o (some q) rest now (idx + 1)
          else .error ⟨.otherParse, idx + 1⟩) ∧
    (∀ m, matchesDestination af src (some dest) o.ignoreUnexpected = .ok true →
        fromWire w o.ignoreTrailing o.raiseOnTruncation false = .ok m → isResponse q m = false →
        receiveUdp false af (some dest) exp o (some q) (.dgram src w :: rest) now idx =
          if o.ignoreErrors then receiveUdp false af (some dest) exp o (some q) rest now (idx + 1)
          else .ok ⟨idx, m, src, now⟩) := by
  refine ⟨?_, ?_, ?_, ?_⟩
  · intro mc h1 h2 h3
    have hm := matchesDestination_foreign af src dest o.ignoreUnexpected mc h1 h2 h3
    simp only [receiveUdp, hm]
    cases o.ignoreUnexpected <;> simp
  · intro hm hf
    cases hie : o.ignoreErrors <;> simp [receiveUdp, hm, hf, hie]
  · intro hm hf
    cases hie : o.ignoreErrors <;> simp [receiveUdp, hm, hf, hie]
  · intro m hm hf hr
    cases hie : o.ignoreErrors <;> simp [receiveUdp, hm, hf, hie, rejects, hr]

/-- (c) continued: without `ignore_errors`, a well-formed non-response that `receive_udp` hands back makes
`udp()` raise `BadResponse`. -/
theorem bad_response_raised (q : Msg) (af : Nat) (dest : Addr) (timeout : Option Nat) (o : UOpts)
    (blocks : List Nat) (script : List UEv) (now now1 : Nat) (r : URet)
    (hs : udpSend (expiration timeout now) blocks now = .ok now1)
    (hr : receiveUdp false af (some dest) (expiration timeout now) o (some q) script now1 0 = .ok r)
    (hie : o.ignoreErrors = false) (hn : isResponse q r.msg = false) :
    udp false q af dest timeout o blocks script now = .error ⟨.badResponse, r.idx + 1⟩ := by
  simp [udp, hs, hr, hie, hn]

/-- **Bad datagrams preceding the real reply.**  If every datagram of a prefix is one that the options pass
over (foreign source under `ignore_unexpected`; malformed or mismatched under `ignore_errors`) and the next
datagram is a genuine reply from the queried address, `udp()` returns that reply (position = length of the
prefix) — however long the prefix. -/
theorem reply_after_spoofed_prefix (q : Msg) (af : Nat) (dest : Addr) (timeout : Option Nat) (o : UOpts)
    (blocks : List Nat) (pre : List (Addr × Wire)) (src : Addr) (w : Wire) (m : Msg) (rest : List UEv) (now now1 : Nat)
    (hs : udpSend (expiration timeout now) blocks now = .ok now1)
    (hpre : ∀ p ∈ pre, Skipped false af (some dest) o (some q) p.1 p.2)
    (hsrc : matchesDestination af src (some dest) o.ignoreUnexpected = .ok true)
    (hw : fromWire w o.ignoreTrailing o.raiseOnTruncation false = .ok m)
    (hresp : isResponse q m = true) :
    udp false q af dest timeout o blocks (pre.map (fun p => UEv.dgram p.1 p.2) ++ .dgram src w :: rest) now =
      .ok ⟨pre.length, m, src, now1⟩ := by
  unfold udp
  simp only [hs]
  rw [receiveUdp_skip_prefix false af (some dest) _ o (some q) pre _ now1 0 hpre]
  simp [receiveUdp, hsrc, hw, rejects, hresp]

/-- **A genuine truncated reply is reported as truncation when asked; a forged one is not.**  With
`raise_on_truncation`, a datagram from the queried address whose header has TC set and whose (possibly partial)
message is a response to the query raises `Truncated` — with or without `ignore_errors`, whether the body
parsed, was cut short, or had trailing octets.  If that message is *not* a response to the query, then under
`ignore_errors` it is passed over (an injected TC packet cannot end the exchange). -/
theorem truncation_reported (af : Nat) (dest : Addr) (exp : Option Nat) (o : UOpts) (q : Msg)
    (src : Addr) (w : Wire) (pm : Msg) (rest : List UEv) (now idx : Nat)
    (hsrc : matchesDestination af src (some dest) o.ignoreUnexpected = .ok true)
    (hrt : o.raiseOnTruncation = true) (htc : tc pm.flags = true)
    (hw : (∃ tr, w = .full pm tr) ∨ w = .broken pm true) :
    (isResponse q pm = true →
      receiveUdp false af (some dest) exp o (some q) (.dgram src w :: rest) now idx = .error ⟨.truncated, idx + 1⟩) ∧
    (isResponse q pm = false → o.ignoreErrors = true →
      receiveUdp false af (some dest) exp o (some q) (.dgram src w :: rest) now idx =
        receiveUdp false af (some dest) exp o (some q) rest now (idx + 1)) := by
  have hf : fromWire w o.ignoreTrailing o.raiseOnTruncation false = .error (.truncated pm) := by
    rcases hw with ⟨tr, rfl⟩ | rfl
    · cases tr <;> cases o.ignoreTrailing <;> simp [fromWire, htc, hrt]
    · simp [fromWire, htc, hrt]
  constructor
  · intro hr
    cases hie : o.ignoreErrors <;> simp [receiveUdp, hsrc, hf, hie, rejects, hr]
  · intro hr hie
    simp [receiveUdp, hsrc, hf, hie, rejects, hr]

/-- **Stream reassembly under every fragmentation of reads.**  Let the peer's stream be the two-octet length of
`m`, then `m`, then anything (`tail`).  For *every* way of delivering that stream — any split into chunks, any
would-block events between or before them (each wait ending before the deadline, if there is one), `recv`
returning fewer octets than asked — `receive_tcp` frames exactly `m`, and leaves exactly `tail` unread. -/
theorem framing_invariant (m tail : Bytes) (hm : m.length < 65536) (evs : List REv) (exp : Option Nat) (now : Nat)
    (hclean : Clean evs) (hdl : ∀ e, exp = some e → now + blockTimeR evs < e)
    (hs : stream evs = be16 m.length ++ m ++ tail) :
    ∃ evs' now', receiveFrame evs exp now = .ok (m, evs', now') ∧ stream evs' = tail := by
  have h2 : ConstsC18.lenPrefix = 2 := by decide
  obtain ⟨r1, evs1, now1, hr1, hc1, ht1⟩ := netRead_complete evs 2 exp now [] hclean hdl (by simp [hs, be16])
  obtain ⟨x, hx1, hx2, hx3⟩ := netRead_sound _ _ _ _ _ _ _ _ hr1
  simp only [List.nil_append] at hx1; subst hx1
  rw [hs, List.append_assoc] at hx3
  obtain ⟨e1, e2⟩ := List.append_inj hx3 (by simp [be16, hx2])
  obtain ⟨r2, evs2, now2, hr2, _, _⟩ := netRead_complete evs1 m.length exp now1 [] hc1
    (fun e he => by have := hdl e he; omega) (by simp [← e2])
  obtain ⟨y, hy1, hy2, hy3⟩ := netRead_sound _ _ _ _ _ _ _ _ hr2
  simp only [List.nil_append] at hy1; subst hy1
  rw [← e2] at hy3
  obtain ⟨f1, f2⟩ := List.append_inj hy3 hy2.symm
  refine ⟨evs2, now2, ?_, f2.symm⟩
  unfold receiveFrame
  rw [h2, hr1]
  simp only
  rw [← e1, beVal_be16 _ hm, hr2, f1]

/-- **…and of writes.**  `send_tcp` emits the two-octet length then the message; for every sequence of short
writes and would-block events the octets the socket accepts are, in order, a prefix of exactly that, and on
success all of it.  Success is guaranteed whenever the socket eventually accepts enough and no wait crosses the
deadline. -/
theorem framing_invariant_write (wire : Bytes) (sevs : List SEv) (exp : Option Nat) (now : Nat) :
    (∃ k, (sendTcp wire sevs exp now).1 = (be16 wire.length ++ wire).take k) ∧
    ((∃ v, (sendTcp wire sevs exp now).2 = .ok v) → (sendTcp wire sevs exp now).1 = be16 wire.length ++ wire) ∧
    ((∀ e, exp = some e → now + blockTimeS sevs < e) → wire.length + 2 ≤ capacity sevs →
      ∃ v, sendTcp wire sevs exp now = (be16 wire.length ++ wire, .ok v)) := by
  obtain ⟨k, h1, h2⟩ := netWrite_sound sevs (be16 wire.length ++ wire) exp now []
  refine ⟨⟨k, by simpa [sendTcp] using h1⟩, by simpa [sendTcp] using h2, ?_⟩
  intro hdl hcap
  obtain ⟨v, hv⟩ := netWrite_complete sevs (be16 wire.length ++ wire) exp now [] hdl (by simp [be16]; omega)
  refine ⟨v, ?_⟩
  have := h2 ⟨v, hv⟩
  simp only [List.nil_append] at this
  unfold sendTcp
  exact Prod.ext this hv

/-- **Never a short message.**  For every script whatsoever (EOF anywhere, any deadline): if `receive_tcp` frames
a message, then the stream really began with a two-octet length, that many octets follow and are the message,
and what is left unread is the rest of the stream. -/
theorem frame_sound (evs : List REv) (exp : Option Nat) (now : Nat) (frame : Bytes) (evs' : List REv) (now' : Nat)
    (h : receiveFrame evs exp now = .ok (frame, evs', now')) :
    ∃ ld, ld.length = 2 ∧ frame.length = beVal ld ∧ stream evs = ld ++ frame ++ stream evs' := by
  have h2 : ConstsC18.lenPrefix = 2 := by decide
  unfold receiveFrame at h
  rw [h2] at h
  split at h
  · simp at h
  · rename_i ld evs1 now1 hr1
    obtain ⟨x, hx1, hx2, hx3⟩ := netRead_sound _ _ _ _ _ _ _ _ hr1
    obtain ⟨y, hy1, hy2, hy3⟩ := netRead_sound _ _ _ _ _ _ _ _ h
    simp only [List.nil_append] at hx1 hy1
    subst hx1; subst hy1
    exact ⟨ld, hx2, hy2, by rw [hx3, hy3, List.append_assoc]⟩

/-- **Early end of stream or an expired deadline is an error.**  (i) If the stream never holds a complete
length-prefixed message — fewer than two octets, or fewer octets after the prefix than it announces —
`receive_tcp` fails, and only with `EOFError`, `Timeout`, or (no deadline, silent peer) by waiting for ever;
(ii) an EOF met while octets are still wanted is `EOFError`; (iii) a wait that would end at or after the
deadline is `Timeout`. -/
theorem eof_or_deadline_is_error (evs : List REv) (exp : Option Nat) (now : Nat) :
    (((stream evs).length < 2 ∨ (stream evs).length < 2 + beVal ((stream evs).take 2)) →
      ∃ e, receiveFrame evs exp now = .error e ∧ (e = .eof ∨ e = .timeout ∨ e = .exhausted)) ∧
    (∀ rest c acc, netRead (.eof :: rest) (c + 1) exp now acc = .error .eof) ∧
    (∀ rest c acc dt d, exp = some d → d ≤ now + dt → netRead (.block dt :: rest) (c + 1) exp now acc = .error .timeout) := by
  refine ⟨?_, ?_, ?_⟩
  · intro hshort
    cases hr : receiveFrame evs exp now with
    | ok v =>
      obtain ⟨frame, evs', now'⟩ := v
      obtain ⟨ld, h1, h2, h3⟩ := frame_sound evs exp now frame evs' now' hr
      exfalso
      have hl : (stream evs).length = 2 + frame.length + (stream evs').length := by simp [h3, h1]; omega
      have ht : (stream evs).take 2 = ld := by
        rw [h3, List.append_assoc, List.take_append_of_le_length (by omega)]
        simp [← h1]
      rw [ht] at hshort
      omega
    | error e =>
      refine ⟨e, rfl, ?_⟩
      have h2 : ConstsC18.lenPrefix = 2 := by decide
      unfold receiveFrame at hr
      split at hr
      · rename_i e' he
        simp at hr; subst hr
        exact netRead_error_kinds _ _ _ _ _ _ he
      · exact netRead_error_kinds _ _ _ _ _ _ hr
  · intro rest c acc; simp [netRead]
  · intro rest c acc dt d he hd
    subst he
    have : waitFor (some d) now dt = .error .timeout := by
      simp only [waitFor]
      split
      · rfl
      · split
        · omega
        · rfl
    simp [netRead, this]

/-- **…also for datagrams.**  In `receive_udp`, a wait that would end at or after the deadline raises `Timeout`
(whatever follows in the script), and so does a silent peer when there is a deadline; nothing is returned. -/
theorem udp_deadline_is_error (coe : Bool) (af : Nat) (dest : Option Addr) (o : UOpts) (query : Option Msg)
    (rest : List UEv) (now idx dt d : Nat) (hd : d ≤ now + dt) :
    receiveUdp coe af dest (some d) o query (.block dt :: rest) now idx = .error ⟨.timeout, idx⟩ ∧
    receiveUdp coe af dest (some d) o query [] now idx = .error ⟨.timeout, idx⟩ := by
  have : waitFor (some d) now dt = .error .timeout := by
    simp only [waitFor]
    split
    · rfl
    · split
      · omega
      · rfl
  simp [receiveUdp, this, starved]

/-- **A TCP exchange returns only a genuine response, exactly framed.**  For every send and receive script and
deadline: if `tcp()` returns, the message is a response to the query, the socket was given exactly the
length-prefixed query, the message is the parse of exactly the first length-prefixed message of the stream, and
that message was complete and well formed. -/
theorem returned_is_response_tcp (q : Msg) (qwire : Bytes) (timeout : Option Nat) (it : Bool) (parse : Bytes → Wire)
    (sevs : List SEv) (revs : List REv) (now : Nat) (sent : Bytes) (r : TRet)
    (h : tcp q qwire timeout it parse sevs revs now = (sent, .ok r)) :
    isResponse q r.msg = true ∧ sent = be16 qwire.length ++ qwire ∧
    (∃ ld, ld.length = 2 ∧ r.frame.length = beVal ld ∧ stream revs = ld ++ r.frame ++ stream r.rest) ∧
    ∃ tr, parse r.frame = .full r.msg tr ∧ (tr = true → it = true) := by
  unfold tcp at h
  simp only at h
  split at h
  · simp at h
  · rename_i sent' evs1 now1 hsend
    have hsent : sent' = be16 qwire.length ++ qwire := by
      have := (framing_invariant_write qwire sevs (expiration timeout now) now).2.1 ⟨_, by rw [hsend]⟩
      rw [hsend] at this; exact this
    split at h
    · simp at h
    · rename_i r' hrecv
      split at h
      · simp at h
      · rename_i hresp
        simp only [Prod.mk.injEq, Except.ok.injEq] at h
        obtain ⟨rfl, rfl⟩ := h
        unfold receiveTcp at hrecv
        split at hrecv
        · simp at hrecv
        · rename_i frame rest now2 hframe
          split at hrecv
          · simp at hrecv
          · simp at hrecv
          · simp at hrecv
          · rename_i m hf
            simp only [Except.ok.injEq] at hrecv
            subst hrecv
            refine ⟨by simpa using hresp, hsent, frame_sound _ _ _ _ _ _ hframe, ?_⟩
            obtain ⟨tr, h1, h2, _⟩ := (fromWire_ok_iff _ _ _ _).1 hf
            exact ⟨tr, h1, h2⟩

/-- The unchanged tree's `dns.asyncquery.receive_udp` calls the parser with `continue_on_error=ignore_errors`
(`coe = true`).  For that variant the clause "malformed datagrams … are never returned" **fails**: a datagram
from the queried address with the right id and question but a cut answer record is returned under
`ignore_errors`, although the genuine reply follows.  (`dns.query`, `coe = false`, skips it and returns the
genuine reply: `returned_is_response`.) -/
theorem async_as_shipped_returns_malformed :
    let q : Msg := ⟨4660, 256, 0, [⟨[[119, 119, 119], []], 1, 1⟩]⟩
    let bad : Msg := ⟨4660, 33152, 0, [⟨[[119, 119, 119], []], 1, 1⟩]⟩
    let a : Addr := ⟨[49, 48, 46, 49, 46, 49, 46, 49], [53]⟩
    let o : UOpts := ⟨false, false, false, false, true⟩
    let script := [UEv.dgram a (.broken bad true), UEv.dgram a (.full bad false)]
    udp true q 2 a none o [] script 100 = .ok ⟨0, bad, a, 100⟩ ∧
    udp false q 2 a none o [] script 100 = .ok ⟨1, bad, a, 100⟩ := by
  intro q bad a o script
  decide

/-! ## non-vacuity -/

/-- `returned_is_response`, `reply_after_spoofed_prefix`: a forged-source datagram, a wrong-id datagram and a cut
datagram precede the genuine reply, which is the one returned (position 3) -/
example :
    let q : Msg := ⟨4660, 256, 0, [⟨[[119, 119, 119], []], 1, 1⟩]⟩
    let good : Msg := ⟨4660, 33152, 0, [⟨[[87, 87, 87], []], 1, 1⟩]⟩
    let a : Addr := ⟨[49, 48, 46, 49, 46, 49, 46, 49], [53]⟩
    let b : Addr := ⟨[49, 48, 46, 49, 46, 49, 46, 50], [53]⟩
    let o : UOpts := ⟨true, false, false, false, true⟩
    udp false q 2 a (some 9) o [1] [.dgram b (.full good false), .block 2, .dgram a (.full { good with id := 4661 } false),
      .dgram a (.broken good true), .dgram a (.full good false)] 100 = .ok ⟨3, good, a, 103⟩ := by
  intro q good a b o; decide

/-- `truncation_reported`: hypotheses are satisfiable -/
example :
    let q : Msg := ⟨7, 0, 0, []⟩
    let pm : Msg := ⟨7, 0x8200, 0, []⟩
    let a : Addr := ⟨[49, 46, 50, 46, 51, 46, 52], [53]⟩
    matchesDestination 2 a (some a) false = .ok true ∧ tc pm.flags = true ∧ isResponse q pm = true := by
  intro q pm a; decide

/-- `framing_invariant`: a stream cut into three chunks with waits, under a deadline, and a tail -/
example :
    let evs := [REv.block 1, .data [0], .data [3, 9, 8], .block 2, .data [7, 1, 2]]
    Clean evs ∧ (∀ e, some 10 = some e → 0 + blockTimeR evs < e) ∧ stream evs = be16 3 ++ [9, 8, 7] ++ [1, 2] ∧
    receiveFrame evs (some 10) 0 = .ok ([9, 8, 7], [.data [1, 2]], 3) := by
  intro evs
  refine ⟨by simp [evs, Clean], by intro e h; cases h; decide, by decide, by decide⟩

/-- `eof_or_deadline_is_error`: a stream announcing 3 octets and ending after 2; and a deadline hit mid-message -/
example : receiveFrame [.data [0, 3, 9], .data [8], .eof] none 0 = .error .eof ∧
    receiveFrame [.data [0, 3, 9], .block 5, .data [8, 7]] (some 4) 0 = .error .timeout := by decide

/-- `addresses_equal_binary`: two spellings of one IPv6 address compare equal; the mapped IPv4 form does not -/
example :
    addressesEqual 10 ⟨[58, 58, 49], [53, 0, 0]⟩ ⟨[48, 58, 48, 58, 48, 58, 48, 58, 48, 58, 48, 58, 48, 58, 48, 48, 48, 49], [53, 0, 0]⟩ = .ok true ∧
    addressesEqual 10 ⟨[58, 58, 49], [53, 0, 0]⟩ ⟨[58, 58, 50], [53, 0, 0]⟩ = .ok false := by decide

end C18

import Model.Net
import Proofs.NetUdp
import Proofs.NetStream
import Proofs.NetAsync
import Proofs.NetBits
/-!
# C18 — A network exchange returns only a genuine response; stream framing is exact

Theorems of record.  `Model.Net` follows `dns/query.py` (`_addresses_equal`, `_matches_destination`, `_wait_for`,
`_udp_recv`, `receive_udp`, `udp`, `_net_read`, `_net_write`, `send_tcp`, `receive_tcp`, `tcp`) and
`Message.is_response`; `ConstsC18.*` is regenerated from the working tree on every run.  Scripts are arbitrary
lists: of datagrams (source address, what the parser finds in them) and would-block waits for UDP, of `recv`
results (chunk, would-block, EOF) and `send` results (k octets accepted, would-block) for streams; the deadline
is arbitrary.  A datagram is its octets plus what the message reader finds after the 12-octet header; "shorter
than a header", id, QR, opcode, TC are read by the model from the octets themselves.  `dns.asyncquery` has its
own model functions (`readExactlyA`, `receiveFrameA`, `receiveTcpA`, `sendTcpA`, `tcpA`, `receiveUdpA`, `udpA`,
`udpWithFallbackA`: backend calls with a per-call timeout) and its own theorems (`…_async`).  `coe = true` is
`dns.asyncquery.receive_udp` before repair 3f2b73a (`continue_on_error=ignore_errors`).
-/
namespace C18
open Model Model.Net

/-- The constants the acceptance predicate and the framing use are the RFC 1035 / RFC 6891 ones
(QR, TC, opcode field, rcode field and its EDNS extension, the four rcodes that may come without a question,
a two-octet big-endian length prefix, the multicast ranges). -/
theorem consts_rfc :
    ConstsC18.QR = 0x8000 ∧ ConstsC18.TC = 0x0200 ∧ ConstsC18.opcodeMask = 0x7800 ∧ ConstsC18.opcodeShift = 11 ∧
    ConstsC18.opUpdate = 5 ∧ ConstsC18.rcodeMask = 0xF ∧ ConstsC18.ednsRcodeShift = 20 ∧ ConstsC18.ednsRcodeMask = 0xFF0 ∧
    ConstsC18.rcodeNoQuestion = [1, 2, 4, 5] ∧ ConstsC18.lenPrefix = 2 ∧ ConstsC18.lenPrefixBigEndianU16 = 1 ∧
    ConstsC18.mcast4Lo = 224 ∧ ConstsC18.mcast4Hi = 239 ∧ ConstsC18.mcast6 = 255 := by decide

/-- "a response to the query that was sent (QR set, same id, opcode and question)": `is_response` holds exactly
when QR is set, the ids and opcodes agree, and the question sections agree as sets of (name up to ASCII case,
class, type) — or the documented exceptions apply: an rcode of FORMERR/SERVFAIL/NOTIMP/REFUSED with an empty
question section, or an UPDATE query. -/
theorem isResponse_spec (q r : Msg) :
    isResponse q r = true ↔
      qr r.flags = true ∧ q.id = r.id ∧ opcodeOf q.flags = opcodeOf r.flags ∧
      ((ConstsC18.rcodeNoQuestion.contains (rcodeOf r.flags r.ednsflags) = true ∧ r.question = []) ∨
        opcodeOf q.flags = ConstsC18.opUpdate ∨
        ((∀ x ∈ q.question, ∃ y ∈ r.question, QEntry.same x y = true) ∧
         (∀ y ∈ r.question, ∃ x ∈ q.question, QEntry.same y x = true))) := by
  rw [isResponse_iff, questionsMatch_iff]

/-- "arrived from the queried address and port": the source check compares the *binary* forms of the two hosts
(so another spelling of the same address is the same address, and a different address never is) and the rest of
the address tuples (port; flow and scope for IPv6). -/
theorem addresses_equal_binary (af : Nat) (a b : Addr) :
    addressesEqual af a b = .ok true ↔
      ∃ n, inetPton af a.host = .ok n ∧ inetPton af b.host = .ok n ∧ a.rest = b.rest :=
  addressesEqual_iff af a b

/-- The flag tests the acceptance predicate makes (`flags & QR`, `flags & TC`, `opcode.from_flags`) are bits 15,
9 and 14..11 of the flags word — and, the word being octets 2 and 3 of the datagram, bit 7, bit 1 and bits 6..3
of octet 2. -/
theorem flag_tests_are_header_bits (f o2 o3 : Nat) (h2 : o2 < 256) (h3 : o3 < 256) :
    (qr f = true ↔ f / 32768 % 2 = 1) ∧ (tc f = true ↔ f / 512 % 2 = 1) ∧ opcodeOf f = f / 2048 % 16 ∧
    (qr (o2 * 256 + o3) = true ↔ 128 ≤ o2) ∧ (tc (o2 * 256 + o3) = true ↔ o2 / 2 % 2 = 1) ∧
    opcodeOf (o2 * 256 + o3) = o2 / 8 % 16 :=
  ⟨qr_iff f, tc_iff f, opcodeOf_eq f, flags_octets o2 o3 h2 h3⟩

/-- **`receive_udp`, every combination of its arguments**: all 32 settings of (`ignore_unexpected`,
`one_rr_per_rrset`, `ignore_trailing`, `raise_on_truncation`, `ignore_errors`), with or without a `destination`
(without: no source check at all, `no_destination_no_source_check`), with or without a `query`, any deadline, any
script.  What it returns is the datagram at the reported position; with a destination it came from there; it has
a full header whose id / flags are the returned ones, every section parsed, no unignored trailing octets, no TC
when truncation is to be raised; and under `ignore_errors` with a query it is a response to that query. -/
theorem receive_udp_returns (af : Nat) (dest : Option Addr) (exp : Option Nat) (o : UOpts) (query : Option Msg)
    (script : List UEv) (now idx : Nat) (r : URet)
    (h : receiveUdp false af dest exp o query script now idx = .ok r) :
    idx ≤ r.idx ∧ ∃ w, (dgrams script)[r.idx - idx]? = some (r.src, w) ∧
      (∀ d, dest = some d → SrcOk af r.src d) ∧
      header w.octets = some (r.msg.id, r.msg.flags) ∧ w.body.broken = none ∧
      (questionSection w.octets r.msg.flags).2.isSome = true ∧
      r.msg.question = (questionSection w.octets r.msg.flags).1 ∧ r.msg.ednsflags = w.body.ednsflags ∧
      (w.body.trailing = true → o.ignoreTrailing = true) ∧ (tc r.msg.flags && o.raiseOnTruncation) = false ∧
      (o.ignoreErrors = true → ∀ q, query = some q → isResponse q r.msg = true) := by
  obtain ⟨h1, w, h2, hj⟩ := receiveUdp_ok false af dest exp o query script now idx r h
  obtain ⟨hm, hf, hr⟩ := (judge_accept_iff _ _ _ _ _ _ _ _).1 hj
  simp only [Bool.false_and] at hf
  obtain ⟨f1, fq1, fq2, f2, f4, f5, f6⟩ := (fromWire_ok_iff w _ _ _).1 hf
  refine ⟨h1, w, h2, ?_, f1, f4, fq1, fq2, f2, f5, f6, ?_⟩
  · intro d hd; subst hd; exact matchesDestination_true af _ d _ hm
  · intro hie q hq; subst hq; simpa [rejects, hie] using hr

/-- `destination=None`: no source check, whatever `ignore_unexpected` says. -/
theorem no_destination_no_source_check (af : Nat) (src : Addr) (iu : Bool) :
    matchesDestination af src none iu = .ok true := rfl

/-- `one_rr_per_rrset` only shapes the sections of the parsed message: it changes nothing in what is accepted,
skipped or raised. -/
theorem one_rr_per_rrset_irrelevant (coe : Bool) (af : Nat) (dest : Option Addr) (exp : Option Nat) (o : UOpts)
    (query : Option Msg) (b : Bool) (script : List UEv) (now idx : Nat) :
    receiveUdp coe af dest exp { o with oneRrPerRrset := b } query script now idx =
      receiveUdp coe af dest exp o query script now idx := by
  induction script generalizing now idx with
  | nil => rfl
  | cons ev rest ih =>
    cases ev with
    | block dt => simp only [receiveUdp]; split <;> simp [ih]
    | dgram src w =>
      have : judge coe af dest { o with oneRrPerRrset := b } query src w = judge coe af dest o query src w := rfl
      simp only [receiveUdp, this]; split <;> simp [ih]

/-- **A UDP exchange returns only a genuine response.**  For every script of datagrams and waits, every option
combination, every deadline and every send behaviour: if `udp()` returns, the message is a response to the query
sent (`is_response`), it is the datagram at the reported position of the script, that datagram came from the
queried address and port (binary comparison; or, for a multicast destination, from the queried port), it has a
full header carrying the returned id and flags, and it was a complete, well-formed message (no unignored
trailing octets; no TC when truncation is to be raised). -/
theorem returned_is_response (q : Msg) (af : Nat) (dest : Addr) (timeout : Option Nat) (o : UOpts)
    (blocks : List Nat) (script : List UEv) (now : Nat) (r : URet)
    (h : udp false q af dest timeout o blocks script now = .ok r) :
    isResponse q r.msg = true ∧
    ∃ w, (dgrams script)[r.idx]? = some (r.src, w) ∧ SrcOk af r.src dest ∧
      header w.octets = some (r.msg.id, r.msg.flags) ∧ w.body.broken = none ∧
      (w.body.trailing = true → o.ignoreTrailing = true) ∧ (tc r.msg.flags && o.raiseOnTruncation) = false := by
  unfold udp at h
  cases hs : udpSend (expiration timeout now) blocks now with
  | error e => simp [hs] at h
  | ok now1 =>
    cases hr : receiveUdp false af (some dest) (expiration timeout now) o (some q) script now1 0 with
    | error f => simp [hs, hr] at h
    | ok r' =>
      simp only [hs, hr] at h
      obtain ⟨_, w, h2, h3, h4, h5, _, _, _, h8, h9, h10⟩ := receive_udp_returns af (some dest) _ o (some q) script now1 0 r' hr
      have hresp : isResponse q r'.msg = true := by
        cases hie : o.ignoreErrors
        · rw [hie] at h
          cases hq : isResponse q r'.msg
          · simp [hq] at h
          · rfl
        · exact h10 hie q rfl
      simp only [hresp, Bool.or_true, Bool.not_true] at h
      simp at h
      subst h
      exact ⟨hresp, w, by simpa using h2, h3 dest rfl, h4, h5, h8, h9⟩

/-- **…proved about the header octets.**  The datagram `udp()` returns has at least 12 octets; its first two are
the query's id (big-endian); bit 7 of the third (QR) is set; bits 6..3 of the third are the query's opcode. -/
theorem returned_header_octets (q : Msg) (af : Nat) (dest : Addr) (timeout : Option Nat) (o : UOpts)
    (blocks : List Nat) (script : List UEv) (now : Nat) (r : URet)
    (h : udp false q af dest timeout o blocks script now = .ok r) :
    ∃ w, (dgrams script)[r.idx]? = some (r.src, w) ∧ 12 ≤ w.octets.length ∧
      ∃ o0 o1 o2 o3 rest, w.octets = o0 :: o1 :: o2 :: o3 :: rest ∧ o0 * 256 + o1 = q.id ∧
        (o2 < 256 → o3 < 256 → 128 ≤ o2 ∧ o2 / 8 % 16 = q.flags / 2048 % 16) := by
  obtain ⟨hresp, w, h1, _, h3, _⟩ := returned_is_response q af dest timeout o blocks script now r h
  obtain ⟨hl, o0, o1, o2, o3, rest, hw, hi, hf⟩ := header_some _ _ _ h3
  obtain ⟨hqr, hid, hop, _⟩ := (isResponse_iff q r.msg).1 hresp
  refine ⟨w, h1, hl, o0, o1, o2, o3, rest, hw, by omega, ?_⟩
  intro h2 h3'
  obtain ⟨f1, _, f3⟩ := flags_octets o2 o3 h2 h3'
  rw [hf] at hqr hop
  exact ⟨f1.1 hqr, by rw [← f3, ← hop, opcodeOf_eq]⟩

/-- **…and about the question octets.**  The question section of the datagram `udp()` returns — decoded by the
model from the datagram's own octets after the header (length-prefixed labels, compression pointers that must
point strictly backwards, 16-bit type and class, `qdcount` entries) — can be read to its end, is the question of
the returned message, and agrees with the query's question as a set of (name up to ASCII case, class, type),
unless one of the two documented exceptions applies (rcode FORMERR/SERVFAIL/NOTIMP/REFUSED with an empty question
section; UPDATE). -/
theorem returned_question_octets (q : Msg) (af : Nat) (dest : Addr) (timeout : Option Nat) (o : UOpts)
    (blocks : List Nat) (script : List UEv) (now : Nat) (r : URet)
    (h : udp false q af dest timeout o blocks script now = .ok r) :
    ∃ w qs after, (dgrams script)[r.idx]? = some (r.src, w) ∧
      questionSection w.octets r.msg.flags = (qs, some after) ∧ r.msg.question = qs ∧
      ((ConstsC18.rcodeNoQuestion.contains (rcodeOf r.msg.flags r.msg.ednsflags) = true ∧ qs = []) ∨
        opcodeOf q.flags = ConstsC18.opUpdate ∨
        ((∀ x ∈ q.question, ∃ y ∈ qs, QEntry.same x y = true) ∧ (∀ y ∈ qs, ∃ x ∈ q.question, QEntry.same y x = true))) := by
  have hret := returned_is_response q af dest timeout o blocks script now r h
  unfold udp at h
  cases hs : udpSend (expiration timeout now) blocks now with
  | error e => simp [hs] at h
  | ok now1 =>
    cases hr : receiveUdp false af (some dest) (expiration timeout now) o (some q) script now1 0 with
    | error f => simp [hs, hr] at h
    | ok r' =>
      simp only [hs, hr] at h
      obtain ⟨_, w, h2, _, _, _, h6, h7, _⟩ := receive_udp_returns af (some dest) _ o (some q) script now1 0 r' hr
      have hrr : r' = r := by
        split at h
        · simp at h
        · simpa using h
      subst hrr
      cases hq : questionSection w.octets r'.msg.flags with
      | mk qs after =>
        rw [hq] at h6 h7
        cases after with
        | none => simp at h6
        | some a =>
          refine ⟨w, qs, a, by simpa using h2, hq, h7, ?_⟩
          have := (isResponse_spec q r'.msg).1 hret.1
          rw [h7] at this
          exact this.2.2.2

/-- **Spoofed, mismatched or malformed datagrams are skipped or raise as configured.**  At any point of the
exchange, for the datagram at the head of the script:
(a) from a foreign source (binary addresses or ports differ, no multicast exemption): passed over under
`ignore_unexpected`, `UnexpectedSource` otherwise;
(b) from the right place (or no destination given) but malformed: passed over under `ignore_errors`, the parser's
error otherwise;
(c) well-formed but not a response to the query: passed over under `ignore_errors`; otherwise it is handed to
`udp()`, which raises `BadResponse` (`bad_response_raised`).
In no case is it returned by `udp()` (`returned_is_response`). -/
theorem spoof_skipped_or_raised (af : Nat) (dest : Addr) (odest : Option Addr) (exp : Option Nat) (o : UOpts) (q : Msg)
    (src : Addr) (w : Wire) (rest : List UEv) (now idx : Nat) :
    (∀ mc, addressesEqual af src dest = .ok false → isMulticast dest.host = .ok mc →
        (mc && src.rest == dest.rest) = false →
        receiveUdp false af (some dest) exp o (some q) (.dgram src w :: rest) now idx =
          if o.ignoreUnexpected then receiveUdp false af (some dest) exp o (some q) rest now (idx + 1)
          else .error ⟨.unexpectedSource, idx + 1, now⟩) ∧
    (matchesDestination af src odest o.ignoreUnexpected = .ok true →
        fromWire w o.ignoreTrailing o.raiseOnTruncation false = .error .formError →
        receiveUdp false af odest exp o (some q) (.dgram src w :: rest) now idx =
          if o.ignoreErrors then receiveUdp false af odest exp o (some q) rest now (idx + 1)
          else .error ⟨.formError, idx + 1, now⟩) ∧
    (matchesDestination af src odest o.ignoreUnexpected = .ok true →
        fromWire w o.ignoreTrailing o.raiseOnTruncation false = .error .other →
        receiveUdp false af odest exp o (some q) (.dgram src w :: rest) now idx =
          if o.ignoreErrors then receiveUdp false af odest exp o (some q) rest now (idx + 1)
          else .error ⟨.otherParse, idx + 1, now⟩) ∧
    (∀ m, matchesDestination af src odest o.ignoreUnexpected = .ok true →
        fromWire w o.ignoreTrailing o.raiseOnTruncation false = .ok m → isResponse q m = false →
        receiveUdp false af odest exp o (some q) (.dgram src w :: rest) now idx =
          if o.ignoreErrors then receiveUdp false af odest exp o (some q) rest now (idx + 1)
          else .ok ⟨idx, m, src, now⟩) := by
  refine ⟨?_, ?_, ?_, ?_⟩
  · intro mc h1 h2 h3
    have hm := matchesDestination_foreign af src dest o.ignoreUnexpected mc h1 h2 h3
    simp only [receiveUdp, judge, hm]
    cases o.ignoreUnexpected <;> simp
  · intro hm hf
    cases hie : o.ignoreErrors <;> simp [receiveUdp, judge, hm, hf, hie]
  · intro hm hf
    cases hie : o.ignoreErrors <;> simp [receiveUdp, judge, hm, hf, hie]
  · intro m hm hf hr
    cases hie : o.ignoreErrors <;> simp [receiveUdp, judge, hm, hf, hie, rejects, hr]

/-- (c) continued: without `ignore_errors`, a well-formed non-response that `receive_udp` hands back makes
`udp()` raise `BadResponse`. -/
theorem bad_response_raised (q : Msg) (af : Nat) (dest : Addr) (timeout : Option Nat) (o : UOpts)
    (blocks : List Nat) (script : List UEv) (now now1 : Nat) (r : URet)
    (hs : udpSend (expiration timeout now) blocks now = .ok now1)
    (hr : receiveUdp false af (some dest) (expiration timeout now) o (some q) script now1 0 = .ok r)
    (hie : o.ignoreErrors = false) (hn : isResponse q r.msg = false) :
    udp false q af dest timeout o blocks script now = .error ⟨.badResponse, r.idx + 1, r.recvTime⟩ := by
  simp [udp, hs, hr, hie, hn]

/-- **Bad datagrams preceding the real reply.**  If every datagram of a prefix is one that the options pass
over (`skipped_iff`: foreign source under `ignore_unexpected`; malformed or mismatched under `ignore_errors`) and
the next datagram is a genuine reply from the queried address, `udp()` returns that reply (position = length of
the prefix) — however long the prefix. -/
theorem reply_after_spoofed_prefix (q : Msg) (af : Nat) (dest : Addr) (timeout : Option Nat) (o : UOpts)
    (blocks : List Nat) (pre : List (Addr × Wire)) (src : Addr) (w : Wire) (m : Msg) (rest : List UEv) (now now1 : Nat)
    (hs : udpSend (expiration timeout now) blocks now = .ok now1)
    (hpre : ∀ p ∈ pre, Skipped false af (some dest) o (some q) p.1 p.2)
    (hsrc : matchesDestination af src (some dest) o.ignoreUnexpected = .ok true)
    (hw : fromWire w o.ignoreTrailing o.raiseOnTruncation false = .ok m)
    (hresp : isResponse q m = true) :
    udp false q af dest timeout o blocks (pre.map (fun p => UEv.dgram p.1 p.2) ++ .dgram src w :: rest) now =
      .ok ⟨pre.length, m, src, now1⟩ := by
  unfold udp
  simp only [hs]
  rw [receiveUdp_skip_prefix false af (some dest) _ o (some q) pre _ now1 0 hpre]
  simp [receiveUdp, judge, hsrc, hw, rejects, hresp]

/-- the message the reader has in hand when it raises `Truncated`: header fields from the octets, the rest as
far as the body got -/
def partialMsg (w : Wire) (id flags : Nat) : Msg :=
  ⟨id, flags, if (questionSection w.octets flags).2.isSome then w.body.ednsflags else 0, (questionSection w.octets flags).1⟩

/-- **A genuine truncated reply is reported as truncation when asked; a forged one is not.**  With
`raise_on_truncation`, a datagram from the queried address whose header octets carry TC and whose (possibly
partial) message is a response to the query raises `Truncated` — with or without `ignore_errors`, whether the
body parsed, was cut short (`FormError` family) in or after the question section, or had trailing octets.  If that message is *not* a response to
the query, then under `ignore_errors` it is passed over (an injected TC packet cannot end the exchange). -/
theorem truncation_reported (af : Nat) (dest : Option Addr) (exp : Option Nat) (o : UOpts) (q : Msg)
    (src : Addr) (w : Wire) (id flags : Nat) (rest : List UEv) (now idx : Nat)
    (hsrc : matchesDestination af src dest o.ignoreUnexpected = .ok true)
    (hrt : o.raiseOnTruncation = true) (hh : header w.octets = some (id, flags)) (htc : tc flags = true)
    (hw : (questionSection w.octets flags).2.isSome = true → w.body.broken = none ∨ w.body.broken = some true) :
    (isResponse q (partialMsg w id flags) = true →
      receiveUdp false af dest exp o (some q) (.dgram src w :: rest) now idx = .error ⟨.truncated, idx + 1, now⟩) ∧
    (isResponse q (partialMsg w id flags) = false → o.ignoreErrors = true →
      receiveUdp false af dest exp o (some q) (.dgram src w :: rest) now idx =
        receiveUdp false af dest exp o (some q) rest now (idx + 1)) := by
  have hf : fromWire w o.ignoreTrailing o.raiseOnTruncation false = .error (.truncated (partialMsg w id flags)) := by
    unfold fromWire partialMsg
    cases hq : (questionSection w.octets flags).2.isSome
    · simp [hh, hq, htc, hrt]
    · rcases hw hq with hb | hb
      · cases ht : w.body.trailing <;> cases o.ignoreTrailing <;> simp [hh, hq, hb, htc, hrt]
      · simp [hh, hq, hb, htc, hrt]
  constructor
  · intro hr
    cases hie : o.ignoreErrors <;> simp [receiveUdp, judge, hsrc, hf, hie, rejects, hr]
  · intro hr hie
    simp [receiveUdp, judge, hsrc, hf, hie, rejects, hr]

/-- **Stream reassembly under every fragmentation of reads.**  Let the peer's stream be the two-octet length of
`m`, then `m`, then anything (`tail`).  For *every* way of delivering that stream — any split into chunks, any
would-block events between or before them (each wait ending before the deadline, if there is one), `recv`
returning fewer octets than asked — `receive_tcp` frames exactly `m`, and leaves exactly `tail` unread. -/
theorem framing_invariant (m tail : Bytes) (hm : m.length < 65536) (evs : List REv) (exp : Option Nat) (now : Nat)
    (hclean : Clean evs) (hdl : ∀ e, exp = some e → now + blockTimeR evs < e)
    (hs : stream evs = be16 m.length ++ m ++ tail) :
    ∃ evs' now', receiveFrame evs exp now = .ok (m, evs', now') ∧ stream evs' = tail := by
  have h2 : ConstsC18.lenPrefix = 2 := by decide
  obtain ⟨r1, evs1, now1, hr1, hc1, ht1⟩ := netRead_complete evs 2 exp now [] hclean hdl (by simp [hs, be16])
  obtain ⟨x, hx1, hx2, hx3⟩ := netRead_sound _ _ _ _ _ _ _ _ hr1
  simp only [List.nil_append] at hx1; subst hx1
  rw [hs, List.append_assoc] at hx3
  obtain ⟨e1, e2⟩ := List.append_inj hx3 (by simp [be16, hx2])
  obtain ⟨r2, evs2, now2, hr2, _, _⟩ := netRead_complete evs1 m.length exp now1 [] hc1
    (fun e he => by have := hdl e he; omega) (by simp [← e2])
  obtain ⟨y, hy1, hy2, hy3⟩ := netRead_sound _ _ _ _ _ _ _ _ hr2
  simp only [List.nil_append] at hy1; subst hy1
  rw [← e2] at hy3
  obtain ⟨f1, f2⟩ := List.append_inj hy3 hy2.symm
  refine ⟨evs2, now2, ?_, f2.symm⟩
  unfold receiveFrame
  rw [h2, hr1]
  simp only
  rw [← e1, beVal_be16 _ hm, hr2, f1]

/-- **…and of writes.**  `send_tcp` emits the two-octet length then the message; for every sequence of short
writes and would-block events the octets the socket accepts are, in order, a prefix of exactly that, and on
success all of it.  Success is guaranteed whenever the socket eventually accepts enough and no wait crosses the
deadline. -/
theorem framing_invariant_write (wire : Bytes) (sevs : List SEv) (exp : Option Nat) (now : Nat) :
    (∃ k, (sendTcp wire sevs exp now).1 = (be16 wire.length ++ wire).take k) ∧
    ((∃ v, (sendTcp wire sevs exp now).2 = .ok v) → (sendTcp wire sevs exp now).1 = be16 wire.length ++ wire) ∧
    ((∀ e, exp = some e → now + blockTimeS sevs < e) → wire.length + 2 ≤ capacity sevs →
      ∃ v, sendTcp wire sevs exp now = (be16 wire.length ++ wire, .ok v)) := by
  obtain ⟨k, h1, h2⟩ := netWrite_sound sevs (be16 wire.length ++ wire) exp now []
  refine ⟨⟨k, by simpa [sendTcp] using h1⟩, by simpa [sendTcp] using h2, ?_⟩
  intro hdl hcap
  obtain ⟨v, hv⟩ := netWrite_complete sevs (be16 wire.length ++ wire) exp now [] hdl (by simp [be16]; omega)
  refine ⟨v, ?_⟩
  have := h2 ⟨v, hv⟩
  simp only [List.nil_append] at this
  unfold sendTcp
  exact Prod.ext this hv

/-- **Never a short message.**  For every script whatsoever (EOF anywhere, any deadline): if `receive_tcp` frames
a message, then the stream really began with a two-octet length, that many octets follow and are the message,
and what is left unread is the rest of the stream. -/
theorem frame_sound (evs : List REv) (exp : Option Nat) (now : Nat) (frame : Bytes) (evs' : List REv) (now' : Nat)
    (h : receiveFrame evs exp now = .ok (frame, evs', now')) :
    ∃ ld, ld.length = 2 ∧ frame.length = beVal ld ∧ stream evs = ld ++ frame ++ stream evs' := by
  have h2 : ConstsC18.lenPrefix = 2 := by decide
  unfold receiveFrame at h
  rw [h2] at h
  split at h
  · simp at h
  · rename_i ld evs1 now1 hr1
    obtain ⟨x, hx1, hx2, hx3⟩ := netRead_sound _ _ _ _ _ _ _ _ hr1
    obtain ⟨y, hy1, hy2, hy3⟩ := netRead_sound _ _ _ _ _ _ _ _ h
    simp only [List.nil_append] at hx1 hy1
    subst hx1; subst hy1
    exact ⟨ld, hx2, hy2, by rw [hx3, hy3, List.append_assoc]⟩

/-- **Early end of stream or an expired deadline is an error.**  (i) If the stream never holds a complete
length-prefixed message — fewer than two octets, or fewer octets after the prefix than it announces —
`receive_tcp` fails, and only with `EOFError`, `Timeout`, or (no deadline, silent peer) by waiting for ever;
(ii) an EOF met while octets are still wanted is `EOFError`; (iii) a wait that would end at or after the
deadline is `Timeout`. -/
theorem eof_or_deadline_is_error (evs : List REv) (exp : Option Nat) (now : Nat) :
    (((stream evs).length < 2 ∨ (stream evs).length < 2 + beVal ((stream evs).take 2)) →
      ∃ e, receiveFrame evs exp now = .error e ∧ (e = .eof ∨ e = .timeout ∨ e = .exhausted)) ∧
    (∀ rest c acc, netRead (.eof :: rest) (c + 1) exp now acc = .error .eof) ∧
    (∀ rest c acc dt d, exp = some d → d ≤ now + dt → netRead (.block dt :: rest) (c + 1) exp now acc = .error .timeout) := by
  refine ⟨?_, ?_, ?_⟩
  · intro hshort
    cases hr : receiveFrame evs exp now with
    | ok v =>
      obtain ⟨frame, evs', now'⟩ := v
      obtain ⟨ld, h1, h2, h3⟩ := frame_sound evs exp now frame evs' now' hr
      exfalso
      have hl : (stream evs).length = 2 + frame.length + (stream evs').length := by simp [h3, h1]; omega
      have ht : (stream evs).take 2 = ld := by
        rw [h3, List.append_assoc, List.take_append_of_le_length (by omega)]
        simp [← h1]
      rw [ht] at hshort
      omega
    | error e =>
      refine ⟨e, rfl, ?_⟩
      have h2 : ConstsC18.lenPrefix = 2 := by decide
      unfold receiveFrame at hr
      split at hr
      · rename_i e' he
        simp at hr; subst hr
        exact netRead_error_kinds _ _ _ _ _ _ he
      · exact netRead_error_kinds _ _ _ _ _ _ hr
  · intro rest c acc; simp [netRead]
  · intro rest c acc dt d he hd
    subst he
    have : waitFor (some d) now dt = .error .timeout := by
      simp only [waitFor]
      split
      · rfl
      · split
        · omega
        · rfl
    simp [netRead, this]

/-- **…also for datagrams.**  In `receive_udp`, a wait that would end at or after the deadline raises `Timeout`
(whatever follows in the script), and so does a silent peer when there is a deadline; nothing is returned. -/
theorem udp_deadline_is_error (coe : Bool) (af : Nat) (dest : Option Addr) (o : UOpts) (query : Option Msg)
    (rest : List UEv) (now idx dt d : Nat) (hd : d ≤ now + dt) :
    (∃ t, receiveUdp coe af dest (some d) o query (.block dt :: rest) now idx = .error ⟨.timeout, idx, t⟩) ∧
    (∃ t, receiveUdp coe af dest (some d) o query [] now idx = .error ⟨.timeout, idx, t⟩) := by
  have : waitFor (some d) now dt = .error .timeout := by
    simp only [waitFor]
    split
    · rfl
    · split
      · omega
      · rfl
  exact ⟨⟨giveUpClock (some d) now, by simp [receiveUdp, this]⟩, ⟨giveUpClock (some d) now, by simp [receiveUdp, starved]⟩⟩

/-- **A TCP exchange returns only a genuine response, exactly framed.**  For every send and receive script and
deadline: if `tcp()` returns, the message is a response to the query, the socket was given exactly the
length-prefixed query, the message is the parse of exactly the first length-prefixed message of the stream (id
and flags read from that frame's own header octets), and that message was complete and well formed. -/
theorem returned_is_response_tcp (q : Msg) (qwire : Bytes) (timeout : Option Nat) (it : Bool) (body : Bytes → Body)
    (sevs : List SEv) (revs : List REv) (now : Nat) (sent : Bytes) (r : TRet)
    (h : tcp q qwire timeout it body sevs revs now = (sent, .ok r)) :
    isResponse q r.msg = true ∧ sent = be16 qwire.length ++ qwire ∧
    (∃ ld, ld.length = 2 ∧ r.frame.length = beVal ld ∧ stream revs = ld ++ r.frame ++ stream r.rest) ∧
    header r.frame = some (r.msg.id, r.msg.flags) ∧ (body r.frame).broken = none ∧
    ((body r.frame).trailing = true → it = true) := by
  unfold tcp at h
  simp only at h
  cases hsend : sendTcp qwire sevs (expiration timeout now) now with
  | mk sent' res =>
    cases res with
    | error e => simp [hsend] at h
    | ok v =>
      obtain ⟨evs1, now1⟩ := v
      have hsent : sent' = be16 qwire.length ++ qwire := by
        have := (framing_invariant_write qwire sevs (expiration timeout now) now).2.1 ⟨_, by rw [hsend]⟩
        rw [hsend] at this; exact this
      simp only [hsend] at h
      cases hrecv : receiveTcp body it revs (expiration timeout now) now1 with
      | error e => simp [hrecv] at h
      | ok r' =>
        simp only [hrecv] at h
        cases hresp : isResponse q r'.msg with
        | false => simp [hresp] at h
        | true =>
          simp [hresp] at h
          obtain ⟨rfl, rfl⟩ := h
          unfold receiveTcp at hrecv
          cases hframe : receiveFrame revs (expiration timeout now) now1 with
          | error e => simp [hframe] at hrecv
          | ok v =>
            obtain ⟨frame, rest, now2⟩ := v
            simp only [hframe] at hrecv
            cases hp : parseFrame body it false frame with
            | error e => simp [hp] at hrecv
            | ok m =>
              simp [hp] at hrecv
              subst hrecv
              unfold parseFrame at hp
              cases hf : fromWire ⟨frame, body frame⟩ it false false with
              | error e => cases e <;> simp [hf] at hp
              | ok m' =>
                simp [hf] at hp; subst hp
                obtain ⟨f1, _, _, _, f4, f5, _⟩ := (fromWire_ok_iff _ _ _ _).1 hf
                exact ⟨hresp, hsent, frame_sound _ _ _ _ _ _ hframe, f1, f4, f5⟩

/-! ## `udp_with_fallback` -/

/-- **TCP is used only after a truncation.**  If the UDP phase of `udp_with_fallback` (`udp()` with
`raise_on_truncation=True`) returns a message, that message is the result, `used_tcp` is `False` and the TCP
socket is never touched; if it raises anything but `Truncated`, that error is the result and the TCP socket is
never touched. -/
theorem fallback_tcp_only_after_truncation (q : Msg) (qwire : Bytes) (af : Nat) (dest : Addr) (timeout : Option Nat)
    (o : UOpts) (blocks : List Nat) (script : List UEv) (body : Bytes → Body) (sevs : List SEv) (revs : List REv) (now : Nat) :
    (∀ r, udp false q af dest timeout { o with raiseOnTruncation := true } blocks script now = .ok r →
      udpWithFallback q qwire af dest timeout o blocks script body sevs revs now = ([], .ok ⟨r.msg, false, r.recvTime - now⟩)) ∧
    (∀ f, udp false q af dest timeout { o with raiseOnTruncation := true } blocks script now = .error f →
      f.err ≠ .truncated →
      udpWithFallback q qwire af dest timeout o blocks script body sevs revs now = ([], .error f.err)) := by
  constructor
  · intro r h; simp [udpWithFallback, h]
  · intro f h hne
    obtain ⟨e, i, t⟩ := f
    cases e <;> simp_all [udpWithFallback]

/-- **A truncated UDP reply leads to exactly one TCP exchange with the same query.**  If the UDP phase raises
`Truncated` (at clock `t`), the result of `udp_with_fallback` is the result of `tcp()` for the *same* query,
started at `t` with a fresh deadline, `used_tcp = True`.  Consequently (by `returned_is_response_tcp` and
`framing_invariant_write`): what the TCP socket is given is a prefix of one length-prefixed copy of the query —
on success exactly one copy — and the message returned is a response to the query, parsed from exactly the first
length-prefixed message of the TCP stream. -/
theorem fallback_one_tcp_exchange (q : Msg) (qwire : Bytes) (af : Nat) (dest : Addr) (timeout : Option Nat)
    (o : UOpts) (blocks : List Nat) (script : List UEv) (body : Bytes → Body) (sevs : List SEv) (revs : List REv) (now i t : Nat)
    (h : udp false q af dest timeout { o with raiseOnTruncation := true } blocks script now = .error ⟨.truncated, i, t⟩) :
    udpWithFallback q qwire af dest timeout o blocks script body sevs revs now =
        asFallback t (tcp q qwire timeout o.ignoreTrailing body sevs revs t) ∧
    (∃ k, (udpWithFallback q qwire af dest timeout o blocks script body sevs revs now).1 = (be16 qwire.length ++ qwire).take k) ∧
    (∀ fr, (udpWithFallback q qwire af dest timeout o blocks script body sevs revs now).2 = .ok fr →
      fr.usedTcp = true ∧ isResponse q fr.msg = true ∧
      (udpWithFallback q qwire af dest timeout o blocks script body sevs revs now).1 = be16 qwire.length ++ qwire) := by
  have e1 : udpWithFallback q qwire af dest timeout o blocks script body sevs revs now =
      asFallback t (tcp q qwire timeout o.ignoreTrailing body sevs revs t) := by
    simp [udpWithFallback, h]
  cases ht : tcp q qwire timeout o.ignoreTrailing body sevs revs t with
  | mk sent res =>
    have hpre : ∃ k, sent = (be16 qwire.length ++ qwire).take k := by
      have : sent = (tcp q qwire timeout o.ignoreTrailing body sevs revs t).1 := by rw [ht]
      rw [this]
      unfold tcp
      simp only
      obtain ⟨k, hk⟩ := (framing_invariant_write qwire sevs (expiration timeout t) t).1
      cases hs : sendTcp qwire sevs (expiration timeout t) t with
      | mk s' r' =>
        rw [hs] at hk
        cases r' with
        | error e => exact ⟨k, hk⟩
        | ok v =>
          simp only
          split <;> (try split) <;> exact ⟨k, hk⟩
    cases res with
    | error e =>
      rw [e1, ht]
      exact ⟨rfl, hpre, by intro fr hfr; simp [asFallback] at hfr⟩
    | ok r =>
      rw [e1, ht]
      refine ⟨rfl, hpre, ?_⟩
      intro fr hfr
      simp [asFallback] at hfr; subst hfr
      obtain ⟨g1, g2, _⟩ := returned_is_response_tcp q qwire timeout o.ignoreTrailing body sevs revs t sent r ht
      exact ⟨rfl, g1, g2⟩

/-- **End to end**: spoofed / mismatched / malformed datagrams that the options pass over, then a genuine
truncated reply from the queried address ⇒ `udp_with_fallback` is the TCP exchange with the same query started at
the moment that reply arrived. -/
theorem truncated_reply_falls_back (q : Msg) (qwire : Bytes) (af : Nat) (dest : Addr) (timeout : Option Nat)
    (o : UOpts) (blocks : List Nat) (pre : List (Addr × Wire)) (src : Addr) (w : Wire) (id flags : Nat) (rest : List UEv)
    (body : Bytes → Body) (sevs : List SEv) (revs : List REv) (now now1 : Nat)
    (hs : udpSend (expiration timeout now) blocks now = .ok now1)
    (hpre : ∀ p ∈ pre, Skipped false af (some dest) { o with raiseOnTruncation := true } (some q) p.1 p.2)
    (hsrc : matchesDestination af src (some dest) o.ignoreUnexpected = .ok true)
    (hh : header w.octets = some (id, flags)) (htc : tc flags = true)
    (hw : (questionSection w.octets flags).2.isSome = true → w.body.broken = none ∨ w.body.broken = some true)
    (hresp : isResponse q (partialMsg w id flags) = true) :
    udpWithFallback q qwire af dest timeout o blocks (pre.map (fun p => UEv.dgram p.1 p.2) ++ .dgram src w :: rest)
        body sevs revs now = asFallback now1 (tcp q qwire timeout o.ignoreTrailing body sevs revs now1) := by
  have hudp : udp false q af dest timeout { o with raiseOnTruncation := true } blocks
      (pre.map (fun p => UEv.dgram p.1 p.2) ++ .dgram src w :: rest) now = .error ⟨.truncated, pre.length + 1, now1⟩ := by
    unfold udp
    simp only [hs]
    rw [receiveUdp_skip_prefix false af (some dest) _ _ (some q) pre _ now1 0 hpre]
    have := (truncation_reported af (some dest) (expiration timeout now) { o with raiseOnTruncation := true } q src w id flags
      rest now1 (0 + pre.length) hsrc rfl hh htc hw).1 hresp
    rw [this]
    simp
  exact (fallback_one_tcp_exchange q qwire af dest timeout o blocks _ body sevs revs now _ _ hudp).1

/-! ## `dns.asyncquery` -/

/-- `dns.asyncquery._read_exactly` (a loop of backend `recv(count, timeout)` calls, the timeout recomputed
before each call and spent inside it) returns, for every script, count, deadline and clock, exactly what
`dns.query._net_read` returns; so does the framing half of `receive_tcp`. -/
theorem read_exactly_refines_net_read (evs : List REv) (count : Nat) (exp : Option Nat) (now : Nat) :
    readExactly evs count exp now = netRead evs count exp now [] ∧
    receiveFrameA evs exp now = receiveFrame evs exp now :=
  ⟨readExactly_eq evs count exp now, receiveFrameA_eq evs exp now⟩

/-- **Stream reassembly under every fragmentation, `dns.asyncquery`.**  As `framing_invariant`, for
`dns.asyncquery.receive_tcp`'s framing over a backend socket; and soundness for every script whatsoever
(`frame_sound`): never a short message. -/
theorem framing_invariant_async (m tail : Bytes) (hm : m.length < 65536) (evs : List REv) (exp : Option Nat) (now : Nat)
    (hclean : Clean evs) (hdl : ∀ e, exp = some e → now + blockTimeR evs < e)
    (hs : stream evs = be16 m.length ++ m ++ tail) :
    (∃ evs' now', receiveFrameA evs exp now = .ok (m, evs', now') ∧ stream evs' = tail) ∧
    (∀ evs0 exp0 now0 frame evs' now', receiveFrameA evs0 exp0 now0 = .ok (frame, evs', now') →
      ∃ ld, ld.length = 2 ∧ frame.length = beVal ld ∧ stream evs0 = ld ++ frame ++ stream evs') := by
  constructor
  · rw [receiveFrameA_eq]; exact framing_invariant m tail hm evs exp now hclean hdl hs
  · intro evs0 exp0 now0 frame evs' now' h
    rw [receiveFrameA_eq] at h; exact frame_sound _ _ _ _ _ _ h

/-- **Early end of stream or an expired deadline is an error, `dns.asyncquery`.** -/
theorem eof_or_deadline_is_error_async (evs : List REv) (exp : Option Nat) (now : Nat)
    (h : (stream evs).length < 2 ∨ (stream evs).length < 2 + beVal ((stream evs).take 2)) :
    ∃ e, receiveFrameA evs exp now = .error e ∧ (e = .eof ∨ e = .timeout ∨ e = .exhausted) := by
  rw [receiveFrameA_eq]; exact (eof_or_deadline_is_error evs exp now).1 h

/-- `dns.asyncquery.send_tcp`: the backend's `sendall` is given exactly the two-octet length then the message. -/
theorem send_tcp_async_frames (wire : Bytes) (blocks : List Nat) (exp : Option Nat) (now : Nat) :
    (sendTcpA wire blocks exp now).1 = [] ∨ (sendTcpA wire blocks exp now).1 = be16 wire.length ++ wire := by
  unfold sendTcpA
  cases sendB blocks (timeoutOf exp now) now with
  | error e => left; rfl
  | ok n => right; rfl

/-- **An async UDP exchange is the same exchange.**  `dns.asyncquery.udp` (backend `sendto` / `recvfrom` with
per-call timeouts) returns, skips and raises exactly as `dns.query.udp` does, for every script, option
combination and deadline; hence every theorem above about `udp` holds for it — in particular: -/
theorem returned_is_response_async (q : Msg) (af : Nat) (dest : Addr) (timeout : Option Nat) (o : UOpts)
    (blocks : List Nat) (script : List UEv) (now : Nat) :
    udpA false q af dest timeout o blocks script now = udp false q af dest timeout o blocks script now ∧
    ∀ r, udpA false q af dest timeout o blocks script now = .ok r →
      isResponse q r.msg = true ∧
      ∃ w, (dgrams script)[r.idx]? = some (r.src, w) ∧ SrcOk af r.src dest ∧
        header w.octets = some (r.msg.id, r.msg.flags) ∧ w.body.broken = none ∧
        (w.body.trailing = true → o.ignoreTrailing = true) ∧ (tc r.msg.flags && o.raiseOnTruncation) = false := by
  refine ⟨udpA_eq _ _ _ _ _ _ _ _ _, ?_⟩
  intro r h
  rw [udpA_eq] at h
  exact returned_is_response q af dest timeout o blocks script now r h

/-- **An async TCP exchange returns only a genuine response, exactly framed.** -/
theorem returned_is_response_async_tcp (q : Msg) (qwire : Bytes) (timeout : Option Nat) (it : Bool) (body : Bytes → Body)
    (blocks : List Nat) (revs : List REv) (now : Nat) (sent : Bytes) (r : TRet)
    (h : tcpA q qwire timeout it body blocks revs now = (sent, .ok r)) :
    isResponse q r.msg = true ∧ sent = be16 qwire.length ++ qwire ∧
    (∃ ld, ld.length = 2 ∧ r.frame.length = beVal ld ∧ stream revs = ld ++ r.frame ++ stream r.rest) ∧
    header r.frame = some (r.msg.id, r.msg.flags) ∧ (body r.frame).broken = none ∧
    ((body r.frame).trailing = true → it = true) := by
  unfold tcpA sendTcpA at h
  simp only at h
  cases hsend : sendB blocks (timeoutOf (expiration timeout now) now) now with
  | error e => obtain ⟨e1, e2⟩ := e; simp [hsend] at h
  | ok now1 =>
    simp only [hsend] at h
    cases hrecv : receiveTcpA body it false revs (expiration timeout now) now1 with
    | error e => simp [hrecv] at h
    | ok r' =>
      simp only [hrecv] at h
      cases hresp : isResponse q r'.msg with
      | false => simp [hresp] at h
      | true =>
        simp [hresp] at h
        obtain ⟨rfl, rfl⟩ := h
        unfold receiveTcpA at hrecv
        rw [receiveFrameA_eq] at hrecv
        cases hframe : receiveFrame revs (expiration timeout now) now1 with
        | error e => simp [hframe] at hrecv
        | ok v =>
          obtain ⟨frame, rest, now2⟩ := v
          simp only [hframe] at hrecv
          cases hp : parseFrame body it false frame with
          | error e => simp [hp] at hrecv
          | ok m =>
            simp [hp] at hrecv
            subst hrecv
            unfold parseFrame at hp
            cases hf : fromWire ⟨frame, body frame⟩ it false false with
            | error e => cases e <;> simp [hf] at hp
            | ok m' =>
              simp [hf] at hp; subst hp
              obtain ⟨f1, _, _, _, f4, f5, _⟩ := (fromWire_ok_iff _ _ _ _).1 hf
              exact ⟨hresp, rfl, frame_sound _ _ _ _ _ _ hframe, f1, f4, f5⟩

/-- **`dns.asyncquery.udp_with_fallback`**: TCP only after a truncation, and then exactly one exchange with the
same query. -/
theorem fallback_async (q : Msg) (qwire : Bytes) (af : Nat) (dest : Addr) (timeout : Option Nat)
    (o : UOpts) (blocks : List Nat) (script : List UEv) (body : Bytes → Body) (tb : List Nat) (revs : List REv) (now : Nat) :
    (∀ r, udp false q af dest timeout { o with raiseOnTruncation := true } blocks script now = .ok r →
      udpWithFallbackA q qwire af dest timeout o blocks script body tb revs now = ([], .ok ⟨r.msg, false, r.recvTime - now⟩)) ∧
    (∀ f, udp false q af dest timeout { o with raiseOnTruncation := true } blocks script now = .error f →
      f.err ≠ .truncated →
      udpWithFallbackA q qwire af dest timeout o blocks script body tb revs now = ([], .error f.err)) ∧
    (∀ i t, udp false q af dest timeout { o with raiseOnTruncation := true } blocks script now = .error ⟨.truncated, i, t⟩ →
      udpWithFallbackA q qwire af dest timeout o blocks script body tb revs now =
        asFallback t (tcpA q qwire timeout o.ignoreTrailing body tb revs t) ∧
      ∀ fr, (udpWithFallbackA q qwire af dest timeout o blocks script body tb revs now).2 = .ok fr →
        fr.usedTcp = true ∧ isResponse q fr.msg = true ∧
        (udpWithFallbackA q qwire af dest timeout o blocks script body tb revs now).1 = be16 qwire.length ++ qwire) := by
  refine ⟨?_, ?_, ?_⟩
  · intro r h; simp [udpWithFallbackA, udpA_eq, h]
  · intro f h hne
    obtain ⟨e, i, t⟩ := f
    cases e <;> simp_all [udpWithFallbackA, udpA_eq]
  · intro i t h
    have e1 : udpWithFallbackA q qwire af dest timeout o blocks script body tb revs now =
        asFallback t (tcpA q qwire timeout o.ignoreTrailing body tb revs t) := by
      simp [udpWithFallbackA, udpA_eq, h]
    refine ⟨e1, ?_⟩
    intro fr hfr
    rw [e1] at hfr ⊢
    cases ht : tcpA q qwire timeout o.ignoreTrailing body tb revs t with
    | mk sent res =>
      rw [ht] at hfr
      cases res with
      | error e => simp [asFallback] at hfr
      | ok r =>
        simp [asFallback] at hfr; subst hfr
        obtain ⟨g1, g2, _⟩ := returned_is_response_async_tcp q qwire timeout o.ignoreTrailing body tb revs t sent r ht
        exact ⟨rfl, g1, g2⟩

/-- Why repair 3f2b73a mattered: with `continue_on_error=ignore_errors` (`coe = true`, what
`dns.asyncquery.receive_udp` did before), the clause "malformed datagrams … are never returned" **fails**: a
datagram from the queried address with the right id and question but a cut answer record is returned under
`ignore_errors`, although the genuine reply follows.  The code as it is (`coe = false`) skips it. -/
theorem continue_on_error_variant_returns_malformed :
    let q : Msg := ⟨4660, 256, 0, [⟨[[119, 119, 119], []], 1, 1⟩]⟩
    let hdr : Bytes := [18, 52, 129, 128, 0, 1, 0, 1, 0, 0, 0, 0, 3, 119, 119, 119, 0, 0, 1, 0, 1]
    let qs : List QEntry := [⟨[[119, 119, 119], []], 1, 1⟩]
    let bad : Wire := ⟨hdr, ⟨0, some true, false⟩⟩
    let good : Wire := ⟨hdr, ⟨0, none, false⟩⟩
    let m : Msg := ⟨4660, 33152, 0, qs⟩
    let a : Addr := ⟨[49, 48, 46, 49, 46, 49, 46, 49], [53]⟩
    let o : UOpts := ⟨false, false, false, false, true⟩
    udp true q 2 a none o [] [.dgram a bad, .dgram a good] 100 = .ok ⟨0, m, a, 100⟩ ∧
    udp false q 2 a none o [] [.dgram a bad, .dgram a good] 100 = .ok ⟨1, m, a, 100⟩ := by
  intro q hdr qs bad good m a o
  decide

/-! ## non-vacuity -/

/-- `returned_is_response`, `reply_after_spoofed_prefix`: a forged-source datagram, a wrong-id datagram, a
datagram shorter than a header and a cut datagram precede the genuine reply, which is the one returned -/
example :
    let q : Msg := ⟨4660, 256, 0, [⟨[[119, 119, 119], []], 1, 1⟩]⟩
    let qs : List QEntry := [⟨[[87, 87, 87], []], 1, 1⟩]
    let hdr : Bytes := [18, 52, 129, 128, 0, 1, 0, 1, 0, 0, 0, 0, 3, 87, 87, 87, 0, 0, 1, 0, 1]
    let good : Wire := ⟨hdr, ⟨0, none, false⟩⟩
    let a : Addr := ⟨[49, 48, 46, 49, 46, 49, 46, 49], [53]⟩
    let b : Addr := ⟨[49, 48, 46, 49, 46, 49, 46, 50], [53]⟩
    let o : UOpts := ⟨true, false, false, false, true⟩
    udp false q 2 a (some 9) o [1] [.dgram b good, .block 2, .dgram a ⟨18 :: 53 :: hdr.drop 2, good.body⟩,
      .dgram a ⟨[18, 52, 129], good.body⟩, .dgram a ⟨hdr, ⟨0, some true, false⟩⟩, .dgram a ⟨hdr.take 15, good.body⟩, .dgram a good] 100
      = .ok ⟨5, ⟨4660, 33152, 0, qs⟩, a, 103⟩ := by
  intro q qs hdr good a b o; decide

/-- `truncation_reported`, `truncated_reply_falls_back`: hypotheses are satisfiable -/
example :
    let q : Msg := ⟨7, 0, 0, []⟩
    let w : Wire := ⟨[0, 7, 130, 0, 0, 0, 0, 0, 0, 0, 0, 0], ⟨0, some true, false⟩⟩
    let a : Addr := ⟨[49, 46, 50, 46, 51, 46, 52], [53]⟩
    matchesDestination 2 a (some a) false = .ok true ∧ header w.octets = some (7, 33280) ∧ tc 33280 = true ∧
      isResponse q (partialMsg w 7 33280) = true := by
  intro q w a; decide

/-- `fallback_one_tcp_exchange`: a truncated reply, then the TCP exchange in three chunks -/
example :
    let q : Msg := ⟨7, 0, 0, []⟩
    let a : Addr := ⟨[49, 46, 50, 46, 51, 46, 52], [53]⟩
    let o : UOpts := ⟨false, false, false, false, false⟩
    let hdrT : Bytes := [0, 7, 130, 0, 0, 0, 0, 0, 0, 0, 0, 0]
    let hdr : Bytes := [0, 7, 128, 0, 0, 0, 0, 0, 0, 0, 0, 0]
    udpWithFallback q [0, 7, 0, 0, 0, 0, 0, 0, 0, 0, 0, 0] 2 a none o [] [.dgram a ⟨hdrT, ⟨0, none, false⟩⟩]
      (fun _ => ⟨0, none, false⟩) [.accept 5, .block 1, .accept 100] [.data [0], .data (12 :: hdr.take 5), .data (hdr.drop 5)] 50
      = (0 :: 12 :: [0, 7, 0, 0, 0, 0, 0, 0, 0, 0, 0, 0], .ok ⟨⟨7, 32768, 0, []⟩, true, 1⟩) := by
  intro q a o hdrT hdr; decide

/-- `returned_question_octets`: the question reader on real octets — two questions, the second name a compression
pointer to the first; a pointer that does not point backwards and a name cut short are unreadable -/
example :
    let dg : Bytes := [0, 7, 128, 0, 0, 2, 0, 0, 0, 0, 0, 0, 3, 119, 119, 119, 2, 101, 120, 0, 0, 1, 0, 1, 192, 12, 0, 28, 0, 1]
    questionSection dg 32768 = ([⟨[[119, 119, 119], [101, 120], []], 1, 1⟩, ⟨[[119, 119, 119], [101, 120], []], 1, 28⟩], some 30) ∧
    (questionSection (dg.take 24 ++ [192, 24, 0, 28, 0, 1]) 32768).2 = none ∧
    questionSection (dg.take 27) 32768 = ([⟨[[119, 119, 119], [101, 120], []], 1, 1⟩], none) := by
  intro dg; decide

/-- `framing_invariant`: a stream cut into three chunks with waits, under a deadline, and a tail -/
example :
    let evs := [REv.block 1, .data [0], .data [3, 9, 8], .block 2, .data [7, 1, 2]]
    Clean evs ∧ (∀ e, some 10 = some e → 0 + blockTimeR evs < e) ∧ stream evs = be16 3 ++ [9, 8, 7] ++ [1, 2] ∧
    receiveFrame evs (some 10) 0 = .ok ([9, 8, 7], [.data [1, 2]], 3) ∧
    receiveFrameA evs (some 10) 0 = .ok ([9, 8, 7], [.data [1, 2]], 3) := by
  intro evs
  refine ⟨by simp [evs, Clean], by intro e h; cases h; decide, by decide, by decide, by decide⟩

/-- `eof_or_deadline_is_error`: a stream announcing 3 octets and ending after 2; and a deadline hit mid-message -/
example : receiveFrame [.data [0, 3, 9], .data [8], .eof] none 0 = .error .eof ∧
    receiveFrame [.data [0, 3, 9], .block 5, .data [8, 7]] (some 4) 0 = .error .timeout ∧
    receiveFrameA [.data [0, 3, 9], .block 5, .data [8, 7]] (some 4) 0 = .error .timeout := by decide

/-- `addresses_equal_binary`: two spellings of one IPv6 address compare equal; a different address does not -/
example :
    addressesEqual 10 ⟨[58, 58, 49], [53, 0, 0]⟩ ⟨[48, 58, 48, 58, 48, 58, 48, 58, 48, 58, 48, 58, 48, 58, 48, 48, 48, 49], [53, 0, 0]⟩ = .ok true ∧
    addressesEqual 10 ⟨[58, 58, 49], [53, 0, 0]⟩ ⟨[58, 58, 50], [53, 0, 0]⟩ = .ok false := by decide

end C18

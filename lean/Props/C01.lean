import Model.Name
import Proofs.NameText
/-!
# C01 — Name text and wire codecs are exact inverses within DNS length limits

Theorems of record.  `Model.Name` follows `dns/name.py`; the constants (`Consts.*`) are regenerated
from the working tree on every run, so e.g. `escOk_generated` is an obligation about the code's
current `_escaped` set.
-/
namespace C01
open Model

/-- Text round trip, no origin: every legal name over all 256 octet values, byte-identical labels. -/
theorem fromText_toText (n : Name) (h : WfName n) (ho : OctetsOk n) :
    fromText (toText n) none = .ok n := by
  have hesc := escOk_generated
  by_cases h0 : n = []
  · subst h0; simp [toText, fromText, validate, firstEmpty, wireLen] <;> try decide
  by_cases h1 : n = [[]]
  · subst h1; simp [toText, fromText, validate, firstEmpty, wireLen] <;> try decide
  have hfirst : n.head h0 ≠ [] := by
    cases n with
    | nil => exact absurd rfl h0
    | cons x rest =>
      cases rest with
      | nil => simp; intro hx; exact h1 (by simp [hx])
      | cons y ys => simp; exact h.2.2 x (by simp [List.dropLast])
  obtain ⟨hd, tl, htext, hhd⟩ := joinDot_head Consts.nameEscaped hesc n h0 hfirst
  have hrun := ftRun_joinDot Consts.nameEscaped hesc n h0 ho h.2.2 []
  have hmap : n.map escapify = n.map (escapifyWith Consts.nameEscaped) := rfl
  have htt : toText n = hd :: tl := by simp [toText, h0, h1, hmap, htext]
  rw [htext] at hrun
  have ne64 : hd :: tl ≠ [64] := by
    intro e; simp at e; rcases hhd with hh | hh
    · omega
    · exact hh.1 e.1
  have ne46 : hd :: tl ≠ [46] := by
    intro e; simp at e; rcases hhd with hh | hh
    · omega
    · exact hh.2 e.1
  rw [htt]
  unfold fromText
  simp only [ne64, ne46, if_false, ftInit, hrun]
  simp only [List.nil_append, Option.isSome_none, Bool.false_eq_true, if_false, List.cons_ne_nil]
  rw [List.dropLast_concat_getLast h0]
  exact validate_of_wf n h

/-- Text round trip against an origin: an absolute name is returned as is; a relative one is
concatenated with the origin and validated (so it raises exactly when the limits are exceeded). -/
theorem fromText_toText_origin (n o : Name) (h : WfName n) (ho : OctetsOk n) :
    fromText (toText n) (some o) = if isAbs n then .ok n else validate (n ++ o) := by
  have hesc := escOk_generated
  by_cases h0 : n = []
  · subst h0; simp [toText, fromText, isAbs]
  by_cases h1 : n = [[]]
  · subst h1; simp [toText, fromText, validate, firstEmpty, wireLen, isAbs] <;> try decide
  have hfirst : n.head h0 ≠ [] := by
    cases n with
    | nil => exact absurd rfl h0
    | cons x rest =>
      cases rest with
      | nil => simp; intro hx; exact h1 (by simp [hx])
      | cons y ys => simp; exact h.2.2 x (by simp [List.dropLast])
  obtain ⟨hd, tl, htext, hhd⟩ := joinDot_head Consts.nameEscaped hesc n h0 hfirst
  have hrun := ftRun_joinDot Consts.nameEscaped hesc n h0 ho h.2.2 []
  have hmap : n.map escapify = n.map (escapifyWith Consts.nameEscaped) := rfl
  have htt : toText n = hd :: tl := by simp [toText, h0, h1, hmap, htext]
  rw [htext] at hrun
  have ne64 : hd :: tl ≠ [64] := by
    intro e; simp at e; rcases hhd with hh | hh
    · omega
    · exact hh.1 e.1
  have ne46 : hd :: tl ≠ [46] := by
    intro e; simp at e; rcases hhd with hh | hh
    · omega
    · exact hh.2 e.1
  rw [htt]
  unfold fromText
  simp only [ne64, ne46, if_false, ftInit, hrun]
  simp only [List.nil_append, Option.isSome_none, Bool.false_eq_true, if_false, List.cons_ne_nil]
  rw [List.dropLast_concat_getLast h0]
  have hl : n.getLast? = some (n.getLast h0) := List.getLast?_eq_getLast h0
  by_cases hab : isAbs n = true
  · have : n.getLast? = some [] := by
      unfold isAbs at hab
      split at hab
      · assumption
      · simp at hab
    simp [h0, this, hab, validate_of_wf n h]
  · have : n.getLast? ≠ some [] := by
      intro e; apply hab; unfold isAbs; rw [e]
    simp [h0, this, hab]

/-- The constructor check: exactly the well-formed label lists are accepted, and unchanged. -/
theorem validate_iff (n : Name) : (∃ m, validate n = .ok m) ↔ WfName n := by
  constructor
  · rintro ⟨m, hm⟩; exact (wf_of_validate n m hm).2
  · intro h; exact ⟨n, validate_of_wf n h⟩

/-- non-vacuity: a name with dots, quotes, backslash, '@', '$', control and high octets is well formed -/
example : WfName [[46, 34, 92, 64, 36, 0, 255], [97], []] ∧ OctetsOk [[46, 34, 92, 64, 36, 0, 255], [97], []] := by
  constructor
  · refine ⟨?_, ?_, ?_⟩ <;> decide
  · unfold OctetsOk; decide

end C01

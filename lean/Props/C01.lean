import Model.Name
import Proofs.NameText
import Proofs.NameWire
import Proofs.NameCompress
/-!
# C01 — Name text and wire codecs are exact inverses within DNS length limits

Theorems of record.  `Model.Name` follows `dns/name.py`; the constants (`Consts.*`) are regenerated
from the working tree on every run, so e.g. `escOk_generated` is an obligation about the code's
current `_escaped` set.
-/
namespace C01
open Model

/-- Text round trip, no origin: every legal name over all 256 octet values, byte-identical labels. -/
theorem fromText_toText (n : Name) (h : WfName n) (ho : OctetsOk n) :
    fromText (toText n) none = .ok n := by
  have hesc := escOk_generated
  by_cases h0 : n = []
  · subst h0; simp [toText, fromText, validate, firstEmpty, wireLen] <;> try decide
  by_cases h1 : n = [[]]
  · subst h1; simp [toText, fromText, validate, firstEmpty, wireLen] <;> try decide
  have hfirst : n.head h0 ≠ [] := by
    cases n with
    | nil => exact absurd rfl h0
    | cons x rest =>
      cases rest with
      | nil => simp; intro hx; exact h1 (by simp [hx])
      | cons y ys => simp; exact h.2.2 x (by simp [List.dropLast])
  obtain ⟨hd, tl, htext, hhd⟩ := joinDot_head Consts.nameEscaped hesc n h0 hfirst
  have hrun := ftRun_joinDot Consts.nameEscaped hesc n h0 ho h.2.2 []
  have hmap : n.map escapify = n.map (escapifyWith Consts.nameEscaped) := rfl
  have htt : toText n = hd :: tl := by simp [toText, h0, h1, hmap, htext]
  rw [htext] at hrun
  have ne64 : hd :: tl ≠ [64] := by
    intro e; simp at e; rcases hhd with hh | hh
    · omega
    · exact hh.1 e.1
  have ne46 : hd :: tl ≠ [46] := by
    intro e; simp at e; rcases hhd with hh | hh
    · omega
    · exact hh.2 e.1
  rw [htt]
  unfold fromText
  simp only [ne64, ne46, if_false, ftInit, hrun]
  simp only [List.nil_append, Option.isSome_none, Bool.false_eq_true, if_false, List.cons_ne_nil]
  rw [List.dropLast_concat_getLast h0]
  exact validate_of_wf n h

/-- Text round trip against an origin: an absolute name is returned as is; a relative one is
concatenated with the origin and validated (so it raises exactly when the limits are exceeded). -/
theorem fromText_toText_origin (n o : Name) (h : WfName n) (ho : OctetsOk n) :
    fromText (toText n) (some o) = if isAbs n then .ok n else validate (n ++ o) := by
  have hesc := escOk_generated
  by_cases h0 : n = []
  · subst h0; simp [toText, fromText, isAbs]
  by_cases h1 : n = [[]]
  · subst h1; simp [toText, fromText, validate, firstEmpty, wireLen, isAbs] <;> try decide
  have hfirst : n.head h0 ≠ [] := by
    cases n with
    | nil => exact absurd rfl h0
    | cons x rest =>
      cases rest with
      | nil => simp; intro hx; exact h1 (by simp [hx])
      | cons y ys => simp; exact h.2.2 x (by simp [List.dropLast])
  obtain ⟨hd, tl, htext, hhd⟩ := joinDot_head Consts.nameEscaped hesc n h0 hfirst
  have hrun := ftRun_joinDot Consts.nameEscaped hesc n h0 ho h.2.2 []
  have hmap : n.map escapify = n.map (escapifyWith Consts.nameEscaped) := rfl
  have htt : toText n = hd :: tl := by simp [toText, h0, h1, hmap, htext]
  rw [htext] at hrun
  have ne64 : hd :: tl ≠ [64] := by
    intro e; simp at e; rcases hhd with hh | hh
    · omega
    · exact hh.1 e.1
  have ne46 : hd :: tl ≠ [46] := by
    intro e; simp at e; rcases hhd with hh | hh
    · omega
    · exact hh.2 e.1
  rw [htt]
  unfold fromText
  simp only [ne64, ne46, if_false, ftInit, hrun]
  simp only [List.nil_append, Option.isSome_none, Bool.false_eq_true, if_false, List.cons_ne_nil]
  rw [List.dropLast_concat_getLast h0]
  have hl : n.getLast? = some (n.getLast h0) := List.getLast?_eq_getLast h0
  by_cases hab : isAbs n = true
  · have : n.getLast? = some [] := by
      unfold isAbs at hab
      split at hab
      · assumption
      · simp at hab
    simp [h0, this, hab, validate_of_wf n h]
  · have : n.getLast? ≠ some [] := by
      intro e; apply hab; unfold isAbs; rw [e]
    simp [h0, this, hab]

/-- The constructor check: exactly the well-formed label lists are accepted, and unchanged. -/
theorem validate_iff (n : Name) : (∃ m, validate n = .ok m) ↔ WfName n := by
  constructor
  · rintro ⟨m, hm⟩; exact (wf_of_validate n m hm).2
  · intro h; exact ⟨n, validate_of_wf n h⟩

/-- The limits the code enforces (regenerated from dns/name.py on every run) are the ones the property
names: labels of at most 63 octets, names of at most 255, label types 0x00/0xC0, 14-bit pointers.  A change
of any of them in the source breaks this obligation. -/
theorem limits_are_rfc1035 : Consts.maxLabel = 63 ∧ Consts.maxName = 255 ∧ Consts.ptrLabelMin = 64 ∧
    Consts.ptrTagMin = 192 ∧ Consts.maxPtr = 16383 ∧ Consts.ptrBase = 49152 ∧
    Consts.nameEscaped = [34, 36, 40, 41, 46, 59, 64, 92] := by decide

/-- non-vacuity: a name with dots, quotes, backslash, '@', '$', control and high octets is well formed -/
example : WfName [[46, 34, 92, 64, 36, 0, 255], [97], []] ∧ OctetsOk [[46, 34, 92, 64, 36, 0, 255], [97], []] := by
  constructor
  · refine ⟨?_, ?_, ?_⟩ <;> decide
  · unfold OctetsOk; decide


/-- Uncompressed wire round trip at any offset inside any surrounding bytes: byte-identical labels
and exactly the encoded length consumed. -/
theorem fromWire_toWire (n : Name) (h : WfName n) (ha : isAbs n = true) (pre post : Bytes) :
    fromWire (pre ++ toWire n ++ post) pre.length = .ok (n, (toWire n).length) := by
  obtain ⟨ls, hn, hp⟩ := abs_split n h ha
  have hd := Dec_plain ls hp pre post pre.length
  have hrun := fromWireAux_of_Dec hd pre.length []
  unfold fromWire
  have hlen : ¬ pre.length > (pre ++ toWire n ++ post).length := by simp
  simp only [hlen, if_false]
  rw [hn, hrun]
  simp only [List.nil_append]
  rw [← hn, validate_of_wf n h]
  simp

/-- Wire decoding is closed: whatever octets are presented at whatever offset, a returned name is
well formed (labels ≤ 63, total ≤ 255), absolute, and the octets consumed lie inside the buffer. -/
theorem fromWire_wf (b : Bytes) (off : Nat) (n : Name) (k : Nat) (h : fromWire b off = .ok (n, k)) :
    WfName n ∧ isAbs n = true ∧ off + k ≤ b.length := by
  unfold fromWire at h
  split at h
  · simp at h
  · rename_i hoff
    split at h
    · simp at h
    · rename_i n' f' hrun
      split at h
      · simp at h
      · rename_i n'' hv
        simp at h
        obtain ⟨rfl, rfl⟩ := h
        obtain ⟨heq, hwf⟩ := wf_of_validate n' n'' hv
        obtain ⟨⟨m, hm⟩, hf⟩ := fwAux_shape b b.length off off off [] n' f' hrun
        obtain ⟨ls, fwd, hd, _, hf'⟩ := Dec_of_fromWireAux b off off off [] n' f' hrun
        have := hd.fwd_le
        refine ⟨heq ▸ hwf, ?_, by omega⟩
        rw [heq, hm]
        simp [isAbs]

/-- Decoding terminates (the definition of `fromWireAux` is accepted by Lean's termination checker
on the measure (biggest_pointer, bytes left)) and only follows pointers to strictly earlier offsets:
every successful decode is a derivation of `Dec`, whose pointer rule demands `target < bound`, the
bound starting at the name's own offset and being lowered to each target followed. -/
theorem fromWire_backward (b : Bytes) (off : Nat) (n : Name) (k : Nat) (h : fromWire b off = .ok (n, k)) :
    ∃ ls fwd, Dec b off off ls fwd ∧ n = ls ++ [[]] ∧ k = fwd - off := by
  unfold fromWire at h
  split at h
  · simp at h
  · split at h
    · simp at h
    · rename_i n' f' hrun
      split at h
      · simp at h
      · rename_i n'' hv
        simp at h
        obtain ⟨rfl, rfl⟩ := h
        obtain ⟨heq, _⟩ := wf_of_validate n' n'' hv
        obtain ⟨ls, fwd, hd, hn, hf'⟩ := Dec_of_fromWireAux b off off off [] n' f' hrun
        have := hd.fwd_le
        refine ⟨ls, fwd, hd, by rw [heq, hn]; simp, by omega⟩

/-- and conversely every `Dec` derivation whose name passes the length checks is what `from_wire` returns -/
theorem fromWire_of_Dec (b : Bytes) (off : Nat) (ls : List Label) (fwd : Nat) (hd : Dec b off off ls fwd)
    (hw : WfName (ls ++ [[]])) : fromWire b off = .ok (ls ++ [[]], fwd - off) := by
  have := hd.fwd_le
  unfold fromWire
  have : ¬ off > b.length := by omega
  simp only [this, if_false]
  rw [fromWireAux_of_Dec hd off []]
  simp only [List.nil_append]
  rw [validate_of_wf _ hw]
  have : max off fwd = fwd := by omega
  simp [this]


/-- equality of names up to ASCII case (the library's `Name.__eq__`) -/
def lowEq (a b : Name) : Prop := lowerName a = lowerName b

theorem wf_of_lowEq (a b : Name) (h : lowerName a = lowerName b) (hb : WfName b) : WfName a := by
  have hlen : a.map List.length = b.map List.length := by
    have := congrArg (List.map List.length) h
    simpa [lowerName, lowerLabel, List.map_map, Function.comp_def] using this
  obtain ⟨h1, h2, h3⟩ := hb
  have hwl : wireLen a = wireLen b := by
    have : a.map (fun l => l.length + 1) = b.map (fun l => l.length + 1) := by
      have := congrArg (List.map (· + 1)) hlen
      simpa [List.map_map, Function.comp_def] using this
    simp [wireLen, this]
  refine ⟨?_, by omega, ?_⟩
  · intro l hl
    obtain ⟨i, hi, rfl⟩ := List.getElem_of_mem hl
    have hib : i < b.length := by have := congrArg List.length hlen; simp at this; omega
    have : a[i].length = b[i].length := by
      have := congrArg (fun x => x[i]?) hlen
      simp [hi, hib] at this
      exact this
    rw [this]; exact h1 _ (List.getElem_mem hib)
  · intro l hl hnil
    subst hnil
    obtain ⟨i, hi⟩ := List.getElem?_of_mem hl
    rw [List.getElem?_dropLast] at hi
    split at hi
    · rename_i hlt
      have hia : i < a.length := by omega
      have hlenab : a.length = b.length := by have := congrArg List.length hlen; simpa using this
      have hib : i < b.length := by omega
      have hbi : b[i].length = 0 := by
        have := congrArg (fun x => x[i]?) hlen
        simp [hia, hib] at this
        rw [← this]
        rw [List.getElem?_eq_getElem hia] at hi
        simp at hi
        simp [hi]
      have : b[i] ∈ b.dropLast := by
        apply List.mem_of_getElem? (i := i)
        rw [List.getElem?_dropLast]; simp [hib]; omega
      exact h3 _ this (List.length_eq_zero_iff.mp hbi)
    · simp at hi

/-- Compressed encoding is sound, whatever the table and whatever the offset (including beyond 0x3FFF):
given a table every entry of which decodes (in the output so far) to its key up to ASCII case, rendering an
absolute name `n` with compression (i) only appends to the output, (ii) only appends to the table and
keeps every entry sound in the new output, so no pointer ever targets anything but an earlier occurrence of
that suffix, and (iii) decoding at the start offset consumes exactly the octets written and yields `n`
up to ASCII case (reading of DESIGN §6: the table is looked up with the library's case-insensitive equality). -/
theorem toWireC_sound (out : Bytes) (tbl : CTable) (n : Name) (h : WfName n) (ha : isAbs n = true)
    (hs : TableSound lowEq out tbl) :
    ∃ ext new, toWireC out tbl n none = .ok (out ++ ext, tbl ++ new) ∧
      TableSound lowEq (out ++ ext) (tbl ++ new) ∧
      ∃ m, fromWire (out ++ ext) out.length = .ok (m, ext.length) ∧ lowerName m = lowerName n := by
  obtain ⟨ls0, hn, hp⟩ := abs_split n h ha
  have hplain : PlainLabels n.dropLast := by rw [hn]; simpa using hp
  have hlast : n.getLast? = some [] := by rw [hn]; simp
  have hhit : ∀ p ∈ tbl, ∀ k, lowerName p.1 = lowerName (n.drop k) → ∀ m, lowEq m p.1 → lowEq m (n.drop k) := by
    intro p _ k hk m hm; exact hm.trans hk
  obtain ⟨ext, new, h1, h2, h3, h4⟩ := loop_sound lowEq
    (by intro l a b hab; simp [lowEq, lowerName] at hab ⊢; exact hab) rfl out tbl hs n hplain hlast hhit
    out [] ⟨[], by simp⟩ (by simp)
  simp only [List.append_nil] at h1 h2
  refine ⟨ext, new, ?_, ?_, ?_⟩
  · simp only [toWireC, ha, if_true]
    rw [← h1, ← h2]
  · intro p hp
    rcases List.mem_append.mp hp with hp | hp
    · exact (hs p hp).mono ext
    · exact (h4 p hp).2
  · obtain ⟨ls, hd, hr⟩ := h3 out.length (Nat.le_refl _)
    have hw : WfName (ls ++ [[]]) := wf_of_lowEq _ _ hr h
    have := fromWire_of_Dec (out ++ ext) out.length ls _ hd hw
    refine ⟨ls ++ [[]], ?_, hr⟩
    rw [this]; simp

/-- no table entry equals a suffix of `n` only up to ASCII case -/
def CaseConsistent (tbl : CTable) (n : Name) : Prop :=
  ∀ p ∈ tbl, ∀ k, lowerName p.1 = lowerName (n.drop k) → p.1 = n.drop k

/-- … and byte-identical whenever the table is case-consistent with the name and itself exact:
the compressed round trip then restores exactly `n`, and the table stays exact. -/
theorem toWireC_exact (out : Bytes) (tbl : CTable) (n : Name) (h : WfName n) (ha : isAbs n = true)
    (hs : TableSound Eq out tbl) (hc : CaseConsistent tbl n) :
    ∃ ext new, toWireC out tbl n none = .ok (out ++ ext, tbl ++ new) ∧
      TableSound Eq (out ++ ext) (tbl ++ new) ∧
      fromWire (out ++ ext) out.length = .ok (n, ext.length) := by
  obtain ⟨ls0, hn, hp⟩ := abs_split n h ha
  have hplain : PlainLabels n.dropLast := by rw [hn]; simpa using hp
  have hlast : n.getLast? = some [] := by rw [hn]; simp
  have hhit : ∀ p ∈ tbl, ∀ k, lowerName p.1 = lowerName (n.drop k) → ∀ m, m = p.1 → m = n.drop k := by
    intro p hp k hk m hm; rw [hm]; exact hc p hp k hk
  obtain ⟨ext, new, h1, h2, h3, h4⟩ := loop_sound Eq
    (by intro l a b hab; rw [hab]) rfl out tbl hs n hplain hlast hhit
    out [] ⟨[], by simp⟩ (by simp)
  simp only [List.append_nil] at h1 h2
  refine ⟨ext, new, ?_, ?_, ?_⟩
  · simp only [toWireC, ha, if_true]
    rw [← h1, ← h2]
  · intro p hp
    rcases List.mem_append.mp hp with hp | hp
    · exact (hs p hp).mono ext
    · exact (h4 p hp).2
  · obtain ⟨ls, hd, hr⟩ := h3 out.length (Nat.le_refl _)
    have hw : WfName (ls ++ [[]]) := by rw [hr]; exact h
    have := fromWire_of_Dec (out ++ ext) out.length ls _ hd hw
    rw [this, hr]; simp

/-- non-vacuity: the empty table is sound in any buffer, and case-consistent with any name -/
example (out : Bytes) (n : Name) : TableSound Eq out [] ∧ TableSound lowEq out [] ∧ CaseConsistent [] n := by
  refine ⟨?_, ?_, ?_⟩ <;> intro p hp <;> simp at hp


/-! ### closure: no operation that produces a name yields an over-long label or name -/

theorem validate_closed {n r : Name} (h : validate n = .ok r) : WfName r := by
  obtain ⟨rfl, hw⟩ := wf_of_validate n r h; exact hw

theorem concatenate_closed (a b r : Name) (h : concatenate a b = .ok r) : WfName r := by
  unfold concatenate at h; split at h
  · simp at h
  · exact validate_closed h

theorem relativize_closed (n o r : Name) (hn : WfName n) (h : relativize n o = .ok r) : WfName r := by
  unfold relativize at h; split at h
  · exact validate_closed h
  · simp at h; exact h ▸ hn

theorem derelativize_closed (n o r : Name) (hn : WfName n) (h : derelativize n o = .ok r) : WfName r := by
  unfold derelativize at h; split at h
  · exact concatenate_closed _ _ _ h
  · simp at h; exact h ▸ hn

theorem parent_closed (n r : Name) (h : parent n = .ok r) : WfName r := by
  unfold parent at h; split at h
  · simp at h
  · exact validate_closed h

theorem split_closed (n : Name) (d : Nat) (a b : Name) (hn : WfName n) (h : split n d = .ok (a, b)) :
    WfName a ∧ WfName b := by
  have hempty : WfName [] := by refine ⟨?_, ?_, ?_⟩ <;> simp [wireLen]
  unfold split at h
  simp only at h
  split at h
  · simp at h; obtain ⟨rfl, rfl⟩ := h; exact ⟨hn, hempty⟩
  · split at h
    · simp at h; obtain ⟨rfl, rfl⟩ := h; exact ⟨hempty, hn⟩
    · split at h
      · simp at h
      · cases h1 : validate (n.take (n.length - d)) with
        | error e => simp [h1, bind, Except.bind] at h
        | ok x =>
          cases h2 : validate (n.drop (n.length - d)) with
          | error e => simp [h1, h2, bind, Except.bind] at h
          | ok y =>
            simp [h1, h2, bind, Except.bind, pure, Except.pure] at h
            obtain ⟨rfl, rfl⟩ := h
            exact ⟨validate_closed h1, validate_closed h2⟩

theorem padToMaxName_closed (n r : Name) (h : padToMaxName n = .ok r) : WfName r := by
  unfold padToMaxName at h; exact validate_closed h

theorem absSuccLoop_closed (origin : Name) (ho : WfName origin) (name r : Name)
    (h : absSuccLoop origin name = .ok r) : WfName r := by
  induction name with
  | nil => simp [absSuccLoop] at h; exact h ▸ ho
  | cons lsl suffix ih =>
    unfold absSuccLoop at h
    split at h
    · simp at h; exact h ▸ ho
    · simp only at h
      split at h
      · rename_i nm hext
        simp at h; subst h
        split at hext
        · split at hext
          · rename_i nm' hv; simp at hext; subst hext; exact validate_closed hv
          · simp at hext
        · simp at hext
      · split at h
        · exact validate_closed h
        · exact ih h

theorem successor_closed (n o r : Name) (p : Bool) (hn : WfName n) (ho : WfName o)
    (h : successor n o p = .ok r) : WfName r := by
  unfold successor handleRelativity at h
  split at h
  · simp at h
  · simp only at h
    split at h
    · simp at h
    · rename_i nm hnm
      have hnmwf : WfName nm := by
        split at hnm
        · exact derelativize_closed _ _ _ hn hnm
        · split at hnm
          · simp at hnm
          · simp at hnm; exact hnm ▸ hn
      split at h
      · simp at h
      · rename_i r' hr'
        have hr'wf : WfName r' := by
          unfold absoluteSuccessor at hr'
          simp only at hr'
          split at hr'
          · rename_i nm2 hpre
            simp at hr'; subst hr'
            split at hpre
            · split at hpre
              · rename_i x hv; simp at hpre; subst hpre; exact validate_closed hv
              · simp at hpre
            · simp at hpre
          · exact absSuccLoop_closed o ho nm r' hr'
        split at h
        · exact relativize_closed _ _ _ hr'wf h
        · simp at h; exact h ▸ hr'wf

theorem predecessor_closed (n o r : Name) (p : Bool) (hn : WfName n)
    (h : predecessor n o p = .ok r) : WfName r := by
  unfold predecessor handleRelativity at h
  split at h
  · simp at h
  · simp only at h
    split at h
    · simp at h
    · rename_i nm hnm
      split at h
      · simp at h
      · rename_i r' hr'
        have hr'wf : WfName r' := by
          unfold absolutePredecessor at hr'
          split at hr'
          · exact padToMaxName_closed _ _ hr'
          · split at hr'
            · simp at hr'
            · split at hr'
              · exact parent_closed _ _ hr'
              · split at hr'
                · simp at hr'
                · simp only at hr'
                  split at hr'
                  · simp at hr'
                  · rename_i nm3 hv
                    split at hr'
                    · exact padToMaxName_closed _ _ hr'
                    · simp at hr'; exact hr' ▸ validate_closed hv
        split at h
        · exact relativize_closed _ _ _ hr'wf h
        · simp at h; exact h ▸ hr'wf


/-! ### `to_wire(origin=…)` / `to_digestable(origin)` for relative names -/

theorem toWire_length (m : Name) : (toWire m).length = wireLen m := by
  induction m with
  | nil => simp [toWire, wireLen]
  | cons l rest ih =>
    have : toWire (l :: rest) = (l.length :: l) ++ toWire rest := by simp [toWire]
    rw [this]; simp [wireLen, ih] at *; omega

theorem rel_labels_nonempty (n : Name) (hn : WfName n) (hr : isAbs n = false) : ∀ l ∈ n, l ≠ [] := by
  intro l hl hnil
  subst hnil
  by_cases hne : n = []
  · subst hne; simp at hl
  · have hdl := List.dropLast_concat_getLast hne
    rw [← hdl] at hl
    rcases List.mem_append.mp hl with h | h
    · exact hn.2.2 [] h rfl
    · simp at h
      have : n.getLast? = some [] := by rw [List.getLast?_eq_some_getLast hne, ← h]
      unfold isAbs at hr; rw [this] at hr; simp at hr

/-- The bytes-returning wire form of a relative name against an absolute origin (`Name.to_wire(origin=…)`,
hence record hashing/equality and `to_digestable`) is the uncompressed encoding of the derelativized name:
it decodes to exactly the labels of the name followed by the labels of the origin, byte-identical (no case
folding of either part unless canonical form was asked for), and it is refused with NameTooLong exactly
when that name would exceed 255 octets. -/
theorem toWireO_roundtrip (n o : Name) (hn : WfName n) (hr : isAbs n = false) (ho : WfName o)
    (hoa : isAbs o = true) :
    (wireLen (n ++ o) ≤ Consts.maxName →
      ∃ out, toWireO n (some o) false = .ok out ∧ fromWire out 0 = .ok (n ++ o, out.length)) ∧
    (wireLen (n ++ o) > Consts.maxName → toWireO n (some o) false = .error .nameTooLong) := by
  have henc : ∀ m : Name, (m.flatMap fun l => l.length :: l) = toWire m := by
    intro m; rfl
  have hlen : (toWire n ++ toWire o).length = wireLen (n ++ o) := by
    rw [← toWire_append, toWire_length]
  constructor
  · intro hle
    refine ⟨toWire (n ++ o), ?_, ?_⟩
    · simp only [toWireO, hr, Bool.false_eq_true, if_false, hoa, if_true]
      have h1 : ¬ (toWire n ++ toWire o).length > Consts.maxName := by rw [hlen]; omega
      rw [henc, henc, if_neg h1, toWire_append]
    · -- n ++ o is a well-formed absolute name
      have hone : o ≠ [] := by intro e; subst e; simp [isAbs] at hoa
      have hwf : WfName (n ++ o) := by
        refine ⟨?_, hle, ?_⟩
        · intro l hl
          rcases List.mem_append.mp hl with h | h
          · exact hn.1 l h
          · exact ho.1 l h
        · intro l hl
          have : (n ++ o).dropLast = n ++ o.dropLast := List.dropLast_append_of_ne_nil hone
          rw [this] at hl
          rcases List.mem_append.mp hl with h | h
          · exact rel_labels_nonempty n hn hr l h
          · exact ho.2.2 l h
      have habs : isAbs (n ++ o) = true := by
        unfold isAbs at hoa ⊢
        have : (n ++ o).getLast? = o.getLast? := by
          rw [List.getLast?_append]
          cases h : o.getLast? with
          | none => simp [List.getLast?_eq_none_iff] at h; exact absurd h hone
          | some x => simp
        rw [this]; exact hoa
      have := fromWire_toWire (n ++ o) hwf habs [] []
      simpa using this
  · intro hgt
    simp only [toWireO, hr, Bool.false_eq_true, if_false, hoa, if_true]
    have h1 : (toWire n ++ toWire o).length > Consts.maxName := by rw [hlen]; exact hgt
    rw [henc, henc, if_pos h1]

/-- the derelativized label sequence of a well-formed relative name against a well-formed absolute origin is
a well-formed absolute name as soon as it fits in 255 octets -/
theorem wf_append_origin (n o : Name) (hn : WfName n) (hr : isAbs n = false) (ho : WfName o)
    (hoa : isAbs o = true) (hle : wireLen (n ++ o) ≤ Consts.maxName) :
    WfName (n ++ o) ∧ isAbs (n ++ o) = true := by
  have hone : o ≠ [] := by intro e; subst e; simp [isAbs] at hoa
  constructor
  · refine ⟨?_, hle, ?_⟩
    · intro l hl
      rcases List.mem_append.mp hl with h | h
      · exact hn.1 l h
      · exact ho.1 l h
    · intro l hl
      have : (n ++ o).dropLast = n ++ o.dropLast := List.dropLast_append_of_ne_nil hone
      rw [this] at hl
      rcases List.mem_append.mp hl with h | h
      · exact rel_labels_nonempty n hn hr l h
      · exact ho.2.2 l h
  · unfold isAbs at hoa ⊢
    have : (n ++ o).getLast? = o.getLast? := by
      rw [List.getLast?_append]
      cases h : o.getLast? with
      | none => simp [List.getLast?_eq_none_iff] at h; exact absurd h hone
      | some x => simp
    rw [this]; exact hoa

/-- an over-long combination of two well-formed names is refused by the constructor with NameTooLong (no
label is too long, so the scan for LabelTooLong finds nothing first) -/
theorem validate_append_too_long (n o : Name) (hn : WfName n) (ho : WfName o)
    (hgt : wireLen (n ++ o) > Consts.maxName) : validate (n ++ o) = .error .nameTooLong := by
  unfold validate
  have h1 : (n ++ o).any (fun l => decide (l.length > Consts.maxLabel)) = false := by
    rw [List.any_eq_false]
    intro l hl
    have : l.length ≤ Consts.maxLabel := by
      rcases List.mem_append.mp hl with h | h
      · exact hn.1 l h
      · exact ho.1 l h
    simp; omega
  rw [h1]; simp [hgt]

/-- The file-writing path `Name.to_wire(file, compress=None, origin=…)` (what `Rdata.to_wire(file, origin=…)`
and the renderer use): at any file position, a relative name against an absolute origin is written as the
uncompressed encoding of name + origin — decoding at the start position returns exactly those labels and
consumes exactly the octets written — and the call raises NameTooLong, writing nothing, exactly when that
name would exceed 255 octets. -/
theorem toWireF_plain_roundtrip (out : Bytes) (n o : Name) (hn : WfName n) (hr : isAbs n = false)
    (ho : WfName o) (hoa : isAbs o = true) :
    (wireLen (n ++ o) ≤ Consts.maxName →
      ∃ ext, toWireF out none n (some o) false = .ok (out ++ ext, none) ∧
        fromWire (out ++ ext) out.length = .ok (n ++ o, ext.length)) ∧
    (wireLen (n ++ o) > Consts.maxName → toWireF out none n (some o) false = .error .nameTooLong) := by
  constructor
  · intro hle
    obtain ⟨hwf, habs⟩ := wf_append_origin n o hn hr ho hoa hle
    refine ⟨toWire (n ++ o), ?_, ?_⟩
    · simp only [toWireF, hr, Bool.false_eq_true, if_false, hoa, if_true, validate_of_wf _ hwf]
    · have := fromWire_toWire (n ++ o) hwf habs out []
      simpa using this
  · intro hgt
    simp only [toWireF, hr, Bool.false_eq_true, if_false, hoa, if_true,
      validate_append_too_long n o hn ho hgt]

/-- Closure of the file-writing path for every table, origin, position and flag combination: on well-formed
operands it either raises NeedAbsoluteNameOrOrigin or NameTooLong, or it succeeds and then the label
sequence it wrote is a well-formed absolute name (≤ 63 per label, ≤ 255 in all) — the name itself or
name + origin; without a table the octets appended are exactly that name's uncompressed encoding
(lower-cased iff canonical form was asked for). -/
theorem toWireF_closed (out : Bytes) (t : Option CTable) (n : Name) (origin : Option Name) (canon : Bool)
    (hn : WfName n) (ho : ∀ o, origin = some o → WfName o) :
    (∃ r full, toWireF out t n origin canon = .ok r ∧ WfName full ∧ isAbs full = true ∧
        (full = n ∨ ∃ o, origin = some o ∧ full = n ++ o) ∧
        (t = none → r.1 = out ++ toWire (if canon then lowerName full else full))) ∨
    toWireF out t n origin canon = .error .needAbsolute ∨
    toWireF out t n origin canon = .error .nameTooLong := by
  by_cases ha : isAbs n = true
  · left
    cases t with
    | none =>
      refine ⟨(out ++ toWire (if canon then lowerName n else n), none), n, ?_, hn, ha, Or.inl rfl, fun _ => rfl⟩
      simp only [toWireF, ha, if_true, validate_of_wf _ hn]
    | some tb =>
      refine ⟨((toWireCLoop out tb (if canon then lowerName n else n)).1,
        some (toWireCLoop out tb (if canon then lowerName n else n)).2), n, ?_, hn, ha, Or.inl rfl,
        fun h => by cases h⟩
      simp only [toWireF, ha, if_true, validate_of_wf _ hn]
  · have hr : isAbs n = false := by simpa using ha
    cases origin with
    | none => right; left; simp [toWireF, hr]
    | some o =>
      by_cases hoa : isAbs o = true
      · by_cases hle : wireLen (n ++ o) ≤ Consts.maxName
        · obtain ⟨hwf, habs⟩ := wf_append_origin n o hn hr (ho o rfl) hoa hle
          left
          cases t with
          | none =>
            refine ⟨(out ++ toWire (if canon then lowerName (n ++ o) else (n ++ o)), none), n ++ o, ?_, hwf, habs,
              Or.inr ⟨o, rfl, rfl⟩, fun _ => rfl⟩
            simp only [toWireF, hr, Bool.false_eq_true, if_false, hoa, if_true, validate_of_wf _ hwf]
          | some tb =>
            refine ⟨((toWireCLoop out tb (if canon then lowerName (n ++ o) else (n ++ o))).1,
              some (toWireCLoop out tb (if canon then lowerName (n ++ o) else (n ++ o))).2), n ++ o, ?_, hwf, habs,
              Or.inr ⟨o, rfl, rfl⟩, fun h => by cases h⟩
            simp only [toWireF, hr, Bool.false_eq_true, if_false, hoa, if_true, validate_of_wf _ hwf]
        · right; right
          have hgt : wireLen (n ++ o) > Consts.maxName := by omega
          simp only [toWireF, hr, Bool.false_eq_true, if_false, hoa, if_true,
            validate_append_too_long n o hn (ho o rfl) hgt]
      · right; left
        have : isAbs o = false := by simpa using hoa
        simp [toWireF, hr, this]

/-- The file-writing path with a compression table and an origin: against any sound table at any position,
a relative name + absolute origin that fits is written so that the output and the table only grow, every
table entry stays decodable to its key, and decoding at the start position consumes exactly what was
written and yields name + origin up to ASCII case. -/
theorem toWireF_compress_sound (out : Bytes) (tbl : CTable) (n o : Name) (hn : WfName n)
    (hr : isAbs n = false) (ho : WfName o) (hoa : isAbs o = true)
    (hle : wireLen (n ++ o) ≤ Consts.maxName) (hs : TableSound lowEq out tbl) :
    ∃ ext new, toWireF out (some tbl) n (some o) false = .ok (out ++ ext, some (tbl ++ new)) ∧
      TableSound lowEq (out ++ ext) (tbl ++ new) ∧
      ∃ m, fromWire (out ++ ext) out.length = .ok (m, ext.length) ∧ lowerName m = lowerName (n ++ o) := by
  obtain ⟨hwf, habs⟩ := wf_append_origin n o hn hr ho hoa hle
  obtain ⟨ext, new, h1, h2, h3⟩ := toWireC_sound out tbl (n ++ o) hwf habs hs
  refine ⟨ext, new, ?_, h2, h3⟩
  simp only [toWireC, habs, if_true] at h1
  have h1' : toWireCLoop out tbl (n ++ o) = (out ++ ext, tbl ++ new) := by
    injection h1
  simp only [toWireF, hr, Bool.false_eq_true, if_false, hoa, if_true, validate_of_wf _ hwf, h1']

/-- non-vacuity: a 183-octet relative name fits against `Ex.`; against a 123-octet origin it does not -/
example : wireLen (List.replicate 3 (List.replicate 60 97) ++ [[69, 120], []]) ≤ Consts.maxName ∧
    wireLen (List.replicate 3 (List.replicate 60 97) ++ (List.replicate 2 (List.replicate 60 97) ++ [[]])) > Consts.maxName := by
  constructor <;> decide +kernel

/-- `to_text(omit_final_dot=True)` of an absolute non-root name is the text of the name without its root
label, so reading it back with the root as origin (what `from_text` does by default) returns the name,
byte-identical. -/
theorem fromText_toTextOmit (n : Name) (h : WfName n) (ho : OctetsOk n) (ha : isAbs n = true)
    (hroot : n ≠ [[]]) : fromText (toTextOmit n) (some [[]]) = .ok n := by
  obtain ⟨ls, hn, hp⟩ := abs_split n h ha
  have hls : ls ≠ [] := by intro e; subst e; exact hroot (by simpa using hn)
  have hne : n ≠ [] := by rw [hn]; simp
  have hdl : n.dropLast = ls := by rw [hn]; simp
  have hlsne : ∀ l ∈ ls, l ≠ [] := by
    intro l hl e; have := (hp l hl).1; rw [e] at this; simp at this
  have hls1 : ls ≠ [[]] := by
    intro e; exact hlsne [] (by rw [e]; simp) rfl
  have hrel : isAbs ls = false := by
    unfold isAbs
    cases hg : ls.getLast? with
    | none => rfl
    | some x =>
      have hx : x ∈ ls := List.mem_of_getLast? hg
      cases x with
      | nil => exact absurd rfl (hlsne [] hx)
      | cons a b => rfl
  have hwl : WfName ls := by
    refine ⟨fun l hl => h.1 l (by rw [hn]; simp [hl]), ?_, fun l hl => hlsne l (List.dropLast_subset ls hl)⟩
    have := h.2.1; rw [hn] at this; unfold wireLen at this ⊢; simp at this ⊢; omega
  have hol : OctetsOk ls := fun l hl => ho l (by rw [hn]; simp [hl])
  have htxt : toTextOmit n = toText ls := by
    unfold toTextOmit toText
    simp only [hne, hroot, if_false, ha, if_true, hdl, hls, hls1]
  rw [htxt, fromText_toText_origin ls [[]] hwl hol, hrel]
  simp only [Bool.false_eq_true, if_false]
  rw [← hn]; exact validate_of_wf n h

/-- Styled text is `choose_relativity` followed by printing: with `NameStyle(origin, relativize)` the text is
that of the relativized / derelativized name (the name itself when the origin is `None` or empty), and any
error is that operation's. -/
theorem toStyledText_spec (n : Name) (omitDot : Bool) (origin : Option Name) (rel : Bool) :
    toStyledText n omitDot origin rel =
      match (match origin with
             | none => (Except.ok n : Except NameErr Name)
             | some o => if o = [] then Except.ok n else if rel then relativize n o else derelativize n o) with
      | .error e => .error e
      | .ok m => .ok (if omitDot then toTextOmit m else toText m) := by
  unfold toStyledText chooseRel
  cases origin <;> rfl

/-- non-vacuity: `www.Ex.` is absolute, well formed and not the root -/
example : WfName [[119, 119, 119], [69, 120], []] ∧ isAbs [[119, 119, 119], [69, 120], []] = true ∧
    ([[119, 119, 119], [69, 120], []] : Name) ≠ [[]] ∧
    toTextOmit [[119, 119, 119], [69, 120], []] = [119, 119, 119, 46, 69, 120] := by
  refine ⟨⟨?_, ?_, ?_⟩, by decide, by decide, by decide⟩ <;> decide

/-- non-vacuity: `www` against `Example.` -/
example : WfName [[119, 119, 119]] ∧ isAbs [[119, 119, 119]] = false ∧ WfName [[69, 120], []] ∧ isAbs [[69, 120], []] = true := by
  refine ⟨⟨?_, ?_, ?_⟩, by decide, ⟨?_, ?_, ?_⟩, by decide⟩ <;> decide

/-- non-vacuity for the wire theorems: `www.Example.` is absolute and well formed -/
example : WfName [[119, 119, 119], [69, 120], []] ∧ isAbs [[119, 119, 119], [69, 120], []] = true := by
  constructor
  · refine ⟨?_, ?_, ?_⟩ <;> decide
  · decide

end C01

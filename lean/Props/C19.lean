import Proofs.BTreeTree
import Proofs.BTreeDeleteExact
import Proofs.BTreeCursor5
import Proofs.BTreeApi
import Proofs.BTreeCowSess4
import Generated.C19
/-!
# C19 — the copy-on-write B-tree is a correct sorted map with isolated clones

Theorems of record about `Model.BTree` (the executable model of `dns/btree.py`, tied to the code by the
correspondence check `harness/props/C19.py`, which compares the full tree shape after every operation).

* Spec: a strictly sorted association list (`Sorted`, `lookup`, `insSorted`, `delKey`), keys and value
  ids in `Nat`.
* `flat n` is `visit_in_order`; `Wf t n` = all leaves at one depth, every internal node has one more child
  than elements, every non-root node holds between `t-1` and `2t-1` elements, the root at most `2t-1`, and
  `flat n` is strictly sorted.  `RootOk n` = an internal root holds at least one element.
* `TreeWf tr` adds the handle: `3 ≤ t` and `size = number of elements`.

Layers: L1 (`get`, order, length), L2 (`insert_element`, every `t ≥ 3`), L3 (`_delete`, every `t ≥ 3`),
L4 (in-order optimisation) are proved.  L3 exposes a defect of the code as shipped (an internal root is
left without elements when a deletion of an absent key merges its two children; see
`delete_asShipped_*`); the full statement is proved for the intended root collapse
(`Tree.collapseAlways = true`), a guarded statement and the counterexamples for the shipped one.  A second
defect of the same kind (root left empty when `delete_exact` raised) is covered by `delete_exact_refines` /
`delete_exact_unrepaired_loses_rootOk` (`Tree.collapseOnError`).  Both are repaired in the working tree
(f381413, 90d7725); the correspondence check runs the model with both repairs as the reference.
L5 (cursors): a cursor position is a split `done ++ rest` of the in-order listing (`CurInv`, a zipper over the
parents stack); `next` / `prev` / `seek` / `seek_first` / `seek_last` and unparking after arbitrary mutations
are proved to be navigation in that listing.

Mechanism level (`Model.BTreeCow`): a heap of cells with creator tokens, trees as root pointers, copy-on-write
exactly where the code copies.  `cow_step_refines` / `cow_run_refines`: every operation of any interleaving on any
number of trees and clones refines the persistent model; `cow_writes_only_own_cells`: a mutation changes only
cells created by the operating tree's token; `clone_isolated_mech`: it changes the abstraction of no other tree.

API level: `dict_*` / `set_*` state the `BTreeDict` / `BTreeSet` methods (with the `MutableMapping` /
`MutableSet` mixins) against the sorted association list; `mutation_parks_registered` and
`registered_cursor_resumes` put the parking of registered cursors inside the model.
-/
namespace C19
open Model.BTree

/-- The occupancy bounds `_MIN(t)`, `_MAX(t)` of the working tree, evaluated at t = 3..8, are the model's
`minKeys`/`maxKeys`, and the constructor's lower bound on `t` is 3. -/
theorem consts_agree :
    (∀ r ∈ ConstsC19.minMax, r.2.1 = minKeys r.1 ∧ r.2.2 = maxKeys r.1) ∧ ConstsC19.minT = 3 := by
  decide

/-! ## L1 — lookup, order, length -/

/-- "lookup … agree[s] with a reference sorted dictionary": `get_element` on a well-formed tree is lookup in
the in-order listing. -/
theorem get_refines {t : Nat} {n : Node} (k : Nat) (h : Wf t n) : get (height n) n k = lookup (flat n) k := by
  obtain ⟨hh, hs⟩ := h.shape
  rw [height_of_shape hs]
  exact get_refines_aux t k hh n hs h.sorted

/-- "in-order iteration … agree[s]": the in-order listing of a well-formed tree is strictly increasing in the
keys (and, by `insert_refines` / `delete_refines`, it is exactly the reference list after every operation). -/
theorem inorder_sorted {t : Nat} {n : Node} (h : Wf t n) : (flat n).Pairwise (fun a b => a.1 < b.1) := h.sorted

/-- "length … agree[s]": `len()` is the number of elements of the in-order listing, initially and after
every insertion and deletion (either variant of the root collapse). -/
theorem len_exact {tr : Tree} (hw : TreeWf tr) (hm : tr.immutable = false) (e : Elt) (k : Nat) :
    tr.size = tr.items.length ∧
    (tr.insert e).1.size = (tr.insert e).1.items.length ∧
    ((tr.delete k none).2 ≠ .indexError → (tr.delete k none).1.size = (tr.delete k none).1.items.length) := by
  refine ⟨hw.size_ok, (tree_insert_spec e hw hm).1.size_ok, ?_⟩
  intro hne
  have ht2 : 2 ≤ tr.t := by have := hw.t_ok; omega
  rcases deleteRoot_weak ht2 tr.collapseAlways k hw.wf with ⟨h1, _⟩ | ⟨h1, h2, h3, _⟩
  · exfalso; apply hne
    simp only [Tree.delete, hm, Bool.false_eq_true, if_false]
    rcases hdr : deleteRoot tr.collapseAlways tr.t tr.root k none with ⟨r, res⟩
    rw [hdr] at h1
    simp only [] at h1
    subst h1
    rfl
  · exact (tree_delete_of_root k hw hm ⟨h1, h2, h3⟩).1.size_ok

/-! ## L2 / L4 — insertion -/

/-- "For every sequence of insertions, replacements …": `insert_element` on a well-formed mutable tree, for
every branching factor `t ≥ 3` and with the in-order optimisation on or off, yields a well-formed tree whose
in-order listing is the sorted insertion (a replacement when the key exists), returns the replaced element,
keeps the root condition, and keeps `size` exact. -/
theorem insert_refines {tr : Tree} (e : Elt) (hw : TreeWf tr) (hm : tr.immutable = false) :
    TreeWf (tr.insert e).1 ∧ (tr.insert e).1.items = insSorted e tr.items ∧
    (tr.insert e).2 = .ok (lookup tr.items e.1) ∧ (RootOk tr.root → RootOk (tr.insert e).1.root) :=
  let h := tree_insert_spec e hw hm
  ⟨h.1, h.2.1, h.2.2.1, h.2.2.2.1⟩

/-- the same at node level (`insert_nonfull` below a grown root), as in DESIGN Appendix A -/
theorem insert_refines_node {t : Nat} (ht : 3 ≤ t) (io : Bool) (e : Elt) {n : Node} (h : Wf t n) :
    Wf t (insertRoot t io n e).1 ∧ flat (insertRoot t io n e).1 = insSorted e (flat n) ∧
    (insertRoot t io n e).2 = lookup (flat n) e.1 :=
  insertRoot_spec (by omega) io e h

/-- L4, "in-order optimisation on and off": the optimisation changes the shape only — the listing and the
returned element do not depend on it, and both results are well-formed. -/
theorem in_order_opt_refines {t : Nat} (ht : 3 ≤ t) (e : Elt) {n : Node} (h : Wf t n) :
    flat (insertRoot t true n e).1 = flat (insertRoot t false n e).1 ∧
    (insertRoot t true n e).2 = (insertRoot t false n e).2 ∧
    Wf t (insertRoot t true n e).1 ∧ Wf t (insertRoot t false n e).1 := by
  obtain ⟨a1, a2, a3⟩ := insertRoot_spec (t := t) (by omega) true e h
  obtain ⟨b1, b2, b3⟩ := insertRoot_spec (t := t) (by omega) false e h
  exact ⟨by rw [a2, b2], by rw [a3, b3], a1, b1⟩

/-! ## L3 — deletion -/

/-- "… and deletions": with the intended root collapse (an emptied root is collapsed whenever `delete`
returns), `delete_key` on a well-formed mutable tree, for every `t ≥ 3` and every key (present or absent),
through every rebalancing case (steal left, steal right, merge, successor replacement, root collapse), yields a
well-formed tree whose listing is the reference list without the key, and returns the removed element. -/
theorem delete_refines {tr : Tree} (k : Nat) (hw : TreeWf tr) (hr : RootOk tr.root) (hm : tr.immutable = false)
    (hv : tr.collapseAlways = true) :
    TreeWf (tr.delete k none).1 ∧ RootOk (tr.delete k none).1.root ∧
    (tr.delete k none).1.items = delKey k tr.items ∧ (tr.delete k none).2 = .ok (lookup tr.items k) := by
  have ht2 : 2 ≤ tr.t := by have := hw.t_ok; omega
  have hd := deleteRoot_intended ht2 k hw.wf hr
  rw [← hv] at hd
  obtain ⟨d1, d2, d3, d4⟩ := hd
  obtain ⟨a, b, c, d⟩ := tree_delete_of_root k hw hm ⟨d1, d3, d4⟩
  exact ⟨a, by rw [d]; exact d2, b, c⟩

/-
Full statement for the code as shipped (it does NOT hold — see the two counterexamples below):

theorem delete_refines_asShipped {tr : Tree} (k : Nat) (hw : TreeWf tr) (hr : RootOk tr.root)
    (hm : tr.immutable = false) (hv : tr.collapseAlways = false) :
    TreeWf (tr.delete k none).1 ∧ RootOk (tr.delete k none).1.root ∧
    (tr.delete k none).1.items = delKey k tr.items ∧ (tr.delete k none).2 = .ok (lookup tr.items k)
-/

/-- The shipped `_delete` (root collapsed only when an element was deleted): the full statement holds outside
the trigger class "the key is absent and the root is an internal node holding exactly one element". -/
theorem delete_refines_partial {tr : Tree} (k : Nat) (hw : TreeWf tr) (hr : RootOk tr.root)
    (hm : tr.immutable = false) (hv : tr.collapseAlways = false)
    (guard : (lookup tr.items k).isSome ∨ tr.root.elts.length ≠ 1 ∨ tr.root.isLeaf = true) :
    TreeWf (tr.delete k none).1 ∧ RootOk (tr.delete k none).1.root ∧
    (tr.delete k none).1.items = delKey k tr.items ∧ (tr.delete k none).2 = .ok (lookup tr.items k) := by
  have ht2 : 2 ≤ tr.t := by have := hw.t_ok; omega
  have hd := deleteRoot_asShipped_partial ht2 k hw.wf hr guard
  rw [← hv] at hd
  obtain ⟨d1, d2, d3, d4⟩ := hd
  obtain ⟨a, b, c, d⟩ := tree_delete_of_root k hw hm ⟨d1, d3, d4⟩
  exact ⟨a, by rw [d]; exact d2, b, c⟩

/-- What the shipped code does on *every* well-formed tree (root condition or not, either variant): a deletion
either refines the reference and keeps the tree well-formed, or — exactly when the root is an internal node
without elements over a single minimal child — raises `IndexError` and leaves the tree unchanged.  Occupancy
bounds, uniform leaf depth and order therefore hold after every operation of every history; only totality
fails. -/
theorem delete_refines_or_indexError {tr : Tree} (k : Nat) (hw : TreeWf tr) (hm : tr.immutable = false) :
    ((tr.delete k none).2 = .indexError ∧ (tr.delete k none).1 = tr ∧
        ∃ c, tr.root = .node [] [c] ∧ c.elts.length = minKeys tr.t) ∨
    (TreeWf (tr.delete k none).1 ∧ (tr.delete k none).1.items = delKey k tr.items ∧
      (tr.delete k none).2 = .ok (lookup tr.items k)) := by
  have ht2 : 2 ≤ tr.t := by have := hw.t_ok; omega
  rcases deleteRoot_weak ht2 tr.collapseAlways k hw.wf with ⟨h1, h2, h3⟩ | ⟨h1, h2, h3, _⟩
  · left
    simp only [Tree.delete, hm, Bool.false_eq_true, if_false]
    rcases hdr : deleteRoot tr.collapseAlways tr.t tr.root k none with ⟨r, res⟩
    rw [hdr] at h1 h2
    simp only [] at h1 h2
    subst h1 h2
    refine ⟨rfl, ?_, h3⟩
    cases tr
    simp_all
  · right
    obtain ⟨a, b, c, _⟩ := tree_delete_of_root k hw hm ⟨h1, h2, h3⟩
    exact ⟨a, b, c⟩

/-- a root with one element over two minimal leaves (t = 3) -/
def witnessRoot : Node := .node [(4, 0)] [.leaf [(0, 0), (2, 0)], .leaf [(6, 0), (8, 0)]]

/-- an internal root without elements over a single minimal child (t = 3), as left behind by deletions of
absent keys -/
def witnessStuck : Node :=
  .node [] [.node [(10, 0), (22, 0)]
    [.leaf [(0, 0), (2, 0), (4, 0), (6, 0), (8, 0)], .leaf [(12, 0), (14, 0), (16, 0), (18, 0), (20, 0)],
     .leaf [(24, 0), (26, 0), (28, 0), (30, 0), (32, 0)]]]

theorem witnessRoot_wf : Wf 3 witnessRoot ∧ RootOk witnessRoot := by
  refine ⟨⟨⟨1, ?_⟩, by decide, by decide⟩, Or.inr (by decide)⟩
  simp [witnessRoot, Shape, Occ, minKeys, maxKeys, Node.elts]

theorem witnessStuck_wf : Wf 3 witnessStuck := by
  refine ⟨⟨2, ?_⟩, by decide, by decide⟩
  simp [witnessStuck, Shape, Occ, minKeys, maxKeys, Node.elts]

/-- Counterexample 1 (code as shipped): deleting the absent key 1 from a well-formed tree whose root holds one
element over two minimal children leaves an internal root without elements — the root condition is lost
(nothing observable is wrong yet). -/
theorem delete_asShipped_loses_rootOk :
    Wf 3 witnessRoot ∧ RootOk witnessRoot ∧ lookup (flat witnessRoot) 1 = none ∧
    shapeCode (deleteRoot false 3 witnessRoot 1 none).1 =
      [(false, [], 1), (true, [(0, 0), (2, 0), (4, 0), (6, 0), (8, 0)], 0)] ∧
    ¬ RootOk (deleteRoot false 3 witnessRoot 1 none).1 := by
  refine ⟨witnessRoot_wf.1, witnessRoot_wf.2, by decide, by decide, ?_⟩
  have h1 : (deleteRoot false 3 witnessRoot 1 none).1.isLeaf = false := by decide
  have h2 : (deleteRoot false 3 witnessRoot 1 none).1.elts.length = 0 := by decide
  intro h
  rcases h with h | h
  · rw [h1] at h; cases h
  · omega

/-- Counterexample 2 (either variant, reachable only with the shipped one): in the state that further deletions
of absent keys produce, every deletion raises `IndexError`. -/
theorem delete_asShipped_indexError (k : Nat) :
    Wf 3 witnessStuck ∧ (deleteRoot false 3 witnessStuck k none).2 = .indexError := by
  refine ⟨witnessStuck_wf, ?_⟩
  -- this is the failing configuration of `deleteRoot_weak`: the other alternative would return `.ok _`
  rcases deleteRoot_weak (t := 3) (by omega) false k witnessStuck_wf with ⟨h, _⟩ | ⟨_, _, h3, _⟩
  · exact h
  · exfalso
    have hd : (deleteRoot false 3 witnessStuck k none).2 = .indexError := by
      simp [deleteRoot, witnessStuck, height, heightL, delete, Node.elts, searchInNode_nil,
        delPrep_single_minimal (t := 3) (c := .node [(10, 0), (22, 0)]
          [.leaf [(0, 0), (2, 0), (4, 0), (6, 0), (8, 0)], .leaf [(12, 0), (14, 0), (16, 0), (18, 0), (20, 0)],
           .leaf [(24, 0), (26, 0), (28, 0), (30, 0), (32, 0)]]) k (by simp [Node.elts, minKeys])]
    rw [hd] at h3
    cases h3

/-! ## `delete_exact` -/

/-- `delete_exact(element)` with the repaired `_delete` (the root is collapsed whenever it is left empty — also when
the call raises; dnspython f381413 + 90d7725).  Object identity is modelled as equality of (key, value id).

* the element passed is the stored one: the call *is* `delete_key(element.key())`, hence (by `delete_refines`) the
  tree stays well-formed, its listing loses exactly that key, and the element is returned;
* any other element (absent key, or another element under a present key): `ValueError`; the rebalancing done on the
  way down stays, and what is left is a well-formed tree whose root condition holds, with the same listing and the
  same `size` — so every later operation is again covered by the theorems above. -/
theorem delete_exact_refines {tr : Tree} (x : Elt) (hw : TreeWf tr) (hr : RootOk tr.root)
    (hm : tr.immutable = false) (hv : tr.collapseAlways = true) (he : tr.collapseOnError = true) :
    (lookup tr.items x.1 = some x →
      TreeWf (tr.delete x.1 (some x)).1 ∧ RootOk (tr.delete x.1 (some x)).1.root ∧
      (tr.delete x.1 (some x)).1.items = delKey x.1 tr.items ∧ (tr.delete x.1 (some x)).2 = .ok (some x)) ∧
    (lookup tr.items x.1 ≠ some x →
      TreeWf (tr.delete x.1 (some x)).1 ∧ RootOk (tr.delete x.1 (some x)).1.root ∧
      (tr.delete x.1 (some x)).1.items = tr.items ∧ (tr.delete x.1 (some x)).2 = .valueError ∧
      (tr.delete x.1 (some x)).1.size = tr.size) := by
  obtain ⟨h1, h2⟩ := tree_delete_exact x.1 x hw hr hm he
  refine ⟨fun hx => ?_, h2⟩
  rw [h1 hx]
  obtain ⟨a, b, c, d⟩ := delete_refines x.1 hw hr hm hv
  exact ⟨a, b, c, by rw [d, hx]⟩

/-- The same for any key/element pair (the model keeps `key` and `exact` apart like `_Node.delete` does): a failing
exact deletion never changes the listing, whatever it did to the shape. -/
theorem delete_exact_failure_keeps_contents {tr : Tree} (k : Nat) (x : Elt) (hw : TreeWf tr) (hr : RootOk tr.root)
    (hm : tr.immutable = false) (he : tr.collapseOnError = true) (hx : lookup tr.items k ≠ some x) :
    (tr.delete k (some x)).2 = .valueError ∧ (tr.delete k (some x)).1.items = tr.items ∧
    TreeWf (tr.delete k (some x)).1 ∧ RootOk (tr.delete k (some x)).1.root := by
  obtain ⟨a, b, c, d, _⟩ := (tree_delete_exact k x hw hr hm he).2 hx
  exact ⟨d, c, a, b⟩

/-- the tree of `witnessRoot` as a handle (t = 3, five elements), with and without the repair of 90d7725 -/
def witnessTree (collapseOnError : Bool) : Tree := ⟨3, witnessRoot, 5, false, false, true, collapseOnError⟩

theorem witnessTree_wf (b : Bool) : TreeWf (witnessTree b) ∧ RootOk (witnessTree b).root :=
  ⟨⟨by simp [witnessTree], witnessRoot_wf.1, by simp [witnessTree, witnessRoot, flat, inter]⟩,
    Or.inr (by simp [witnessTree, witnessRoot, Node.elts])⟩

/-- non-vacuity, failing branch: `delete_exact` of an element that is not stored (absent key 5) merges the two
minimal leaves on its way down and raises; with the repair the emptied root is collapsed … -/
example : (lookup (witnessTree true).items 5 ≠ some (5, 9)) ∧
    ((witnessTree true).delete 5 (some (5, 9))).2 = .valueError ∧
    shapeCode ((witnessTree true).delete 5 (some (5, 9))).1.root =
      [(true, [(0, 0), (2, 0), (4, 0), (6, 0), (8, 0)], 0)] := by
  refine ⟨by decide, rfl, by decide⟩

/-- … and without it (the code before 90d7725) the root condition is lost although nothing was deleted: the
hypothesis `collapseOnError = true` of `delete_exact_refines` cannot be dropped. -/
theorem delete_exact_unrepaired_loses_rootOk :
    TreeWf (witnessTree false) ∧ RootOk (witnessTree false).root ∧
    ((witnessTree false).delete 5 (some (5, 9))).2 = .valueError ∧
    ¬ RootOk ((witnessTree false).delete 5 (some (5, 9))).1.root := by
  refine ⟨(witnessTree_wf false).1, (witnessTree_wf false).2, rfl, ?_⟩
  intro hro
  rcases hro with hl | hp
  · have : (((witnessTree false).delete 5 (some (5, 9))).1.root.isLeaf) = false := by decide
    rw [this] at hl; cases hl
  · have : ((witnessTree false).delete 5 (some (5, 9))).1.root.elts.length = 0 := by decide
    omega

/-- non-vacuity, matching branch: the stored element (4, 0) of an internal node is deleted exactly; a foreign element
under the same key is refused and changes nothing here -/
example : ((witnessTree true).delete 4 (some (4, 0))).2 = .ok (some (4, 0)) ∧
    ((witnessTree true).delete 4 (some (4, 0))).1.items = [(0, 0), (2, 0), (6, 0), (8, 0)] ∧
    ((witnessTree true).delete 4 (some (4, 7))).2 = .valueError ∧
    ((witnessTree true).delete 4 (some (4, 7))).1.items = (witnessTree true).items := by
  refine ⟨rfl, by decide, rfl, by decide⟩

/-! ## frozen trees and clones -/

/-- "a frozen tree rejects every mutation": `insert_element`, `delete_key` and `delete_exact` on an immutable tree
raise `Immutable` and leave the tree as it is. -/
theorem frozen_rejects {tr : Tree} (h : tr.immutable = true) (e : Elt) (k : Nat) (x : Option Elt) :
    tr.insert e = (tr, .immutableErr) ∧ tr.delete k x = (tr, .immutableErr) ∧
    (tr.makeImmutable).immutable = true :=
  ⟨frozen_insert e h, frozen_delete k x h, rfl⟩

/-- "A copy-on-write clone …": a clone can only be taken from a frozen tree, is mutable, and starts with the
same contents; in the model nodes are persistent values, so no later operation on the clone can be observed
through the original (isolation of the *code* is established by the correspondence histories, which re-read
the original and every clone after each mutation). -/
theorem clone_isolated {o : Tree} (io : Bool) :
    (o.immutable = false → o.clone io = none) ∧
    (∀ c, o.clone io = some c → c.items = o.items ∧ c.size = o.size ∧ c.t = o.t ∧ c.root = o.root ∧
      c.immutable = false ∧ (TreeWf o → TreeWf c)) := by
  refine ⟨fun h => by simp [Tree.clone, h], ?_⟩
  intro c hc
  unfold Tree.clone at hc
  split at hc
  · simp only [Option.some.injEq] at hc
    subst hc
    exact ⟨rfl, rfl, rfl, rfl, rfl, fun hw => ⟨hw.t_ok, hw.wf, hw.size_ok⟩⟩
  · simp at hc

/-! ## non-vacuity -/

/-- the hypotheses of the theorems above are met by a non-trivial tree: a two-level tree with t = 3 -/
example : TreeWf ⟨3, witnessRoot, 5, false, true, true, false⟩ ∧ RootOk witnessRoot :=
  ⟨⟨by decide, witnessRoot_wf.1, by decide⟩, witnessRoot_wf.2⟩

/-- and the operations really change it: inserting key 5 and deleting key 4 (successor replacement + merge +
root collapse) on that tree -/
example : flat (insertRoot 3 true witnessRoot (5, 9)).1 = [(0, 0), (2, 0), (4, 0), (5, 9), (6, 0), (8, 0)] := by
  decide
example : shapeCode (deleteRoot true 3 witnessRoot 4 none).1 = [(true, [(0, 0), (2, 0), (6, 0), (8, 0)], 0)] := by
  decide
example : get (height witnessRoot) witnessRoot 6 = some (6, 0) := by decide
example : (Tree.empty 3 false).immutable = false ∧ TreeWf (Tree.empty 3 false) :=
  ⟨rfl, (empty_treeWf (by decide) false false).1⟩

/-! ## L5 — cursors

`CurInv t root c done rest`: the (unparked) cursor `c` rests in the tree `root` at the position that splits the
in-order listing into `done ++ rest`.  `SplitAt k before done rest`: that position is the lower bound
(`before`) / upper bound (`not before`) of key `k`.
-/

/-- "cursor seek/next/prev … agree with a reference sorted dictionary": a fresh cursor and `seek_first` rest on the
left boundary, `seek_last` on the right boundary, of whatever tree they are used with. -/
theorem cursor_boundaries (t : Nat) (root : Node) (c : Cursor) :
    CurInv t root ({} : Cursor) [] (flat root) ∧ CurInv t root c.seekFirst [] (flat root) ∧
    CurInv t root c.seekLast (flat root) [] ∧ c.seekFirst.parked = false ∧ c.seekLast.parked = false ∧
    c.seekFirst.pkey = none ∧ c.seekLast.pkey = none :=
  ⟨(boundary_inv t root {} rfl rfl rfl).1 rfl, (boundary_inv t root c.seekFirst rfl rfl rfl).1 rfl,
   (boundary_inv t root c.seekLast rfl rfl rfl).2 rfl, rfl, rfl, rfl, rfl⟩

/-- `seek(key, before)` on a well-formed tree rests at the lower bound (`before`) or upper bound (`not before`)
of the key in the in-order listing, and records the anchor (key, not yet returned, hint = `before`). -/
theorem cursor_seek_refines {tr : Tree} (hw : TreeWf tr) (key : Nat) (before : Bool) :
    ∃ D R, CurInv tr.t tr.root (Cursor.seek tr.root key before) D R ∧ D ++ R = tr.items ∧
      SplitAt key before D R ∧ (Cursor.seek tr.root key before).parked = false ∧
      (Cursor.seek tr.root key before).pkey = some key ∧ (Cursor.seek tr.root key before).pread = false ∧
      (Cursor.seek tr.root key before).increasing = before := by
  obtain ⟨D, R, h1, h2, h3⟩ := seek_spec hw.wf key before
  exact ⟨D, R, h1, curInv_split h1, h2, h3⟩

/-- `next()` of an unparked cursor returns the element after the position (`None` at the end) and moves past
it; the anchor it leaves is that element's key, returned, increasing. -/
theorem cursor_next_refines {tr : Tree} (hw : TreeWf tr) (c : Cursor) (D R : List Elt) (hp : c.parked = false)
    (hinv : CurInv tr.t tr.root c D R) :
    D ++ R = tr.items ∧ (c.next tr.root).2 = R.head? ∧
    CurInv tr.t tr.root (c.next tr.root).1 (D ++ R.head?.toList) R.tail ∧ (c.next tr.root).1.parked = false ∧
    (∀ e, (c.next tr.root).2 = some e → (c.next tr.root).1.pkey = some e.1 ∧ (c.next tr.root).1.pread = true ∧
      (c.next tr.root).1.increasing = true) ∧
    ((c.next tr.root).2 = none → (c.next tr.root).1.pkey = none) := by
  obtain ⟨Hr, hr⟩ := hw.wf.shape
  obtain ⟨h1, h2, h3⟩ := next_spec hr c D R hp hinv
  exact ⟨curInv_split hinv, h1, h2, h3, (next_anchor c tr.root).1, (next_anchor c tr.root).2⟩

/-- `prev()` of an unparked cursor returns the element before the position (`None` at the start) and moves
before it; the anchor it leaves is that element's key, returned, decreasing. -/
theorem cursor_prev_refines {tr : Tree} (hw : TreeWf tr) (c : Cursor) (D R : List Elt) (hp : c.parked = false)
    (hinv : CurInv tr.t tr.root c D R) :
    D ++ R = tr.items ∧ (c.prev tr.root).2 = D.getLast? ∧
    CurInv tr.t tr.root (c.prev tr.root).1 D.dropLast (D.getLast?.toList ++ R) ∧ (c.prev tr.root).1.parked = false ∧
    (∀ e, (c.prev tr.root).2 = some e → (c.prev tr.root).1.pkey = some e.1 ∧ (c.prev tr.root).1.pread = true ∧
      (c.prev tr.root).1.increasing = false) ∧
    ((c.prev tr.root).2 = none → (c.prev tr.root).1.pkey = none) := by
  obtain ⟨Hr, hr⟩ := hw.wf.shape
  obtain ⟨h1, h2, h3⟩ := prev_spec hr c D R hp hinv
  exact ⟨curInv_split hinv, h1, h2, h3, (prev_anchor c tr.root).1, (prev_anchor c tr.root).2⟩

/-- "including cursors kept open across mutations": a parked cursor with a parking key `K`, used on the tree
*as it is now* (any well-formed tree, whatever mutations happened while the cursor was parked), resumes at the
bound of `K` — just after `K` if `K` was returned by `next()`, just before it if it was returned by `prev()`, as
sought if it was not returned yet — and `next()` / `prev()` continue from there.  A parked cursor without a
parking key rests on a boundary and stays there. -/
theorem cursor_unpark_refines {tr : Tree} (hw : TreeWf tr) (c : Cursor) (K : Nat) (hp : c.parked = true)
    (hk : c.pkey = some K) :
    ∃ D R, D ++ R = tr.items ∧ SplitAt K (unparkBefore c) D R ∧
      (c.next tr.root).2 = R.head? ∧ CurInv tr.t tr.root (c.next tr.root).1 (D ++ R.head?.toList) R.tail ∧
      (c.prev tr.root).2 = D.getLast? ∧
      CurInv tr.t tr.root (c.prev tr.root).1 D.dropLast (D.getLast?.toList ++ R) ∧
      (c.next tr.root).1.parked = false ∧ (c.prev tr.root).1.parked = false := by
  obtain ⟨Hr, hr⟩ := hw.wf.shape
  obtain ⟨D, R, hinv, hsplit, hunp⟩ := maybeUnpark_key hw.wf c K hp hk
  have hinv1 : CurInv tr.t tr.root { c.maybeUnpark tr.root with pkey := none } D R :=
    curInv_congr rfl rfl rfl rfl rfl hinv
  obtain ⟨n1, n2, n3⟩ := nextBody_spec hr _ D R hinv1
  obtain ⟨p1, p2, p3⟩ := prevBody_spec hr _ D R hinv1
  rw [← next_eq_body] at n1 n2 n3
  rw [← prev_eq_body] at p1 p2 p3
  exact ⟨D, R, curInv_split hinv, hsplit, n1, n2, p1, p2, by rw [n3]; exact hunp, by rw [p3]; exact hunp⟩

/-- parking without a mutation is the identity: the position that an anchor denotes in a sorted listing is
unique, so re-seeking it on an unchanged tree returns to the same split. -/
theorem cursor_bound_unique {key : Nat} {b : Bool} {D R D' R' : List Elt}
    (hs : (D ++ R).Pairwise (fun a b => a.1 < b.1)) (heq : D ++ R = D' ++ R') (h : SplitAt key b D R)
    (h' : SplitAt key b D' R') : D = D' ∧ R = R' :=
  splitAt_unique hs heq h h'

/-- non-vacuity: a cursor sought to key 4 in the two-level witness tree; `next()` returns (4, 0), then (6, 0);
after deleting key 6 from the tree (cursor parked with anchor "after 4"), `next()` returns (8, 0). -/
example : ((Cursor.seek witnessRoot 4 true).next witnessRoot).2 = some (4, 0) := by decide
example : ((((Cursor.seek witnessRoot 4 true).next witnessRoot).1.park).next
    (deleteRoot true 3 witnessRoot 6 none).1).2 = some (8, 0) := by decide

/-! ## the copy-on-write mechanism (`Model.BTreeCow`)

`Sess` = one heap of cells (`creator`, `is_leaf`, `elts`, child addresses) + tree handles (root pointer, own creator
token).  `Sess.step` runs `BTree(t=…)`, `insert_element`, `delete_key`, `BTree(original=…)`, `make_immutable` on the
heap, copying exactly where the code copies; `refStep` runs the same operation on a list of independent
`Model.BTree.Tree` values; `Sess.abs` reads every tree off the heap.  `SessOk` is the session invariant (well-formed
unshared trees; every cell created by a handed-out token; distinct tokens; no cell created by the token of a mutable
tree is reachable from another tree). -/
section Mechanism
open Model.BTreeCow

/-- "A copy-on-write clone is fully isolated" at mechanism level, one step: the invariant is kept and the
abstraction of the whole session after the step is the step of the persistent reference — so the operated tree
behaves as `Model.BTree` says (L1–L3 apply to it) and every other tree is unchanged. -/
theorem cow_step_refines {s : Sess} (ok : SessOk s) (op : Op) (hop : OpOk op) :
    SessOk (s.step op) ∧ (s.step op).abs = refStep s.abs op :=
  step_refines ok op hop

/-- "… for all clone/freeze points in the history": any interleaving of operations on any number of trees and
clones, starting from the empty session. -/
theorem cow_run_refines (ops : List Op) (hops : ∀ op ∈ ops, OpOk op) :
    SessOk (ops.foldl Sess.step Sess.init) ∧
    (ops.foldl Sess.step Sess.init).abs = ops.foldl refStep [] := by
  have := run_refines ops hops sessOk_init
  simpa [Sess.abs, Sess.init] using this

/-- "no mutation of a clone is observable through its original or any other clone": an operation on tree `i`
leaves the abstraction of every other tree `j` exactly as it was. -/
theorem clone_isolated_mech {s : Sess} (ok : SessOk s) (op : Op) (hop : OpOk op) (j : Nat) (hj : j < s.hs.length)
    (hne : op.target ≠ some j) :
    (s.step op).abs[j]? = s.abs[j]? := by
  rw [(step_refines ok op hop).2]
  exact refStep_other s.abs op j (by simpa [Sess.abs] using hj) hne

/-- Every operation on a tree with creator token `c` writes only heap cells whose creator is `c`: cells created
by other tokens are untouched, no creator changes, every new cell is created by `c`. -/
theorem cow_writes_only_own_cells {s : Sess} (ok : SessOk s) (i : Nat) (hd : Handle) (hi : s.hs[i]? = some hd)
    (e : Elt) (k : Nat) :
    Footprint hd.creator s.w.heap (s.step (.insert i e)).w.heap ∧
    Footprint hd.creator s.w.heap (s.step (.delete i k)).w.heap :=
  ⟨insert_footprint ok i e hd hi, delete_footprint ok i k hd hi⟩

/-- non-vacuity: a tree with five keys is frozen and cloned twice; both clones are mutated.  The invariant holds
(so the theorems above apply), and on the heap the original still reads as before while the clones differ. -/
def demoOps : List Op :=
  [.new 3 false true, .insert 0 (1, 1), .insert 0 (2, 2), .insert 0 (3, 3), .insert 0 (4, 4), .insert 0 (5, 5),
   .freeze 0, .clone 0 false, .clone 0 true, .insert 1 (6, 6), .delete 2 3, .insert 0 (9, 9)]

example : SessOk (demoOps.foldl Sess.step Sess.init) :=
  (cow_run_refines demoOps (by simp [demoOps, OpOk])).1

example : ((demoOps.foldl Sess.step Sess.init).abs.map Tree.items) =
    [[(1, 1), (2, 2), (3, 3), (4, 4), (5, 5)],
     [(1, 1), (2, 2), (3, 3), (4, 4), (5, 5), (6, 6)],
     [(1, 1), (2, 2), (4, 4), (5, 5)]] := by
  rw [(cow_run_refines demoOps (by simp [demoOps, OpOk])).2]
  decide

end Mechanism

/-! ## registered cursors -/

/-- `_check_mutable_and_park`: every mutation that is not rejected parks every registered cursor (and only those),
and a rejected mutation (frozen tree) parks nothing. -/
theorem mutation_parks_registered {tc : TreeC} (e : Elt) (k : Nat) (x : Option Elt) :
    (tc.tree.immutable = false →
      (tc.insert e).1.cursors = tc.cursors.map (fun bc => if bc.1 then (bc.1, bc.2.park) else bc) ∧
      (tc.delete k x).1.cursors = tc.cursors.map (fun bc => if bc.1 then (bc.1, bc.2.park) else bc) ∧
      (tc.insert e).1.tree = (tc.tree.insert e).1 ∧ (tc.delete k x).1.tree = (tc.tree.delete k x).1) ∧
    (tc.tree.immutable = true → tc.insert e = (tc, .immutableErr) ∧ tc.delete k x = (tc, .immutableErr)) :=
  ⟨fun hm => ⟨(insert_parks e hm).1, (delete_parks k x hm).1, (insert_parks e hm).2.1, (delete_parks k x hm).2.1⟩,
   fun hm => frozen_keeps_cursors e k x hm⟩

/-- "cursors kept open across mutations", end to end at the tree-with-cursors level: a registered cursor whose last
`next()` returned an element with key `K` (so its anchor is `K`, returned, increasing — `cursor_next_refines`),
after *any* insertion or deletion on its tree, continues with the least element of the tree as it is now whose
key is greater than `K`. -/
theorem registered_cursor_resumes {tc : TreeC} (hw : TreeWf tc.tree) (hr : RootOk tc.tree.root)
    (hm : tc.tree.immutable = false) (hv : tc.tree.collapseAlways = true) (i : Nat) (c : Cursor) (K : Nat)
    (hc : tc.cursors[i]? = some (true, c)) (hk : c.pkey = some K) (hread : c.pread = true)
    (hinc : c.increasing = true) (e : Elt) (k : Nat) :
    ((tc.insert e).1.next i).2 = ((tc.insert e).1.tree.items.filter (fun x => decide (K < x.1))).head? ∧
    ((tc.delete k none).1.next i).2 = ((tc.delete k none).1.tree.items.filter (fun x => decide (K < x.1))).head? := by
  have key : ∀ (tc' : TreeC), TreeWf tc'.tree →
      tc'.cursors = tc.cursors.map (fun bc => if bc.1 then (bc.1, bc.2.park) else bc) →
      (tc'.next i).2 = (tc'.tree.items.filter (fun x => decide (K < x.1))).head? := by
    intro tc' hw' hcs
    have hpc : tc'.cursors[i]? = some (true, c.park) := by rw [hcs]; exact parked_getElem hc
    obtain ⟨D, R, h1, h2, h3, _⟩ := cursor_unpark_refines hw' c.park K rfl (by simpa [Cursor.park] using hk)
    have hb : unparkBefore c.park = false := by simp [unparkBefore, Cursor.park, hread, hinc]
    rw [hb] at h2
    have hsorted : (D ++ R).Pairwise (fun a b => a.1 < b.1) := by rw [h1]; exact hw'.wf.sorted
    have := splitAt_after hsorted h2
    simp only [TreeC.next, TreeC.withCursor, hpc]
    rw [h3, ← h1, ← this]
  have hi := insert_parks (tc := tc) e hm
  have hd := delete_parks (tc := tc) k none hm
  constructor
  · exact key _ (by rw [hi.2.1]; exact (insert_refines e hw hm).1) hi.1
  · exact key _ (by rw [hd.2.1]; exact (delete_refines k hw hr hm hv).1) hd.1

/-! ## the mapping and set API -/

/-- "the B-tree map … behave[s] as a sorted dictionary" at the API the user calls (`BTreeDict` with the
`MutableMapping` mixin), for a well-formed tree `tr` and reference listing `tr.items`. -/
theorem dict_reads_refine {tr : Tree} (hw : TreeWf tr) (k : Nat) :
    Dict.getitem tr k = (match lookup tr.items k with | some e => .ok e.2 | none => .error .keyError) ∧
    Dict.get tr k = (lookup tr.items k).map (·.2) ∧ Dict.contains tr k = (lookup tr.items k).isSome ∧
    Dict.len tr = tr.items.length ∧ Dict.keys tr = tr.items.map (·.1) ∧ Dict.items tr = tr.items ∧
    Dict.values tr = tr.items.map (·.2) :=
  ⟨dict_getitem hw k, dict_get hw k, dict_contains hw k, hw.size_ok, dict_keys hw, dict_items hw, dict_values hw⟩

/-- `d[k] = v`, `del d[k]` (`KeyError` exactly for an absent key) and `d.pop(k)` on a mutable well-formed
`BTreeDict` (with the repaired `_delete`). -/
theorem dict_writes_refine {tc : TreeC} (hw : TreeWf tc.tree) (hr : RootOk tc.tree.root)
    (hm : tc.tree.immutable = false) (hv : tc.tree.collapseAlways = true) (k v : Nat) :
    (TreeWf (Dict.setitem tc k v).1.tree ∧ (Dict.setitem tc k v).1.tree.items = insSorted (k, v) tc.tree.items ∧
      (Dict.setitem tc k v).2 = .ok ()) ∧
    (TreeWf (Dict.delitem tc k).1.tree ∧ (Dict.delitem tc k).1.tree.items = delKey k tc.tree.items ∧
      (Dict.delitem tc k).2 = (if (lookup tc.tree.items k).isSome then .ok () else .error .keyError)) ∧
    ((Dict.pop tc k).2 = (match lookup tc.tree.items k with | some e => .ok e.2 | none => .error .keyError) ∧
      (Dict.pop tc k).1.tree.items = delKey k tc.tree.items) :=
  ⟨dict_setitem k v hw hm,
   let h := dict_delitem k hw hr hm hv; ⟨h.1, h.2.2.1, h.2.2.2⟩,
   dict_pop k hw hr hm hv⟩

/-- "… and set": `x in s`, `len`, iteration, `add`, `discard`, `remove` (`KeyError` exactly for an absent
member) of `BTreeSet`. -/
theorem set_refines {tc : TreeC} (hw : TreeWf tc.tree) (hr : RootOk tc.tree.root)
    (hm : tc.tree.immutable = false) (hv : tc.tree.collapseAlways = true) (k : Nat) :
    SetApi.contains tc.tree k = (lookup tc.tree.items k).isSome ∧ SetApi.len tc.tree = tc.tree.items.length ∧
    SetApi.members tc.tree = tc.tree.items.map (·.1) ∧
    ((SetApi.add tc k).1.tree.items = insSorted (k, 0) tc.tree.items ∧ (SetApi.add tc k).2 = .ok ()) ∧
    ((SetApi.discard tc k).1.tree.items = delKey k tc.tree.items ∧ (SetApi.discard tc k).2 = .ok ()) ∧
    ((lookup tc.tree.items k).isSome = true → (SetApi.remove tc k).2 = .ok () ∧
        (SetApi.remove tc k).1.tree.items = delKey k tc.tree.items) ∧
    ((lookup tc.tree.items k).isSome = false → SetApi.remove tc k = (tc, .error .keyError)) :=
  ⟨set_contains hw k, hw.size_ok, set_members hw,
   let h := set_add k hw hm; ⟨h.2.1, h.2.2⟩,
   let h := set_discard k hw hr hm hv; ⟨h.2.2.1, h.2.2.2⟩,
   (set_remove k hw hr hm hv).1, (set_remove k hw hr hm hv).2⟩

end C19

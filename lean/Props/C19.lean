import Model.BTree
import Generated.C19
/-!
# C19 — the copy-on-write B-tree is a correct sorted map with isolated clones
(theorems of record; being filled in)
-/
namespace C19
open Model.BTree

/-- The occupancy bounds `_MIN(t)`, `_MAX(t)` of the working tree, evaluated at t = 3..8, are the model's
`minKeys`/`maxKeys`, and the constructor's lower bound on `t` is 3. -/
theorem consts_agree :
    (∀ r ∈ ConstsC19.minMax, r.2.1 = minKeys r.1 ∧ r.2.2 = maxKeys r.1) ∧ ConstsC19.minT = 3 := by
  decide

end C19

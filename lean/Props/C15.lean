import Model.Dnssec
import Generated.C15
import Proofs.DnssecBasic
import Proofs.DnssecRrsig
import Proofs.DnssecBitmap
import Proofs.DnssecChain
import Proofs.DnssecCanon
import Proofs.DnssecOrder
import Proofs.DnssecNsec3
import Proofs.DnssecSignSet
/-!
# C15 — key-free DNSSEC computations equal an independent RFC 4034/5155/6840/8976 reference

Theorems of record.  `Model.Dnssec` follows `dns/dnssec.py`, `dns/rdata.py` (`to_digestable`), `dns/rdtypes/util.py`
(`Bitmap`), `dns/rdtypes/dnskeybase.py` (`key_id`) and `dns/zone.py` (`_compute_digest`).  `ConstsC15.canonTable`
is regenerated from the working tree on every run (one row per embedded-name field of every implemented
(class, type)), so the `decide` proofs below are obligations about the code as it is now.  RFC-side
definitions (`rfc4034_6_2`, `Rfc.sigData`, `IH`, `rfcKeyTagAcc`, `octetLe`, `bitmapHas`, `secure`, `chain`) are
written from the RFC text, independently of the model functions they are compared with.
-/
namespace C15
open Model Model.Dnssec

/-! ## which names are lower-cased; no compression -/

/-- RFC 4034 §6.2 item 3, transcribed from the RFC text (type codes from the IANA registry):
NS, MD, MF, CNAME, SOA, MB, MG, MR, PTR, HINFO, MINFO, MX, HINFO, RP, AFSDB, RT, SIG, PX, NXT, NAPTR, KX, SRV,
DNAME, A6, RRSIG, NSEC. -/
def rfc4034_6_2 : List Nat :=
  [2, 3, 4, 5, 6, 7, 8, 9, 12, 13, 14, 15, 13, 17, 18, 21, 24, 26, 30, 35, 36, 33, 39, 38, 46, 47]

/-- RFC 6840 §5.1: names in the RDATA of NSEC are *not* lower-cased. -/
def rfc6840_5_1_removed : List Nat := [47]

def mustLower (ty : Nat) : Bool := rfc4034_6_2.contains ty && !rfc6840_5_1_removed.contains ty

/-- (class, type) pairs that deviate (recorded in KNOWN_FINDINGS.json, reported by the oracle while it exists):
Chaosnet A only.  LP was repaired in dnspython commit 2936f22 and is no longer excluded. -/
def knownDeviations : List (Nat × Nat) := [(3, 1)]

/-- "for all record sets of all types": every implemented (class, type) pair was probed; a type added to
dnspython without a specimen in `harness/extract_C15.py` makes this fail. -/
theorem canon_table_complete : ConstsC15.unprobed = [] := by decide

/- Full statement (fails today for Chaosnet A only, DESIGN D17; LP, DESIGN D12, is repaired):
   `∀ e ∈ ConstsC15.canonTable, e.2.2.2.1 = mustLower e.2.1`. -/
/-- "only names inside the RDATA of the types listed in RFC 4034 §6.2 (minus NSEC, per RFC 6840) are
lower-cased": for every embedded-name field of every implemented type, `to_digestable` lower-cases it iff the
type is in the list — decided over the whole regenerated table, except the recorded deviations. -/
theorem canon_table_is_rfc_partial :
    ∀ e ∈ ConstsC15.canonTable, (e.1, e.2.1) ∉ knownDeviations → e.2.2.2.1 = mustLower e.2.1 := by decide

/-- the same through the model's lookup (class-specific entry first, then the class-independent one) -/
theorem lowered_is_rfc_partial :
    ∀ e ∈ ConstsC15.canonTable, (e.1, e.2.1) ∉ knownDeviations →
      lowered ConstsC15.canonTable e.1 e.2.1 e.2.2.1 = mustLower e.2.1 := by decide

/-- "canonical forms never use compression", observed side: in the canonical form of every specimen every
embedded name occurs uncompressed (verbatim or lower-cased), never altered or shortened. -/
theorem canon_table_never_alters : ∀ e ∈ ConstsC15.canonTable, e.2.2.2.2.2 = false := by decide

/-- "canonical forms never use compression", model side: what is emitted for an embedded name (with or without
an origin, canonicalised or not) is the plain label sequence of a legal absolute name; a decoder that rejects
every length octet ≥ 64 — hence every compression pointer — reads it back exactly. -/
theorem canonical_form_no_compression (n : Name) (origin : Option Name) (canon : Bool) (w : Bytes)
    (hn : WfName n) (h : nameWireFile n origin canon = .ok w) :
    ∃ m : Name, w = toWire m ∧ isAbs m = true ∧ ∀ rest, decodeNoPtr m.length (w ++ rest) = some (m, rest) :=
  nameWireFile_no_pointer n origin canon w (by decide) hn h

/-- the canonical form of an rdata whose names are absolute is the RFC 4034 §6.2 string: opaque octets verbatim,
names expanded, the `k`-th lower-cased iff the table says so -/
theorem canonical_form_is_flat (cls ty : Nat) (rd : Rdata) (origin : Option Name) (h : allAbs rd) :
    toDigestable ConstsC15.canonTable cls ty rd origin =
      .ok (canonFlat (lowered ConstsC15.canonTable cls ty) rd 0) :=
  fieldsWire_abs _ origin rd 0 h

/-- non-vacuity of `canonical_form_no_compression`: a relative mixed-case name completed by an origin -/
example : WfName [[77, 120]] ∧ nameWireFile [[77, 120]] (some [[69, 88], []]) true = .ok [2, 109, 120, 2, 101, 120, 0]
    ∧ decodeNoPtr 3 ([2, 109, 120, 2, 101, 120, 0] ++ [192, 12]) = some ([[109, 120], [101, 120], []], [192, 12]) := by
  refine ⟨⟨?_, ?_, ?_⟩, ?_, ?_⟩ <;> decide

example : allAbs [Field.raw [0, 10], Field.name [[77, 120], [69, 88], []]] := by
  intro n hn; simp at hn; subst hn; decide

/-- MX lower-cases; NSEC, SVCB and (since commit 2936f22) LP do not -/
example : toDigestable ConstsC15.canonTable 1 15 [Field.raw [0, 10], Field.name [[77, 88], []]] none = .ok [0, 10, 2, 109, 120, 0]
    ∧ toDigestable ConstsC15.canonTable 1 47 [Field.name [[77, 88], []], Field.raw [0, 1, 64]] none = .ok [2, 77, 88, 0, 0, 1, 64]
    ∧ toDigestable ConstsC15.canonTable 1 64 [Field.raw [0, 1], Field.name [[77, 88], []]] none = .ok [0, 1, 2, 77, 88, 0]
    ∧ toDigestable ConstsC15.canonTable 1 107 [Field.raw [0, 1], Field.name [[77, 88], []]] none = .ok [0, 1, 2, 77, 88, 0] := by
  decide

/-! ## key tag -/

/-- RFC 4034 Appendix B: `ac += (ac >> 16) & 0xFFFF; return ac & 0xFFFF` over the accumulated sum -/
def rfcKeyTag (rdata : Bytes) : Nat :=
  let ac := rfcKeyTagAcc 0 rdata
  (ac + ac / 65536 % 65536) % 65536

/-- "key tags … equal an independent RFC reference": for every octet string (of any length, even or odd),
`key_id` is Appendix B's algorithm; for algorithm 1 (RSA/MD5, Appendix B.1) it is the most significant 16 of the
least significant 24 bits of the RDATA. -/
theorem key_tag_is_appendix_b (wire : Bytes) :
    keyId ConstsC15.algRSAMD5 wire =
      if wire.getD 3 0 = 1 then wire.getD (wire.length - 3) 0 * 256 + wire.getD (wire.length - 2) 0
      else rfcKeyTag wire := by
  have halg : ConstsC15.algRSAMD5 = 1 := by decide
  unfold keyId rfcKeyTag
  rw [halg, keyIdSum_eq_acc wire 0 (by decide)]

example : keyId ConstsC15.algRSAMD5 [1, 1, 3, 8, 3, 1, 0, 1] = 1803 := by decide

/-! ## canonical RRset order -/

/-- "the canonical order of a record set": `sorted(rdatas)` is a permutation of the canonical RDATAs ordered as
left-justified unsigned octet strings, a missing octet sorting first (RFC 4034 §6.3). -/
theorem rrset_order_is_octet_order (ds : List Bytes) :
    (insSort bytesLe ds).Perm ds ∧ (insSort bytesLe ds).Pairwise octetLe := by
  refine ⟨insSort_perm _ _, ?_⟩
  have := insSort_pairwise bytesLe bytesLe_total bytesLe_trans ds
  exact this.imp (fun {a b} h => (bytesLe_iff a b).mp h)

example : insSort bytesLe [[1, 2], [1], [0, 255], []] = [[], [0, 255], [1], [1, 2]] := by decide

/-! ## RRSIG signing input -/

/-- "the RRSIG signing input including wildcard label reduction … equals an independent RFC reference": signer
and owner are completed by the origin when relative (`hs`, `hr`); for a label count not above the owner's and (for
a wildcard owner) equal to it, the data handed to the signature algorithm is RFC 4034 §3.1.8.1's
`RRSIG_RDATA | RR(1) | RR(2) …` with the owner of RFC 4035 §5.3.2, TTL = Original TTL, RRs in canonical order.
(Full form since commit b931905: relative signers included.  `hw`: `rrsig.to_wire(origin=signer)` must succeed.) -/
theorem rrsig_input_is_rfc (t : CanonTable) (sig : RRSig) (origin : Option Name) (rrname : Name)
    (rdtype rdclass : Nat) (rdatas : List Rdata) (ds : List Bytes) (signer owner : Name) (w : Bytes)
    (hs : derelativizeD sig.signer origin = .ok signer) (hsa : isAbs signer = true)
    (hw : nameWireFile sig.signer (some signer) false = .ok w)
    (hr : derelativizeD rrname origin = .ok owner) (hoa : isAbs owner = true)
    (hl : sig.labels ≤ Rfc.labelCount owner)
    (hwild : owner.head? = some wildLabel → sig.labels = Rfc.labelCount owner)
    (hd : mapExcept (fun rd => toDigestable t rdclass rdtype rd origin) rdatas = .ok ds) :
    rrsigData t sig origin rrname rdtype rdclass rdatas =
      .ok (Rfc.sigData sig signer owner rdtype rdclass (insSort bytesLe ds)) :=
  rrsigData_eq_rfc_rel t sig origin rrname rdtype rdclass rdatas ds signer owner w hs hsa hw hr hoa hl hwild hd

/-- the special case of absolute names (no origin needed) -/
theorem rrsig_input_is_rfc_absolute (t : CanonTable) (sig : RRSig) (origin : Option Name) (rrname : Name)
    (rdtype rdclass : Nat) (rdatas : List Rdata) (ds : List Bytes)
    (hs : isAbs sig.signer = true) (hr : isAbs rrname = true)
    (hl : sig.labels ≤ Rfc.labelCount rrname)
    (hw : rrname.head? = some wildLabel → sig.labels = Rfc.labelCount rrname)
    (hd : mapExcept (fun rd => toDigestable t rdclass rdtype rd origin) rdatas = .ok ds) :
    rrsigData t sig origin rrname rdtype rdclass rdatas =
      .ok (Rfc.sigData sig sig.signer rrname rdtype rdclass (insSort bytesLe ds)) :=
  rrsigData_eq_rfc t sig origin rrname rdtype rdclass rdatas ds hs hr hl hw hd

/-- wildcard label reduction: when the Labels field is smaller than the owner's label count the owner that is
digested is `*` followed by the rightmost `labels` labels (and the root). -/
theorem wildcard_reduction (rrname : Name) (labels : Nat) (h : labels ≠ Rfc.labelCount rrname) :
    Rfc.sigOwner rrname labels = [42] :: (rrname.dropLast.drop (rrname.dropLast.length - labels) ++ [[]]) := by
  simp [Rfc.sigOwner, h]

/-- error cases: a Labels field above the owner's label count (RFC 4035 §5.3.1), or a wildcard owner whose
Labels field is not its label count, raises ValidationFailure. -/
theorem rrsig_bad_labels_rejected (t : CanonTable) (sig : RRSig) (origin : Option Name)
    (rrname : Name) (rdtype rdclass : Nat) (rdatas : List Rdata)
    (hs : isAbs sig.signer = true) (hr : isAbs rrname = true)
    (hbad : sig.labels > Rfc.labelCount rrname ∨
            (rrname.head? = some wildLabel ∧ sig.labels ≠ Rfc.labelCount rrname)) :
    rrsigData t sig origin rrname rdtype rdclass rdatas = .error .validation :=
  rrsigData_rejects t sig origin rrname rdtype rdclass rdatas hs hr hbad

/-- non-vacuity: `b.a.Example.` with Labels = 2 is digested as `*.a.example.`; A records in octet order -/
example :
    rrsigData ConstsC15.canonTable
      { typeCovered := 1, algorithm := 8, labels := 2, originalTtl := 300, expiration := 2, inception := 1, keyTag := 7,
        signer := [[69, 120], []] } none [[98], [97], [69, 120], []] 1 1
      [[Field.raw [10, 0, 0, 2]], [Field.raw [10, 0, 0, 1]]] =
    .ok (Rfc.sigData
      { typeCovered := 1, algorithm := 8, labels := 2, originalTtl := 300, expiration := 2, inception := 1, keyTag := 7,
        signer := [[69, 120], []] } [[69, 120], []] [[98], [97], [69, 120], []] 1 1 [[10, 0, 0, 1], [10, 0, 0, 2]])
    ∧ Rfc.sigOwner [[98], [97], [69, 120], []] 2 = [[42], [97], [69, 120], []] := by decide

/-- non-vacuity of the relative case (the input of the defect repaired in b931905): signer `s` and owner `w`
under origin `e.`: the hypotheses hold and the signer field is `s.e.`, once -/
example :
    let sig : RRSig := { typeCovered := 1, algorithm := 8, labels := 2, originalTtl := 0, expiration := 0, inception := 0,
                         keyTag := 0, signer := [[115]] }
    derelativizeD sig.signer (some [[101], []]) = .ok [[115], [101], []]
    ∧ nameWireFile sig.signer (some [[115], [101], []]) false = .ok [1, 115, 1, 115, 1, 101, 0]
    ∧ derelativizeD [[119]] (some [[101], []]) = .ok [[119], [101], []]
    ∧ (rrsigData [] sig (some [[101], []]) [[119]] 1 1 []).toOption.map (·.drop 18) = some [1, 115, 1, 101, 0] := by
  decide

/-! ## DS / CDS -/

/-- "DS/CDS digests": for an absolute owner and a supported, permitted digest type the DS RDATA is key tag,
algorithm, digest type, then the digest of `canonical owner name | DNSKEY RDATA` (RFC 4034 §5.1.4) — for any
hash function `H`. -/
theorem ds_input_is_rfc (H : Bytes → Bytes) (deny : List Nat) (name : Name) (key : Bytes) (dt : Nat)
    (ha : isAbs name = true) (hdt : dt = 1 ∨ dt = 2 ∨ dt = 4) (hp : dt ∉ deny) :
    makeDs H ConstsC15.algRSAMD5 deny name key dt =
      .ok (be16 (keyId ConstsC15.algRSAMD5 key) ++ [key.getD 3 0, dt] ++ H (toWire (lowerName name) ++ key)) := by
  have ha' : isAbs (lowerName name) = true := by rw [isAbs_lowerName]; exact ha
  have hne : ¬ (dt ≠ 1 ∧ dt ≠ 2 ∧ dt ≠ 4) := by omega
  simp [makeDs, makeDsParts, dsInput, nameWireNoFile, hp, hne, ha']

example : makeDsParts ConstsC15.algRSAMD5 [0, 1, 3] [[69, 88], []] [1, 1, 3, 8, 3] 2 = .ok ([7, 9, 8, 2], [2, 101, 120, 0, 1, 1, 3, 8, 3])
    ∧ makeDsParts ConstsC15.algRSAMD5 [0, 1, 3] [[69, 88], []] [1, 1, 3, 8, 3] 1 = .error .denied
    ∧ makeDsParts ConstsC15.algRSAMD5 [] [[69, 88], []] [1, 1, 3, 8, 3] 3 = .error .unsupported := by decide

/-! ## NSEC3 -/

/-- "NSEC3 hashes": for an absolute name, `nsec3_hash` is base32hex (RFC 4648 §7) of RFC 5155 §5's
`IH(salt, canonical owner name, iterations)`, for any hash `H`, any salt, any iteration count: the loop is the
recurrence, and `b32encode` followed by the translation table is base32hex. -/
theorem nsec3_is_rfc (H : Bytes → Bytes) (name : Name) (salt : Bytes) (iterations : Nat) (ha : isAbs name = true) :
    nsec3Hash H name salt iterations 1 =
      .ok (b32encode b32Hex (IH H salt (toWire (lowerName name)) iterations)) := by
  have ha' : isAbs (lowerName name) = true := by rw [isAbs_lowerName]; exact ha
  have h := nsec3Iter_IH H salt (toWire (lowerName name)) iterations 0
  simp only [IH, Nat.zero_add] at h
  simp [nsec3Hash, nameWireNoFile, ha', h, b32encode_translate]

/-- "`nsec3_hash` input normalisation", salt: `None`, a hexadecimal string (either case) and the octets themselves
denote the same salt; a string of odd length or with a non-hex character (such as the presentation form `-`) is
refused with ValueError. -/
theorem nsec3_salt_forms (upper : Bool) (b : Bytes) (hb : ∀ x ∈ b, x < 256) :
    saltEncode (.text (hexText upper b)) = .ok b ∧ saltEncode (.bytes b) = .ok b ∧ saltEncode .none = .ok [] :=
  saltEncode_forms upper b hb

example : hexText true [171, 205, 1] = "ABCD01".toList.map Char.toNat ∧ hexText false [171, 205, 1] = "abcd01".toList.map Char.toNat
    ∧ saltEncode (.text [45]) = .error .value ∧ saltEncode (.text [97, 98, 32]) = .error .value
    ∧ saltEncode (.text [97, 98, 32, 32]) = .ok [171] := by decide

/-- "`nsec3_hash` input normalisation", whole call: with the algorithm given as 1 or as the text `SHA1` in any
case, the domain given as a name or as text that `from_text` parses to `n`, and the salt in any accepted form
denoting `s`, the result is base32hex of RFC 5155 §5's `IH(s, canonical wire form of n, iterations)`. -/
theorem nsec3_args_is_rfc (H : Bytes → Bytes) (domain : DomainArg) (salt : SaltArg) (iterations : Nat) (alg : AlgArg)
    (n : Name) (s : Bytes) (halg : algDecode alg = .ok 1) (hsalt : saltEncode salt = .ok s)
    (hdom : domainDecode domain = .ok n) (ha : isAbs n = true) :
    nsec3HashArgs H domain salt iterations alg =
      .ok (b32encode b32Hex (IH H s (toWire (lowerName n)) iterations)) := by
  unfold nsec3HashArgs
  simp only [halg, hsalt, hdom, ne_eq, not_true_eq_false, if_false]
  exact nsec3_is_rfc H n s iterations ha

example : algDecode (.text [115, 72, 97, 49]) = .ok 1 ∧ algDecode (.num 1) = .ok 1 ∧ algDecode (.text [83, 72, 65, 50]) = .error .value
    ∧ domainDecode (.text [65, 46, 98]) = .ok [[65], [98], []] ∧ domainDecode (.text [64]) = .ok [[]] := by decide

/-- any other algorithm number is refused before anything else is looked at -/
theorem nsec3_other_algorithm_rejected (H : Bytes → Bytes) (domain : DomainArg) (salt : SaltArg) (iterations a : Nat)
    (h : a ≠ 1) : nsec3HashArgs H domain salt iterations (.num a) = .error .value := by
  simp [nsec3HashArgs, algDecode, h]

/-- "NSEC3 owner name construction" (RFC 5155 §3): `from_text(nsec3_hash(…), zone)` is the base32hex hash as a
single label prepended to the zone name, valid whenever that name fits the length limits — the hash text never
needs escaping and is never mistaken for `@`.  (`hne`: the hash function returns at least one octet.) -/
theorem nsec3_owner_is_rfc (H : Bytes → Bytes) (domain : DomainArg) (salt : SaltArg) (iterations : Nat) (alg : AlgArg)
    (n : Name) (s : Bytes) (zone : Name) (halg : algDecode alg = .ok 1) (hsalt : saltEncode salt = .ok s)
    (hdom : domainDecode domain = .ok n) (ha : isAbs n = true)
    (hne : IH H s (toWire (lowerName n)) iterations ≠ []) :
    nsec3Owner H domain salt iterations alg zone =
      liftName (validate (b32encode b32Hex (IH H s (toWire (lowerName n)) iterations) :: zone)) := by
  unfold nsec3Owner
  rw [nsec3_args_is_rfc H domain salt iterations alg n s halg hsalt hdom ha]
  simp only
  have hlen := b32encode_length_ge _ hne
  rw [fromText_plain _ zone (b32encode_ok _)]
  · intro h; rw [h] at hlen; simp at hlen
  · intro h; rw [h] at hlen; simp at hlen

example : nsec3Owner (fun x => x.take 5) (.text [65, 46]) (.text [97, 98]) 2 (.text [115, 104, 97, 49]) [[101, 120], []] =
    .ok [[48, 53, 71, 71, 49, 65, 84, 66], [101, 120], []] := by decide

/-- base32hex alphabet `0-9A-V` -/
example : (List.range 32).map b32Hex = "0123456789ABCDEFGHIJKLMNOPQRSTUV".toList.map Char.toNat := by decide

/-! ## type bitmaps -/

/-- "exact type bitmaps": decoding the windows produced by `Bitmap.from_rdtypes` (bit 0 = most significant,
RFC 4034 §4.1.2) gives exactly the input type set — duplicates and order of the input are irrelevant —; window
numbers strictly ascend; every bitmap has 1..32 octets and no trailing zero octet (minimal length). -/
theorem bitmap_exact (ts : List Nat) (h : ∀ t ∈ ts, 0 < t ∧ t < 65536) :
    (∀ t, bitmapHas (fromRdtypes ts) t ↔ t ∈ ts) ∧
    (fromRdtypes ts).Pairwise (fun a b => a.1 < b.1) ∧
    (∀ w ∈ fromRdtypes ts, w.1 < 256 ∧ w.2 ≠ [] ∧ w.2.length ≤ 32 ∧ w.2.getLast? ≠ some 0) :=
  fromRdtypes_exact ts h

example : ∀ t ∈ [47, 1, 46, 1234, 15, 1], 0 < t ∧ t < 65536 := by decide

example : fromRdtypes [47, 1, 46, 1234, 15, 1] = [(0, [64, 1, 0, 0, 0, 3]), (4, List.replicate 26 0 ++ [32])] := by decide

/-! ## NSEC chain -/

/-- the secure names are a sub-sequence of the sorted names: each at most once, in canonical order -/
theorem secure_sublist (c : NsecConsts) (origin : Name) (L : List ZNode) :
    (secure c origin L).Sublist L ∧ ∀ z, z ∈ secure c origin L ↔ z ∈ L ∧ occluded c origin L z = false := by
  refine ⟨List.filter_sublist, fun z => ?_⟩
  simp [secure, List.mem_filter]

/-- RFC 4035 §2.3 on what a node announces: all its types, except at a delegation point, where only NS and DS -/
def rfcNsecTypes (c : NsecConsts) (origin : Name) (z : ZNode) : List Nat :=
  if isCut c origin z then z.types.filter fun t => t == c.tNS || t == c.tDS else z.types

/-- "the NSEC chain visits every authoritative name exactly once in canonical order with exact type bitmaps,
skipping names beneath delegations" — unconditional in the order (C06 supplies: `sorted` output is strictly
increasing for distinct names, no name sorts before a name it is beneath, `is_subdomain` is transitive, the names
beneath a name follow it contiguously).  For any zone content whose node names are pairwise distinct (they are
dictionary keys) and whose nodes are non-empty: the NSEC records `_sign_zone_nsec` adds are exactly the chain over
`secure` (the names of the zone, in canonical order, that are not beneath a delegation): one record per such name,
each pointing at the next, the last one at the origin, bitmap = announced types ∪ {RRSIG, NSEC}
(`bitmap_exact`: encoded exactly).  (Full form since commit 67da86e: the apex-only zone included.) -/
theorem nsec_chain (c : NsecConsts) (origin : Name) (nodes : List ZNode) (ws : Bool)
    (hd : DistinctNames nodes) (ht : ∀ z ∈ nodes, z.types ≠ []) (ho : origin ≠ []) :
    nsecsOf (signZoneNsec c origin nodes ws) = chain c origin (secure c origin (sortNodes nodes)) origin :=
  signZone_chain c origin nodes ws hd ht ho

/-- The whole observable behaviour of `_sign_zone_nsec`, not only its NSEC records: the sequence of calls to the
signer and of NSEC additions is exactly `eventsSpec` over the secure names — for each secure name, in canonical
order, its RRsets are handed to the signer (`signSpec`), then the NSEC of the previous secure name is added and
signed; finally the last name's NSEC points back to the origin.  Same hypotheses as `nsec_chain`. -/
theorem sign_zone_events_exact (c : NsecConsts) (origin : Name) (nodes : List ZNode) (ws : Bool)
    (hd : DistinctNames nodes) (ht : ∀ z ∈ nodes, z.types ≠ []) (ho : origin ≠ []) :
    signZoneNsec c origin nodes ws = eventsSpec c origin ws none (secure c origin (sortNodes nodes)) :=
  signZone_events c origin nodes ws hd ht ho

/-- "skipping names beneath delegations", for signatures (RFC 4035 §2.2): an RRset (owner, type) is handed to the
signer iff its owner is a secure name of the zone and the type is NSEC, or a type the node has other than RRSIG —
at a delegation point only DS (not the NS RRset, not glue at the cut).  In particular nothing beneath a
delegation is ever signed. -/
theorem signed_rrsets_is_rfc4035 (c : NsecConsts) (origin : Name) (nodes : List ZNode)
    (hd : DistinctNames nodes) (ht : ∀ z ∈ nodes, z.types ≠ []) (ho : origin ≠ []) (n : Name) (ty : Nat) :
    Evt.sign n ty ∈ signZoneNsec c origin nodes true ↔
      ∃ z ∈ secure c origin (sortNodes nodes), n = z.name ∧
        (ty = c.tNSEC ∨ (ty ∈ z.types ∧ ty ≠ c.tRRSIG ∧ (isCut c origin z = true → ty = c.tDS))) := by
  rw [signZone_events c origin nodes true hd ht ho, mem_eventsSpec]
  simp

/-- what `secure` ranges over: a permutation of the nodes, strictly increasing in the RFC 4034 §6.1 order -/
theorem sorted_nodes_canonical (nodes : List ZNode) (hd : DistinctNames nodes) :
    (sortNodes nodes).Perm nodes ∧
    (sortNodes nodes).Pairwise (fun a b => NameOrder.canonLt a.name b.name) := by
  refine ⟨insSort_perm _ _, (sortNodes_sorted nodes hd).imp ?_⟩
  intro a b h
  exact (NameOrder.cmpOrder_lt_iff a.name b.name).1 h

/-- "exact type bitmaps", which types: the types a node announces are RFC 4035 §2.3's — all of its types, except
at a delegation point, where only NS and DS (the parent is not authoritative for anything else found there, such
as glue whose owner is the cut itself).  Full form since dnspython commit 61a6394. -/
theorem nsec_types_is_rfc (c : NsecConsts) (origin : Name) (z : ZNode) :
    nsecTypes c origin z = rfcNsecTypes c origin z := rfl

def exConsts : NsecConsts := { tNS := 2, tDS := 43, tRRSIG := 46, tNSEC := 47 }

/-- non-vacuity: zone `ex.` with apex, `a` (A), cut `sub` (NS, DS, glue A at the cut), glue `ns.sub`, and `zz`:
the facts C06 supplies are visible on it, `ns.sub` is skipped, the chain is apex → a → sub → zz → apex -/
def exZone : List ZNode :=
  [⟨[[101, 120], []], [6, 2]⟩, ⟨[[97], [101, 120], []], [1]⟩, ⟨[[115, 117, 98], [101, 120], []], [2, 43, 1]⟩,
   ⟨[[110, 115], [115, 117, 98], [101, 120], []], [1]⟩, ⟨[[122, 122], [101, 120], []], [1]⟩]

example : exZone.Pairwise (fun a b => cmpOrder a.name b.name < 0) ∧ (∀ z ∈ exZone, z.types ≠ []) ∧
    exZone.Pairwise (fun a b => subOf a b = false) ∧
    (∀ x ∈ exZone, ∀ y ∈ exZone, ∀ z ∈ exZone, subOf x y = true → subOf y z = true → subOf x z = true) ∧
    contig exZone = true ∧
    (secure exConsts [[101, 120], []] exZone).map (·.name) =
      [[[101, 120], []], [[97], [101, 120], []], [[115, 117, 98], [101, 120], []], [[122, 122], [101, 120], []]] := by
  decide

/-- the hypotheses of `nsec_chain` on the same zone given in another order -/
example : DistinctNames exZone.reverse ∧ (∀ z ∈ exZone.reverse, z.types ≠ []) ∧ sortNodes exZone.reverse = exZone := by
  refine ⟨?_, by decide, by decide⟩
  unfold DistinctNames; decide

/-- and the chain itself, with the RFC 4035 §2.3 bitmap at the delegation point (the case repaired in 61a6394):
`sub` (NS, DS and glue A at the cut) announces only NS and DS, the ordinary name `a` all it has -/
example :
    (nsecsOf (signZoneNsec exConsts [[101, 120], []] exZone true)).map (fun r => (r.1, r.2.1)) =
      [([[101, 120], []], [[97], [101, 120], []]), ([[97], [101, 120], []], [[115, 117, 98], [101, 120], []]),
       ([[115, 117, 98], [101, 120], []], [[122, 122], [101, 120], []]), ([[122, 122], [101, 120], []], [[101, 120], []])]
    ∧ nsecTypes exConsts [[101, 120], []] ⟨[[115, 117, 98], [101, 120], []], [2, 43, 1]⟩ = [2, 43]
    ∧ rfcNsecTypes exConsts [[101, 120], []] ⟨[[97], [101, 120], []], [1, 16]⟩ = [1, 16]
    ∧ isCut exConsts [[101, 120], []] ⟨[[115, 117, 98], [101, 120], []], [2, 43, 1]⟩ = true := by
  decide

/-- non-vacuity on the example zone: apex SOA and NS, `a` A, at the cut `sub` only DS (neither its NS nor its
glue A), nothing at `ns.sub`, `zz` A; an NSEC for each of the four secure names -/
example : (signZoneNsec exConsts [[101, 120], []] exZone true).filterMap (fun e => match e with
      | .sign n ty => some (n.length, ty) | .nsec _ _ _ => none) =
    [(2, 6), (2, 2), (3, 1), (2, 47), (3, 43), (3, 47), (3, 1), (3, 47), (3, 47)] := by decide

/-- The case repaired in commit 67da86e (DESIGN D13): a relativized zone whose only name is the apex `@` gets
one NSEC `@ → origin`. -/
example : nsecsOf (signZoneNsec exConsts [[101, 120], []] [⟨[], [6, 2]⟩] true) =
        [([], [[101, 120], []], fromRdtypes [6, 2, 46, 47])] := by decide

/-! ## ZONEMD -/

/-- "ZONEMD digests", exclusions (RFC 8976 §3.3.1 items 4 and 6): at a node the rdatasets that are hashed
are, in ascending (type, covered type) order, all those of the node except — at the apex only — ZONEMD itself
and the RRSIG covering ZONEMD. -/
theorem zonemd_rdatasets_hashed (tZONEMD : Nat) (originName name : Name) (rs : List ZRdataset) :
    let hashed := (insSort rdsLe rs).filter fun r => !zonemdExcluded tZONEMD originName name r
    (∀ r, r ∈ hashed ↔ r ∈ rs ∧
        ¬ (nameEq name originName = true ∧ (r.rdtype = tZONEMD ∨ r.covers = tZONEMD))) := by
  refine fun r => ?_
  simp only [List.mem_filter, (insSort_perm rdsLe rs).mem_iff, zonemdExcluded]
  cases nameEq name originName <;> simp

/-- "ZONEMD digests", order within an owner (RFC 8976 §3.3.1: RRsets ascending by type; RRSIGs — all of type 46
— by their RDATA, which starts with the type covered): the rdatasets of a node enter the hash sorted by
(type, covered type), whatever their order in the node. -/
theorem zonemd_rdatasets_sorted_by_type_then_covers (tZONEMD : Nat) (originName name : Name) (rs : List ZRdataset) :
    ((insSort rdsLe rs).filter fun r => !zonemdExcluded tZONEMD originName name r).Pairwise
      (fun a b => a.rdtype < b.rdtype ∨ (a.rdtype = b.rdtype ∧ a.covers ≤ b.covers)) := by
  have h := (insSort_pairwise rdsLe rdsLe_total rdsLe_trans rs).sublist
    (List.filter_sublist (p := fun r => !zonemdExcluded tZONEMD originName name r))
  exact h.imp (fun {a b} hab => by simpa [rdsLe] using hab)

/-- and that sorted, filtered list is what `zonemdNode` hashes, rdataset by rdataset, after the owner name -/
theorem zonemd_node_unfolds (tZONEMD : Nat) (t : CanonTable) (origin : Option Name) (originName : Name) (node : ZMNode)
    (buf : Bytes) (h : nameDigestable node.name origin = .ok buf) :
    zonemdNode tZONEMD t origin originName node =
      concatExcept (((insSort rdsLe node.rdatasets).filter fun r => !zonemdExcluded tZONEMD originName node.name r).map
        (zonemdRdataset t origin buf)) := by
  simp [zonemdNode, h]

/-- owners enter the hash in canonical order (RFC 8976 §3.3.1 via RFC 4034 §6.1), each exactly once -/
theorem zonemd_nodes_sorted (nodes : List ZMNode) :
    (insSort (fun a b => nameLe a.name b.name) nodes).Perm nodes ∧
    (insSort (fun (a b : ZMNode) => nameLe a.name b.name) nodes).Pairwise (fun a b => cmpOrder a.name b.name ≤ 0) := by
  refine ⟨insSort_perm _ _, ?_⟩
  have := insSort_pairwise (fun (a b : ZMNode) => nameLe a.name b.name)
    (fun a b => nameLe_total a.name b.name) (fun a b c => nameLe_trans a.name b.name c.name) nodes
  exact this.imp (fun {a b} h => by simpa [nameLe] using h)

example : (insSort rdsLe [⟨46, 15, 1, 0, []⟩, ⟨15, 0, 1, 0, []⟩, ⟨46, 1, 1, 0, []⟩, ⟨1, 0, 1, 0, []⟩]).map (fun r => (r.rdtype, r.covers)) =
    [(1, 0), (15, 0), (46, 1), (46, 15)] := by decide

/-- each hashed RR is `owner | type | class | TTL | RDLENGTH | RDATA` with the rdataset's TTL, RDATAs of one
rdataset in canonical order (RFC 8976 §3.3.1, RFC 4034 §6) -/
theorem zonemd_rdataset_format (t : CanonTable) (origin : Option Name) (owner : Name) (rds : ZRdataset) (ds : List Bytes)
    (hd : mapExcept (fun rd => toDigestable t rds.rdclass rds.rdtype rd origin) rds.rdatas = .ok ds) :
    zonemdRdataset t origin (toWire (lowerName owner)) rds =
      .ok ((insSort bytesLe ds).flatMap (Rfc.rr owner rds.rdtype rds.rdclass rds.ttl)) := by
  unfold zonemdRdataset
  simp only [hd]
  congr 2
  funext rd
  exact rrRecord_eq owner rds.rdtype rds.rdclass rds.ttl rd

/-- "ZONEMD digests", scheme and hash-algorithm selection: the hash algorithms accepted are exactly RFC 8976
§5.3's SHA-384 (1) and SHA-512 (2), the only scheme is SIMPLE (1); with both supported the digest input is the
zone walk, otherwise the specific error is raised — algorithm first — and nothing is hashed. -/
theorem zonemd_selection (tZ : Nat) (t : CanonTable) (origin : Name) (rel : Bool) (alg scheme : Nat) (nodes : List ZMNode) :
    ConstsC15.zonemdHashes = [1, 2] ∧
    zonemdCompute ConstsC15.zonemdHashes tZ t origin rel alg scheme nodes =
      if alg ≠ 1 ∧ alg ≠ 2 then .error .unsupportedDigestHash
      else if scheme ≠ 1 then .error .unsupportedDigestScheme
      else zonemdInput tZ t origin rel nodes := by
  have hh : ConstsC15.zonemdHashes = [1, 2] := by decide
  refine ⟨hh, ?_⟩
  unfold zonemdCompute
  rw [hh]
  by_cases h1 : alg = 1
  · subst h1; simp
  · by_cases h2 : alg = 2
    · subst h2; simp
    · simp [h1, h2]

/-- unsupported hash algorithm / scheme are refused before anything is hashed -/
theorem zonemd_unsupported (tZ : Nat) (t : CanonTable) (origin : Name) (rel : Bool) (alg scheme : Nat) (nodes : List ZMNode)
    (h : ConstsC15.zonemdHashes.contains alg = false ∨ scheme ≠ 1) :
    ∃ e, zonemdCompute ConstsC15.zonemdHashes tZ t origin rel alg scheme nodes = .error e := by
  unfold zonemdCompute
  cases ha : ConstsC15.zonemdHashes.contains alg with
  | false => exact ⟨_, rfl⟩
  | true =>
    have hs : scheme ≠ 1 := by
      rcases h with h | h
      · rw [ha] at h; cases h
      · exact h
    simp only [Bool.not_true, Bool.false_eq_true, if_false, hs, ne_eq, not_false_eq_true, if_true]
    exact ⟨_, rfl⟩

/-- non-vacuity: apex ZONEMD and the RRSIG covering it are left out; a ZONEMD elsewhere is hashed -/
example :
    zonemdInput 63 ConstsC15.canonTable [[101], []] true
      [⟨[], [⟨63, 0, 1, 0, [[Field.raw [1]]]⟩, ⟨46, 63, 1, 0, [[Field.raw [0, 63]]]⟩, ⟨1, 0, 1, 5, [[Field.raw [9, 9, 9, 9]]]⟩]⟩,
       ⟨[[65]], [⟨63, 0, 1, 0, [[Field.raw [7]]]⟩]⟩] =
    .ok ([1, 101, 0] ++ [0, 1, 0, 1, 0, 0, 0, 5, 0, 4, 9, 9, 9, 9] ++ [1, 97, 1, 101, 0] ++ [0, 63, 0, 1, 0, 0, 0, 0, 0, 1, 7]) := by
  decide

end C15

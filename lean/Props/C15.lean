import Model.Dnssec
import Generated.C15
import Proofs.DnssecBasic
import Proofs.DnssecRrsig
import Proofs.DnssecBitmap
import Proofs.DnssecChain
import Proofs.DnssecCanon
/-!
# C15 — key-free DNSSEC computations equal an independent RFC 4034/5155/6840/8976 reference

Theorems of record.  `Model.Dnssec` follows `dns/dnssec.py`, `dns/rdata.py` (`to_digestable`), `dns/rdtypes/util.py`
(`Bitmap`), `dns/rdtypes/dnskeybase.py` (`key_id`) and `dns/zone.py` (`_compute_digest`).  `ConstsC15.canonTable`
is regenerated from the working tree on every run (one row per embedded-name field of every implemented
(class, type)), so the `decide` proofs below are obligations about the code as it is now.  RFC-side
definitions (`rfc4034_6_2`, `Rfc.sigData`, `IH`, `rfcKeyTagAcc`, `octetLe`, `bitmapHas`, `secure`, `chain`) are
written from the RFC text, independently of the model functions they are compared with.
-/
namespace C15
open Model Model.Dnssec

/-! ## which names are lower-cased; no compression -/

/-- RFC 4034 §6.2 item 3, transcribed from the RFC text (type codes from the IANA registry):
NS, MD, MF, CNAME, SOA, MB, MG, MR, PTR, HINFO, MINFO, MX, HINFO, RP, AFSDB, RT, SIG, PX, NXT, NAPTR, KX, SRV,
DNAME, A6, RRSIG, NSEC. -/
def rfc4034_6_2 : List Nat :=
  [2, 3, 4, 5, 6, 7, 8, 9, 12, 13, 14, 15, 13, 17, 18, 21, 24, 26, 30, 35, 36, 33, 39, 38, 46, 47]

/-- RFC 6840 §5.1: names in the RDATA of NSEC are *not* lower-cased. -/
def rfc6840_5_1_removed : List Nat := [47]

def mustLower (ty : Nat) : Bool := rfc4034_6_2.contains ty && !rfc6840_5_1_removed.contains ty

/-- (class, type) pairs of the unchanged tree that deviate (recorded in KNOWN_FINDINGS.json, reported by the
oracle while they exist): LP (class-independent implementation) and Chaosnet A. -/
def knownDeviations : List (Nat × Nat) := [(255, 107), (3, 1)]

/-- "for all record sets of all types": every implemented (class, type) pair was probed; a type added to
dnspython without a specimen in `harness/extract_C15.py` makes this fail. -/
theorem canon_table_complete : ConstsC15.unprobed = [] := by decide

/- Full statement (fails today for LP and CH A, DESIGN D12/D17):
   `∀ e ∈ ConstsC15.canonTable, e.2.2.2.1 = mustLower e.2.1`. -/
/-- "only names inside the RDATA of the types listed in RFC 4034 §6.2 (minus NSEC, per RFC 6840) are
lower-cased": for every embedded-name field of every implemented type, `to_digestable` lower-cases it iff the
type is in the list — decided over the whole regenerated table, except the recorded deviations. -/
theorem canon_table_is_rfc_partial :
    ∀ e ∈ ConstsC15.canonTable, (e.1, e.2.1) ∉ knownDeviations → e.2.2.2.1 = mustLower e.2.1 := by decide

/-- the same through the model's lookup (class-specific entry first, then the class-independent one) -/
theorem lowered_is_rfc_partial :
    ∀ e ∈ ConstsC15.canonTable, (e.1, e.2.1) ∉ knownDeviations →
      lowered ConstsC15.canonTable e.1 e.2.1 e.2.2.1 = mustLower e.2.1 := by decide

/-- "canonical forms never use compression", observed side: in the canonical form of every specimen every
embedded name occurs uncompressed (verbatim or lower-cased), never altered or shortened. -/
theorem canon_table_never_alters : ∀ e ∈ ConstsC15.canonTable, e.2.2.2.2.2 = false := by decide

/-- "canonical forms never use compression", model side: what is emitted for an embedded name (with or without
an origin, canonicalised or not) is the plain label sequence of a legal absolute name; a decoder that rejects
every length octet ≥ 64 — hence every compression pointer — reads it back exactly. -/
theorem canonical_form_no_compression (n : Name) (origin : Option Name) (canon : Bool) (w : Bytes)
    (hn : WfName n) (h : nameWireFile n origin canon = .ok w) :
    ∃ m : Name, w = toWire m ∧ isAbs m = true ∧ ∀ rest, decodeNoPtr m.length (w ++ rest) = some (m, rest) :=
  nameWireFile_no_pointer n origin canon w (by decide) hn h

/-- the canonical form of an rdata whose names are absolute is the RFC 4034 §6.2 string: opaque octets verbatim,
names expanded, the `k`-th lower-cased iff the table says so -/
theorem canonical_form_is_flat (cls ty : Nat) (rd : Rdata) (origin : Option Name) (h : allAbs rd) :
    toDigestable ConstsC15.canonTable cls ty rd origin =
      .ok (canonFlat (lowered ConstsC15.canonTable cls ty) rd 0) :=
  fieldsWire_abs _ origin rd 0 h

/-- non-vacuity of `canonical_form_no_compression`: a relative mixed-case name completed by an origin -/
example : WfName [[77, 120]] ∧ nameWireFile [[77, 120]] (some [[69, 88], []]) true = .ok [2, 109, 120, 2, 101, 120, 0]
    ∧ decodeNoPtr 3 ([2, 109, 120, 2, 101, 120, 0] ++ [192, 12]) = some ([[109, 120], [101, 120], []], [192, 12]) := by
  refine ⟨⟨?_, ?_, ?_⟩, ?_, ?_⟩ <;> decide

example : allAbs [Field.raw [0, 10], Field.name [[77, 120], [69, 88], []]] := by
  intro n hn; simp at hn; subst hn; decide

/-- MX lower-cases, NSEC and SVCB do not, LP (recorded deviation) does -/
example : toDigestable ConstsC15.canonTable 1 15 [Field.raw [0, 10], Field.name [[77, 88], []]] none = .ok [0, 10, 2, 109, 120, 0]
    ∧ toDigestable ConstsC15.canonTable 1 47 [Field.name [[77, 88], []], Field.raw [0, 1, 64]] none = .ok [2, 77, 88, 0, 0, 1, 64]
    ∧ toDigestable ConstsC15.canonTable 1 64 [Field.raw [0, 1], Field.name [[77, 88], []]] none = .ok [0, 1, 2, 77, 88, 0] := by
  decide

/-! ## key tag -/

/-- RFC 4034 Appendix B: `ac += (ac >> 16) & 0xFFFF; return ac & 0xFFFF` over the accumulated sum -/
def rfcKeyTag (rdata : Bytes) : Nat :=
  let ac := rfcKeyTagAcc 0 rdata
  (ac + ac / 65536 % 65536) % 65536

/-- "key tags … equal an independent RFC reference": for every octet string (of any length, even or odd),
`key_id` is Appendix B's algorithm; for algorithm 1 (RSA/MD5, Appendix B.1) it is the most significant 16 of the
least significant 24 bits of the RDATA. -/
theorem key_tag_is_appendix_b (wire : Bytes) :
    keyId ConstsC15.algRSAMD5 wire =
      if wire.getD 3 0 = 1 then wire.getD (wire.length - 3) 0 * 256 + wire.getD (wire.length - 2) 0
      else rfcKeyTag wire := by
  have halg : ConstsC15.algRSAMD5 = 1 := by decide
  unfold keyId rfcKeyTag
  rw [halg, keyIdSum_eq_acc wire 0 (by decide)]

example : keyId ConstsC15.algRSAMD5 [1, 1, 3, 8, 3, 1, 0, 1] = 1803 := by decide

/-! ## canonical RRset order -/

/-- "the canonical order of a record set": `sorted(rdatas)` is a permutation of the canonical RDATAs ordered as
left-justified unsigned octet strings, a missing octet sorting first (RFC 4034 §6.3). -/
theorem rrset_order_is_octet_order (ds : List Bytes) :
    (insSort bytesLe ds).Perm ds ∧ (insSort bytesLe ds).Pairwise octetLe := by
  refine ⟨insSort_perm _ _, ?_⟩
  have := insSort_pairwise bytesLe bytesLe_total bytesLe_trans ds
  exact this.imp (fun {a b} h => (bytesLe_iff a b).mp h)

example : insSort bytesLe [[1, 2], [1], [0, 255], []] = [[], [0, 255], [1], [1, 2]] := by decide

/-! ## RRSIG signing input -/

/-- "the RRSIG signing input including wildcard label reduction … equals an independent RFC reference": for an
absolute signer and owner, a label count not above the owner's and (for a wildcard owner) equal to it, the data
handed to the signature algorithm is RFC 4034 §3.1.8.1's `RRSIG_RDATA | RR(1) | RR(2) …` with the owner of RFC
4035 §5.3.2, TTL = Original TTL, RRs in canonical order — for both variants of the signer expression. -/
theorem rrsig_input_is_rfc (v : SignerVariant) (t : CanonTable) (sig : RRSig) (origin : Option Name) (rrname : Name)
    (rdtype rdclass : Nat) (rdatas : List Rdata) (ds : List Bytes)
    (hs : isAbs sig.signer = true) (hr : isAbs rrname = true)
    (hl : sig.labels ≤ Rfc.labelCount rrname)
    (hw : rrname.head? = some wildLabel → sig.labels = Rfc.labelCount rrname)
    (hd : mapExcept (fun rd => toDigestable t rdclass rdtype rd origin) rdatas = .ok ds) :
    rrsigData v t sig origin rrname rdtype rdclass rdatas =
      .ok (Rfc.sigData sig sig.signer rrname rdtype rdclass (insSort bytesLe ds)) :=
  rrsigData_eq_rfc v t sig origin rrname rdtype rdclass rdatas ds hs hr hl hw hd

/-- wildcard label reduction: when the Labels field is smaller than the owner's label count the owner that is
digested is `*` followed by the rightmost `labels` labels (and the root). -/
theorem wildcard_reduction (rrname : Name) (labels : Nat) (h : labels ≠ Rfc.labelCount rrname) :
    Rfc.sigOwner rrname labels = [42] :: (rrname.dropLast.drop (rrname.dropLast.length - labels) ++ [[]]) := by
  simp [Rfc.sigOwner, h]

/-- error cases: a Labels field above the owner's label count (RFC 4035 §5.3.1), or a wildcard owner whose
Labels field is not its label count, raises ValidationFailure. -/
theorem rrsig_bad_labels_rejected (v : SignerVariant) (t : CanonTable) (sig : RRSig) (origin : Option Name)
    (rrname : Name) (rdtype rdclass : Nat) (rdatas : List Rdata)
    (hs : isAbs sig.signer = true) (hr : isAbs rrname = true)
    (hbad : sig.labels > Rfc.labelCount rrname ∨
            (rrname.head? = some wildLabel ∧ sig.labels ≠ Rfc.labelCount rrname)) :
    rrsigData v t sig origin rrname rdtype rdclass rdatas = .error .validation :=
  rrsigData_rejects v t sig origin rrname rdtype rdclass rdatas hs hr hbad

/-- non-vacuity: `b.a.Example.` with Labels = 2 is digested as `*.a.example.`; A records in octet order -/
example :
    rrsigData .asShipped ConstsC15.canonTable
      { typeCovered := 1, algorithm := 8, labels := 2, originalTtl := 300, expiration := 2, inception := 1, keyTag := 7,
        signer := [[69, 120], []] } none [[98], [97], [69, 120], []] 1 1
      [[Field.raw [10, 0, 0, 2]], [Field.raw [10, 0, 0, 1]]] =
    .ok (Rfc.sigData
      { typeCovered := 1, algorithm := 8, labels := 2, originalTtl := 300, expiration := 2, inception := 1, keyTag := 7,
        signer := [[69, 120], []] } [[69, 120], []] [[98], [97], [69, 120], []] 1 1 [[10, 0, 0, 1], [10, 0, 0, 2]])
    ∧ Rfc.sigOwner [[98], [97], [69, 120], []] 2 = [[42], [97], [69, 120], []] := by decide

/-- The recorded defect (KNOWN_FINDINGS `relative-signer-prefix-doubled`): with the expression as shipped a
relative signer `sub` under origin `ex.` is digested as `sub.sub.ex.`; the intended expression gives `sub.ex.`. -/
example :
    let sig : RRSig := { typeCovered := 1, algorithm := 8, labels := 2, originalTtl := 0, expiration := 0, inception := 0,
                         keyTag := 0, signer := [[115]] }
    (rrsigData .asShipped [] sig (some [[101], []]) [[119], [101], []] 1 1 []).toOption.map (·.drop 18) = some [1, 115, 1, 115, 1, 101, 0]
    ∧ (rrsigData .intended [] sig (some [[101], []]) [[119], [101], []] 1 1 []).toOption.map (·.drop 18) = some [1, 115, 1, 101, 0] := by
  decide

/-! ## DS / CDS -/

/-- "DS/CDS digests": for an absolute owner and a supported, permitted digest type the DS RDATA is key tag,
algorithm, digest type, then the digest of `canonical owner name | DNSKEY RDATA` (RFC 4034 §5.1.4) — for any
hash function `H`. -/
theorem ds_input_is_rfc (H : Bytes → Bytes) (deny : List Nat) (name : Name) (key : Bytes) (dt : Nat)
    (ha : isAbs name = true) (hdt : dt = 1 ∨ dt = 2 ∨ dt = 4) (hp : dt ∉ deny) :
    makeDs H ConstsC15.algRSAMD5 deny name key dt =
      .ok (be16 (keyId ConstsC15.algRSAMD5 key) ++ [key.getD 3 0, dt] ++ H (toWire (lowerName name) ++ key)) := by
  have ha' : isAbs (lowerName name) = true := by rw [isAbs_lowerName]; exact ha
  have hne : ¬ (dt ≠ 1 ∧ dt ≠ 2 ∧ dt ≠ 4) := by omega
  simp [makeDs, makeDsParts, dsInput, nameWireNoFile, hp, hne, ha']

example : makeDsParts ConstsC15.algRSAMD5 [0, 1, 3] [[69, 88], []] [1, 1, 3, 8, 3] 2 = .ok ([7, 9, 8, 2], [2, 101, 120, 0, 1, 1, 3, 8, 3])
    ∧ makeDsParts ConstsC15.algRSAMD5 [0, 1, 3] [[69, 88], []] [1, 1, 3, 8, 3] 1 = .error .denied
    ∧ makeDsParts ConstsC15.algRSAMD5 [] [[69, 88], []] [1, 1, 3, 8, 3] 3 = .error .unsupported := by decide

/-! ## NSEC3 -/

/-- "NSEC3 hashes": for an absolute name, `nsec3_hash` is base32hex (RFC 4648 §7) of RFC 5155 §5's
`IH(salt, canonical owner name, iterations)`, for any hash `H`, any salt, any iteration count: the loop is the
recurrence, and `b32encode` followed by the translation table is base32hex. -/
theorem nsec3_is_rfc (H : Bytes → Bytes) (name : Name) (salt : Bytes) (iterations : Nat) (ha : isAbs name = true) :
    nsec3Hash H name salt iterations 1 =
      .ok (b32encode b32Hex (IH H salt (toWire (lowerName name)) iterations)) := by
  have ha' : isAbs (lowerName name) = true := by rw [isAbs_lowerName]; exact ha
  have h := nsec3Iter_IH H salt (toWire (lowerName name)) iterations 0
  simp only [IH, Nat.zero_add] at h
  simp [nsec3Hash, nameWireNoFile, ha', h, b32encode_translate]

/-- base32hex alphabet `0-9A-V` -/
example : (List.range 32).map b32Hex = "0123456789ABCDEFGHIJKLMNOPQRSTUV".toList.map Char.toNat := by decide

/-! ## type bitmaps -/

/-- "exact type bitmaps": decoding the windows produced by `Bitmap.from_rdtypes` (bit 0 = most significant,
RFC 4034 §4.1.2) gives exactly the input type set — duplicates and order of the input are irrelevant —; window
numbers strictly ascend; every bitmap has 1..32 octets and no trailing zero octet (minimal length). -/
theorem bitmap_exact (ts : List Nat) (h : ∀ t ∈ ts, 0 < t ∧ t < 65536) :
    (∀ t, bitmapHas (fromRdtypes ts) t ↔ t ∈ ts) ∧
    (fromRdtypes ts).Pairwise (fun a b => a.1 < b.1) ∧
    (∀ w ∈ fromRdtypes ts, w.1 < 256 ∧ w.2 ≠ [] ∧ w.2.length ≤ 32 ∧ w.2.getLast? ≠ some 0) :=
  fromRdtypes_exact ts h

example : ∀ t ∈ [47, 1, 46, 1234, 15, 1], 0 < t ∧ t < 65536 := by decide

example : fromRdtypes [47, 1, 46, 1234, 15, 1] = [(0, [64, 1, 0, 0, 0, 3]), (4, List.replicate 26 0 ++ [32])] := by decide

/-! ## NSEC chain -/

/-- the secure names are a sub-sequence of the sorted names: each at most once, in canonical order -/
theorem secure_sublist (c : NsecConsts) (origin : Name) (L : List ZNode) :
    (secure c origin L).Sublist L ∧ ∀ z, z ∈ secure c origin L ↔ z ∈ L ∧ occluded c origin L z = false := by
  refine ⟨List.filter_sublist, fun z => ?_⟩
  simp [secure, List.mem_filter]

/- Full statement (fails today, DESIGN D13): the same with `v := .asShipped` and without the guard `hv`.
   Counterexample below (`apex_only_gets_no_nsec`). -/
/-- "the NSEC chain visits every authoritative name exactly once in canonical order with exact type bitmaps,
skipping names beneath delegations": for a node list sorted in canonical order (`hsorted`; that `sorted()`
delivers it is C06 + Python's contract) in which no earlier name is beneath a later one, `is_subdomain` is
transitive and the names beneath a name follow it contiguously (`H1`, `H3`, `HC`: facts of the canonical order,
decidable on any concrete list), the NSEC records added by `_sign_zone_nsec` are exactly the chain over the
names not beneath a delegation (`secure`): one per such name, in list order, each pointing at the next, the
last one at the origin, bitmap = the node's types ∪ {RRSIG, NSEC} (`bitmap_exact` says the encoding is exact).
`hv`: with the test as shipped (`if last_secure:`) the last secure name must not be the empty name. -/
theorem nsec_chain_partial (c : NsecConsts) (v : LastVariant) (origin : Name) (nodes : List ZNode) (ws : Bool)
    (L : List ZNode)
    (hsorted : L.Pairwise (fun a b => cmpOrder a.name b.name < 0))
    (hlook : ∀ z ∈ L, lookupNode nodes z.name = some z)
    (htypes : ∀ z ∈ L, z.types ≠ [])
    (ho : origin ≠ [])
    (H1 : L.Pairwise (fun a b => subOf a b = false))
    (H3 : ∀ x ∈ L, ∀ y ∈ L, ∀ z ∈ L, subOf x y = true → subOf y z = true → subOf x z = true)
    (HC : contig L = true)
    (hv : v = .intended ∨ ∀ z, (secure c origin L).getLast? = some z → z.name ≠ []) :
    nsecsOf (walkSorted c v origin nodes ws L) = chain c origin (secure c origin L) origin :=
  walk_chain c v origin nodes ws L hlook htypes (tail_nonempty_of_sorted L hsorted) ho H1 H3 HC hv

/-- the full statement for the intended test (`is not None`), and with the node table being the sorted list itself -/
theorem nsec_chain_intended (c : NsecConsts) (origin : Name) (ws : Bool) (L : List ZNode)
    (hsorted : L.Pairwise (fun a b => cmpOrder a.name b.name < 0))
    (htypes : ∀ z ∈ L, z.types ≠ [])
    (ho : origin ≠ [])
    (H1 : L.Pairwise (fun a b => subOf a b = false))
    (H3 : ∀ x ∈ L, ∀ y ∈ L, ∀ z ∈ L, subOf x y = true → subOf y z = true → subOf x z = true)
    (HC : contig L = true) :
    nsecsOf (walkSorted c .intended origin L ws L) = chain c origin (secure c origin L) origin :=
  walk_chain c .intended origin L ws L (lookup_of_sorted L hsorted) htypes (tail_nonempty_of_sorted L hsorted) ho
    H1 H3 HC (Or.inl rfl)

/-- `sign_zone` sorts first: the walk runs over a permutation of the nodes -/
theorem sign_zone_sorts (c : NsecConsts) (v : LastVariant) (origin : Name) (nodes : List ZNode) (ws : Bool) :
    signZoneNsec c v origin nodes ws =
        walkSorted c v origin nodes ws (insSort (fun a b => nameLe a.name b.name) nodes)
      ∧ (insSort (fun a b => nameLe a.name b.name) nodes).Perm nodes :=
  ⟨rfl, insSort_perm _ _⟩

def exConsts : NsecConsts := { tNS := 2, tDS := 43, tRRSIG := 46, tNSEC := 47 }

/-- non-vacuity: zone `ex.` with apex, `a` (A), cut `sub` (NS, DS, glue A at the cut), glue `ns.sub`, and `zz`:
all hypotheses hold, `ns.sub` is skipped, the chain is apex → a → sub → zz → apex -/
def exZone : List ZNode :=
  [⟨[[101, 120], []], [6, 2]⟩, ⟨[[97], [101, 120], []], [1]⟩, ⟨[[115, 117, 98], [101, 120], []], [2, 43, 1]⟩,
   ⟨[[110, 115], [115, 117, 98], [101, 120], []], [1]⟩, ⟨[[122, 122], [101, 120], []], [1]⟩]

example : exZone.Pairwise (fun a b => cmpOrder a.name b.name < 0) ∧ (∀ z ∈ exZone, z.types ≠ []) ∧
    exZone.Pairwise (fun a b => subOf a b = false) ∧
    (∀ x ∈ exZone, ∀ y ∈ exZone, ∀ z ∈ exZone, subOf x y = true → subOf y z = true → subOf x z = true) ∧
    contig exZone = true ∧
    (secure exConsts [[101, 120], []] exZone).map (·.name) =
      [[[101, 120], []], [[97], [101, 120], []], [[115, 117, 98], [101, 120], []], [[122, 122], [101, 120], []]] := by
  decide

/-- the remaining hypotheses of `nsec_chain_partial` on the same zone: the node table resolves every name, and
the last secure name is not the empty name -/
example : (∀ z ∈ exZone, lookupNode exZone z.name = some z) ∧
    (∀ z, (secure exConsts [[101, 120], []] exZone).getLast? = some z → z.name ≠ []) := by
  refine ⟨by decide, ?_⟩
  intro z hz
  have : (secure exConsts [[101, 120], []] exZone).getLast? = some ⟨[[122, 122], [101, 120], []], [1]⟩ := by decide
  rw [this] at hz
  cases hz
  decide

/-- and the chain itself, as shipped and with the RFC 4035 §2.3 bitmap at the delegation point
(KNOWN_FINDINGS `non-authoritative-type-at-delegation-point`): `sub` announces A (its glue) as shipped,
only NS and DS when `cutTypes` is set -/
example :
    (nsecsOf (signZoneNsec exConsts .asShipped [[101, 120], []] exZone true)).map (fun r => (r.1, r.2.1)) =
      [([[101, 120], []], [[97], [101, 120], []]), ([[97], [101, 120], []], [[115, 117, 98], [101, 120], []]),
       ([[115, 117, 98], [101, 120], []], [[122, 122], [101, 120], []]), ([[122, 122], [101, 120], []], [[101, 120], []])]
    ∧ nsecTypes exConsts [[101, 120], []] ⟨[[115, 117, 98], [101, 120], []], [2, 43, 1]⟩ = [2, 43, 1]
    ∧ nsecTypes { exConsts with cutTypes := true } [[101, 120], []] ⟨[[115, 117, 98], [101, 120], []], [2, 43, 1]⟩ = [2, 43] := by
  decide

/-- The recorded defect (DESIGN D13): a relativized zone whose only name is the apex `@` gets no NSEC with the
test as shipped, one NSEC `@ → origin` with the intended test. -/
example : nsecsOf (signZoneNsec exConsts .asShipped [[101, 120], []] [⟨[], [6, 2]⟩] true) = []
    ∧ nsecsOf (signZoneNsec exConsts .intended [[101, 120], []] [⟨[], [6, 2]⟩] true) =
        [([], [[101, 120], []], fromRdtypes [6, 2, 46, 47])] := by decide

/-! ## ZONEMD -/

/-- "ZONEMD digests", exclusions (RFC 8976 §3.3.1 items 4 and 6): at a node the rdatasets that are hashed
are, in ascending (type, covered type) order, all those of the node except — at the apex only — ZONEMD itself
and the RRSIG covering ZONEMD. -/
theorem zonemd_rdatasets_hashed (tZONEMD : Nat) (originName name : Name) (rs : List ZRdataset) :
    let hashed := (insSort rdsLe rs).filter fun r => !zonemdExcluded tZONEMD originName name r
    hashed.Pairwise (fun a b => rdsLe a b = true) ∧
    (∀ r, r ∈ hashed ↔ r ∈ rs ∧
        ¬ (nameEq name originName = true ∧ (r.rdtype = tZONEMD ∨ r.covers = tZONEMD))) := by
  refine ⟨(insSort_pairwise rdsLe rdsLe_total rdsLe_trans rs).sublist List.filter_sublist, fun r => ?_⟩
  simp only [List.mem_filter, (insSort_perm rdsLe rs).mem_iff, zonemdExcluded]
  cases nameEq name originName <;> simp

/-- each hashed RR is `owner | type | class | TTL | RDLENGTH | RDATA` with the rdataset's TTL, RDATAs of one
rdataset in canonical order (RFC 8976 §3.3.1, RFC 4034 §6) -/
theorem zonemd_rdataset_format (t : CanonTable) (origin : Option Name) (owner : Name) (rds : ZRdataset) (ds : List Bytes)
    (hd : mapExcept (fun rd => toDigestable t rds.rdclass rds.rdtype rd origin) rds.rdatas = .ok ds) :
    zonemdRdataset t origin (toWire (lowerName owner)) rds =
      .ok ((insSort bytesLe ds).flatMap (Rfc.rr owner rds.rdtype rds.rdclass rds.ttl)) := by
  unfold zonemdRdataset
  simp only [hd]
  congr 2
  funext rd
  exact rrRecord_eq owner rds.rdtype rds.rdclass rds.ttl rd

/-- unsupported hash algorithm / scheme are refused before anything is hashed -/
theorem zonemd_unsupported (tZ : Nat) (t : CanonTable) (origin : Name) (rel : Bool) (alg scheme : Nat) (nodes : List ZMNode)
    (h : ConstsC15.zonemdHashes.contains alg = false ∨ scheme ≠ 1) :
    ∃ e, zonemdCompute ConstsC15.zonemdHashes tZ t origin rel alg scheme nodes = .error e := by
  unfold zonemdCompute
  cases ha : ConstsC15.zonemdHashes.contains alg with
  | false => exact ⟨_, rfl⟩
  | true =>
    have hs : scheme ≠ 1 := by
      rcases h with h | h
      · rw [ha] at h; cases h
      · exact h
    simp only [Bool.not_true, Bool.false_eq_true, if_false, hs, ne_eq, not_false_eq_true, if_true]
    exact ⟨_, rfl⟩

/-- non-vacuity: apex ZONEMD and the RRSIG covering it are left out; a ZONEMD elsewhere is hashed -/
example :
    zonemdInput 63 ConstsC15.canonTable [[101], []] true
      [⟨[], [⟨63, 0, 1, 0, [[Field.raw [1]]]⟩, ⟨46, 63, 1, 0, [[Field.raw [0, 63]]]⟩, ⟨1, 0, 1, 5, [[Field.raw [9, 9, 9, 9]]]⟩]⟩,
       ⟨[[65]], [⟨63, 0, 1, 0, [[Field.raw [7]]]⟩]⟩] =
    .ok ([1, 101, 0] ++ [0, 1, 0, 1, 0, 0, 0, 5, 0, 4, 9, 9, 9, 9] ++ [1, 97, 1, 101, 0] ++ [0, 63, 0, 1, 0, 0, 0, 0, 0, 1, 7]) := by
  decide

end C15

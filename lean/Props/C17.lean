import Model.Cache
import Proofs.Cache
import Proofs.CacheLru
import Proofs.CacheLruSpec
import Proofs.CacheSys
import Proofs.CacheMicro
import Proofs.CacheRing
import Proofs.CacheRingRun
/-!
# C17 — Resolver caches never serve stale data, honour the LRU bound, are linearizable

Theorems of record about `Model.Cache` (model of `dns.resolver.Cache`, `LRUCache`, `LRUCacheNode`, `CacheBase`).
States are either arbitrary (`s`) — then the statement holds a fortiori after every operation sequence — or the
state reached from the constructor by an arbitrary operation list `ops` (gets, puts, flushes, resizes, clock
advances, statistics calls, in any order and number).

`set_max_size` is the repaired one (under the lock, evicting; DESIGN §6 D14 is fixed in the repository), so
`lru_bound` is unconditional: after every operation of every sequence.  `bound_needs_eviction_in_set_max_size`
records that the theorem fails for the former `set_max_size`.
-/
namespace C17
open Model.Cache

/-- state of `Cache(cleaning_interval=iv)` created at time `t0` after `ops` -/
abbrev reachC (iv t0 : Nat) (ops : List Op) : CState := (runC (initC iv t0) ops).1
/-- state of `LRUCache(max_size=n)` created at time `t0` after `ops` -/
abbrev reachL (n : Int) (t0 : Nat) (ops : List Op) : LState := (runL (initL n t0) ops).1

/-! ## never stale -/

/-- "never return an answer at or after its expiration time" — `Cache.get`, from any state whatsoever. -/
theorem never_stale_cache (s : CState) (k : Key) (v : Nat) (h : (stepC s (.get k)).2 = .val v) :
    ∃ a, (k, a) ∈ s.data ∧ a.val = v ∧ s.now < a.exp := by
  have hn := maybeClean_now s
  have hsub : ∀ x, x ∈ (maybeClean s).data → x ∈ s.data := by
    intro x hx
    unfold maybeClean at hx
    split at hx
    · exact (List.mem_filter.mp hx).1
    · exact hx
  simp only [stepC] at h
  split at h
  · cases h
  · rename_i a hd
    split at h
    · cases h
    · rename_i hexp
      refine ⟨a, hsub _ (dget_mem _ _ _ hd), ?_, ?_⟩
      · injection h
      · rw [hn] at hexp; omega

/-- "never return an answer at or after its expiration time" — `LRUCache.get`, from any state whatsoever. -/
theorem never_stale_lru (s : LState) (k : Key) (v : Nat) (h : (stepL s (.get k)).2 = .val v) :
    ∃ n ∈ s.ring, n.key = k ∧ n.ans.val = v ∧ s.now < n.ans.exp := by
  simp only [stepL] at h
  split at h
  · cases h
  · rename_i n hf
    have hn := findNode_some hf
    split at h
    · cases h
    · rename_i hexp
      refine ⟨n, hn.1, hn.2, ?_, by omega⟩
      injection h

example : (stepC (reachC 300 1000 [.put 1 ⟨7, 1010⟩, .adv 9]) (.get 1)).2 = .val 7 := by decide
example : (stepC (reachC 300 1000 [.put 1 ⟨7, 1010⟩, .adv 10]) (.get 1)).2 = .none := by decide
example : (stepL (reachL 2 1000 [.put 1 ⟨7, 1010⟩, .adv 10]) (.get 1)).2 = .none := by decide

/-! ## latest unexpired -/

/-- "always return the most recently stored unexpired answer for a key that has not been flushed" — `Cache`:
after any operation sequence a lookup returns exactly what the timed map `specRun` (last `put` of the key not
followed by a flush; no notion of sweeps) prescribes at the current time.  `Cache` never evicts. -/
theorem latest_unexpired_cache (iv t0 : Nat) (ops : List Op) (k : Key) :
    (stepC (reachC iv t0 ops) (.get k)).2 = specGet (specRun (fun _ => none) ops) (reachC iv t0 ops).now k :=
  get_of_refC _ _ k (refC_run _ _ ops (refC_init iv t0))

/-- `LRUCache`, the full statement: after any operation sequence a lookup returns exactly what the specification
`SpecL` prescribes — the answer of the timed map (`specRun`: most recent `put` of the key not followed by a flush;
the same history function as for `Cache`, blind to eviction and expiry) provided the key is still in the recency
list and the answer has not expired, and nothing otherwise.  The recency list is defined on keys alone: a `put` or a
hit moves the key to the front, a flush or a found-expired lookup removes it, and the only other way out is the tail
cut `take (max_size - 1)` of `put` / `take max_size` of `set_max_size`: eviction, least recently used first. -/
theorem latest_unexpired_lru_refines (n : Int) (t0 : Nat) (ops : List Op) (k : Key) :
    (stepL (reachL n t0 ops) (.get k)).2 = specGetL (specRunL (specInitL n t0) ops) k ∧
    (specRunL (specInitL n t0) ops).m = specRun (fun _ => none) ops ∧
    (reachL n t0 ops).ring.map (·.key) = (specRunL (specInitL n t0) ops).recency := by
  have h := refLS_run (initL n t0) (specInitL n t0) ops (invL_init n t0) (refLS_init n t0)
  exact ⟨get_of_refLS _ _ k h, specRunL_m _ ops, h.keys⟩

/-- `LRUCache`, soundness: whatever a lookup returns after any operation sequence is the most recent `put` of that
key, not flushed since, and unexpired. -/
theorem latest_unexpired_lru (n : Int) (t0 : Nat) (ops : List Op) (k : Key) (v : Nat)
    (h : (stepL (reachL n t0 ops) (.get k)).2 = .val v) :
    ∃ a, specRun (fun _ => none) ops k = some a ∧ a.val = v ∧ (reachL n t0 ops).now < a.exp := by
  obtain ⟨nd, hmem, hk, hv, he⟩ := never_stale_lru _ k v h
  have hr := refL_run (initL n t0) (fun _ => none) ops (invL_init n t0) (fun x hx => by cases hx) nd hmem
  rw [hk] at hr
  exact ⟨nd.ans, hr, hv, he⟩

/-- `LRUCache`, completeness: an entry that is in the cache and unexpired is returned (so an answer is lost only
by flush, by expiry, by being overwritten, or by the eviction characterised in `put_evicts_exactly_lru_tail`). -/
theorem lru_get_present (n : Int) (t0 : Nat) (ops : List Op) (k : Key) (nd : Node)
    (hmem : nd ∈ (reachL n t0 ops).ring) (hk : nd.key = k) (he : (reachL n t0 ops).now < nd.ans.exp) :
    (stepL (reachL n t0 ops) (.get k)).2 = .val nd.ans.val := by
  have hinv := invL_run (initL n t0) ops (invL_init n t0)
  have hf := findNode_of_mem hinv.nodup hmem hk
  simp only [stepL, hf]
  have : ¬ nd.ans.exp ≤ (reachL n t0 ops).now := by omega
  simp [this]

example : (stepL (reachL 2 1000 [.put 1 ⟨7, 1010⟩, .put 1 ⟨8, 1020⟩]) (.get 1)).2 = .val 8 := by decide
-- the specification alone: key 0 is evicted by the third put into a cache of 2, key 1 survives because it was hit
example : (specRunL (specInitL 2 0) [.put 0 ⟨0, 9⟩, .put 1 ⟨1, 9⟩, .get 0, .get 1, .put 2 ⟨2, 9⟩]).recency = [2, 1] := by decide
example : specGetL (specRunL (specInitL 2 0) [.put 0 ⟨0, 9⟩, .put 1 ⟨1, 9⟩, .get 0, .get 1, .put 2 ⟨2, 9⟩]) 0 = .none := by decide
example : specGetL (specRunL (specInitL 2 0) [.put 0 ⟨0, 9⟩, .put 1 ⟨1, 9⟩, .get 0, .get 1, .put 2 ⟨2, 9⟩]) 1 = .val 1 := by decide
example : specRun (fun _ => none) [.put 1 ⟨7, 1010⟩, .put 1 ⟨8, 1020⟩, .flush 1] 1 = none := by decide

/-! ## ring and dict agree -/

/-- after every prefix of every sequence the ring carries each key at most once (so the key set of the ring is
a dict: `data` and the ring agree), for both variants. -/
theorem ring_wf (n : Int) (t0 : Nat) (ops : List Op) : RingNodup (reachL n t0 ops).ring :=
  (invL_run (initL n t0) ops (invL_init n t0)).nodup

/-! ## the ring at pointer level

`LRUCacheNode.link_after` / `unlink` are modelled as coded (two resp. four pointer assignments, each reading what the
previous one wrote), `put`'s make-room loop and `set_max_size`'s shrink loop follow `sentinel.prev`, `flush()` follows
`gnode.next`.  `Ring p l` says that `next` leads from the sentinel through exactly the nodes `l` and back, that `prev`
is its inverse, and that no node occurs twice. -/

/-- "the doubly linked list and the dict must agree after every prefix of every sequence": run the pointer
operations of the methods (`stepP`) next to the list model from the constructor through **any** operation sequence;
the `prev`/`next` pointers then represent exactly the list model's ring (node of key `k` ↦ `k + 1`, sentinel 0): a
single cycle through the sentinel, `prev` inverse to `next`, same nodes in the same order, `sentinel.next` the most
and `sentinel.prev` the least recently used node. -/
theorem ring_pointers_refine (n : Int) (t0 : Nat) (ops : List Op) :
    Ring (runPL ptrs0 (initL n t0) ops).1 (ids (reachL n t0 ops).ring) ∧
    (runPL ptrs0 (initL n t0) ops).1.next 0 = ((ids (reachL n t0 ops).ring).head?).getD 0 ∧
    (runPL ptrs0 (initL n t0) ops).1.prev 0 = ((ids (reachL n t0 ops).ring).getLast?).getD 0 := by
  have h := ring_runPL ptrs0 (initL n t0) ops (invL_init n t0) (by simpa [ids, initL] using ring_ptrs0)
  rw [h.2] at h
  exact ⟨h.1, ring_first _ _ h.1, ring_last _ _ h.1⟩

/-- `link_after(sentinel)` and `unlink()` on any well-formed ring (the two pointer lemmas everything rests on). -/
theorem link_unlink_correct (p : Ptrs) (l : List Nat) (x : Nat) (h : Ring p l) :
    (x ≠ 0 → x ∉ l → Ring (linkAfter p x 0) (x :: l)) ∧ (x ∈ l → Ring (unlinkP p x) (l.erase x)) :=
  ⟨fun h0 hx => ring_link p l x h h0 hx, fun hx => ring_unlink p l x h hx⟩

example : (runPL ptrs0 (initL 2 0) [.put 0 ⟨0, 9⟩, .put 1 ⟨1, 9⟩, .get 0, .put 2 ⟨2, 9⟩]).1.next 0 = 3 := by decide
example : (runPL ptrs0 (initL 2 0) [.put 0 ⟨0, 9⟩, .put 1 ⟨1, 9⟩, .get 0, .put 2 ⟨2, 9⟩]).1.prev 0 = 1 := by decide
-- dropping `node.next.prev = self` from link_after breaks the representation (the prev-ring no longer closes)
example : ({ next := setP (setP ptrs0.next 1 0) 0 1, prev := setP ptrs0.prev 1 0 } : Ptrs).prev 0 ≠ 1 := by decide

/-- "hit counters per key": after any operation sequence every cached node's `hits` (what `get_hits_for_key`
reports for an unexpired entry) is the number of lookups of that key that returned an answer since the key was last
stored. -/
theorem hits_for_key_exact (n : Int) (t0 : Nat) (ops : List Op) :
    ∀ nd ∈ (reachL n t0 ops).ring,
      nd.hits = hitsSpec (fun _ => 0) (ops.zip (runL (initL n t0) ops).2) nd.key :=
  hitsOk_run (initL n t0) (fun _ => 0) ops (invL_init n t0) (fun _ hx => nomatch hx)

example : (stepL (reachL 2 0 [.put 0 ⟨0, 9⟩, .get 0, .get 0, .get 1]) (.hitsFor 0)).2 = .num 2 := by decide
example : (stepL (reachL 2 0 [.put 0 ⟨0, 9⟩, .get 0, .put 0 ⟨1, 9⟩]) (.hitsFor 0)).2 = .num 0 := by decide

/-! ## the LRU bound -/

/-- `put` in closed form, after any operation sequence: the new node is linked after the sentinel, the other
nodes keep their order, and exactly the nodes beyond position `max_size - 1` — the least recently used ones — are
dropped.  In particular nothing is dropped unless the cache is full. -/
theorem put_evicts_exactly_lru_tail (n : Int) (t0 : Nat) (ops : List Op) (k : Key) (a : Ans) :
    (stepL (reachL n t0 ops) (.put k a)).1.ring =
      { key := k, ans := a, hits := 0, stamp := (reachL n t0 ops).tick + 1 } ::
        (removeKey (reachL n t0 ops).ring k).take ((reachL n t0 ops).maxSize - 1) :=
  stepL_put _ k a (invL_run (initL n t0) ops (invL_init n t0)).maxPos

/-- "The LRU cache never holds more entries than its limit": after **every operation** of **every** operation
sequence (puts, hits, flushes, resizes up and down, clock advances, …), `len(data) ≤ max_size`; and the limit
itself is always at least 1. -/
theorem lru_bound (n : Int) (t0 : Nat) (ops : List Op) :
    (reachL n t0 ops).ring.length ≤ (reachL n t0 ops).maxSize ∧ 1 ≤ (reachL n t0 ops).maxSize :=
  ⟨bound_run (initL n t0) ops (invL_init n t0) (by simp [initL]), (invL_run (initL n t0) ops (invL_init n t0)).maxPos⟩

/-- … and from *any* state (even one above the limit) a single `put` or `set_max_size` re-establishes it. -/
theorem lru_bound_restored (s : LState) (hm : 1 ≤ s.maxSize) (k : Key) (a : Ans) (m : Int) :
    (stepL s (.put k a)).1.ring.length ≤ (stepL s (.put k a)).1.maxSize ∧
    (stepL s (.setMax m)).1.ring.length ≤ (stepL s (.setMax m)).1.maxSize := by
  refine ⟨length_after_put s k a hm, ?_⟩
  simp only [stepL]
  rw [evictTo_eq_take _ (by omega)]
  simp only [List.length_take]; omega

/-- regression record: with the former `set_max_size` (no eviction) the bound fails — `LRUCache(4)`, four puts,
`set_max_size(2)` left 4 entries.  (`stepLOld` is not part of the model of the current code.) -/
theorem bound_needs_eviction_in_set_max_size :
    ∃ ops, (runLOld (initL 4 0) ops).maxSize < (runLOld (initL 4 0) ops).ring.length :=
  ⟨[.put 0 ⟨0, 9⟩, .put 1 ⟨1, 9⟩, .put 2 ⟨2, 9⟩, .put 3 ⟨3, 9⟩, .setMax 2], by decide⟩

example : (reachL 4 0 [.put 0 ⟨0, 9⟩, .put 1 ⟨1, 9⟩, .put 2 ⟨2, 9⟩, .put 3 ⟨3, 9⟩, .setMax 2]).ring.length = 2 := by decide
example : (reachL 1 0 [.put 0 ⟨0, 9⟩, .setMax 0, .put 1 ⟨1, 9⟩]).maxSize = 1 := by decide

/-! ## evicts strictly least-recently-used first -/

/-- the ghost stamp of a node is the tick of its last use: `put` and a hit set it to the current tick and put the
node first; nothing else touches stamps.  After every operation sequence the ring is strictly ordered by last
use, most recent first. -/
theorem ring_ordered_by_last_use (n : Int) (t0 : Nat) (ops : List Op) :
    (reachL n t0 ops).ring.Pairwise (fun a b => b.stamp < a.stamp) :=
  (invL_run (initL n t0) ops (invL_init n t0)).stamps.1

/-- "evicts strictly least-recently-used first": after any operation sequence, every entry a `put` evicts was
used strictly earlier than every entry it keeps. -/
theorem evicts_lru_first (n : Int) (t0 : Nat) (ops : List Op) (k : Key) (a : Ans)
    (e : Node) (he : e ∈ (reachL n t0 ops).ring) (hek : e.key ≠ k)
    (hev : e ∉ (stepL (reachL n t0 ops) (.put k a)).1.ring)
    (r : Node) (hr : r ∈ (stepL (reachL n t0 ops) (.put k a)).1.ring) (hrk : r.key ≠ k) :
    e.stamp < r.stamp := by
  have hinv := invL_run (initL n t0) ops (invL_init n t0)
  rw [put_evicts_exactly_lru_tail] at hev hr
  have hR : e ∈ removeKey (reachL n t0 ops).ring k := mem_removeKey.mpr ⟨he, hek⟩
  have hsorted := hinv.stamps.1.sublist (removeKey_sublist (reachL n t0 ops).ring k)
  rw [← List.take_append_drop ((reachL n t0 ops).maxSize - 1) (removeKey (reachL n t0 ops).ring k)] at hR hsorted
  have hr' : r ∈ (removeKey (reachL n t0 ops).ring k).take ((reachL n t0 ops).maxSize - 1) := by
    rcases List.mem_cons.mp hr with e' | hm
    · subst e'; exact absurd rfl hrk
    · exact hm
  have he' : e ∈ (removeKey (reachL n t0 ops).ring k).drop ((reachL n t0 ops).maxSize - 1) := by
    rcases List.mem_append.mp hR with hm | hm
    · exact absurd (List.mem_cons_of_mem _ hm) hev
    · exact hm
  exact (List.pairwise_append.mp hsorted).2.2 r hr' e he'

/-- … and nothing is evicted unless the cache is full. -/
theorem evicts_only_when_full (n : Int) (t0 : Nat) (ops : List Op) (k : Key) (a : Ans)
    (hfull : (removeKey (reachL n t0 ops).ring k).length < (reachL n t0 ops).maxSize)
    (e : Node) (he : e ∈ (reachL n t0 ops).ring) (hek : e.key ≠ k) :
    e ∈ (stepL (reachL n t0 ops) (.put k a)).1.ring := by
  rw [put_evicts_exactly_lru_tail, List.take_of_length_le (by omega)]
  exact List.mem_cons_of_mem _ (mem_removeKey.mpr ⟨he, hek⟩)

example : ((reachL 2 0 [.put 0 ⟨0, 9⟩, .put 1 ⟨1, 9⟩, .get 0, .put 2 ⟨2, 9⟩]).ring.map (·.key)) = [2, 0] := by decide

/-! ## counters -/

/-- "hit/miss counters account for every lookup exactly once" — `Cache`: after any sequence the counters are what
one gets by adding one hit per lookup that returned an answer and one miss per lookup that did not (restarting
at `reset_statistics`). -/
theorem counters_exact_cache (iv t0 : Nat) (ops : List Op) :
    ((reachC iv t0 ops).hits, (reachC iv t0 ops).misses) =
      countersSpec (0, 0) (ops.zip (runC (initC iv t0) ops).2) :=
  runC_counters (initC iv t0) ops

/-- the same for `LRUCache`, both variants. -/
theorem counters_exact_lru (n : Int) (t0 : Nat) (ops : List Op) :
    ((reachL n t0 ops).hits, (reachL n t0 ops).misses) =
      countersSpec (0, 0) (ops.zip (runL (initL n t0) ops).2) :=
  runL_counters (initL n t0) ops

/-- without a reset, hits + misses is the number of lookups. -/
theorem hits_plus_misses_cache (iv t0 : Nat) (ops : List Op) (h : ∀ op ∈ ops, isReset op = false) :
    (reachC iv t0 ops).hits + (reachC iv t0 ops).misses = (ops.filter isGet).length := by
  have hc := counters_exact_cache iv t0 ops
  have hs := countersSpec_sum (0, 0) (ops.zip (runC (initC iv t0) ops).2)
    (fun p hp => h p.1 (List.of_mem_zip hp).1)
  rw [← hc] at hs
  simp only [Nat.zero_add] at hs
  rw [hs, filter_zip_fst isGet ops _ (runC_length _ ops)]

theorem hits_plus_misses_lru (n : Int) (t0 : Nat) (ops : List Op) (h : ∀ op ∈ ops, isReset op = false) :
    (reachL n t0 ops).hits + (reachL n t0 ops).misses = (ops.filter isGet).length := by
  have hc := counters_exact_lru n t0 ops
  have hs := countersSpec_sum (0, 0) (ops.zip (runL (initL n t0) ops).2)
    (fun p hp => h p.1 (List.of_mem_zip hp).1)
  rw [← hc] at hs
  simp only [Nat.zero_add] at hs
  rw [hs, filter_zip_fst isGet ops _ (runL_length _ ops)]

example : ((reachL 2 0 [.put 0 ⟨0, 9⟩, .get 0, .get 1, .adv 9, .get 0]).hits,
           (reachL 2 0 [.put 0 ⟨0, 9⟩, .get 0, .get 1, .adv 9, .get 0]).misses) = (1, 2) := by decide

/-! ## many threads, one lock -/

/-- "every concurrent history is equivalent to some sequential one": for any sequential object `step`, any
number of threads with any programs and **any schedule**, the lock-protected system is, at every moment:
(1) in the state the sequential object reaches by running the bodies in the order they ran, with the same
results; (2) each thread holds exactly the results of its own operations in that run; (3) that order is the
lock-acquisition order (equal to it whenever the lock is free); (4) it respects every thread's program order. -/
theorem linearizable {σ : Type} (step : σ → Op → σ × Out) (s0 : σ) (progs : Nat → List Op) (sched : List Nat) :
    let y := sysRun step (sysInit s0 progs) sched
    runG step s0 (y.ran.map (fun e => e.2.1)) = (y.shared, y.ran.map (fun e => e.2.2)) ∧
    (∀ j, (y.threads j).outs = (y.ran.filter (fun e => e.1 = j)).map (fun e => e.2.2)) ∧
    (y.ran.map keyOf <+: y.acq) ∧ (y.lock = none → y.ran.map keyOf = y.acq) ∧
    (∀ j, ∃ rest, (y.acq.filter (fun e => e.1 = j)).map (fun e => e.2) ++ rest = progs j) := by
  intro y
  have h := sysInv_run step s0 progs (sysInit s0 progs) sched (sysInv_init step s0 progs)
  refine ⟨h.seq, h.outs, ?_, ?_, fun j => ⟨_, h.order j⟩⟩
  · have hm := h.mutex
    cases hl : (sysRun step (sysInit s0 progs) sched).lock with
    | none => rw [hl] at hm; exact hm.2 ▸ List.prefix_refl _
    | some k =>
      rw [hl] at hm
      rcases hm.2 with ⟨_, op, rest, _, ha⟩ | ⟨_, ha⟩
      · exact ha ▸ List.prefix_append _ _
      · exact ha ▸ List.prefix_refl _
  · intro hl
    have hm := h.mutex
    rw [hl] at hm
    exact hm.2

/-- mutual exclusion: at any moment at most one thread is inside a cache method's critical section. -/
theorem mutual_exclusion {σ : Type} (step : σ → Op → σ × Out) (s0 : σ) (progs : Nat → List Op) (sched : List Nat)
    (j k : Nat) (hj : ((sysRun step (sysInit s0 progs) sched).threads j).phase ≠ .idle)
    (hk : ((sysRun step (sysInit s0 progs) sched).threads k).phase ≠ .idle) : j = k := by
  have h := (sysInv_run step s0 progs (sysInit s0 progs) sched (sysInv_init step s0 progs)).mutex
  cases hl : (sysRun step (sysInit s0 progs) sched).lock with
  | none => rw [hl] at h; exact absurd (h.1 j) hj
  | some i =>
    rw [hl] at h
    have e1 : j = i := Classical.byContradiction fun hne => hj (h.1 j hne)
    have e2 : k = i := Classical.byContradiction fun hne => hk (h.1 k hne)
    rw [e1, e2]

/-- instance: several threads on one `LRUCache` see the sequential `LRUCache` run in acquisition order. -/
theorem linearizable_lru (n : Int) (t0 : Nat) (progs : Nat → List Op) (sched : List Nat) :
    let y := sysRun (stepL) (sysInit (initL n t0) progs) sched
    y.lock = none →
      runL (initL n t0) (y.acq.map (fun e => e.2)) = (y.shared, y.ran.map (fun e => e.2.2)) := by
  intro y hl
  have h := linearizable (stepL) (initL n t0) progs sched
  have hacq : y.acq.map (fun e => e.2) = y.ran.map (fun e => e.2.1) := by
    rw [← h.2.2.2.1 hl, List.map_map]; rfl
  rw [runL_eq_runG, hacq]; exact h.1

/-- instance: the same for `Cache`. -/
theorem linearizable_cache (iv t0 : Nat) (progs : Nat → List Op) (sched : List Nat) :
    let y := sysRun stepC (sysInit (initC iv t0) progs) sched
    y.lock = none →
      runC (initC iv t0) (y.acq.map (fun e => e.2)) = (y.shared, y.ran.map (fun e => e.2.2)) := by
  intro y hl
  have h := linearizable stepC (initC iv t0) progs sched
  have hacq : y.acq.map (fun e => e.2) = y.ran.map (fun e => e.2.1) := by
    rw [← h.2.2.2.1 hl, List.map_map]; rfl
  rw [runC_eq_runG, hacq]; exact h.1

/-! ### the finer model: `acquire; steps…; release`, nothing atomic by construction

In `MSys` every command of every thread is a step of its own and the scheduler may pick any thread at any moment:
argument evaluation, each statement of a method body (statistics reads of `hits()` / `misses()` /
`get_hits_for_key`, the three statements of `_maybe_clean`, `node.unlink()`, the expiry test, `link_after`, the
counter updates, …) and the return.  A shared access (`acc`) is executed **whether or not** the thread holds the
lock; what protects the cache is only the discipline of the code (`disc`: shared accesses lie between the single
`acquire` and the single `release` of the call) — the thing the access monitor checks on the real methods. -/

/-- "every concurrent history is equivalent to some sequential one", from the lock discipline: if every call keeps
the discipline and, run alone, is the sequential operation it stands for (`Good`), then for any number of threads,
any programs and **any schedule**, at every moment
(1) with the lock free, the shared state is the sequential object after the operations in lock-acquisition order;
(2) each thread has received (or, having left its critical section, is about to return) exactly the results that
    sequential run gives to its own operations;
(3) **the discipline is an invariant of the run**: a thread whose next command touches shared state holds the lock. -/
theorem linearizable_fine {σ ρ : Type} (step : σ → Op → σ × Out) (s0 : σ) (progs : Nat → List (Call σ ρ))
    (hg : ∀ j, ∀ c ∈ progs j, Good step c) (sched : List Nat) :
    let y := mRun (mInit s0 progs) sched
    (y.lock = none → y.shared = (runG step s0 (y.acq.map (·.2))).1) ∧
    (∀ j, (y.threads j).outs ++ pending (y.threads j) = outsOf step s0 (doneOps y) j) ∧
    (∀ j r f k, (y.threads j).cur = some r → r.rest = .acc f :: k → y.lock = some j) := by
  intro y
  have h := mInv_run step s0 (mInit s0 progs) sched (mInv_init step s0 progs hg)
  refine ⟨fun hl => ?_, h.outs, fun j r f k hr he => ?_⟩
  · have := h.lockSt; rw [hl] at this; exact this
  · exact holder_cur step s0 _ j h r hr (by rw [he]; rfl) (by rw [he]; rfl)

/-- the methods of `LRUCache`, statement by statement (`codeL`), keep the discipline and implement `stepL`; so any
threads running any sequences of them under any schedule see the sequential `LRUCache` in acquisition order. -/
theorem linearizable_fine_lru (n : Int) (t0 : Nat) (progs : Nat → List Op) (sched : List Nat) :
    let y := mRun (mInit (initL n t0) (fun j => (progs j).map callL)) sched
    (y.lock = none → y.shared = (runL (initL n t0) (y.acq.map (·.2))).1) ∧
    (∀ j, (y.threads j).outs ++ pending (y.threads j) = outsOf stepL (initL n t0) (doneOps y) j) ∧
    (∀ j r f k, (y.threads j).cur = some r → r.rest = .acc f :: k → y.lock = some j) := by
  intro y
  have h := linearizable_fine stepL (initL n t0) (fun j => (progs j).map callL)
    (fun j c hc => by obtain ⟨op, _, rfl⟩ := List.mem_map.mp hc; exact good_callL op) sched
  refine ⟨fun hl => ?_, h.2.1, h.2.2⟩
  rw [runL_eq_runG]; exact h.1 hl

/-- the same for `Cache` (`codeC`, including `_maybe_clean` statement by statement). -/
theorem linearizable_fine_cache (iv t0 : Nat) (progs : Nat → List Op) (sched : List Nat) :
    let y := mRun (mInit (initC iv t0) (fun j => (progs j).map callC)) sched
    (y.lock = none → y.shared = (runC (initC iv t0) (y.acq.map (·.2))).1) ∧
    (∀ j, (y.threads j).outs ++ pending (y.threads j) = outsOf stepC (initC iv t0) (doneOps y) j) ∧
    (∀ j r f k, (y.threads j).cur = some r → r.rest = .acc f :: k → y.lock = some j) := by
  intro y
  have h := linearizable_fine stepC (initC iv t0) (fun j => (progs j).map callC)
    (fun j c hc => by obtain ⟨op, _, rfl⟩ := List.mem_map.mp hc; exact good_callC op) sched
  refine ⟨fun hl => ?_, h.2.1, h.2.2⟩
  rw [runC_eq_runG]; exact h.1 hl

/-- the hypothesis is needed: a `hits()` that reads the counter *before* taking the lock breaks the discipline
(`disc` rejects it), so `linearizable_fine` does not apply to it. -/
example : disc (σ := LState) (ρ := Regs) .pre
    [.acc (fun r s => ({ r with n := s.hits }, s)), .acquire, .release, .loc (fun r => { r with out := .num r.n })] = false := rfl

/-- two threads, alternating command by command: thread 1's `get` runs between thread 0's `put` and `hits()` -/
example :
    (mRun (mInit (initL 2 0) (fun j => if j = 0 then [callL (.put 0 ⟨5, 9⟩), callL .hits]
        else if j = 1 then [callL (.get 0), callL (.setMax 1)] else [])) ((List.range 40).map (· % 2))).acq
      = [(0, .put 0 ⟨5, 9⟩), (1, .get 0), (0, .hits), (1, .setMax 1)] := by decide

/-- two threads, a schedule where thread 1 gets the lock between thread 0's two operations -/
example :
    (sysRun (stepL) (sysInit (initL 2 0) (fun j => if j = 0 then [.put 0 ⟨5, 9⟩, .get 1] else if j = 1 then [.put 1 ⟨6, 9⟩] else []))
      [0, 1, 0, 1, 0, 1, 1, 1, 0, 0, 0]).acq = [(0, .put 0 ⟨5, 9⟩), (1, .put 1 ⟨6, 9⟩), (0, .get 1)] := by decide

end C17

import Proofs.XfrFault
/-!
# C13 — Inbound AXFR/IXFR converges to the server's zone or leaves the zone untouched

Theorems of record about `Model.Xfr` (the model of `dns/xfr.py` `Inbound` driven by the message loop of
`dns.query._inbound_xfr`).  `run fix c z0 msgs` is what a caller observes after
`with Inbound(...) as inbound: for each message until done: inbound.process_message(m)`: the exception
(if any) and the zone afterwards.  `fix = false` is the code as shipped, `fix = true` the repaired
decision point of DESIGN §6 D11 (surplus after the final SOA is refused *before* committing); the
check learns at run time which of the two the working tree implements and demands correspondence with it.
Zones are compared as sets of records (`≃z`).

* convergence: `axfr_converges`, `ixfr_converges` (any chain length, any chunking), `axfr_style_ixfr`,
  `up_to_date_noop`, `udp_ixfr`;
* `fault_unchanged`, as a family — each fault class an explicit transformer on accepted (in particular:
  all valid) streams, result = an error **and** the zone before: `fault_truncate` (ends early, final SOA
  dropped), `fault_header` (+ `fault_header_rcode`, `fault_header_question`), `fault_wrong_base_serial`,
  `fault_backwards_serial`, `fault_use_tcp`, `fault_surplus_after_final_soa`, `fault_axfr_first_not_soa`
  (first SOA dropped or swapped), `fault_duplicate_deletion`;
* atomicity: `error_implies_unapplied` (all message sequences; repaired variant),
  `error_implies_unapplied_partial` + `as_shipped_differs_only_by_commit` +
  `surplus_after_final_soa_as_shipped` (shipped variant: the defect D11, proved in general and at a witness);
* `serialLt_asymm`, `serialLt_ahead` (RFC 1982), `extract_of_make`.

Faults that the protocol cannot detect (a dropped non-SOA record of an AXFR, a duplicated first SOA of an
AXFR in its own message, …) complete without error in the code and in the model alike; for them only
atomicity and the correspondence are claimed.
-/
namespace C13
open Model.Xfr

/-- **AXFR converges.**  "Feeding an inbound transfer any valid AXFR … response stream (… any division of
the record stream into messages) leaves the zone equal to the server's target version with its serial."
For every version `v`, every zone content before, every division of `SOA, body, SOA` into messages. -/
theorem axfr_converges (fix : Bool) (o : Name) (v : Version) (z0 : Zone) (ser : Option Nat) (msgs : List Msg)
    (hb : BodyOk o v.body) (hc : Chunks ⟨some o, axfrType, ser, false⟩ (axfrStream o v) msgs) :
    (run fix ⟨some o, axfrType, ser, false⟩ z0 msgs).err = none ∧
      (run fix ⟨some o, axfrType, ser, false⟩ z0 msgs).zone ≃z zoneOf o v ∧
      (run fix ⟨some o, axfrType, ser, false⟩ z0 msgs).zone.serial o = some v.soa.serial := by
  obtain ⟨s', hf, hd, hz, hs⟩ := axfr_flat o v z0 ser hb
  rw [both_variants (run_of_flat rfl hc hf hd) fix]
  exact ⟨rfl, hz, hs⟩

/-- **IXFR converges**, chains of any length, any division into messages.  `v0 :: vs` is the chain of zone
versions from the one we hold to the server's current one; the response carries, per RFC 1995, the
difference sequences between consecutive versions.  Side conditions: the versions are servable, no older
version carries the final SOA, the server is not behind us (RFC 1982). -/
theorem ixfr_converges (fix : Bool) (o : Name) (v0 : Version) (vs : List Version) (z0 : Zone) (msgs : List Msg)
    (hne : vs ≠ []) (hz0 : z0 ≃z zoneOf o v0) (hv0 : WfVersion o v0) (hvs : ∀ v ∈ vs, WfVersion o v)
    (hdist : ∀ v ∈ (v0 :: vs).dropLast, v.soa ≠ (lastVersion v0 vs).soa)
    (hs1 : (lastVersion v0 vs).soa.serial ≠ v0.soa.serial)
    (hs2 : serialLt (lastVersion v0 vs).soa.serial v0.soa.serial = false)
    (hc : Chunks ⟨some o, ixfrType, some v0.soa.serial, false⟩ (ixfrStream o v0.soa (diffSteps v0 vs)) msgs) :
    (run fix ⟨some o, ixfrType, some v0.soa.serial, false⟩ z0 msgs).err = none ∧
      (run fix ⟨some o, ixfrType, some v0.soa.serial, false⟩ z0 msgs).zone ≃z zoneOf o (lastVersion v0 vs) ∧
      (run fix ⟨some o, ixfrType, some v0.soa.serial, false⟩ z0 msgs).zone.serial o =
        some (lastVersion v0 vs).soa.serial := by
  have hl := lastSoa_diffSteps vs v0
  have hsteps : diffSteps v0 vs ≠ [] := by cases vs <;> simp_all [diffSteps]
  have hok := stepsOk_diff (dn := (lastVersion v0 vs).soa) vs v0 z0 hz0 hv0 hvs hdist
  have hlast : WfVersion o (lastVersion v0 vs) := by
    clear hok hsteps hl hc hs1 hs2 hdist hz0 hne
    induction vs generalizing v0 with
    | nil => exact hv0
    | cons b rest ih => exact ih b (hvs b (by simp)) (fun v hv => hvs v (by simp [hv]))
  have hf := ixfr_flat o v0.soa (diffSteps v0 vs) z0 false hsteps (by rw [hl]; exact hs1) (by rw [hl]; exact hs2)
    (by rw [hl]; exact hok.1)
  rw [both_variants (run_of_flat rfl hc hf rfl) fix]
  refine ⟨rfl, ?_, ?_⟩
  · rw [fin_zone, hl]; exact putSoa_same hok.2 hlast.body
  · rw [fin_zone, hl]; exact serial_putSoa o _ _

/-- **AXFR-style answer to an IXFR request** ("AXFR-style answers to an IXFR request"): the increments
collected so far are rolled back, a replacement transaction takes the full zone. -/
theorem axfr_style_ixfr (fix : Bool) (o : Name) (v : Version) (z0 : Zone) (b : Nat) (msgs : List Msg)
    (hb : BodyOk o v.body) (hne : v.body ≠ []) (hs1 : v.soa.serial ≠ b) (hs2 : serialLt v.soa.serial b = false)
    (hc : Chunks ⟨some o, ixfrType, some b, false⟩ (axfrStream o v) msgs) :
    (run fix ⟨some o, ixfrType, some b, false⟩ z0 msgs).err = none ∧
      (run fix ⟨some o, ixfrType, some b, false⟩ z0 msgs).zone ≃z zoneOf o v ∧
      (run fix ⟨some o, ixfrType, some b, false⟩ z0 msgs).zone.serial o = some v.soa.serial := by
  obtain ⟨s', hf, hd, hz, hs⟩ := axfr_style_flat o v z0 b hb hne hs1 hs2
  rw [both_variants (run_of_flat rfl hc hf hd) fix]
  exact ⟨rfl, hz, hs⟩

/-- **The already-up-to-date answer** leaves the zone as it is and raises nothing (TCP or UDP). -/
theorem up_to_date_noop (fix : Bool) (o : Name) (z0 : Zone) (d : Rdata) (udp : Bool) (m : Msg) (more : List Msg)
    (hh : headerErrOf o ixfrType m = none) (ha : m.answer = [soaRR o d]) :
    run fix ⟨some o, ixfrType, some d.serial, udp⟩ z0 (m :: more) = ⟨none, z0⟩ :=
  uptodate_run fix o z0 d udp m more hh ha

/-- **UDP IXFR**: the whole response in one datagram converges like the TCP one. -/
theorem udp_ixfr (fix : Bool) (o : Name) (v0 : Version) (vs : List Version) (z0 : Zone) (m : Msg)
    (hne : vs ≠ []) (hz0 : z0 ≃z zoneOf o v0) (hv0 : WfVersion o v0) (hvs : ∀ v ∈ vs, WfVersion o v)
    (hdist : ∀ v ∈ (v0 :: vs).dropLast, v.soa ≠ (lastVersion v0 vs).soa)
    (hs1 : (lastVersion v0 vs).soa.serial ≠ v0.soa.serial)
    (hs2 : serialLt (lastVersion v0 vs).soa.serial v0.soa.serial = false)
    (hc : Chunks ⟨some o, ixfrType, some v0.soa.serial, true⟩ (ixfrStream o v0.soa (diffSteps v0 vs)) [m]) :
    (run fix ⟨some o, ixfrType, some v0.soa.serial, true⟩ z0 [m]).err = none ∧
      (run fix ⟨some o, ixfrType, some v0.soa.serial, true⟩ z0 [m]).zone ≃z zoneOf o (lastVersion v0 vs) := by
  have hl := lastSoa_diffSteps vs v0
  have hsteps : diffSteps v0 vs ≠ [] := by cases vs <;> simp_all [diffSteps]
  have hok := stepsOk_diff (dn := (lastVersion v0 vs).soa) vs v0 z0 hz0 hv0 hvs hdist
  have hlast : WfVersion o (lastVersion v0 vs) := by
    clear hok hsteps hl hc hs1 hs2 hdist hz0 hne
    induction vs generalizing v0 with
    | nil => exact hv0
    | cons b rest ih => exact ih b (hvs b (by simp)) (fun v hv => hvs v (by simp [hv]))
  have hf := ixfr_flat o v0.soa (diffSteps v0 vs) z0 true hsteps (by rw [hl]; exact hs1) (by rw [hl]; exact hs2)
    (by rw [hl]; exact hok.1)
  have hshape : ∃ r1 rest, ixfrStream o v0.soa (diffSteps v0 vs) = soaRR o (lastSoa v0.soa (diffSteps v0 vs)) :: r1 :: rest := by
    cases hds : diffSteps v0 vs with
    | nil => exact absurd hds hsteps
    | cons st rest => exact ⟨_, _, rfl⟩
  obtain ⟨r1, rest, hsh⟩ := hshape
  rw [hsh] at hc hf
  rw [both_variants (run_udp_single hc hf rfl) fix]
  exact ⟨rfl, by rw [fin_zone, hl]; exact putSoa_same hok.2 hlast.body⟩

/-- **UseTCP**: the truncated UDP answer (a lone, newer SOA) raises `UseTCP`; the zone is as it was. -/
theorem fault_use_tcp (fix : Bool) (o : Name) (z0 : Zone) (d : Rdata) (b : Nat) (m : Msg) (more : List Msg)
    (hh : headerErrOf o ixfrType m = none) (ha : m.answer = [soaRR o d])
    (hs1 : d.serial ≠ b) (hs2 : serialLt d.serial b = false) :
    run fix ⟨some o, ixfrType, some b, true⟩ z0 (m :: more) = ⟨some .UseTCP, z0⟩ :=
  udp_truncated_run fix o z0 d b m more hh ha hs1 hs2

/-- **Serial going backwards** (RFC 1982): raises `SerialWentBackwards`, whatever follows; zone as it was. -/
theorem fault_backwards_serial (fix : Bool) (o : Name) (z0 : Zone) (d : Rdata) (b : Nat) (udp : Bool) (m : Msg)
    (rest : List RRset) (more : List Msg) (hh : headerErrOf o ixfrType m = none)
    (ha : m.answer = soaRR o d :: rest) (hs1 : d.serial ≠ b) (hs2 : serialLt d.serial b = true) :
    run fix ⟨some o, ixfrType, some b, udp⟩ z0 (m :: more) = ⟨some .SerialWentBackwards, z0⟩ :=
  backwards_run fix o z0 d b udp m rest more hh ha hs1 hs2

/-- **An error is never reported for a transfer that was applied** — repaired variant, every configuration,
every sequence of messages whatsoever (valid, faulty, adversarial): if anything is raised, the zone is
exactly the zone before. -/
theorem error_implies_unapplied (c : Config) (z0 : Zone) (msgs : List Msg) (e : XErr)
    (h : (run true c z0 msgs).err = some e) : (run true c z0 msgs).zone = z0 :=
  run_fix_atomic c z0 msgs e h

/-- The same for the code as shipped, outside the trigger class of D11: every exception other than
`FormError` leaves the zone exactly as it was.  (Full statement — without `hne` — fails: see
`surplus_after_final_soa_as_shipped`.) -/
theorem error_implies_unapplied_partial (c : Config) (z0 : Zone) (msgs : List Msg) (e : XErr)
    (h : (run false c z0 msgs).err = some e) (hne : e ≠ .FormError) : (run false c z0 msgs).zone = z0 := by
  rcases run_variants c z0 msgs with eq | ⟨hf, _⟩
  · rw [eq] at h ⊢; exact run_fix_atomic c z0 msgs e h
  · rw [h] at hf; cases hf; exact absurd rfl hne

/-- … and a `FormError` of the shipped code that left the zone changed is one where the repaired code
raises `FormError` with the zone untouched: the two differ in nothing else. -/
theorem as_shipped_differs_only_by_commit (c : Config) (z0 : Zone) (msgs : List Msg) :
    run false c z0 msgs = run true c z0 msgs ∨
      ((run false c z0 msgs).err = some .FormError ∧ run true c z0 msgs = ⟨some .FormError, z0⟩) := by
  rcases run_variants c z0 msgs with eq | ⟨hf, ht⟩
  · exact Or.inl eq
  · refine Or.inr ⟨hf, ?_⟩
    have hz := run_fix_atomic c z0 msgs _ ht
    cases hr : run true c z0 msgs with
    | mk err zone => rw [hr] at ht hz; simp at ht hz; rw [ht, hz]

/-- **D11, the defect of the shipped code**: an AXFR whose final SOA is followed by one more rrset in the
same message is committed *and then* reported as `FormError` — for every version, every zone before. -/
theorem surplus_after_final_soa_as_shipped (o : Name) (v : Version) (z0 : Zone) (ser : Option Nat) (x : RRset)
    (m : Msg) (hb : BodyOk o v.body) (hr : m.rcode = 0) (hq : m.question = [])
    (ha : m.answer = axfrStream o v ++ [x]) :
    (run false ⟨some o, axfrType, ser, false⟩ z0 [m]).err = some .FormError ∧
      (run false ⟨some o, axfrType, ser, false⟩ z0 [m]).zone ≃z zoneOf o v ∧
      run true ⟨some o, axfrType, ser, false⟩ z0 [m] = ⟨some .FormError, z0⟩ := by
  obtain ⟨s', hf, hd, hz, _⟩ := axfr_flat o v z0 ser hb
  have hc : Chunks ⟨some o, axfrType, ser, false⟩ (soaRR o v.soa :: ((v.body ++ [soaRR o v.soa]) ++ [x])) [m] :=
    ⟨by simp [ha, axfrStream], by simp [hr, hq], by simp [ha, axfrStream]⟩
  have hrun : run false ⟨some o, axfrType, ser, false⟩ z0 [m] = ⟨some .FormError, s'.zone⟩ := by
    rw [run_single_tcp rfl hc]
    unfold flatRun axfrStream at hf
    unfold flatRun
    cases hi : Inbound.init (some o) z0 axfrType ser false with
    | error e => rw [hi] at hf; cases hf
    | ok s0 =>
      rw [hi] at hf
      simp only [] at hf ⊢
      cases h1 : firstSoa (openTxn s0) (soaRR o v.soa) false with
      | error e => rw [h1] at hf; cases hf
      | ok s1 =>
        rw [h1] at hf
        simp only [] at hf ⊢
        rw [procAnswers_append, hf]
        simp [procAnswers, procRRset, hd]
  refine ⟨by rw [hrun], by rw [hrun]; exact hz, ?_⟩
  rcases as_shipped_differs_only_by_commit ⟨some o, axfrType, ser, false⟩ z0 [m] with eq | ⟨_, ht⟩
  · have he : (run true ⟨some o, axfrType, ser, false⟩ z0 [m]).err = some .FormError := by rw [← eq, hrun]
    have hz0 := run_fix_atomic _ z0 [m] _ he
    cases hr' : run true ⟨some o, axfrType, ser, false⟩ z0 [m] with
    | mk err zone => rw [hr'] at he hz0; simp at he hz0; rw [he, hz0]
  · exact ht

/-! ## explicit fault transformers on accepted streams

`Accepted c z0 recs`: the machine, fed `recs` flat over TCP, completes.  Every valid stream is accepted
(`axfr_accepted`, `ixfr_accepted`, `axfr_style_accepted`), so the theorems below speak about every valid
AXFR, IXFR and AXFR-style stream, every division into messages, and the fault at every position. -/

theorem axfr_accepted (o : Name) (v : Version) (z0 : Zone) (ser : Option Nat) (hb : BodyOk o v.body) :
    Accepted ⟨some o, axfrType, ser, false⟩ z0 (axfrStream o v) := by
  obtain ⟨s', hf, hd, _⟩ := axfr_flat o v z0 ser hb
  exact ⟨s', hf, hd⟩

theorem axfr_style_accepted (o : Name) (v : Version) (z0 : Zone) (b : Nat) (hb : BodyOk o v.body)
    (hne : v.body ≠ []) (hs1 : v.soa.serial ≠ b) (hs2 : serialLt v.soa.serial b = false) :
    Accepted ⟨some o, ixfrType, some b, false⟩ z0 (axfrStream o v) := by
  obtain ⟨s', hf, hd, _⟩ := axfr_style_flat o v z0 b hb hne hs1 hs2
  exact ⟨s', hf, hd⟩

theorem ixfr_accepted (o : Name) (v0 : Version) (vs : List Version) (z0 : Zone)
    (hne : vs ≠ []) (hz0 : z0 ≃z zoneOf o v0) (hv0 : WfVersion o v0) (hvs : ∀ v ∈ vs, WfVersion o v)
    (hdist : ∀ v ∈ (v0 :: vs).dropLast, v.soa ≠ (lastVersion v0 vs).soa)
    (hs1 : (lastVersion v0 vs).soa.serial ≠ v0.soa.serial)
    (hs2 : serialLt (lastVersion v0 vs).soa.serial v0.soa.serial = false) :
    Accepted ⟨some o, ixfrType, some v0.soa.serial, false⟩ z0 (ixfrStream o v0.soa (diffSteps v0 vs)) := by
  have hl := lastSoa_diffSteps vs v0
  have hsteps : diffSteps v0 vs ≠ [] := by cases vs <;> simp_all [diffSteps]
  have hok := stepsOk_diff (dn := (lastVersion v0 vs).soa) vs v0 z0 hz0 hv0 hvs hdist
  exact ⟨_, ixfr_flat o v0.soa (diffSteps v0 vs) z0 false hsteps (by rw [hl]; exact hs1) (by rw [hl]; exact hs2)
    (by rw [hl]; exact hok.1), rfl⟩

/-- **Ends early / truncated / final SOA dropped**: only the first `k` records of an accepted stream
arrive (any `k` short of the whole, any division into messages): the run raises (end of stream) and the
zone is exactly the zone before. -/
theorem fault_truncate (fix : Bool) (c : Config) (z0 : Zone) (recs : List RRset) (k : Nat) (msgs : List Msg)
    (hu : c.isUdp = false) (hacc : Accepted c z0 recs) (hk : k < recs.length)
    (hc : Chunks c (recs.take k) msgs) :
    run fix c z0 msgs = ⟨some .EOF, z0⟩ := by
  obtain ⟨s', hf, _⟩ := hacc
  apply both_variants_err
  cases k with
  | zero =>
    have hm : msgs = [] := by
      cases msgs with
      | nil => rfl
      | cons m ms =>
        have h1 := hc.first m (by simp)
        have h2 := hc.flat
        simp at h2
        exact absurd h2.1 h1
    subst hm
    unfold flatRun at hf
    unfold run
    cases hi : Inbound.init c.origin z0 c.rdtype c.serial c.isUdp with
    | error e => rw [hi] at hf; cases hf
    | ok s0 => simp [runLoop, (init_props hi).2.2.2.1]
  | succ k =>
    obtain ⟨s'', h2, hd2⟩ := flatRun_take (k + 1) hf (by omega) hk
    exact run_of_flat_eof hu hc h2 hd2

/-- **Non-zero rcode / wrong question** on any message of any division of an accepted stream (a message
that is read: records are still due when it arrives): the run raises `TransferError` resp. `FormError`
and the zone is exactly the zone before. -/
theorem fault_header (fix : Bool) (c : Config) (o : Name) (z0 : Zone) (recs : List RRset)
    (pre post : List Msg) (m m' : Msg) (e : XErr)
    (hu : c.isUdp = false) (ho : c.origin = some o) (hacc : Accepted c z0 recs)
    (hc : Chunks c recs (pre ++ m :: post)) (htail : (m :: post).flatMap (·.answer) ≠ [])
    (he : headerErrOf o c.rdtype m' = some e) :
    run fix c z0 (pre ++ m' :: post) = ⟨some e, z0⟩ := by
  obtain ⟨s', hf, _⟩ := hacc
  exact both_variants_err (run_header_fault hu ho hc hf htail he) fix

/-- the two header faults are instances: -/
theorem fault_header_rcode (o : Name) (t : Nat) (m : Msg) (h : m.rcode ≠ 0) :
    headerErrOf o t m = some .TransferError := by
  simp [headerErrOf, h]

theorem fault_header_question (o : Name) (t : Nat) (m : Msg) (q : Name × Nat) (rest : List (Name × Nat))
    (hr : m.rcode = 0) (hq : m.question = q :: rest) (hbad : q.1 ≠ o ∨ q.2 ≠ t) :
    headerErrOf o t m = some .FormError := by
  unfold headerErrOf
  rw [hq]
  rcases hbad with h | h
  · simp [hr, h]
  · by_cases h1 : q.1 = o <;> simp [hr, h, h1]

/-- **Surplus after the final SOA in the same message** (any division of an accepted stream, any rrsets
appended to the message that holds the final SOA).  Repaired code: `FormError`, zone exactly as before.
Shipped code: the same `FormError`, *after* the transfer was committed (D11). -/
theorem fault_surplus_after_final_soa (c : Config) (z0 : Zone) (recs : List RRset) (pre : List Msg) (m : Msg)
    (extra : List RRset) (s' : Inbound)
    (hu : c.isUdp = false) (hf : flatRun c z0 recs = .ok s') (hd : s'.done = true)
    (hc : Chunks c recs (pre ++ [m])) (hm : m.answer ≠ []) (hx : extra ≠ []) :
    run true c z0 (pre ++ [{ m with answer := m.answer ++ extra }]) = ⟨some .FormError, z0⟩ ∧
      run false c z0 (pre ++ [{ m with answer := m.answer ++ extra }]) = ⟨some .FormError, s'.zone⟩ := by
  have h := run_surplus_shipped hu hc hf hd hm hx
  exact ⟨repaired_of_shipped_formError h, h⟩

/-- **Wrong base serial**: a valid IXFR response for a chain that starts at `cur`, received by a client
that asked for a different serial `b` (and is neither up to date nor ahead): the run raises
(`FormError`, base serial mismatch) at the first difference sequence, whatever the division into
messages; the zone is exactly the zone before. -/
theorem fault_wrong_base_serial (fix : Bool) (o : Name) (cur : Rdata) (steps : List Step) (z0 : Zone) (b : Nat)
    (msgs : List Msg) (hne : steps ≠ []) (hcur : cur ≠ lastSoa cur steps)
    (hb1 : b ≠ cur.serial) (hb2 : (lastSoa cur steps).serial ≠ b) (hb3 : serialLt (lastSoa cur steps).serial b = false)
    (hc : Chunks ⟨some o, ixfrType, some b, false⟩ (ixfrStream o cur steps) msgs) :
    run fix ⟨some o, ixfrType, some b, false⟩ z0 msgs = ⟨some .FormError, z0⟩ := by
  apply both_variants_err
  cases steps with
  | nil => exact absurd rfl hne
  | cons st rest =>
    have hshape : ixfrStream o cur (st :: rest) =
        soaRR o (lastSoa cur (st :: rest)) :: ([] ++ soaRR o cur ::
          (st.dels.map single ++ (soaRR o st.soa :: (st.adds.map single ++ ixfrSteps o st.soa rest)) ++
            [soaRR o (lastSoa cur (st :: rest))])) := by
      simp [ixfrStream, ixfrSteps]
    rw [hshape] at hc
    have h0 : Inbound.init (some o) z0 ixfrType (some b) false =
        .ok ⟨o, ixfrType, true, some b, false, none, false, false, false, none, z0⟩ := by
      simp [Inbound.init]
    have hf : flatRun ⟨some o, ixfrType, some b, false⟩ z0 (soaRR o (lastSoa cur (st :: rest)) :: []) =
        .ok (mid o ixfrType true (some b) false (soaRR o (lastSoa cur (st :: rest))) true false ⟨z0, false⟩ z0) := by
      unfold flatRun
      simp only [h0]
      simp [firstSoa, openTxn, writer, mid, hb2, hb3, procAnswers]
    refine run_of_flat_raises rfl hc hf rfl ?_
    have hfin : isFinalSoa (mid o ixfrType true (some b) false (soaRR o (lastSoa cur (st :: rest))) true false ⟨z0, false⟩ z0)
        (soaRR o cur) = false := by
      simp [isFinalSoa, eqFirst, mid, rrsetEq_soaRR, hcur]
    unfold procRRset
    simp only [hfin]
    have : cur.serial ≠ b := fun h => hb1 h.symm
    simp [mid, procOtherSoa, nextDm, this]

/-- **AXFR that does not start with the SOA** (first SOA dropped, or swapped with the record after it):
`FormError`, zone exactly as before. -/
theorem fault_axfr_first_not_soa (fix : Bool) (o : Name) (z0 : Zone) (ser : Option Nat) (m0 : Msg) (ms : List Msg)
    (rr0 : RRset) (rest0 : List RRset) (hr : m0.rcode = 0) (hq : m0.question = [])
    (ha : m0.answer = rr0 :: rest0) (hns : rr0.rdtype ≠ soaType ∨ rr0.owner ≠ o) :
    run fix ⟨some o, axfrType, ser, false⟩ z0 (m0 :: ms) = ⟨some .FormError, z0⟩ := by
  have h0 : Inbound.init (some o) z0 axfrType ser false =
      .ok ⟨o, axfrType, false, ser, false, none, false, false, false, none, z0⟩ := by
    simp [Inbound.init, axfrType, ixfrType]
  refine run_first_err (z := z0) h0 (by simp [headerErr, headerErrOf, hr, hq]) ha ?_
  unfold firstSoa
  by_cases h1 : rr0.owner = o
  · have h2 : rr0.rdtype ≠ soaType := hns.elim id (fun h => absurd h1 h)
    simp [openTxn, h1, h2]
  · simp [openTxn, h1]

/-- **A deletion sent twice** (IXFR, first difference sequence, any position `j`): the second copy cannot
be exact — `DeleteNotExact`, zone exactly as before — whatever the division into messages. -/
theorem fault_duplicate_deletion (fix : Bool) (o : Name) (cur : Rdata) (st : Step) (rest : List Step) (z0 : Zone)
    (j : Nat) (d : RR) (tail : List RRset) (msgs : List Msg)
    (hok : StepsOk o (lastSoa cur (st :: rest)) cur z0 (st :: rest)) (hj : st.dels[j]? = some d)
    (hs1 : (lastSoa cur (st :: rest)).serial ≠ cur.serial)
    (hs2 : serialLt (lastSoa cur (st :: rest)).serial cur.serial = false)
    (hc : Chunks ⟨some o, ixfrType, some cur.serial, false⟩
      (soaRR o (lastSoa cur (st :: rest)) ::
        ((soaRR o cur :: (st.dels.take (j + 1)).map single) ++ single d :: tail)) msgs) :
    run fix ⟨some o, ixfrType, some cur.serial, false⟩ z0 msgs = ⟨some .DeleteNotExact, z0⟩ := by
  apply both_variants_err
  obtain ⟨hne, hdel, hnd, _, _⟩ := hok
  have hsub : ∀ r ∈ st.dels.take (j + 1), r ∈ st.dels := fun r hr => List.mem_of_mem_take hr
  obtain ⟨c1, h1⟩ := mid_dels (fix := false) (o := o) (t := ixfrType) (ser := some cur.serial) (udp := false)
    (f := soaRR o (lastSoa cur (st :: rest))) (z := z0) (st.dels.take (j + 1)) ⟨z0, false⟩
    (fun r hr => hdel r (hsub r hr)) (hnd.sublist (List.take_sublist _ _))
  have h0 : Inbound.init (some o) z0 ixfrType (some cur.serial) false =
      .ok ⟨o, ixfrType, true, some cur.serial, false, none, false, false, false, none, z0⟩ := by
    simp [Inbound.init]
  have hfs : firstSoa (openTxn ⟨o, ixfrType, true, some cur.serial, false, none, false, false, false, none, z0⟩)
      (soaRR o (lastSoa cur (st :: rest))) false =
      .ok (mid o ixfrType true (some cur.serial) false (soaRR o (lastSoa cur (st :: rest))) true false ⟨z0, false⟩ z0) := by
    simp [firstSoa, openTxn, writer, mid, hs1, hs2]
  have hf : flatRun ⟨some o, ixfrType, some cur.serial, false⟩ z0
      (soaRR o (lastSoa cur (st :: rest)) :: (soaRR o cur :: (st.dels.take (j + 1)).map single)) =
      .ok (mid o ixfrType true (some cur.serial) false (soaRR o (lastSoa cur (st :: rest))) false true
        ⟨delAll z0 (st.dels.take (j + 1)), c1⟩ z0) := by
    unfold flatRun
    simp only [h0, hfs]
    rw [procAnswers, mid_delstart hne rfl]
    simp only []
    exact h1
  refine run_of_flat_raises rfl hc hf rfl ?_
  have hdm : d ∈ st.dels.take (j + 1) := by
    rw [List.mem_take_iff_getElem]
    have hjl : j < st.dels.length := by
      rcases Nat.lt_or_ge j st.dels.length with h | h
      · exact h
      · rw [List.getElem?_eq_none h] at hj; cases hj
    refine ⟨j, by omega, ?_⟩
    rw [List.getElem?_eq_getElem hjl] at hj
    exact Option.some.inj hj
  have hdd := hdel d (hsub d hdm)
  have hnot : d ∉ delAll z0 (st.dels.take (j + 1)) := fun h => ((mem_delAll _ _ _).1 h).2 hdm
  have h1' : (single d).rdtype ≠ soaType := hdd.1
  have h2' : isSubdomain (single d).owner o = true := hdd.2.1
  simp [mid, procRRset, h1', fallbackState, fallbackTxn, procData, h2', txnDeleteExact, recsOf_single, hnot]
  simp [single]

/-! ## RFC 1982 comparison and the query helpers -/

/-- `Serial(a) < b` is irreflexive and asymmetric (RFC 1982 §3.2), so "went backwards" and "is ahead"
exclude each other -/
theorem serialLt_asymm (a b : Nat) : serialLt a b = true → serialLt b a = false := by
  unfold serialLt two32 two31
  simp only [Bool.or_eq_true, Bool.and_eq_true, decide_eq_true_eq, Bool.or_eq_false_iff, Bool.and_eq_false_iff,
    decide_eq_false_iff_not]
  omega

/-- a server that is `k` increments ahead, `0 < k < 2^31`, is never "behind" — also across the wrap at 2^32 -/
theorem serialLt_ahead (a k : Nat) (hk : 0 < k) (hk2 : k < 2147483648) :
    serialLt ((a + k) % 4294967296) a = false ∧ (a + k) % 4294967296 ≠ a % 4294967296 := by
  unfold serialLt two32 two31
  simp only [Bool.or_eq_false_iff, Bool.and_eq_false_iff, decide_eq_false_iff_not]
  omega

/-- `extract_serial_from_query(make_query(zone, serial)[0])` is the serial `make_query` announces -/
theorem extract_of_make (origin : Option Name) (z : Zone) (ser : Option Int) (t : Nat) (s : Option Nat)
    (h : makeQuery origin z ser = .ok (t, s)) : extractSerial t s = .ok s := by
  unfold makeQuery at h
  repeat' split at h
  all_goals first
    | (cases h; done)
    | (cases h; simp [extractSerial, axfrType, ixfrType])

/-! ## non-vacuity -/

def exO : Name := [[101, 120], []]
def exV0 : Version := ⟨⟨4294967294, 0⟩, [⟨exO, 2, [⟨0, 1⟩]⟩, ⟨[[97], [101, 120], []], 1, [⟨0, 2⟩, ⟨0, 3⟩]⟩]⟩
def exV1 : Version := ⟨⟨4294967295, 0⟩, [⟨exO, 2, [⟨0, 1⟩]⟩, ⟨[[97], [101, 120], []], 1, [⟨0, 3⟩]⟩, ⟨[[98], [101, 120], []], 28, [⟨0, 4⟩]⟩]⟩
def exV2 : Version := ⟨⟨1, 7⟩, [⟨exO, 2, [⟨0, 1⟩]⟩, ⟨[[98], [101, 120], []], 28, [⟨0, 4⟩, ⟨0, 5⟩]⟩]⟩

/-- the hypotheses of `ixfr_converges` are met by a two-step chain (one record removed, rrsets added and
extended; serials wrapping around 2^32), cut into three messages, and the model indeed ends in the last version -/
example : exV1.soa ≠ exV2.soa ∧ serialLt exV2.soa.serial exV0.soa.serial = false ∧
    BodyOk exO exV0.body ∧ (recsOfAll exV1.body).Nodup ∧
    (let recs := ixfrStream exO exV0.soa (diffSteps exV0 [exV1, exV2])
     let msgs : List Msg := [⟨0, [], recs.take 2⟩, ⟨0, [(exO, ixfrType)], (recs.drop 2).take 3⟩, ⟨0, [], recs.drop 5⟩]
     recs.length = 10 ∧ run false ⟨some exO, ixfrType, some 4294967294, false⟩ (zoneOf exO exV0) msgs =
       ⟨none, putSoa exO (applyAll exO (zoneOf exO exV0) (diffSteps exV0 [exV1, exV2])) exV2.soa⟩) := by
  refine ⟨by decide, by decide, ?_, by decide, by decide⟩
  intro rs hrs
  simp only [exV0, List.mem_cons, List.not_mem_nil, or_false] at hrs
  rcases hrs with rfl | rfl <;> decide

/-- D11 at a concrete witness (the corpus case): shipped code commits and raises, repaired code only raises -/
example :
    let soa := soaRR exO ⟨2, 0⟩
    let m : Msg := ⟨0, [], [soa, ⟨exO, 2, [⟨0, 1⟩]⟩, soa, ⟨[[120], [101, 120], []], 1, [⟨0, 9⟩]⟩]⟩
    run false ⟨some exO, axfrType, none, false⟩ [] [m] = ⟨some .FormError, [⟨exO, 2, ⟨0, 1⟩⟩, ⟨exO, 6, ⟨2, 0⟩⟩]⟩ ∧
    run true ⟨some exO, axfrType, none, false⟩ [] [m] = ⟨some .FormError, []⟩ := by
  decide

end C13

import Proofs.XfrConv
/-!
# C13 — Inbound AXFR/IXFR converges to the server's zone or leaves the zone untouched

Theorems of record about `Model.Xfr` (the model of `dns/xfr.py` `Inbound` driven by the message loop of
`dns.query._inbound_xfr`).  `run fix c z0 msgs` is what a caller observes after
`with Inbound(...) as inbound: for each message until done: inbound.process_message(m)`: the exception
(if any) and the zone afterwards.  `fix = false` is the code as shipped, `fix = true` the repaired
decision point of DESIGN §6 D11 (surplus after the final SOA is refused *before* committing); the
check learns at run time which of the two the working tree implements and demands correspondence with it.
Zones are compared as sets of records (`≃z`).
-/
namespace C13
open Model.Xfr

/-- a result that raised nothing is the same in both variants -/
private theorem both_variants {c : Config} {z0 : Zone} {msgs : List Msg} {z : Zone}
    (h : run false c z0 msgs = ⟨none, z⟩) (fix : Bool) : run fix c z0 msgs = ⟨none, z⟩ := by
  cases fix with
  | false => exact h
  | true =>
    rcases run_variants c z0 msgs with e | ⟨e, _⟩
    · rw [← e]; exact h
    · rw [h] at e; cases e

/-- **AXFR converges.**  "Feeding an inbound transfer any valid AXFR … response stream (… any division of
the record stream into messages) leaves the zone equal to the server's target version with its serial."
For every version `v`, every zone content before, every division of `SOA, body, SOA` into messages. -/
theorem axfr_converges (fix : Bool) (o : Name) (v : Version) (z0 : Zone) (ser : Option Nat) (msgs : List Msg)
    (hb : BodyOk o v.body) (hc : Chunks ⟨some o, axfrType, ser, false⟩ (axfrStream o v) msgs) :
    (run fix ⟨some o, axfrType, ser, false⟩ z0 msgs).err = none ∧
      (run fix ⟨some o, axfrType, ser, false⟩ z0 msgs).zone ≃z zoneOf o v ∧
      (run fix ⟨some o, axfrType, ser, false⟩ z0 msgs).zone.serial o = some v.soa.serial := by
  obtain ⟨s', hf, hd, hz, hs⟩ := axfr_flat o v z0 ser hb
  rw [both_variants (run_of_flat rfl hc hf hd) fix]
  exact ⟨rfl, hz, hs⟩

/-- **IXFR converges**, chains of any length, any division into messages.  `v0 :: vs` is the chain of zone
versions from the one we hold to the server's current one; the response carries, per RFC 1995, the
difference sequences between consecutive versions.  Side conditions: the versions are servable, no older
version carries the final SOA, the server is not behind us (RFC 1982). -/
theorem ixfr_converges (fix : Bool) (o : Name) (v0 : Version) (vs : List Version) (z0 : Zone) (msgs : List Msg)
    (hne : vs ≠ []) (hz0 : z0 ≃z zoneOf o v0) (hv0 : WfVersion o v0) (hvs : ∀ v ∈ vs, WfVersion o v)
    (hdist : ∀ v ∈ (v0 :: vs).dropLast, v.soa ≠ (lastVersion v0 vs).soa)
    (hs1 : (lastVersion v0 vs).soa.serial ≠ v0.soa.serial)
    (hs2 : serialLt (lastVersion v0 vs).soa.serial v0.soa.serial = false)
    (hc : Chunks ⟨some o, ixfrType, some v0.soa.serial, false⟩ (ixfrStream o v0.soa (diffSteps v0 vs)) msgs) :
    (run fix ⟨some o, ixfrType, some v0.soa.serial, false⟩ z0 msgs).err = none ∧
      (run fix ⟨some o, ixfrType, some v0.soa.serial, false⟩ z0 msgs).zone ≃z zoneOf o (lastVersion v0 vs) ∧
      (run fix ⟨some o, ixfrType, some v0.soa.serial, false⟩ z0 msgs).zone.serial o =
        some (lastVersion v0 vs).soa.serial := by
  have hl := lastSoa_diffSteps vs v0
  have hsteps : diffSteps v0 vs ≠ [] := by cases vs <;> simp_all [diffSteps]
  have hok := stepsOk_diff (dn := (lastVersion v0 vs).soa) vs v0 z0 hz0 hv0 hvs hdist
  have hlast : WfVersion o (lastVersion v0 vs) := by
    clear hok hsteps hl hc hs1 hs2 hdist hz0 hne
    induction vs generalizing v0 with
    | nil => exact hv0
    | cons b rest ih => exact ih b (hvs b (by simp)) (fun v hv => hvs v (by simp [hv]))
  have hf := ixfr_flat o v0.soa (diffSteps v0 vs) z0 false hsteps (by rw [hl]; exact hs1) (by rw [hl]; exact hs2)
    (by rw [hl]; exact hok.1)
  rw [both_variants (run_of_flat rfl hc hf rfl) fix]
  refine ⟨rfl, ?_, ?_⟩
  · rw [fin_zone, hl]; exact putSoa_same hok.2 hlast.body
  · rw [fin_zone, hl]; exact serial_putSoa o _ _

/-- **AXFR-style answer to an IXFR request** ("AXFR-style answers to an IXFR request"): the increments
collected so far are rolled back, a replacement transaction takes the full zone. -/
theorem axfr_style_ixfr (fix : Bool) (o : Name) (v : Version) (z0 : Zone) (b : Nat) (msgs : List Msg)
    (hb : BodyOk o v.body) (hne : v.body ≠ []) (hs1 : v.soa.serial ≠ b) (hs2 : serialLt v.soa.serial b = false)
    (hc : Chunks ⟨some o, ixfrType, some b, false⟩ (axfrStream o v) msgs) :
    (run fix ⟨some o, ixfrType, some b, false⟩ z0 msgs).err = none ∧
      (run fix ⟨some o, ixfrType, some b, false⟩ z0 msgs).zone ≃z zoneOf o v ∧
      (run fix ⟨some o, ixfrType, some b, false⟩ z0 msgs).zone.serial o = some v.soa.serial := by
  obtain ⟨s', hf, hd, hz, hs⟩ := axfr_style_flat o v z0 b hb hne hs1 hs2
  rw [both_variants (run_of_flat rfl hc hf hd) fix]
  exact ⟨rfl, hz, hs⟩

/-- **The already-up-to-date answer** leaves the zone as it is and raises nothing (TCP or UDP). -/
theorem up_to_date_noop (fix : Bool) (o : Name) (z0 : Zone) (d : Rdata) (udp : Bool) (m : Msg) (more : List Msg)
    (hr : m.rcode = 0) (hq : m.question = []) (ha : m.answer = [soaRR o d]) :
    run fix ⟨some o, ixfrType, some d.serial, udp⟩ z0 (m :: more) = ⟨none, z0⟩ :=
  uptodate_run fix o z0 d udp m more hr hq ha

/-- **UDP IXFR**: the whole response in one datagram converges like the TCP one. -/
theorem udp_ixfr (fix : Bool) (o : Name) (v0 : Version) (vs : List Version) (z0 : Zone) (m : Msg)
    (hne : vs ≠ []) (hz0 : z0 ≃z zoneOf o v0) (hv0 : WfVersion o v0) (hvs : ∀ v ∈ vs, WfVersion o v)
    (hdist : ∀ v ∈ (v0 :: vs).dropLast, v.soa ≠ (lastVersion v0 vs).soa)
    (hs1 : (lastVersion v0 vs).soa.serial ≠ v0.soa.serial)
    (hs2 : serialLt (lastVersion v0 vs).soa.serial v0.soa.serial = false)
    (hc : Chunks ⟨some o, ixfrType, some v0.soa.serial, true⟩ (ixfrStream o v0.soa (diffSteps v0 vs)) [m]) :
    (run fix ⟨some o, ixfrType, some v0.soa.serial, true⟩ z0 [m]).err = none ∧
      (run fix ⟨some o, ixfrType, some v0.soa.serial, true⟩ z0 [m]).zone ≃z zoneOf o (lastVersion v0 vs) := by
  have hl := lastSoa_diffSteps vs v0
  have hsteps : diffSteps v0 vs ≠ [] := by cases vs <;> simp_all [diffSteps]
  have hok := stepsOk_diff (dn := (lastVersion v0 vs).soa) vs v0 z0 hz0 hv0 hvs hdist
  have hlast : WfVersion o (lastVersion v0 vs) := by
    clear hok hsteps hl hc hs1 hs2 hdist hz0 hne
    induction vs generalizing v0 with
    | nil => exact hv0
    | cons b rest ih => exact ih b (hvs b (by simp)) (fun v hv => hvs v (by simp [hv]))
  have hf := ixfr_flat o v0.soa (diffSteps v0 vs) z0 true hsteps (by rw [hl]; exact hs1) (by rw [hl]; exact hs2)
    (by rw [hl]; exact hok.1)
  have hshape : ∃ r1 rest, ixfrStream o v0.soa (diffSteps v0 vs) = soaRR o (lastSoa v0.soa (diffSteps v0 vs)) :: r1 :: rest := by
    cases hds : diffSteps v0 vs with
    | nil => exact absurd hds hsteps
    | cons st rest => exact ⟨_, _, rfl⟩
  obtain ⟨r1, rest, hsh⟩ := hshape
  rw [hsh] at hc hf
  rw [both_variants (run_udp_single hc hf rfl) fix]
  exact ⟨rfl, by rw [fin_zone, hl]; exact putSoa_same hok.2 hlast.body⟩

/-- **UseTCP**: the truncated UDP answer (a lone, newer SOA) raises `UseTCP`; the zone is as it was. -/
theorem fault_use_tcp (fix : Bool) (o : Name) (z0 : Zone) (d : Rdata) (b : Nat) (m : Msg) (more : List Msg)
    (hr : m.rcode = 0) (hq : m.question = []) (ha : m.answer = [soaRR o d])
    (hs1 : d.serial ≠ b) (hs2 : serialLt d.serial b = false) :
    run fix ⟨some o, ixfrType, some b, true⟩ z0 (m :: more) = ⟨some .UseTCP, z0⟩ :=
  udp_truncated_run fix o z0 d b m more hr hq ha hs1 hs2

/-- **Serial going backwards** (RFC 1982): raises `SerialWentBackwards`, whatever follows; zone as it was. -/
theorem fault_backwards_serial (fix : Bool) (o : Name) (z0 : Zone) (d : Rdata) (b : Nat) (udp : Bool) (m : Msg)
    (rest : List RRset) (more : List Msg) (hr : m.rcode = 0) (hq : m.question = [])
    (ha : m.answer = soaRR o d :: rest) (hs1 : d.serial ≠ b) (hs2 : serialLt d.serial b = true) :
    run fix ⟨some o, ixfrType, some b, udp⟩ z0 (m :: more) = ⟨some .SerialWentBackwards, z0⟩ :=
  backwards_run fix o z0 d b udp m rest more hr hq ha hs1 hs2

/-- **An error is never reported for a transfer that was applied** — repaired variant, every configuration,
every sequence of messages whatsoever (valid, faulty, adversarial): if anything is raised, the zone is
exactly the zone before. -/
theorem error_implies_unapplied (c : Config) (z0 : Zone) (msgs : List Msg) (e : XErr)
    (h : (run true c z0 msgs).err = some e) : (run true c z0 msgs).zone = z0 :=
  run_fix_atomic c z0 msgs e h

/-- The same for the code as shipped, outside the trigger class of D11: every exception other than
`FormError` leaves the zone exactly as it was.  (Full statement — without `hne` — fails: see
`surplus_after_final_soa_as_shipped`.) -/
theorem error_implies_unapplied_partial (c : Config) (z0 : Zone) (msgs : List Msg) (e : XErr)
    (h : (run false c z0 msgs).err = some e) (hne : e ≠ .FormError) : (run false c z0 msgs).zone = z0 := by
  rcases run_variants c z0 msgs with eq | ⟨hf, _⟩
  · rw [eq] at h ⊢; exact run_fix_atomic c z0 msgs e h
  · rw [h] at hf; cases hf; exact absurd rfl hne

/-- … and a `FormError` of the shipped code that left the zone changed is one where the repaired code
raises `FormError` with the zone untouched: the two differ in nothing else. -/
theorem as_shipped_differs_only_by_commit (c : Config) (z0 : Zone) (msgs : List Msg) :
    run false c z0 msgs = run true c z0 msgs ∨
      ((run false c z0 msgs).err = some .FormError ∧ run true c z0 msgs = ⟨some .FormError, z0⟩) := by
  rcases run_variants c z0 msgs with eq | ⟨hf, ht⟩
  · exact Or.inl eq
  · refine Or.inr ⟨hf, ?_⟩
    have hz := run_fix_atomic c z0 msgs _ ht
    cases hr : run true c z0 msgs with
    | mk err zone => rw [hr] at ht hz; simp at ht hz; rw [ht, hz]

/-- **D11, the defect of the shipped code**: an AXFR whose final SOA is followed by one more rrset in the
same message is committed *and then* reported as `FormError` — for every version, every zone before. -/
theorem surplus_after_final_soa_as_shipped (o : Name) (v : Version) (z0 : Zone) (ser : Option Nat) (x : RRset)
    (m : Msg) (hb : BodyOk o v.body) (hr : m.rcode = 0) (hq : m.question = [])
    (ha : m.answer = axfrStream o v ++ [x]) :
    (run false ⟨some o, axfrType, ser, false⟩ z0 [m]).err = some .FormError ∧
      (run false ⟨some o, axfrType, ser, false⟩ z0 [m]).zone ≃z zoneOf o v ∧
      run true ⟨some o, axfrType, ser, false⟩ z0 [m] = ⟨some .FormError, z0⟩ := by
  obtain ⟨s', hf, hd, hz, _⟩ := axfr_flat o v z0 ser hb
  have hc : Chunks ⟨some o, axfrType, ser, false⟩ (soaRR o v.soa :: ((v.body ++ [soaRR o v.soa]) ++ [x])) [m] :=
    ⟨by simp [ha, axfrStream], by simp [hr, hq], by simp [ha, axfrStream]⟩
  have hrun : run false ⟨some o, axfrType, ser, false⟩ z0 [m] = ⟨some .FormError, s'.zone⟩ := by
    rw [run_single_tcp rfl hc]
    unfold flatRun axfrStream at hf
    unfold flatRun
    cases hi : Inbound.init (some o) z0 axfrType ser false with
    | error e => rw [hi] at hf; cases hf
    | ok s0 =>
      rw [hi] at hf
      simp only [] at hf ⊢
      cases h1 : firstSoa (openTxn s0) (soaRR o v.soa) false with
      | error e => rw [h1] at hf; cases hf
      | ok s1 =>
        rw [h1] at hf
        simp only [] at hf ⊢
        rw [procAnswers_append, hf]
        simp [procAnswers, procRRset, hd]
  refine ⟨by rw [hrun], by rw [hrun]; exact hz, ?_⟩
  rcases as_shipped_differs_only_by_commit ⟨some o, axfrType, ser, false⟩ z0 [m] with eq | ⟨_, ht⟩
  · have he : (run true ⟨some o, axfrType, ser, false⟩ z0 [m]).err = some .FormError := by rw [← eq, hrun]
    have hz0 := run_fix_atomic _ z0 [m] _ he
    cases hr' : run true ⟨some o, axfrType, ser, false⟩ z0 [m] with
    | mk err zone => rw [hr'] at he hz0; simp at he hz0; rw [he, hz0]
  · exact ht

/-! ## non-vacuity -/

def exO : Name := [[101, 120], []]
def exV0 : Version := ⟨⟨4294967294, 0⟩, [⟨exO, 2, [⟨0, 1⟩]⟩, ⟨[[97], [101, 120], []], 1, [⟨0, 2⟩, ⟨0, 3⟩]⟩]⟩
def exV1 : Version := ⟨⟨4294967295, 0⟩, [⟨exO, 2, [⟨0, 1⟩]⟩, ⟨[[97], [101, 120], []], 1, [⟨0, 3⟩]⟩, ⟨[[98], [101, 120], []], 28, [⟨0, 4⟩]⟩]⟩
def exV2 : Version := ⟨⟨1, 7⟩, [⟨exO, 2, [⟨0, 1⟩]⟩, ⟨[[98], [101, 120], []], 28, [⟨0, 4⟩, ⟨0, 5⟩]⟩]⟩

/-- the hypotheses of `ixfr_converges` are met by a two-step chain (one record removed, rrsets added and
extended; serials wrapping around 2^32), cut into three messages, and the model indeed ends in the last version -/
example : exV1.soa ≠ exV2.soa ∧ serialLt exV2.soa.serial exV0.soa.serial = false ∧
    BodyOk exO exV0.body ∧ (recsOfAll exV1.body).Nodup ∧
    (let recs := ixfrStream exO exV0.soa (diffSteps exV0 [exV1, exV2])
     let msgs : List Msg := [⟨0, [], recs.take 2⟩, ⟨0, [(exO, ixfrType)], (recs.drop 2).take 3⟩, ⟨0, [], recs.drop 5⟩]
     recs.length = 10 ∧ run false ⟨some exO, ixfrType, some 4294967294, false⟩ (zoneOf exO exV0) msgs =
       ⟨none, putSoa exO (applyAll exO (zoneOf exO exV0) (diffSteps exV0 [exV1, exV2])) exV2.soa⟩) := by
  refine ⟨by decide, by decide, ?_, by decide, by decide⟩
  intro rs hrs
  simp only [exV0, List.mem_cons, List.not_mem_nil, or_false] at hrs
  rcases hrs with rfl | rfl <;> decide

/-- D11 at a concrete witness (the corpus case): shipped code commits and raises, repaired code only raises -/
example :
    let soa := soaRR exO ⟨2, 0⟩
    let m : Msg := ⟨0, [], [soa, ⟨exO, 2, [⟨0, 1⟩]⟩, soa, ⟨[[120], [101, 120], []], 1, [⟨0, 9⟩]⟩]⟩
    run false ⟨some exO, axfrType, none, false⟩ [] [m] = ⟨some .FormError, [⟨exO, 2, ⟨0, 1⟩⟩, ⟨exO, 6, ⟨2, 0⟩⟩]⟩ ∧
    run true ⟨some exO, axfrType, none, false⟩ [] [m] = ⟨some .FormError, []⟩ := by
  decide

end C13

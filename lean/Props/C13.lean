import Proofs.XfrFault2
import Proofs.XfrWire
/-!
# C13 — Inbound AXFR/IXFR converges to the server's zone or leaves the zone untouched

Theorems of record about `Model.Xfr` (the model of `dns/xfr.py` `Inbound` driven by the message loop of
`dns.query._inbound_xfr`).  `run true c z0 msgs` is what a caller of the code **as it is** observes after
`with Inbound(...) as inbound: for each message until done: inbound.process_message(m)`: the exception
(if any) and the zone afterwards.  (`run false` is the same loop without the look-ahead that refuses
surplus rrsets before committing — the code before commit 3feda1c; it only appears in
`repair_changed_only_d11` and `before_repair_surplus_was_committed`, the record of what the repair changed.)
Zones are sets of records `(owner, type, rdata, ttl)` compared by `≃z`: "equal to the server's target
version" includes the TTLs.  Versions are coherent zones (`Coherent`: one TTL per rrset, a CNAME never next
to other data, one rdata per singleton type), which is what makes the model's `put` — with the CNAME
exclusion of `dns.node` and the TTL/singleton rules of `dns.rdataset` — act as plain set insertion.

* convergence: `axfr_converges`, `axfr_ignores_serial`, `axfr_converges_with_out_of_zone`, `ixfr_converges`, `ixfr_denotes`, `axfr_style_ixfr`, `up_to_date_noop`,
  `udp_ixfr`, `usetcp_retry_converges` (+ `query_of_zone`, `query_of_supplied`, `udp_outcome_final`);
* atomicity: `error_implies_unapplied` (unconditional), `early_exit_leaves_zone`, `exit_never_commits`; `repair_changed_only_d11`,
  `before_repair_surplus_was_committed` (historical record);
* `fault_unchanged`, as a family over accepted streams / well-formed responses (`IxfrAt`), every position,
  every chunking: `fault_truncate`, `fault_header` (+`_rcode`, `_question`), `fault_surplus_after_final_soa`,
  `fault_first_not_apex_soa`, `fault_wrong_base_serial`, `fault_backwards_serial`, `fault_use_tcp`, `fault_udp_incomplete`,
  `fault_duplicate_deletion`, `fault_addition_in_delete_mode` (add-start SOA dropped / swapped with the first
  addition), `fault_drop_delstart_soa` (dropped or type-corrupted), `fault_drop_first_delstart_soa_nodels`,
  `fault_drop_first_delstart_soa_dels`, `drop_first_delstart_soa_single_step`, `drop_addstart_soa_without_additions`,
  `fault_drop_first_soa_ixfr`, `fault_nonapex_soa_in_add_mode`, `fault_nonapex_soa_in_delete_mode`,
  `fault_axfr_nonapex_soa`;
* undetectable faults, result = what the stream denotes: `fault_drop_axfr_record_denotes`,
  `fault_drop_deletion_denotes`, `fault_swap_deletion_across_boundary`;
* through wire format: `wire_keeps_order_from_soa`, `wire_ixfr_one_rr`, `ixfr_wire_converges`,
  `axfr_wire_converges`;
* `consts_ok`, `serialLt_asymm`, `serialLt_ahead`, `extract_of_make`.
-/
namespace C13
open Model.Xfr

/-- the type codes and tables the model is instantiated with are the ones the code has now -/
theorem consts_ok : ConstsC13.soa = soaType ∧ ConstsC13.axfr = axfrType ∧ ConstsC13.ixfr = ixfrType ∧
    kindOf soaType = .regular ∧ isSingleton soaType = true ∧ kindOf 5 = .cname ∧ isSingleton 5 = true ∧
    kindOf (46 + 65536 * 5) = .cname ∧ kindOf 47 = .neutral ∧ kindOf 1 = .regular := by
  decide

/-- **AXFR converges.**  "Feeding an inbound transfer any valid AXFR … response stream (… any division of
the record stream into messages) leaves the zone equal to the server's target version with its serial."
For every coherent version `v` (TTLs and CNAMEs included), every zone content before, every division of
`SOA, body, SOA` into messages. -/
theorem axfr_converges (o : Name) (v : Version) (z0 : Zone) (ser : Option Nat) (msgs : List Msg)
    (hb : BodyOk o v.body) (hco : Coherent (zoneOf o v))
    (hc : Chunks ⟨some o, axfrType, ser, false⟩ (axfrStream o v) msgs) :
    (run true ⟨some o, axfrType, ser, false⟩ z0 msgs).err = none ∧
      (run true ⟨some o, axfrType, ser, false⟩ z0 msgs).zone ≃z zoneOf o v ∧
      (run true ⟨some o, axfrType, ser, false⟩ z0 msgs).zone.serial o = some v.soa.rdata.serial := by
  obtain ⟨s', hf, hd, hz⟩ := axfr_flat o v z0 ser hb hco
  rw [both_variants (run_of_flat rfl hc hf hd) true]
  exact ⟨rfl, hz, serial_of_equiv hz hb⟩

/-- **AXFR with glue outside the zone converges to the part of the version that belongs to the zone**:
"Ignore glue that is not a subdomain of the origin" — rrsets whose owner is outside the zone may sit
anywhere in the body (any division into messages); they are skipped and the zone ends as the in-zone part
of what the server sent, with its serial. -/
theorem axfr_converges_with_out_of_zone (o : Name) (v : Version) (z0 : Zone) (ser : Option Nat) (msgs : List Msg)
    (hb : BodyOkOoz v.body) (hco : Coherent (zoneOf o ⟨v.soa, inZone o v.body⟩))
    (hc : Chunks ⟨some o, axfrType, ser, false⟩ (axfrStream o v) msgs) :
    (run true ⟨some o, axfrType, ser, false⟩ z0 msgs).err = none ∧
      (run true ⟨some o, axfrType, ser, false⟩ z0 msgs).zone ≃z zoneOf o ⟨v.soa, inZone o v.body⟩ ∧
      (run true ⟨some o, axfrType, ser, false⟩ z0 msgs).zone.serial o = some v.soa.rdata.serial := by
  obtain ⟨s', hf, hd, hz⟩ := axfr_flat_ooz o v z0 ser hb hco
  rw [both_variants (run_of_flat rfl hc hf hd) true]
  exact ⟨rfl, hz, serial_of_equiv (v := ⟨v.soa, inZone o v.body⟩) hz (bodyOk_inZone hb)⟩

/-- **An AXFR is unconditional: it ignores any serial handed to `Inbound`.**  Whatever serial the caller
passes with `rdtype=AXFR` — its local one, `0` as the classic `dns.query.xfr` route always does, one equal
to, behind (RFC 1982) or more than 2^31 away from the server's — exception and zone are those of
`serial=None`, for every sequence of messages; so `axfr_converges` and every AXFR fault theorem hold for
every `ser`. -/
theorem axfr_ignores_serial (origin : Option Name) (ser : Option Nat) (udp : Bool) (z0 : Zone) (msgs : List Msg) :
    run true ⟨origin, axfrType, ser, udp⟩ z0 msgs = run true ⟨origin, axfrType, none, udp⟩ z0 msgs :=
  run_axfr_serial true origin ser udp z0 msgs

/-- **IXFR converges**, chains of any length, any division into messages.  `v0 :: vs` is the chain of zone
versions from the one we hold to the server's current one; the response carries, per RFC 1995, the
difference sequences between consecutive versions (on records with their TTLs: an rrset whose TTL changes
is deleted and added again; an A replaced by a CNAME is deleted, then the CNAME added).  Side conditions:
the versions are servable, no older version carries the final SOA, the server is not behind us (RFC 1982). -/
theorem ixfr_converges (o : Name) (v0 : Version) (vs : List Version) (z0 : Zone) (msgs : List Msg)
    (hne : vs ≠ []) (hz0 : z0 ≃z zoneOf o v0) (hv0 : WfVersion o v0) (hvs : ∀ v ∈ vs, WfVersion o v)
    (hdist : ∀ v ∈ (v0 :: vs).dropLast, v.soa.rdata ≠ (lastVersion v0 vs).soa.rdata)
    (hs1 : (lastVersion v0 vs).soa.rdata.serial ≠ v0.soa.rdata.serial)
    (hs2 : serialLt (lastVersion v0 vs).soa.rdata.serial v0.soa.rdata.serial = false)
    (hc : Chunks ⟨some o, ixfrType, some v0.soa.rdata.serial, false⟩ (ixfrStream o v0.soa (diffSteps v0 vs)) msgs) :
    (run true ⟨some o, ixfrType, some v0.soa.rdata.serial, false⟩ z0 msgs).err = none ∧
      (run true ⟨some o, ixfrType, some v0.soa.rdata.serial, false⟩ z0 msgs).zone ≃z zoneOf o (lastVersion v0 vs) ∧
      (run true ⟨some o, ixfrType, some v0.soa.rdata.serial, false⟩ z0 msgs).zone.serial o =
        some (lastVersion v0 vs).soa.rdata.serial := by
  obtain ⟨s', hf, hd, hz⟩ := ixfr_versions_flat o v0 vs z0 false hne hz0 hv0 hvs hdist hs1 hs2
  rw [both_variants (run_of_flat rfl hc hf hd) true]
  exact ⟨rfl, hz, serial_of_equiv hz (wf_lastVersion vs v0 hv0 hvs).body⟩

/-- **What an IXFR stream denotes.**  For *any* difference sequences (not only the ones a correct server
computes) that can be applied — deletions name present records once, additions are data of the zone, the
zones passed through are coherent — the transfer completes and the zone is exactly what applying the
sequences to the zone before gives, under the final SOA.  (A server that omits a deletion, or a stream in
which a record moved across the delete/add boundary, is believed: the result is the zone the stream
denotes, which need not be the server's.) -/
theorem ixfr_denotes (o : Name) (cur : Soa) (steps : List Step) (z0 : Zone) (msgs : List Msg) (hne : steps ≠ [])
    (hs1 : (lastSoa cur steps).rdata.serial ≠ cur.rdata.serial)
    (hs2 : serialLt (lastSoa cur steps).rdata.serial cur.rdata.serial = false)
    (hc0 : Coherent z0) (hok : StepsOk o (lastSoa cur steps) cur z0 steps)
    (hc : Chunks ⟨some o, ixfrType, some cur.rdata.serial, false⟩ (ixfrStream o cur steps) msgs) :
    (run true ⟨some o, ixfrType, some cur.rdata.serial, false⟩ z0 msgs).err = none ∧
      (run true ⟨some o, ixfrType, some cur.rdata.serial, false⟩ z0 msgs).zone ≃z
        putSoa o (applyAll o z0 steps) (lastSoa cur steps) := by
  obtain ⟨zf, hf, hq⟩ := ixfr_flat o cur steps z0 false hne hs1 hs2 hc0 hok
  rw [both_variants (run_of_flat rfl hc hf rfl) true]
  exact ⟨rfl, hq⟩

/-- **AXFR-style answer to an IXFR request** ("AXFR-style answers to an IXFR request"): the increments
collected so far are rolled back, a replacement transaction takes the full zone. -/
theorem axfr_style_ixfr (o : Name) (v : Version) (z0 : Zone) (b : Nat) (msgs : List Msg)
    (hb : BodyOk o v.body) (hco : Coherent (zoneOf o v)) (hne : v.body ≠ [])
    (hs1 : v.soa.rdata.serial ≠ b) (hs2 : serialLt v.soa.rdata.serial b = false)
    (hc : Chunks ⟨some o, ixfrType, some b, false⟩ (axfrStream o v) msgs) :
    (run true ⟨some o, ixfrType, some b, false⟩ z0 msgs).err = none ∧
      (run true ⟨some o, ixfrType, some b, false⟩ z0 msgs).zone ≃z zoneOf o v ∧
      (run true ⟨some o, ixfrType, some b, false⟩ z0 msgs).zone.serial o = some v.soa.rdata.serial := by
  obtain ⟨s', hf, hd, hz⟩ := axfr_style_flat o v z0 b hb hco hne hs1 hs2
  rw [both_variants (run_of_flat rfl hc hf hd) true]
  exact ⟨rfl, hz, serial_of_equiv hz hb⟩

/-- **The already-up-to-date answer** leaves the zone as it is and raises nothing (TCP or UDP). -/
theorem up_to_date_noop (o : Name) (z0 : Zone) (d : Soa) (udp : Bool) (m : Msg) (more : List Msg)
    (hh : headerErrOf o ixfrType m = none) (ha : m.answer = [soaRR o d]) :
    run true ⟨some o, ixfrType, some d.rdata.serial, udp⟩ z0 (m :: more) = ⟨none, z0⟩ :=
  uptodate_run true o z0 d udp m more hh ha

/-- **UDP IXFR**: the whole response in one datagram converges like the TCP one. -/
theorem udp_ixfr (o : Name) (v0 : Version) (vs : List Version) (z0 : Zone) (m : Msg)
    (hne : vs ≠ []) (hz0 : z0 ≃z zoneOf o v0) (hv0 : WfVersion o v0) (hvs : ∀ v ∈ vs, WfVersion o v)
    (hdist : ∀ v ∈ (v0 :: vs).dropLast, v.soa.rdata ≠ (lastVersion v0 vs).soa.rdata)
    (hs1 : (lastVersion v0 vs).soa.rdata.serial ≠ v0.soa.rdata.serial)
    (hs2 : serialLt (lastVersion v0 vs).soa.rdata.serial v0.soa.rdata.serial = false)
    (hc : Chunks ⟨some o, ixfrType, some v0.soa.rdata.serial, true⟩ (ixfrStream o v0.soa (diffSteps v0 vs)) [m]) :
    (run true ⟨some o, ixfrType, some v0.soa.rdata.serial, true⟩ z0 [m]).err = none ∧
      (run true ⟨some o, ixfrType, some v0.soa.rdata.serial, true⟩ z0 [m]).zone ≃z zoneOf o (lastVersion v0 vs) := by
  obtain ⟨s', hf, hd, hz⟩ := ixfr_versions_flat o v0 vs z0 true hne hz0 hv0 hvs hdist hs1 hs2
  have hsteps : diffSteps v0 vs ≠ [] := by cases vs <;> simp_all [diffSteps]
  have hshape : ∃ r1 rest, ixfrStream o v0.soa (diffSteps v0 vs) = soaRR o (lastSoa v0.soa (diffSteps v0 vs)) :: r1 :: rest := by
    cases hds : diffSteps v0 vs with
    | nil => exact absurd hds hsteps
    | cons st rest => exact ⟨_, _, rfl⟩
  obtain ⟨r1, rest, hsh⟩ := hshape
  rw [hsh] at hc hf
  rw [both_variants (run_udp_single hc hf hd) true]
  exact ⟨rfl, hz⟩

/-- **UseTCP**: the truncated UDP answer (a lone, newer SOA) raises `UseTCP`; the zone is as it was. -/
theorem fault_use_tcp (o : Name) (z0 : Zone) (d : Soa) (b : Nat) (m : Msg) (more : List Msg)
    (hh : headerErrOf o ixfrType m = none) (ha : m.answer = [soaRR o d])
    (hs1 : d.rdata.serial ≠ b) (hs2 : serialLt d.rdata.serial b = false) :
    run true ⟨some o, ixfrType, some b, true⟩ z0 (m :: more) = ⟨some .UseTCP, z0⟩ :=
  udp_truncated_run true o z0 d b m more hh ha hs1 hs2

/-- **A UDP IXFR that ends early**: the datagram carries only the first `k` records (`2 ≤ k`, short of the
whole) of a response the machine would accept: `FormError` (unexpected end of UDP IXFR), zone exactly as
before.  (`k = 1`, the lone SOA, is the truncated answer: `fault_use_tcp`.) -/
theorem fault_udp_incomplete (c : Config) (z0 : Zone) (recs : List RRset) (k : Nat) (m : Msg)
    (hu : c.isUdp = true) (hacc : Accepted c z0 recs) (hk2 : 2 ≤ k) (hk : k < recs.length)
    (hc : Chunks c (recs.take k) [m]) :
    run true c z0 [m] = ⟨some .FormError, z0⟩ := by
  obtain ⟨s', hf, _⟩ := hacc
  obtain ⟨s'', h2, hd2⟩ := flatRun_take k hf (by omega) hk
  obtain ⟨rr0, r1, rest, hshape⟩ : ∃ rr0 r1 rest, recs.take k = rr0 :: r1 :: rest := by
    have hl : (recs.take k).length = k := by rw [List.length_take]; omega
    cases h : recs.take k with
    | nil => rw [h] at hl; simp at hl; omega
    | cons a t =>
      cases t with
      | nil => rw [h] at hl; simp at hl; omega
      | cons b t' => exact ⟨a, b, t', rfl⟩
  rw [hshape] at hc h2
  exact repaired_of_shipped_formError (run_udp_single_incomplete hu hc h2 hd2)

/-- **Serial going backwards** (RFC 1982): raises `SerialWentBackwards`, whatever follows; zone as it was. -/
theorem fault_backwards_serial (o : Name) (z0 : Zone) (d : Soa) (b : Nat) (udp : Bool) (m : Msg)
    (rest : List RRset) (more : List Msg) (hh : headerErrOf o ixfrType m = none)
    (ha : m.answer = soaRR o d :: rest) (hs1 : d.rdata.serial ≠ b) (hs2 : serialLt d.rdata.serial b = true) :
    run true ⟨some o, ixfrType, some b, udp⟩ z0 (m :: more) = ⟨some .SerialWentBackwards, z0⟩ :=
  backwards_run true o z0 d b udp m rest more hh ha hs1 hs2

/-- **An error is never reported for a transfer that was applied.**  The code as it is, every
configuration, every sequence of messages whatsoever (valid, faulty, adversarial): if anything is raised,
the zone is exactly the zone before. -/
theorem error_implies_unapplied (c : Config) (z0 : Zone) (msgs : List Msg) (e : XErr)
    (h : (run true c z0 msgs).err = some e) : (run true c z0 msgs).zone = z0 :=
  run_fix_atomic c z0 msgs e h

/-- **Leaving early leaves the zone.**  `Inbound` driven directly as a context manager
(`with Inbound(...) as inbound: for m in msgs: if inbound.process_message(m): break`), by any caller, fed
any messages whatsoever, the block left normally (the caller just stops feeding — after the first SOA, in
the middle of an AXFR, between or inside IXFR difference sequences), by an exception of the caller's own,
or by one of `process_message`: unless a `process_message` call returned `True`, the zone afterwards is
exactly the zone before — `__exit__` rolls the open transaction back, it never commits it. -/
theorem early_exit_leaves_zone (c : Config) (z0 : Zone) (msgs : List Msg) (callerRaises : Bool)
    (h : (drive true c z0 msgs callerRaises).done = false) : (drive true c z0 msgs callerRaises).zone = z0 :=
  drive_fix_early c z0 msgs callerRaises h

/-- … and `__exit__` itself: whatever state the machine is in and whether or not an exception is in flight,
the committed zone is what it was (an open transaction is rolled back, not committed) -/
theorem exit_never_commits (s : Inbound) (excInFlight : Bool) : s.exit excInFlight = s.zone :=
  exit_zone s excInFlight

/-- What commit 3feda1c changed, and nothing else: the loop without the look-ahead behaves identically,
except that where the code now raises `FormError` with the zone untouched it may have raised that
`FormError` after committing. -/
theorem repair_changed_only_d11 (c : Config) (z0 : Zone) (msgs : List Msg) :
    run false c z0 msgs = run true c z0 msgs ∨
      ((run false c z0 msgs).err = some .FormError ∧ run true c z0 msgs = ⟨some .FormError, z0⟩) := by
  rcases run_variants c z0 msgs with eq | ⟨hf, ht⟩
  · exact Or.inl eq
  · refine Or.inr ⟨hf, ?_⟩
    have hz := run_fix_atomic c z0 msgs _ ht
    cases hr : run true c z0 msgs with
    | mk err zone => rw [hr] at ht hz; simp at ht hz; rw [ht, hz]

/-! ## explicit fault transformers on accepted streams

`Accepted c z0 recs`: the machine, fed `recs` flat over TCP, completes.  Every valid stream is accepted
(`axfr_accepted`, `ixfr_accepted`, `axfr_style_accepted`), so the theorems below speak about every valid
AXFR, IXFR and AXFR-style stream, every division into messages, and the fault at every position. -/

theorem axfr_accepted (o : Name) (v : Version) (z0 : Zone) (ser : Option Nat) (hb : BodyOk o v.body)
    (hco : Coherent (zoneOf o v)) : Accepted ⟨some o, axfrType, ser, false⟩ z0 (axfrStream o v) := by
  obtain ⟨s', hf, hd, _⟩ := axfr_flat o v z0 ser hb hco
  exact ⟨s', hf, hd⟩

theorem axfr_style_accepted (o : Name) (v : Version) (z0 : Zone) (b : Nat) (hb : BodyOk o v.body)
    (hco : Coherent (zoneOf o v)) (hne : v.body ≠ []) (hs1 : v.soa.rdata.serial ≠ b)
    (hs2 : serialLt v.soa.rdata.serial b = false) :
    Accepted ⟨some o, ixfrType, some b, false⟩ z0 (axfrStream o v) := by
  obtain ⟨s', hf, hd, _⟩ := axfr_style_flat o v z0 b hb hco hne hs1 hs2
  exact ⟨s', hf, hd⟩

theorem ixfr_accepted (o : Name) (v0 : Version) (vs : List Version) (z0 : Zone)
    (hne : vs ≠ []) (hz0 : z0 ≃z zoneOf o v0) (hv0 : WfVersion o v0) (hvs : ∀ v ∈ vs, WfVersion o v)
    (hdist : ∀ v ∈ (v0 :: vs).dropLast, v.soa.rdata ≠ (lastVersion v0 vs).soa.rdata)
    (hs1 : (lastVersion v0 vs).soa.rdata.serial ≠ v0.soa.rdata.serial)
    (hs2 : serialLt (lastVersion v0 vs).soa.rdata.serial v0.soa.rdata.serial = false) :
    Accepted ⟨some o, ixfrType, some v0.soa.rdata.serial, false⟩ z0 (ixfrStream o v0.soa (diffSteps v0 vs)) := by
  obtain ⟨s', hf, hd, _⟩ := ixfr_versions_flat o v0 vs z0 false hne hz0 hv0 hvs hdist hs1 hs2
  exact ⟨s', hf, hd⟩

/-- **Ends early / truncated / final SOA dropped**: only the first `k` records of an accepted stream
arrive (any `k` short of the whole, any division into messages): the run raises (end of stream) and the
zone is exactly the zone before. -/
theorem fault_truncate (c : Config) (z0 : Zone) (recs : List RRset) (k : Nat) (msgs : List Msg)
    (hu : c.isUdp = false) (hacc : Accepted c z0 recs) (hk : k < recs.length)
    (hc : Chunks c (recs.take k) msgs) :
    run true c z0 msgs = ⟨some .EOF, z0⟩ := by
  obtain ⟨s', hf, _⟩ := hacc
  apply both_variants_err
  cases k with
  | zero =>
    have hm : msgs = [] := by
      cases msgs with
      | nil => rfl
      | cons m ms =>
        have h1 := hc.first m (by simp)
        have h2 := hc.flat
        simp at h2
        exact absurd h2.1 h1
    subst hm
    unfold flatRun at hf
    unfold run
    cases hi : Inbound.init c.origin z0 c.rdtype c.serial c.isUdp with
    | error e => rw [hi] at hf; cases hf
    | ok s0 => simp [runLoop, (init_props hi).2.2.2.1]
  | succ k =>
    obtain ⟨s'', h2, hd2⟩ := flatRun_take (k + 1) hf (by omega) hk
    exact run_of_flat_eof hu hc h2 hd2

/-- **Non-zero rcode / wrong question** on any message of any division of an accepted stream (a message
that is read: records are still due when it arrives): the run raises `TransferError` resp. `FormError`
and the zone is exactly the zone before. -/
theorem fault_header (c : Config) (o : Name) (z0 : Zone) (recs : List RRset)
    (pre post : List Msg) (m m' : Msg) (e : XErr)
    (hu : c.isUdp = false) (ho : c.origin = some o) (hacc : Accepted c z0 recs)
    (hc : Chunks c recs (pre ++ m :: post)) (htail : (m :: post).flatMap (·.answer) ≠ [])
    (he : headerErrOf o c.rdtype m' = some e) :
    run true c z0 (pre ++ m' :: post) = ⟨some e, z0⟩ := by
  obtain ⟨s', hf, _⟩ := hacc
  exact both_variants_err (run_header_fault hu ho hc hf htail he) true

/-- the two header faults are instances: -/
theorem fault_header_rcode (o : Name) (t : Nat) (m : Msg) (h : m.rcode ≠ 0) :
    headerErrOf o t m = some .TransferError := by
  simp [headerErrOf, h]

theorem fault_header_question (o : Name) (t : Nat) (m : Msg) (q : Name × Nat) (rest : List (Name × Nat))
    (hr : m.rcode = 0) (hq : m.question = q :: rest) (hbad : q.1 ≠ o ∨ q.2 ≠ t) :
    headerErrOf o t m = some .FormError := by
  unfold headerErrOf
  rw [hq]
  rcases hbad with h | h
  · simp [hr, h]
  · by_cases h1 : q.1 = o <;> simp [hr, h, h1]

/-- **Surplus after the final SOA in the same message** (any division of an accepted stream, any rrsets
appended to the message that holds the final SOA): `FormError`, zone exactly as before. -/
theorem fault_surplus_after_final_soa (c : Config) (z0 : Zone) (recs : List RRset) (pre : List Msg) (m : Msg)
    (extra : List RRset) (hu : c.isUdp = false) (hacc : Accepted c z0 recs)
    (hc : Chunks c recs (pre ++ [m])) (hm : m.answer ≠ []) (hx : extra ≠ []) :
    run true c z0 (pre ++ [{ m with answer := m.answer ++ extra }]) = ⟨some .FormError, z0⟩ := by
  obtain ⟨s', hf, hd⟩ := hacc
  exact repaired_of_shipped_formError (run_surplus_shipped hu hc hf hd hm hx)

/-- … which is the defect D11 the repair removed: before it, the same `FormError` was raised *after* the
transfer had been committed (the zone was the target). -/
theorem before_repair_surplus_was_committed (c : Config) (z0 : Zone) (recs : List RRset) (pre : List Msg) (m : Msg)
    (extra : List RRset) (s' : Inbound) (hu : c.isUdp = false) (hf : flatRun c z0 recs = .ok s') (hd : s'.done = true)
    (hc : Chunks c recs (pre ++ [m])) (hm : m.answer ≠ []) (hx : extra ≠ []) :
    run false c z0 (pre ++ [{ m with answer := m.answer ++ extra }]) = ⟨some .FormError, s'.zone⟩ :=
  run_surplus_shipped hu hc hf hd hm hx

/-- **The first rrset is not the apex SOA** (first SOA dropped from an AXFR, swapped with the record after
it, its owner or type corrupted — AXFR or IXFR): `FormError`, zone exactly as before. -/
theorem fault_first_not_apex_soa (c : Config) (o : Name) (z0 : Zone) (s0 : Inbound) (m0 : Msg) (ms : List Msg)
    (rr0 : RRset) (rest0 : List RRset) (ho : c.origin = some o)
    (hi : Inbound.init c.origin z0 c.rdtype c.serial c.isUdp = .ok s0)
    (hh : headerErrOf o c.rdtype m0 = none) (ha : m0.answer = rr0 :: rest0)
    (hns : rr0.rdtype ≠ soaType ∨ rr0.owner ≠ o) :
    run true c z0 (m0 :: ms) = ⟨some .FormError, z0⟩ := by
  have ip := init_props hi
  have hoo : s0.origin = o := by have := ip.1; rw [ho] at this; cases this; rfl
  have op := openTxn_props s0
  refine run_first_err (z := z0) hi (by unfold headerErr; rw [hoo, ip.2.1]; exact hh) ha ?_
  unfold firstSoa
  rw [op.1.1, hoo, op.2.1, ip.2.2.2.1]
  by_cases h1 : rr0.owner = o
  · have h2 : rr0.rdtype ≠ soaType := hns.elim id (fun h => absurd h1 h)
    simp [h1, h2]
  · simp [h1]

/-! ## faults at an arbitrary position of an IXFR response

`IxfrAt o cur pre st post z0`: a well-formed response (difference sequences `pre ++ st :: post`) for the
zone `z0` with SOA `cur`, looked at its sequence `st`.  `dn` below is the server's final SOA.  Every
theorem holds for every division of the faulty stream into messages (`Chunks`). -/

/-- every difference sequence of every valid chain of versions is such a place: the fault theorems below
speak about every valid IXFR response -/
theorem ixfrAt_of_versions (o : Name) (v0 : Version) (pre : List Version) (b : Version) (post : List Version)
    (z0 : Zone) (hz0 : z0 ≃z zoneOf o v0) (hv0 : WfVersion o v0) (hvs : ∀ v ∈ pre ++ b :: post, WfVersion o v)
    (hdist : ∀ v ∈ (v0 :: (pre ++ b :: post)).dropLast, v.soa.rdata ≠ (lastVersion v0 (pre ++ b :: post)).soa.rdata)
    (hs1 : (lastVersion v0 (pre ++ b :: post)).soa.rdata.serial ≠ v0.soa.rdata.serial)
    (hs2 : serialLt (lastVersion v0 (pre ++ b :: post)).soa.rdata.serial v0.soa.rdata.serial = false) :
    IxfrAt o v0.soa (diffSteps v0 pre) (diffStep (lastVersion v0 pre) b) (diffSteps b post) z0 := by
  have happ : ∀ (pre : List Version) (a : Version),
      diffSteps a (pre ++ b :: post) = diffSteps a pre ++ diffStep (lastVersion a pre) b :: diffSteps b post := by
    intro pre
    induction pre with
    | nil => intro a; rfl
    | cons c cs ih => intro a; simp [diffSteps, lastVersion, ih c]
  have hl := lastSoa_diffSteps (pre ++ b :: post) v0
  have hok := stepsOk_diff (dn := (lastVersion v0 (pre ++ b :: post)).soa) (pre ++ b :: post) v0 z0 hz0 hv0 hvs hdist
  rw [happ pre v0] at hl hok
  exact ⟨by rw [hl]; exact hs1, by rw [hl]; exact hs2, Coherent.congr hz0 hv0.coherent, by rw [hl]; exact hok.1⟩

/-- **A deletion sent twice**, in any difference sequence, at any position `j`: the second copy cannot be
exact — `DeleteNotExact`, zone exactly as before. -/
theorem fault_duplicate_deletion (o : Name) (cur : Soa) (pre : List Step) (st : Step) (post : List Step) (z0 : Zone)
    (j : Nat) (d : RR) (tail : List RRset) (msgs : List Msg)
    (h : IxfrAt o cur pre st post z0) (hj : st.dels[j]? = some d)
    (hc : Chunks ⟨some o, ixfrType, some cur.rdata.serial, false⟩
      (soaRR o (lastSoa cur (pre ++ st :: post)) ::
        ((ixfrSteps o cur pre ++ (soaRR o (lastSoa cur pre) :: (st.dels.take (j + 1)).map single)) ++ single d :: tail))
      msgs) :
    run true ⟨some o, ixfrType, some cur.rdata.serial, false⟩ z0 msgs = ⟨some .DeleteNotExact, z0⟩ := by
  obtain ⟨x', hf, _, hcx, hne, hdel, hnd, _, _, _⟩ := h.before false
  have hsub : ∀ r ∈ st.dels.take (j + 1), r ∈ st.dels := fun r hr => List.mem_of_mem_take hr
  obtain ⟨x1, e1, q1⟩ := mid_dels (fix := false) (o := o) (t := ixfrType) (ser := some (lastSoa cur pre).rdata.serial)
    (udp := false) (f := soaRR o (lastSoa cur (pre ++ st :: post))) (z := z0) (st.dels.take (j + 1)) x' hcx
    (fun r hr => hdel r (hsub r hr)) (hnd.sublist (List.take_sublist _ _))
  have hdm : d ∈ st.dels.take (j + 1) := by
    rw [List.mem_take_iff_getElem]
    have hjl : j < st.dels.length := by
      rcases Nat.lt_or_ge j st.dels.length with h' | h'
      · exact h'
      · rw [List.getElem?_eq_none h'] at hj; cases hj
    refine ⟨j, by omega, ?_⟩
    rw [List.getElem?_eq_getElem hjl] at hj
    exact Option.some.inj hj
  have hdd := hdel d (hsub d hdm)
  have hB : procAnswers false (mid o ixfrType true (some (lastSoa cur pre).rdata.serial) false (soaRR o (lastSoa cur (pre ++ st :: post))) pre.isEmpty false x' z0)
      (soaRR o (lastSoa cur pre) :: (st.dels.take (j + 1)).map single) =
      .ok (mid o ixfrType true (some (lastSoa cur pre).rdata.serial) false (soaRR o (lastSoa cur (pre ++ st :: post))) false true x1 z0) := by
    rw [procAnswers, mid_delstart hne rfl]; exact e1
  exact raise_at rfl hf hB rfl
    (mid_del_absent (W := x'.work) hdd.1 hdd.2.1 hcx
      (fun q hq => ((mem_delAll _ _ _).1 ((q1 q).1 hq)).1) hdd.2.2
      (fun hq => ((mem_delAll _ _ _).1 ((q1 d).1 hq)).2 hdm)) hc

/-- **An addition arriving while the deletions are still being read** — the SOA that separates the two
halves of a difference sequence was dropped, or swapped with the first addition: a record that is not in
the zone cannot be deleted, `DeleteNotExact`, zone exactly as before.  (`hfresh`: the record is new with
respect to a coherent zone `W` that holds the version being edited; for a server's own differences,
`W` is the next version.) -/
theorem fault_addition_in_delete_mode (o : Name) (cur : Soa) (pre : List Step) (st : Step) (post : List Step)
    (z0 : Zone) (a : RR) (W : Zone) (tail : List RRset) (msgs : List Msg)
    (h : IxfrAt o cur pre st post z0) (ha : a ∈ st.adds)
    (hW : Coherent W) (haW : a ∈ W) (hsubW : ∀ q ∈ delAll (applyAll o z0 pre) st.dels, q ∈ W)
    (hfresh : a ∉ delAll (applyAll o z0 pre) st.dels)
    (hc : Chunks ⟨some o, ixfrType, some cur.rdata.serial, false⟩
      (soaRR o (lastSoa cur (pre ++ st :: post)) ::
        ((ixfrSteps o cur pre ++ (soaRR o (lastSoa cur pre) :: st.dels.map single)) ++ single a :: tail)) msgs) :
    run true ⟨some o, ixfrType, some cur.rdata.serial, false⟩ z0 msgs = ⟨some .DeleteNotExact, z0⟩ := by
  obtain ⟨x', hf, q, hcx, hne, hdel, hnd, hadd, _, _⟩ := h.before false
  obtain ⟨x1, e1, q1⟩ := mid_dels (fix := false) (o := o) (t := ixfrType) (ser := some (lastSoa cur pre).rdata.serial)
    (udp := false) (f := soaRR o (lastSoa cur (pre ++ st :: post))) (z := z0) st.dels x' hcx hdel hnd
  have hmem : ∀ r, r ∈ x1.work ↔ r ∈ delAll (applyAll o z0 pre) st.dels := by
    intro r; rw [q1 r, mem_delAll, mem_delAll, q r]
  have hB : procAnswers false (mid o ixfrType true (some (lastSoa cur pre).rdata.serial) false (soaRR o (lastSoa cur (pre ++ st :: post))) pre.isEmpty false x' z0)
      (soaRR o (lastSoa cur pre) :: st.dels.map single) =
      .ok (mid o ixfrType true (some (lastSoa cur pre).rdata.serial) false (soaRR o (lastSoa cur (pre ++ st :: post))) false true x1 z0) := by
    rw [procAnswers, mid_delstart hne rfl]; exact e1
  exact raise_at rfl hf hB rfl
    (mid_del_absent (W := W) (hadd a ha).1 (hadd a ha).2 hW (fun r hr => hsubW r ((hmem r).1 hr)) haW
      (fun hr => hfresh ((hmem a).1 hr))) hc

/-- … and for a server's own differences its side conditions hold: an addition of the step from version
`a` to version `b` is not among what is left of `a` after the deletions, and together they form a coherent
zone. -/
theorem fresh_addition_of_versions (o : Name) (a b : Version) (w : Zone) (x : RR)
    (hw : w ≃z zoneOf o a) (ha : WfVersion o a) (hb : WfVersion o b) (hx : x ∈ (diffStep a b).adds) :
    Coherent (delAll w (diffStep a b).dels ++ [x]) ∧ x ∈ delAll w (diffStep a b).dels ++ [x] ∧
      (∀ q ∈ delAll w (diffStep a b).dels, q ∈ delAll w (diffStep a b).dels ++ [x]) ∧
      x ∉ delAll w (diffStep a b).dels := by
  simp only [diffStep, List.mem_filter, decide_eq_true_eq] at hx
  have hxb : x ∈ zoneOf o b := mem_zoneOf.2 (Or.inl hx.1)
  have hxt := (mem_recsOfAll_ok hb.body hx.1).1
  -- what is left after the deletions: records common to both versions, and the old SOA
  have hleft : ∀ q, q ∈ delAll w (diffStep a b).dels → (q ∈ recsOfAll a.body ∧ q ∈ recsOfAll b.body) ∨ q = soaRec o a.soa := by
    intro q hq
    rw [mem_delAll] at hq
    simp only [diffStep, List.mem_filter, decide_eq_true_eq, not_and] at hq
    rcases mem_zoneOf.1 ((hw q).1 hq.1) with h | h
    · exact Or.inl ⟨h, Classical.not_not.1 (hq.2 h)⟩
    · exact Or.inr h
  have hnot : x ∉ delAll w (diffStep a b).dels := by
    intro h
    rcases hleft x h with h' | h'
    · exact hx.2 h'.1
    · rw [h'] at hxt; exact hxt rfl
  have hwc : Coherent w := Coherent.congr hw ha.coherent
  have hdc : Coherent (delAll w (diffStep a b).dels) := hwc.subset fun q hq => ((mem_delAll _ _ _).1 hq).1
  -- the pair (q, x) for q left over: both in version b, or q the old SOA (a different type at the apex)
  have hsoab : soaRec o b.soa ∈ zoneOf o b := mem_zoneOf.2 (Or.inr rfl)
  have hxnc : x.owner = o → kindOf x.rdtype ≠ .cname :=
    fun ho => no_cname_beside hb.coherent hsoab (soaRec_regular o b.soa) x hxb ho
  have pair : ∀ q ∈ delAll w (diffStep a b).dels,
      (q.owner = x.owner → q.rdtype = x.rdtype → q.ttl = x.ttl ∧ (isSingleton q.rdtype = true → q.rdata = x.rdata)) ∧
      (q.owner = x.owner → drivesOut q.rdtype x = false ∧ drivesOut x.rdtype q = false) := by
    intro q hq
    rcases hleft q hq with h | h
    · have hqb : q ∈ zoneOf o b := mem_zoneOf.2 (Or.inl h.2)
      exact ⟨fun ho ht => ⟨hb.coherent.1 q hqb x hxb ho ht, fun hs => hb.coherent.2.2 q hqb x hxb ho ht hs⟩,
        fun ho => ⟨hb.coherent.2.1 q hqb x hxb ho, hb.coherent.2.1 x hxb q hqb ho.symm⟩⟩
    · subst h
      refine ⟨fun _ ht => absurd ht.symm hxt, fun ho => ?_⟩
      have hk := hxnc ho.symm
      simp only [drivesOut, soaRec, kindOf_soa]
      cases hkx : kindOf x.rdtype <;> simp_all
  have hself : ∀ r : RR, drivesOut r.rdtype r = false := by
    intro r; simp only [drivesOut]; cases kindOf r.rdtype <;> rfl
  refine ⟨⟨?_, ?_, ?_⟩, by simp, fun q hq => List.mem_append.2 (Or.inl hq), hnot⟩
  · intro p hp q hq ho ht
    simp only [List.mem_append, List.mem_singleton] at hp hq
    rcases hp with hp | rfl <;> rcases hq with hq | rfl
    · exact hdc.1 p hp q hq ho ht
    · exact ((pair p hp).1 ho ht).1
    · exact (((pair q hq).1 ho.symm ht.symm).1).symm
    · rfl
  · intro p hp q hq ho
    simp only [List.mem_append, List.mem_singleton] at hp hq
    rcases hp with hp | rfl <;> rcases hq with hq | rfl
    · exact hdc.2.1 p hp q hq ho
    · exact ((pair p hp).2 ho).1
    · exact ((pair q hq).2 ho.symm).2
    · exact hself _
  · intro p hp q hq ho ht hs
    simp only [List.mem_append, List.mem_singleton] at hp hq
    rcases hp with hp | rfl <;> rcases hq with hq | rfl
    · exact hdc.2.2 p hp q hq ho ht hs
    · exact ((pair p hp).1 ho ht).2 hs
    · exact (((pair q hq).1 ho.symm ht.symm).2 (ht ▸ hs)).symm
    · rfl

/-- **The SOA that opens a difference sequence is dropped** (any sequence but the first), or its type is
corrupted so that it and possibly other junk `junk` is read as data: the deletions are taken for additions
and the next SOA does not continue from our serial — `FormError`, zone exactly as before. -/
theorem fault_drop_delstart_soa (o : Name) (cur : Soa) (pre : List Step) (st : Step) (post : List Step) (z0 : Zone)
    (junk : List RRset) (tail : List RRset) (msgs : List Msg)
    (h : IxfrAt o cur pre st post z0) (hpre : pre ≠ [])
    (hser : st.soa.rdata.serial ≠ (lastSoa cur pre).rdata.serial)
    (hjb : BodyOk o junk) (hjc : Coherent (applyAll o z0 pre ++ recsOfAll junk))
    (hc : Chunks ⟨some o, ixfrType, some cur.rdata.serial, false⟩
      (soaRR o (lastSoa cur (pre ++ st :: post)) ::
        ((ixfrSteps o cur pre ++ (junk ++ st.dels.map single)) ++ soaRR o st.soa :: tail)) msgs) :
    run true ⟨some o, ixfrType, some cur.rdata.serial, false⟩ z0 msgs = ⟨some .FormError, z0⟩ := by
  obtain ⟨x', hf, q, hcx, _, hdel, _, _, _, _⟩ := h.before false
  have hemp : pre.isEmpty = false := by cases pre <;> simp_all
  rw [hemp] at hf
  obtain ⟨x1, e1, q1⟩ := mid_adds (fix := false) (o := o) (t := ixfrType) (inc := true)
    (ser := some (lastSoa cur pre).rdata.serial) (udp := false) (f := soaRR o (lastSoa cur (pre ++ st :: post)))
    (z := z0) junk x' hjb (Coherent.congr (Zone.equiv_append q _) hjc)
  obtain ⟨x2, e2, _⟩ := mid_adds_present (fix := false) (o := o) (t := ixfrType) (inc := true)
    (ser := some (lastSoa cur pre).rdata.serial) (udp := false) (f := soaRR o (lastSoa cur (pre ++ st :: post)))
    (z := z0) st.dels x1 (Coherent.congr (Zone.equiv_trans q1 (Zone.equiv_append q _)) hjc)
    (fun r hr => ⟨(hdel r hr).1, (hdel r hr).2.1, (q1 r).2 (List.mem_append.2 (Or.inl (hdel r hr).2.2))⟩)
  have hB : procAnswers false (mid o ixfrType true (some (lastSoa cur pre).rdata.serial) false (soaRR o (lastSoa cur (pre ++ st :: post))) false false x' z0)
      (junk ++ st.dels.map single) = .ok (mid o ixfrType true (some (lastSoa cur pre).rdata.serial) false (soaRR o (lastSoa cur (pre ++ st :: post))) false false x2 z0) := by
    rw [procAnswers_append, e1]; exact e2
  exact raise_at rfl hf hB rfl (mid_soa_mismatch hser) hc

/-- **The SOA that opens the first difference sequence is dropped and that sequence deletes nothing**: the
next SOA is read where the old one should be — `FormError` (empty IXFR sequence, or base serial mismatch). -/
theorem fault_drop_first_delstart_soa_nodels (o : Name) (cur : Soa) (st : Step) (post : List Step) (z0 : Zone)
    (tail : List RRset) (msgs : List Msg)
    (h : IxfrAt o cur [] st post z0) (hser : st.soa.rdata.serial ≠ cur.rdata.serial)
    (hc : Chunks ⟨some o, ixfrType, some cur.rdata.serial, false⟩
      (soaRR o (lastSoa cur ([] ++ st :: post)) :: ((ixfrSteps o cur [] ++ []) ++ soaRR o st.soa :: tail)) msgs) :
    run true ⟨some o, ixfrType, some cur.rdata.serial, false⟩ z0 msgs = ⟨some .FormError, z0⟩ := by
  obtain ⟨x', hf, _⟩ := h.before false
  have hB : procAnswers false (mid o ixfrType true (some (lastSoa cur []).rdata.serial) false (soaRR o (lastSoa cur ([] ++ st :: post)))
      ([] : List Step).isEmpty false x' z0) [] = .ok _ := rfl
  exact raise_at rfl hf hB rfl (mid_soa_mismatch (b := (lastSoa cur []).rdata.serial) hser) hc

/-- **… and that sequence has deletions, more sequences follow**: the deletions are taken for the body of
an AXFR-style answer, in which the next SOA (not the final one) has no place — `FormError`. -/
theorem fault_drop_first_delstart_soa_dels (o : Name) (cur : Soa) (st : Step) (post : List Step) (z0 : Zone)
    (d0 : RR) (ds : List RR) (tail : List RRset) (msgs : List Msg)
    (h : IxfrAt o cur [] st post z0) (hd : st.dels = d0 :: ds)
    (hnf : st.soa.rdata ≠ (lastSoa cur ([] ++ st :: post)).rdata)
    (hc : Chunks ⟨some o, ixfrType, some cur.rdata.serial, false⟩
      (soaRR o (lastSoa cur ([] ++ st :: post)) :: ((ixfrSteps o cur [] ++ st.dels.map single) ++ soaRR o st.soa :: tail))
      msgs) :
    run true ⟨some o, ixfrType, some cur.rdata.serial, false⟩ z0 msgs = ⟨some .FormError, z0⟩ := by
  obtain ⟨x', hf, _, hcx, _, hdel, hnd, _, _, _⟩ := h.before false
  have h0 := hdel d0 (by simp [hd])
  have hsubx : ∀ r ∈ st.dels, r ∈ x'.work := fun r hr => (hdel r hr).2.2
  have hcd : Coherent (recsOf (single d0) ++ recsOfAll (ds.map single)) := by
    rw [recsOf_single, recsOfAll_singles]
    exact hcx.subset fun r hr => hsubx r (by rw [hd]; simpa using hr)
  obtain ⟨x0, e0, q0⟩ := mid_fallback_add (fix := false) (o := o) (t := ixfrType) (inc := true)
    (ser := some (lastSoa cur []).rdata.serial) (udp := false) (f := soaRR o (lastSoa cur ([] ++ st :: post)))
    (dm := false) (x := x') (z := z0) (rs := single d0) (more := !(ds.map single).isEmpty) h0.1 h0.2.1 (by simp [single])
    (hcd.subset fun r hr => List.mem_append.2 (Or.inl hr))
  obtain ⟨x1, e1, _⟩ := mid_adds (fix := false) (o := o) (t := ixfrType) (inc := false)
    (ser := some (lastSoa cur []).rdata.serial) (udp := false) (f := soaRR o (lastSoa cur ([] ++ st :: post)))
    (z := z0) (ds.map single) x0
    (bodyOk_singles fun r hr => ⟨(hdel r (by simp [hd, hr])).1, (hdel r (by simp [hd, hr])).2.1⟩)
    (Coherent.congr (Zone.equiv_append q0 _) hcd)
  have hB : procAnswers false (mid o ixfrType true (some (lastSoa cur []).rdata.serial) false (soaRR o (lastSoa cur ([] ++ st :: post)))
      ([] : List Step).isEmpty false x' z0) (st.dels.map single) =
      .ok (mid o ixfrType false (some (lastSoa cur []).rdata.serial) false (soaRR o (lastSoa cur ([] ++ st :: post))) false false x1 z0) := by
    rw [hd, List.map_cons, procAnswers]
    simp only [List.isEmpty_nil]
    rw [e0]; exact e1
  exact raise_at rfl hf hB rfl (mid_axfr_other_soa hnf) hc

/-- **The first SOA of an IXFR response is dropped**: the response then starts with the SOA of the version
we hold, which reads as "already up to date".  Alone in its message the transfer ends there, otherwise
the rest is refused (`FormError`); either way the zone is exactly the zone before. -/
theorem fault_drop_first_soa_ixfr (o : Name) (z0 : Zone) (cur : Soa) (udp : Bool) (m0 : Msg) (ms : List Msg)
    (rest0 : List RRset) (hh : headerErrOf o ixfrType m0 = none) (ha : m0.answer = soaRR o cur :: rest0) :
    run true ⟨some o, ixfrType, some cur.rdata.serial, udp⟩ z0 (m0 :: ms) =
      ⟨if rest0.isEmpty then none else some .FormError, z0⟩ := by
  cases rest0 with
  | nil => simpa using uptodate_run true o z0 cur udp m0 ms hh ha
  | cons r rs =>
    simp [run, Inbound.init, runLoop, procMessage, headerErr, hh, openTxn, procBody, ha, firstSoa, procAnswers,
      procRRset]

/-- Dropping the SOA that separates deletions from additions when there are no additions, and dropping the
SOA that opens the next difference sequence, give the same stream (the two SOAs are the same rrset), and
so do dropping that SOA in the last sequence and dropping the final SOA: these cases are
`fault_drop_delstart_soa` and `fault_truncate`. -/
theorem drop_addstart_soa_without_additions (o : Name) (cur : Soa) (dels : List RR) (soa : Soa) (rest : List Step) :
    ixfrSteps o cur (⟨dels, soa, []⟩ :: rest) =
      soaRR o cur :: (dels.map single ++ (soaRR o soa :: ixfrSteps o soa rest)) := by
  simp [ixfrSteps]

/-- **The first difference sequence loses its opening SOA, has deletions, and is the only one**: what
arrives up to the next SOA *is* the AXFR-style response of the zone made of the deleted records — which
the machine accepts (`axfr_style_ixfr`); what follows is surplus (`fault_surplus_after_final_soa`).  The
stream denotes that zone, not the server's. -/
theorem drop_first_delstart_soa_single_step (o : Name) (cur : Soa) (st : Step) :
    soaRR o (lastSoa cur [st]) :: (st.dels.map single ++ (soaRR o st.soa :: (st.adds.map single ++ [soaRR o (lastSoa cur [st])]))) =
      axfrStream o ⟨st.soa, st.dels.map single⟩ ++ (st.adds.map single ++ [soaRR o st.soa]) := by
  simp [axfrStream, lastSoa]

/-- **The owner of an SOA is corrupted** to another name of the zone, at a place where the machine is
adding (the SOA that opens any difference sequence, the final SOA): `txn.add` refuses a non-apex SOA,
`ValueError`, zone exactly as before. -/
theorem fault_nonapex_soa_in_add_mode (o : Name) (cur dn : Soa) (pre : List Step) (z0 : Zone) (x : RRset)
    (tail : List RRset) (msgs : List Msg)
    (hs1 : dn.rdata.serial ≠ cur.rdata.serial) (hs2 : serialLt dn.rdata.serial cur.rdata.serial = false)
    (hc0 : Coherent z0) (hok : StepsOk o dn cur z0 pre)
    (hxt : x.rdtype = soaType) (hxo : x.owner ≠ o) (hxz : isSubdomain x.owner o = true)
    (hc : Chunks ⟨some o, ixfrType, some cur.rdata.serial, false⟩
      (soaRR o dn :: ((ixfrSteps o cur pre ++ []) ++ x :: tail)) msgs) :
    run true ⟨some o, ixfrType, some cur.rdata.serial, false⟩ z0 msgs = ⟨some .ValueError, z0⟩ := by
  obtain ⟨x', hf, _⟩ := ixfr_prefix_flat o cur dn pre z0 false hs1 hs2 hc0 hok
  have hB : procAnswers false (mid o ixfrType true (some (lastSoa cur pre).rdata.serial) false (soaRR o dn)
      pre.isEmpty false x' z0) [] = .ok _ := rfl
  exact raise_at rfl hf hB rfl (mid_add_nonapex_soa hxt hxo hxz) hc

/-- … and where the machine is deleting (the SOA between deletions and additions): no such record exists,
`DeleteNotExact`, zone exactly as before. -/
theorem fault_nonapex_soa_in_delete_mode (o : Name) (cur : Soa) (pre : List Step) (st : Step) (post : List Step)
    (z0 : Zone) (x : RRset) (tail : List RRset) (msgs : List Msg)
    (h : IxfrAt o cur pre st post z0)
    (hxt : x.rdtype = soaType) (hxo : x.owner ≠ o) (hxz : isSubdomain x.owner o = true) (hxn : x.rdatas ≠ [])
    (hapex : ∀ q ∈ applyAll o z0 pre, q.rdtype = soaType → q.owner = o)
    (hc : Chunks ⟨some o, ixfrType, some cur.rdata.serial, false⟩
      (soaRR o (lastSoa cur (pre ++ st :: post)) ::
        ((ixfrSteps o cur pre ++ (soaRR o (lastSoa cur pre) :: st.dels.map single)) ++ x :: tail)) msgs) :
    run true ⟨some o, ixfrType, some cur.rdata.serial, false⟩ z0 msgs = ⟨some .DeleteNotExact, z0⟩ := by
  obtain ⟨x', hf, q, hcx, hne, hdel, hnd, _, _, _⟩ := h.before false
  obtain ⟨x1, e1, q1⟩ := mid_dels (fix := false) (o := o) (t := ixfrType) (ser := some (lastSoa cur pre).rdata.serial)
    (udp := false) (f := soaRR o (lastSoa cur (pre ++ st :: post))) (z := z0) st.dels x' hcx hdel hnd
  have hB : procAnswers false (mid o ixfrType true (some (lastSoa cur pre).rdata.serial) false
      (soaRR o (lastSoa cur (pre ++ st :: post))) pre.isEmpty false x' z0)
      (soaRR o (lastSoa cur pre) :: st.dels.map single) =
      .ok (mid o ixfrType true (some (lastSoa cur pre).rdata.serial) false
        (soaRR o (lastSoa cur (pre ++ st :: post))) false true x1 z0) := by
    rw [procAnswers, mid_delstart hne rfl]; exact e1
  refine raise_at rfl hf hB rfl (mid_del_nonapex_soa hxt hxo hxz hxn ?_) hc
  intro r hr ht
  exact hapex r ((q r).1 ((mem_delAll _ _ _).1 ((q1 r).1 hr)).1) ht

/-- **AXFR: the owner of the closing SOA (or an SOA anywhere in the body) is not the apex**: `ValueError`,
zone exactly as before. -/
theorem fault_axfr_nonapex_soa (o : Name) (soa : Soa) (pb : List RRset) (z0 : Zone) (ser : Option Nat) (x : RRset)
    (tail : List RRset) (msgs : List Msg) (hb : BodyOk o pb) (hco : Coherent (recsOfAll pb))
    (hxt : x.rdtype = soaType) (hxo : x.owner ≠ o) (hxz : isSubdomain x.owner o = true)
    (hc : Chunks ⟨some o, axfrType, ser, false⟩ (soaRR o soa :: (([] ++ pb) ++ x :: tail)) msgs) :
    run true ⟨some o, axfrType, ser, false⟩ z0 msgs = ⟨some .ValueError, z0⟩ := by
  obtain ⟨x1, e1, _⟩ := mid_adds (fix := false) (o := o) (t := axfrType) (inc := false) (ser := ser) (udp := false)
    (f := soaRR o soa) (z := z0) pb ⟨[], false⟩ hb (by simpa using hco)
  have hf : flatRun ⟨some o, axfrType, ser, false⟩ z0 (soaRR o soa :: []) =
      .ok (mid o axfrType false ser false (soaRR o soa) false false ⟨[], false⟩ z0) := by
    simp [flatRun, Inbound.init, axfrType, ixfrType, firstSoa, openTxn, writer, mid, procAnswers]
  exact raise_at rfl hf e1 rfl (mid_add_nonapex_soa hxt hxo hxz) hc

/-! ## faults the protocol cannot detect: the result is the zone the stream denotes -/

/-- **A record of an AXFR is dropped** (not an SOA): nothing can tell; the transfer completes and the zone
is the version *without that rrset* — what the stream denotes, not what the server holds. -/
theorem fault_drop_axfr_record_denotes (o : Name) (v : Version) (i : Nat) (z0 : Zone) (ser : Option Nat)
    (msgs : List Msg) (hb : BodyOk o v.body) (hco : Coherent (zoneOf o v))
    (hc : Chunks ⟨some o, axfrType, ser, false⟩ (axfrStream o ⟨v.soa, v.body.eraseIdx i⟩) msgs) :
    (run true ⟨some o, axfrType, ser, false⟩ z0 msgs).err = none ∧
      (run true ⟨some o, axfrType, ser, false⟩ z0 msgs).zone ≃z zoneOf o ⟨v.soa, v.body.eraseIdx i⟩ := by
  have hsub : ∀ rs ∈ v.body.eraseIdx i, rs ∈ v.body := fun rs h => List.mem_of_mem_eraseIdx h
  have hb' : BodyOk o (v.body.eraseIdx i) := fun rs h => hb rs (hsub rs h)
  have hco' : Coherent (zoneOf o ⟨v.soa, v.body.eraseIdx i⟩) := by
    refine hco.subset fun r hr => ?_
    rcases mem_zoneOf.1 hr with h | h
    · simp only [recsOfAll, List.mem_flatMap] at h
      obtain ⟨rs, hrs, hr'⟩ := h
      exact mem_zoneOf.2 (Or.inl (List.mem_flatMap.2 ⟨rs, hsub rs hrs, hr'⟩))
    · exact mem_zoneOf.2 (Or.inr h)
  have := axfr_converges o ⟨v.soa, v.body.eraseIdx i⟩ z0 ser msgs hb' hco' hc
  exact ⟨this.1, this.2.1⟩

/-- **A deletion of an IXFR is dropped**: the difference sequence with one deletion fewer is still a
difference sequence, the transfer completes (`ixfr_denotes`), and the record stays: the sequence then
yields what it should have yielded, plus that record. -/
theorem fault_drop_deletion_denotes (o : Name) (w : Zone) (st : Step) (d : RR) (hnd : st.dels.Nodup)
    (hd : d ∈ st.dels) (r : RR) :
    r ∈ applyStep o w ⟨st.dels.erase d, st.soa, st.adds⟩ ↔
      r ∈ applyStep o w st ∨ (r = d ∧ d ∈ w ∧ ¬ (d.owner = o ∧ d.rdtype = soaType)) := by
  rw [mem_applyStep, mem_applyStep]
  simp only [hnd.mem_erase_iff]
  constructor
  · rintro (⟨⟨hw, hn⟩, hk⟩ | h | h)
    · by_cases hrd : r = d
      · right; subst hrd; exact ⟨rfl, hw, hk⟩
      · left; left; exact ⟨⟨hw, fun hin => hn ⟨hrd, hin⟩⟩, hk⟩
    · exact Or.inl (Or.inr (Or.inl h))
    · exact Or.inl (Or.inr (Or.inr h))
  · rintro ((⟨⟨hw, hn⟩, hk⟩ | h | h) | ⟨rfl, hw, hk⟩)
    · exact Or.inl ⟨⟨hw, fun hin => hn hin.2⟩, hk⟩
    · exact Or.inr (Or.inl h)
    · exact Or.inr (Or.inr h)
    · exact Or.inl ⟨⟨hw, fun hin => hin.1 rfl⟩, hk⟩

/-- **The last deletion and the SOA after it change places** (a swap across the delete/add boundary): the
stream is, rrset for rrset, the response whose difference sequence deletes one record fewer and adds it
instead — accepted (`ixfr_denotes`), and the sequence yields what it should have yielded plus that record. -/
theorem fault_swap_deletion_across_boundary (o : Name) (cur : Soa) (dels : List RR) (d : RR) (soa : Soa) (adds : List RR)
    (rest : List Step) (w : Zone) :
    ixfrSteps o cur (⟨dels, soa, d :: adds⟩ :: rest) =
        soaRR o cur :: (dels.map single ++ (soaRR o soa :: single d :: (adds.map single ++ ixfrSteps o soa rest))) ∧
      ixfrSteps o cur (⟨dels ++ [d], soa, adds⟩ :: rest) =
        soaRR o cur :: (dels.map single ++ (single d :: soaRR o soa :: (adds.map single ++ ixfrSteps o soa rest))) ∧
      ∀ r, r ∈ applyStep o w ⟨dels, soa, d :: adds⟩ ↔ r ∈ applyStep o w ⟨dels ++ [d], soa, adds⟩ ∨ r = d := by
  refine ⟨by simp [ixfrSteps], by simp [ixfrSteps], fun r => ?_⟩
  rw [mem_applyStep, mem_applyStep]
  simp only [List.mem_append, List.mem_cons, not_or, List.not_mem_nil, or_false]
  constructor
  · rintro (⟨⟨hw, hn⟩, hk⟩ | h | h | h)
    · by_cases hrd : r = d
      · exact Or.inr hrd
      · exact Or.inl (Or.inl ⟨⟨hw, hn, hrd⟩, hk⟩)
    · exact Or.inl (Or.inr (Or.inl h))
    · exact Or.inr h
    · exact Or.inl (Or.inr (Or.inr h))
  · rintro ((⟨⟨hw, hn, _⟩, hk⟩ | h | h) | h)
    · exact Or.inl ⟨⟨hw, hn⟩, hk⟩
    · exact Or.inr (Or.inl h)
    · exact Or.inr (Or.inr (Or.inr h))
    · exact Or.inr (Or.inr (Or.inl h))

/-- **Wrong base serial**: a valid IXFR response for a chain that starts at `cur`, received by a client
that asked for a different serial `b` (and is neither up to date nor ahead): `FormError` (base serial
mismatch) at the first difference sequence, whatever the division into messages; zone exactly as before. -/
theorem fault_wrong_base_serial (o : Name) (cur : Soa) (steps : List Step) (z0 : Zone) (b : Nat)
    (msgs : List Msg) (hne : steps ≠ []) (hcur : cur.rdata ≠ (lastSoa cur steps).rdata)
    (hb1 : b ≠ cur.rdata.serial) (hb2 : (lastSoa cur steps).rdata.serial ≠ b)
    (hb3 : serialLt (lastSoa cur steps).rdata.serial b = false)
    (hc : Chunks ⟨some o, ixfrType, some b, false⟩ (ixfrStream o cur steps) msgs) :
    run true ⟨some o, ixfrType, some b, false⟩ z0 msgs = ⟨some .FormError, z0⟩ := by
  cases steps with
  | nil => exact absurd rfl hne
  | cons st rest =>
    have hshape : ixfrStream o cur (st :: rest) =
        soaRR o (lastSoa cur (st :: rest)) :: (([] ++ []) ++ soaRR o cur ::
          (st.dels.map single ++ (soaRR o st.soa :: (st.adds.map single ++ ixfrSteps o st.soa rest)) ++
            [soaRR o (lastSoa cur (st :: rest))])) := by
      simp [ixfrStream, ixfrSteps]
    rw [hshape] at hc
    have hf : flatRun ⟨some o, ixfrType, some b, false⟩ z0 (soaRR o (lastSoa cur (st :: rest)) :: []) =
        .ok (mid o ixfrType true (some b) false (soaRR o (lastSoa cur (st :: rest))) true false ⟨z0, false⟩ z0) := by
      simp [flatRun, Inbound.init, firstSoa, openTxn, writer, mid, hb2, hb3, procAnswers]
    have hB : procAnswers false (mid o ixfrType true (some b) false (soaRR o (lastSoa cur (st :: rest))) true false
        ⟨z0, false⟩ z0) [] = .ok _ := rfl
    exact raise_at rfl hf hB rfl (mid_soa_mismatch (fun h => hb1 h.symm)) hc

/-! ## through wire format

What `Inbound` is fed in a real transfer is `dns.message.from_wire(wire, xfr=True, one_rr_per_rrset=is_ixfr)`
of each message (`readMsg`, `parseAnswer`): from the first SOA of a message on, one rrset per record in wire
order; before it (continuation messages of an AXFR) records of one owner and type merge. -/

/-- **Nothing moves across an SOA when a message is read**: an SOA record and all that follows it in the
message come out as one rrset per record, in wire order, behind whatever preceded — so surplus records
after the final SOA are still after it when `process_message` looks (`fault_surplus_after_final_soa`). -/
theorem wire_keeps_order_from_soa (one : Bool) (l : List RR) (s : RR) (extra : List RR) (hs : s.rdtype = soaType) :
    parseAnswer one (l ++ s :: extra) =
      parseAnswer one l ++ single (clampTtl s) :: (extra.map clampTtl).map single :=
  parse_keeps_order_from_soa one l s extra hs

/-- an IXFR message is read one rrset per record (`TtlOk`: TTLs at most 2^31-1, as RFC 2181 has them;
a larger TTL is read as 0, `clampTtl`) -/
theorem wire_ixfr_one_rr (l : List RR) (h : TtlOk l) : parseAnswer true l = l.map single := parse_one_rr l h

/-- **IXFR read from the wire converges**: the server's records cut into wire messages in any way, each read
with `one_rr_per_rrset=True`. -/
theorem ixfr_wire_converges (o : Name) (v0 : Version) (vs : List Version) (z0 : Zone) (wms : List WireMsg)
    (recs : List RR) (hrecs : recs.map single = ixfrStream o v0.soa (diffSteps v0 vs))
    (hflat : wms.flatMap (·.recs) = recs) (httl : TtlOk recs) (hhdr : ∀ w ∈ wms, w.rcode = 0 ∧ w.question = [])
    (hfirst : ∀ w ∈ wms.head?, w.recs ≠ [])
    (hne : vs ≠ []) (hz0 : z0 ≃z zoneOf o v0) (hv0 : WfVersion o v0) (hvs : ∀ v ∈ vs, WfVersion o v)
    (hdist : ∀ v ∈ (v0 :: vs).dropLast, v.soa.rdata ≠ (lastVersion v0 vs).soa.rdata)
    (hs1 : (lastVersion v0 vs).soa.rdata.serial ≠ v0.soa.rdata.serial)
    (hs2 : serialLt (lastVersion v0 vs).soa.rdata.serial v0.soa.rdata.serial = false) :
    (run true ⟨some o, ixfrType, some v0.soa.rdata.serial, false⟩ z0 (wms.map (readMsg true))).err = none ∧
      (run true ⟨some o, ixfrType, some v0.soa.rdata.serial, false⟩ z0 (wms.map (readMsg true))).zone ≃z
        zoneOf o (lastVersion v0 vs) := by
  have hc : Chunks ⟨some o, ixfrType, some v0.soa.rdata.serial, false⟩ (ixfrStream o v0.soa (diffSteps v0 vs))
      (wms.map (readMsg true)) := by
    refine ⟨?_, ?_, ?_⟩
    · rw [← hrecs, ← hflat]
      rw [← hflat] at httl
      clear hfirst hhdr hflat
      induction wms with
      | nil => rfl
      | cons w rest ih =>
        simp only [List.flatMap_cons] at httl
        have h1 : TtlOk w.recs := fun r hr => httl r (List.mem_append.2 (Or.inl hr))
        have h2 := ih (fun r hr => httl r (List.mem_append.2 (Or.inr hr)))
        simp [readMsg, parse_one_rr _ h1, h2]
    · intro m hm
      simp only [List.mem_map] at hm
      obtain ⟨w, hw, rfl⟩ := hm
      exact ⟨(hhdr w hw).1, Or.inl (hhdr w hw).2⟩
    · intro m hm
      cases wms with
      | nil => simp at hm
      | cons w rest =>
        simp only [List.map_cons, List.head?_cons, Option.mem_def, Option.some.injEq] at hm
        subst hm
        have := hfirst w (by simp)
        have h1 : TtlOk w.recs := fun r hr => httl r (by rw [← hflat]; simp [hr])
        simp only [readMsg, parse_one_rr _ h1]
        intro h; exact this (List.map_eq_nil_iff.1 h)
  have := ixfr_converges o v0 vs z0 _ hne hz0 hv0 hvs hdist hs1 hs2 hc
  exact ⟨this.1, this.2.1⟩

/-- **AXFR read from the wire converges**: first message `SOA, b0`, any number of continuation messages
(each read with rrset merging, `one_rr_per_rrset=False`), last message `bl, SOA`; the zone ends as the set
of records sent, with their TTLs. -/
theorem axfr_wire_converges (o : Name) (soa : Soa) (z0 : Zone) (ser : Option Nat) (first last : WireMsg)
    (mids : List WireMsg) (b0 bl : List RR)
    (hf : first.recs = soaRec o soa :: b0) (hl : last.recs = bl ++ [soaRec o soa])
    (hhdr : ∀ w ∈ first :: mids ++ [last], w.rcode = 0 ∧ w.question = [])
    (hok : ∀ r ∈ b0 ++ mids.flatMap (·.recs) ++ bl, r.rdtype ≠ soaType ∧ isSubdomain r.owner o = true)
    (hco : Coherent ((b0 ++ mids.flatMap (·.recs) ++ bl) ++ [soaRec o soa]))
    (httl : TtlOk ((b0 ++ mids.flatMap (·.recs) ++ bl) ++ [soaRec o soa])) :
    (run true ⟨some o, axfrType, ser, false⟩ z0 ((first :: mids ++ [last]).map (readMsg false))).err = none ∧
      (run true ⟨some o, axfrType, ser, false⟩ z0 ((first :: mids ++ [last]).map (readMsg false))).zone ≃z
        ((b0 ++ mids.flatMap (·.recs) ++ bl) ++ [soaRec o soa]) := by
  have hsr : (soaRec o soa).rdtype = soaType := rfl
  have hcB : Coherent (b0 ++ mids.flatMap (·.recs) ++ bl) := hco.subset fun r hr => List.mem_append.2 (Or.inl hr)
  -- the three kinds of message, read
  have hts : (soaRec o soa).ttl ≤ 2147483647 := httl _ (by simp)
  have htB : TtlOk (b0 ++ mids.flatMap (·.recs) ++ bl) := fun r hr => httl r (List.mem_append.2 (Or.inl hr))
  have hcs : clampTtl (soaRec o soa) = soaRec o soa := by
    unfold clampTtl; rw [if_neg (Nat.not_lt.2 hts)]
  have e1 : parseAnswer false first.recs = soaRR o soa :: b0.map single := by
    rw [hf, parse_from_soa false _ _ hsr (fun r hr => by
      rcases List.mem_cons.1 hr with h | h
      · rw [h]; exact hts
      · exact htB r (by simp [h]))]; rfl
  have e3 : parseAnswer false last.recs = parseAnswer false bl ++ [soaRR o soa] := by
    rw [hl, parse_keeps_order_from_soa false bl _ [] hsr, hcs]; rfl
  have hmid := parse_mids (o := o) mids
    (fun m hm r hr => hok r (by simp only [List.mem_append, List.mem_flatMap]; exact Or.inl (Or.inr ⟨m, hm, hr⟩)))
    (hcB.subset fun r hr => by simp only [List.mem_append] at hr ⊢; exact Or.inl (Or.inr hr))
    (fun r hr => htB r (by simp only [List.mem_append]; exact Or.inl (Or.inr hr)))
  have hbl := parse_soa_free bl (fun r hr => (hok r (by simp [hr])).1)
    (hcB.subset fun r hr => List.mem_append.2 (Or.inr hr)) (fun r hr => htB r (List.mem_append.2 (Or.inr hr)))
  have hblok := rrsets_of_parse_ok (o := o) (fun r hr => hok r (by simp [hr])) hbl.1 hbl.2
  -- the version the parsed stream is the AXFR of
  let body' := b0.map single ++ (mids.flatMap fun m => parseAnswer false m.recs) ++ parseAnswer false bl
  have hbody : recsOfAll body' ≃z (b0 ++ mids.flatMap (·.recs) ++ bl) := by
    intro q
    simp only [body', recsOfAll_append, recsOfAll_singles, List.mem_append]
    rw [hmid.2 q, hbl.2 q]
  have hbok : BodyOk o body' := by
    intro rs hrs
    simp only [body', List.mem_append] at hrs
    rcases hrs with (h | h) | h
    · exact bodyOk_singles (fun r hr => hok r (by simp [hr])) rs h
    · exact hmid.1 rs h
    · exact hblok rs h
  have hzo : zoneOf o ⟨soa, body'⟩ ≃z ((b0 ++ mids.flatMap (·.recs) ++ bl) ++ [soaRec o soa]) := by
    intro q; simp only [zoneOf, List.mem_append]; rw [hbody q]; simp only [List.mem_append]
  have hc : Chunks ⟨some o, axfrType, ser, false⟩ (axfrStream o ⟨soa, body'⟩)
      ((first :: mids ++ [last]).map (readMsg false)) := by
    refine ⟨?_, ?_, ?_⟩
    · simp only [List.map_cons, List.map_append, List.flatMap_cons, List.flatMap_append, List.flatMap_map,
        readMsg, List.map_nil, List.flatMap_nil, List.append_nil, e1, e3, axfrStream, body']
      simp [List.append_assoc]
    · intro m hm
      simp only [List.mem_map] at hm
      obtain ⟨w, hw, rfl⟩ := hm
      exact ⟨(hhdr w hw).1, Or.inl (hhdr w hw).2⟩
    · intro m hm
      simp only [List.cons_append, List.map_cons, List.head?_cons, Option.mem_def, Option.some.injEq] at hm
      subst hm; simp [readMsg, e1]
  have := axfr_converges o ⟨soa, body'⟩ z0 ser _ hbok (Coherent.congr hzo hco) hc
  exact ⟨this.1, Zone.equiv_trans this.2.1 hzo⟩

/-! ## `dns.query.inbound_xfr`: UDP first, TCP retry -/

/-- the query `inbound_xfr` makes for a zone that holds version `v` announces `v`'s serial in an IXFR -/
theorem query_of_zone (o : Name) (v : Version) (z0 : Zone) (hz : z0 ≃z zoneOf o v) (hb : BodyOk o v.body) :
    queryOf (some o) z0 none = .ok (ixfrType, some v.soa.rdata.serial) := by
  simp [queryOf, makeQuery, serial_of_equiv hz hb]

/-- a supplied IXFR query runs with the serial of the SOA in its authority section -/
theorem query_of_supplied (origin : Option Name) (z0 : Zone) (s : Nat) :
    queryOf origin z0 (some (ixfrType, some s)) = .ok (ixfrType, some s) := by
  simp [queryOf, extractSerial, ixfrType, axfrType]

/-- **UseTCP from UDP leads to a TCP retry with the same query, and the zone converges.**  The server
answers the IXFR over UDP with the lone newer SOA; with `udp_mode = TRY_FIRST` the transfer is run again
over TCP with the same type and serial (the one the zone announces when no query was supplied, the one in
the query otherwise), on the untouched zone, and ends in the server's version — for every chain of versions
and every division of the TCP response into messages.  With `ONLY`, `UseTCP` is raised and the zone is as
it was. -/
theorem usetcp_retry_converges (o : Name) (v0 : Version) (vs : List Version) (z0 : Zone) (m : Msg) (more tcp : List Msg)
    (query : Option (Nat × Option Nat)) (hq : query = none ∨ query = some (ixfrType, some v0.soa.rdata.serial))
    (hne : vs ≠ []) (hz0 : z0 ≃z zoneOf o v0) (hv0 : WfVersion o v0) (hvs : ∀ v ∈ vs, WfVersion o v)
    (hdist : ∀ v ∈ (v0 :: vs).dropLast, v.soa.rdata ≠ (lastVersion v0 vs).soa.rdata)
    (hs1 : (lastVersion v0 vs).soa.rdata.serial ≠ v0.soa.rdata.serial)
    (hs2 : serialLt (lastVersion v0 vs).soa.rdata.serial v0.soa.rdata.serial = false)
    (hh : headerErrOf o ixfrType m = none) (ha : m.answer = [soaRR o (lastVersion v0 vs).soa])
    (hc : Chunks ⟨some o, ixfrType, some v0.soa.rdata.serial, false⟩ (ixfrStream o v0.soa (diffSteps v0 vs)) tcp) :
    inboundXfr true (some o) query .only z0 (m :: more) tcp = ⟨some .UseTCP, z0⟩ ∧
    inboundXfr true (some o) query .tryFirst z0 (m :: more) tcp =
      run true ⟨some o, ixfrType, some v0.soa.rdata.serial, false⟩ z0 tcp ∧
    (inboundXfr true (some o) query .tryFirst z0 (m :: more) tcp).err = none ∧
    (inboundXfr true (some o) query .tryFirst z0 (m :: more) tcp).zone ≃z zoneOf o (lastVersion v0 vs) := by
  have hqo : queryOf (some o) z0 query = .ok (ixfrType, some v0.soa.rdata.serial) := by
    rcases hq with h | h
    · rw [h]; exact query_of_zone o v0 z0 hz0 hv0.body
    · rw [h]; exact query_of_supplied (some o) z0 _
  have hudp := fault_use_tcp o z0 (lastVersion v0 vs).soa v0.soa.rdata.serial m more hh ha hs1 hs2
  have htcp := ixfr_converges o v0 vs z0 tcp hne hz0 hv0 hvs hdist hs1 hs2 hc
  have h1 : inboundXfr true (some o) query .only z0 (m :: more) tcp = ⟨some .UseTCP, z0⟩ := by
    simp [inboundXfr, hqo, hudp]
  have h2 : inboundXfr true (some o) query .tryFirst z0 (m :: more) tcp =
      run true ⟨some o, ixfrType, some v0.soa.rdata.serial, false⟩ z0 tcp := by
    simp [inboundXfr, hqo, hudp]
  exact ⟨h1, h2, by rw [h2]; exact htcp.1, by rw [h2]; exact htcp.2.1⟩

/-- a UDP attempt that completes, or fails with anything but `UseTCP`, is final: TCP is not tried -/
theorem udp_outcome_final (origin : Option Name) (query : Option (Nat × Option Nat)) (mode : UdpMode) (z0 : Zone)
    (udp tcp : List Msg) (s : Option Nat) (hq : queryOf origin z0 query = .ok (ixfrType, s)) (hm : mode ≠ .never)
    (hne : (run true ⟨origin, ixfrType, s, true⟩ z0 udp).err ≠ some .UseTCP) :
    inboundXfr true origin query mode z0 udp tcp = run true ⟨origin, ixfrType, s, true⟩ z0 udp := by
  unfold inboundXfr
  rw [hq]
  simp only [true_and, hm, ne_eq, not_false_eq_true, if_true]
  cases hr : run true ⟨origin, ixfrType, s, true⟩ z0 udp with
  | mk err zone =>
    rw [hr] at hne
    cases err with
    | none => rfl
    | some e => cases e <;> simp_all

/-! ## RFC 1982 comparison and the query helpers -/

/-- `Serial(a) < b` is irreflexive and asymmetric (RFC 1982 §3.2), so "went backwards" and "is ahead"
exclude each other -/
theorem serialLt_asymm (a b : Nat) : serialLt a b = true → serialLt b a = false := by
  unfold serialLt two32 two31
  simp only [Bool.or_eq_true, Bool.and_eq_true, decide_eq_true_eq, Bool.or_eq_false_iff, Bool.and_eq_false_iff,
    decide_eq_false_iff_not]
  omega

/-- a server that is `k` increments ahead, `0 < k < 2^31`, is never "behind" — also across the wrap at 2^32 -/
theorem serialLt_ahead (a k : Nat) (hk : 0 < k) (hk2 : k < 2147483648) :
    serialLt ((a + k) % 4294967296) a = false ∧ (a + k) % 4294967296 ≠ a % 4294967296 := by
  unfold serialLt two32 two31
  simp only [Bool.or_eq_false_iff, Bool.and_eq_false_iff, decide_eq_false_iff_not]
  omega

/-- `extract_serial_from_query(make_query(zone, serial)[0])` is the serial `make_query` announces -/
theorem extract_of_make (origin : Option Name) (z : Zone) (ser : Option Int) (t : Nat) (s : Option Nat)
    (h : makeQuery origin z ser = .ok (t, s)) : extractSerial t s = .ok s := by
  unfold makeQuery at h
  repeat' split at h
  all_goals first
    | (cases h; done)
    | (cases h; simp [extractSerial, axfrType, ixfrType])

/-! ## non-vacuity -/

def exO : Name := [[101, 120], []]
def exA : Name := [[97], [101, 120], []]
def exB : Name := [[98], [101, 120], []]
/-- v0: apex NS; a has two A records (TTL 300) -/
def exV0 : Version := ⟨⟨⟨4294967294, 0⟩, 3600⟩, [⟨exO, 2, 300, [⟨0, 1⟩]⟩, ⟨exA, 1, 300, [⟨0, 2⟩, ⟨0, 3⟩]⟩]⟩
/-- v1: a's A rrset is replaced by a CNAME (delete, then add); b appears; serial 2^32-1 -/
def exV1 : Version := ⟨⟨⟨4294967295, 0⟩, 3600⟩, [⟨exO, 2, 300, [⟨0, 1⟩]⟩, ⟨exA, 5, 60, [⟨0, 9⟩]⟩, ⟨exB, 28, 300, [⟨0, 4⟩]⟩]⟩
/-- v2: the TTL of b's AAAA rrset changes and it grows; the serial wraps to 1; the SOA's other fields change -/
def exV2 : Version := ⟨⟨⟨1, 7⟩, 600⟩, [⟨exO, 2, 300, [⟨0, 1⟩]⟩, ⟨exA, 5, 60, [⟨0, 9⟩]⟩, ⟨exB, 28, 60, [⟨0, 4⟩, ⟨0, 5⟩]⟩]⟩

instance (z : Zone) : Decidable (Coherent z) := by unfold Coherent; infer_instance

/-- the hypotheses of `ixfr_converges` are met by a two-step chain in which an A rrset is replaced by a
CNAME, a TTL changes and the serial wraps around 2^32; cut into three messages, the model ends in the last
version (records with TTLs) -/
example : exV1.soa.rdata ≠ exV2.soa.rdata ∧ serialLt exV2.soa.rdata.serial exV0.soa.rdata.serial = false ∧
    Coherent (zoneOf exO exV0) ∧ Coherent (zoneOf exO exV1) ∧ Coherent (zoneOf exO exV2) ∧
    (recsOfAll exV1.body).Nodup ∧
    (let recs := ixfrStream exO exV0.soa (diffSteps exV0 [exV1, exV2])
     let msgs : List Msg := [⟨0, [], recs.take 2⟩, ⟨0, [(exO, ixfrType)], (recs.drop 2).take 3⟩, ⟨0, [], recs.drop 5⟩]
     (run true ⟨some exO, ixfrType, some 4294967294, false⟩ (zoneOf exO exV0) msgs).err = none ∧
     ∀ r ∈ zoneOf exO exV2, r ∈ (run true ⟨some exO, ixfrType, some 4294967294, false⟩ (zoneOf exO exV0) msgs).zone) := by
  decide

/-- out-of-zone glue in an AXFR body is skipped (`axfr_converges_with_out_of_zone` at a witness: the
hypotheses hold and the glue record does not reach the zone) -/
example :
    let glue : RRset := ⟨[[110, 115], [111, 116, 104, 101, 114], []], 1, 300, [⟨0, 8⟩]⟩
    let v : Version := ⟨exV0.soa, [⟨exO, 2, 300, [⟨0, 1⟩]⟩, glue, ⟨exA, 1, 300, [⟨0, 2⟩]⟩]⟩
    BodyOkOoz v.body ∧ Coherent (zoneOf exO ⟨v.soa, inZone exO v.body⟩) ∧ (inZone exO v.body).length = 2 ∧
    (run true ⟨some exO, axfrType, none, false⟩ [] [⟨0, [], (axfrStream exO v).take 3⟩, ⟨0, [], (axfrStream exO v).drop 3⟩]).err = none ∧
    (run true ⟨some exO, axfrType, none, false⟩ [] [⟨0, [], (axfrStream exO v).take 3⟩, ⟨0, [], (axfrStream exO v).drop 3⟩]).zone.length = 3 := by
  refine ⟨?_, by decide, by decide, by decide, by decide⟩
  intro rs hrs
  simp only [List.mem_cons, List.not_mem_nil, or_false] at hrs
  rcases hrs with rfl | rfl | rfl <;> decide

/-- a UDP datagram with the first 3 of the 10 records of the chain above: `FormError`, zone untouched -/
example :
    let recs := ixfrStream exO exV0.soa (diffSteps exV0 [exV1, exV2])
    run true ⟨some exO, ixfrType, some 4294967294, true⟩ (zoneOf exO exV0) [⟨0, [], recs.take 3⟩] =
      ⟨some .FormError, zoneOf exO exV0⟩ := by
  decide

/-- the caller stops after 5 of the 10 records of the chain above (between the two difference sequences)
and leaves the block normally: not done, zone untouched — although the working copy had changed -/
example :
    let recs := ixfrStream exO exV0.soa (diffSteps exV0 [exV1, exV2])
    let d := drive true ⟨some exO, ixfrType, some 4294967294, false⟩ (zoneOf exO exV0) [⟨0, [], recs.take 2⟩, ⟨0, [], (recs.drop 2).take 3⟩] false
    d.err = none ∧ d.done = false ∧ d.zone = zoneOf exO exV0 := by
  decide

/-- an AXFR into a zone whose serial equals the server's (or is "ahead" of it, or 0 against a serial above
2^31) completes all the same -/
example :
    let v : Version := ⟨⟨⟨2147483653, 0⟩, 300⟩, [⟨exO, 2, 300, [⟨0, 1⟩]⟩]⟩
    let m : Msg := ⟨0, [], axfrStream exO v⟩
    (run true ⟨some exO, axfrType, some 2147483653, false⟩ [] [m]).err = none ∧
    (run true ⟨some exO, axfrType, some 2147483654, false⟩ [] [m]).err = none ∧
    (run true ⟨some exO, axfrType, some 0, false⟩ [] [m]) = (run true ⟨some exO, axfrType, none, false⟩ [] [m]) := by
  decide

/-- an incoherent "version" (A next to a CNAME) is not a counterexample: `Coherent` refuses it -/
example : ¬ Coherent [⟨exA, 1, ⟨0, 2⟩, 300⟩, ⟨exA, 5, ⟨0, 9⟩, 300⟩] := by decide

/-- surplus after the final SOA in the same message: refused before committing (the former defect D11) -/
example :
    let soa := soaRR exO ⟨⟨2, 0⟩, 300⟩
    let m : Msg := ⟨0, [], [soa, ⟨exO, 2, 300, [⟨0, 1⟩]⟩, soa, ⟨[[120], [101, 120], []], 1, 300, [⟨0, 9⟩]⟩]⟩
    run true ⟨some exO, axfrType, none, false⟩ [] [m] = ⟨some .FormError, []⟩ ∧
    (run false ⟨some exO, axfrType, none, false⟩ [] [m]).zone ≠ [] := by
  decide

end C13

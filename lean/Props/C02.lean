import Model.RdataSchema
import Model.RdataIrregular
import Model.RdataTable
import Proofs.RdataBytes
import Proofs.RdataName
import Proofs.RdataCodec
import Proofs.RdataSound
import Proofs.RdataTable
import Proofs.RdataLoc
import Proofs.RdataSvcb
import Proofs.RdataApl
/-!
# C02 — every record type's wire form round-trips and re-encodes byte-identically

Theorems of record.  `Model.RdataSchema` is the schema language (`enc`, `dec` inside the `restrict_to` discipline,
`valid` = what the constructors enforce plus names that survive the trip, `wf` = static tail-position /
length-prefix discipline of a schema); `Model.RdataTable.table` maps each implemented (class, type) to its schema.
`ConstsC02.*` / `Consts.*` are regenerated from the working tree on every run and are the table's actual parameters
(`implementedTypes`, DS/CDS/ZONEMD digest lengths, `Rcode` maximum, EUI lengths, LOC bounds, bitmap octet limit,
`MAX_TTL`, 63/255 name limits).
-/
namespace C02
open Model

/-- *"For every … well-formed value, encoding to wire and decoding yields an equal record"* — generic form:
for a statically well-formed schema and a valid value, decoding the encoding (behind any prefix, the slice being
exactly the encoding) returns the value, has consumed the whole slice, and leaves nothing.
*"with or without an origin for relative names"*: `o` is arbitrary; `valid` then asks relative names to fit with
the origin (see `valid_rel_example`). -/
theorem enc_dec (s : Schema) (o : Option Name) (v : Val) (hs : wf s = true) (hv : valid s o v = true) (pfx : Bytes) :
    dec s o pfx (enc s o v) = .ok (v, pfx ++ enc s o v, []) :=
  (rt_all o s).2 hs v hv pfx

/-- the same in front of an arbitrary continuation, for self-delimiting schemas (every non-final field) -/
theorem enc_dec_sd (s : Schema) (o : Option Name) (v : Val) (hs : sd s = true) (hv : valid s o v = true)
    (pfx tl : Bytes) :
    dec s o pfx (enc s o v ++ tl) = .ok (v, pfx ++ enc s o v, tl) :=
  (rt_all o s).1 hs v hv pfx tl

/-- `dns.rdata.from_wire` level: the encoding, offered as an RDATA slice of exactly its length, decodes to the value -/
theorem decode_encode (s : Schema) (o : Option Name) (v : Val) (hs : wf s = true) (hv : valid s o v = true)
    (pfx : Bytes) : decodeWith s o pfx (enc s o v) = .ok v := by
  simp [decodeWith, enc_dec s o v hs hv pfx]

/-- *"… whose re-encoding is byte-identical"*: encoding what the decoder returned for an encoding gives the
same octets. -/
theorem reencode_identical (s : Schema) (o : Option Name) (v : Val) (hs : wf s = true) (hv : valid s o v = true)
    (pfx : Bytes) :
    ∃ v', decodeWith s o pfx (enc s o v) = .ok v' ∧ enc s o v' = enc s o v :=
  ⟨v, decode_encode s o v hs hv pfx, rfl⟩

/-- *"Decoding arbitrary octets … either reports a format error or yields a record that consumed exactly the
declared RDATA length"*: an accepted slice was read to its end (`restrict_to`), nothing is left, and the parser
position is the end of the slice. -/
theorem exact_consumption (s : Schema) (o : Option Name) (pfx rdata : Bytes) (v : Val) (hs : wf s = true)
    (hoct : OctetsOkB rdata) (hN : NameSound o) (h : decodeWith s o pfx rdata = .ok v) :
    dec s o pfx rdata = .ok (v, pfx ++ rdata, []) := by
  unfold decodeWith at h
  split at h
  · simp at h
  · rename_i v' p left h1
    split at h
    · rename_i hl
      simp at h; subst h; subst hl
      obtain ⟨_, c, e1, e2⟩ := dec_sound o hN s hs _ _ _ _ _ hoct h1
      simp at e1; subst e1; subst e2; exact h1
    · simp at h

/-- *"… and whose encoding is a fixed point of decode-then-encode"* — generic form: whatever octet string the
decoder accepts, the value it returns is valid, so its encoding decodes to the same value again (behind any
prefix) and re-encodes to itself. -/
theorem dec_fixpoint (s : Schema) (o : Option Name) (pfx rdata : Bytes) (v : Val) (hs : wf s = true)
    (hoct : OctetsOkB rdata) (hN : NameSound o) (h : decodeWith s o pfx rdata = .ok v) :
    valid s o v = true ∧ ∀ pfx', decodeWith s o pfx' (enc s o v) = .ok v := by
  have h1 := exact_consumption s o pfx rdata v hs hoct hN h
  have hv := (dec_sound o hN s hs _ _ _ _ _ hoct h1).1
  exact ⟨hv, fun pfx' => decode_encode s o v hs hv pfx'⟩

/-- the hypothesis `NameSound` of the two theorems above holds without an origin … -/
theorem nameSound_no_origin : NameSound none := nameSound_none

/-- … and with any legal absolute origin (decoded names are relativized against it, re-encoding appends it) -/
theorem nameSound_origin (org : Name) (hw : WfName org) (ha : isAbs org = true) : NameSound (some org) :=
  nameSound_some org hw ha

/-- every schema of the table is statically well formed (tail position of `rest`/`rep`, non-empty repeat items,
length prefixes that the re-encoded body fits) — by evaluation over the complete table, HIP by a lemma. -/
theorem table_wf : ∀ e ∈ table, wf e.schema = true := table_wf'

/-- *"For every implemented record type …"*: the generic theorems instantiated at every table entry.
`e.pre`/`e.post` are the identity for all but the types with an object-level view (LOC, APL, OPT, SVCB, HTTPS). -/
theorem all_types_roundtrip : ∀ e ∈ table, ∀ (o : Option Name) (v : Val) (pfx : Bytes),
    valid e.schema o (e.pre v) = true → e.post (e.pre v) = some v →
    e.decode o pfx (e.encode o v) = .ok v := by
  intro e he o v pfx hv hp
  simp [Entry.decode, Entry.encode, decode_encode e.schema o (e.pre v) (table_wf e he) hv pfx, hp]

/-- for the types whose object-level tree is the decoded tree itself, no side condition but `valid` -/
theorem regular_types_roundtrip : ∀ e ∈ table, e.custom = none → ∀ (o : Option Name) (v : Val) (pfx : Bytes),
    valid e.schema o v = true → e.decode o pfx (e.encode o v) = .ok v := by
  intro e he hc o v pfx hv
  apply all_types_roundtrip e he o v pfx <;> simp [Entry.pre, Entry.post, hc, hv]

/-- decode–encode–decode fixed point at every regular table entry, any accepted octet string -/
theorem regular_types_fixpoint : ∀ e ∈ table, e.custom = none → ∀ (o : Option Name) (pfx rdata : Bytes) (v : Val),
    OctetsOkB rdata → NameSound o → e.decode o pfx rdata = .ok v →
    ∀ pfx', e.decode o pfx' (e.encode o v) = .ok v ∧
      (∀ v', e.decode o pfx' (e.encode o v) = .ok v' → e.encode o v' = e.encode o v) := by
  intro e he hc o pfx rdata v hoct hN h pfx'
  have hd : decodeWith e.schema o pfx rdata = .ok v := by
    simp only [Entry.decode, Entry.post, hc] at h
    split at h
    · simp at h
    · rename_i w hw; simp at h; subst h; exact hw
  obtain ⟨hv, hfix⟩ := dec_fixpoint e.schema o pfx rdata v (table_wf e he) hoct hN hd
  have h1 : e.decode o pfx' (e.encode o v) = .ok v := by
    simp [Entry.decode, Entry.encode, Entry.pre, Entry.post, hc, hfix pfx']
  refine ⟨h1, fun v' h2 => ?_⟩
  rw [h1] at h2; simp at h2; subst h2; rfl

/-- decode–encode–decode fixed point through an object-level view: if the raw record rebuilt from the view of a
valid raw record is valid and its own view rebuilds the same raw record (`hpp`), then for every accepted octet
string the encoding of the decoded object decodes again, and what comes out encodes to the same octets. -/
theorem custom_fixpoint (e : Entry) (o : Option Name) (hwf : wf e.schema = true)
    (hpp : ∀ r w, valid e.schema o r = true → e.post r = some w →
      valid e.schema o (e.pre w) = true ∧ ∃ w', e.post (e.pre w) = some w' ∧ e.pre w' = e.pre w)
    (pfx rdata : Bytes) (v : Val) (hoct : OctetsOkB rdata) (hN : NameSound o)
    (h : e.decode o pfx rdata = .ok v) (pfx' : Bytes) :
    ∃ v', e.decode o pfx' (e.encode o v) = .ok v' ∧ e.encode o v' = e.encode o v := by
  unfold Entry.decode at h
  split at h
  · simp at h
  · rename_i r hr
    split at h
    · rename_i w hw
      simp at h; subst h
      obtain ⟨hv, _⟩ := dec_fixpoint e.schema o pfx rdata r hwf hoct hN hr
      obtain ⟨hv', w', hp, he⟩ := hpp r w hv hw
      refine ⟨w', ?_, ?_⟩
      · simp [Entry.decode, Entry.encode, decode_encode e.schema o (e.pre w) hwf hv' pfx', hp]
      · simp [Entry.encode, he]
    · simp at h

/-- LOC (sizes `base·10^exp`, coordinates as degrees/minutes/seconds/milliseconds/hemisphere): the decoded object
is reproduced exactly by decoding its own encoding -/
theorem loc_fixpoint (o : Option Name) (pfx rdata : Bytes) (v : Val) (hoct : OctetsOkB rdata) (hN : NameSound o)
    (h : (lookup 1 29).decode o pfx rdata = .ok v) (pfx' : Bytes) :
    (lookup 1 29).decode o pfx' ((lookup 1 29).encode o v) = .ok v := by
  have hwf := lookup_wf 1 29
  unfold Entry.decode at h
  split at h
  · simp at h
  · rename_i r hr
    split at h
    · rename_i w hw
      simp at h; subst h
      obtain ⟨hv, _⟩ := dec_fixpoint (lookup 1 29).schema o pfx rdata r hwf hoct hN hr
      obtain ⟨a, b⟩ := loc_pre_post o r w hv hw
      have b' : (lookup 1 29).post ((lookup 1 29).pre w) = some w := b
      simp [Entry.decode, Entry.encode, decode_encode (lookup 1 29).schema o ((lookup 1 29).pre w) hwf a pfx', b']
    · simp at h

/-- SVCB and HTTPS (ascending keys, a repeated key keeps its last value, AliasMode without parameters, mandatory
keys present): the decoded object is reproduced exactly by decoding its own encoding -/
theorem svcb_fixpoint (t : Nat) (ht : t = 64 ∨ t = 65) (o : Option Name) (pfx rdata : Bytes) (v : Val)
    (hoct : OctetsOkB rdata) (hN : NameSound o)
    (h : (lookup 1 t).decode o pfx rdata = .ok v) (pfx' : Bytes) :
    (lookup 1 t).decode o pfx' ((lookup 1 t).encode o v) = .ok v := by
  have key : ∀ e : Entry, wf e.schema = true → e.schema = svcbSchema → e.custom = some ⟨svcbPost, id⟩ →
      e.decode o pfx rdata = .ok v → e.decode o pfx' (e.encode o v) = .ok v := by
    intro e hwf hs hc h
    unfold Entry.decode at h
    split at h
    · simp at h
    · rename_i r hr
      split at h
      · rename_i w hw
        simp at h; subst h
        obtain ⟨hv, _⟩ := dec_fixpoint e.schema o pfx rdata r hwf hoct hN hr
        have hw' : svcbPost r = some w := by simpa [Entry.post, hc] using hw
        rw [hs] at hv
        obtain ⟨a, b⟩ := svcb_post_post o r w hv hw'
        have hpre : e.pre w = w := by simp [Entry.pre, hc]
        simp [Entry.decode, Entry.encode, hpre, hs, decode_encode svcbSchema o w (by rw [← hs]; exact hwf) a pfx',
          Entry.post, hc, b]
      · simp at h
  rcases ht with rfl | rfl
  · exact key _ (lookup_wf 1 64) rfl rfl h
  · exact key _ (lookup_wf 1 65) rfl rfl h

/-- APL (IPv4/IPv6 prefixes kept padded, other families as they came, trailing zero octets not transmitted):
the encoding of a decoded object is a fixed point of decode-then-encode -/
theorem apl_fixpoint (o : Option Name) (pfx rdata : Bytes) (v : Val) (hoct : OctetsOkB rdata) (hN : NameSound o)
    (h : (lookup 1 42).decode o pfx rdata = .ok v) (pfx' : Bytes) :
    ∃ v', (lookup 1 42).decode o pfx' ((lookup 1 42).encode o v) = .ok v' ∧
      (lookup 1 42).encode o v' = (lookup 1 42).encode o v :=
  custom_fixpoint (lookup 1 42) o (lookup_wf 1 42) (fun r w hr hw => apl_pre_post o r w hr hw)
    pfx rdata v hoct hN h pfx'

/-- *"(and unknown types in RFC 3597 generic form)"*: a (class, type) without a table entry is handled by the
generic entry, whose codec is the identity on the octets. -/
theorem generic_roundtrip (c t : Nat) (h : ∀ e ∈ table, ¬(e.typ = t ∧ (e.cls = c ∨ e.cls = anyClass)))
    (o : Option Name) (b pfx : Bytes) :
    (lookup c t).mnemonic = "GENERIC" ∧
    (lookup c t).encode o (.bytes b) = b ∧ (lookup c t).decode o pfx b = .ok (.bytes b) := by
  have h1 : table.find? (fun e => e.cls == c && e.typ == t) = none := by
    rw [List.find?_eq_none]; intro e he; have := h e he; simp; intro h1 h2; exact this ⟨h2, Or.inl h1⟩
  have h2 : table.find? (fun e => e.cls == anyClass && e.typ == t) = none := by
    rw [List.find?_eq_none]; intro e he; have := h e he; simp; intro h1 h2; exact this ⟨h2, Or.inr h1⟩
  simp [lookup, h1, h2, genericEntry, Entry.encode, Entry.decode, Entry.pre, Entry.post, decodeWith, dec, enc]

/-- every (class, type) with a module in the working tree has a schema in the model (or is declared oracle-only):
a type added to the code without a schema makes this obligation fail. -/
theorem implemented_covered :
    ∀ p ∈ ConstsC02.implementedTypes, p ∈ modelledTypes ∨ p ∈ declaredOracleOnly := by decide

/-- … and the model has no entry for a type that the code does not implement -/
theorem modelled_implemented : ∀ p ∈ modelledTypes, p ∈ ConstsC02.implementedTypes := by decide

/-- the constants and finite tables read from the code are the ones the schemas were written against
(RFC 3658/4509/5933/6605 DS digest lengths, RFC 8078 CDS delete, RFC 8976 ZONEMD, 12-bit extended rcode, EUI sizes,
RFC 1876 coordinate limits, 32-octet bitmap windows, the EDNS option / SVCB parameter codes with a dedicated codec,
32-bit TTLs).  A changed constant in the code breaks this obligation even where the codec stays self-consistent. -/
theorem consts_as_specified :
    ConstsC02.dsDigestLen = [(1, 20), (2, 32), (3, 32), (4, 48)] ∧
    ConstsC02.cdsDigestLen = [(0, 1), (1, 20), (2, 32), (3, 32), (4, 48)] ∧
    ConstsC02.zonemdDigestLen = [(1, 48), (2, 64)] ∧
    ConstsC02.rcodeMax = 4095 ∧ ConstsC02.eui48Len = 6 ∧ ConstsC02.eui64Len = 8 ∧
    ConstsC02.locMinLat = 2 ^ 31 - 90 * 3600000 ∧ ConstsC02.locMaxLat = 2 ^ 31 + 90 * 3600000 ∧
    ConstsC02.locMinLon = 2 ^ 31 - 180 * 3600000 ∧ ConstsC02.locMaxLon = 2 ^ 31 + 180 * 3600000 ∧
    ConstsC02.bitmapMaxLen = 32 ∧
    ConstsC02.ednsOptionClasses = [3, 8, 10, 15, 18, 22, 23, 24, 25] ∧
    ConstsC02.svcbParamClasses = [0, 1, 2, 3, 4, 5, 6, 8, 10] ∧
    Consts.maxTTL = 2 ^ 32 - 1 ∧ Consts.maxLabel = 63 ∧ Consts.maxName = 255 := by decide

/-! ## recorded defect of the unchanged tree (KNOWN_FINDINGS.json, `C02/fixpoint/EDE-text-ends-with-NUL/ANY-41`)

OPT is one of the types with an object-level view (`optPost`); the model follows the code as shipped:
`EDEOption.from_wire_parser` drops *one* trailing NUL of the EXTRA-TEXT and `to_wire` writes the text as stored.
For these entries the fixed-point clause is not a theorem; its negation is proved at the witness.
Full statement that fails:  `∀ b v, (lookup c 41).decode o pfx b = .ok v →
  (lookup c 41).decode o pfx' ((lookup c 41).encode o v) = .ok v`. -/

/-- an EDE option with text `61 00 00`: decoding yields text `61 00`, whose encoding decodes to text `61` and
re-encodes to different octets — not a fixed point -/
theorem ede_trailing_nul_not_fixpoint :
    ∃ v v', (lookup 4096 41).decode none [] [0, 15, 0, 5, 0, 3, 97, 0, 0] = .ok v ∧
      (lookup 4096 41).decode none [] ((lookup 4096 41).encode none v) = .ok v' ∧
      (lookup 4096 41).encode none v' ≠ (lookup 4096 41).encode none v := by
  refine ⟨.list [.pair (.nat 15) (.pair (.nat 3) (.bytes [97, 0]))],
          .list [.pair (.nat 15) (.pair (.nat 3) (.bytes [97]))], ?_, ?_, ?_⟩
  · rfl
  · rfl
  · decide

/-! ## non-vacuity -/

/-- MX 10 mail.example. (absolute, no origin) is valid -/
example : valid mxSchema none (.pair (.nat 10) (.name [[109, 97, 105, 108], [101, 120], []])) = true := by decide

/-- a relative name with an origin is valid (`valid_rel_example`) -/
theorem valid_rel_example :
    valid mxSchema (some [[101, 120], []]) (.pair (.nat 65535) (.name [[109, 0, 255]])) = true := by decide

/-- an NSEC3 with salt, hash and two bitmap windows is valid, all octet values allowed in opaque fields -/
example : valid (Schema.seq [u8, u8, u16, c8, c8, bitmap]) none
    (seqV [.nat 1, .nat 0, .nat 10, .bytes [0, 255, 34, 92], .bytes [1, 2, 3],
           .list [.pair (.nat 0) (.bytes [64, 1]), .pair (.nat 255) (.bytes [128])]]) = true := by decide

/-- an unknown type code takes the generic path -/
example : ∀ e ∈ table, ¬(e.typ = 65280 ∧ (e.cls = 1 ∨ e.cls = anyClass)) := by decide

/-- the root origin is a legal origin -/
example : WfName [[]] ∧ isAbs [[]] = true := by
  refine ⟨⟨?_, ?_, ?_⟩, ?_⟩ <;> decide

end C02

import Model.RdataSchema
import Model.RdataIrregular
import Model.RdataTable
import Proofs.RdataBytes
import Proofs.RdataName
import Proofs.RdataCodec
import Proofs.RdataSound
import Proofs.RdataTable
import Proofs.RdataLoc
import Proofs.RdataSvcb
import Proofs.RdataApl
import Proofs.RdataOpt
import Model.RdataDispatch
import Proofs.RdataDispatch
/-!
# C02 — every record type's wire form round-trips and re-encodes byte-identically

Theorems of record.  `Model.RdataSchema` is the schema language (`enc`, `dec` inside the `restrict_to` discipline,
`valid` = what the constructors enforce plus names that survive the trip, `wf` = static tail-position /
length-prefix discipline of a schema); `Model.RdataTable.table` maps each implemented (class, type) to its schema.
`ConstsC02.*` / `Consts.*` are regenerated from the working tree on every run and are the table's actual parameters
(`implementedTypes`, DS/CDS/ZONEMD digest lengths, `Rcode` maximum, EUI lengths, LOC bounds, bitmap octet limit,
`MAX_TTL`, 63/255 name limits).
-/
namespace C02
open Model

/-- *"For every … well-formed value, encoding to wire and decoding yields an equal record"* — generic form:
for a statically well-formed schema and a valid value, decoding the encoding (behind any prefix, the slice being
exactly the encoding) returns the value, has consumed the whole slice, and leaves nothing.
*"with or without an origin for relative names"*: `o` is arbitrary; `valid` then asks relative names to fit with
the origin (see `valid_rel_example`). -/
theorem enc_dec (s : Schema) (o : Option Name) (v : Val) (hs : wf s = true) (hv : valid s o v = true) (pfx : Bytes) :
    dec s o pfx (enc s o v) = .ok (v, pfx ++ enc s o v, []) :=
  (rt_all o s).2 hs v hv pfx

/-- the same in front of an arbitrary continuation, for self-delimiting schemas (every non-final field) -/
theorem enc_dec_sd (s : Schema) (o : Option Name) (v : Val) (hs : sd s = true) (hv : valid s o v = true)
    (pfx tl : Bytes) :
    dec s o pfx (enc s o v ++ tl) = .ok (v, pfx ++ enc s o v, tl) :=
  (rt_all o s).1 hs v hv pfx tl

/-- `dns.rdata.from_wire` level: the encoding, offered as an RDATA slice of exactly its length, decodes to the value -/
theorem decode_encode (s : Schema) (o : Option Name) (v : Val) (hs : wf s = true) (hv : valid s o v = true)
    (pfx : Bytes) : decodeWith s o pfx (enc s o v) = .ok v := by
  simp [decodeWith, enc_dec s o v hs hv pfx]

/-- *"… whose re-encoding is byte-identical"*: encoding what the decoder returned for an encoding gives the
same octets. -/
theorem reencode_identical (s : Schema) (o : Option Name) (v : Val) (hs : wf s = true) (hv : valid s o v = true)
    (pfx : Bytes) :
    ∃ v', decodeWith s o pfx (enc s o v) = .ok v' ∧ enc s o v' = enc s o v :=
  ⟨v, decode_encode s o v hs hv pfx, rfl⟩

/-- *"Decoding arbitrary octets … either reports a format error or yields a record that consumed exactly the
declared RDATA length"*: an accepted slice was read to its end (`restrict_to`), nothing is left, and the parser
position is the end of the slice. -/
theorem exact_consumption (s : Schema) (o : Option Name) (pfx rdata : Bytes) (v : Val) (hs : wf s = true)
    (hoct : OctetsOkB rdata) (hN : NameSound o) (h : decodeWith s o pfx rdata = .ok v) :
    dec s o pfx rdata = .ok (v, pfx ++ rdata, []) := by
  unfold decodeWith at h
  split at h
  · simp at h
  · rename_i v' p left h1
    split at h
    · rename_i hl
      simp at h; subst h; subst hl
      obtain ⟨_, c, e1, e2⟩ := dec_sound o hN s hs _ _ _ _ _ hoct h1
      simp at e1; subst e1; subst e2; exact h1
    · simp at h

/-- *"… and whose encoding is a fixed point of decode-then-encode"* — generic form: whatever octet string the
decoder accepts, the value it returns is valid, so its encoding decodes to the same value again (behind any
prefix) and re-encodes to itself. -/
theorem dec_fixpoint (s : Schema) (o : Option Name) (pfx rdata : Bytes) (v : Val) (hs : wf s = true)
    (hoct : OctetsOkB rdata) (hN : NameSound o) (h : decodeWith s o pfx rdata = .ok v) :
    valid s o v = true ∧ ∀ pfx', decodeWith s o pfx' (enc s o v) = .ok v := by
  have h1 := exact_consumption s o pfx rdata v hs hoct hN h
  have hv := (dec_sound o hN s hs _ _ _ _ _ hoct h1).1
  exact ⟨hv, fun pfx' => decode_encode s o v hs hv pfx'⟩

/-- the hypothesis `NameSound` of the two theorems above holds without an origin … -/
theorem nameSound_no_origin : NameSound none := nameSound_none

/-- … and with any legal absolute origin (decoded names are relativized against it, re-encoding appends it) -/
theorem nameSound_origin (org : Name) (hw : WfName org) (ha : isAbs org = true) : NameSound (some org) :=
  nameSound_some org hw ha

/-- every schema of the table is statically well formed (tail position of `rest`/`rep`, non-empty repeat items,
length prefixes that the re-encoded body fits) — by evaluation over the complete table, HIP by a lemma. -/
theorem table_wf : ∀ e ∈ table, wf e.schema = true := table_wf'

/-- *"For every implemented record type …"*: the generic theorems instantiated at every table entry.
`e.pre`/`e.post` are the identity for all but the types with an object-level view (LOC, APL, OPT, SVCB, HTTPS). -/
theorem all_types_roundtrip : ∀ e ∈ table, ∀ (o : Option Name) (v : Val) (pfx : Bytes),
    valid e.schema o (e.pre v) = true → e.post (e.pre v) = some v →
    e.decode o pfx (e.encode o v) = .ok v := by
  intro e he o v pfx hv hp
  simp [Entry.decode, Entry.encode, decode_encode e.schema o (e.pre v) (table_wf e he) hv pfx, hp]

/-- for the types whose object-level tree is the decoded tree itself, no side condition but `valid` -/
theorem regular_types_roundtrip : ∀ e ∈ table, e.custom = none → ∀ (o : Option Name) (v : Val) (pfx : Bytes),
    valid e.schema o v = true → e.decode o pfx (e.encode o v) = .ok v := by
  intro e he hc o v pfx hv
  apply all_types_roundtrip e he o v pfx <;> simp [Entry.pre, Entry.post, hc, hv]

/-- decode–encode–decode fixed point at every regular table entry, any accepted octet string -/
theorem regular_types_fixpoint : ∀ e ∈ table, e.custom = none → ∀ (o : Option Name) (pfx rdata : Bytes) (v : Val),
    OctetsOkB rdata → NameSound o → e.decode o pfx rdata = .ok v →
    ∀ pfx', e.decode o pfx' (e.encode o v) = .ok v ∧
      (∀ v', e.decode o pfx' (e.encode o v) = .ok v' → e.encode o v' = e.encode o v) := by
  intro e he hc o pfx rdata v hoct hN h pfx'
  have hd : decodeWith e.schema o pfx rdata = .ok v := by
    simp only [Entry.decode, Entry.post, hc] at h
    split at h
    · simp at h
    · rename_i w hw; simp at h; subst h; exact hw
  obtain ⟨hv, hfix⟩ := dec_fixpoint e.schema o pfx rdata v (table_wf e he) hoct hN hd
  have h1 : e.decode o pfx' (e.encode o v) = .ok v := by
    simp [Entry.decode, Entry.encode, Entry.pre, Entry.post, hc, hfix pfx']
  refine ⟨h1, fun v' h2 => ?_⟩
  rw [h1] at h2; simp at h2; subst h2; rfl

/-- decode–encode–decode fixed point through an object-level view: if the raw record rebuilt from the view of a
valid raw record is valid and its own view rebuilds the same raw record (`hpp`), then for every accepted octet
string the encoding of the decoded object decodes again, and what comes out encodes to the same octets. -/
theorem custom_fixpoint (e : Entry) (o : Option Name) (hwf : wf e.schema = true)
    (hpp : ∀ r w, valid e.schema o r = true → e.post r = some w →
      valid e.schema o (e.pre w) = true ∧ ∃ w', e.post (e.pre w) = some w' ∧ e.pre w' = e.pre w)
    (pfx rdata : Bytes) (v : Val) (hoct : OctetsOkB rdata) (hN : NameSound o)
    (h : e.decode o pfx rdata = .ok v) (pfx' : Bytes) :
    ∃ v', e.decode o pfx' (e.encode o v) = .ok v' ∧ e.encode o v' = e.encode o v := by
  unfold Entry.decode at h
  split at h
  · simp at h
  · rename_i r hr
    split at h
    · rename_i w hw
      simp at h; subst h
      obtain ⟨hv, _⟩ := dec_fixpoint e.schema o pfx rdata r hwf hoct hN hr
      obtain ⟨hv', w', hp, he⟩ := hpp r w hv hw
      refine ⟨w', ?_, ?_⟩
      · simp [Entry.decode, Entry.encode, decode_encode e.schema o (e.pre w) hwf hv' pfx', hp]
      · simp [Entry.encode, he]
    · simp at h

/-- LOC (sizes `base·10^exp`, coordinates as degrees/minutes/seconds/milliseconds/hemisphere): the decoded object
is reproduced exactly by decoding its own encoding -/
theorem loc_fixpoint (o : Option Name) (pfx rdata : Bytes) (v : Val) (hoct : OctetsOkB rdata) (hN : NameSound o)
    (h : (lookup 1 29).decode o pfx rdata = .ok v) (pfx' : Bytes) :
    (lookup 1 29).decode o pfx' ((lookup 1 29).encode o v) = .ok v := by
  have hwf := lookup_wf 1 29
  unfold Entry.decode at h
  split at h
  · simp at h
  · rename_i r hr
    split at h
    · rename_i w hw
      simp at h; subst h
      obtain ⟨hv, _⟩ := dec_fixpoint (lookup 1 29).schema o pfx rdata r hwf hoct hN hr
      obtain ⟨a, b⟩ := loc_pre_post o r w hv hw
      have b' : (lookup 1 29).post ((lookup 1 29).pre w) = some w := b
      simp [Entry.decode, Entry.encode, decode_encode (lookup 1 29).schema o ((lookup 1 29).pre w) hwf a pfx', b']
    · simp at h

/-- SVCB and HTTPS (ascending keys, a repeated key keeps its last value, AliasMode without parameters, mandatory
keys present): the decoded object is reproduced exactly by decoding its own encoding -/
theorem svcb_fixpoint (t : Nat) (ht : t = 64 ∨ t = 65) (o : Option Name) (pfx rdata : Bytes) (v : Val)
    (hoct : OctetsOkB rdata) (hN : NameSound o)
    (h : (lookup 1 t).decode o pfx rdata = .ok v) (pfx' : Bytes) :
    (lookup 1 t).decode o pfx' ((lookup 1 t).encode o v) = .ok v := by
  have key : ∀ e : Entry, wf e.schema = true → e.schema = svcbSchema → e.custom = some ⟨svcbPost, id⟩ →
      e.decode o pfx rdata = .ok v → e.decode o pfx' (e.encode o v) = .ok v := by
    intro e hwf hs hc h
    unfold Entry.decode at h
    split at h
    · simp at h
    · rename_i r hr
      split at h
      · rename_i w hw
        simp at h; subst h
        obtain ⟨hv, _⟩ := dec_fixpoint e.schema o pfx rdata r hwf hoct hN hr
        have hw' : svcbPost r = some w := by simpa [Entry.post, hc] using hw
        rw [hs] at hv
        obtain ⟨a, b⟩ := svcb_post_post o r w hv hw'
        have hpre : e.pre w = w := by simp [Entry.pre, hc]
        simp [Entry.decode, Entry.encode, hpre, hs, decode_encode svcbSchema o w (by rw [← hs]; exact hwf) a pfx',
          Entry.post, hc, b]
      · simp at h
  rcases ht with rfl | rfl
  · exact key _ (lookup_wf 1 64) rfl rfl h
  · exact key _ (lookup_wf 1 65) rfl rfl h

/-- APL (IPv4/IPv6 prefixes kept padded, other families as they came, trailing zero octets not transmitted):
the encoding of a decoded object is a fixed point of decode-then-encode -/
theorem apl_fixpoint (o : Option Name) (pfx rdata : Bytes) (v : Val) (hoct : OctetsOkB rdata) (hN : NameSound o)
    (h : (lookup 1 42).decode o pfx rdata = .ok v) (pfx' : Bytes) :
    ∃ v', (lookup 1 42).decode o pfx' ((lookup 1 42).encode o v) = .ok v' ∧
      (lookup 1 42).encode o v' = (lookup 1 42).encode o v :=
  custom_fixpoint (lookup 1 42) o (lookup_wf 1 42) (fun r w hr hw => apl_pre_post o r w hr hw)
    pfx rdata v hoct hN h pfx'

set_option maxRecDepth 1000000 in
theorem table_keys_unique :
    ∀ a ∈ table, ∀ b ∈ table, a.cls = b.cls → a.typ = b.typ → a.mnemonic = b.mnemonic := by decide

/-- dispatch (`dns.rdata.get_rdata_class`) is class independent for the modules under `dns/rdtypes/ANY`: for a
class that has no module of its own for the type, the lookup returns the ANY entry's codec — for every class,
not only IN.  (The keys of the table determine the entry: `decide` over all pairs.) -/
theorem dispatch_any_class : ∀ e ∈ table, e.cls = anyClass → ∀ c : Nat,
    (∀ e' ∈ table, ¬(e'.cls = c ∧ e'.typ = e.typ)) →
    (lookup c e.typ).cls = anyClass ∧ (lookup c e.typ).typ = e.typ ∧ (lookup c e.typ).mnemonic = e.mnemonic := by
  intro e he hcls c hno
  have huniq := table_keys_unique
  have h1 : table.find? (fun x => x.cls == c && x.typ == e.typ) = none := by
    rw [List.find?_eq_none]; intro x hx hh
    simp only [Bool.and_eq_true, beq_iff_eq] at hh
    exact hno x hx hh
  have h2 : ∃ x, table.find? (fun x => x.cls == anyClass && x.typ == e.typ) = some x := by
    cases hf : table.find? (fun x => x.cls == anyClass && x.typ == e.typ) with
    | some x => exact ⟨x, rfl⟩
    | none =>
      rw [List.find?_eq_none] at hf
      exact absurd (by simp [hcls]) (hf e he)
  obtain ⟨x, hx⟩ := h2
  have hxm := List.mem_of_find?_eq_some hx
  have hxp := List.find?_some hx
  simp only [Bool.and_eq_true, beq_iff_eq] at hxp
  unfold lookup
  rw [h1, hx]
  exact ⟨hxp.1, hxp.2, huniq x hxm e he (hxp.1.trans hcls.symm) hxp.2⟩

set_option maxRecDepth 1000000 in
/-- … and a class-specific module wins over the ANY one, and only in its own class -/
theorem dispatch_own_class : ∀ e ∈ table, (lookup e.cls e.typ).mnemonic = e.mnemonic ∧ (lookup e.cls e.typ).cls = e.cls := by
  decide

/-- *"(and unknown types in RFC 3597 generic form)"*: a (class, type) without a table entry is handled by the
generic entry, whose codec is the identity on the octets. -/
theorem generic_roundtrip (c t : Nat) (h : ∀ e ∈ table, ¬(e.typ = t ∧ (e.cls = c ∨ e.cls = anyClass)))
    (o : Option Name) (b pfx : Bytes) :
    (lookup c t).mnemonic = "GENERIC" ∧
    (lookup c t).encode o (.bytes b) = b ∧ (lookup c t).decode o pfx b = .ok (.bytes b) := by
  have h1 : table.find? (fun e => e.cls == c && e.typ == t) = none := by
    rw [List.find?_eq_none]; intro e he; have := h e he; simp; intro h1 h2; exact this ⟨h2, Or.inl h1⟩
  have h2 : table.find? (fun e => e.cls == anyClass && e.typ == t) = none := by
    rw [List.find?_eq_none]; intro e he; have := h e he; simp; intro h1 h2; exact this ⟨h2, Or.inr h1⟩
  simp [lookup, h1, h2, genericEntry, Entry.encode, Entry.decode, Entry.pre, Entry.post, Entry.schema, Entry.custom,
    decodeWith, dec, enc]

/-- every (class, type) with a module in the working tree has a schema in the model (or is declared oracle-only):
a type added to the code without a schema makes this obligation fail. -/
theorem implemented_covered :
    ∀ p ∈ ConstsC02.implementedTypes, p ∈ modelledTypes ∨ p ∈ declaredOracleOnly := by decide

/-- the table's class column is the directory the module lives in (`dns/rdtypes/ANY` = 255, `IN` = 1, `CH` = 3):
a module moved to another class directory, added or removed breaks this obligation -/
theorem class_dirs_match :
    (∀ p ∈ ConstsC02.moduleFiles, p ∈ modelledTypes) ∧ (∀ p ∈ modelledTypes, p ∈ ConstsC02.moduleFiles) := by decide

/-- … and the model has no entry for a type that the code does not implement -/
theorem modelled_implemented : ∀ p ∈ modelledTypes, p ∈ ConstsC02.implementedTypes := by decide

/-! ## dispatch as a state machine (`_rdata_classes`, `_dynamic_load_allowed`)

*"for all (class, type) pairs with an implementation plus arbitrary unknown type codes"* — the codec that decodes a
pair must not depend on what was looked up before.  `Model.RdataDispatch` follows `get_rdata_class` and
`load_all_types` statement by statement over the dictionary and the flag; `ConstsC02.moduleFiles` (the module tree)
and `ConstsC02.enumTypes` (the members of `RdataType` that `load_all_types` walks) are regenerated from the code. -/

/-- the module tree allows history-independent dispatch: no type has both a class-specific and an ANY module, and
`load_all_types` reaches every module (a module in a new class directory, or for a type that is no `RdataType`
member, breaks this obligation) -/
theorem module_tree_ok : filesOk ConstsC02.moduleFiles ConstsC02.enumTypes = true := by decide

/-- after **any** history of `get_rdata_class` calls (any class, any type code, `use_generic` or not) and
`load_all_types` calls (dynamic loading disabled or not), `get_rdata_class(c, t)` returns the class the stateless rule
names: the class directory's module, else the one under ANY, else `GenericRdata` -/
theorem dispatch_history_independent (ops : List DOp) (c t : Nat) :
    (getClass ConstsC02.moduleFiles (ops.foldl (stepD ConstsC02.moduleFiles ConstsC02.enumTypes) DState.init) c t true).1
      = some (dispatchSpec ConstsC02.moduleFiles c t) :=
  dispatch_history _ _ module_tree_ok ops c t

/-- … and that rule is the table lookup the codec theorems (`type_codec`, `every_pair_fixpoint`) are stated for -/
theorem dispatch_spec_is_lookup (c t : Nat) :
    dispatchSpec ConstsC02.moduleFiles c t =
      if (lookup c t).mnemonic = "GENERIC" then Impl.generic else Impl.module (lookup c t).cls t := by
  have hfiles : ∀ d u, hasModule ConstsC02.moduleFiles d u = true ↔ ∃ e ∈ table, e.cls = d ∧ e.typ = u := by
    intro d u
    constructor
    · intro h
      have hm : (d, u) ∈ ConstsC02.moduleFiles := by simpa [hasModule] using h
      have := class_dirs_match.1 (d, u) hm
      simp only [modelledTypes, List.mem_map, Prod.mk.injEq] at this
      obtain ⟨e, he, h1, h2⟩ := this
      exact ⟨e, he, h1, h2⟩
    · rintro ⟨e, he, rfl, rfl⟩
      have : (e.cls, e.typ) ∈ modelledTypes := by simp only [modelledTypes, List.mem_map]; exact ⟨e, he, rfl⟩
      have := class_dirs_match.2 _ this
      simpa [hasModule] using this
  have hnog : ∀ e ∈ table, e.mnemonic ≠ "GENERIC" := by decide
  have hfind : ∀ d, (∃ e ∈ table, e.cls = d ∧ e.typ = t) ↔ ∃ e, table.find? (fun e => e.cls == d && e.typ == t) = some e := by
    intro d
    constructor
    · rintro ⟨e, he, h1, h2⟩
      cases hf : table.find? (fun e => e.cls == d && e.typ == t) with
      | some x => exact ⟨x, rfl⟩
      | none => rw [List.find?_eq_none] at hf; exact absurd (by simp [h1, h2]) (hf e he)
    · rintro ⟨e, hf⟩
      have := List.find?_some hf
      simp only [Bool.and_eq_true, beq_iff_eq] at this
      exact ⟨e, List.mem_of_find?_eq_some hf, this.1, this.2⟩
  unfold dispatchSpec lookup
  cases h1 : table.find? (fun e => e.cls == c && e.typ == t) with
  | some e =>
    have hm := (hfiles c t).2 ((hfind c).2 ⟨e, h1⟩)
    have hp := List.find?_some h1
    simp only [Bool.and_eq_true, beq_iff_eq] at hp
    simp [hm, hnog e (List.mem_of_find?_eq_some h1), hp.1]
  | none =>
    have hm : hasModule ConstsC02.moduleFiles c t = false := by
      cases hx : hasModule ConstsC02.moduleFiles c t with
      | false => rfl
      | true => obtain ⟨e, he⟩ := (hfind c).1 ((hfiles c t).1 hx); rw [h1] at he; simp at he
    have ha : anyClass = 255 := rfl
    simp only [ha]
    cases h2 : table.find? (fun e => e.cls == 255 && e.typ == t) with
    | some e =>
      have hm2 := (hfiles 255 t).2 ((hfind 255).2 ⟨e, h2⟩)
      have hp := List.find?_some h2
      simp only [Bool.and_eq_true, beq_iff_eq] at hp
      simp [hm, hm2, hnog e (List.mem_of_find?_eq_some h2), hp.1]
    | none =>
      have hm2 : hasModule ConstsC02.moduleFiles 255 t = false := by
        cases hx : hasModule ConstsC02.moduleFiles 255 t with
        | false => rfl
        | true => obtain ⟨e, he⟩ := (hfind 255).1 ((hfiles 255 t).1 hx); rw [h2] at he; simp at he
      simp [hm, hm2, genericEntry]

/-- non-vacuity, the C02-d scenario: after `load_all_types()` a lookup of CH NS still finds `dns.rdtypes.ANY.NS` -/
example : (getClass ConstsC02.moduleFiles
    (stepD ConstsC02.moduleFiles ConstsC02.enumTypes DState.init (.loadAll true)) 3 2 true).1 = some (.module 255 2) := by
  rw [show stepD ConstsC02.moduleFiles ConstsC02.enumTypes DState.init (.loadAll true)
      = [DOp.loadAll true].foldl (stepD ConstsC02.moduleFiles ConstsC02.enumTypes) DState.init from rfl,
    dispatch_history_independent]
  decide

/-- … and the class-ANY-first order (the defect repaired by `9586c66`): IN SRV stays `dns.rdtypes.IN.SRV` -/
example : (getClass ConstsC02.moduleFiles
    (getClass ConstsC02.moduleFiles DState.init 255 33 true).2 1 33 true).1 = some (.module 1 33) := by decide


/-- the constants and finite tables read from the code are the ones the schemas were written against
(RFC 3658/4509/5933/6605 DS digest lengths, RFC 8078 CDS delete, RFC 8976 ZONEMD, 12-bit extended rcode, EUI sizes,
RFC 1876 coordinate limits, 32-octet bitmap windows, the EDNS option / SVCB parameter codes with a dedicated codec,
32-bit TTLs).  A changed constant in the code breaks this obligation even where the codec stays self-consistent. -/
theorem consts_as_specified :
    ConstsC02.dsDigestLen = [(1, 20), (2, 32), (3, 32), (4, 48)] ∧
    ConstsC02.cdsDigestLen = [(0, 1), (1, 20), (2, 32), (3, 32), (4, 48)] ∧
    ConstsC02.zonemdDigestLen = [(1, 48), (2, 64)] ∧
    ConstsC02.rcodeMax = 4095 ∧ ConstsC02.eui48Len = 6 ∧ ConstsC02.eui64Len = 8 ∧
    ConstsC02.locMinLat = 2 ^ 31 - 90 * 3600000 ∧ ConstsC02.locMaxLat = 2 ^ 31 + 90 * 3600000 ∧
    ConstsC02.locMinLon = 2 ^ 31 - 180 * 3600000 ∧ ConstsC02.locMaxLon = 2 ^ 31 + 180 * 3600000 ∧
    ConstsC02.bitmapMaxLen = 32 ∧
    ConstsC02.ednsOptionClasses = [3, 8, 10, 15, 18, 22, 23, 24, 25] ∧
    ConstsC02.svcbParamClasses = [0, 1, 2, 3, 4, 5, 6, 8, 10] ∧
    Consts.maxTTL = 2 ^ 32 - 1 ∧ Consts.maxLabel = 63 ∧ Consts.maxName = 255 := by decide

/-! ## every type, every accepted octet string -/

/-- the object-level view of every table entry is stable: the raw record rebuilt from the view of a valid raw
record is valid, and its own view rebuilds the same raw record (identity for plain schemas; `loc_pre_post`,
`opt_post_post`, `apl_pre_post`, `svcb_post_post` for LOC, OPT, APL, SVCB/HTTPS) -/
theorem entry_view_stable (e : Entry) (hns : e.kind.isShipped = false) (o : Option Name) :
    ∀ r w, valid e.schema o r = true → e.post r = some w →
      valid e.schema o (e.pre w) = true ∧ ∃ w', e.post (e.pre w) = some w' ∧ e.pre w' = e.pre w := by
  obtain ⟨c, t, m, k⟩ := e
  intro r w hr hw
  cases k with
  | regular s =>
    simp only [Entry.post, Entry.pre, Entry.custom, Entry.schema, Option.some.injEq] at hr hw ⊢
    subst hw; exact ⟨hr, r, rfl, rfl⟩
  | loc =>
    simp only [Entry.post, Entry.pre, Entry.custom, Entry.schema] at hr hw ⊢
    obtain ⟨a, b⟩ := loc_pre_post o r w hr hw
    exact ⟨a, w, b, rfl⟩
  | opt =>
    simp only [Entry.post, Entry.pre, Entry.custom, Entry.schema, id] at hr hw ⊢
    obtain ⟨a, b⟩ := opt_post_post o r w hr hw
    exact ⟨a, w, b, rfl⟩
  | optShipped => simp [Kind.isShipped] at hns
  | apl =>
    simp only [Entry.post, Entry.pre, Entry.custom, Entry.schema] at hr hw ⊢
    exact apl_pre_post o r w hr hw
  | svcb =>
    simp only [Entry.post, Entry.pre, Entry.custom, Entry.schema, id] at hr hw ⊢
    obtain ⟨a, b⟩ := svcb_post_post o r w hr hw
    exact ⟨a, w, b, rfl⟩

/-- *"Decoding arbitrary octets as any record type either reports a format error or yields a record … whose
encoding is a fixed point of decode-then-encode"* — for **every** entry of the table (all 69 implemented types):
whatever octet string is accepted, the encoding of the decoded object decodes again, and what comes out encodes to
the same octets. -/
theorem all_types_fixpoint : ∀ e ∈ table, ∀ (o : Option Name) (pfx rdata : Bytes) (v : Val),
    OctetsOkB rdata → NameSound o → e.decode o pfx rdata = .ok v →
    ∀ pfx', ∃ v', e.decode o pfx' (e.encode o v) = .ok v' ∧ e.encode o v' = e.encode o v := by
  intro e he o pfx rdata v hoct hN h pfx'
  exact custom_fixpoint e o (table_wf e he) (entry_view_stable e (table_not_shipped e he) o) pfx rdata v hoct hN h pfx'

/-- the same for whatever `dns.rdata.get_rdata_class` dispatches to: any class, any type code, implemented or not -/
theorem every_pair_fixpoint (c t : Nat) (o : Option Name) (pfx rdata : Bytes) (v : Val)
    (hoct : OctetsOkB rdata) (hN : NameSound o) (h : (lookup c t).decode o pfx rdata = .ok v) (pfx' : Bytes) :
    ∃ v', (lookup c t).decode o pfx' ((lookup c t).encode o v) = .ok v' ∧
      (lookup c t).encode o v' = (lookup c t).encode o v := by
  rcases lookup_mem_or_generic c t with hm | hg
  · exact all_types_fixpoint _ hm o pfx rdata v hoct hN h pfx'
  · rw [hg] at h ⊢
    exact custom_fixpoint _ o (by simp [genericEntry, Entry.schema, wf, sdwf])
      (entry_view_stable _ (by simp [genericEntry, Kind.isShipped]) o) pfx rdata v hoct hN h pfx'

/-- OPT with the EDNS option codecs of `dns/edns.py` (ECS masked to its source prefix, EDE text without trailing
NULs, COOKIE, NSID, REPORTCHANNEL, the UTF-8 text options, generic): the decoded option list is reproduced exactly
by decoding its own encoding -/
theorem opt_fixpoint (c : Nat) (o : Option Name) (pfx rdata : Bytes) (v : Val) (hoct : OctetsOkB rdata)
    (hN : NameSound o) (h : (lookup c 41).decode o pfx rdata = .ok v) (pfx' : Bytes) :
    (lookup c 41).decode o pfx' ((lookup c 41).encode o v) = .ok v := by
  have key : ∀ e : Entry, wf e.schema = true → e.kind = .opt →
      e.decode o pfx rdata = .ok v → e.decode o pfx' (e.encode o v) = .ok v := by
    intro e hwf hk h
    obtain ⟨c', t', m', k'⟩ := e
    simp only at hk; subst hk
    unfold Entry.decode at h
    split at h
    · simp at h
    · rename_i r hr
      split at h
      · rename_i w hw
        simp at h; subst h
        obtain ⟨hv, _⟩ := dec_fixpoint _ o pfx rdata r hwf hoct hN hr
        simp only [Entry.post, Entry.custom, Entry.schema] at hw hv hwf
        obtain ⟨a, b⟩ := opt_post_post o r w hv hw
        simp [Entry.decode, Entry.encode, Entry.pre, Entry.post, Entry.custom, Entry.schema,
          decode_encode optSchema o w hwf a pfx', b]
      · simp at h
  -- the only entry of type 41 is OPT, for any class
  have hk : (lookup c 41).kind = .opt := by
    unfold lookup
    by_cases hc : c = 255
    · subst hc; rfl
    · have h1 : table.find? (fun e => e.cls == c && e.typ == 41) = none := by
        rw [List.find?_eq_none]
        intro e he hh
        have : ∀ e ∈ table, e.typ = 41 → e.cls = 255 := by decide
        simp only [Bool.and_eq_true, beq_iff_eq] at hh
        exact hc (hh.1 ▸ this e he hh.2)
      rw [h1]; rfl
  exact key _ (lookup_wf c 41) hk h

/-! ## per-type statements

`type_codec c t`: for the codec `dns.rdata.get_rdata_class(c, t)` dispatches to, when its object-level tree is
the decoded tree itself (all but LOC, OPT, APL, SVCB, HTTPS, which have `loc_fixpoint`, `opt_fixpoint`, `apl_fixpoint`,
`svcb_fixpoint`): (i) every valid value decodes from its encoding, behind any prefix, with or without an origin;
(ii) every accepted octet string decodes to a value that is reproduced exactly by decoding its own encoding.
The named instances below are the irregular codecs (length fields apart from their data, tag-dependent gateways,
optional tails, cross-field and text-syntax checks); each comes with a concrete valid value. -/

/-- round trip (i) and decode–encode–decode fixed point (ii) of the codec for class `c`, type `t` -/
def TypeCodec (c t : Nat) : Prop :=
    (∀ (o : Option Name) (v : Val) (pfx : Bytes), valid (lookup c t).schema o v = true →
      (lookup c t).decode o pfx ((lookup c t).encode o v) = .ok v) ∧
    (∀ (o : Option Name) (pfx rdata : Bytes) (v : Val), OctetsOkB rdata → NameSound o →
      (lookup c t).decode o pfx rdata = .ok v → ∀ pfx', (lookup c t).decode o pfx' ((lookup c t).encode o v) = .ok v)

theorem type_codec (c t : Nat) (hreg : (lookup c t).custom = none) : TypeCodec c t := by
  have hwf := lookup_wf c t
  constructor
  · intro o v pfx hv
    simp [Entry.decode, Entry.encode, Entry.pre, Entry.post, hreg, decode_encode _ o v hwf hv pfx]
  · intro o pfx rdata v hoct hN h pfx'
    have hd : decodeWith (lookup c t).schema o pfx rdata = .ok v := by
      simp only [Entry.decode, Entry.post, hreg] at h
      split at h
      · simp at h
      · rename_i w hw; simp at h; subst h; exact hw
    obtain ⟨_, hfix⟩ := dec_fixpoint _ o pfx rdata v hwf hoct hN hd
    simp [Entry.decode, Entry.encode, Entry.pre, Entry.post, hreg, hfix pfx']

/-- HIP -/
theorem hip_codec : TypeCodec 1 55 := type_codec 1 55 rfl
example : valid (lookup 1 55).schema none (.pair (.pair (.nat 2) (.pair (.nat 1) (.nat 3))) (.pair (.bytes [1, 2]) (.pair (.bytes [3, 4, 5]) (.list [.name [[97], []]])))) = true := by decide

/-- CERT -/
theorem cert_codec : TypeCodec 1 37 := type_codec 1 37 rfl
example : valid (lookup 1 37).schema none (seqV [.nat 1, .nat 2, .nat 8, .bytes [0, 255]]) = true := by decide

/-- TKEY -/
theorem tkey_codec : TypeCodec 255 249 := type_codec 255 249 rfl
example : valid (lookup 255 249).schema none (seqV [.name [[97], []], .nat 1, .nat 2, .nat 3, .nat 0, .bytes [1], .bytes []]) = true := by decide

/-- TSIG -/
theorem tsig_codec : TypeCodec 255 250 := type_codec 255 250 rfl
example : valid (lookup 255 250).schema none (seqV [.name [[104], []], .nat (2 ^ 48 - 1), .nat 300, .bytes [9, 9], .nat 65535, .nat 16, .bytes []]) = true := by decide

/-- NAPTR -/
theorem naptr_codec : TypeCodec 1 35 := type_codec 1 35 rfl
example : valid (lookup 1 35).schema none (seqV [.nat 100, .nat 10, .bytes [83], .bytes [], .bytes [33, 94], .name [[]]]) = true := by decide

/-- GPOS -/
theorem gpos_codec : TypeCodec 1 27 := type_codec 1 27 rfl
example : valid (lookup 1 27).schema none (seqV [.bytes [45, 51, 50, 46, 54], .bytes [49, 49, 54, 46], .bytes [49, 48]]) = true := by decide

/-- WKS -/
theorem wks_codec : TypeCodec 1 11 := type_codec 1 11 rfl
example : valid (lookup 1 11).schema none (seqV [.bytes [10, 0, 0, 1], .nat 6, .bytes [0, 0, 64]]) = true := by decide

/-- NSAP -/
theorem nsap_codec : TypeCodec 1 22 := type_codec 1 22 rfl
example : valid (lookup 1 22).schema none (.bytes [71, 0, 5]) = true := by decide

/-- ISDN -/
theorem isdn_codec : TypeCodec 1 20 := type_codec 1 20 rfl
example : valid (lookup 1 20).schema none (.pair (.bytes [49, 53]) (.bytes [48])) = true := by decide

/-- X25 -/
theorem x25_codec : TypeCodec 1 19 := type_codec 1 19 rfl
example : valid (lookup 1 19).schema none (.bytes [51, 49]) = true := by decide

/-- HINFO -/
theorem hinfo_codec : TypeCodec 1 13 := type_codec 1 13 rfl
example : valid (lookup 1 13).schema none (.pair (.bytes [255, 0]) (.bytes [])) = true := by decide

/-- CAA -/
theorem caa_codec : TypeCodec 1 257 := type_codec 1 257 rfl
example : valid (lookup 1 257).schema none (seqV [.nat 128, .bytes [105, 115, 115, 117, 101], .bytes [0, 255]]) = true := by decide

/-- URI -/
theorem uri_codec : TypeCodec 1 256 := type_codec 1 256 rfl
example : valid (lookup 1 256).schema none (seqV [.nat 10, .nat 1, .bytes [104]]) = true := by decide

/-- DSYNC -/
theorem dsync_codec : TypeCodec 1 66 := type_codec 1 66 rfl
example : valid (lookup 1 66).schema none (seqV [.nat 59, .nat 1, .nat 5359, .name [[97], []]]) = true := by decide

/-- ZONEMD -/
theorem zonemd_codec : TypeCodec 1 63 := type_codec 1 63 rfl
example : valid (lookup 1 63).schema none (seqV [.nat 2018031900, .nat 1, .nat 1, .bytes (List.replicate 48 7)]) = true := by decide

/-- AMTRELAY -/
theorem amtrelay_codec : TypeCodec 1 260 := type_codec 1 260 rfl
example : valid (lookup 1 260).schema none (.pair (.pair (.nat 10) (.nat 131)) (.name [[97], []])) = true := by decide

/-- IPSECKEY -/
theorem ipseckey_codec : TypeCodec 1 45 := type_codec 1 45 rfl
example : valid (lookup 1 45).schema none (.pair (.pair (.pair (.nat 10) (.pair (.nat 1) (.nat 2))) (.bytes [192, 0, 2, 1])) (.bytes [1, 2])) = true := by decide

/-- L32 -/
theorem l32_codec : TypeCodec 1 105 := type_codec 1 105 rfl
example : valid (lookup 1 105).schema none (.pair (.nat 10) (.bytes [10, 1, 2, 0])) = true := by decide

/-- L64 -/
theorem l64_codec : TypeCodec 1 106 := type_codec 1 106 rfl
example : valid (lookup 1 106).schema none (.pair (.nat 10) (.bytes [32, 1, 13, 184, 18, 52, 86, 120])) = true := by decide

/-- NID -/
theorem nid_codec : TypeCodec 1 104 := type_codec 1 104 rfl
example : valid (lookup 1 104).schema none (.pair (.nat 10) (.bytes [0, 20, 79, 255, 255, 32, 238, 100])) = true := by decide

/-- A (class CH) -/
theorem chA_codec : TypeCodec 3 1 := type_codec 3 1 rfl
example : valid (lookup 3 1).schema none (.pair (.name [[97], []]) (.nat 668)) = true := by decide

/-- SOA -/
theorem soa_codec : TypeCodec 1 6 := type_codec 1 6 rfl
example : valid (lookup 1 6).schema none (seqV [.name [[110, 115], []], .name [[]], .nat 1, .nat 2, .nat 3, .nat 4, .nat (2 ^ 32 - 1)]) = true := by decide

/-- RRSIG -/
theorem rrsig_codec : TypeCodec 1 46 := type_codec 1 46 rfl
example : valid (lookup 1 46).schema none (seqV [.nat 1, .nat 13, .nat 2, .nat 3600, .nat 1, .nat 2, .nat 12345, .name [[101], []], .bytes [1, 2, 3]]) = true := by decide

/-- NSEC3 -/
theorem nsec3_codec : TypeCodec 1 50 := type_codec 1 50 rfl
example : valid (lookup 1 50).schema none (seqV [.nat 1, .nat 0, .nat 10, .bytes [171], .bytes [1, 2, 3], .list [.pair (.nat 0) (.bytes [64])]]) = true := by decide

/-- TXT -/
theorem txt_codec : TypeCodec 1 16 := type_codec 1 16 rfl
example : valid (lookup 1 16).schema none (.list [.bytes [], .bytes (List.replicate 40 34)]) = true := by decide

/-- DS -/
theorem ds_codec : TypeCodec 1 43 := type_codec 1 43 rfl
example : valid (lookup 1 43).schema none (seqV [.nat 60485, .nat 5, .nat 1, .bytes (List.replicate 20 9)]) = true := by decide

/-! ## the defect repaired by `9fad6cc` (was KNOWN_FINDINGS `C02/fixpoint/EDE-text-ends-with-NUL/ANY-41`)

Before the repair `EDEOption.from_wire_parser` dropped *one* trailing NUL of the EXTRA-TEXT.  That variant is retained
as `Kind.optShipped` (the driver uses it when the working tree still behaves that way); it is not a table entry
(`table_not_shipped`) and the fixed-point clause fails for it: -/

def optShippedEntry : Entry := { cls := anyClass, typ := 41, mnemonic := "OPT", kind := .optShipped }

/-- as shipped, an EDE option with text `61 00 00` decoded to text `61 00`, whose encoding decoded to text `61`
and re-encoded to different octets — not a fixed point -/
theorem ede_trailing_nul_not_fixpoint_as_shipped :
    ∃ v v', optShippedEntry.decode none [] [0, 15, 0, 5, 0, 3, 97, 0, 0] = .ok v ∧
      optShippedEntry.decode none [] (optShippedEntry.encode none v) = .ok v' ∧
      optShippedEntry.encode none v' ≠ optShippedEntry.encode none v := by
  refine ⟨.list [.pair (.nat 15) (.pair (.nat 3) (.bytes [97, 0]))],
          .list [.pair (.nat 15) (.pair (.nat 3) (.bytes [97]))], ?_, ?_, ?_⟩
  · rfl
  · rfl
  · decide

/-- … while the table's OPT entry (the repaired code) maps the same octets to a fixed point -/
theorem ede_trailing_nul_fixed :
    (lookup 4096 41).decode none [] [0, 15, 0, 5, 0, 3, 97, 0, 0] =
      .ok (.list [.pair (.nat 15) (.pair (.nat 3) (.bytes [97]))]) := by rfl

/-! ## LOC coordinates (defect `…/ANY-29/coordinate-beyond-limit-at-max-degrees`, repaired by `99177f3`)

Before the repair `_check_coordinate_list` bounded the degrees only, so `90 30 0 N` was constructed and encoded but
rejected by the decoder.  `locCoordCtorOk` models the repaired check; what it accepts encodes inside the range the
decoder accepts (`ConstsC02.locMin…/locMax…`): -/

theorem loc_ctor_within_wire_range (c : Val) (maxDeg : Nat) (h : locCoordCtorOk c maxDeg = true) :
    2 ^ 31 - maxDeg * 3600000 ≤ locCoordWire c ∧ locCoordWire c ≤ 2 ^ 31 + maxDeg * 3600000 := by
  simp only [locCoordCtorOk, Bool.and_eq_true, Bool.or_eq_true, decide_eq_true_eq] at h
  obtain ⟨⟨⟨⟨⟨h1, h2⟩, h3⟩, h4⟩, h5⟩, h6⟩ := h
  unfold locCoordWire
  simp only []
  split <;> rcases h6 with h6 | ⟨⟨a, b⟩, c'⟩ <;> omega

/-- the former witness `90 30 0 N` is now rejected where it is constructed -/
example : locCoordCtorOk (seqV [.nat 90, .nat 30, .nat 0, .nat 0, .nat 1]) 90 = false := by decide
example : locCoordCtorOk (seqV [.nat 90, .nat 0, .nat 0, .nat 0, .nat 0]) 90 = true := by decide
example : ConstsC02.locMaxLat = 2 ^ 31 + 90 * 3600000 ∧ ConstsC02.locMinLon = 2 ^ 31 - 180 * 3600000 := by decide

/-! ## non-vacuity -/

/-- MX 10 mail.example. (absolute, no origin) is valid -/
example : valid mxSchema none (.pair (.nat 10) (.name [[109, 97, 105, 108], [101, 120], []])) = true := by decide

/-- a relative name with an origin is valid (`valid_rel_example`) -/
theorem valid_rel_example :
    valid mxSchema (some [[101, 120], []]) (.pair (.nat 65535) (.name [[109, 0, 255]])) = true := by decide

/-- an NSEC3 with salt, hash and two bitmap windows is valid, all octet values allowed in opaque fields -/
example : valid (Schema.seq [u8, u8, u16, c8, c8, bitmap]) none
    (seqV [.nat 1, .nat 0, .nat 10, .bytes [0, 255, 34, 92], .bytes [1, 2, 3],
           .list [.pair (.nat 0) (.bytes [64, 1]), .pair (.nat 255) (.bytes [128])]]) = true := by decide

/-- an unknown type code takes the generic path -/
example : ∀ e ∈ table, ¬(e.typ = 65280 ∧ (e.cls = 1 ∨ e.cls = anyClass)) := by decide

/-- the root origin is a legal origin -/
example : WfName [[]] ∧ isAbs [[]] = true := by
  refine ⟨⟨?_, ?_, ?_⟩, ?_⟩ <;> decide

end C02

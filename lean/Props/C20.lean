import Proofs.BTreeZoneSorted
/-!
# C20 — B-tree zone flags, delegation index and bounds are a function of zone content

Theorems of record about the executable model `Model.BTZ` (lean/Model/BTreeZone.lean) of
`dns/btreezone.py`.  `Variant` carries the decision points at which the unchanged tree violates the property
(DESIGN §6 D15, D16, D19, D20 and CNAME-at-a-cut): `asShipped` is the code, `intended` the repair.
The specification (`flagsSpec`, `delegsSpec`, `boundsSpec`, `consistent`) is part of the model file and is a
function of the node contents only.
-/
namespace C20
open Model Model.BTZ

/-! ## example data -/

/-- `example.` relativized -/
def cfgRel : Cfg := { origin := [[101, 120, 97, 109, 112, 108, 101], []], relativize := true }
/-- `example.` absolute -/
def cfgAbs : Cfg := { origin := [[101, 120, 97, 109, 112, 108, 101], []], relativize := false }

def nA : Name := [[97]]
def nBA : Name := [[98], [97]]
def nXA : Name := [[120], [97]]
def nXBA : Name := [[120], [98], [97]]
def nC : Name := [[99]]
def soa : RdKey := (6, 0)
def ns : RdKey := (2, 0)
def a : RdKey := (1, 0)
def ds : RdKey := (43, 0)
def cname : RdKey := (5, 0)

/-- flags and index of a committed state agree with the definition -/
def zConsistent (cfg : Cfg) : ZState → Bool
  | some (n, d) => consistent cfg n d
  | none => true

/-! ## iteration order -/

/-- **"names iterate in canonical order"** — after any history of transactions (committed or rolled back,
replacement or not, failing operations included), in a relativized or absolute zone, for the code as shipped
and for every repaired variant: the node store is strictly increasing in the canonical order computed by
`Name.fullcompare`, and so is the delegation index. -/
theorem iteration_canonical (v : Variant) (cfg : Cfg) (h : List Txn) :
    match runHist v cfg none h with
    | none => True
    | some (nodes, delegs) =>
      nodes.Pairwise (fun e f => cmpOrder e.1 f.1 < 0) ∧ delegs.Pairwise (fun x y => cmpOrder x y < 0) := by
  have := runHist_ZWF (v := v) (cfg := cfg) (z := none) (h := h) trivial
  cases hr : runHist v cfg none h with
  | none => trivial
  | some p =>
    obtain ⟨nodes, delegs⟩ := p
    rw [hr] at this
    exact ⟨this.1.1, this.2.1⟩

/-- non-vacuity: a history that commits a zone with five names -/
example : (runHist asShipped cfgRel none
    [⟨true, [.put [] soa, .put nC a, .put nXA a, .put nA ns, .put nBA a], true⟩]).map (fun s => s.1.map (·.1))
    = some [[], nA, nBA, nXA, nC] := by decide

/-! ## the defects of the unchanged tree, as kernel-checked counter-examples on the model of the shipped code -/

/-- D15: a DS added at the cut `a` in a later transaction drops its DELEGATION flag. -/
theorem flags_eq_spec_fails_D15 :
    zConsistent cfgRel (runHist asShipped cfgRel none
      [⟨true, [.put [] soa, .put nA ns], true⟩, ⟨false, [.put nA ds], true⟩]) = false := by decide

/-- D16 (load order): the same content loaded inner cut first is inconsistent, outer cut first is consistent. -/
theorem flags_eq_spec_fails_D16_load_order :
    zConsistent cfgRel (runHist asShipped cfgRel none [⟨true, [.put [] soa, .put nBA ns, .put nA ns], true⟩]) = false ∧
    zConsistent cfgRel (runHist asShipped cfgRel none [⟨true, [.put [] soa, .put nA ns, .put nBA ns], true⟩]) = true := by
  decide

/-- D16 (no promotion): deleting the outer NS leaves the inner NS owner unflagged and unindexed. -/
theorem flags_eq_spec_fails_D16_no_promotion :
    zConsistent cfgRel (runHist asShipped cfgRel none
      [⟨true, [.put [] soa, .put nA ns, .put nBA ns, .put nXBA a], true⟩, ⟨false, [.delRds nA ns], true⟩]) = false := by
  decide

/-- CNAME put at a cut: the NS rdataset is dropped by the node, flag, index and glue stay. -/
theorem flags_eq_spec_fails_cname_at_cut :
    zConsistent cfgRel (runHist asShipped cfgRel none
      [⟨true, [.put [] soa, .put nA ns, .put nXA a, .put nA cname], true⟩]) = false := by decide

/-- the repaired variant is consistent on all four witnesses -/
theorem intended_consistent_on_witnesses :
    zConsistent cfgRel (runHist intended cfgRel none
      [⟨true, [.put [] soa, .put nA ns], true⟩, ⟨false, [.put nA ds], true⟩]) = true ∧
    zConsistent cfgRel (runHist intended cfgRel none [⟨true, [.put [] soa, .put nBA ns, .put nA ns], true⟩]) = true ∧
    zConsistent cfgRel (runHist intended cfgRel none
      [⟨true, [.put [] soa, .put nA ns, .put nBA ns, .put nXBA a], true⟩, ⟨false, [.delRds nA ns], true⟩]) = true ∧
    zConsistent cfgRel (runHist intended cfgRel none
      [⟨true, [.put [] soa, .put nA ns, .put nXA a, .put nA cname], true⟩]) = true := by decide

end C20

import Proofs.BTreeZoneContent
/-!
# C20 — B-tree zone flags, delegation index and bounds are a function of zone content

Theorems of record about the executable model `Model.BTZ` (lean/Model/BTreeZone.lean) of
`dns/btreezone.py` (`WritableVersion.put_rdataset / delete_rdataset / delete_node`, `_maybe_cow_with_name` with
the per-version `changed` set, `update_glue_flag`, `Delegations.get_delegation / is_glue`,
`ImmutableVersion.bounds`) on a sorted association list keyed by names in the canonical order of
`Name.fullcompare`.

`Variant` carries the five decision points at which the pinned tree violated the property (DESIGN §6 D15, D16,
D19, D20 and CNAME-at-a-cut).  All five are repaired in /repo (487318e, a145603, d608fe5, a30e868, 5dc8eac), so
`intended` **is the code** and the full theorems below (`flags_eq_spec`, `index_eq_spec` with `intended_unguarded`,
`bounds_eq_spec`) are the statements of record; `asShipped` is the code before the repairs, kept with the guarded
`_partial` theorems and the counter-examples so that the former defects stay documented and kernel-checked.
The specification (`flagsSpec`, `delegsSpec`, `boundsSpec`) is part of the model file and is a function of the node
contents only:

* `isDelegSpec n` ⇔ `n` is not the apex, owns NS, and no proper ancestor other than the apex owns NS;
* `isGlueSpec n` ⇔ some proper ancestor of `n` is a delegation point;
* `boundsSpec q`: greatest / least non-occluded name at-or-before / after `q`, the longest suffix of `q` at or
  above a non-occluded name (empty non-terminals count), whether `q` is at or below a delegation point.

Hypotheses used: `WfCfg` (the zone origin is absolute), `TxnWf` / `NoInnerEmpty` (owner names are legal
`dns.name.Name`s: only the last label may be empty) and `KeyWf` (an NS rdataset has `covers = NONE`).
`histGuard` / `queryGuard` are decidable (computed by running the model) and identically `true` for `intended`.
-/
namespace C20
open Model Model.BTZ

/-! ## example data -/

/-- `example.` relativized -/
def cfgRel : Cfg := { origin := [[101, 120, 97, 109, 112, 108, 101], []], relativize := true }
/-- `example.` absolute -/
def cfgAbs : Cfg := { origin := [[101, 120, 97, 109, 112, 108, 101], []], relativize := false }

def nA : Name := [[97]]
def nBA : Name := [[98], [97]]
def nXA : Name := [[120], [97]]
def nXBA : Name := [[120], [98], [97]]
def nC : Name := [[99]]
def nZZ : Name := [[122, 122]]
def soa : RdKey := (6, 0)
def ns : RdKey := (2, 0)
def a : RdKey := (1, 0)
def ds : RdKey := (43, 0)
def cname : RdKey := (5, 0)
/-- `example.` -/
def exOrigin : Name := [[101, 120, 97, 109, 112, 108, 101], []]
/-- absolute spelling `l.example.` of a one-label name -/
def ab (l : Nat) : Name := [l] :: exOrigin
/-- `x.a.example.` -/
def abXA : Name := [120] :: [97] :: exOrigin

/-- flags and index of a committed state agree with the definition (Boolean form, for `decide`) -/
def zConsistent (cfg : Cfg) : ZState → Bool
  | some (n, d) => consistent cfg n d
  | none => true

/-- zone used by the bounds examples: absolute, cut `a`, glue `x.a`, and `c` -/
def hCut : List Txn :=
  [⟨true, [.put exOrigin soa, .put (ab 97) ns, .put abXA a, .put (ab 99) a], true⟩]

/-! ## iteration order -/

/-- **"names iterate in canonical order"** — after any history of transactions (committed or rolled back,
replacement or not, failing operations included), in a relativized or absolute zone, for the code as shipped
and for every repaired variant, with no hypothesis on names: the node store is strictly increasing in the
canonical order computed by `Name.fullcompare`, and so is the delegation index. -/
theorem iteration_canonical (v : Variant) (cfg : Cfg) (init : Bool) (h : List Txn) :
    match runHist v cfg (initState init) h with
    | none => True
    | some (nodes, delegs) =>
      nodes.Pairwise (fun e f => cmpOrder e.1 f.1 < 0) ∧ delegs.Pairwise (fun x y => cmpOrder x y < 0) := by
  have := runHist_ZWF (v := v) (cfg := cfg) (h := h) (ZWF_init init)
  cases hr : runHist v cfg (initState init) h with
  | none => trivial
  | some p =>
    obtain ⟨nodes, delegs⟩ := p
    rw [hr] at this
    exact ⟨this.1.1, this.2.1⟩

/-- non-vacuity: a history that commits a zone with five names, loaded out of order -/
example : (runHist asShipped cfgRel (initState false)
    [⟨true, [.put [] soa, .put nC a, .put nXA a, .put nA ns, .put nBA a], true⟩]).map (fun s => s.1.map (·.1))
    = some [[], nA, nBA, nXA, nC] := by decide

/-! ## flags and delegation index -/

/-- **"after any history of committed transactions (including the initial load, in any record order) the
derived state is exactly what the documentation defines from the zone content alone: the origin flag on the
apex, the delegation flag and a delegation-index entry for every non-apex NS owner that is not beneath another
one, the glue flag on every name strictly beneath such an owner"** — for the code as it is (`intended`: the
repairs of D15, D16 nested cuts and CNAME-at-a-cut are in /repo), with no guard, for every history of transactions over legal names (committed, rolled back,
replacement, failing operations included), relativized or absolute, whatever state a new zone starts in. -/
theorem flags_eq_spec (cfg : Cfg) (hc : WfCfg cfg) (init : Bool) (h : List Txn) (hw : ∀ t ∈ h, TxnWf t) :
    FlagsAndIndexRight cfg (runHist intended cfg (initState init) h) :=
  flagsAndIndexRight_of_good (runHist_good hc (zGood_init cfg init) hw (histGuard_intended cfg _ h))

/-- The same for **any** variant — in particular the code before the repairs (`asShipped`), or with only some
of them — under the decidable guard `histGuard`, which for each decision point left as shipped excludes
exactly its trigger: (D15) a non-NS rdataset written or deleted at a delegation point whose node was not yet
copied in the current transaction; (D16) a delegation point created or removed above an NS owner; a CNAME-kind
rdataset written at a delegation point.
Full statement (false for `asShipped`, see the counter-examples below): the same conclusion without `hg`. -/
theorem flags_eq_spec_partial (v : Variant) (cfg : Cfg) (hc : WfCfg cfg) (init : Bool) (h : List Txn)
    (hw : ∀ t ∈ h, TxnWf t) (hg : histGuard v cfg (initState init) h = true) :
    FlagsAndIndexRight cfg (runHist v cfg (initState init) h) :=
  flagsAndIndexRight_of_good (runHist_good hc (zGood_init cfg init) hw hg)

/-- **"a delegation-index entry for every non-apex NS owner that is not beneath another one"** (and for nothing
else): membership form of the index clause, for any variant under its guard (no guard for `intended`, by
`intended_unguarded`). -/
theorem index_eq_spec (v : Variant) (cfg : Cfg) (hc : WfCfg cfg) (init : Bool) (h : List Txn)
    (hw : ∀ t ∈ h, TxnWf t) (hg : histGuard v cfg (initState init) h = true) :
    match runHist v cfg (initState init) h with
    | none => True
    | some (nodes, delegs) =>
      ∀ n, n ∈ delegs ↔ ∃ nd, (n, nd) ∈ nodes ∧ isDelegSpec cfg nodes n = true := by
  have := flags_eq_spec_partial v cfg hc init h hw hg
  cases hr : runHist v cfg (initState init) h with
  | none => trivial
  | some p =>
    obtain ⟨N, D⟩ := p
    rw [hr] at this
    simp only [FlagsAndIndexRight] at this ⊢
    intro n
    rw [this.2]
    unfold delegsSpec
    constructor
    · intro hn
      obtain ⟨e, he, rfl⟩ := List.mem_map.mp hn
      obtain ⟨hm, hd⟩ := List.mem_filter.mp he
      exact ⟨e.2, hm, hd⟩
    · rintro ⟨nd, hm, hd⟩
      exact List.mem_map.mpr ⟨(n, nd), List.mem_filter.mpr ⟨hm, hd⟩, rfl⟩

/-- the repaired variant meets the guard of every history and of every query -/
theorem intended_unguarded (cfg : Cfg) (z : ZState) (h : List Txn) (q : Name) :
    histGuard intended cfg z h = true ∧ queryGuard intended cfg q z = true :=
  ⟨histGuard_intended cfg z h, queryGuard_intended cfg q z⟩

/-- non-vacuity of the guarded theorem for the code as shipped: a three-transaction history with a cut, glue, a
DS added at the cut *in the transaction that created it*, an NS added beneath the cut and removed again, and
finally the cut itself removed satisfies every hypothesis. -/
example : histGuard asShipped cfgRel (initState false)
    [⟨true, [.put [] soa, .put nA ns, .put nA ds, .put nXA a, .put nC a], true⟩,
     ⟨false, [.put nXA ns, .delRds nXA ns, .put nC ds], true⟩,
     ⟨false, [.delRds nA ns, .delName nXA], true⟩] = true := by decide
example : WfCfg cfgRel ∧ WfCfg cfgAbs := by unfold WfCfg; decide
example : TxnWf ⟨true, [.put [] soa, .put nA ns, .delRds nXA ns, .delName nC, .delRdata nA a true], true⟩ := by
  intro op hop
  simp only [List.mem_cons, List.mem_nil_iff, or_false] at hop
  rcases hop with rfl | rfl | rfl | rfl | rfl <;> simp [OpWf, NoInnerEmpty, KeyWf, nA, nXA, nC, soa, ns, a] <;> decide

/-! ## "a function of zone content" / "in any record order" -/

/-- **"the derived state is exactly what the documentation defines from the zone content alone … (including the
initial load, in any record order)"**, literally: whatever two histories of transactions produced them - different
load orders, records added and removed on the way, different numbers of transactions - two committed states with
the same content (owner names and the rdataset keys they hold) are *equal*: same nodes in the same order with the
same flags, same delegation index. -/
theorem derived_state_function_of_content (cfg : Cfg) (hc : WfCfg cfg) (init₁ init₂ : Bool) (h₁ h₂ : List Txn)
    (hw₁ : ∀ t ∈ h₁, TxnWf t) (hw₂ : ∀ t ∈ h₂, TxnWf t) :
    match runHist intended cfg (initState init₁) h₁, runHist intended cfg (initState init₂) h₂ with
    | some s₁, some s₂ => content s₁.1 = content s₂.1 → s₁ = s₂
    | _, _ => True := by
  have g₁ := runHist_good hc (zGood_init cfg init₁) hw₁ (histGuard_intended cfg _ h₁)
  have g₂ := runHist_good hc (zGood_init cfg init₂) hw₂ (histGuard_intended cfg _ h₂)
  cases r₁ : runHist intended cfg (initState init₁) h₁ with
  | none => trivial
  | some s₁ =>
    cases r₂ : runHist intended cfg (initState init₂) h₂ with
    | none => trivial
    | some s₂ =>
      obtain ⟨N₁, D₁⟩ := s₁
      obtain ⟨N₂, D₂⟩ := s₂
      rw [r₁] at g₁; rw [r₂] at g₂
      intro hcont
      exact zstate_of_content g₁ g₂ hcont

/-- non-vacuity: the nested cuts `a`, `b.a` with `x.b.a` loaded in two opposite orders, once in one transaction and
once in three (with a record added and deleted again on the way), give the same content - and, by the theorem, the
same state; the code before the repairs gave two different states (`flags_eq_spec_fails_D16_load_order`). -/
example :
    (runHist intended cfgRel (initState false)
      [⟨true, [.put [] soa, .put nXBA a, .put nBA ns, .put nA ns], true⟩]).map (fun s => content s.1)
    = (runHist intended cfgRel (initState true)
      [⟨true, [.put nA ns, .put nC a], true⟩, ⟨false, [.put nBA ns, .put [] soa], true⟩,
       ⟨false, [.delName nC, .put nXBA a], true⟩]).map (fun s => content s.1) := by decide

/-- **`Delegations.get_delegation`** (the index API behind "whether the name is at or below a delegation"), after
any history, for every lower-case query name: if some delegation point `d` (by the content definition) is at or
above the name, the answer is `(d, name is strictly below d)`; if none is, the answer is `(None, False)`. -/
theorem get_delegation_eq_spec (cfg : Cfg) (hc : WfCfg cfg) (init : Bool) (h : List Txn) (hw : ∀ t ∈ h, TxnWf t)
    (name : Name) (hn : lowerName name = name) :
    match runHist intended cfg (initState init) h with
    | none => True
    | some (nodes, delegs) =>
      (∀ d, lowerName d = d → isDelegSpec cfg nodes d = true → isSubdomain name d = true →
          getDelegation delegs name = (some d, properSub name d)) ∧
      ((∀ d, lowerName d = d → isDelegSpec cfg nodes d = true → isSubdomain name d = false) →
          getDelegation delegs name = (none, false)) := by
  have g := runHist_good hc (zGood_init cfg init) hw (histGuard_intended cfg _ h)
  cases r : runHist intended cfg (initState init) h with
  | none => trivial
  | some s =>
    obtain ⟨N, D⟩ := s
    rw [r] at g
    exact getDelegation_spec g hn

/-- non-vacuity: on `hCut` the index answers `(a, strictly below)` for `x.a`, `(a, not strictly)` for `a` and
`(None, False)` for `c`. -/
example :
    (match runHist intended cfgAbs (initState true) hCut with
     | some (_, d) => [getDelegation d abXA, getDelegation d (ab 97), getDelegation d (ab 99)]
     | none => []) = [(some (ab 97), true), (some (ab 97), false), (none, false)] := by decide

/-! ## bounds -/

/-- **"for every query name the bounds query returns the true nearest predecessor and successor among
non-occluded names, the true closest encloser (counting empty non-terminals), and whether the name is at or
below a delegation"** — the code as it is (`intended`, D19 and D20 repaired), no guard, every history, every legal query name (names outside the zone get
`KeyError`; a zone without a visible name at or before the query gets the assertion of the code). -/
theorem bounds_eq_spec (cfg : Cfg) (hc : WfCfg cfg) (init : Bool) (h : List Txn) (hw : ∀ t ∈ h, TxnWf t)
    (q : Name) (hq : NoInnerEmpty q) :
    BoundsRight intended cfg q (runHist intended cfg (initState init) h) :=
  boundsRight_of_good hc (runHist_good hc (zGood_init cfg init) hw (histGuard_intended cfg _ h)) hq
    (queryGuard_intended cfg q _)

/-- The same for any variant under the guards: the history guard of `flags_eq_spec_partial`, and for the query
(D19) "the name is at or below a cut, or the greatest node not after it is not glue", (D20) "the closest
encloser has at least one label" — each only for the decision point left as shipped.
Full statement (false for `asShipped`, see below): the same conclusion without `hg`, `hgq`. -/
theorem bounds_eq_spec_partial (v : Variant) (cfg : Cfg) (hc : WfCfg cfg) (init : Bool) (h : List Txn)
    (hw : ∀ t ∈ h, TxnWf t) (hg : histGuard v cfg (initState init) h = true)
    (q : Name) (hq : NoInnerEmpty q) (hgq : queryGuard v cfg q (runHist v cfg (initState init) h) = true) :
    BoundsRight v cfg q (runHist v cfg (initState init) h) :=
  boundsRight_of_good hc (runHist_good hc (zGood_init cfg init) hw hg) hq hgq

/-- non-vacuity for the code as shipped on `hCut` (absolute zone, cut `a`, glue `x.a`, and `c`): queries at the
cut, below the cut (an occluded name and a non-existent one), at an existing name, after the last name and at the
apex all meet the query guard; for `x.a` the answer is: left = the cut, right = `c`, closest encloser = the cut,
not equal, zonecut bit set. -/
example :
    histGuard asShipped cfgAbs (initState true) hCut = true ∧
    [ab 97, abXA, [121] :: abXA, ab 99, ab 122, exOrigin].all
      (fun q => queryGuard asShipped cfgAbs q (runHist asShipped cfgAbs (initState true) hCut)) = true ∧
    (match runHist asShipped cfgAbs (initState true) hCut with
     | some (n, d) => (bounds asShipped cfgAbs n d abXA).toOption.map
        (fun b => (b.left, b.right, b.closestEncloser, b.isEqual, b.isDelegation))
     | none => none) = some (ab 97, some (ab 99), ab 97, false, true) := by decide

/-! ## the former defects (all repaired in /repo), as kernel-checked counter-examples on the model of the code before the repairs -/

/-- D15: a DS added at the cut `a` in a later transaction drops its DELEGATION flag. -/
theorem flags_eq_spec_fails_D15 :
    zConsistent cfgRel (runHist asShipped cfgRel (initState false)
      [⟨true, [.put [] soa, .put nA ns], true⟩, ⟨false, [.put nA ds], true⟩]) = false := by decide

/-- D16 (load order): the same content loaded inner cut first is inconsistent, outer cut first is consistent. -/
theorem flags_eq_spec_fails_D16_load_order :
    zConsistent cfgRel (runHist asShipped cfgRel (initState false)
      [⟨true, [.put [] soa, .put nBA ns, .put nA ns], true⟩]) = false ∧
    zConsistent cfgRel (runHist asShipped cfgRel (initState false)
      [⟨true, [.put [] soa, .put nA ns, .put nBA ns], true⟩]) = true := by
  decide

/-- D16 (no promotion): deleting the outer NS leaves the inner NS owner unflagged and unindexed. -/
theorem flags_eq_spec_fails_D16_no_promotion :
    zConsistent cfgRel (runHist asShipped cfgRel (initState false)
      [⟨true, [.put [] soa, .put nA ns, .put nBA ns, .put nXBA a], true⟩, ⟨false, [.delRds nA ns], true⟩]) = false := by
  decide

/-- CNAME put at a cut: the NS rdataset is dropped by the node, flag, index and glue stay. -/
theorem flags_eq_spec_fails_cname_at_cut :
    zConsistent cfgRel (runHist asShipped cfgRel (initState false)
      [⟨true, [.put [] soa, .put nA ns, .put nXA a, .put nA cname], true⟩]) = false := by decide

/-- D19: on `hCut`, `bounds(b)` returns the occluded `x.a` as left neighbour; the specification (and the
repaired variant) say `a`. -/
theorem bounds_eq_spec_fails_D19 :
    (match runHist asShipped cfgAbs (initState false) hCut with
     | some (n, d) => ((bounds asShipped cfgAbs n d (ab 98)).toOption.map (·.left),
                       (boundsSpec cfgAbs n (ab 98)).map (·.left),
                       (bounds intended cfgAbs n d (ab 98)).toOption.map (·.left))
     | none => (none, none, none)) = (some abXA, some (ab 97), some (ab 97)) := by decide

/-- D20: relativized zone, closest encloser is the apex: `name[-0:]` yields the whole query name `zz` instead
of the empty name. -/
theorem bounds_eq_spec_fails_D20 :
    (match runHist asShipped cfgRel (initState false) [⟨true, [.put [] soa, .put nC a], true⟩] with
     | some (n, d) => ((bounds asShipped cfgRel n d nZZ).toOption.map (·.closestEncloser),
                       (boundsSpec cfgRel n nZZ).map (·.closestEncloser),
                       (bounds intended cfgRel n d nZZ).toOption.map (·.closestEncloser))
     | none => (none, none, none)) = (some nZZ, some [], some []) := by decide

/-- the repaired variant is consistent on all four flag witnesses -/
theorem intended_consistent_on_witnesses :
    zConsistent cfgRel (runHist intended cfgRel (initState false)
      [⟨true, [.put [] soa, .put nA ns], true⟩, ⟨false, [.put nA ds], true⟩]) = true ∧
    zConsistent cfgRel (runHist intended cfgRel (initState false)
      [⟨true, [.put [] soa, .put nBA ns, .put nA ns], true⟩]) = true ∧
    zConsistent cfgRel (runHist intended cfgRel (initState false)
      [⟨true, [.put [] soa, .put nA ns, .put nBA ns, .put nXBA a], true⟩, ⟨false, [.delRds nA ns], true⟩]) = true ∧
    zConsistent cfgRel (runHist intended cfgRel (initState false)
      [⟨true, [.put [] soa, .put nA ns, .put nXA a, .put nA cname], true⟩]) = true := by decide

end C20

import Model.Tokenizer
import Model.ZoneFile
import Proofs.TokenizerTTL
import Proofs.TokenizerLayout
import Proofs.ZoneFileCname
import Proofs.ZoneFileInterp
import Proofs.ZoneFileHeader
import Props.C01
import Proofs.ZoneFileRoundTrip
import Proofs.ZoneFileOwnerText
import Proofs.ZoneFileRdataA
import Proofs.ZoneFileGenerate
import Proofs.ZoneFileLossless
import Proofs.ZoneFileCodecLink
import Proofs.ZoneFileGenLine
import Proofs.ZoneFileGenTTL
import Proofs.ZoneFileInclude
import Proofs.ZoneFileGenRadix
import Proofs.ZoneFileTypeTok
import Proofs.ZoneFileCodecA
/-!
# C09 — zones survive write-then-read as text; equivalent zone-file spellings agree

Theorems of record about `Model.Tokenizer` (dns/tokenizer.py, dns/ttl.py, dns/grange.py) and
`Model.ZoneFile` (dns/zonefile.py reader, zone/node/rdataset writer).  The tables (`ConstsC09.*`) are
regenerated from the working tree on every run.
-/
namespace C09
open Model

/-- The delimiter sets the tokenizer model uses are the ones of the working tree (`_DELIMITERS`, `_QUOTING_DELIMITERS`). -/
theorem delimiters_generated :
    (∀ c, c ∈ Model.delimiters ↔ c ∈ ConstsC09.delimiters) ∧ Model.quotingDelimiters = ConstsC09.quotingDelimiters := by
  constructor
  · intro c; simp [Model.delimiters, ConstsC09.delimiters]; omega
  · decide

/-- The type the reader treats as "a CNAME" is type 5, and the only types allowed next to it are NSEC (47), NSEC3 (50)
and KEY (25): `dns.node._cname_types` / `_neutral_types` of the working tree, which `cname_exclusive` is relative to. -/
theorem cname_tables_generated :
    ConstsC09.cnameTypes = [5] ∧ ConstsC09.neutralTypes = [25, 47, 50] ∧ classifyType tCNAME = .cname := by
  decide

/-- "$TTL emission" / explicit TTLs: `dns.ttl.from_text` inverts the decimal text of every TTL up to `MAX_TTL`
(the form in which the writer prints TTLs and the `$TTL` directive). -/
theorem ttl_roundtrip (n : Nat) (h : n ≤ Consts.maxTTL) : ttlFromText (natToDec n) = .ok n := by
  unfold ttlFromText
  simp only [natToDec_ne_nil, ne_eq, not_false_eq_true, natToDec_all, and_self, if_true, digitsVal_natToDec]
  have : ¬ n > Consts.maxTTL := by omega
  simp [this]

/-- BIND 8 unit form: any non-empty sequence of `<count><unit>` groups (units w d h m s in either case) denotes
the sum of `count × unit`, and is accepted exactly when that sum is at most `MAX_TTL`. -/
theorem ttl_units (g : Nat × Nat) (gs : List (Nat × Nat)) (hu : ∀ x ∈ g :: gs, (unitMult x.2).isSome) :
    ttlFromText (unitsText (g :: gs)) =
      if unitsValue (g :: gs) > Consts.maxTTL then .error .badTTL else .ok (unitsValue (g :: gs)) := by
  unfold ttlFromText
  have h1 : unitsText (g :: gs) ≠ [] := by
    obtain ⟨v, u⟩ := g
    simp [unitsText]
  have h2 := unitsText_not_all_decimal g gs (hu g (by simp))
  simp only [h1, h2, ne_eq, not_false_eq_true, Bool.false_eq_true, and_false, if_false]
  rw [ttlLoop_units (g :: gs) 0 hu]
  simp

/-- non-vacuity: `1w2D3h4m5s` -/
example : ttlFromText (unitsText [(1, 119), (2, 68), (3, 104), (4, 109), (5, 115)]) = .ok 788645 := by
  rw [ttl_units _ _ (by decide)]; rfl

/-- "parenthesised multi-line versus single-line records": the tokens `Tokenizer.get` returns for a line do not
depend on its layout.  A line is a list of words (identifiers with escapes, quoted strings), each preceded by a
separator made of blanks, tabs, `(`, `)`, and — inside parentheses only — newlines and `;comment` lines, closed by a
separator that brings the depth back to 0, an optional trailing comment and the newline.  Whatever the separators
are, the tokens are the words' tokens followed by EOL, the tokenizer ends at depth 0, not quoting, on the text after
the line. -/
theorem tokenize_layout (items : List (List SepItem × Word)) (sepEnd : List SepItem) (trailing : Option (List Nat))
    (rest : List Nat)
    (hdepth : lineDepth 0 items sepEnd = some 0) (hw : ∀ p ∈ items, p.2.ok = true)
    (hsep : ∀ p ∈ items.tail, p.1 ≠ []) (ht : ∀ t ∈ trailing, 10 ∉ t) :
    getLine (items.length + 1) (TState.init (renderLine items sepEnd trailing ++ rest)) =
      .ok (items.map (fun p => p.2.token) ++ [eolToken trailing], TState.init rest) := by
  have := getLine_items items sepEnd trailing rest 0 false (items.length + 1) (by omega) hdepth hw hsep ht
  simpa [after, TState.init] using this

/-- any two layouts of the same words give the same token list (the EOL token's value does not depend on a trailing
comment either; only its `comment` attribute does) -/
theorem tokenize_layout_eq (ws : List Word) (l1 l2 : List (List SepItem)) (e1 e2 : List SepItem) (rest1 rest2 : List Nat)
    (hl1 : l1.length = ws.length) (hl2 : l2.length = ws.length)
    (hd1 : lineDepth 0 (l1.zip ws) e1 = some 0) (hd2 : lineDepth 0 (l2.zip ws) e2 = some 0)
    (hw : ∀ w ∈ ws, w.ok = true)
    (hs1 : ∀ p ∈ (l1.zip ws).tail, p.1 ≠ []) (hs2 : ∀ p ∈ (l2.zip ws).tail, p.1 ≠ []) :
    (getLine (ws.length + 1) (TState.init (renderLine (l1.zip ws) e1 none ++ rest1))).map (·.1) =
    (getLine (ws.length + 1) (TState.init (renderLine (l2.zip ws) e2 none ++ rest2))).map (·.1) := by
  have len1 : (l1.zip ws).length = ws.length := by simp [hl1]
  have len2 : (l2.zip ws).length = ws.length := by simp [hl2]
  have hw1 : ∀ p ∈ l1.zip ws, p.2.ok = true := fun p hp => hw p.2 (List.of_mem_zip hp).2
  have hw2 : ∀ p ∈ l2.zip ws, p.2.ok = true := fun p hp => hw p.2 (List.of_mem_zip hp).2
  have t1 := tokenize_layout (l1.zip ws) e1 none rest1 hd1 hw1 hs1 (by simp)
  have t2 := tokenize_layout (l2.zip ws) e2 none rest2 hd2 hw2 hs2 (by simp)
  rw [len1] at t1; rw [len2] at t2
  rw [t1, t2]
  simp only [Except.map]
  rw [map_snd_zip Word.token l1 ws hl1, map_snd_zip Word.token l2 ws hl2]

/-- non-vacuity: `a ( "x y" ; c⏎ b\.c ) ⏎` against `a "x y" b\.c⏎` -/
example :
    let ws := [Word.ident [97], Word.quoted [120, 32, 121], Word.ident [98, 92, 46, 99]]
    lineDepth 0 ([[], [.sp, .opn, .sp], [.sp, .comment [32, 99], .tab]].zip ws) [.sp, .cls, .sp] = some 0 ∧
    lineDepth 0 ([[], [.sp], [.sp]].zip ws) [] = some 0 ∧ (∀ w ∈ ws, w.ok = true) := by
  decide

/-- "a CNAME never coexists with other data after loading": every zone `from_text` returns satisfies `ZoneOK`
(no node holds a CNAME-kind rdataset together with a regular — "other data" — rdataset), for every input text,
origin, relativize setting and `check_origin` flag. -/
theorem cname_exclusive (text : List Nat) (origin : Option Name) (rel chk : Bool) (z : ZoneMap) (o : Option Name)
    (h : zoneFromText text origin rel chk = .ok (z, o)) : ZoneOK z := by
  simp only [zoneFromText, PState.read, bind, Except.bind] at h
  split at h
  · cases h
  · rename_i v hv
    obtain ⟨r, z1⟩ := v
    have hz1 : ZoneOK z1 := readLoop_ok _ _ _ _ _ zoneOK_nil hv
    simp only at h
    split at h
    · split at h
      · cases h
      · simp [pure, Except.pure] at h; rw [← h.1]; exact hz1
    · simp [pure, Except.pure] at h; rw [← h.1]; exact hz1

/-- "the reader equals a denotational `interp`": what `Reader.read` does to the zone is the fold of `txn.add` over
the records the zone-independent parser emits (`parseTrace`, which never looks at the zone), the first failing step
deciding the outcome.  Two texts whose parser traces agree therefore load to the same zone (or fail alike). -/
theorem read_eq_interp (text : List Nat) (origin : Option Name) (rel : Bool) :
    (PState.init text origin rel).read =
      interpTrace (parseTrace (text.length + 2) (PState.init text origin rel)) [] := by
  simp [PState.read, readLoop_eq_interp, PState.init, TState.init, includeFuel]

/-- the same from any reader state — with `$INCLUDE` allowed, files to open and includes pending: pushing and popping
`saved_state` happens inside the zone-independent parser (`lineStep`), so a file with `$INCLUDE`s still denotes the fold
of `txn.add` over one trace of records -/
theorem read_eq_interp_state (r : PState) :
    r.read = interpTrace (parseTrace (r.tok.input.length + 2 + includeFuel r.files) r) [] := by
  simp [PState.read, readLoop_eq_interp]

/-- "either order of TTL and class" (under any layout of the separators, including parenthesised multi-line
ones): `<ttl> <class> <type>` and `<class> <ttl> <type>` parse to the same TTL and type, update `last_ttl` alike and
leave the reader at the same place. -/
theorem ttl_class_either_order (r1 r2 : PState) (a2 a3 b2 b3 : List SepItem) (ttlT clsT tyT T : List Nat)
    (d1 d2 d3 e1 e2 : Nat) (v ty : Nat)
    (hsame : ∀ tk, { r1 with tok := tk } = { r2 with tok := tk })
    (hf1 : getIdent r1.tok = .ok (identToken ttlT, after d1 false (renderSep a2 ++ (clsT ++ (renderSep a3 ++ (tyT ++ T))))))
    (hf2 : getIdent r2.tok = .ok (identToken clsT, after e1 false (renderSep b2 ++ (ttlT ++ (renderSep b3 ++ (tyT ++ T))))))
    (ha2 : sepDepth d1 a2 = some d2) (ha3 : sepDepth d2 a3 = some d3)
    (hb2 : sepDepth e1 b2 = some e2) (hb3 : sepDepth e2 b3 = some d3)
    (na3 : a3 ≠ []) (nb3 : b3 ≠ []) (hT : startsDelim T)
    (ok1 : identOK ttlT = true) (ne1 : ttlT ≠ []) (ok2 : identOK clsT = true) (ne2 : clsT ≠ [])
    (ok3 : identOK tyT = true) (ne3 : tyT ≠ [])
    (hv : ttlOf ttlT = some v) (hc : classFromText clsT = some 1) (hcv : ttlOf clsT = none)
    (hty : typeFromText tyT = some ty) :
    rrHeader r1 = rrHeader r2 := by
  rw [rrHeader_ttl_class r1 a2 a3 ttlT clsT tyT T d1 d2 d3 v ty hf1 ha2 ha3 na3 hT ok2 ne2 ok3 ne3 hv hc hty,
    rrHeader_class_ttl r2 b2 b3 ttlT clsT tyT T e1 e2 d3 v ty hf2 hb2 hb3 nb3 hT ok1 ne1 ok3 ne3 hv hc hcv hty]
  have := hsame (after d3 false T)
  simp only [PState.mk.injEq] at this ⊢
  simp [this]

/-- "inherited versus explicit class": omitting the class field changes nothing. -/
theorem class_inherited_eq_explicit (r1 r2 : PState) (a2 a3 b2 : List SepItem) (ttlT clsT tyT T : List Nat)
    (d1 d2 d3 e1 : Nat) (v ty : Nat)
    (hsame : ∀ tk, { r1 with tok := tk } = { r2 with tok := tk })
    (hf1 : getIdent r1.tok = .ok (identToken ttlT, after d1 false (renderSep a2 ++ (clsT ++ (renderSep a3 ++ (tyT ++ T))))))
    (hf2 : getIdent r2.tok = .ok (identToken ttlT, after e1 false (renderSep b2 ++ (tyT ++ T))))
    (ha2 : sepDepth d1 a2 = some d2) (ha3 : sepDepth d2 a3 = some d3) (hb2 : sepDepth e1 b2 = some d3)
    (na3 : a3 ≠ []) (hT : startsDelim T)
    (ok2 : identOK clsT = true) (ne2 : clsT ≠ []) (ok3 : identOK tyT = true) (ne3 : tyT ≠ [])
    (hv : ttlOf ttlT = some v) (hc : classFromText clsT = some 1)
    (hnc : classFromText tyT = none) (hty : typeFromText tyT = some ty) :
    rrHeader r1 = rrHeader r2 := by
  rw [rrHeader_ttl_class r1 a2 a3 ttlT clsT tyT T d1 d2 d3 v ty hf1 ha2 ha3 na3 hT ok2 ne2 ok3 ne3 hv hc hty,
    rrHeader_ttl_only r2 b2 ttlT tyT T e1 d3 v ty hf2 hb2 hT ok3 ne3 hv hnc hty]
  have := hsame (after d3 false T)
  simp only [PState.mk.injEq] at this ⊢
  simp [this]

/-- "inherited versus explicit TTL": with the TTL field omitted the record gets the `$TTL` / SOA-minimum default when
one is known, else the last explicit TTL; writing that value explicitly yields the same TTL and type (it then also
becomes `last_ttl`, which the reader never consults while a default is known). -/
theorem ttl_inherited_eq_explicit (r1 r2 : PState) (a2 : List SepItem) (ttlT tyT T : List Nat)
    (d1 d2 e1 : Nat) (v ty : Nat)
    (hf1 : getIdent r1.tok = .ok (identToken ttlT, after d1 false (renderSep a2 ++ (tyT ++ T))))
    (hf2 : getIdent r2.tok = .ok (identToken tyT, after e1 false T))
    (ha2 : sepDepth d1 a2 = some d2) (hT : startsDelim T)
    (ok3 : identOK tyT = true) (ne3 : tyT ≠ [])
    (hv : ttlOf ttlT = some v) (hinh : r2.inheritedTTL = some v)
    (hnv : ttlOf tyT = none) (hnc : classFromText tyT = none) (hty : typeFromText tyT = some ty) :
    (rrHeader r1).map (·.1) = (rrHeader r2).map (·.1) := by
  rw [rrHeader_ttl_only r1 a2 ttlT tyT T d1 d2 v ty hf1 ha2 hT ok3 ne3 hv hnc hty,
    rrHeader_type_only r2 tyT T e1 ty hf2 hnv hnc hty]
  simp [Except.map, hinh]

/-- "inherited versus explicit owner": a line that starts with whitespace gets `last_name`; writing that name out
gives the same owner and the same parser state apart from the tokenizer position. -/
theorem owner_inherited_eq_explicit (r1 r2 : PState) (t1 t2 tw : Token) (s1 s2 sw : TState) (co zo n : Name)
    (hsame : ∀ tk, { r1 with tok := tk } = { r2 with tok := tk })
    (hco : r1.currentOrigin = some co) (hzo : r1.zoneOrigin = some zo) (hln : r1.lastName = some n)
    (hg1 : r1.tok.get (wantLeading := true) = .ok (t1, s1)) (ht1 : t1.ttype ≠ .whitespace)
    (hn : t1.asName (some co) false none = .ok n)
    (hg2 : r2.tok.get (wantLeading := true) = .ok (tw, sw)) (htw : tw.ttype = .whitespace)
    (hg2' : sw.get = .ok (t2, s2)) (hne : t2.isEolOrEof = false)
    (hin : isSubdomain n zo = true) :
    (rrOwner r1).map (fun x => (x.1, { x.2 with tok := s1 })) =
    (rrOwner r2).map (fun x => (x.1, { x.2 with tok := s1 })) := by
  have e := hsame s1
  simp only [PState.mk.injEq] at e
  obtain ⟨_, e2, e3, e4, e5, e6, e7, e8, e9⟩ := e
  rw [rrOwner_explicit r1 t1 s1 co zo n hco hzo hg1 ht1 hn hin,
    rrOwner_inherited r2 tw t2 sw s2 co zo n (e4 ▸ hco) (e2 ▸ hzo) (e5 ▸ hln) hg2 htw hg2' hne hin]
  rw [← e3]
  cases ownerInZone r1.relativize n zo with
  | error e => rfl
  | ok m =>
    simp only [Except.map, Except.ok.injEq, Prod.mk.injEq, true_and, PState.mk.injEq]
    simp [e2, e3, e4, e6, e7, e8, e9, ← e5, hln]

/-- "$ORIGIN-relative versus absolute names": the relative spelling of a name under the current origin and its
absolute spelling denote the same name (owner names, and every name inside RDATA, go through this function). -/
theorem relative_eq_absolute_name (n o : Name) (hn : WfName n) (hno : WfName (n ++ o)) (ho1 : OctetsOk n) (ho2 : OctetsOk (n ++ o))
    (hrel : isAbs n = false) (habs : isAbs (n ++ o) = true) :
    fromText (toText n) (some o) = fromText (toText (n ++ o)) (some o) := by
  rw [C01.fromText_toText_origin n o hn ho1, C01.fromText_toText_origin (n ++ o) o hno ho2]
  simp [hrel, habs, validate_of_wf (n ++ o) hno]

/-- non-vacuity for the name spelling: `www` under `example.` -/
example : WfName [[119, 119, 119]] ∧ WfName ([[119, 119, 119]] ++ [[101, 120], []]) ∧
    isAbs [[119, 119, 119]] = false ∧ isAbs ([[119, 119, 119]] ++ [[101, 120], []]) = true := by
  refine ⟨⟨?_, ?_, ?_⟩, ⟨?_, ?_, ?_⟩, ?_, ?_⟩ <;> decide

/-- "records outside the zone origin are ignored": when the owner of a line is not at or below the zone origin the
rest of the line is consumed without being parsed (so it need not even be well-formed beyond its tokens), no record
is produced, and only `last_name` changes. -/
theorem out_of_zone_ignored (r : PState) (t : Token) (s : TState) (co zo n : Name)
    (hco : r.currentOrigin = some co) (hzo : r.zoneOrigin = some zo)
    (hget : r.tok.get (wantLeading := true) = .ok (t, s)) (hty : t.ttype ≠ .whitespace)
    (hn : t.asName (some co) false none = .ok n) (hout : isSubdomain n zo = false) :
    rrParse r = (eatLine (s.input.length + 2) s).map fun s' => (none, { r with tok := s', lastName := some n }) := by
  unfold rrParse
  rw [rrOwner_out_of_zone r t s co zo n hco hzo hget hty hn hout]
  cases eatLine (s.input.length + 2) s <;> simp [Except.map, bind, Except.bind, pure, Except.pure]

/-- the record lines of a file in the writer's canonical shape are read back one record each, whatever RDATA codec
is plugged in behind the `RdataReads` interface (C05): `owner SP ttl SP class SP type <rdata> NL`. -/
theorem read_line (r : PState) (ow ttlT clsT tyT rdText rest : List Nat) (co zo n m : Name) (ttl ty : Nat)
    (rd : Rdata) (comment : Option (List Nat))
    (hco : r.currentOrigin = some co) (hzo : r.zoneOrigin = some zo)
    (htok : r.tok = after 0 false (ow ++ (32 :: (ttlT ++ (32 :: (clsT ++ (32 :: (tyT ++ (rdText ++ rest)))))))))
    (hl : LineOK ow ttlT clsT tyT co zo n ttl ty)
    (hm : ownerInZone r.relativize n zo = .ok m)
    (hrd : RdataReads ty rdText rd comment (some co) r.relativize (some zo) r.gfix) :
    lineStep r = .ok (.entry ⟨m, ttl, ty, ⟨rd, comment⟩⟩, afterRecord r n ttl ty rd rest) :=
  lineStep_record r ow ttlT clsT tyT rdText rest co zo n m ttl ty rd comment hco hzo htok hl hm hrd

/-- what the writer prints in front of the RDATA always is what the reader needs (`LineOK` minus the name algebra):
the text of any well-formed owner name is one identifier that is no directive; the decimal TTL reads back as the
TTL; `IN` reads back as class 1; every mnemonic of the working tree's type table reads back as its type. -/
theorem written_fields_are_tokens (name : Name) (ttl : Nat) (hwf : WfName name) (ho : OctetsOk name)
    (ht : ttl ≤ Consts.maxTTL) :
    (identOK (toText name) = true ∧ toText name ≠ [] ∧ (toText name).head? ≠ some 36) ∧
    (identOK (natToDec ttl) = true ∧ natToDec ttl ≠ [] ∧ ttlOf (natToDec ttl) = some ttl) ∧
    (identOK (classToText 1) = true ∧ classToText 1 ≠ [] ∧ classFromText (classToText 1) = some 1) ∧
    (∀ p ∈ ConstsC09.typeText, TypeTextOK p.1) :=
  ⟨toText_token name hwf ho, ⟨(natToDec_token ttl).1, (natToDec_token ttl).2, ttlOf_natToDec ttl ht⟩,
    classText_token, typeText_table_ok⟩

/-- "writing any zone to master-file text and reading it back yields an equal zone, for relativized and absolute
zones" — proved for the plain one-record-per-line style with `sorted` on or off (`plainStyleS b`), for every
well-formed zone (`ZoneWF`: non-empty nodes and rdatasets, names / types / rdatas pairwise distinct, singleton types
hold one rdata, CNAME exclusivity, SOA only at the origin) whose records are individually readable (`RecLine.Good`: the
name algebra of the owner, and the RDATA codec behind the C05 interface `RdataReads`):
`from_text(to_styled_text(z)) = z` exactly when unsorted, and the zone with its names in canonical order when sorted. -/
theorem read_write (b : Bool) (z : ZoneMap) (zo : Name) (rel gfix : Bool) (absOf : Name → Name) (rtextOf : RR → List Nat)
    (hwf : ZoneWF (if rel then some [] else some zo) (writeOrder b z))
    (htext : ∀ p ∈ writeOrder b z, ∀ rds ∈ p.2, ∀ rr ∈ rds.rrs, rdataToText (plainStyleS b).toRdStyle rr.rd = .ok (rtextOf rr))
    (hgood : ∀ l ∈ zoneRecLines absOf rtextOf (writeOrder b z), l.Good zo rel gfix) :
    ∃ text, zoneToText (plainStyleS b) (some zo) z rel = .ok text ∧
      zoneFromText text (some zo) rel false gfix = .ok (writeOrder b z, some zo) :=
  read_write_plain b z zo rel gfix absOf rtextOf hwf htext hgood

/-- "sorting": the order in which a sorted style writes (and the reader then stores) the names is a permutation of
the zone's own order — the zones are equal as name → node maps. -/
theorem sorted_is_permutation (z : ZoneMap) : (writeOrder true z).Perm z := by
  simpa [writeOrder] using sortNames_perm z

/-- the denotation of a zone's own record list is the zone (the reader reconstructs a well-formed zone exactly) -/
theorem interp_of_records (eff : Option Name) (z : ZoneMap) (hwf : ZoneWF eff z) :
    addAll eff [] (entriesOfZone z) = .ok z := addAll_rebuild eff z hwf

/-- non-vacuity of `read_write`: the relativized zone `www 300 IN A 10.0.0.1 / 10.0.0.2`, `ns 60 IN A 192.0.2.1`
under origin `ex.` meets every hypothesis, with the A-record instance of the RDATA interface (`rdataReads_A`). -/
example :
    let zo : Name := [[101, 120], []]
    let z : ZoneMap := [([[119, 119, 119]], [⟨1, 300, [⟨.a [10, 0, 0, 1], none⟩, ⟨.a [10, 0, 0, 2], none⟩]⟩]),
                        ([[110, 115]], [⟨1, 60, [⟨.a [192, 0, 2, 1], none⟩]⟩])]
    let rtextOf : RR → List Nat := fun rr => match rr.rd with | .a addr => inetNtoa addr | _ => []
    let absOf : Name → Name := fun n => n ++ zo
    ZoneWF (some []) (writeOrder false z) ∧
    (∀ p ∈ writeOrder false z, ∀ rds ∈ p.2, ∀ rr ∈ rds.rrs,
        rdataToText (plainStyleS false).toRdStyle rr.rd = .ok (rtextOf rr)) ∧
    (∀ l ∈ zoneRecLines absOf rtextOf (writeOrder false z), l.Good zo true false) := by
  intro zo z rtextOf absOf
  refine ⟨?_, ?_, ?_⟩
  · refine ⟨?_, ?_, ?_⟩
    · intro p hp
      simp only [writeOrder, z, Bool.false_eq_true, if_false, List.mem_cons, List.mem_nil_iff, or_false] at hp
      rcases hp with rfl | rfl <;>
        exact ⟨by simp, by intro r hr; simp at hr; subst hr; exact ⟨by simp, by decide, by decide⟩, by simp,
          by simp [NodeOK]; decide⟩
    · simp only [writeOrder, z, Bool.false_eq_true, if_false]; decide
    · intro p hp r hr
      simp only [writeOrder, z, Bool.false_eq_true, if_false, List.mem_cons, List.mem_nil_iff, or_false] at hp
      rcases hp with rfl | rfl <;> (simp at hr; subst hr; decide)
  · intro p hp rds hr rr hrr
    simp only [writeOrder, z, Bool.false_eq_true, if_false, List.mem_cons, List.mem_nil_iff, or_false] at hp
    rcases hp with rfl | rfl <;> (simp at hr; subst hr; simp at hrr) <;> (try rcases hrr with rfl | rfl) <;>
      (try subst hrr) <;> rfl
  · intro l hl
    simp only [zoneRecLines, writeOrder, z, Bool.false_eq_true, if_false, List.flatMap_cons, List.flatMap_nil, List.map_cons,
      List.map_nil, List.append_nil, List.cons_append, List.nil_append, List.mem_cons, List.mem_nil_iff, or_false] at hl
    have lineok : ∀ (name : Name) (ttl : Nat), WfName name → OctetsOk name → ttl ≤ Consts.maxTTL →
        (identToken (toText name)).asName (some zo) false none = .ok (name ++ zo) → isSubdomain (name ++ zo) zo = true →
        LineOK (toText name) (natToDec ttl) (classToText 1) (typeToText 1) zo zo (name ++ zo) ttl 1 := by
      intro name ttl h1 h2 h3 h4 h5
      obtain ⟨a1, a2, a3⟩ := toText_token name h1 h2
      obtain ⟨c1, c2, c3⟩ := classText_token
      obtain ⟨t1, t2, t3⟩ := typeText_table_ok (1, [65]) (by decide)
      exact ⟨a1, a2, a3, h4, h5, (natToDec_token ttl).1, (natToDec_token ttl).2, ttlOf_natToDec ttl h3, c1, c2, c3, t1, t2, t3⟩
    rcases hl with rfl | rfl | rfl
    · refine ⟨lineok [[119, 119, 119]] 300 ⟨by decide, by decide, by decide⟩ (by unfold OctetsOk; decide) (by decide) rfl rfl,
        rfl, ?_⟩
      exact rdataReads_A (inetNtoa [10, 0, 0, 1]) [10, 0, 0, 1] _ _ _ _ rfl (by decide) (by decide) rfl rfl
    · refine ⟨lineok [[119, 119, 119]] 300 ⟨by decide, by decide, by decide⟩ (by unfold OctetsOk; decide) (by decide) rfl rfl,
        rfl, ?_⟩
      exact rdataReads_A (inetNtoa [10, 0, 0, 2]) [10, 0, 0, 2] _ _ _ _ rfl (by decide) (by decide) rfl rfl
    · refine ⟨lineok [[110, 115]] 60 ⟨by decide, by decide, by decide⟩ (by unfold OctetsOk; decide) (by decide) rfl rfl,
        rfl, ?_⟩
      exact rdataReads_A (inetNtoa [192, 0, 2, 1]) [192, 0, 2, 1] _ _ _ _ rfl (by decide) (by decide) rfl rfl

/-- "$GENERATE versus its expansion", one index: the `for` loop of `_generate_line` (owner through
`dns.name.from_text`, RDATA through a fresh tokenizer over the substituted text) hands `txn.add` the same record as the
reader does for the explicit line `owner SP ttl SP class SP type SP rdata NL` of the expansion.  `co` is the current
origin (any `$ORIGIN` may have preceded), `zo` the zone origin: both call sites (`_rr_line`, `_generate_line`) hand
`dns.rdata.from_text` the triple `(origin, relativize, relativize_to) = (current_origin, relativize, zone_origin)`, which
is what `hline` (the line) and `hfresh` (the loop) speak about. -/
theorem generate_eq_expansion (r : PState) (nameT ttlT clsT tyT rdT rest : List Nat) (co zo n m : Name) (ttl ty : Nat)
    (rd : Rdata) (comment : Option (List Nat)) (s' : TState)
    (hco : r.currentOrigin = some co) (hzo : r.zoneOrigin = some zo)
    (hname : fromText nameT (some co) = .ok n) (habs : isAbs n = true)
    (hl : LineOK nameT ttlT clsT tyT co zo n ttl ty)
    (hm : ownerInZone r.relativize n zo = .ok m)
    (hline : RdataReads ty (32 :: (rdT ++ [10])) rd comment (some co) r.relativize (some zo) r.gfix)
    (hfresh : rdataFromText ty (TState.init rdT) (some co) r.relativize (some zo) r.gfix = .ok (rd, comment, s')) :
    (genItem ttl ty (nameT, rdT) r).map (·.1) =
    (lineStep { r with tok := after 0 false (nameT ++ (32 :: (ttlT ++ (32 :: (clsT ++ (32 :: (tyT ++ ((32 :: (rdT ++ [10])) ++ rest)))))))) }).map
      (fun x => evEntry x.1) :=
  generate_item_eq_line r nameT ttlT clsT tyT rdT rest co zo n m ttl ty rd comment s' hco hzo hname habs hl hm hline hfresh

/-- "$GENERATE versus its expansion", the whole loop, with no in-zone hypothesis: every index either yields a record
(`e item = some _`) or has its owner outside the zone and is skipped (`e item = none`); what the loop does to the zone
is the fold of `txn.add` over the records yielded, in index order — the same denotation `read_eq_interp` / `read_write` give
to the file of their explicit lines. -/
theorem generate_loop_is_fold (ttl ty : Nat) (items : List (List Nat × List Nat)) (r : PState)
    (e : List Nat × List Nat → Option Entry) (nOf : List Nat × List Nat → Name) (k : PState → Trace)
    (h : ∀ item ∈ items, ∀ ln, genItem ttl ty item { r with lastName := ln } =
      .ok (e item, { r with lastName := some (nOf item) }))
    (z : ZoneMap) :
    ∃ ln, interpTrace (genTrace ttl ty items r k) z =
      (addAll r.effOrigin z (items.filterMap e)).bind fun z' => interpTrace (k { r with lastName := ln }) z' :=
  genTrace_records ttl ty items r e nOf k h z

/-- a generated owner outside the zone yields no record and does not end the loop (`fix:` commit 202894b): the later
indices still run -/
theorem generate_out_of_zone_skipped (r : PState) (nameT rdT : List Nat) (co zo n : Name) (ttl ty : Nat)
    (hco : r.currentOrigin = some co) (hzo : r.zoneOrigin = some zo)
    (hname : fromText nameT (some co) = .ok n) (hout : isSubdomain n zo = false) :
    genItem ttl ty (nameT, rdT) r = .ok (none, { r with lastName := some n }) :=
  genItem_out_of_zone r nameT rdT co zo n ttl ty hco hzo hname hout

/-- regression of the finding repaired by 202894b, end to end on the model: zone `h2.ex.`, `$ORIGIN ex.`, and
`$GENERATE 1-3 h$ 300 A 10.0.0.$` — `h1` and `h3` are outside the zone and skipped, `h2` (the apex) is loaded — the same
zone as the explicit lines give -/
example :
    zoneFromText (s2l "$ORIGIN ex.\n$GENERATE 1-3 h$ 300 A 10.0.0.$\n") (some [s2l "h2", s2l "ex", []]) false false =
      .ok ([([s2l "h2", s2l "ex", []], [⟨1, 300, [⟨.a [10, 0, 0, 2], none⟩]⟩])], some [s2l "h2", s2l "ex", []]) := by
  rfl

example :
    zoneFromText (s2l "$ORIGIN ex.\nh1 300 A 10.0.0.1\nh2 300 A 10.0.0.2\nh3 300 A 10.0.0.3\n")
      (some [s2l "h2", s2l "ex", []]) false false =
      .ok ([([s2l "h2", s2l "ex", []], [⟨1, 300, [⟨.a [10, 0, 0, 2], none⟩]⟩])], some [s2l "h2", s2l "ex", []]) := by
  rfl

/-- the indices a `$GENERATE start-stop/step` line runs over are `start, start+step, …` up to `stop` inclusive -/
theorem generate_indices (start stop step : Nat) (lhs rhs : List Nat) (lm rm : Modify) :
    generateExpansion start stop step lhs rhs lm rm =
      (((List.range (stop + 1 - start)).filter (fun k => k % step = 0)).map fun k =>
        (substIndex lhs lm (start + k), substIndex rhs rm (start + k))) := rfl

/-! ### write-then-read under every lossless style -/

/-- **"writing any zone to master-file text and reading it back yields an equal zone … under every output style that
does not discard information"**.  `st` is any style; `st' = adjustStyle st …` is the style `Zone.to_styled_file`
actually uses (it supplies the zone's origin to a generic-syntax style that has none).  Hypotheses:
`Lossless st'` (TTLs not omitted, first owner of a node printed, owner column not right-justified, `$TTL` value in
range); the zone — in the order written, with the comments the text carries — is well formed (`ZoneWF`); every record
is readable (`RecOK`: the name algebra of its owner, the type token, and the RDATA codec behind the C05 interface
`RdataReads`, for the RDATA text under *this* style: chunking, generic form, trailing comment, padding); the zone origin
is an absolute name (`dns.zone.Zone` requires it; the reader completes the `$ORIGIN` argument with the origin it was
given and rejects a name that is still relative — commit c444c98).
Conclusion: the text written loads back — given the origin, or, when `$ORIGIN` is emitted and the zone is not empty,
without it — to exactly that zone.  Every knob is free: `sorted`, `want_origin`, `default_ttl` (any value, 0 included),
`deduplicate_names`, the four justifications, `want_comments`, `omit_rdclass`, `want_generic`, the name style
(`origin`/`relativize`) and the RDATA style (chunk sizes and separators). -/
theorem read_write_lossless (st : Style) (z : ZoneMap) (zo : Name) (rel gfix : Bool) (origin? : Option Name)
    (owOf : Name → List Nat) (absOf : Name → Name) (rtextOf : RR → List Nat)
    (hl : Lossless (adjustStyle st (some zo) rel))
    (horig : origin? = some zo ∨ (origin? = none ∧ (adjustStyle st (some zo) rel).wantOrigin = true ∧
      writeOrder (adjustStyle st (some zo) rel).sorted z ≠ []))
    (hotext : (adjustStyle st (some zo) rel).wantOrigin = true →
      identOK (toText zo) = true ∧ toText zo ≠ [] ∧ fromText (toText zo) none = .ok zo)
    (hzabs : isAbs zo = true)
    (hname : ∀ p ∈ writeOrder (adjustStyle st (some zo) rel).sorted z,
      nameToStyledText (adjustStyle st (some zo) rel).toNameStyle p.1 = .ok (owOf p.1))
    (htext : ∀ p ∈ writeOrder (adjustStyle st (some zo) rel).sorted z, ∀ rds ∈ p.2, ∀ rr ∈ rds.rrs,
      recordText (adjustStyle st (some zo) rel) rr.rd = .ok (rtextOf rr))
    (hwf : ZoneWF (if rel then some [] else some zo)
      (keptZone (adjustStyle st (some zo) rel) (writeOrder (adjustStyle st (some zo) rel).sorted z)))
    (hrec : ∀ p ∈ writeOrder (adjustStyle st (some zo) rel).sorted z, ∀ rds ∈ p.2, ∀ x ∈ rds.rrs,
      RecOK (adjustStyle st (some zo) rel) zo rel gfix (owOf p.1) (absOf p.1) p.1 rds.ttl rds.rdtype x (rtextOf x)) :
    ∃ text, zoneToText st (some zo) z rel = .ok text ∧
      zoneFromText text origin? rel false gfix =
        .ok (keptZone (adjustStyle st (some zo) rel) (writeOrder (adjustStyle st (some zo) rel).sorted z), some zo) := by
  obtain ⟨hnd, hne⟩ := zoneWF_shape _ _ _ hwf
  exact ⟨_, zoneToText_spec st zo z rel owOf rtextOf hname hnd hne htext,
    read_write_lossless_core _ _ zo rel gfix origin? owOf absOf rtextOf hl horig hotext hzabs hwf hrec⟩

/-- every single knob of the lossless set, and all of them together, satisfy `Lossless` (the instances of
`read_write_lossless` the property text enumerates: `$ORIGIN` emission, `$TTL` emission incl. 0, owner de-duplication,
left justification of the owner and either justification of the other columns, comments, chunking, generic syntax) -/
theorem lossless_knobs :
    Lossless { wantOrigin := true } ∧ Lossless { defaultTTL := some 0 } ∧ Lossless { defaultTTL := some 86400 } ∧
    Lossless { dedup := true } ∧ Lossless { nameJust := -24, ttlJust := 8, classJust := -4, typeJust := 10 } ∧
    Lossless { wantComments := true } ∧ Lossless { hexChunk := 2, hexSep := [32, 32] } ∧
    Lossless { wantGeneric := true, genFix := 2 } ∧ Lossless { omitClass := true } ∧ Lossless { sorted := false } ∧
    Lossless { wantOrigin := true, defaultTTL := some 300, dedup := true, nameJust := -16, ttlJust := -6, classJust := 3,
               typeJust := -8, wantComments := true, wantGeneric := true, genFix := 2, omitClass := true } := by
  refine ⟨?_, ?_, ?_, ?_, ?_, ?_, ?_, ?_, ?_, ?_, ?_⟩ <;>
    exact ⟨rfl, rfl, by decide, by intro v h; simp at h <;> (try subst h) <;> decide⟩

/-! ### concrete RDATA codecs behind the interface `RdataReads`

Each instance is stated for "blanks, the text `to_styled_text` prints, an optional ` ;comment`, newline" — the shape the
writer produces after the (padded) type column under any lossless style — and for every continuation of the file. -/

/-- A: the address token -/
theorem rdata_codec_A (b w addr : List Nat) (kc : Option (List Nat)) (co : Option Name) (rel : Bool) (zo : Option Name)
    (gfix : Bool) (hb : Blank b) (hbn : b ≠ []) (hkc : ∀ t ∈ kc, 10 ∉ t)
    (hw : identOK w = true) (hne : w ≠ []) (hnot : w ≠ [92, 35]) (hesc : hasEsc w = false)
    (hval : inetAton (w.flatMap utf8) = some addr) :
    RdataReads tA (b ++ (w ++ lineEnd kc)) (.a addr) kc co rel zo gfix :=
  rdataReads_A_gen b w addr kc co rel zo gfix hb hbn hkc hw hne hnot hesc hval

/-- NS / CNAME / PTR: one name, resolved against the current origin exactly as `Tokenizer.as_name` does -/
theorem rdata_codec_name (ty : Nat) (hty : isName1Type ty = true) (b w : List Nat) (t : Name) (kc : Option (List Nat))
    (co : Option Name) (rel : Bool) (zo : Option Name) (gfix : Bool)
    (hb : Blank b) (hbn : b ≠ []) (hkc : ∀ x ∈ kc, 10 ∉ x)
    (hw : identOK w = true) (hne : w ≠ []) (hnot : w ≠ [92, 35])
    (hname : (identToken w).asName co rel zo = .ok t) :
    RdataReads ty (b ++ (w ++ lineEnd kc)) (.name1 t) kc co rel zo gfix :=
  rdataReads_name1 ty hty b w t kc co rel zo gfix hb hbn hkc hw hne hnot hname

/-- MX: preference (any 16-bit value) and exchange -/
theorem rdata_codec_MX (b w : List Nat) (p : Nat) (t : Name) (kc : Option (List Nat))
    (co : Option Name) (rel : Bool) (zo : Option Name) (gfix : Bool)
    (hb : Blank b) (hbn : b ≠ []) (hkc : ∀ x ∈ kc, 10 ∉ x) (hp : p ≤ 65535)
    (hw : identOK w = true) (hne : w ≠ []) (hname : (identToken w).asName co rel zo = .ok t) :
    RdataReads tMX (b ++ (natToDec p ++ (32 :: (w ++ lineEnd kc)))) (.mx p t) kc co rel zo gfix :=
  rdataReads_MX b w p t kc co rel zo gfix hb hbn hkc hp hw hne hname

/-- SOA: two names, a 32-bit serial and four TTL-valued timers printed in decimal -/
theorem rdata_codec_SOA (b mt rt : List Nat) (m r : Name) (se rf rtv ex mi : Nat) (kc : Option (List Nat))
    (co : Option Name) (rel : Bool) (zo : Option Name) (gfix : Bool)
    (hb : Blank b) (hbn : b ≠ []) (hkc : ∀ x ∈ kc, 10 ∉ x)
    (hm : identOK mt = true) (hmn : mt ≠ []) (hmk : mt ≠ [92, 35]) (hr : identOK rt = true) (hrn : rt ≠ [])
    (hmname : (identToken mt).asName co rel zo = .ok m) (hrname : (identToken rt).asName co rel zo = .ok r)
    (hse : se ≤ 4294967295) (hrf : rf ≤ Consts.maxTTL) (hrt : rtv ≤ Consts.maxTTL) (hex : ex ≤ Consts.maxTTL)
    (hmi : mi ≤ Consts.maxTTL) :
    RdataReads tSOA (b ++ soaText mt rt se rf rtv ex mi (lineEnd kc)) (.soa m r se rf rtv ex mi) kc co rel zo gfix :=
  rdataReads_SOA b mt rt m r se rf rtv ex mi kc co rel zo gfix hb hbn hkc hm hmn hmk hr hrn hmname hrname hse hrf hrt hex hmi

/-- TXT: any non-empty list of character-strings of at most 255 arbitrary octets, quoted and escaped by
`dns.rdata._escapify`, comes back octet for octet through the tokenizer's quoting mode and `unescape_to_bytes` -/
theorem rdata_codec_TXT (b : List Nat) (s1 : Bytes) (more : List Bytes) (kc : Option (List Nat))
    (co : Option Name) (rel : Bool) (zo : Option Name) (gfix : Bool)
    (hb : Blank b) (hbn : b ≠ []) (hkc : ∀ x ∈ kc, 10 ∉ x)
    (hs : ∀ s ∈ s1 :: more, (∀ c ∈ s, c < 256) ∧ s.length ≤ 255) :
    RdataReads tTXT (b ++ (joinWith [32] ((s1 :: more).map txtQuote) ++ lineEnd kc)) (.txt (s1 :: more)) kc co rel zo gfix :=
  rdataReads_TXT b s1 more kc co rel zo gfix hb hbn hkc hs

/-- "base64/hex chunking", "generic RFC 3597 syntax": the generic form `\# n hex…` of a type without an
implementation class, under *any* chunk size and any separator made of blanks ("token-safe re-chunking") -/
theorem rdata_codec_generic (ty : Nat) (hty : isGenericType ty = true) (b : List Nat) (d : Bytes) (hd : ∀ x ∈ d, x < 256)
    (chunk : Nat) (sep : List Nat) (hsep : SepOK sep) (kc : Option (List Nat)) (hc : ∀ t ∈ kc, 10 ∉ t)
    (co : Option Name) (rel : Bool) (zo : Option Name) (gfix : Bool) (hb : Blank b) (hbn : b ≠ []) :
    RdataReads ty (b ++ (genericMarker ++ genericTail d chunk sep (lineEnd kc))) (.generic d) kc co rel zo gfix :=
  rdataReads_generic ty hty b d hd chunk sep hsep kc hc co rel zo gfix hb hbn

/-- `want_generic` on a known type: the generic text is read back to the rdata whenever the type's wire codec
round-trips against the reader's origin (the C02 interface), again under any chunking -/
theorem rdata_codec_generic_known (ty : Nat) (hgen : isGenericType ty = false) (hmod : isModelledType ty = true)
    (b : List Nat) (d : Bytes) (rd : Rdata) (hd : ∀ x ∈ d, x < 256)
    (chunk : Nat) (sep : List Nat) (hsep : SepOK sep) (kc : Option (List Nat)) (hc : ∀ t ∈ kc, 10 ∉ t)
    (co : Option Name) (rel : Bool) (zo : Option Name) (gfix : Bool) (hb : Blank b) (hbn : b ≠ [])
    (hdec : rdataFromWire ty d (if gfix then wireOrigin co rel zo else co) = some rd)
    (henc : rdataToWire (if gfix then wireOrigin co rel zo else none) rd = .ok d) :
    RdataReads ty (b ++ (genericMarker ++ genericTail d chunk sep (lineEnd kc))) rd kc co rel zo gfix :=
  rdataReads_generic_known ty hgen hmod b d rd hd chunk sep hsep kc hc co rel zo gfix hb hbn hdec henc

/-- the RDATA text of the generic form is exactly what the writer prints for it, and the escape / hex tables used
above are those of the working tree -/
theorem codec_tables :
    RdEscOK ConstsC09.rdataEscaped ∧
    (∀ d chunk sep, rdataToText { hexChunk := chunk, hexSep := sep } (.generic d) =
      .ok (genericMarker ++ genericTail d chunk sep [])) := by
  refine ⟨rdEscOK_generated, ?_⟩
  intro d chunk sep
  simp [rdataToText, genericMarker, genericTail, s2l, List.append_assoc]

/-- a codec instance in "blanks, text, line end" form supplies the `rdata` field `read_write_lossless` asks of a record -/
theorem codec_supplies_record (st : Style) (ty : Nat) (rr : RR) (rtext : List Nat) (co : Option Name) (rel : Bool)
    (zo : Option Name) (gfix : Bool)
    (h : RdataReads ty ((padR (typeTok st ty) st.typeJust ++ [32]) ++ (rtext ++ lineEnd (keptComment st rr))) rr.rd
      (keptComment st rr) co rel zo gfix) :
    RdataReads ty (padR (typeTok st ty) st.typeJust ++ (32 :: (rtext ++ (extraOf st rr ++ [10])))) rr.rd
      (keptComment st rr) co rel zo gfix :=
  recOK_rdata st ty rr rtext co rel zo gfix h

/-- non-vacuity of `read_write_lossless`: with `$ORIGIN`, `$TTL 300`, de-duplicated owners, a left-justified owner
column, left/right-justified TTL/class/type columns and comments all switched on, the relativized zone
`www 300 A 10.0.0.1 ;c / 10.0.0.2`, `www 60 TXT "hi"` under `ex.` meets every hypothesis (codecs: A and TXT instances),
whether the reader is given the origin or takes it from `$ORIGIN`. -/
example :
    let zo : Name := [[101, 120], []]
    let st : Style := { sorted := false, wantOrigin := true, defaultTTL := some 300, dedup := true, nameJust := -16,
                        ttlJust := -6, classJust := 3, typeJust := -8, wantComments := true }
    let z : ZoneMap := [([[119, 119, 119]],
      [⟨1, 300, [⟨.a [10, 0, 0, 1], some [99]⟩, ⟨.a [10, 0, 0, 2], none⟩]⟩, ⟨16, 60, [⟨.txt [[104, 105]], none⟩]⟩])]
    let rtextOf : RR → List Nat := fun rr => match rr.rd with
      | .a addr => inetNtoa addr
      | .txt ss => joinWith [32] (ss.map txtQuote)
      | _ => []
    let absOf : Name → Name := fun n => n ++ zo
    let owOf : Name → List Nat := toText
    Lossless (adjustStyle st (some zo) true) ∧
    (∀ p ∈ writeOrder (adjustStyle st (some zo) true).sorted z,
      nameToStyledText (adjustStyle st (some zo) true).toNameStyle p.1 = .ok (owOf p.1)) ∧
    (∀ p ∈ writeOrder (adjustStyle st (some zo) true).sorted z, ∀ rds ∈ p.2, ∀ rr ∈ rds.rrs,
      recordText (adjustStyle st (some zo) true) rr.rd = .ok (rtextOf rr)) ∧
    ZoneWF (some []) (keptZone (adjustStyle st (some zo) true) (writeOrder (adjustStyle st (some zo) true).sorted z)) ∧
    (∀ p ∈ writeOrder (adjustStyle st (some zo) true).sorted z, ∀ rds ∈ p.2, ∀ x ∈ rds.rrs,
      RecOK (adjustStyle st (some zo) true) zo true true (owOf p.1) (absOf p.1) p.1 rds.ttl rds.rdtype x (rtextOf x)) := by
  intro zo st z rtextOf absOf owOf
  have hst : adjustStyle st (some zo) true = st := rfl
  have hw : writeOrder st.sorted z = z := rfl
  rw [hst, hw]
  refine ⟨⟨rfl, rfl, by decide, by intro v h; cases h; decide⟩, ?_, ?_, ?_, ?_⟩
  · intro p hp
    simp only [z, List.mem_cons, List.mem_nil_iff, or_false] at hp
    subst hp; rfl
  · intro p hp rds hr rr hrr
    simp only [z, List.mem_cons, List.mem_nil_iff, or_false] at hp
    subst hp
    simp at hr
    rcases hr with rfl | rfl <;> simp at hrr
    · rcases hrr with rfl | rfl <;> rfl
    · subst hrr; rfl
  · refine ⟨?_, ?_, ?_⟩
    · intro p hp
      simp only [keptZone, z, List.map_cons, List.map_nil, List.mem_cons, List.mem_nil_iff, or_false] at hp
      subst hp
      refine ⟨by simp, ?_, by simp, by simp [NodeOK]; decide⟩
      intro r hr
      simp at hr
      rcases hr with rfl | rfl
      · exact ⟨by simp, by decide, by decide⟩
      · exact ⟨by simp, by simp, by decide⟩
    · simp [keptZone, z]
    · intro p hp r hr
      simp only [keptZone, z, List.map_cons, List.map_nil, List.mem_cons, List.mem_nil_iff, or_false] at hp
      subst hp
      simp at hr
      rcases hr with rfl | rfl <;> decide
  · intro p hp rds hr x hx
    simp only [z, List.mem_cons, List.mem_nil_iff, or_false] at hp
    subst hp
    obtain ⟨a1, a2, a3⟩ := toText_token [[119, 119, 119]] ⟨by decide, by decide, by decide⟩ (by unfold OctetsOk; decide)
    have base : ∀ (ttl ty : Nat) (rr : RR) (rtext : List Nat), ttl ≤ Consts.maxTTL → TypeTokOK st ty →
        RdataReads ty (padR (typeTok st ty) st.typeJust ++ (32 :: (rtext ++ (extraOf st rr ++ [10])))) rr.rd
          (keptComment st rr) (some zo) true (some zo) true →
        RecOK st zo true true (toText [[119, 119, 119]]) ([[119, 119, 119]] ++ zo) [[119, 119, 119]] ttl ty rr rtext :=
      fun ttl ty rr rtext h1 h2 h3 => ⟨a1, a2, a3, rfl, rfl, rfl, h1, h2, h3⟩
    have tyA : TypeTokOK st 1 := ⟨⟨by decide, by decide⟩, by decide, by decide, by decide⟩
    have tyT : TypeTokOK st 16 := ⟨⟨by decide, by decide⟩, by decide, by decide, by decide⟩
    simp at hr
    rcases hr with rfl | rfl <;> simp at hx
    · rcases hx with rfl | rfl
      · apply base 300 1 _ _ (by decide) tyA
        apply recOK_rdata
        exact rdataReads_A_gen _ (inetNtoa [10, 0, 0, 1]) [10, 0, 0, 1] _ _ _ _ _ (typeGap_sep st 1).1 (typeGap_sep st 1).2
          (by intro t ht; cases ht; decide) rfl (by decide) (by decide) rfl rfl
      · apply base 300 1 _ _ (by decide) tyA
        apply recOK_rdata
        exact rdataReads_A_gen _ (inetNtoa [10, 0, 0, 2]) [10, 0, 0, 2] _ _ _ _ _ (typeGap_sep st 1).1 (typeGap_sep st 1).2
          (by intro t ht; cases ht) rfl (by decide) (by decide) rfl rfl
    · subst hx
      apply base 60 16 _ _ (by decide) tyT
      apply recOK_rdata
      exact rdataReads_TXT _ [104, 105] [] _ _ _ _ _ (typeGap_sep st 16).1 (typeGap_sep st 16).2
        (by intro t ht; cases ht) (by intro s hs; simp at hs; subst hs; exact ⟨by decide, by decide⟩)

/-- A without side conditions: for every address `a.b.c.d` the dotted quad the writer prints is read back to it -/
theorem rdata_codec_A_all (b : List Nat) (o1 o2 o3 o4 : Nat) (h1 : o1 < 256) (h2 : o2 < 256) (h3 : o3 < 256) (h4 : o4 < 256)
    (kc : Option (List Nat)) (co : Option Name) (rel : Bool) (zo : Option Name) (gfix : Bool)
    (hb : Blank b) (hbn : b ≠ []) (hkc : ∀ t ∈ kc, 10 ∉ t) :
    RdataReads tA (b ++ (inetNtoa [o1, o2, o3, o4] ++ lineEnd kc)) (.a [o1, o2, o3, o4]) kc co rel zo gfix :=
  rdataReads_A_all b o1 o2 o3 o4 h1 h2 h3 h4 kc co rel zo gfix hb hbn hkc

/-- the type column: every mnemonic of the working tree's table (the meta-type `ANY`, whose mnemonic is also a class
mnemonic, excepted) and, under `want_generic`, `TYPEn` for every 16-bit type meet what `read_write_lossless` asks of the
type token (`TypeTokOK`: it is a token, reads back as the type, and is neither a TTL nor a class) -/
theorem type_column_ok (st : Style) :
    (st.wantGeneric = false → ∀ p ∈ ConstsC09.typeText, p.1 ≠ 255 → TypeTokOK st p.1) ∧
    (st.wantGeneric = true → ∀ n, n ≤ 65535 → TypeTokOK st n) :=
  ⟨fun hg p hp hany => typeTokOK_plain st hg p hp hany, fun hg n h => typeTokOK_generic st hg n h⟩

/-- the `$ORIGIN` line: the text of any well-formed absolute-or-relative origin name is a token that reads back as
the name (what `read_write_lossless` asks when `want_origin` is on) -/
theorem origin_text_ok (zo : Name) (hwf : WfName zo) (ho : OctetsOk zo) :
    identOK (toText zo) = true ∧ toText zo ≠ [] ∧ fromText (toText zo) none = .ok zo :=
  ⟨(toText_token zo hwf ho).1, (toText_token zo hwf ho).2.1, C01.fromText_toText zo hwf ho⟩

/-! ### `$GENERATE` at character level -/

/-- `_format_index`, **width** (base `d`): a non-negative index is printed in decimal, left-filled with `0` up to the
width; the text still denotes the index and is at least `width` long -/
theorem generate_format_width (n w : Nat) :
    formatIndex (n : Int) 100 w = List.replicate (w - (natToDec n).length) 48 ++ natToDec n ∧
    digitsVal (formatIndex (n : Int) 100 w) 0 = n ∧ w ≤ (formatIndex (n : Int) 100 w).length :=
  ⟨formatIndex_dec n w, (formatIndex_dec_value n w).1, (formatIndex_dec_value n w).2.1⟩

/-- `_format_index` of a negative index (counter below a `-offset`): the sign stays in front of the zero fill -/
theorem generate_format_negative (n w : Nat) :
    formatIndex (-((n : Int) + 1)) 100 w =
      45 :: (List.replicate (w - ((natToDec (n + 1)).length + 1)) 48 ++ natToDec (n + 1)) :=
  formatIndex_dec_neg n w

/-- the range token: `start-stop` and `start-stop/step` -/
theorem generate_range_text (a b s : Nat) (h : a ≤ b) (hs : 1 ≤ s) :
    grangeFromText (natToDec a ++ 45 :: natToDec b) = .ok (a, b, 1) ∧
    grangeFromText (natToDec a ++ 45 :: (natToDec b ++ 47 :: natToDec s)) = .ok (a, b, s) :=
  ⟨grange_text a b h, grange_text_step a b s h hs⟩

/-- `_parse_modify` + `str.replace` on a side `pre$post` (one `$`, no modifier): the `$` becomes the decimal index -/
theorem generate_subst_plain (pre post : List Nat) (i : Nat) (hpre : 36 ∉ pre) (hpost : 36 ∉ post)
    (hbrace : post.head? ≠ some 123) :
    parseModify (pre ++ 36 :: post) = some {} ∧
    substIndex (pre ++ 36 :: post) {} i = pre ++ (natToDec i ++ post) :=
  substIndex_plain pre post i hpre hpost hbrace

/-- `_parse_modify` + `str.replace` on a side `pre${[-]offset,width,base}post`: **offset**, **width** and **base** are
those of the group, and the group becomes `_format_index(i ± offset, base, width)` -/
theorem generate_subst_modifier (pre post : List Nat) (neg : Bool) (o w b : Nat) (i : Nat)
    (hpre : 36 ∉ pre) (hpost : 36 ∉ post) (hb : [100, 111, 120, 88, 110, 78].contains b = true) :
    parseModify (pre ++ 36 :: (modText neg o w b ++ post)) =
      some { mod := modText neg o w b, sign := if neg then 45 else 43, offset := o, width := w, base := b } ∧
    substIndex (pre ++ 36 :: (modText neg o w b ++ post))
        { mod := modText neg o w b, sign := if neg then 45 else 43, offset := o, width := w, base := b } i =
      pre ++ (formatIndex (if neg then (i : Int) - o else (i : Int) + o) b w ++ post) :=
  substIndex_modifier pre post neg o w b i hpre hpost hb

/-- the expansion of `$GENERATE a-b/s pre₁$post₁ … pre₂$post₂`: for every index the owner `pre₁ i post₁` and the RDATA
text `pre₂ i post₂` -/
theorem generate_expansion_plain (a b s : Nat) (pre1 post1 pre2 post2 : List Nat)
    (h1 : 36 ∉ pre1) (h2 : 36 ∉ post1) (h3 : post1.head? ≠ some 123)
    (h4 : 36 ∉ pre2) (h5 : 36 ∉ post2) (h6 : post2.head? ≠ some 123) :
    generateExpansion a b s (pre1 ++ 36 :: post1) (pre2 ++ 36 :: post2) {} {} =
      (((List.range (b + 1 - a)).filter (fun k => k % s = 0)).map fun k =>
        (pre1 ++ (natToDec (a + k) ++ post1), pre2 ++ (natToDec (a + k) ++ post2))) := by
  unfold generateExpansion
  apply List.map_congr_left
  intro k _
  rw [(substIndex_plain pre1 post1 (a + k) h1 h2 h3).2, (substIndex_plain pre2 post2 (a + k) h4 h5 h6).2]

/-- **"$GENERATE versus its expansion", as text**: the line `$GENERATE range lhs ttl class type rhs⏎` and the file of
the explicit record lines of its indices (same records, TTL written out, index order) take the reader — from the same
state, with the same text after them — to the same zone and the same parser state, so the rest of the file is read
alike.  (Per index: the owner resolves and the RDATA text reads, both from a fresh tokenizer as `_generate_line` does and
in the line as `_rr_line` does — the interfaces of `generate_eq_expansion`.)  The state `r` is any state of the reader:
its current origin `co` need not be the zone origin `zo` (`generate_after_origin_directives` below supplies such states
from files with any run of `$ORIGIN` directives); relative owners and relative RDATA names of the lines and of the
`$GENERATE` templates are completed with `co`, and stored relative to `zo`. -/
theorem generate_eq_expansion_text (f : Nat) (r : PState) (z : ZoneMap) (co zo : Name)
    (rangeT lhs ttlT clsT tyT rhs rest : List Nat) (a b st ttl ty : Nat) (lm rm : Modify)
    (e : List Nat × List Nat → Option Entry) (nOf : List Nat × List Nat → Name) (ls : List GLine)
    (hco : r.currentOrigin = some co) (hzo : r.zoneOrigin = some zo)
    (k1 : TokOK rangeT) (k2 : TokOK lhs) (k3 : TokOK ttlT) (k4 : TokOK clsT) (k5 : TokOK tyT) (k6 : TokOK rhs)
    (hrange : grangeFromText rangeT = .ok (a, b, st)) (httl : ttlOf ttlT = some ttl)
    (hcls : classFromText clsT = some 1) (hty : typeFromText tyT = some ty)
    (hlm : parseModify lhs = some lm) (hrm : parseModify rhs = some rm)
    (hitems : ∀ item ∈ generateExpansion a b st lhs rhs lm rm, ∀ ln,
      genItem ttl ty item { r with tok := after 0 false (10 :: rest), lastTTL := ttl, lastTTLKnown := true, lastName := ln } =
        .ok (e item, { r with tok := after 0 false (10 :: rest), lastTTL := ttl, lastTTLKnown := true,
                                     lastName := some (nOf item) }))
    (hls : ls.map GLine.entry = (generateExpansion a b st lhs rhs lm rm).filterMap e) (hne : ls ≠ [])
    (hok : LinesOK co zo r.relativize r.gfix r.lastName none ls) (hu : UniformLines ttl ls)
    (hlast : lastN r.lastName ls = lastNameAfter nOf r.lastName (generateExpansion a b st lhs rhs lm rm)) :
    readLoop (f + 2)
        { r with tok := after 0 false (s2l "$GENERATE" ++ genHeaderText rangeT lhs ttlT clsT tyT rhs (10 :: rest)) } z =
    readLoop (f + ls.length) { r with tok := after 0 false (glinesText ls ++ rest) } z :=
  generate_eq_lines f r z co zo rangeT lhs ttlT clsT tyT rhs rest a b st ttl ty lm rm e nOf ls hco hzo k1 k2 k3 k4 k5 k6
    hrange httl hcls hty hlm hrm hitems hls hne hok hu hlast

/-- non-vacuity of `generate_eq_expansion_text`: `$GENERATE 1-2 h$ 300 IN A 10.0.0.$` against `h1 300 IN A 10.0.0.1`,
`h2 300 IN A 10.0.0.2` in the relativized zone `ex.` -/
example (r0 : PState) (rest : List Nat) (hrel : r0.relativize = true) (hg : r0.gfix = true)
    (hco : r0.currentOrigin = some [[101, 120], []]) (hzo : r0.zoneOrigin = some [[101, 120], []]) :
    let zo : Name := [[101, 120], []]
    let lhs := s2l "h$"
    let rhs := s2l "10.0.0.$"
    let mk : Nat → GLine := fun i =>
      { owner := some (s2l "h" ++ natToDec i), b0 := [32], hdr := .tc (s2l "300") [32] (s2l "IN") [32] (s2l "A"),
        rdText := 32 :: (s2l "10.0.0." ++ natToDec i ++ [10]), n := [s2l "h" ++ natToDec i] ++ zo,
        m := [s2l "h" ++ natToDec i], ttl := 300, ty := 1, rd := .a [10, 0, 0, i], comment := none }
    let ls := [mk 1, mk 2]
    let e : List Nat × List Nat → Option Entry := fun it => some ⟨[it.1], 300, 1, ⟨.a [10, 0, 0, digitsVal (it.1.drop 1) 0], none⟩⟩
    let nOf : List Nat × List Nat → Name := fun it => [it.1] ++ zo
    grangeFromText (s2l "1-2") = .ok (1, 2, 1) ∧ parseModify lhs = some {} ∧ parseModify rhs = some {} ∧
    generateExpansion 1 2 1 lhs rhs {} {} = [(s2l "h1", s2l "10.0.0.1"), (s2l "h2", s2l "10.0.0.2")] ∧
    (∀ item ∈ generateExpansion 1 2 1 lhs rhs {} {}, ∀ ln,
      genItem 300 1 item { r0 with tok := after 0 false (10 :: rest), lastTTL := 300, lastTTLKnown := true, lastName := ln } =
        .ok (e item, { r0 with tok := after 0 false (10 :: rest), lastTTL := 300, lastTTLKnown := true,
                                      lastName := some (nOf item) })) ∧
    ls.map GLine.entry = (generateExpansion 1 2 1 lhs rhs {} {}).filterMap e ∧
    LinesOK zo zo r0.relativize r0.gfix r0.lastName none ls ∧ UniformLines 300 ls ∧
    lastN r0.lastName ls = lastNameAfter nOf r0.lastName (generateExpansion 1 2 1 lhs rhs {} {}) := by
  intro zo lhs rhs mk ls e nOf
  have hexp : generateExpansion 1 2 1 lhs rhs {} {} = [(s2l "h1", s2l "10.0.0.1"), (s2l "h2", s2l "10.0.0.2")] := by rfl
  refine ⟨by rfl, by decide, by decide, hexp, ?_, ?_, ?_, ?_, ?_⟩
  · rw [hexp]
    intro item hi ln
    simp only [List.mem_cons, List.mem_nil_iff, or_false] at hi
    rcases hi with rfl | rfl
    · exact genItem_record _ (s2l "h1") (s2l "10.0.0.1") zo zo ([s2l "h1"] ++ zo) [s2l "h1"] 300 1 (.a [10, 0, 0, 1]) none _
        hco hzo rfl rfl (by simp [ownerInZone, hrel]; rfl) (by simp only [hrel, hg]; rfl)
    · exact genItem_record _ (s2l "h2") (s2l "10.0.0.2") zo zo ([s2l "h2"] ++ zo) [s2l "h2"] 300 1 (.a [10, 0, 0, 2]) none _
        hco hzo rfl rfl (by simp [ownerInZone, hrel]; rfl) (by simp only [hrel, hg]; rfl)
  · rw [hexp]; rfl
  · have good : ∀ i, i = 1 ∨ i = 2 → (mk i).Good zo zo r0.relativize r0.gfix := by
      intro i hi
      rcases hi with rfl | rfl
      · refine ⟨⟨sp_blank, by simp⟩, ?_, rfl, by simp [ownerInZone, hrel]; rfl, ?_, ?_⟩
        · intro ow how
          simp only [mk, Option.some.injEq] at how
          subst how
          exact ⟨by decide, by decide, by decide, rfl⟩
        · exact ⟨⟨by decide, by decide⟩, ⟨sp_blank, by simp⟩, ⟨by decide, by decide⟩, ⟨sp_blank, by simp⟩,
            ⟨by decide, by decide⟩, by decide, by decide, by decide⟩
        · exact rdataReads_A_gen [32] (s2l "10.0.0.1") [10, 0, 0, 1] none _ _ _ _ sp_blank (by simp) (by simp) (by decide)
            (by decide) (by decide) rfl rfl
      · refine ⟨⟨sp_blank, by simp⟩, ?_, rfl, by simp [ownerInZone, hrel]; rfl, ?_, ?_⟩
        · intro ow how
          simp only [mk, Option.some.injEq] at how
          subst how
          exact ⟨by decide, by decide, by decide, rfl⟩
        · exact ⟨⟨by decide, by decide⟩, ⟨sp_blank, by simp⟩, ⟨by decide, by decide⟩, ⟨sp_blank, by simp⟩,
            ⟨by decide, by decide⟩, by decide, by decide, by decide⟩
        · exact rdataReads_A_gen [32] (s2l "10.0.0.2") [10, 0, 0, 2] none _ _ _ _ sp_blank (by simp) (by simp) (by decide)
            (by decide) (by decide) rfl rfl
    exact ⟨good 1 (Or.inl rfl), by intro h; simp [mk] at h, by intro h; simp [mk, Hdr.hasTTL] at h,
      good 2 (Or.inr rfl), by intro h; simp [mk] at h, by intro h; simp [mk, Hdr.hasTTL] at h, trivial⟩
  · intro l hl
    simp only [ls, List.mem_cons, List.mem_nil_iff, or_false] at hl
    rcases hl with rfl | rfl <;> exact ⟨rfl, rfl, by decide⟩
  · rw [hexp]; rfl

/-- **"$GENERATE versus its expansion" in a file with arbitrary preceding `$ORIGIN` directives**: after any run
`$ORIGIN t₁⏎ … $ORIGIN tₙ⏎` (zone origin `zo` known, so none of them changes it; each argument absolute or relative,
completed with the origin current at that point — `OriginsOK`) the `$GENERATE` line and the explicit
lines of its expansion are read alike, with relative names on both sides completed with the origin `co` of the last
directive and stored relative to the zone origin `zo`.  (A `$GENERATE` loop that relativized its RDATA against the
current origin instead — seeded change C09-c — fails `hitems` for name-bearing RDATA as soon as `co ≠ zo`: see the
example below, whose target is `h1.hosts`, not `h1`.) -/
theorem generate_after_origin_directives (f : Nat) (r : PState) (z : ZoneMap) (co zo : Name)
    (ds : List (List Nat × Name))
    (rangeT lhs ttlT clsT tyT rhs rest : List Nat) (a b st ttl ty : Nat) (lm rm : Modify)
    (e : List Nat × List Nat → Option Entry) (nOf : List Nat × List Nat → Name) (ls : List GLine)
    (hzo : r.zoneOrigin = some zo) (hds : OriginsOK r.currentOrigin ds) (hco : lastOrigin r.currentOrigin ds = some co)
    (k1 : TokOK rangeT) (k2 : TokOK lhs) (k3 : TokOK ttlT) (k4 : TokOK clsT) (k5 : TokOK tyT) (k6 : TokOK rhs)
    (hrange : grangeFromText rangeT = .ok (a, b, st)) (httl : ttlOf ttlT = some ttl)
    (hcls : classFromText clsT = some 1) (hty : typeFromText tyT = some ty)
    (hlm : parseModify lhs = some lm) (hrm : parseModify rhs = some rm)
    (hitems : ∀ item ∈ generateExpansion a b st lhs rhs lm rm, ∀ ln,
      genItem ttl ty item { r with tok := after 0 false (10 :: rest), currentOrigin := some co, lastTTL := ttl,
                                   lastTTLKnown := true, lastName := ln } =
        .ok (e item, { r with tok := after 0 false (10 :: rest), currentOrigin := some co, lastTTL := ttl,
                                     lastTTLKnown := true, lastName := some (nOf item) }))
    (hls : ls.map GLine.entry = (generateExpansion a b st lhs rhs lm rm).filterMap e) (hne : ls ≠ [])
    (hok : LinesOK co zo r.relativize r.gfix r.lastName none ls) (hu : UniformLines ttl ls)
    (hlast : lastN r.lastName ls = lastNameAfter nOf r.lastName (generateExpansion a b st lhs rhs lm rm)) :
    readLoop ((f + 2) + ds.length)
        { r with tok := after 0 false (originsText ds ++
            (s2l "$GENERATE" ++ genHeaderText rangeT lhs ttlT clsT tyT rhs (10 :: rest))) } z =
    readLoop ((f + ls.length) + ds.length)
        { r with tok := after 0 false (originsText ds ++ (glinesText ls ++ rest)) } z := by
  have h1 := readLoop_origin_dirs ds (s2l "$GENERATE" ++ genHeaderText rangeT lhs ttlT clsT tyT rhs (10 :: rest))
    { r with tok := after 0 false (originsText ds ++
        (s2l "$GENERATE" ++ genHeaderText rangeT lhs ttlT clsT tyT rhs (10 :: rest))) } z zo (f + 2) hzo rfl hds
  have h2 := readLoop_origin_dirs ds (glinesText ls ++ rest)
    { r with tok := after 0 false (originsText ds ++ (glinesText ls ++ rest)) } z zo (f + ls.length) hzo rfl hds
  rw [h1, h2]
  simp only [hco]
  exact generate_eq_expansion_text f { r with currentOrigin := some co } z co zo rangeT lhs ttlT clsT tyT rhs rest
    a b st ttl ty lm rm e nOf ls rfl hzo k1 k2 k3 k4 k5 k6 hrange httl hcls hty hlm hrm hitems hls hne hok hu hlast

/-- a run of directives with relative and absolute arguments: under `ex.`, `$ORIGIN hosts` / `$ORIGIN deep` /
`$ORIGIN ex.` lead to `hosts.ex.`, `deep.hosts.ex.` and back to `ex.` (the relative spelling and the absolute one name
the same origin — the regression of the finding repaired by c444c98) -/
example :
    let ex : Name := [[101, 120], []]
    let hosts : List Nat := [104, 111, 115, 116, 115]
    let ds : List (List Nat × Name) :=
      [(s2l "hosts", hosts :: ex), (s2l "deep", s2l "deep" :: hosts :: ex), (s2l "ex.", ex)]
    OriginsOK (some ex) ds ∧ lastOrigin (some ex) ds = some ex ∧
    (identToken (s2l "hosts")).asName (some ex) false none = (identToken (s2l "hosts.ex.")).asName (some ex) false none ∧
    (identToken (s2l "hosts")).asName none false none = .ok [hosts] ∧ isAbs [hosts] = false := by
  intro ex hosts ds
  refine ⟨⟨by decide, by decide, by rfl, by decide, by decide, by decide, by rfl, by decide, by decide, by decide, by rfl,
    by decide, trivial⟩, rfl, by rfl, by rfl, by decide⟩

/-- non-vacuity with a current origin that is not the zone origin and name-bearing RDATA: in the relativized zone `ex.`,
after `$ORIGIN hosts.ex.`, the line `$GENERATE 1-2 a$ 300 IN CNAME h$` against `a1 300 IN CNAME h1`, `a2 300 IN CNAME h2`:
owners `a1.hosts`, `a2.hosts` and targets `h1.hosts`, `h2.hosts` (relative to the zone origin) on both sides -/
example (r0 : PState) (rest : List Nat) (hrel : r0.relativize = true) (hg : r0.gfix = true)
    (hco : r0.currentOrigin = some [[104, 111, 115, 116, 115], [101, 120], []]) (hzo : r0.zoneOrigin = some [[101, 120], []]) :
    let zo : Name := [[101, 120], []]
    let hosts : List Nat := [104, 111, 115, 116, 115]
    let co : Name := hosts :: zo
    let lhs := s2l "a$"
    let rhs := s2l "h$"
    let mk : Nat → GLine := fun i =>
      { owner := some (s2l "a" ++ natToDec i), b0 := [32], hdr := .tc (s2l "300") [32] (s2l "IN") [32] (s2l "CNAME"),
        rdText := 32 :: (s2l "h" ++ natToDec i ++ [10]), n := [s2l "a" ++ natToDec i] ++ co,
        m := [s2l "a" ++ natToDec i, hosts], ttl := 300, ty := 5, rd := .name1 [s2l "h" ++ natToDec i, hosts],
        comment := none }
    let ls := [mk 1, mk 2]
    let e : List Nat × List Nat → Option Entry := fun it => some ⟨[it.1, hosts], 300, 5, ⟨.name1 [it.2, hosts], none⟩⟩
    let nOf : List Nat × List Nat → Name := fun it => [it.1] ++ co
    fromText (s2l "hosts.ex.") none = .ok co ∧
    generateExpansion 1 2 1 lhs rhs {} {} = [(s2l "a1", s2l "h1"), (s2l "a2", s2l "h2")] ∧
    (∀ item ∈ generateExpansion 1 2 1 lhs rhs {} {}, ∀ ln,
      genItem 300 5 item { r0 with tok := after 0 false (10 :: rest), lastTTL := 300, lastTTLKnown := true, lastName := ln } =
        .ok (e item, { r0 with tok := after 0 false (10 :: rest), lastTTL := 300, lastTTLKnown := true,
                                      lastName := some (nOf item) })) ∧
    ls.map GLine.entry = (generateExpansion 1 2 1 lhs rhs {} {}).filterMap e ∧
    LinesOK co zo r0.relativize r0.gfix r0.lastName none ls ∧ UniformLines 300 ls ∧
    lastN r0.lastName ls = lastNameAfter nOf r0.lastName (generateExpansion 1 2 1 lhs rhs {} {}) := by
  intro zo hosts co lhs rhs mk ls e nOf
  have hexp : generateExpansion 1 2 1 lhs rhs {} {} = [(s2l "a1", s2l "h1"), (s2l "a2", s2l "h2")] := by rfl
  refine ⟨by rfl, hexp, ?_, ?_, ?_, ?_, ?_⟩
  · rw [hexp]
    intro item hi ln
    simp only [List.mem_cons, List.mem_nil_iff, or_false] at hi
    rcases hi with rfl | rfl
    · exact genItem_record _ (s2l "a1") (s2l "h1") co zo ([s2l "a1"] ++ co) [s2l "a1", hosts] 300 5
        (.name1 [s2l "h1", hosts]) none _ hco hzo rfl rfl (by simp [ownerInZone, hrel]; rfl) (by simp only [hrel, hg]; rfl)
    · exact genItem_record _ (s2l "a2") (s2l "h2") co zo ([s2l "a2"] ++ co) [s2l "a2", hosts] 300 5
        (.name1 [s2l "h2", hosts]) none _ hco hzo rfl rfl (by simp [ownerInZone, hrel]; rfl) (by simp only [hrel, hg]; rfl)
  · rw [hexp]; rfl
  · have good : ∀ i, i = 1 ∨ i = 2 → (mk i).Good co zo r0.relativize r0.gfix := by
      intro i hi
      rcases hi with rfl | rfl
      · refine ⟨⟨sp_blank, by simp⟩, ?_, rfl, by simp [ownerInZone, hrel]; rfl, ?_, ?_⟩
        · intro ow how
          simp only [mk, Option.some.injEq] at how
          subst how
          exact ⟨by decide, by decide, by decide, rfl⟩
        · exact ⟨⟨by decide, by decide⟩, ⟨sp_blank, by simp⟩, ⟨by decide, by decide⟩, ⟨sp_blank, by simp⟩,
            ⟨by decide, by decide⟩, by decide, by decide, by decide⟩
        · exact rdataReads_name1 5 (by decide) [32] (s2l "h1") [s2l "h1", hosts] none _ _ _ _ sp_blank (by simp) (by simp)
            (by decide) (by decide) (by decide) (by simp only [hrel]; rfl)
      · refine ⟨⟨sp_blank, by simp⟩, ?_, rfl, by simp [ownerInZone, hrel]; rfl, ?_, ?_⟩
        · intro ow how
          simp only [mk, Option.some.injEq] at how
          subst how
          exact ⟨by decide, by decide, by decide, rfl⟩
        · exact ⟨⟨by decide, by decide⟩, ⟨sp_blank, by simp⟩, ⟨by decide, by decide⟩, ⟨sp_blank, by simp⟩,
            ⟨by decide, by decide⟩, by decide, by decide, by decide⟩
        · exact rdataReads_name1 5 (by decide) [32] (s2l "h2") [s2l "h2", hosts] none _ _ _ _ sp_blank (by simp) (by simp)
            (by decide) (by decide) (by decide) (by simp only [hrel]; rfl)
    exact ⟨good 1 (Or.inl rfl), by intro h; simp [mk] at h, by intro h; simp [mk, Hdr.hasTTL] at h,
      good 2 (Or.inr rfl), by intro h; simp [mk] at h, by intro h; simp [mk, Hdr.hasTTL] at h, trivial⟩
  · intro l hl
    simp only [ls, List.mem_cons, List.mem_nil_iff, or_false] at hl
    rcases hl with rfl | rfl <;> exact ⟨rfl, rfl, by decide⟩
  · rw [hexp]; rfl

/-- the same record with the RDATA relativized against the *current* origin (what seeded change C09-c makes of
`_generate_line`) is a different record: the model's loop does not produce it -/
example : (∃ s', rdataFromText 5 (TState.init (s2l "h1")) (some [[104, 111, 115, 116, 115], [101, 120], []]) true
      (some [[101, 120], []]) true = .ok (.name1 [s2l "h1", [104, 111, 115, 116, 115]], none, s')) ∧
    (Rdata.name1 [s2l "h1", [104, 111, 115, 116, 115]] ≠ .name1 [s2l "h1"]) :=
  ⟨⟨_, rfl⟩, by decide⟩

/-! ### the TTL of a line that states none (`default_ttl` versus `last_ttl`) -/

/-- **one rule for both line kinds.**  (1) The `except BadTTL` fallback of `_generate_line` — "no default and no last
TTL: error; default known: the default; otherwise the last stated TTL" — is the TTL `_rr_line` inherits
(`PState.inheritedTTL`, the value `header_stage`/`read_line` give a TTL-less record line).  (2) A known default TTL
(`$TTL`, or the SOA minimum) wins over any TTL stated on an earlier line; (3) only without a default is the last stated
TTL inherited.  (Seeded change C09-e swaps the precedence in `_generate_line` alone.) -/
theorem ttl_defaulting_rule (r : PState) :
    genFallbackTTL r = r.inheritedTTL ∧
    (r.defaultTTLKnown = true → r.inheritedTTL = some r.defaultTTL) ∧
    (r.defaultTTLKnown = false → r.lastTTLKnown = true → r.inheritedTTL = some r.lastTTL) ∧
    (r.defaultTTLKnown = false → r.lastTTLKnown = false → r.inheritedTTL = none) :=
  ⟨genFallbackTTL_eq_inherited r, inheritedTTL_default r, inheritedTTL_last r,
    fun h1 h2 => by simp [PState.inheritedTTL, h1, h2]⟩

/-- the model's `_generate_line`, on a header with neither TTL nor class, hands its loop exactly the inherited TTL and
leaves `last_ttl` alone (`generate_ttl_of_header_class`: the same with the class written) -/
theorem generate_ttl_of_header (r : PState) (rangeT lhs tyT rhs T : List Nat) (a b st ttl ty : Nat) (lm rm : Modify)
    (hco : r.currentOrigin.isNone = false)
    (htok : r.tok = after 0 false (genHeaderTextY rangeT lhs tyT rhs T)) (hT : startsDelim T)
    (k1 : TokOK rangeT) (k2 : TokOK lhs) (k5 : TokOK tyT) (k6 : TokOK rhs)
    (hrange : grangeFromText rangeT = .ok (a, b, st)) (hnt : ttlOf tyT = none) (hinh : r.inheritedTTL = some ttl)
    (hnc : classFromText tyT = none) (hty : typeFromText tyT = some ty)
    (hlm : parseModify lhs = some lm) (hrm : parseModify rhs = some rm) :
    generateParse r = .ok (⟨ttl, ty, generateExpansion a b st lhs rhs lm rm⟩, { r with tok := after 0 false T }) :=
  generateParse_line_y r rangeT lhs tyT rhs T a b st ttl ty lm rm hco htok hT k1 k2 k5 k6 hrange hnt hinh hnc hty hlm hrm

theorem generate_ttl_of_header_class (r : PState) (rangeT lhs clsT tyT rhs T : List Nat) (a b st ttl ty : Nat)
    (lm rm : Modify) (hco : r.currentOrigin.isNone = false)
    (htok : r.tok = after 0 false (genHeaderTextC rangeT lhs clsT tyT rhs T)) (hT : startsDelim T)
    (k1 : TokOK rangeT) (k2 : TokOK lhs) (k4 : TokOK clsT) (k5 : TokOK tyT) (k6 : TokOK rhs)
    (hrange : grangeFromText rangeT = .ok (a, b, st)) (hnt : ttlOf clsT = none) (hinh : r.inheritedTTL = some ttl)
    (hcls : classFromText clsT = some 1) (hty : typeFromText tyT = some ty)
    (hlm : parseModify lhs = some lm) (hrm : parseModify rhs = some rm) :
    generateParse r = .ok (⟨ttl, ty, generateExpansion a b st lhs rhs lm rm⟩, { r with tok := after 0 false T }) :=
  generateParse_line_c r rangeT lhs clsT tyT rhs T a b st ttl ty lm rm hco htok hT k1 k2 k4 k5 k6 hrange hnt hinh hcls hty
    hlm hrm

/-- **"$GENERATE versus its expansion", TTLs included, when no TTL is written**: the line `$GENERATE range lhs type rhs⏎`
and the file of its explicit record lines, none of which states a TTL (`InheritLines`: header without TTL, record TTL
`ttl`, not an SOA), take the reader from the same state to the same zone — each record with the TTL `ttl` the reader
inherits at that point (`ttl_defaulting_rule`: the default TTL if known, whatever was stated before; else the last
stated TTL) — and to the same parser state.  Current origin `co` and zone origin `zo` are independent as in
`generate_eq_expansion_text`. -/
theorem generate_eq_expansion_inherited_ttl (f : Nat) (r : PState) (z : ZoneMap) (co zo : Name)
    (rangeT lhs tyT rhs rest : List Nat) (a b st ttl ty : Nat) (lm rm : Modify)
    (e : List Nat × List Nat → Option Entry) (nOf : List Nat × List Nat → Name) (ls : List GLine)
    (hco : r.currentOrigin = some co) (hzo : r.zoneOrigin = some zo)
    (k1 : TokOK rangeT) (k2 : TokOK lhs) (k5 : TokOK tyT) (k6 : TokOK rhs)
    (hrange : grangeFromText rangeT = .ok (a, b, st)) (hnt : ttlOf tyT = none) (hnc : classFromText tyT = none)
    (hty : typeFromText tyT = some ty) (hlm : parseModify lhs = some lm) (hrm : parseModify rhs = some rm)
    (hinh : r.inheritedTTL = some ttl)
    (hitems : ∀ item ∈ generateExpansion a b st lhs rhs lm rm, ∀ ln,
      genItem ttl ty item { r with tok := after 0 false (10 :: rest), lastName := ln } =
        .ok (e item, { r with tok := after 0 false (10 :: rest), lastName := some (nOf item) }))
    (hls : ls.map GLine.entry = (generateExpansion a b st lhs rhs lm rm).filterMap e)
    (hok : LinesOK co zo r.relativize r.gfix r.lastName (some ttl) ls) (hu : InheritLines ttl ls)
    (hlast : lastN r.lastName ls = lastNameAfter nOf r.lastName (generateExpansion a b st lhs rhs lm rm)) :
    readLoop (f + 2)
        { r with tok := after 0 false (s2l "$GENERATE" ++ genHeaderTextY rangeT lhs tyT rhs (10 :: rest)) } z =
    readLoop (f + ls.length) { r with tok := after 0 false (glinesText ls ++ rest) } z :=
  generate_eq_lines_inherit f r z co zo (genHeaderTextY rangeT lhs tyT rhs (10 :: rest)) rest ttl ty _ e nOf ls hco hzo
    (sp_startsDelim _)
    (generateParse_line_y { r with tok := after 0 false (genHeaderTextY rangeT lhs tyT rhs (10 :: rest)) }
      rangeT lhs tyT rhs (10 :: rest) a b st ttl ty lm rm (by simp [hco]) rfl ⟨10, rest, rfl, by decide⟩ k1 k2 k5 k6
      hrange hnt hinh hnc hty hlm hrm)
    hinh hitems hls hok hu hlast

/-- the same with the class written: `$GENERATE range lhs IN type rhs⏎` -/
theorem generate_eq_expansion_inherited_ttl_class (f : Nat) (r : PState) (z : ZoneMap) (co zo : Name)
    (rangeT lhs clsT tyT rhs rest : List Nat) (a b st ttl ty : Nat) (lm rm : Modify)
    (e : List Nat × List Nat → Option Entry) (nOf : List Nat × List Nat → Name) (ls : List GLine)
    (hco : r.currentOrigin = some co) (hzo : r.zoneOrigin = some zo)
    (k1 : TokOK rangeT) (k2 : TokOK lhs) (k4 : TokOK clsT) (k5 : TokOK tyT) (k6 : TokOK rhs)
    (hrange : grangeFromText rangeT = .ok (a, b, st)) (hnt : ttlOf clsT = none) (hcls : classFromText clsT = some 1)
    (hty : typeFromText tyT = some ty) (hlm : parseModify lhs = some lm) (hrm : parseModify rhs = some rm)
    (hinh : r.inheritedTTL = some ttl)
    (hitems : ∀ item ∈ generateExpansion a b st lhs rhs lm rm, ∀ ln,
      genItem ttl ty item { r with tok := after 0 false (10 :: rest), lastName := ln } =
        .ok (e item, { r with tok := after 0 false (10 :: rest), lastName := some (nOf item) }))
    (hls : ls.map GLine.entry = (generateExpansion a b st lhs rhs lm rm).filterMap e)
    (hok : LinesOK co zo r.relativize r.gfix r.lastName (some ttl) ls) (hu : InheritLines ttl ls)
    (hlast : lastN r.lastName ls = lastNameAfter nOf r.lastName (generateExpansion a b st lhs rhs lm rm)) :
    readLoop (f + 2)
        { r with tok := after 0 false (s2l "$GENERATE" ++ genHeaderTextC rangeT lhs clsT tyT rhs (10 :: rest)) } z =
    readLoop (f + ls.length) { r with tok := after 0 false (glinesText ls ++ rest) } z :=
  generate_eq_lines_inherit f r z co zo (genHeaderTextC rangeT lhs clsT tyT rhs (10 :: rest)) rest ttl ty _ e nOf ls hco hzo
    (sp_startsDelim _)
    (generateParse_line_c { r with tok := after 0 false (genHeaderTextC rangeT lhs clsT tyT rhs (10 :: rest)) }
      rangeT lhs clsT tyT rhs (10 :: rest) a b st ttl ty lm rm (by simp [hco]) rfl ⟨10, rest, rfl, by decide⟩ k1 k2 k4 k5 k6
      hrange hnt hinh hcls hty hlm hrm)
    hinh hitems hls hok hu hlast

/-- non-vacuity, the situation of seeded change C09-e: default TTL 3600 known (`$TTL 3600`), an earlier record stated
86400; `$GENERATE 1-2 h$ A 10.0.0.$` against `h1 A 10.0.0.1`, `h2 A 10.0.0.2` — every record gets 3600, not 86400 -/
example (r0 : PState) (rest : List Nat) (hrel : r0.relativize = true) (hg : r0.gfix = true)
    (hco : r0.currentOrigin = some [[101, 120], []]) (hzo : r0.zoneOrigin = some [[101, 120], []])
    (hdk : r0.defaultTTLKnown = true) (hdv : r0.defaultTTL = 3600) (_hlk : r0.lastTTLKnown = true)
    (_hlv : r0.lastTTL = 86400) :
    let zo : Name := [[101, 120], []]
    let lhs := s2l "h$"
    let rhs := s2l "10.0.0.$"
    let mk : Nat → GLine := fun i =>
      { owner := some (s2l "h" ++ natToDec i), b0 := [32], hdr := .y (s2l "A"),
        rdText := 32 :: (s2l "10.0.0." ++ natToDec i ++ [10]), n := [s2l "h" ++ natToDec i] ++ zo,
        m := [s2l "h" ++ natToDec i], ttl := 3600, ty := 1, rd := .a [10, 0, 0, i], comment := none }
    let ls := [mk 1, mk 2]
    let e : List Nat × List Nat → Option Entry := fun it => some ⟨[it.1], 3600, 1, ⟨.a [10, 0, 0, digitsVal (it.1.drop 1) 0], none⟩⟩
    let nOf : List Nat × List Nat → Name := fun it => [it.1] ++ zo
    r0.inheritedTTL = some 3600 ∧ ttlOf (s2l "A") = none ∧ classFromText (s2l "A") = none ∧
    generateExpansion 1 2 1 lhs rhs {} {} = [(s2l "h1", s2l "10.0.0.1"), (s2l "h2", s2l "10.0.0.2")] ∧
    (∀ item ∈ generateExpansion 1 2 1 lhs rhs {} {}, ∀ ln,
      genItem 3600 1 item { r0 with tok := after 0 false (10 :: rest), lastName := ln } =
        .ok (e item, { r0 with tok := after 0 false (10 :: rest), lastName := some (nOf item) })) ∧
    ls.map GLine.entry = (generateExpansion 1 2 1 lhs rhs {} {}).filterMap e ∧
    LinesOK zo zo r0.relativize r0.gfix r0.lastName (some 3600) ls ∧ InheritLines 3600 ls ∧
    lastN r0.lastName ls = lastNameAfter nOf r0.lastName (generateExpansion 1 2 1 lhs rhs {} {}) := by
  intro zo lhs rhs mk ls e nOf
  have hexp : generateExpansion 1 2 1 lhs rhs {} {} = [(s2l "h1", s2l "10.0.0.1"), (s2l "h2", s2l "10.0.0.2")] := by rfl
  refine ⟨by rw [inheritedTTL_default r0 hdk, hdv], by decide, by decide, hexp, ?_, ?_, ?_, ?_, ?_⟩
  · rw [hexp]
    intro item hi ln
    simp only [List.mem_cons, List.mem_nil_iff, or_false] at hi
    rcases hi with rfl | rfl
    · exact genItem_record _ (s2l "h1") (s2l "10.0.0.1") zo zo ([s2l "h1"] ++ zo) [s2l "h1"] 3600 1 (.a [10, 0, 0, 1]) none _
        hco hzo rfl rfl (by simp [ownerInZone, hrel]; rfl) (by simp only [hrel, hg]; rfl)
    · exact genItem_record _ (s2l "h2") (s2l "10.0.0.2") zo zo ([s2l "h2"] ++ zo) [s2l "h2"] 3600 1 (.a [10, 0, 0, 2]) none _
        hco hzo rfl rfl (by simp [ownerInZone, hrel]; rfl) (by simp only [hrel, hg]; rfl)
  · rw [hexp]; rfl
  · have good : ∀ i, i = 1 ∨ i = 2 → (mk i).Good zo zo r0.relativize r0.gfix := by
      intro i hi
      rcases hi with rfl | rfl
      · refine ⟨⟨sp_blank, by simp⟩, ?_, rfl, by simp [ownerInZone, hrel]; rfl, ?_, ?_⟩
        · intro ow how
          simp only [mk, Option.some.injEq] at how
          subst how
          exact ⟨by decide, by decide, by decide, rfl⟩
        · exact ⟨⟨by decide, by decide⟩, by decide, by decide, by decide⟩
        · exact rdataReads_A_gen [32] (s2l "10.0.0.1") [10, 0, 0, 1] none _ _ _ _ sp_blank (by simp) (by simp) (by decide)
            (by decide) (by decide) rfl rfl
      · refine ⟨⟨sp_blank, by simp⟩, ?_, rfl, by simp [ownerInZone, hrel]; rfl, ?_, ?_⟩
        · intro ow how
          simp only [mk, Option.some.injEq] at how
          subst how
          exact ⟨by decide, by decide, by decide, rfl⟩
        · exact ⟨⟨by decide, by decide⟩, by decide, by decide, by decide⟩
        · exact rdataReads_A_gen [32] (s2l "10.0.0.2") [10, 0, 0, 2] none _ _ _ _ sp_blank (by simp) (by simp) (by decide)
            (by decide) (by decide) rfl rfl
    exact ⟨good 1 (Or.inl rfl), by intro h; simp [mk] at h, fun _ => rfl,
      good 2 (Or.inr rfl), by intro h; simp [mk] at h, fun _ => rfl, trivial⟩
  · intro l hl
    simp only [ls, List.mem_cons, List.mem_nil_iff, or_false] at hl
    rcases hl with rfl | rfl <;> exact ⟨rfl, rfl, by decide⟩
  · rw [hexp]; rfl

/-! ### `$GENERATE` modifiers in the bases `o`, `x`, `X`, `n`, `N` -/

/-- `_format_index`, bases `o` / `x` / `X`: a non-negative index is printed in radix 8 / 16 (lower-case digits for `x`,
upper-case for `X`), left-filled with `0` up to the width; read back in that radix (`radixVal`, i.e. `int(s, 8|16)`) the
text is the index, and it is at least `width` long -/
theorem generate_format_radix (base n w : Nat) (hbase : base = 111 ∨ base = 120 ∨ base = 88) :
    formatIndex (n : Int) base w =
      List.replicate (w - (formatInt (n : Int) base).length) 48 ++ formatInt (n : Int) base ∧
    radixVal (radixOf base) (formatIndex (n : Int) base w) 0 = n ∧ w ≤ (formatIndex (n : Int) base w).length :=
  formatIndex_radix base n w hbase

/-- `_format_index`, bases `n` / `N` (nibbles, for `ip6.arpa` owners): the hex text zero-filled to the width, reversed,
one dot between digits, cut to `width` characters; `N` upper-cases it -/
theorem generate_format_nibble (i : Int) (w : Nat) :
    formatIndex i 110 w = (joinWith [46] ((zfill (formatInt i 120) w).reverse.map fun c => [c])).take w ∧
    formatIndex i 78 w = (formatIndex i 110 w).map upperAscii :=
  formatIndex_nibble i w

/-- non-vacuity: `${0,4,x}` of 255 is `00ff`, `${0,3,X}` of 255 is `0FF`, `${0,4,o}` of 8 is `0010`, `${0,7,n}` of 0x1a2
is `2.a.1.0`, and a side `h${0,3,x}` substitutes to `h0ff` -/
example :
    formatIndex 255 120 4 = s2l "00ff" ∧ formatIndex 255 88 3 = s2l "0FF" ∧ formatIndex 8 111 4 = s2l "0010" ∧
    formatIndex 418 110 7 = s2l "2.a.1.0" ∧ formatIndex 418 78 7 = s2l "2.A.1.0" ∧
    radixVal 16 (s2l "00ff") 0 = 255 ∧ radixVal 8 (s2l "0010") 0 = 8 ∧
    (parseModify (s2l "h${0,3,x}")).map (fun m => substIndex (s2l "h${0,3,x}") m 255) = some (s2l "h0ff") := by
  refine ⟨by rfl, by rfl, by rfl, by rfl, by rfl, by rfl, by rfl, by rfl⟩

/-! ### the node-kind classification over (rdtype, covers) -/

/-- **the table, written out**: what `NodeKind.classify` says on the grid that matters — CNAME and an RRSIG covering CNAME
are "CNAME"; NSEC, NSEC3, KEY and an RRSIG covering one of them are "neutral"; everything else is "other data", in
particular the legacy SIG (type 24) whatever it covers, an RRSIG covering an ordinary type, DNSKEY, and NSEC/KEY used as
the *covered* type of anything that is not an RRSIG. (`decide`, over the tables regenerated from the working tree.) -/
theorem classify_table :
    classifyTC 5 0 = .cname ∧ classifyTC 46 5 = .cname ∧
    classifyTC 47 0 = .neutral ∧ classifyTC 50 0 = .neutral ∧ classifyTC 25 0 = .neutral ∧
    classifyTC 46 47 = .neutral ∧ classifyTC 46 50 = .neutral ∧ classifyTC 46 25 = .neutral ∧
    classifyTC 24 5 = .regular ∧ classifyTC 24 47 = .regular ∧ classifyTC 24 50 = .regular ∧ classifyTC 24 25 = .regular ∧
    classifyTC 24 1 = .regular ∧ classifyTC 24 0 = .regular ∧
    classifyTC 46 1 = .regular ∧ classifyTC 46 0 = .regular ∧ classifyTC 46 46 = .regular ∧ classifyTC 46 48 = .regular ∧
    classifyTC 48 0 = .regular ∧ classifyTC 1 0 = .regular ∧ classifyTC 6 0 = .regular ∧ classifyTC 65280 0 = .regular := by
  decide

/-- the covered type matters for RRSIG only: for every other type — SIG included — the classification is that of the
type alone (what seeded change C09-o loses: `covers in rdtypes` for any type) -/
theorem classify_covers_only_for_rrsig (ty covers : Nat) (h : ty ≠ ConstsC09.rrsigType) :
    classifyTC ty covers = classifyType ty := by
  unfold classifyTC classifyType matchesTypeOrItsSignature
  have : (ty == ConstsC09.rrsigType) = false := by simpa using h
  simp [this]

/-- an RRSIG is classified by what it covers -/
theorem classify_rrsig (covers : Nat) : classifyTC ConstsC09.rrsigType covers = classifyType covers := by
  unfold classifyTC classifyType matchesTypeOrItsSignature
  have h1 : ¬ (ConstsC09.rrsigType ∈ ConstsC09.cnameTypes) := by decide
  have h2 : ¬ (ConstsC09.rrsigType ∈ ConstsC09.neutralTypes) := by decide
  simp [h1, h2]

/-- which kinds may share a node (`_check_cname_and_other_data`): everything except CNAME with "other data" -/
theorem coexistence_table :
    kindsCoexist .cname .cname = true ∧ kindsCoexist .cname .neutral = true ∧ kindsCoexist .neutral .cname = true ∧
    kindsCoexist .neutral .regular = true ∧ kindsCoexist .regular .neutral = true ∧ kindsCoexist .regular .regular = true ∧
    kindsCoexist .neutral .neutral = true ∧ kindsCoexist .cname .regular = false ∧ kindsCoexist .regular .cname = false := by
  decide

/-! ### `$INCLUDE file [origin]` -/

/-- **`$INCLUDE file origin⏎` saves and restores the parent's state.**  `Reader.read` pushes `(tok, current_origin,
last_name, last_ttl(_known), default_ttl(_known))` — the parent's, taken *before* the include origin is installed — and
the end of the included file pops them.  For an included file of record lines: its records are added, relative names
completed with the include origin `o` (the token completed with the parent's current origin) and stored against the
zone origin, and the parent resumes after the line in exactly the state it had: nothing the included file did to the
current origin, the last owner or the TTLs leaks back.  (Seeded change C09-f saves the include's origin instead: the
continuation state would carry `currentOrigin = some o`.) -/
theorem include_restores_parent (f : Nat) (r : PState) (z : ZoneMap) (zo o : Name) (fname ot rest : List Nat)
    (ls : List GLine) (d : Option Nat)
    (hallow : r.allowInclude = true) (kf : TokOK fname) (ko : TokOK ot)
    (hname : fromText ot r.currentOrigin = .ok o) (hfile : lookupFile r.files fname = some (glinesText ls))
    (hzo : r.zoneOrigin = some zo)
    (htok : r.tok = after 0 false (s2l "$INCLUDE" ++ (32 :: (fname ++ (32 :: (ot ++ 10 :: rest))))))
    (hd : ∀ d', d = some d' → r.defaultTTLKnown = true ∧ r.defaultTTL = d')
    (hok : LinesOK o zo r.relativize r.gfix r.lastName d ls) :
    readLoop (f + 1 + ls.length + 1) r z =
      (addAll r.effOrigin z (ls.map GLine.entry)).bind fun z' => readLoop f { r with tok := after 0 false rest } z' :=
  include_origin_lines f r z zo o fname ot rest ls d hallow kf ko hname hfile hzo htok hd hok

/-- the one-argument form `$INCLUDE file⏎`: the included file is read under the parent's current origin -/
theorem include_plain_restores_parent (f : Nat) (r : PState) (z : ZoneMap) (co zo : Name) (fname rest : List Nat)
    (ls : List GLine) (d : Option Nat)
    (hallow : r.allowInclude = true) (kf : TokOK fname) (hfile : lookupFile r.files fname = some (glinesText ls))
    (hco : r.currentOrigin = some co) (hzo : r.zoneOrigin = some zo)
    (htok : r.tok = after 0 false (s2l "$INCLUDE" ++ (32 :: (fname ++ 10 :: rest))))
    (hd : ∀ d', d = some d' → r.defaultTTLKnown = true ∧ r.defaultTTL = d')
    (hok : LinesOK co zo r.relativize r.gfix r.lastName d ls) :
    readLoop (f + 1 + ls.length + 1) r z =
      (addAll r.effOrigin z (ls.map GLine.entry)).bind fun z' => readLoop f { r with tok := after 0 false rest } z' :=
  include_plain_lines f r z co zo fname rest ls d hallow kf hfile hco hzo htok hd hok

/-- **`$INCLUDE` versus the textually inlined spelling** `$ORIGIN origin⏎ <the file's lines> $ORIGIN <parent origin>⏎`:
both add the same records (same fold of `txn.add`) and continue with the same rest of the parent file, the same current
and zone origin; the continuation states differ only in what `$INCLUDE` restores and no directive can (last owner,
last/default TTL): `sI` is the parent's state, `sL` carries what the inlined lines left. -/
theorem include_vs_inline (f : Nat) (r : PState) (z : ZoneMap) (co zo o : Name) (fname ot pt rest : List Nat)
    (ls : List GLine) (d : Option Nat)
    (hallow : r.allowInclude = true) (kf : TokOK fname) (ko : TokOK ot) (kp : TokOK pt)
    (hco : r.currentOrigin = some co) (hzo : r.zoneOrigin = some zo)
    (hname : fromText ot (some co) = .ok o) (hoabs : isAbs o = true)
    (hpname : (identToken pt).asName (some o) false none = .ok co) (hcabs : isAbs co = true)
    (hfile : lookupFile r.files fname = some (glinesText ls))
    (hd : ∀ d', d = some d' → r.defaultTTLKnown = true ∧ r.defaultTTL = d')
    (hok : LinesOK o zo r.relativize r.gfix r.lastName d ls) :
    ∃ sI sL : PState,
      readLoop (f + 1 + ls.length + 1)
          { r with tok := after 0 false (s2l "$INCLUDE" ++ (32 :: (fname ++ (32 :: (ot ++ 10 :: rest))))) } z =
        ((addAll r.effOrigin z (ls.map GLine.entry)).bind fun z' => readLoop f sI z') ∧
      readLoop (f + 1 + ls.length + 1)
          { r with tok := after 0 false (originsText [(ot, o)] ++ (glinesText ls ++ (originsText [(pt, co)] ++ rest))) } z =
        ((addAll r.effOrigin z (ls.map GLine.entry)).bind fun z' => readLoop f sL z') ∧
      sI.tok = sL.tok ∧ sI.currentOrigin = sL.currentOrigin ∧ sI.zoneOrigin = sL.zoneOrigin ∧
      sI.relativize = sL.relativize ∧ sI.saved = sL.saved ∧
      sI.lastName = r.lastName ∧ sI.lastTTL = r.lastTTL ∧ sI.lastTTLKnown = r.lastTTLKnown ∧
      sI.defaultTTL = r.defaultTTL ∧ sI.defaultTTLKnown = r.defaultTTLKnown := by
  have hI := include_origin_lines f
    { r with tok := after 0 false (s2l "$INCLUDE" ++ (32 :: (fname ++ (32 :: (ot ++ 10 :: rest))))) } z zo o fname ot rest
    ls d hallow kf ko (by simpa [hco] using hname) hfile hzo rfl hd hok
  have hL := inline_origin_lines f
    { r with tok := after 0 false (originsText [(ot, o)] ++ (glinesText ls ++ (originsText [(pt, co)] ++ rest))) } z co zo o
    ot pt rest ls d hzo ko (by simpa [hco] using asName_of_fromText ot co o hname hoabs) hoabs kp hpname hcabs rfl hd hok
  have hF := finalStateR_fields ls (originsText [(pt, co)] ++ rest)
    { ({ r with tok := after 0 false (originsText [(ot, o)] ++ (glinesText ls ++ (originsText [(pt, co)] ++ rest))) } : PState)
      with tok := after 0 false (glinesText ls ++ (originsText [(pt, co)] ++ rest)), currentOrigin := some o } rfl
  exact ⟨_, _, hI, hL, rfl, hco, hF.2.1.symm, hF.2.2.1.symm, hF.2.2.2.2.1.symm, rfl, rfl, rfl, rfl, rfl⟩

/-- `allow_include=False`: `$INCLUDE` is not among the allowed directives -/
theorem include_refused (r : PState) (T : List Nat) (hT : startsDelim T) (hallow : r.allowInclude = false)
    (htok : r.tok = after 0 false (s2l "$INCLUDE" ++ T)) : lineStep r = .error .syntaxError :=
  lineStep_include_refused r T hT hallow htok

/-- non-vacuity, the situation of seeded change C09-f, end to end on the model: zone `ex.`, relativized,
`$INCLUDE f branch` where `f` holds `a 300 IN A 10.0.0.1`, then `www 300 IN A 10.0.0.2` in the parent: `a` lands under
`branch`, `www` under the zone origin again -/
example :
    zoneFromText (s2l "$INCLUDE f branch\nwww 300 IN A 10.0.0.2\n") (some [[101, 120], []]) true false false
        [(s2l "f", s2l "a 300 IN A 10.0.0.1\n")] true =
      .ok ([([s2l "a", s2l "branch"], [⟨1, 300, [⟨.a [10, 0, 0, 1], none⟩]⟩]),
            ([s2l "www"], [⟨1, 300, [⟨.a [10, 0, 0, 2], none⟩]⟩])], some [[101, 120], []]) ∧
    zoneFromText (s2l "$INCLUDE f branch\nwww 300 IN A 10.0.0.2\n") (some [[101, 120], []]) true false false
        [(s2l "f", s2l "a 300 IN A 10.0.0.1\n")] false = .error .syntaxError := by
  constructor <;> rfl

/-! ### D08 — `want_generic` (recorded finding; DESIGN §6)

The property text lists "generic RFC 3597 syntax" among the lossless styles, and the working tree violates it
(`KNOWN_FINDINGS.json`).  The model carries the decision point as a parameter (`Style.genFix`, `PState.gfix`): value 0 /
false is the code as shipped, the other values are the proposed repair; at run time the harness replays the
witnesses below on the implementation and asks the model for the variant the code implements.

Full statement (not provable for the code as shipped, and for the repaired variant it needs the wire codec theorems of
C02 for the generic form of every type):
`∀ z st, Lossless st → st.wantGeneric → zoneFromText (zoneToText st z) = z`.
What is established here: `read_write` for `wantGeneric = false`; the witnesses below; correspondence and the
write/read oracle on zones whose RDATA holds no name at or below the origin (where the shipped code does round-trip). -/

/-- witness, as shipped: a relativized zone `@ 300 IN NS ns` cannot be written with `want_generic` -/
example : zoneToText { wantGeneric := true } (some [[101, 120], []])
    [([], [⟨2, 300, [⟨.name1 [[110, 115]], none⟩]⟩])] true = .error .needAbsolute := by rfl

/-- the same zone under the repaired variant is written in RFC 3597 form with the origin appended in the wire name -/
example : zoneToText { wantGeneric := true, genFix := 2 } (some [[101, 120], []])
    [([], [⟨2, 300, [⟨.name1 [[110, 115]], none⟩]⟩])] true =
      .ok (s2l "@ 300 CLASS1 TYPE2 \\# 7 026e7302657800\n") := by rfl

end C09

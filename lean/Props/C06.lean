import Proofs.NameOrder5
import Proofs.NameDict
import Proofs.NameText
/-!
# C06 — Name comparison is the DNSSEC canonical order, coherent with equality and hash

Theorems of record.  `Model.fullcompare`, `cmpOrder` (= `fullcompare[1]`, which `__eq__ … __gt__`
test against 0), `nameHash`, `isSubdomain`, `isSuperdomain`, `parent`, `split`, `relativize`,
`derelativize`, `successor`, `predecessor` follow `dns/name.py` branch by branch and are tied to it
by the correspondence check.  The specification `NameOrder.canonLt` is RFC 4034 §6.1 written
independently of the code: core Lean's lexicographic order on the reversed list of lower-cased labels
(a proper prefix is smaller, at both levels), relative names before absolute ones.
Every statement is for all label lists over all `Nat` octets: no well-formedness is needed for the
order laws.
-/
namespace C06
open Model Model.NameOrder Model.NameDictProofs

/-- "Comparing two names yields exactly the RFC 4034 §6.1 canonical order (labels right to left,
ASCII case-insensitive octet order, relative names before absolute)": the three outcomes of the order
component of `fullcompare` are exactly `a` before `b`, `b` before `a`, and equal up to ASCII case. -/
theorem order_is_rfc4034 (a b : Name) :
    (cmpOrder a b < 0 ↔ canonLt a b) ∧ (cmpOrder a b > 0 ↔ canonLt b a) ∧
      (cmpOrder a b = 0 ↔ lowerName a = lowerName b) :=
  ⟨cmpOrder_lt_iff a b, cmpOrder_gt_iff a b, cmpOrder_eq_iff a b⟩

/-- "it is total": any two names are ordered one way, the other way, or equal. -/
theorem total (a b : Name) : cmpOrder a b < 0 ∨ cmpOrder a b = 0 ∨ cmpOrder b a < 0 := by
  have h : cmpOrder a b < 0 ∨ cmpOrder a b = 0 ∨ cmpOrder a b > 0 := by omega
  rcases h with h | h | h
  · exact Or.inl h
  · exact Or.inr (Or.inl h)
  · exact Or.inr (Or.inr ((cmpOrder_lt_iff b a).2 ((cmpOrder_gt_iff a b).1 h)))

/-- "antisymmetric": the two directions of a comparison always agree (`a < b` iff `b > a`, `a == b`
iff `b == a`), `a < b` excludes `b < a`, and `a ≤ b ≤ a` forces equality. -/
theorem antisymm (a b : Name) :
    (cmpOrder a b < 0 ↔ cmpOrder b a > 0) ∧ (cmpOrder a b = 0 ↔ cmpOrder b a = 0) ∧
      (cmpOrder a b < 0 → ¬ cmpOrder b a < 0) ∧
      (cmpOrder a b ≤ 0 → cmpOrder b a ≤ 0 → cmpOrder a b = 0) := by
  have h1 : cmpOrder a b < 0 ↔ cmpOrder b a > 0 := by rw [cmpOrder_lt_iff, cmpOrder_gt_iff]
  have h2 : cmpOrder a b = 0 ↔ cmpOrder b a = 0 := by
    rw [cmpOrder_eq_iff, cmpOrder_eq_iff]; exact ⟨Eq.symm, Eq.symm⟩
  refine ⟨h1, h2, ?_, ?_⟩
  · intro h h'; have := h1.1 h; omega
  · intro h h'
    have h3 : cmpOrder a b < 0 ∨ cmpOrder a b = 0 := by omega
    rcases h3 with h3 | h3
    · have := h1.1 h3; omega
    · exact h3

/-- "transitive" (strict form), for all triples. -/
theorem trans (a b c : Name) (h1 : cmpOrder a b < 0) (h2 : cmpOrder b c < 0) : cmpOrder a c < 0 :=
  (cmpOrder_lt_iff a c).2 (canonLt_trans ((cmpOrder_lt_iff a b).1 h1) ((cmpOrder_lt_iff b c).1 h2))

/-- "transitive" (non-strict form, which also says that names equal up to case are interchangeable
in comparisons), for all triples. -/
theorem le_trans (a b c : Name) (h1 : cmpOrder a b ≤ 0) (h2 : cmpOrder b c ≤ 0) : cmpOrder a c ≤ 0 := by
  have h1' : cmpOrder a b < 0 ∨ cmpOrder a b = 0 := by omega
  have h2' : cmpOrder b c < 0 ∨ cmpOrder b c = 0 := by omega
  rcases h1' with h1' | h1' <;> rcases h2' with h2' | h2'
  · have := trans a b c h1' h2'; omega
  · have hb := (cmpOrder_eq_iff b c).1 h2'
    have := (cmpOrder_lt_iff a c).2 ((canonLt_congr a a b c rfl hb).1 ((cmpOrder_lt_iff a b).1 h1'))
    omega
  · have ha := (cmpOrder_eq_iff a b).1 h1'
    have := (cmpOrder_lt_iff a c).2 ((canonLt_congr a b c c ha rfl).2 ((cmpOrder_lt_iff b c).1 h2'))
    omega
  · have := (cmpOrder_eq_iff a c).2 (((cmpOrder_eq_iff a b).1 h1').trans ((cmpOrder_eq_iff b c).1 h2'))
    omega

/-- "names are equal iff they differ at most in ASCII case" (`Name.__eq__` is `fullcompare[1] == 0`). -/
theorem eq_iff_lower_eq (a b : Name) : nameEq a b = true ↔ lowerName a = lowerName b :=
  nameEq_iff a b

/-- "equal names hash equally" (`Name.__hash__`). -/
theorem hash_congr (a b : Name) (h : nameEq a b = true) : nameHash a = nameHash b := by
  rw [nameHash_lower, nameHash_lower, (nameEq_iff a b).1 h]

/-- "The reported relation and common-label count agree with the subdomain/superdomain predicates":
the relation and `nlabels` of `fullcompare` are the independently specified ones (number of common
most-significant labels up to case, relation derived from it and the two lengths), `is_subdomain` holds
exactly when the other name's labels are (up to case) a suffix and relativity agrees, and
`is_superdomain` is its converse. -/
theorem reln_agrees (a b : Name) :
    (fullcompare a b).1 = relationSpec a b ∧ (fullcompare a b).2.2 = commonLabels a b ∧
      (isSubdomain a b = true ↔ isAbs a = isAbs b ∧ lowerName b <:+ lowerName a) ∧
      isSuperdomain a b = isSubdomain b a :=
  ⟨(fullcompare_reln a b).1, (fullcompare_reln a b).2, isSubdomain_iff a b, isSuperdomain_iff a b⟩

/-- "… and with parent": a name is a proper subdomain of its parent, sorts after it, and shares all of the
parent's labels with it. -/
theorem parent_reln (a p : Name) (h : parent a = .ok p) :
    p = a.drop 1 ∧ p.length + 1 = a.length ∧ fullcompare a p = (2, 1, p.length) :=
  parent_spec a p h

/-- "… and with split": the two parts concatenate to the name, the suffix has `depth` labels, and for
`depth > 0` the name is a subdomain of (or equal to) the suffix with exactly `depth` common labels. -/
theorem split_reln (a x y : Name) (d : Nat) (h : split a d = .ok (x, y)) :
    x ++ y = a ∧ y.length = d ∧
      (0 < d → fullcompare a y = (if a.length = d then 3 else 2, (a.length : Int) - d, d)) :=
  ⟨(split_spec a x y d h).1, (split_spec a x y d h).2.1, NameOrder.split_reln a x y d h⟩

/-
Full statement ("relativizing a name to an origin and derelativizing again restores it … for all names
(any relativity) and all origins"), read as: whenever the name is absolute or is a subdomain of the origin
(a relative name that is not below the origin is returned unchanged by `relativize` and then extended by
`derelativize` by design):

  theorem relativize_derelativize (a o : Name) (ha : WfName a)
      (h : isAbs a = true ∨ isSubdomain a o = true) :
      ∃ r a', relativize a o = .ok r ∧ derelativize r o = .ok a' ∧ nameEq a' a = true ∧ (o <:+ a → a' = a)

It was FALSE for the pinned code at the empty origin (`self[: -len(origin)]` is `self[:0]` for
`len(origin) = 0`); that defect is repaired in /repo (`fix:` commit), the model follows the repaired code and
the full statement is proved below (`relativize_derelativize`), via the guarded lemma kept next to it.
-/

/-- "relativizing a name to an origin and derelativizing again restores it": for every absolute name and
every origin, and for every relative name below a non-empty origin, both steps succeed and return a name
equal to the original (same labels up to ASCII case — the origin's spelling replaces the name's own
suffix), byte-identical when the origin is byte-for-byte a suffix of the name (and trivially when the name
is not below the origin). -/
theorem relativize_derelativize_partial (a o : Name) (ha : WfName a)
    (h : isAbs a = true ∨ (isSubdomain a o = true ∧ o ≠ [])) :
    ∃ r a', relativize a o = .ok r ∧ derelativize r o = .ok a' ∧ nameEq a' a = true ∧
      (o <:+ a → a' = a) := by
  obtain ⟨r, a', h1, h2, h3, h4⟩ := rel_derel a o ha h
  exact ⟨r, a', h1, h2, (nameEq_iff a' a).2 h3, h4⟩

/-- The full statement, including the empty origin (true since the `fix:` commit that slices by
`len(self) - len(origin)`; before it `self[: -0]` was `self[:0]` and a relative name relativized to the
empty origin lost all its labels — the former counter-example `relativize [[97]] [] = .ok []`). -/
theorem relativize_derelativize (a o : Name) (ha : WfName a)
    (h : isAbs a = true ∨ isSubdomain a o = true) :
    ∃ r a', relativize a o = .ok r ∧ derelativize r o = .ok a' ∧ nameEq a' a = true ∧
      (o <:+ a → a' = a) := by
  by_cases ho : o = []
  · rcases h with habs | hsub
    · exact relativize_derelativize_partial a o ha (Or.inl habs)
    · subst ho
      have hrel : isAbs a = false := by
        cases hab : isAbs a with
        | false => rfl
        | true =>
          exfalso
          have hE : isAbs ([] : Name) = false := by decide
          have : isSubdomain a [] = false := by
            unfold isSubdomain fullcompare
            simp [hab, hE]
          rw [this] at hsub; simp at hsub
      have hv := validate_of_wf a ha
      refine ⟨a, a, ?_, ?_, ?_, fun _ => rfl⟩
      · simp [relativize, hsub, sliceToNeg, hv]
      · simp [derelativize, hrel, concatenate, hv]
      · exact (nameEq_iff a a).2 rfl
  · rcases h with habs | hsub
    · exact relativize_derelativize_partial a o ha (Or.inl habs)
    · exact relativize_derelativize_partial a o ha (Or.inr ⟨hsub, ho⟩)

/-- the other composition: derelativizing a relative name against an absolute origin and relativizing
again is the identity, byte for byte. -/
theorem derelativize_relativize (n o r : Name) (hn : WfName n) (hrel : isAbs n = false)
    (ho : isAbs o = true) (h : derelativize n o = .ok r) : relativize r o = .ok n :=
  (derel_rel n o r hn hrel ho h).2

/-- "A name's RFC 4471 successor within a zone sorts strictly after it (or wraps to the origin)": for
both values of `prefix_ok`, any origin, all octets, absolute names and (through
`_handle_relativity_and_call`: derelativize, compute, relativize) relative names, whenever `successor`
returns, the result is the wrap-around value (the origin; the empty name for a relative name, which is the
origin relativized) or sorts strictly after the name.  Holds because `@` is bumped to `[` and `Z` to `{`
(the repaired D06). -/
theorem successor_gt (n o r : Name) (p : Bool) (h : successor n o p = .ok r) :
    r = (if isAbs n then o else []) ∨ cmpOrder n r < 0 := by
  cases hn : isAbs n with
  | true =>
    obtain ⟨ho, hsub, hf⟩ := handleRelativity_abs absoluteSuccessor n o r p hn h
    rcases absoluteSuccessor_gt n o r p hn ho hsub hf with e | e
    · exact Or.inl (by simpa using e)
    · exact Or.inr ((cmpOrder_lt_iff n r).2 e.1)
  | false =>
    rcases successor_rel n o r p hn h with e | e
    · exact Or.inl (by simpa using e)
    · exact Or.inr ((cmpOrder_lt_iff n r).2 e)

/-- "… and its predecessor strictly before it": unless the name is the origin itself (the empty name for a
relative name), where the predecessor wraps around to the longest name of the zone, the result sorts
strictly before the name; both values of `prefix_ok`, absolute and relative names. -/
theorem predecessor_lt (n o r : Name) (p : Bool) (h : predecessor n o p = .ok r) :
    nameEq n (if isAbs n then o else []) = true ∨ cmpOrder r n < 0 := by
  cases hn : isAbs n with
  | true =>
    obtain ⟨_, hsub, hf⟩ := handleRelativity_abs absolutePredecessor n o r p hn h
    rcases absolutePredecessor_lt n o r p hn ((isSubdomain_iff n o).1 hsub).2 hf with e | e
    · exact Or.inl (by simpa using e)
    · exact Or.inr ((cmpOrder_lt_iff r n).2 e.1)
  | false =>
    rcases predecessor_rel n o r p hn h with e | e
    · left; subst e; simp; decide
    · exact Or.inr ((cmpOrder_lt_iff r n).2 e)

/-- successor and predecessor never leave the zone or the limits: a result other than the wrap-around is a
legal name at or below the origin (absolute names). -/
theorem successor_predecessor_in_zone (n o r : Name) (p : Bool) (hn : isAbs n = true) :
    (successor n o p = .ok r → r = o ∨ (WfName r ∧ isSubdomain r o = true)) ∧
    (predecessor n o p = .ok r → nameEq n o = true ∨ (WfName r ∧ lowerName o <:+ lowerName r)) := by
  constructor
  · intro h
    obtain ⟨ho, hsub, hf⟩ := handleRelativity_abs absoluteSuccessor n o r p hn h
    rcases absoluteSuccessor_gt n o r p hn ho hsub hf with e | ⟨_, hw, hs⟩
    · exact Or.inl e
    · right
      refine ⟨hw, (isSubdomain_iff r o).2 ⟨?_, hs⟩⟩
      have hlone : lowerName o ≠ [] := by
        have := ne_nil_of_isAbs ho; simpa [lowerName] using this
      rw [← isAbs_lowerName r, ← isAbs_lowerName o]
      exact isAbs_of_suffix _ _ hlone hs
  · intro h
    obtain ⟨_, hsub, hf⟩ := handleRelativity_abs absolutePredecessor n o r p hn h
    rcases absolutePredecessor_lt n o r p hn ((isSubdomain_iff n o).1 hsub).2 hf with e | ⟨_, hb⟩
    · exact Or.inl e
    · exact Or.inr hb

/-! ## `dns.namedict.NameDict` (anchored file; a user of name equality, hash and suffixes) -/

/-- `NameDict` keeps `max_depth` an upper bound of the label counts of its keys over every history of
assignments and deletions (including re-assignment of an existing key up to case, deletion of absent keys,
and the recomputation when the last key of maximal depth goes away). -/
theorem namedict_depth_invariant (ops : List NdOp) : DepthOk (ndRun NDict.empty ops) :=
  depthOk_run ops NDict.empty (by intro p hp; cases hp)

/-- `get_deepest_match(name)`: under that invariant the returned key is a stored key (up to ASCII case) with
its value, it is the empty name or a suffix of `name`, and no suffix of `name` with more labels is a key —
"the longest name in the dictionary which is a superdomain of name"; `KeyError` (`none`) is raised exactly when
neither a suffix of `name` nor the empty name is a key. -/
theorem namedict_deepest_match (d : NDict) (h : DepthOk d) (name : Name) :
    (∀ k v, ndDeepest d name = some (k, v) →
      ndFind d.store k = some v ∧
      (k = [] ∨ ∃ i, 1 ≤ i ∧ i ≤ name.length ∧ k = name.drop (name.length - i)) ∧
      ∀ i, 1 ≤ i → i ≤ name.length → ndHas d.store (name.drop (name.length - i)) = true → i ≤ k.length) ∧
    (ndDeepest d name = none →
      ndHas d.store [] = false ∧
      ∀ i, 1 ≤ i → i ≤ name.length → ndHas d.store (name.drop (name.length - i)) = false) :=
  ⟨fun k v hr => deepest_some d h name k v hr, deepest_none d h name⟩

/-- `choose_relativity(origin, relativize)` is `relativize` / `derelativize` for a non-empty origin and the
identity for `None` and for the zero-label origin (`if origin:`); so relativizing and then derelativizing
through it restores every absolute name (up to the case of the origin's labels). -/
theorem choose_relativity_spec (a o : Name) (rel : Bool) :
    chooseRelativity06 a none rel = .ok a ∧ chooseRelativity06 a (some []) rel = .ok a ∧
    (o ≠ [] → chooseRelativity06 a (some o) true = relativize a o ∧
      chooseRelativity06 a (some o) false = derelativize a o) ∧
    (WfName a → isAbs a = true → o ≠ [] →
      ∃ r a', chooseRelativity06 a (some o) true = .ok r ∧ chooseRelativity06 r (some o) false = .ok a' ∧
        nameEq a' a = true) := by
  refine ⟨rfl, rfl, ?_, ?_⟩
  · intro ho
    have : o.length ≠ 0 := fun e => ho (List.length_eq_zero_iff.1 e)
    simp [chooseRelativity06, this]
  · intro hw ha ho
    have hl : o.length ≠ 0 := fun e => ho (List.length_eq_zero_iff.1 e)
    obtain ⟨r, a', h1, h2, h3, _⟩ := relativize_derelativize a o hw (Or.inl ha)
    exact ⟨r, a', by simp [chooseRelativity06, hl, h1], by simp [chooseRelativity06, hl, h2], h3⟩

/-! ## non-vacuity and the witnesses named in the property text -/
-- a NameDict history with a case-variant re-assignment and a deletion of the deepest key; lookups afterwards
example : ndDeepest (ndRun NDict.empty [.set [[101], []] 1, .set [[119], [101], []] 2, .set [[87], [69], []] 3,
      .del [[119], [101], []], .set [] 9]) [[120], [119], [101], []] = some ([[101], []], 1) ∧
    ndDeepest (ndRun NDict.empty [.set [[101], []] 1, .set [] 9]) [[122], []] = some ([], 9) ∧
    ndDeepest (ndRun NDict.empty [.set [[101], []] 1]) [[122], []] = none := by decide

-- 'Z' (0x5A) compares as 'z' and therefore sorts after '[' (0x5B); '@' sorts before '`'
example : canonLt [[91], []] [[90], []] ∧ canonLt [[64], []] [[96], []] := by decide
-- a shorter label is smaller; a relative name precedes an absolute one
example : canonLt [[97], []] [[97, 0], []] ∧ canonLt [[255, 255]] [[]] := by decide
-- equal up to case, equal hash
example : nameEq [[87, 119], [0x5A], []] [[119, 87], [0x7A], []] = true ∧
    nameHash [[87, 119], [0x5A], []] = nameHash [[119, 87], [0x7A], []] := by decide
-- relation / nlabels on the examples of the docstring of `fullcompare`
example : fullcompare [[119], [101], []] [[101], []] = (2, 1, 2) ∧
    fullcompare [[101, 49], [99], []] [[101, 50], [99], []] = (4, -1, 2) := by decide
-- the D06 witness (63 × 'Z', prefix_ok = False) now has a successor that sorts after it
example : ∃ r, successor [List.replicate 63 90, [101], []] [[101], []] false = .ok r ∧
    cmpOrder [List.replicate 63 90, [101], []] r < 0 := by
  refine ⟨[List.replicate 62 90 ++ [123], [101], []], by rfl, by decide⟩
-- a relative name: successor computed under the origin and relativized again
example : successor [[97, 64]] [[101], []] false = .ok [[97, 64, 0]] ∧
    predecessor [[97, 91]] [[101], []] false = .ok [[97, 64] ++ List.replicate 61 255] := by
  refine ⟨by rfl, by rfl⟩
-- hypotheses of the round trips are satisfiable
example : WfName [[87], [69, 120], []] ∧ isAbs [[87], [69, 120], []] = true ∧
    relativize [[87], [69, 120], []] [[101, 88], []] = .ok [[87]] ∧
    derelativize [[87]] [[101, 88], []] = .ok [[87], [101, 88], []] := by
  refine ⟨⟨by decide, by decide, by decide⟩, by decide, by rfl, by rfl⟩

end C06

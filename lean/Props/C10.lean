import Proofs.ZoneTxnFrame
import Proofs.ZoneTxnValue
import Proofs.ZoneTxnShipped
import Proofs.ZoneTxnFlatten
import Proofs.ZoneTxnBTree
import Proofs.ZoneTxnCow
/-!
# C10 — Zone transactions match a reference model and are all-or-nothing

Theorems of record.  `Model.ZT` (files `Model/ZoneTxn.lean`, `Model/ZoneNode.lean`, `Model/Serial.lean`) follows
`dns/transaction.py`, `dns/zone.py` (`_validate_name`, `Version`, `WritableVersion`, `zone.Transaction`),
`dns/node.py`, `dns/rdataset.py`/`dns/set.py`, `dns/serial.py`; the reference model is the flat finite map
`SZone = List ((owner, type, covers) × rdataset)` with `put / delRds / delName` and the operations `sStep`.
The constants (`ConstsC10.*`) are regenerated from the working tree on every run.

Decision points.  `Cfg.d09` / `Cfg.d10` are LEGACY variants of the model (the code before the repairs 48a5b1a and
32c445c); the code as it now is has both `false`, the harness always drives the model that way, and the legacy
variants survive only in the clearly named `legacy_*` theorems (counter-examples at the old witnesses, and
agreement on natively spelled owners).  `Cfg.gn` is the one decision point still open in the code:
`Transaction.get_node` lacks `_check_ended()`.  `GoodCfg` is all three `false`.
`txn_refines_spec` is the full statement (`GoodCfg`); `current_code_refines_spec` is the statement for the code
as it now is (any `gn`), whose only guard is that `get_node` is not called on an ended transaction;
`get_node_after_end_counterexample` is the counter-example for `gn = true`.
-/
namespace C10
open Model Model.ZT

/-- decidable equality of results (core has none for `Except`) — used only by the concrete `decide` examples -/
instance instDecEqExcept {ε α : Type} [DecidableEq ε] [DecidableEq α] : DecidableEq (Except ε α)
  | .ok a, .ok b => if h : a = b then isTrue (by rw [h]) else isFalse (by intro e; cases e; exact h rfl)
  | .error a, .error b => if h : a = b then isTrue (by rw [h]) else isFalse (by intro e; cases e; exact h rfl)
  | .ok _, .error _ => isFalse (by intro e; cases e)
  | .error _, .ok _ => isFalse (by intro e; cases e)

/-- The type sets and widths the reference model is about are the RFC ones (RFC 1034 §3.6.2 / RFC 4035 §2.5 CNAME
exclusivity with KEY, NSEC, NSEC3 neutral; singleton types; 32-bit serials; 0 ↦ 1), whatever the code says now. -/
theorem consts_rfc :
    ConstsC10.cnameTypes = [5] ∧ ConstsC10.neutralTypes = [25, 47, 50] ∧
      ConstsC10.singletons = [5, 6, 30, 39, 47] ∧ ConstsC10.rrsig = 46 ∧ ConstsC10.sig = 24 ∧ ConstsC10.soa = 6 ∧
      ConstsC10.serialBits = 32 ∧ ConstsC10.zeroSerialBecomes = 1 ∧ ConstsC10.maxTTL = 4294967295 := by decide

/-- error family of a result, for decidable statements -/
def errOf : Res → Option Err
  | .error e => some e
  | .ok _ => none

/-! ## the value rules of the reference model -/

/-- "TTL minimisation on merge": the merged rdataset has the lesser TTL (the new one if nothing was there). -/
theorem merge_ttl_min (a b : Rdataset) : (a.union b).ttl = if a.items = [] then b.ttl else min a.ttl b.ttl :=
  union_ttl a b

/-- merge is set union for ordinary types (and never duplicates a record) -/
theorem merge_is_union (a b : Rdataset) (h : ∀ rd ∈ b.items, isSingleton rd.rdtype = false) (ha : a.items.Nodup) :
    (∀ x, x ∈ (a.union b).items ↔ x ∈ a.items ∨ x ∈ b.items) ∧ (a.union b).items.Nodup :=
  ⟨fun x => union_mem a b x h, union_nodup a b ha⟩

/-- "singleton rule": for SOA, CNAME, DNAME, NSEC, NXT the record given last replaces whatever was there -/
theorem merge_singleton (a b : Rdataset) (l : List Rdata) (rd : Rdata) (hb : b.items = l ++ [rd])
    (h : isSingleton rd.rdtype = true) : (a.union b).items = [rd] :=
  union_singleton a b l rd hb h

/-- deleting records is set difference (TTL kept); `delete_exact` insists that every record given is present -/
theorem delete_is_difference (e r : Rdataset) :
    (∀ x, x ∈ (e.difference r).items ↔ x ∈ e.items ∧ x ∉ r.items) ∧ (e.difference r).ttl = e.ttl ∧
      (e.rdclass = r.rdclass → e.rdtype = r.rdtype → e.covers = r.covers →
        ((e.intersection r).eq r = true ↔ ∀ x ∈ r.items, x ∈ e.items)) :=
  ⟨fun x => difference_mem e r x, rfl, exact_iff e r⟩

/-- "CNAME exclusivity, empty nodes removed": the flat map after `put` — the stored rdataset under its key,
nothing of an excluded kind at that owner, everything else as before; and after the two deletions. -/
theorem reference_map_rules (z : SZone) (k : Name) (r : Rdataset) (k' : Name) (t c : Nat) :
    (z.put k r).get (k', t, c) =
        (if k' = k ∧ t = r.rdtype ∧ c = r.covers then some r
         else if k' = k ∧ SZone.excluded r.kind (classify t c) = true then none
         else z.get (k', t, c)) ∧
      (z.delRds k r.rdtype r.covers).get (k', t, c) =
        (if k' = k ∧ t = r.rdtype ∧ c = r.covers then none else z.get (k', t, c)) ∧
      (z.delName k).get (k', t, c) = (if k' = k then none else z.get (k', t, c)) ∧
      ((z.delName k).has k = false) := by
  refine ⟨?_, ?_, ?_, ?_⟩
  · unfold SZone.put
    by_cases h1 : k' = k ∧ t = r.rdtype ∧ c = r.covers
    · obtain ⟨e1, e2, e3⟩ := h1; subst e1; subst e2; subst e3
      simp [SZone.get]
    · have hne : ¬ ((k, r.rdtype, r.covers) : Key) = (k', t, c) := by
        intro e; simp at e; exact h1 ⟨e.1.symm, e.2.1.symm, e.2.2.symm⟩
      rw [if_neg h1]
      simp only [SZone.get, hne, if_false]
      rw [sget_filter z (fun key => !(decide (key.1 = k) &&
          (decide (key.2 = (r.rdtype, r.covers)) || SZone.excluded r.kind (classify key.2.1 key.2.2)))) (k', t, c)]
      by_cases hk : k' = k
      · subst hk
        have : decide ((t, c) = (r.rdtype, r.covers)) = false := by
          simp; intro e1 e2; exact h1 ⟨rfl, e1, e2⟩
        simp only [decide_true, Bool.true_and, this, Bool.false_or, true_and]
        cases SZone.excluded r.kind (classify t c) <;> simp
      · simp [hk]
  · unfold SZone.delRds
    rw [sget_filter z (fun key => decide (key ≠ (k, r.rdtype, r.covers))) (k', t, c)]
    by_cases h1 : k' = k ∧ t = r.rdtype ∧ c = r.covers
    · obtain ⟨e1, e2, e3⟩ := h1; subst e1; subst e2; subst e3; simp
    · have : ((k', t, c) : Key) ≠ (k, r.rdtype, r.covers) := by
        intro e; simp at e; exact h1 e
      simp [this, h1]
  · unfold SZone.delName
    rw [sget_filter z (fun key => decide (key.1 ≠ k)) (k', t, c)]
    by_cases hk : k' = k <;> simp [hk]
  · apply Bool.eq_false_iff.mpr
    intro h
    unfold SZone.delName at h
    rw [shas_filter z (fun key => decide (key.1 ≠ k)) k] at h
    obtain ⟨e, _, hn, hf⟩ := h
    simp [hn] at hf

/-! ## RFC 1982 -/

/-- "RFC 1982 serial increments": `Serial` reduces modulo 2^32; `+` accepts exactly the increments of magnitude
≤ 2^31 − 1 and wraps; a positive increment makes the serial greater in sequence-space order; `<` is irreflexive
and asymmetric, `>` is its converse, and two distinct serials are ordered unless exactly 2^31 apart. -/
theorem serial_rfc1982 :
    (∀ v : Int, Serial.make v < 4294967296) ∧
    (∀ (v : Nat) (d : Int), d.natAbs ≤ 2147483647 → Serial.add v d = some ((((v : Int) + d) % 4294967296).toNat)) ∧
    (∀ (v : Nat) (d : Int), d.natAbs > 2147483647 → Serial.add v d = none) ∧
    (∀ (v : Nat) (d : Int), v < 4294967296 → 0 < d → d ≤ 2147483647 →
        ∃ w, Serial.add v d = some w ∧ Serial.lt v w = true ∧ Serial.gt w v = true ∧ w < 4294967296) ∧
    (∀ a, Serial.lt a a = false) ∧
    (∀ a b, Serial.lt a b = true → Serial.lt b a = false) ∧
    (∀ a b, Serial.gt a b = Serial.lt b a) ∧
    (∀ a b : Nat, a ≠ b → a - b ≠ 2147483648 ∧ b - a ≠ 2147483648 → Serial.lt a b = true ∨ Serial.lt b a = true) :=
  ⟨serial_make_lt, serial_add_some, serial_add_none, serial_lt_add, serial_lt_irrefl, serial_lt_asymm,
   serial_gt_eq_lt, serial_trichotomy⟩

/-- "… with the 0 ↦ 1 rule": what `update_serial` stores, and that it is never 0. -/
theorem update_serial_rule (old : Nat) (value : Int) (rel : Bool) (hold : old < 4294967296) (hv : 0 ≤ value) :
    newSerial old value rel =
        (if rel then
          (if value > 2147483647 then .error .valueError
           else .ok (if ((old : Int) + value) % 4294967296 = 0 then 1 else (((old : Int) + value) % 4294967296).toNat))
         else .ok (if value % 4294967296 = 0 then 1 else (value % 4294967296).toNat)) ∧
      ∀ v, newSerial old value rel = .ok v → v ≠ 0 :=
  ⟨newSerial_spec old value rel hold hv, fun v h => newSerial_ne_zero old value rel v h⟩

/-- non-vacuity / the boundary: 2^32 − 1 plus one is 1, not 0; an absolute 2^32 is stored as 1 -/
example : newSerial 4294967295 1 true = .ok 1 ∧ newSerial 7 4294967296 false = .ok 1 ∧
    newSerial 5 2147483648 true = .error .valueError := by decide

/-! ## refinement -/

/-- "Any sequence of add, replace, delete, delete-exact and serial-update operations in a write transaction
leaves the zone, after commit, with exactly the content a simple reference model predicts … identically for
plain, versioned and B-tree zones" (the model has no zone-class parameter: one model for the three classes, each
tied to it by the correspondence check; the B-tree version class' own put/delete paths are modelled in
`Model/ZoneBTree.lean` and shown content-equal in `btree_content_same`):
for every history of API calls (`add/replace/delete/delete_exact` in any argument form, well-formed or not, with
or without a vetoing check hook; `update_serial`, `get`, `name_exists`, `get_node`, `changed`, iteration,
`commit`, `rollback`), every exit (clean or through an exception), writer or reader:
every result agrees with the reference model's (`ResRel`: equal — error family, rdataset, flag — or, for
iteration and `get_node`, the same content in whatever order), and the published zone afterwards simulates the
reference zone (same rdataset under every (owner, type, covers), same set of owners — hence no empty nodes).
The conclusion re-establishes the hypotheses, so it composes over successive transactions. -/
theorem txn_refines_spec (cfg : Cfg) (hg : GoodCfg cfg) (z : Nodes) (sz : SZone)
    (hz : Sim cfg.rdclass z sz) (hi : Inv cfg.rdclass z) (ro : Bool) (ops : List Op) (exc : Bool) :
    let s0 := if ro then beginRead z else beginWrite z
    let t0 := if ro then sBeginRead sz else sBeginWrite sz
    let m := run cfg s0 ops
    let r := sRun cfg t0 (ops.map toSOp)
    AllRel (ResRel cfg.rdclass) m.2 r.2 ∧
      Sim cfg.rdclass (exitTxn m.1 exc).zone (sExit r.1 exc).zone ∧ Inv cfg.rdclass (exitTxn m.1 exc).zone := by
  intro s0 t0 m r
  have h0 : TSim cfg s0 t0 := by
    cases ro
    · exact { zone := hz, ver := hz, izone := hi, iver := hi, ro := rfl, ended := rfl, changed := rfl }
    · exact { zone := hz, ver := hz, izone := hi, iver := hi, ro := rfl, ended := rfl, changed := rfl }
  obtain ⟨h1, h2⟩ := run_refines cfg hg ops s0 t0 h0
  have h3 := exit_refines cfg m.1 r.1 h1 exc
  exact ⟨h2, h3.zone, h3.izone⟩

/-- The same for `zone.writer(replacement=True)`: the version starts empty, whatever the zone holds; the zone is
replaced by what the transaction built — or left as it was if the transaction changed nothing or was aborted. -/
theorem txn_refines_spec_replacement (cfg : Cfg) (hg : GoodCfg cfg) (z : Nodes) (sz : SZone)
    (hz : Sim cfg.rdclass z sz) (hi : Inv cfg.rdclass z) (ops : List Op) (exc : Bool) :
    let m := run cfg (beginReplace z) ops
    let r := sRun cfg (sBeginReplace sz) (ops.map toSOp)
    AllRel (ResRel cfg.rdclass) m.2 r.2 ∧
      Sim cfg.rdclass (exitTxn m.1 exc).zone (sExit r.1 exc).zone ∧ Inv cfg.rdclass (exitTxn m.1 exc).zone ∧
      ((∀ op ∈ ops, op.isCommit = false) → exc = true → (exitTxn m.1 exc).zone = z) := by
  intro m r
  have h0 : TSim cfg (beginReplace z) (sBeginReplace sz) :=
    { zone := hz, ver := ⟨fun _ _ _ => rfl, fun _ => rfl⟩, izone := hi, iver := Inv.nil _, ro := rfl, ended := rfl,
      changed := rfl }
  obtain ⟨h1, h2⟩ := run_refines cfg hg ops _ _ h0
  have h3 := exit_refines cfg m.1 r.1 h1 exc
  refine ⟨h2, h3.zone, h3.izone, ?_⟩
  intro hnc hexc
  subst hexc
  rw [exit_exc_zone, run_zone cfg ops _ hnc]
  rfl

/-- Every well-formed concrete zone (owner keys distinct, no empty node, one class, (type, covers) distinct within
a node) is simulated by its flattening — so the refinement applies to arbitrary initial zones. -/
theorem sim_flatten (cls : Nat) (z : Nodes) (h : WfZone cls z) : Sim cls z (flatten z) ∧ Inv cls z :=
  Model.ZT.sim_flatten cls z h

/-- `txn_refines_spec` from any well-formed initial zone, against the reference run from its flattening. -/
theorem txn_refines_spec_concrete (cfg : Cfg) (hg : GoodCfg cfg) (z : Nodes) (hw : WfZone cfg.rdclass z)
    (ro : Bool) (ops : List Op) (exc : Bool) :
    let m := run cfg (if ro then beginRead z else beginWrite z) ops
    let r := sRun cfg (if ro then sBeginRead (flatten z) else sBeginWrite (flatten z)) (ops.map toSOp)
    AllRel (ResRel cfg.rdclass) m.2 r.2 ∧
      Sim cfg.rdclass (exitTxn m.1 exc).zone (sExit r.1 exc).zone ∧ Inv cfg.rdclass (exitTxn m.1 exc).zone :=
  txn_refines_spec cfg hg z (flatten z) (Model.ZT.sim_flatten _ z hw).1 (Model.ZT.sim_flatten _ z hw).2 ro ops exc

/-- non-vacuity: a zone `ex.` (relativized) with SOA + NSEC + RRSIG(NSEC) at the apex, a CNAME with its
RRSIG(CNAME) and NSEC at `a`, and two A records at `b`, is well formed -/
example : WfZone 1
    [ ([], [ { rdclass := 1, rdtype := 6, covers := 0, ttl := 3600, items := [⟨1, 6, 0, 2024⟩] },
             { rdclass := 1, rdtype := 47, covers := 0, ttl := 300, items := [⟨1, 47, 0, 1⟩] },
             { rdclass := 1, rdtype := 46, covers := 47, ttl := 300, items := [⟨1, 46, 47, 1⟩, ⟨1, 46, 47, 2⟩] } ]),
      ([[97]], [ { rdclass := 1, rdtype := 5, covers := 0, ttl := 60, items := [⟨1, 5, 0, 1⟩] },
                 { rdclass := 1, rdtype := 46, covers := 5, ttl := 60, items := [⟨1, 46, 5, 7⟩] },
                 { rdclass := 1, rdtype := 47, covers := 0, ttl := 300, items := [⟨1, 47, 0, 2⟩] } ]),
      ([[98]], [ { rdclass := 1, rdtype := 1, covers := 0, ttl := 300, items := [⟨1, 1, 0, 1⟩, ⟨1, 1, 0, 2⟩] } ]) ] := by
  unfold WfZone NodeInv
  decide

/-- The code as it now is (repairs 48a5b1a, 32c445c in: `d09 = d10 = false`; `get_node` still unguarded or not:
any `gn`): every history in which `get_node` is not called on an already ended transaction runs exactly as under
the intended variant, hence refines the reference model — owner names in either spelling, no other guard.
Full statement (false while `gn = true`, see `get_node_after_end_counterexample`): the same without `hlate`,
which is `txn_refines_spec`. -/
theorem current_code_refines_spec (cfg : Cfg) (h09 : cfg.d09 = false) (h10 : cfg.d10 = false) (z : Nodes)
    (hw : WfZone cfg.rdclass z) (ro : Bool) (ops : List Op) (exc : Bool)
    (hlate : lateGetNode cfg (if ro then beginRead z else beginWrite z) ops = false) :
    let m := run cfg (if ro then beginRead z else beginWrite z) ops
    let r := sRun (closedCfg cfg) (if ro then sBeginRead (flatten z) else sBeginWrite (flatten z)) (ops.map toSOp)
    AllRel (ResRel cfg.rdclass) m.2 r.2 ∧
      Sim cfg.rdclass (exitTxn m.1 exc).zone (sExit r.1 exc).zone ∧ Inv cfg.rdclass (exitTxn m.1 exc).zone := by
  intro m r
  have hrun : m = run (closedCfg cfg) (if ro then beginRead z else beginWrite z) ops := run_gn cfg ops _ hlate
  have hg : GoodCfg (closedCfg cfg) := ⟨h09, h10, rfl⟩
  have h := txn_refines_spec_concrete (closedCfg cfg) hg z hw ro ops exc
  rw [hrun]
  exact h

/-- "reads inside a transaction see its own writes": after any prefix of the history, `get` and `name_exists`
return what the reference model holds at that point (which `reference_map_rules` describes write by write);
`get_node` and iteration likewise, by `txn_refines_spec`. -/
theorem reads_see_writes (cfg : Cfg) (hg : GoodCfg cfg) (z : Nodes) (sz : SZone)
    (hz : Sim cfg.rdclass z sz) (hi : Inv cfg.rdclass z) (ops : List Op) (n : Name) (t c : Nat) :
    let s := (run cfg (beginWrite z) ops).1
    let r := (sRun cfg (sBeginWrite sz) (ops.map toSOp)).1
    (step cfg s (.get n t c)).2 = (sStep cfg r (.get n t c)).2 ∧
      (step cfg s (.nameExists n)).2 = (sStep cfg r (.nameExists n)).2 := by
  intro s r
  have h0 : TSim cfg (beginWrite z) (sBeginWrite sz) :=
    { zone := hz, ver := hz, izone := hi, iver := hi, ro := rfl, ended := rfl, changed := rfl }
  exact reads_refine cfg s r (run_refines cfg hg ops _ _ h0).1 n t c

/-- a write is read back: the reference model returns the rdataset just stored -/
theorem read_after_replace (cfg : Cfg) (t : STxn) (n k : Name) (r : Rdataset) (hv : validateName cfg n = .ok k)
    (he : t.ended = false) (hr : t.readOnly = false) (hc : r.rdclass = cfg.rdclass) (hs : r.rdtype ≠ ConstsC10.soa) :
    (sStep cfg (sStep cfg t (.replace n r false false)).1 (.get n r.rdtype r.covers)).2 = .ok (.rds (some r)) := by
  simp [sStep, sPut, he, hr, hc, hs, hv, SZone.put, SZone.get]

/-- "identically for plain, versioned and B-tree zones": plain and versioned zones share `dns.zone.WritableVersion`
(the model's `putRdataset / deleteRdataset / deleteNode`); the B-tree zone has its own version class whose put and
delete paths interleave the content operation with flag, delegation-index and `changed` bookkeeping
(`Model/ZoneBTree.lean`, following `dns/btreezone.py`).  Whatever the name-order oracles `P` of that bookkeeping
answer, its content is the plain model's: the same node map after `put_rdataset`, after `delete_rdataset`
(validated key, emptied node removed) and after `delete_node`, and `changed` becomes non-empty in exactly the
same cases (so a commit publishes in the same cases). -/
theorem btree_content_same (P : BParams) (cls : Nat) (v : BVer) (key : Name) :
    (∀ r, bContent (bPut P v key r).nodes =
          nodesSet (bContent v.nodes) key (((nodesGet (bContent v.nodes) key).getD []).replace r) ∧
        (bPut P v key r).changed ≠ []) ∧
    (∀ t c, bContent (bDelRds P cls v key t c).nodes = delRdsM cls (bContent v.nodes) key t c ∧
        (bDelRds P cls v key t c).changed ≠ []) ∧
    (bContent (bDelNode P v key).nodes =
        (if (nodesGet (bContent v.nodes) key).isSome then nodesErase (bContent v.nodes) key else bContent v.nodes) ∧
      ((nodesGet (bContent v.nodes) key).isSome = true → (bDelNode P v key).changed ≠ []) ∧
      ((nodesGet (bContent v.nodes) key).isSome = false → (bDelNode P v key).changed = v.changed)) :=
  ⟨fun r => btree_put P v key r, fun t c => btree_delete_rdataset P cls v key t c, btree_delete_node P v key⟩

/-- the plain model's `put_rdataset / delete_rdataset` are those expressions (so the two statements meet) -/
theorem plain_version_ops (cfg : Cfg) (hg : GoodCfg cfg) (v : Nodes) (name key : Name) (hv : validateName cfg name = .ok key) :
    (∀ r, putRdataset cfg v name r = .ok (nodesSet v key (((nodesGet v key).getD []).replace r))) ∧
    (∀ t c, deleteRdataset cfg v name t c = (delRdsM cfg.rdclass v key t c, none)) ∧
    deleteNode cfg v name = .ok (if (nodesGet v key).isSome then (nodesErase v key, true) else (v, false)) := by
  refine ⟨fun r => by simp [putRdataset, hv], fun t c => deleteRdataset_good cfg hg v name key t c hv, ?_⟩
  unfold deleteNode; simp only [hv]; split <;> rfl

/-- non-vacuity: a delegation `b` (NS only) with glue `a.b`; deleting the NS rdataset at rdataset granularity
removes the node in the B-tree instance too (the seeded change C10-a kept it as an empty node) -/
example :
    let P : BParams := { isOrigin := fun k => k == [], isGlue := fun d k => d.any (fun c => k != c && k.drop (k.length - c.length) == c),
                         below := fun k n => k != n && k.drop (k.length - n.length) == n }
    let ns : Rdataset := { rdclass := 1, rdtype := 2, covers := 0, ttl := 300, items := [⟨1, 2, 0, 1⟩] }
    let a : Rdataset := { rdclass := 1, rdtype := 1, covers := 0, ttl := 300, items := [⟨1, 1, 0, 1⟩] }
    let v0 : BVer := { nodes := [], delegs := [], changed := [] }
    let v := bPut P (bPut P v0 [[98]] ns) [[97], [98]] a
    v.delegs = [[[98]]] ∧ bContent (bDelRds P 1 v [[98]] 2 0).nodes = [([[97], [98]], [a])] ∧
      (bDelRds P 1 v [[98]] 2 0).delegs = [] := by
  decide

/-- "A transaction that is rolled back, or that exits through an exception raised at any point, leaves the zone
exactly as it was" — with copy-on-write made explicit (`Model/ZoneCow.lean`): node objects are mutable cells of a
store *shared* between the published zone and the version (`WritableVersion.__init__` copies only the dict);
`_maybe_cow_with_name` copies a node the first time its name is touched and every later
`replace_rdataset / delete_rdataset` mutates in place.  For every sequence of version operations, at every
point: (i) what the published zone reaches is untouched (so abandoning the version at any point is a perfect
rollback, and concurrent readers are not disturbed), and (ii) what the version holds is exactly what the
persistent-value model of `Model/ZoneTxn.lean` holds (`pStep` is its `putRdataset / deleteRdataset / deleteNode`,
see `plain_version_ops`) — which is what licenses modelling zones as persistent values everywhere else. -/
theorem cow_isolation (cls : Nat) (heap : Heap) (zone : PMap) (hz : ∀ e ∈ zone, e.2 < heap.next) (ops : List COp) :
    let v := ops.foldl (cStep cls) (cBegin heap zone)
    (∀ k, zview v k = (pget zone k).map heap.cell) ∧
      (∀ k, vview v k = nodesGet (ops.foldl (pStep cls) (deref heap zone)) k) := by
  intro v
  have hi : CowInv (cBegin heap zone) :=
    ⟨hz, hz, fun k hk => by simp [cBegin] at hk⟩
  have hr : Rep (cBegin heap zone) (deref heap zone) := by
    intro k; rw [nodesGet_deref]; rfl
  obtain ⟨_, h2, h3⟩ := cRun_spec cls ops (cBegin heap zone) (deref heap zone) hi hr
  exact ⟨fun k => h2 k, h3⟩

/-- non-vacuity, and the scenario itself: the zone's node `a` is object 0 holding an A rdataset; the version adds
a second A record (merged rdataset put) and deletes it again; the zone still reaches the original object, unmodified,
while the version went through a private copy (object 1) — and a `put` *without* the copy would have shown through -/
example :
    let a1 : Rdataset := { rdclass := 1, rdtype := 1, covers := 0, ttl := 300, items := [⟨1, 1, 0, 1⟩] }
    let a12 : Rdataset := { a1 with items := [⟨1, 1, 0, 1⟩, ⟨1, 1, 0, 2⟩] }
    let heap : Heap := { cell := fun i => if i = 0 then [a1] else [], next := 1 }
    let zone : PMap := [([[97]], 0)]
    let v := cPut (cBegin heap zone) [[97]] a12
    zview v [[97]] = some [a1] ∧ vview v [[97]] = some [a12] ∧ pget v.nodes [[97]] = some 1 ∧
      (∀ e ∈ zone, e.2 < heap.next) ∧
      zview ({ (cBegin heap zone) with heap := heap.set 0 [a12] }) [[97]] = some [a12] := by
  decide

/-! ## owner names relative or absolute -/

/-- "… and regardless of whether owner names are given relative or absolute": for an owner `r` relative to the
origin whose absolute spelling `r ++ origin` is a legal name, every call gives the same result and the same
state with either spelling. -/
theorem relative_absolute_same (cfg : Cfg) (hg : GoodCfg cfg) (ho : WfOrigin cfg) (r : Name)
    (hr : isAbs r = false) (hv : validate r = .ok r)
    (hfull : validate (r ++ cfg.origin) = .ok (r ++ cfg.origin)) (s : Txn) :
    validateName cfg r = validateName cfg (r ++ cfg.origin) ∧
    (∀ rep rds extra veto, addCore cfg s rep r rds extra veto = addCore cfg s rep (r ++ cfg.origin) rds extra veto) ∧
    (∀ exact sel veto, deleteCore cfg s exact r sel veto = deleteCore cfg s exact (r ++ cfg.origin) sel veto) ∧
    (∀ value rel veto, txnUpdateSerial cfg s value rel r veto = txnUpdateSerial cfg s value rel (r ++ cfg.origin) veto) ∧
    (∀ t c, step cfg s (.get r t c) = step cfg s (.get (r ++ cfg.origin) t c)) ∧
    step cfg s (.nameExists r) = step cfg s (.nameExists (r ++ cfg.origin)) := by
  have h1 := validateName_rel_abs cfg ho r hr hv hfull
  have h2 := soaNameOk_rel_abs cfg hg.d10 ho r hr
  refine ⟨h1, ?_, ?_, ?_, ?_, ?_⟩
  · intro rep rds extra veto; exact addCore_spelling cfg s _ _ h1 h2 rep rds extra veto
  · intro exact sel veto; exact deleteCore_spelling cfg hg.d09 s _ _ h1 exact sel veto
  · intro value rel veto; exact updateSerial_spelling cfg s _ _ h1 h2 value rel veto
  · intro t c; simp only [step, getRdataset, h1]
  · simp only [step, getNode, h1]

/-- non-vacuity: origin `example.`, owner `a` / `a.example.` -/
example : WfOrigin { origin := [[101, 120], []], relativize := true, rdclass := 1, d09 := false, d10 := false } ∧
    isAbs [[97]] = false ∧ validate [[97]] = .ok [[97]] ∧
    validate ([[97]] ++ [[101, 120], []]) = .ok ([[97]] ++ [[101, 120], []]) := by
  refine ⟨⟨by decide, by decide⟩, by decide, by decide, by decide⟩

/-! ## all-or-nothing -/

/-- "A transaction … that exits through an exception raised at any point, leaves the zone exactly as it was":
after any history without an explicit `commit()` call — in particular after every prefix of any history —
leaving the `with` block through an exception leaves the published zone untouched. -/
theorem exception_identity (cfg : Cfg) (z : Nodes) (ro : Bool) (ops : List Op)
    (h : ∀ op ∈ ops, op.isCommit = false) :
    (exitTxn (run cfg (if ro then beginRead z else beginWrite z) ops).1 true).zone = z := by
  rw [exit_exc_zone, run_zone cfg ops _ h]
  cases ro <;> rfl

/-- "A transaction that is rolled back … leaves the zone exactly as it was": an explicit `rollback()` after any
history without a commit, whatever is called afterwards and however the block is left. -/
theorem rollback_identity (cfg : Cfg) (z : Nodes) (ops more : List Op) (exc : Bool)
    (h : ∀ op ∈ ops, op.isCommit = false) :
    (exitTxn (run cfg (beginWrite z) (ops ++ Op.rollback :: more)).1 exc).zone = z := by
  rw [run_append]
  simp only [run]
  have hz := run_zone cfg ops (beginWrite z) h
  have hr := rollback_ends (run cfg (beginWrite z) ops).1
  have hstep : (step cfg (run cfg (beginWrite z) ops).1 Op.rollback).1 = (endTxn (run cfg (beginWrite z) ops).1 false).1 := rfl
  have hend := run_ended cfg more (step cfg (run cfg (beginWrite z) ops).1 Op.rollback).1 (by rw [hstep]; exact hr.1)
  rw [hend, exit_ended _ _ (by rw [hstep]; exact hr.1), hstep, hr.2, hz]
  rfl

/-- "… or that exits through an exception raised at any point" — the point being *inside the commit*: a callback the
commit path consults (the versioned / B-tree zone's pruning policy) raises.  The version is withdrawn and nothing is
published, whatever was done before and whatever is called afterwards or however the block is then left. -/
theorem failed_commit_identity (cfg : Cfg) (z : Nodes) (ops more : List Op) (exc : Bool)
    (h : ∀ op ∈ ops, op.isCommit = false) :
    (exitTxn (run cfg (beginWrite z) (ops ++ Op.commitRaise :: more)).1 exc).zone = z := by
  rw [run_append]
  simp only [run]
  have hz := run_zone cfg ops (beginWrite z) h
  have hr := commitRaise_ends (run cfg (beginWrite z) ops).1
  have hstep : (step cfg (run cfg (beginWrite z) ops).1 Op.commitRaise).1 = (endTxnRaise (run cfg (beginWrite z) ops).1).1 := rfl
  have hend := run_ended cfg more (step cfg (run cfg (beginWrite z) ops).1 Op.commitRaise).1 (by rw [hstep]; exact hr.1)
  rw [hend, exit_ended _ _ (by rw [hstep]; exact hr.1), hstep, hr.2, hz]
  rfl

/-- "… ended or read-only transactions refuse further use": once ended, every call raises `AlreadyEnded` and
changes nothing. -/
theorem ended_refuses (cfg : Cfg) (hgn : cfg.gn = false) (s : Txn) (h : s.ended = true) (op : Op) :
    step cfg s op = (s, .error .alreadyEnded) := step_ended cfg s op h (Or.inl hgn)

/-- Partial form for the code as it is (any `gn`): every call but `get_node` is refused once ended, and an ended
transaction never changes again whatever is called. -/
theorem ended_refuses_partial (cfg : Cfg) (s : Txn) (h : s.ended = true) (op : Op) :
    (op.isGetNode = false → step cfg s op = (s, .error .alreadyEnded)) ∧ (step cfg s op).1 = s :=
  ⟨fun hop => step_ended cfg s op h (Or.inr hop), step_ended_state cfg s op h⟩

/-- The open decision point at a witness (`corpus/C10/new-get-node-after-end.json`): a writer adds `a A 10.0.0.1`
and rolls back; as shipped (`gn = true`) `get_node(a)` still answers — with the rolled-back node — where the
intended variant raises `AlreadyEnded`. -/
theorem get_node_after_end_counterexample :
    let rds : Rdataset := { rdclass := 1, rdtype := 1, covers := 0, ttl := 300, items := [⟨1, 1, 0, 1⟩] }
    let ops : List Op := [.add [.name [[97]], .rds rds] false, .rollback, .getNode [[97]]]
    let shipped : Cfg := { origin := [[101, 120], []], relativize := true, rdclass := 1, d09 := false, d10 := false, gn := true }
    let intended : Cfg := { shipped with gn := false }
    (run shipped (beginWrite []) ops).2.map errOf = [none, none, none] ∧
      (run intended (beginWrite []) ops).2.map errOf = [none, none, some .alreadyEnded] ∧
      (exitTxn (run shipped (beginWrite []) ops).1 false).zone = [] := by
  decide

/-- a read-only transaction refuses every mutating call (`ReadOnly` for add/replace/delete/delete_exact, an error
for `update_serial`), and no history of calls, however it ends, changes the published zone. -/
theorem readonly_refuses (cfg : Cfg) (z : Nodes) :
    (∀ args veto, step cfg (beginRead z) (.add args veto) = (beginRead z, .error .readOnly)) ∧
    (∀ args veto, step cfg (beginRead z) (.replace args veto) = (beginRead z, .error .readOnly)) ∧
    (∀ args veto, step cfg (beginRead z) (.delete args veto) = (beginRead z, .error .readOnly)) ∧
    (∀ args veto, step cfg (beginRead z) (.deleteExact args veto) = (beginRead z, .error .readOnly)) ∧
    (∀ ops exc, (exitTxn (run cfg (beginRead z) ops).1 exc).zone = z) := by
  refine ⟨fun _ _ => rfl, fun _ _ => rfl, fun _ _ => rfl, fun _ _ => rfl, ?_⟩
  intro ops exc
  have h := run_readOnly_zone cfg ops (beginRead z) rfl
  rw [exit_readOnly_zone _ _ h.2, h.1]
  rfl

/-! ## the LEGACY variants `d09` / `d10` of the model (the code before repairs 48a5b1a / 32c445c) -/

/-- D09 at the witness `corpus/C10/d09-plain-relativized-absolute-owner.json`: zone `example.` relativized with
`a A 10.0.0.1`; `txn.delete(a.example., A)` raises `KeyError` and leaves an *empty node* `a` in the version, where
the intended variant (and the reference model) deletes the node. -/
theorem legacy_d09_counterexample :
    let origin : Name := [[101, 120], []]
    let z : Nodes := [([[97]], [{ rdclass := 1, rdtype := 1, covers := 0, ttl := 300, items := [⟨1, 1, 0, 1⟩] }])]
    let op : Op := .delete [.name [[97], [101, 120], []], .int 1] false
    let shipped : Cfg := { origin := origin, relativize := true, rdclass := 1, d09 := true, d10 := false }
    let intended : Cfg := { shipped with d09 := false }
    errOf (step shipped (beginWrite z) op).2 = some .keyError ∧
      (step shipped (beginWrite z) op).1.ver = [([[97]], [])] ∧
      errOf (step intended (beginWrite z) op).2 = none ∧ (step intended (beginWrite z) op).1.ver = [] := by
  decide

/-- D10 at the witness `corpus/C10/d10-update-serial-default-name-absolute-zone.json`: a non-relativized zone with
an SOA at the origin; `update_serial()` with its default name `@` raises `ValueError`, where the intended variant
stores serial 6. -/
theorem legacy_d10_counterexample :
    let origin : Name := [[101, 120], []]
    let soa : Rdataset := { rdclass := 1, rdtype := 6, covers := 0, ttl := 300, items := [⟨1, 6, 0, 5⟩] }
    let z : Nodes := [(origin, [soa])]
    let op : Op := .updateSerial 1 true [] false
    let shipped : Cfg := { origin := origin, relativize := false, rdclass := 1, d09 := false, d10 := true }
    let intended : Cfg := { shipped with d10 := false }
    errOf (step shipped (beginWrite z) op).2 = some .valueError ∧
      errOf (step intended (beginWrite z) op).2 = none ∧
      (step intended (beginWrite z) op).1.ver = [(origin, [{ soa with items := [⟨1, 6, 0, 6⟩] }])] := by
  decide

/-- The legacy variants and the repaired code are the same function on histories whose mutating calls name their
owner in the zone's own spelling (`NativeName`) — i.e. the repairs changed nothing else. -/
theorem legacy_variant_agrees_on_native_names (cfg : Cfg) (ho : WfOrigin cfg) (s : Txn) (ops : List Op)
    (hnat : ∀ op ∈ ops, ∀ n, op.owner = some n → NativeName cfg n) :
    run cfg s ops = run (modernCfg cfg) s ops := run_native cfg ho ops s hnat

/-- non-vacuity of the guard: in the relativized zone `ex.` the owner `a` is native, `a.ex.` is not -/
example :
    let cfg : Cfg := { origin := [[101, 120], []], relativize := true, rdclass := 1, d09 := true, d10 := true }
    validateName cfg [[97]] = .ok (lowerName [[97]]) ∧ validateName cfg [[97], [101, 120], []] ≠ .ok (lowerName [[97], [101, 120], []]) := by
  decide

end C10

import Model.Resolver
import Model.ResolverCode
import Proofs.Resolver
import Proofs.ResolverStep
import Proofs.ResolverRun
import Proofs.ResolverNx
import Proofs.ResolverTrace
import Proofs.ResolverClass
import Proofs.ResolverCache
import Proofs.ResolverSpec
import Proofs.ResolverEquiv
import Proofs.ResolverNoNs
import Proofs.ResolverNxEvidence
import Model.ResolverAsync
import Model.ResolverName
import Proofs.ResolverAsync
/-!
# C16 — stub resolution reaches the documented outcome under every fault sequence

Theorems of record about `Model.Resolver` (the executable model of `dns/resolver.py`'s `_Resolution`, the
`resolve` loop, `_get_qnames_to_try`, `_compute_timeout`, and `dns/message.py` `resolve_chaining`).
Constants (`ConstsC16.*`: `MAX_CHAIN`, the observed back-off table) are regenerated from the working tree on
every run.  The synchronous and the asyncio resolver share `_Resolution`; that their loops take identical
decisions is established by the correspondence check only (tie-only, partial).
-/
namespace C16
open Model Model.Resolver

/-! ## regenerated constants -/

/-- the first `n` back-off values of a schedule -/
def backoffSeq (bo : Backoff) : Nat → Nat → List Nat
  | 0, _ => []
  | n + 1, b => b :: backoffSeq bo n (min (b * bo.factor) bo.cap)

/-- "back-off 0.1 → 2 s doubling": the model's schedule with the regenerated parameters reproduces the back-off
values observed on a real `_Resolution` object of the working tree. -/
theorem backoff_table_matches :
    backoffSeq codeBackoff 8 codeBackoff.init = ConstsC16.backoffSeqMs := by decide

/-- what termination needs of the schedule: the first back-off is positive and never exceeds the cap,
and the factor does not shrink it. -/
theorem backoff_wellformed :
    0 < codeBackoff.init ∧ codeBackoff.init ≤ codeBackoff.cap ∧ 1 ≤ codeBackoff.factor := by decide

/-! ## candidate names -/

/-- "candidate names follow search-list and ndots rules": whenever `_get_qnames_to_try` returns, the list is
exactly: the name itself if absolute; else only its absolute form when searching is off; else the absolute form
*first* if the name has at least `ndots` dots (`len(qname) > ndots`) followed by `qname + suffix` for each suffix of
the search list in order, or the suffixed names first and the absolute form *last* otherwise.  The search list is
`search` if non-empty, else `[domain]` unless the domain is the root. -/
theorem search_ndots_rule (cfg : Config) (q : Name) (s : Option Bool) (l : List Name)
    (h : getQnamesToTry cfg q s = .ok l) :
    l = if isAbs q then [q]
        else if !(s.getD cfg.useSearchByDefault) then [q ++ root]
        else if cfg.ndots.getD 1 < q.length then (q ++ root) :: (searchList cfg).map (q ++ ·)
        else (searchList cfg).map (q ++ ·) ++ [q ++ root] := by
  unfold getQnamesToTry at h
  by_cases habs : isAbs q = true
  · simp only [habs, if_true] at h ⊢
    cases h; rfl
  · simp only [habs] at h ⊢
    simp only [Bool.false_eq_true, if_false] at h ⊢
    split at h
    · cases h
    · rename_i absQ hq
      have hq' := concatenate_ok hq
      by_cases hs : s.getD cfg.useSearchByDefault = true
      · simp only [hs, if_true, Bool.not_true, Bool.false_eq_true, if_false] at h ⊢
        split at h
        · cases h
        · rename_i cands hc
          have hc' := concatAll_ok hc
          by_cases hn : q.length > cfg.ndots.getD 1
          · simp only [hn, if_true] at h
            cases h
            simp [hq', hc', show cfg.ndots.getD 1 < q.length from hn]
          · simp only [hn, if_false] at h
            cases h
            simp [hq', hc', show ¬ cfg.ndots.getD 1 < q.length from hn]
      · simp only [hs, Bool.false_eq_true, if_false] at h ⊢
        cases h
        simp [hq']

example : getQnamesToTry
    { servers := [], search := [[[101, 120], []], [[99], []]], domain := none, ndots := some 2,
      useSearchByDefault := true, timeout := 2000, lifetime := 5000, retryServfail := false, cacheOn := false }
    [[119]] none = .ok [[[119], [101, 120], []], [[119], [99], []], [[119], []]] := by rfl

/-! ## the CNAME chain -/

/-- "the answer follows the CNAME chain (bounded) with minimum TTL": whenever `resolve_chaining` returns,
fewer than `MAX_CHAIN` CNAME RRsets were followed, they form a path in the answer section from the question name to
the canonical name, an answer RRset is the RRset of the question's class and type *at the canonical name*, and
`minimum_ttl` is exactly the minimum of `MAX_TTL`, the TTLs of the CNAMEs followed and the answer's TTL — or, without
an answer, that minimum further lowered by the negative-caching walk (next theorem). -/
theorem chain_bounded_min_ttl (maxChain : Nat) (r : Resp) (q : Name) (cls ty : Nat) (c : ChainResult)
    (h : resolveChaining maxChain r q cls ty = .ok c) :
    c.cnames.length < maxChain ∧
    IsCnamePath r.answer cls q c.cnames c.canonical ∧
    (∀ a, c.answer = some a →
        a ∈ r.answer ∧ sameName a.owner c.canonical = true ∧ a.rdclass = cls ∧ a.rdtype = ty ∧
        c.minTtl = listMin Consts.maxTTL (c.cnames.map (·.ttl) ++ [a.ttl])) ∧
    (c.answer = none →
        findRRset r.answer c.canonical cls ty = none ∧
        c.minTtl = soaWalk r.authority cls c.canonical (listMin Consts.maxTTL (c.cnames.map (·.ttl)))) := by
  unfold resolveChaining at h
  split at h
  · cases h
  split at h
  · cases h
  obtain ⟨ext, e1, e2, e3, e4, e5, e6⟩ := chainLoop_spec r.answer cls ty maxChain q Consts.maxTTL [] _ rfl
  simp only at h
  split at h
  · cases h
  rename_i hlong
  have hlong' : (chainLoop r.answer cls ty maxChain q Consts.maxTTL []).tooLong = false := by
    simpa using hlong
  split at h
  · cases h
  split at h
  · rename_i a ha
    cases h
    simp only [List.nil_append] at e1
    obtain ⟨x1, x2, x3, x4, x5⟩ := e5 a ha
    refine ⟨?_, ?_, ?_, ?_⟩
    · rw [e1]; exact e4 hlong'
    · rw [e1]; exact e2
    · intro a' ha'
      cases ha'
      rw [e1]
      exact ⟨x1, x2, x3, x4, x5⟩
    · intro hn; cases hn
  · rename_i ha
    cases h
    simp only [List.nil_append] at e1
    obtain ⟨y1, y2⟩ := e6 ha
    refine ⟨?_, ?_, ?_, ?_⟩
    · rw [e1]; exact e4 hlong'
    · rw [e1]; exact e2
    · intro a' ha'; cases ha'
    · intro _
      rw [e1]
      exact ⟨(y2 hlong').1, by rw [y1]⟩

/-- "negative TTL from SOA": without an answer the TTL is lowered by the TTL and the MINIMUM field of the SOA RRset
of the question's class found at the closest name among the canonical name and its ancestors (parent by parent,
stopping at the root), and left alone if there is none. -/
theorem negative_ttl_from_soa (auth : List Soa) (cls : Nat) (n : Name) (m : Nat) :
    soaWalk auth cls n m =
      match (ancestors n).findSome? (fun a => findSoa auth a cls) with
      | some s => min m (min s.ttl s.minimum)
      | none => m :=
  soaWalk_spec auth cls n m

/-- "(bounded)": a chain of `MAX_CHAIN` CNAMEs is refused even when it ends in an answer; non-responses, a question
count other than one, and an NXDOMAIN carrying an answer are refused. -/
theorem chain_refusals (maxChain : Nat) (r : Resp) (q : Name) (cls ty : Nat) :
    (r.qr = false → resolveChaining maxChain r q cls ty = .error .notQueryResponse) ∧
    (r.qr = true → r.qcount ≠ 1 → resolveChaining maxChain r q cls ty = .error .formError) ∧
    (r.qr = true → r.qcount = 1 → (chainLoop r.answer cls ty maxChain q Consts.maxTTL []).tooLong = true →
        resolveChaining maxChain r q cls ty = .error .chainTooLong) := by
  refine ⟨?_, ?_, ?_⟩
  · intro h; simp [resolveChaining, h]
  · intro h1 h2; simp [resolveChaining, h1, h2]
  · intro h1 h2 h3; simp [resolveChaining, h1, h2, h3]

/-- non-vacuity: a two-link chain with an answer, TTL = the minimum along it -/
example : resolveChaining 16
    { rcode := 0, qr := true, qcount := 1,
      answer := [⟨[[97], []], 1, 5, 300, [[98], []]⟩, ⟨[[98], []], 1, 5, 20, [[99], []]⟩, ⟨[[99], []], 1, 1, 60, []⟩],
      authority := [] } [[97], []] 1 1
    = .ok { canonical := [[99], []], answer := some ⟨[[99], []], 1, 1, 60, []⟩, minTtl := 20,
            cnames := [⟨[[97], []], 1, 5, 300, [[98], []]⟩, ⟨[[98], []], 1, 5, 20, [[99], []]⟩] } := by rfl

/-! ## the cache -/

/-- "results cached under (name, type, class)": the cache is a map keyed by exactly that triple (names up to ASCII
case): a `put` is visible under its own key until it expires and leaves every other key untouched. -/
theorem cache_key_exact (c : Cache) (k k' : Key) (a : Answer) (now : Nat) :
    cacheGet (cachePut c k a) k' now =
      if k' = k then (if a.expiration ≤ now then none else some a) else cacheGet c k' now :=
  cacheGet_put c k k' a now

/-! ## termination and the lifetime -/

/-- the resolve loop of the model, started the way `Resolver.resolve` starts it -/
def loopResult (env : Env) (cache : Cache) (script : List ScriptStep) : List Event × Result × St :=
  run env (fuelBound env.bo env.cfg.servers.length env.qnamesToTry.length env.lifetime)
    (initSt env.start cache script env.qnamesToTry)

/-- "terminates within its lifetime", part 1 (termination): for every script of nameserver outcomes, every
configuration and every cache, the loop ends by itself — it never needs more than
`(2n+2)·candidates + 2n·⌈lifetime / first back-off⌉ + 1` iterations (`n` nameservers), because every re-arming of the
server list sleeps at least the first back-off and is followed by the lifetime test.  Hypotheses on the back-off
schedule are those discharged for the code's schedule by `backoff_wellformed`. -/
theorem terminates_within_lifetime (env : Env) (cache : Cache) (script : List ScriptStep)
    (hpos : 0 < env.bo.init) (hcap : env.bo.init ≤ env.bo.cap) (hfac : 1 ≤ env.bo.factor) :
    (loopResult env cache script).2.1 ≠ .outOfFuel ∧
    (loopResult env cache script).1.countP isQuery
      ≤ fuelBound env.bo env.cfg.servers.length env.qnamesToTry.length env.lifetime := by
  refine ⟨?_, run_query_count env _ _⟩
  apply run_terminates env (InvT env) (phi env)
    (fun st evs st' hi hs => step_cont_phi env hpos hcap hfac st evs st' hi hs)
    (fun st evs r st' hs => step_done_ne_outOfFuel hs)
  · exact ⟨by simp [initSt], by simp [initSt]⟩
  · simp [phi, initSt, fuelBound]

/-- the same for `Resolver.resolve` as a whole with the schedule regenerated from the code: the result is always one
of the documented classes, never "still running". -/
theorem resolve_terminates (cfg : Config) (clip : Bool) (maxChain : Nat) (req : Request) (now : Nat) (cache : Cache)
    (script : List ScriptStep) :
    (resolve cfg codeBackoff clip maxChain req now cache script).2.1 ≠ .outOfFuel := by
  unfold resolve
  split
  · simp
  · split
    · simp
    · rename_i qnames _
      exact (terminates_within_lifetime (mkEnv cfg codeBackoff clip maxChain req now qnames) cache script
        backoff_wellformed.1 backoff_wellformed.2.1 backoff_wellformed.2.2).1

/-- the clock at the end of the loop, for both variants of the model's back-off sleep: clipped to the remaining
lifetime (`clipSleep = true`, the code since the repair 95c41ae) the loop ends inside the lifetime; unclipped (the code as
first shipped, retained as a model variant) it ends at most one back-off (≤ the cap, 2 s) later.  Nameservers honour
the timeout they are given (built into `doQuery`). -/
theorem ends_within_lifetime_variants (env : Env) (cache : Cache) (script : List ScriptStep)
    (hcap : env.bo.init ≤ env.bo.cap) :
    (loopResult env cache script).2.1 = .outOfFuel ∨
    (loopResult env cache script).2.2.now ≤ env.start + env.lifetime + (if env.clipSleep then 0 else env.bo.cap) := by
  have h := run_post env (InvTime env)
    (fun _ _ st' => st'.now ≤ env.start + env.lifetime + (if env.clipSleep then 0 else env.bo.cap))
    (fun st evs st' hi hs => by have := step_time env hcap st hi; rw [hs] at this; exact this)
    (fun st evs r st' hi hs pre => by have := step_time env hcap st hi; rw [hs] at this; exact this)
    (fuelBound env.bo env.cfg.servers.length env.qnamesToTry.length env.lifetime)
    (initSt env.start cache script env.qnamesToTry) []
    ⟨by simp [initSt], by simp [initSt], by simp [initSt]⟩
  exact h

/-- "a stub resolution terminates within its lifetime": for every configuration, request, cache and script of
nameserver outcomes, `Resolver.resolve` as the code now is (schedule, clipping and `MAX_CHAIN` regenerated from the
working tree: `ConstsC16.clipSleep = true` is an obligation about the code) returns or raises no later than
`lifetime` after it was called — unconditionally. -/
theorem ends_within_lifetime (cfg : Config) (req : Request) (now : Nat) (cache : Cache) (script : List ScriptStep) :
    (codeResolve cfg req now cache script).2.2.now ≤ now + req.lifetime.getD cfg.lifetime := by
  unfold codeResolve resolve
  split
  · simp [initSt]
  · split
    · simp [initSt]
    · rename_i qnames _
      have ht := (terminates_within_lifetime
        (mkEnv cfg codeBackoff ConstsC16.clipSleep ConstsC16.maxChain req now qnames) cache script
        backoff_wellformed.1 backoff_wellformed.2.1 backoff_wellformed.2.2).1
      have h := ends_within_lifetime_variants
        (mkEnv cfg codeBackoff ConstsC16.clipSleep ConstsC16.maxChain req now qnames) cache script
        backoff_wellformed.2.1
      have hclip : ConstsC16.clipSleep = true := by decide
      rcases h with h | h
      · exact absurd h ht
      · simpa [loopResult, mkEnv, hclip] using h

/-- The retained *unclipped* variant of the model (the code before 95c41ae) does overrun: two silent nameservers,
timeout 0.25 s, lifetime 0.5 s — `LifetimeTimeout` at 0.6 s, after a 0.1 s back-off sleep that began exactly when the
lifetime ran out; the clipped variant ends at 0.5 s on the same input.  (Recorded as fixed in KNOWN_FINDINGS.) -/
theorem lifetime_overrun_unclipped_variant :
    let cfg : Config := { servers := [⟨0, false⟩, ⟨1, false⟩], search := [], domain := none, ndots := none,
                          useSearchByDefault := false, timeout := 250, lifetime := 500, retryServfail := false,
                          cacheOn := false }
    let req : Request := { qname := [[97], []], rdtype := 1, rdclass := 1, tcp := false, raiseOnNoAnswer := true,
                           search := none, lifetime := none }
    (resolve cfg codeBackoff false ConstsC16.maxChain req 0 [] []).2.1 = .lifetimeTimeout ∧
    (resolve cfg codeBackoff false ConstsC16.maxChain req 0 [] []).2.2.now = 600 ∧
    (resolve cfg codeBackoff true ConstsC16.maxChain req 0 [] []).2.2.now = 500 := by
  decide

/-! ## the result -/

/-- "exactly the documented result: the first acceptable answer / NXDOMAIN / NoAnswer / YXDOMAIN / NoNameservers /
LifetimeTimeout": for every script, configuration and cache the loop's result is classified by `Classified`
(`Proofs/ResolverClass.lean`): no query before the last one had an acceptable outcome (a NOERROR response that
survives `resolve_chaining`), and
* an `Answer` is either the `Answer()` made from the *last* query's NOERROR response (labelled with that candidate,
  the requested type and class, that server, expiring `minimum_ttl` after the reply) or a live cache entry under
  `(candidate, type, class)` — and it has an RRset unless `raise_on_no_answer` is off;
* `NoAnswer` is the same with an empty RRset and `raise_on_no_answer` on;
* `YXDOMAIN` means the last query's response had rcode YXDOMAIN;
* `NoNameservers` means every nameserver has been taken out of the mix for the current candidate;
* `LifetimeTimeout` means the lifetime had expired at the test before a query;
* `NXDOMAIN` carries the full candidate list (see `nxdomain_only_if_all`);
and it is never a pre-resolution error. -/
theorem result_classification (env : Env) (cache : Cache) (script : List ScriptStep) :
    (loopResult env cache script).2.1 = .outOfFuel ∨
    Classified env (loopResult env cache script).1 (loopResult env cache script).2.1 (loopResult env cache script).2.2 := by
  have h := run_post' env (InvC env) (Classified env)
    (fun pre st evs st' hi hs => (step_class env pre st hi).1 evs st' hs)
    (fun pre st evs r st' hi hs => (step_class env pre st hi).2 evs r st' hs)
    (fuelBound env.bo env.cfg.servers.length env.qnamesToTry.length env.lifetime)
    (initSt env.start cache script env.qnamesToTry) []
    ⟨by simp, by simp [initSt], by simp [initSt]⟩
  unfold loopResult
  simpa using h

/-- "exactly the documented result", strongest form: the result is a *total function of the script*.  `spec`
(`Proofs/ResolverSpec.lean`) is written independently of the state machine — candidate after candidate, round after
round, server by server, with the documented fall-backs and no state flags — and for every configuration, request,
clock, cache and script the model of `Resolver.resolve` returns exactly `spec`'s result and leaves exactly the clock,
the cache and the unread script `spec` leaves (any back-off schedule with a positive first value ≤ cap, factor ≥ 1;
both variants of the sleep). -/
theorem resolve_eq_spec (cfg : Config) (bo : Backoff) (clip : Bool) (maxChain : Nat) (req : Request) (now : Nat)
    (cache : Cache) (script : List ScriptStep)
    (hpos : 0 < bo.init) (hcap : bo.init ≤ bo.cap) (hfac : 1 ≤ bo.factor) :
    (resolve cfg bo clip maxChain req now cache script).2.1 = (spec cfg bo clip maxChain req now cache script).1 ∧
    (resolve cfg bo clip maxChain req now cache script).2.2.now = (spec cfg bo clip maxChain req now cache script).2.now ∧
    (resolve cfg bo clip maxChain req now cache script).2.2.cache = (spec cfg bo clip maxChain req now cache script).2.cache ∧
    (resolve cfg bo clip maxChain req now cache script).2.2.script = (spec cfg bo clip maxChain req now cache script).2.script := by
  unfold resolve spec
  by_cases hmeta : (isMetatype req.rdtype || isMetaclass req.rdclass) = true
  · simp [hmeta, initSt]
  · simp only [hmeta, Bool.false_eq_true, if_false]
    cases hg : getQnamesToTry cfg req.qname req.search with
    | error e => simp [initSt]
    | ok qnames =>
      simp only
      generalize henv : mkEnv cfg bo clip maxChain req now qnames = env
      have hstart : env.start = now := by rw [← henv]; rfl
      have hq : env.qnamesToTry = qnames := by rw [← henv]; rfl
      have hb : env.bo = bo := by rw [← henv]; rfl
      have hs : env.cfg.servers = cfg.servers := by rw [← henv]; rfl
      have ht := (terminates_within_lifetime env cache script (by rw [hb]; exact hpos) (by rw [hb]; exact hcap)
        (by rw [hb]; exact hfac)).1
      have hsim := run_sim env (by rw [hb]; exact hpos) (by rw [hb]; exact hcap) (by rw [hb]; exact hfac)
        (fuelBound env.bo env.cfg.servers.length env.qnamesToTry.length env.lifetime)
        (initSt env.start cache script env.qnamesToTry) 0 ⟨by simp [initSt], by simp [initSt]⟩ (by simp [initSt])
      unfold loopResult at ht
      rcases hsim with hsim | ⟨h1, h2⟩
      · exact absurd hsim ht
      · simp only [SpecOf, initSt, worldOf, obsW, obsS, Prod.mk.injEq] at h1 h2
        rw [hq, hstart, hb, hs] at h1 h2
        exact ⟨h1.symm, h2.1.symm, h2.2.1.symm, h2.2.2.symm⟩

/-- the same for the code as it now is (constants regenerated from the working tree) -/
theorem codeResolve_eq_spec (cfg : Config) (req : Request) (now : Nat) (cache : Cache) (script : List ScriptStep) :
    (codeResolve cfg req now cache script).2.1 =
      (spec cfg codeBackoff ConstsC16.clipSleep ConstsC16.maxChain req now cache script).1 :=
  (resolve_eq_spec cfg codeBackoff ConstsC16.clipSleep ConstsC16.maxChain req now cache script
    backoff_wellformed.1 backoff_wellformed.2.1 backoff_wellformed.2.2).1

/-- "the first acceptable answer": as soon as a query's outcome is a NOERROR response that survives validation,
`query_result` ends the resolution with that answer (or `NoAnswer`); it never goes on to another server. -/
theorem first_acceptable_answer_ends (env : Env) (st : St) (ns : Server) (out : Outcome) (a : Answer)
    (h : acceptable env st ns out a) :
    (∃ d st', queryResult env st ns out = .ret (some a) d st' ∧ (a.hasRRset = true ∨ env.raiseOnNoAnswer = false)) ∨
    (∃ st', queryResult env st ns out = .raise .noAnswer st' ∧ a.hasRRset = false ∧ env.raiseOnNoAnswer = true) := by
  obtain ⟨r, rfl, h2, h3⟩ := h
  unfold queryResult
  simp only [h2, if_true, h3]
  cases h1 : a.hasRRset <;> cases h4 : env.raiseOnNoAnswer <;> simp

/-- "NXDOMAIN only if every candidate got NXDOMAIN": when the loop raises NXDOMAIN, the exception carries the whole
candidate list and *every* candidate name has NXDOMAIN evidence recorded in `nxdomain_responses` (a validated
NXDOMAIN response in this resolution, or a cached one — the only two places that record, see
`nxdomain_evidence_sources`). -/
theorem nxdomain_only_if_all (env : Env) (cache : Cache) (script : List ScriptStep) (qs rs : List Name)
    (h : (loopResult env cache script).2.1 = .nxdomain qs rs) :
    qs = env.qnamesToTry ∧ ∀ q ∈ env.qnamesToTry, covered rs q := by
  have hp := run_post env (InvN env) (fun _ r _ => PostN env r)
    (fun st evs st' hi hs => (step_nx env st hi).1 evs st' hs)
    (fun st evs r st' hi hs _ => (step_nx env st hi).2 evs r st' hs)
    (fuelBound env.bo env.cfg.servers.length env.qnamesToTry.length env.lifetime)
    (initSt env.start cache script env.qnamesToTry) []
    ⟨[], by simp [pending, initSt], by simp⟩
  rcases hp with hp | hp
  · unfold loopResult at h; rw [h] at hp; cases hp
  · exact hp qs rs h

/-- "NXDOMAIN only if every candidate got NXDOMAIN", traced to its sources: when the loop raises NXDOMAIN, for *every*
candidate name either some query of this resolution for that name (up to ASCII case) was answered with an NXDOMAIN
response that survives validation, or the cache *the resolution started with* holds an NXDOMAIN entry under
`(name, ANY, class)` — entries put during the resolution are themselves traced to such a response. -/
theorem nxdomain_evidence_traced (env : Env) (cache : Cache) (script : List ScriptStep) (qs rs : List Name)
    (h : (loopResult env cache script).2.1 = .nxdomain qs rs) :
    ∀ q ∈ env.qnamesToTry, Evid env cache (loopResult env cache script).1 q := by
  have hall := (nxdomain_only_if_all env cache script qs rs h).2
  have hp := run_post' env (InvE env cache) (fun evs r _ => PostE env cache evs r)
    (fun pre st evs st' hi hs => (step_evid env cache pre st hi).1 evs st' hs)
    (fun pre st evs r st' hi hs => (step_evid env cache pre st hi).2 evs r st' hs)
    (fuelBound env.bo env.cfg.servers.length env.qnamesToTry.length env.lifetime)
    (initSt env.start cache script env.qnamesToTry) []
    ⟨by simp [initSt], fun n t a h1 _ => Or.inl h1⟩
  unfold loopResult at h hall ⊢
  rcases hp with hp | hp
  · rw [h] at hp; cases hp
  · simp only [List.nil_append] at hp
    intro q hq
    have hc := hall q hq
    unfold covered at hc
    obtain ⟨m, hm, hmq⟩ := List.any_eq_true.mp hc
    exact Evid_sameName (hp qs rs h m hm) hmq

/-- `query_result` records NXDOMAIN evidence only for a response with rcode NXDOMAIN that survives `Answer()`
validation, and then for the current candidate. -/
theorem nxdomain_evidence_sources (env : Env) (st : St) (ns : Server) (out : Outcome) :
    (queryResult env st ns out).st.nxNames = st.nxNames ∨
    (∃ r c, out = .resp r ∧ r.rcode = rcNXDOMAIN ∧
      resolveChaining env.maxChain r st.qname env.rdclass env.rdtype = .ok c ∧
      (queryResult env st ns out).st.nxNames = recordNx st.nxNames st.qname) := by
  unfold queryResult
  repeat' split
  all_goals simp_all [QR.st, removeNs, mkAnswer]
  all_goals
    generalize resolveChaining env.maxChain _ st.qname env.rdclass env.rdtype = rc at *
    cases rc <;> simp_all

/-! ## servers -/

/-- "a broken server is never asked again within the resolution" — per candidate name, the code rebuilding the
server list for each candidate (reading recorded in DESIGN §7): in the event list of any resolution over distinct
nameservers, after a query to `s` whose outcome proves it broken (`provesBroken`), no later query goes to `s` until the
next candidate name is started. -/
theorem broken_never_reasked (env : Env) (cache : Cache) (script : List ScriptStep)
    (hnodup : env.cfg.servers.Nodup)
    (pre mid post : List Event) (q q' : Name) (s s' : Server) (tcp tcp' : Bool) (t t' : Nat) (out out' : Outcome)
    (hev : (loopResult env cache script).1 = pre ++ .query q s tcp t out :: (mid ++ .query q' s' tcp' t' out' :: post))
    (hb : provesBroken env q tcp out = true) (hmid : ∀ e ∈ mid, isCandidate e = false) : s' ≠ s := by
  obtain ⟨m', hm⟩ := run_mon env hnodup
    (fuelBound env.bo env.cfg.servers.length env.qnamesToTry.length env.lifetime)
    (initSt env.start cache script env.qnamesToTry) { broken := [], pending := none } (by simp [Rel, initSt])
  unfold loopResult at hev
  rw [hev] at hm
  exact mon_broken_not_reasked hm hb hmid

/-- "all-nameservers-failed": `NoNameservers` is raised *exactly when* every configured nameserver has proved broken
for the candidate name in progress.  `brokenAfter env [] evs` is the list of servers with a `provesBroken` outcome since
the last candidate was started (`mem_brokenAfter` spells that out); over distinct, at least one, nameservers the result
is `NoNameservers` iff that list covers the configuration. -/
theorem no_nameservers_iff_all_broken (env : Env) (cache : Cache) (script : List ScriptStep)
    (hnodup : env.cfg.servers.Nodup)
    (hpos : 0 < env.bo.init) (hcap : env.bo.init ≤ env.bo.cap) (hfac : 1 ≤ env.bo.factor) :
    ((loopResult env cache script).2.1 = .noNameservers →
      ∀ s ∈ env.cfg.servers, ∃ pre q tcp t out post,
        (loopResult env cache script).1 = pre ++ .query q s tcp t out :: post ∧
        provesBroken env q tcp out = true ∧ ∀ e ∈ post, isCandidate e = false) ∧
    (env.cfg.servers ≠ [] → (∀ s ∈ env.cfg.servers, s ∈ brokenAfter env [] (loopResult env cache script).1) →
      (loopResult env cache script).2.1 = .noNameservers) := by
  have ht := (terminates_within_lifetime env cache script hpos hcap hfac).1
  have hp := run_post' env (InvNoNs env) (fun evs r _ => PostNoNs env evs r)
    (fun pre st evs st' hi hs => (step_noNs env hnodup pre st hi).1 evs st' hs)
    (fun pre st evs r st' hi hs => (step_noNs env hnodup pre st hi).2 evs r st' hs)
    (fuelBound env.bo env.cfg.servers.length env.qnamesToTry.length env.lifetime)
    (initSt env.start cache script env.qnamesToTry) []
    ⟨m0, by simp [monAll], by simp [Rel, initSt, m0], by
      simp only [Cov, initSt, m0]
      intro hne
      cases hsv : env.cfg.servers with
      | nil => exact absurd hsv hne
      | cons s rest => exact ⟨s, by simp, by simp⟩⟩
  unfold loopResult at ht ⊢
  rcases hp with hp | hp
  · exact absurd hp ht
  · simp only [List.nil_append] at hp
    refine ⟨?_, hp.2⟩
    intro hr s hs
    rcases mem_brokenAfter env _ [] s (hp.1 hr s hs) with ⟨h1, _⟩ | h
    · cases h1
    · exact h

/-- "a truncated UDP reply is retried once over TCP on the same server": in the event list of any resolution, the
event right after a UDP query that ended in `Truncated` — if the lifetime allows one — is a TCP query to the same
server (no sleep, no other server in between); a TCP query that is truncated in turn proves the server broken
(`provesBroken … true (.exc .truncated) = true`), so by `broken_never_reasked` it is not retried again. -/
theorem truncation_one_tcp_retry_same_server (env : Env) (cache : Cache) (script : List ScriptStep)
    (hnodup : env.cfg.servers.Nodup) (pre post : List Event) (q : Name) (s : Server) (t : Nat) (e : Event)
    (hev : (loopResult env cache script).1 = pre ++ .query q s false t (.exc .truncated) :: e :: post) :
    (∃ q' t' out', e = .query q' s true t' out') ∧ provesBroken env q true (.exc .truncated) = true := by
  obtain ⟨m', hm⟩ := run_mon env hnodup
    (fuelBound env.bo env.cfg.servers.length env.qnamesToTry.length env.lifetime)
    (initSt env.start cache script env.qnamesToTry) { broken := [], pending := none } (by simp [Rel, initSt])
  unfold loopResult at hev
  rw [hev] at hm
  exact ⟨mon_trunc_retry hm, rfl⟩

/-- the whole monitor (`monStep`): besides the two clauses above, TCP is used only when the caller asked for it, the
nameserver always uses maximum-size transport, or as the retry after truncation; and no back-off sleep separates a
truncated reply from its retry. -/
theorem trace_accepted (env : Env) (cache : Cache) (script : List ScriptStep) (hnodup : env.cfg.servers.Nodup) :
    ∃ m', monAll env { broken := [], pending := none } (loopResult env cache script).1 = some m' :=
  run_mon env hnodup _ _ _ (by simp [Rel, initSt])

/-- "results are cached under the queried name, type and class": one `query_result` call touches the cache at most
under `(candidate, type, class)` (an answer) or `(candidate, ANY, class)` (an NXDOMAIN), never when the resolver has
no cache; an answer it returns is then readable under `(candidate, type, class)` until it expires. -/
theorem cache_touch_exact (env : Env) (st : St) (ns : Server) (out : Outcome) :
    (∀ k' t, k' ≠ mkKey st.qname env.rdtype env.rdclass → k' ≠ mkKey st.qname tyANY env.rdclass →
        cacheGet (queryResult env st ns out).st.cache k' t = cacheGet st.cache k' t) ∧
    (env.cfg.cacheOn = false → (queryResult env st ns out).st.cache = st.cache) ∧
    (∀ a d st', queryResult env st ns out = .ret (some a) d st' → env.cfg.cacheOn = true →
        ∀ t, cacheGet st'.cache (mkKey st.qname env.rdtype env.rdclass) t = if a.expiration ≤ t then none else some a) :=
  ⟨(queryResult_cache env st ns out).1, (queryResult_cache env st ns out).2,
   fun a d st' h => (queryResult_class.1 a d st' h).2.2⟩

/-- the same over a whole resolution: whatever the script, the final cache agrees with the initial one on every key
that is not `(candidate, type, class)` or `(candidate, ANY, class)` for a candidate name of this resolution. -/
theorem cache_only_candidate_keys (env : Env) (cache : Cache) (script : List ScriptStep) :
    (loopResult env cache script).2.1 = .outOfFuel ∨
    ∀ k t, foreignKey env k → cacheGet (loopResult env cache script).2.2.cache k t = cacheGet cache k t := by
  have h := run_post env (InvK env cache) (fun _ _ st' => CacheAgree env cache st'.cache)
    (fun st evs st' hi hs => (step_cache env cache st hi).1 evs st' hs)
    (fun st evs r st' hi hs _ => (step_cache env cache st hi).2 evs r st' hs)
    (fuelBound env.bo env.cfg.servers.length env.qnamesToTry.length env.lifetime)
    (initSt env.start cache script env.qnamesToTry) []
    ⟨by simp [initSt], by simp [initSt], fun _ _ _ => rfl⟩
  exact h

/-- `_compute_timeout`: a query is only issued while the lifetime has not expired, and its timeout is the smaller of
what is left of the lifetime and the per-query timeout (so a nameserver that honours it cannot overrun the lifetime). -/
theorem query_timeout_budget (env : Env) (now t : Nat) (h : computeTimeout env now = some t) :
    now - env.start < env.lifetime ∧ t = min (env.lifetime - (now - env.start)) env.cfg.timeout ∧
    (env.start ≤ now → now + t ≤ env.start + env.lifetime) := by
  unfold computeTimeout at h
  simp only at h
  split at h
  · cases h
  · cases h
    refine ⟨by omega, rfl, ?_⟩
    intro _
    rw [Nat.min_def]; split <;> omega

/-- `_compute_timeout` on a clock that may run backwards (`computeTimeoutZ`, tied to the code by the stand-alone
`c16.timeout` stream): a step back of more than a second gives up, a smaller one counts as no time elapsed, and on a clock
that did not run backwards it is the `computeTimeout` the resolution theorems are about. -/
theorem compute_timeout_any_clock (env : Env) (start now : Int) :
    (now - start < -1000 → computeTimeoutZ env.lifetime env.cfg.timeout start now = none) ∧
    (-1000 ≤ now - start → now - start < 0 →
        computeTimeoutZ env.lifetime env.cfg.timeout start now =
          if env.lifetime = 0 then none else some (min env.lifetime env.cfg.timeout)) ∧
    (∀ n : Nat, env.start ≤ n →
        computeTimeoutZ env.lifetime env.cfg.timeout (env.start : Int) (n : Int) = computeTimeout env n) := by
  refine ⟨?_, ?_, ?_⟩
  · intro h
    have h0 : now - start < 0 := by omega
    simp [computeTimeoutZ, h0, h]
  · intro h1 h2
    have h3 : ¬ (now - start < -1000) := by omega
    simp [computeTimeoutZ, h2, h3]
  · intro n hn
    have h0 : ¬ ((n : Int) - (env.start : Int) < 0) := by omega
    have hd : ((n : Int) - (env.start : Int)).toNat = n - env.start := by omega
    unfold computeTimeoutZ computeTimeout
    simp only [h0, if_false, hd]
    by_cases hge : n - env.start ≥ env.lifetime
    · have : (n : Int) - (env.start : Int) ≥ (env.lifetime : Int) := by omega
      simp [hge, this]
    · have : ¬ ((n : Int) - (env.start : Int) ≥ (env.lifetime : Int)) := by omega
      simp [hge, this]

/-- `next_nameserver`: "retry_with_tcp, round re-arming, back-off doubling" — the pending TCP retry goes to the same
server with no back-off; otherwise the next server of the round is taken; when the round is exhausted and servers
remain, the round is re-armed with all remaining servers, the current back-off is slept and then multiplied (capped);
with no server left the resolution fails with `NoNameservers`. -/
theorem next_nameserver_schedule (env : Env) (st : St) :
    (∀ ns tcp b st1, nextNameserver env st = .ok ns tcp b st1 →
      st1.nameservers = st.nameservers ∧ st1.retryWithTcp = false ∧ st1.tcpAttempt = tcp ∧ st1.nameserver = some ns ∧
      ((st.retryWithTcp = true ∧ st.nameserver = some ns ∧ tcp = true ∧ b = 0 ∧ st1.current = st.current ∧
          st1.backoff = st.backoff) ∨
       (st.retryWithTcp = false ∧ st.current = ns :: st1.current ∧ b = 0 ∧ st1.backoff = st.backoff ∧
          tcp = (env.tcp || ns.alwaysMax)) ∨
       (st.retryWithTcp = false ∧ st.current = [] ∧ st.nameservers = ns :: st1.current ∧ b = st.backoff ∧
          st1.backoff = min (st.backoff * env.bo.factor) env.bo.cap ∧ tcp = (env.tcp || ns.alwaysMax)))) ∧
    (st.retryWithTcp = false → st.current = [] → st.nameservers = [] → nextNameserver env st = .raise .noNameservers) := by
  refine ⟨?_, ?_⟩
  · intro ns tcp b st1 h
    obtain ⟨⟨_, _, _, _, g5, _⟩, r1, r2, r3, hc⟩ := nextNameserver_ok h
    exact ⟨g5, r1, r2, r3, hc⟩
  · intro h1 h2 h3
    simp [nextNameserver, h1, h2, h3]

/-! ## composite entry points -/

/-- `Resolver.resolve_name` of the working tree (constants regenerated from the code) -/
def codeResolveName (cfg : Config) (rq : NameReq) (now : Nat) (cache : Cache) (script : List ScriptStep) :
    List Event × NameResult × Final :=
  resolveName cfg codeBackoff ConstsC16.clipSleep ConstsC16.maxChain rq now cache script

theorem budget_le {life timeout start now l : Nat} (h : budget life timeout start now = some l) :
    now - start < life ∧ l ≤ life - (now - start) := by
  unfold budget at h
  split at h
  · cases h
  · cases h
    refine ⟨by omega, ?_⟩
    rw [Nat.min_def]; split <;> omega

/-- "terminates within its lifetime" at the `resolve_name` entry point: the one or two lookups a host-name resolution
is made of share one deadline — for every family, configuration, cache and script the call returns or raises no
later than `lifetime` after it began (the A lookup only gets what the AAAA lookup left over). -/
theorem resolve_name_within_lifetime (cfg : Config) (rq : NameReq) (now : Nat) (cache : Cache)
    (script : List ScriptStep) :
    (codeResolveName cfg rq now cache script).2.2.now ≤ now + rq.lifetime.getD cfg.lifetime := by
  unfold codeResolveName resolveName
  cases hf : rq.family with
  | inet =>
    have h := ends_within_lifetime cfg (subReq rq rq.qname tyA rq.raiseOnNoAnswer rq.lifetime) now cache script
    simpa [codeResolve, subReq, finalOf] using h
  | inet6 =>
    have h := ends_within_lifetime cfg (subReq rq rq.qname tyAAAA rq.raiseOnNoAnswer rq.lifetime) now cache script
    simpa [codeResolve, subReq, finalOf] using h
  | unspec =>
    simp only
    cases hb1 : budget (rq.lifetime.getD cfg.lifetime) cfg.timeout now now with
    | none => simp
    | some l1 =>
      obtain ⟨_, hl1⟩ := budget_le hb1
      have h1 := ends_within_lifetime cfg (subReq rq rq.qname tyAAAA false (some l1)) now cache script
      simp only [codeResolve, subReq, Option.getD_some] at h1
      simp only [subReq]
      generalize resolve cfg codeBackoff ConstsC16.clipSleep ConstsC16.maxChain
        { qname := rq.qname, rdtype := tyAAAA, rdclass := clsIN, tcp := rq.tcp, raiseOnNoAnswer := false,
          search := rq.search, lifetime := some l1 } now cache script = r1 at h1 ⊢
      cases hr1 : r1.2.1 with
      | answer v6 =>
        simp only
        cases hb2 : budget (rq.lifetime.getD cfg.lifetime) cfg.timeout now r1.2.2.now with
        | none => simp only [finalOf]; omega
        | some l2 =>
          obtain ⟨_, hl2⟩ := budget_le hb2
          have h2 := ends_within_lifetime cfg (subReq rq v6.qname tyA false (some l2)) r1.2.2.now r1.2.2.cache
            r1.2.2.script
          simp only [codeResolve, subReq, Option.getD_some] at h2
          simp only [finalOf]
          omega
      | nxdomain a b => simp only [finalOf]; omega
      | noAnswer => simp only [finalOf]; omega
      | yxdomain => simp only [finalOf]; omega
      | noNameservers => simp only [finalOf]; omega
      | lifetimeTimeout => simp only [finalOf]; omega
      | nameError e => simp only [finalOf]; omega
      | noMetaqueries => simp only [finalOf]; omega
      | outOfFuel => simp only [finalOf]; omega

/-- non-vacuity (the scenario of seeded change C16-g): lifetime 4 s, the AAAA lookup gets no data after 3 s, nobody
answers the A lookup — its one query is given the remaining second and the call ends at 4 s with `LifetimeTimeout` -/
example :
    let cfg : Config := { servers := [⟨0, false⟩], search := [], domain := none, ndots := none,
                          useSearchByDefault := false, timeout := 4000, lifetime := 4000, retryServfail := false,
                          cacheOn := false }
    let rq : NameReq := { qname := [[97], []], family := .unspec, tcp := false, raiseOnNoAnswer := true,
                          search := none, lifetime := none }
    let nodata : Resp := { rcode := 0, qr := true, qcount := 1, answer := [], authority := [] }
    let r := codeResolveName cfg rq 0 [] [⟨.resp nodata, 3000⟩]
    r.2.1 = .raised .lifetimeTimeout ∧ r.2.2.now = 4000 ∧
    r.1 = [.candidate [[97], []], .query [[97], []] ⟨0, false⟩ false 4000 (.resp nodata),
           .candidate [[97], []], .query [[97], []] ⟨0, false⟩ false 1000 (.exc .timeout), .sleep 0] := by
  decide

/-! ## the asyncio resolver -/

/-- "The synchronous and asynchronous resolvers take identical decisions": `resolveAsync` (`Model/ResolverAsync.lean`)
models `dns.asyncresolver.Resolver.resolve` as a coroutine — the loop body cut at its two suspension points
(`await backend.sleep`, `await nameserver.async_query`), with its own clipping of the back-off sleep and its own
`if backoff:` guard, resumed by an event loop — and sharing `_Resolution` with the synchronous resolver as the source
does.  Driven by a loop whose timers fire on time (the harness's virtual-time loop), it produces for every
configuration, request, clock, cache and script exactly the synchronous resolver's event sequence (every query with its
server, transport and timeout, every sleep), result and final state.  (That the coroutine model is
`asyncresolver.py` is the tie: identical traces on every generated script and the run-time comparison of the two loop
bodies.) -/
theorem async_eq_sync (cfg : Config) (bo : Backoff) (clip : Bool) (maxChain : Nat) (req : Request) (now : Nat)
    (cache : Cache) (script : List ScriptStep) :
    resolveAsync exactLoop cfg bo clip maxChain req now cache script =
      resolve cfg bo clip maxChain req now cache script := by
  unfold resolveAsync resolve
  by_cases hmeta : (isMetatype req.rdtype || isMetaclass req.rdclass) = true
  · simp only [hmeta, if_true]
  · simp only [hmeta, Bool.false_eq_true, if_false]
    cases getQnamesToTry cfg req.qname req.search with
    | error e => rfl
    | ok qnames => exact arun_eq_run _ _ _

/-- hence the asyncio resolver, too, computes the independent specification -/
theorem async_eq_spec (cfg : Config) (req : Request) (now : Nat) (cache : Cache) (script : List ScriptStep) :
    (resolveAsync exactLoop cfg codeBackoff ConstsC16.clipSleep ConstsC16.maxChain req now cache script).2.1 =
      (spec cfg codeBackoff ConstsC16.clipSleep ConstsC16.maxChain req now cache script).1 := by
  rw [async_eq_sync]
  exact codeResolve_eq_spec cfg req now cache script

/-- non-vacuity: the coroutine really suspends — a SERVFAIL round, a back-off sleep, a truncated UDP reply, its TCP
retry, an answer: two services per pass are needed and used -/
example :
    let cfg : Config := { servers := [⟨0, false⟩], search := [], domain := none, ndots := none,
                          useSearchByDefault := false, timeout := 2000, lifetime := 5000, retryServfail := true,
                          cacheOn := false }
    let req : Request := { qname := [[97], []], rdtype := 1, rdclass := 1, tcp := false, raiseOnNoAnswer := true,
                           search := none, lifetime := none }
    let sf : Resp := { rcode := 2, qr := true, qcount := 1, answer := [], authority := [] }
    let ok : Resp := { rcode := 0, qr := true, qcount := 1, answer := [⟨[[97], []], 1, 1, 60, []⟩], authority := [] }
    let r := resolveAsync exactLoop cfg codeBackoff true 16 req 0 []
      [⟨.resp sf, 5⟩, ⟨.exc .truncated, 3⟩, ⟨.resp ok, 7⟩]
    r.1.countP isQuery = 3 ∧ r.2.2.now = 115 ∧
    (match r.2.1 with | .answer a => decide (a.minTtl = 60 ∧ a.server = some 0) | _ => false) = true := by
  decide

/-! ## non-vacuity of the run-level theorems -/

/-- a resolution with a truncated UDP reply, a TCP retry that fails, a second server answering through a CNAME -/
example :
    let cfg : Config := { servers := [⟨0, false⟩, ⟨1, false⟩], search := [[[99], []]], domain := none, ndots := none,
                          useSearchByDefault := true, timeout := 2000, lifetime := 5000, retryServfail := false,
                          cacheOn := true }
    let req : Request := { qname := [[97]], rdtype := 1, rdclass := 1, tcp := false, raiseOnNoAnswer := true,
                           search := none, lifetime := none }
    let nx : Resp := { rcode := 3, qr := true, qcount := 1, answer := [], authority := [] }
    let ok : Resp := { rcode := 0, qr := true, qcount := 1,
                       answer := [⟨[[97], []], 1, 5, 30, [[98], []]⟩, ⟨[[98], []], 1, 1, 60, []⟩], authority := [] }
    let r := resolve cfg codeBackoff false ConstsC16.maxChain req 0 []
      [⟨.resp nx, 5⟩, ⟨.exc .truncated, 3⟩, ⟨.exc .os, 2⟩, ⟨.resp ok, 7⟩]
    r.1.countP isQuery = 4 ∧ cfg.servers.Nodup ∧
    (match r.2.1 with
     | .answer a => decide (a.canonical = [[98], []] ∧ a.minTtl = 30 ∧ a.server = some 1)
     | _ => false) = true := by
  decide

end C16

import Model.Render
import Model.Message
import Proofs.MessageHdr
import Proofs.MessageCounts
/-!
# C03 — messages survive render-then-parse unchanged; compression is sound

Theorems of record about `Model/Render.lean` (`dns/renderer.py`, `Rdataset.to_wire`, `Message.to_wire`) and
`Model/Message.lean` (`_WireReader.read`).  Type codes, the TC bit, section numbers, the set of types whose RDATA
names are compressed etc. are regenerated from the working tree on every run (`ConstsC03`).
-/
namespace C03
open Model

/-- "the header counts equal the records present": an (untruncated) rendering writes, in its twelve header
octets, the id, the flags and per section exactly the number of records it rendered — one per question,
`max 1 (number of rdatas)` per record set (an empty set is one class/type-only record), plus one for the OPT
and one for the TSIG record in ADDITIONAL.  These are the numbers `Message.section_count` reports.
(For a truncated rendering the same holds of the message cut to its kept prefix, `C08.truncation_prefix`.) -/
theorem counts_exact (m : Message) (lim : Nat) (w : Bytes) (h : m.toWire lim false = .ok w) :
    w.take 12 = u16 m.id ++ u16 m.flags ++ u16 m.q.length ++ u16 (rrCount m.an) ++ u16 (rrCount m.au)
      ++ u16 (rrCount m.ad + (if m.opt.isSome then 1 else 0) + (if m.tsig.isSome then 1 else 0)) := by
  unfold Message.toWire at h
  cases hr : m.render lim false with
  | error e => rw [hr] at h; simp at h
  | ok r =>
    rw [hr] at h
    simp at h; subst h
    exact (render_counts m lim r hr).2

/-- … and they agree with `Message.section_count` whenever the question entries carry no rdata (as every
question the library builds) -/
theorem counts_are_section_counts (m : Message) (hq : ∀ r ∈ m.q, r.rdatas = []) :
    m.sectionCounts = (m.q.length, rrCount m.an, rrCount m.au,
      rrCount m.ad + (if m.opt.isSome then 1 else 0) + (if m.tsig.isSome then 1 else 0)) := by
  have key : ∀ l : List RRset, (∀ r ∈ l, r.rdatas = []) → rrCount l = l.length := by
    intro l
    induction l with
    | nil => intro _; rfl
    | cons r rest ih =>
      intro hl
      have h1 := hl r (by simp)
      have h2 := ih (fun x hx => hl x (by simp [hx]))
      simp only [rrCount, List.map_cons, List.sum_cons, List.length_cons] at h2 ⊢
      rw [h2, h1]; simp; omega
  simp [Message.sectionCounts, key m.q hq]

/-- "the same … rcode incl. extended": splitting an rcode over the header nibble and the top octet of the OPT
ttl (`rcode.to_flags`) and joining it again (`rcode.from_flags`) is the identity on 0..4095; the two parts do not
overlap any other header or EDNS bit; `to_flags` refuses everything above 4095. -/
theorem rcode_roundtrip (v : Nat) :
    (v ≤ 4095 → ∃ a b, rcodeToFlags v = some (a, b) ∧ rcodeFromFlags a b = v ∧ a < 16 ∧ b % 16777216 = 0 ∧ b < 4294967296) ∧
    (v > 4095 → rcodeToFlags v = none) := by
  constructor
  · intro h
    have hv : ¬ v > 4095 := by omega
    obtain ⟨h1, h2, h3, h4⟩ := rcode_table v (by omega)
    exact ⟨_, _, by simp [rcodeToFlags, hv], h1, h2, h3, h4⟩
  · intro h; simp [rcodeToFlags, h]

/-- "the same … opcode": `opcode.to_flags` / `opcode.from_flags` are inverse on the sixteen opcodes and touch only
the opcode bits -/
theorem opcode_roundtrip (v : Nat) (h : v < 16) :
    opcodeFromFlags (opcodeToFlags v) = v ∧ opcodeToFlags v &&& 0x87FF = 0 :=
  opcode_table v h

end C03

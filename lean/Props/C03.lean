import Model.Render
import Model.Message
import Proofs.MessageHdr
import Proofs.MessageCounts
import Proofs.MessageCompress
import Proofs.ParseMessageOpt
import Proofs.ParseTsig
import Proofs.ParseUpdate
import Proofs.RenderExact
import Proofs.ParseUpdateFull
import Proofs.ParsePad
import Proofs.OriginRoundTrip
import Proofs.ParseExtend
/-!
# C03 — messages survive render-then-parse unchanged; compression is sound

Theorems of record about `Model/Render.lean` (`dns/renderer.py`, `Rdataset.to_wire`, `Message.to_wire`) and
`Model/Message.lean` (`_WireReader.read`).  Type codes, the TC bit, section numbers, the set of types whose RDATA
names are compressed etc. are regenerated from the working tree on every run (`ConstsC03`).
-/
namespace C03
open Model

/-- "the header counts equal the records present": an (untruncated) rendering writes, in its twelve header
octets, the id, the flags and per section exactly the number of records it rendered — one per question,
`max 1 (number of rdatas)` per record set (an empty set is one class/type-only record), plus one for the OPT
and one for the TSIG record in ADDITIONAL.  These are the numbers `Message.section_count` reports.
(For a truncated rendering the same holds of the message cut to its kept prefix, `C08.truncation_prefix`.) -/
theorem counts_exact (m : Message) (lim : Nat) (w : Bytes) (h : m.toWire lim false = .ok w) :
    w.take 12 = u16 m.id ++ u16 m.flags ++ u16 m.q.length ++ u16 (rrCount m.an) ++ u16 (rrCount m.au)
      ++ u16 (rrCount m.ad + (if m.opt.isSome then 1 else 0) + (if m.tsig.isSome then 1 else 0)) := by
  unfold Message.toWire at h
  cases hr : m.render lim false with
  | error e => rw [hr] at h; simp at h
  | ok r =>
    rw [hr] at h
    simp at h; subst h
    exact (render_counts m lim r hr).2

/-- … and they agree with `Message.section_count` whenever the question entries carry no rdata (as every
question the library builds) -/
theorem counts_are_section_counts (m : Message) (hq : ∀ r ∈ m.q, r.rdatas = []) :
    m.sectionCounts = (m.q.length, rrCount m.an, rrCount m.au,
      rrCount m.ad + (if m.opt.isSome then 1 else 0) + (if m.tsig.isSome then 1 else 0)) := by
  have key : ∀ l : List RRset, (∀ r ∈ l, r.rdatas = []) → rrCount l = l.length := by
    intro l
    induction l with
    | nil => intro _; rfl
    | cons r rest ih =>
      intro hl
      have h1 := hl r (by simp)
      have h2 := ih (fun x hx => hl x (by simp [hx]))
      simp only [rrCount, List.map_cons, List.sum_cons, List.length_cons] at h2 ⊢
      rw [h2, h1]; simp; omega
  simp [Message.sectionCounts, key m.q hq]

/-- "Every compression pointer the renderer emits targets an earlier occurrence of exactly that name suffix":
the renderer emits a pointer only for a hit in its compression table (`Name.to_wire`), so the clause is the
invariant that the table is *sound*.  For every message whose names are legal (`namesOk`: absolute — possibly
after appending the origin — and within the 63/255 limits), any limit, with or without truncation: in the
finished message `w`, every table entry `(suffix, off)` — every target any pointer of `w` can have — satisfies
`off ≤ 0x3FFF`, `off < |w|`, and running the library's own name decoder (`from_wire_parser`, i.e. `fromWireAux`)
at `off` succeeds, follows only strictly backward pointers (that is how `fromWireAux` is defined), and yields
exactly that suffix up to ASCII case (reading of DESIGN §6 "Case and compression"). -/
theorem compression_sound (m : Message) (lim : Nat) (pt : Bool) (r : RState) (hok : m.namesOk eqvSpec)
    (h : m.render lim pt = .ok r) :
    ∀ p ∈ r.tbl, p.2 ≤ Consts.maxPtr ∧ p.2 < r.out.length ∧
      ∃ n fwd, fromWireAux r.out r.out.length p.2 p.2 p.2 [] = .ok (n, fwd) ∧ lowerName n = lowerName p.1 := by
  intro p hp
  obtain ⟨hs, hb⟩ := render_sound m lim pt r hok h
  obtain ⟨hle, ls, fwd, hd, hr⟩ := hs p hp
  refine ⟨hle, hb p hp, ls ++ [[]], max p.2 fwd, ?_, hr⟩
  have := fromWireAux_of_Dec hd p.2 []
  simpa using this

/-- … and each name the renderer writes in a state whose table is sound (a) only appends to buffer and table,
(b) keeps the table sound, and (c) decodes, from the offset it was written at and following only pointers into
the earlier part of the buffer, to the name up to ASCII case — whatever the offset (also beyond 0x3FFF, where
nothing new is remembered).  By induction over the rendering this covers every pointer of the message. -/
theorem compression_sound_name (out : Bytes) (t : CTable) (n : Name) (origin : Option Name) (hok : NameOk eqvSpec origin n)
    (hs : TableSound NameEqv out t) :
    ∃ ext new full, toWireC out t n origin = .ok (out ++ ext, t ++ new) ∧ wireName n origin = some full ∧
      TableSound NameEqv (out ++ ext) (t ++ new) ∧
      ∃ got fwd, fromWireAux (out ++ ext) (out ++ ext).length out.length out.length out.length [] = .ok (got, fwd)
        ∧ fwd = (out ++ ext).length ∧ lowerName got = lowerName full := by
  obtain ⟨full, hw, hwf, habs, _⟩ := hok
  obtain ⟨h1, ls, hd, hr⟩ := cLoop_sound out t full hwf habs hs
  have hfw := hd.fwd_le
  refine ⟨(cLoop out.length t full).1, (cLoop out.length t full).2, full, ?_, hw, h1, ls ++ [[]],
    max out.length (out.length + (cLoop out.length t full).1.length), ?_, ?_, hr⟩
  · rw [toWireC_eq, hw]
  · have := fromWireAux_of_Dec hd out.length []
    simpa using this
  · simp

/-- non-vacuity of `compression_sound`: a response with a shared suffix and a case-differing repeat has legal names -/
example : ({ id := 1, flags := 32768, q := [{ name := [[119,119,119],[101,120],[]], rdclass := 1, rdtype := 2 }], an := [{ name := [[87,87,87],[69,88],[]], rdclass := 1, rdtype := 2, ttl := 5, rdatas := [.name1 [[110,115],[101,120],[]]] }] } : Message).namesOk eqvSpec := by
  refine ⟨?_, by intro t ht; simp at ht⟩
  intro it hit
  simp [Message.items] at hit
  rcases hit with rfl | rfl
  · exact ⟨_, rfl, by refine ⟨?_, ?_, ?_⟩ <;> decide, rfl, trivial⟩
  · refine ⟨⟨_, rfl, by refine ⟨?_, ?_, ?_⟩ <;> decide, rfl, trivial⟩, ?_⟩
    intro rd hrd
    simp at hrd; subst hrd
    exact ⟨_, rfl, by refine ⟨?_, ?_, ?_⟩ <;> decide, rfl, trivial⟩

/-- "Rendering any well-formed message … and parsing the bytes yields a message with the same id, flags,
opcode, rcode … and the same records in every section (equal to the original whenever it uses absolute names)".
Full statement: for every well-formed message `m` (any opcode incl. UPDATE, with OPT/TSIG, with or without
origin), `parseMessage cfg (m.toWire lim false) = .ok m'` with `m'` equal to `m` as the library compares messages.
Proved here (`MsgOkP`) for: absolute names (no origin), opcode other than UPDATE (for UPDATE see `update_forms`);
with or without the EDNS OPT record (any version/flags/extended-rcode bits in its ttl, any payload, any option list); with
or without a TSIG record (any key name — compressible or not —, algorithm name, time, fudge, MAC octets, original
id, error, other data; a key being available to the parser, MAC validation itself abstract); arbitrary id/flags (hence opcode and header rcode), any number of questions and of record sets per section, any
mix of opaque, NS/CNAME/PTR-, MX- and SOA-shaped RDATA, any owner-name sharing pattern — every name may be
compressed against any earlier one, at any offset.  The result is the original message up to the ASCII case of
names (`Message.sim`: the parser returns a compressed name in the case of the occurrence it was compressed
against — the library's own name equality; DESIGN §6 reading), all other fields identical, record sets in the
original order with their rdatas in the original order, the parser consuming exactly the whole message (no
`TrailingJunk`), with `one_rr_per_rrset=False` and any `ignore_trailing`.
The EDNS state (`Message.opt`: version, flags, extended rcode, payload, options) comes back identical, hence so
do `rcode()`, `edns`, `ednsflags`, `payload`, `options`.
The TSIG record comes back with its owner up to ASCII case and every other field identical.  When padding was
requested (`pad ≠ 0`) the parsed OPT carries the original options followed by one PADDING option of fewer than `pad`
zero octets (`OptPadRel`); otherwise it is the original OPT.
Relativisation against an origin (rendering/parsing with relative names) is `parse_render_origin` below. -/
theorem parse_render_partial (m : Message) (lim : Nat) (w : Bytes) (hok : MsgOkP eqvSpec m) (h : m.toWire lim false = .ok w)
    (cfg : PCfg) (horg : cfg.origin = none) (hnorr : cfg.oneRRPerRRset = false) (hkey : cfg.hasKey = true) :
    ∃ m' opt', parseMessage cfg w = .ok m' ∧ m'.simT eqvSpec { m with opt := opt' } ∧ OptPadRel m.pad m.opt opt' ∧
      m'.id = m.id ∧ m'.flags = m.flags ∧ m'.opcode = m.opcode ∧ m'.rcode = m.rcode ∧ m'.edns = m.edns ∧
      (m.pad = 0 → m'.opt = m.opt) := by
  obtain ⟨m', opt', hp, hs, hr⟩ := parse_toWire_pad m lim w hok h cfg horg hnorr hkey
  have ho : m'.opt = opt' := hs.2.2.2.2.2.2.1
  refine ⟨m', opt', hp, hs, hr, hs.1, hs.2.1, ?_, ?_, ?_, ?_⟩
  · simp [Message.opcode, hs.2.1]
  · simp only [Message.rcode, Message.ednsflags, hs.2.1, ho]
    cases hmo : m.opt with
    | none =>
      cases hop : opt' with
      | none => rfl
      | some o' => rw [hmo, hop] at hr; exact hr.elim
    | some o =>
      cases hop : opt' with
      | none => rw [hmo, hop] at hr; exact hr.elim
      | some o' =>
        rw [hmo, hop] at hr
        rcases hr with ⟨_, rfl⟩ | ⟨_, k, _, rfl⟩ <;> rfl
  · simp only [Message.edns, ho]
    cases hmo : m.opt with
    | none =>
      cases hop : opt' with
      | none => rfl
      | some o' => rw [hmo, hop] at hr; exact hr.elim
    | some o =>
      cases hop : opt' with
      | none => rw [hmo, hop] at hr; exact hr.elim
      | some o' =>
        rw [hmo, hop] at hr
        rcases hr with ⟨_, rfl⟩ | ⟨_, k, _, rfl⟩ <;> rfl
  · intro hpad
    rw [ho]
    cases hmo : m.opt with
    | none =>
      cases hop : opt' with
      | none => rfl
      | some o' => rw [hmo, hop] at hr; exact hr.elim
    | some o =>
      cases hop : opt' with
      | none => rw [hmo, hop] at hr; exact hr.elim
      | some o' =>
        rw [hmo, hop] at hr
        rcases hr with ⟨_, rfl⟩ | ⟨hne, _⟩
        · rfl
        · exact absurd hpad hne

/-- non-vacuity of `parse_render_partial`: a response with a question, an NS record set of two records whose
owner repeats the question name in another case and whose targets share its suffix, and an opaque A record set -/
example : MsgOkP eqvSpec { id := 7, flags := 33152, pad := 16, opt := some { ttl := 16809984, payload := 1232, options := [(10, [1,2,3,4,5,6,7,8])] }, tsig := some { name := [[107],[101,120],[]], alg := [[104,109,97,99],[]], time := 1700000000, fudge := 300, mac := [1,2,3,4], origId := 7, error := 0, other := [] }, q := [{ name := [[119,119,119],[101,120],[]], rdclass := 1, rdtype := 2 }], an := [{ name := [[87,87,87],[69,88],[]], rdclass := 1, rdtype := 2, ttl := 5, rdatas := [.name1 [[110,115],[101,120],[]], .name1 [[110,116],[101,120],[]]] }], ad := [{ name := [[110,115],[101,120],[]], rdclass := 1, rdtype := 1, ttl := 5, rdatas := [.raw [192,0,2,1]] }] } := by
  have wf : ∀ n : Name, n ∈ [[[119,119,119],[101,120],[]], [[87,87,87],[69,88],[]], [[110,115],[101,120],[]], [[110,116],[101,120],[]]] → NameOk eqvSpec none n := by
    intro n hn
    simp at hn
    rcases hn with rfl | rfl | rfl | rfl <;> exact ⟨_, rfl, by refine ⟨?_, ?_, ?_⟩ <;> decide, rfl, trivial⟩
  refine ⟨⟨rfl, by decide, by decide, by decide, ?_, rfl, ?_, ?_, ?_, ?_, ?_, ?_, ?_, ?_, by decide⟩, ?_⟩
  rotate_right
  · intro o ho; simp at ho; subst ho; decide
  · intro o ho; simp at ho; subst ho
    refine ⟨by decide, by decide, ?_, by decide, trivial⟩
    intro p hp; simp at hp; subst hp; exact ⟨by decide, by decide⟩
  · intro t ht; simp at ht; subst ht
    exact ⟨⟨_, rfl, by refine ⟨?_, ?_, ?_⟩ <;> decide, rfl, trivial⟩, by refine ⟨?_, ?_, ?_⟩ <;> decide, rfl, by decide, by decide,
      by decide, by decide, by decide, by decide, by decide⟩
  · intro r hr; simp at hr; subst hr
    exact ⟨wf _ (by simp), by decide, by decide, rfl, rfl, rfl, rfl⟩
  · intro r hr; simp at hr; subst hr
    refine ⟨wf _ (by simp), by decide, by decide, by decide, by decide, rfl, by simp, ?_, by decide, by decide⟩
    intro rd hrd; simp at hrd
    rcases hrd with rfl | rfl
    · exact ⟨wf _ (by simp), by decide, by decide⟩
    · exact ⟨wf _ (by simp), by decide, by decide⟩
  · intro r hr; simp at hr
  · intro r hr; simp at hr; subst hr
    refine ⟨wf _ (by simp), by decide, by decide, by decide, by decide, rfl, by simp, ?_, by decide, by decide⟩
    intro rd hrd; simp at hrd; subst hrd
    exact ⟨trivial, by decide, by decide⟩
  · simp
  · simp
  · simp

/-- Origins, parser side, for *every* octet string `w` (accepted or not, produced by the renderer or not):
`from_wire(w, origin=o)` is `from_wire(w)` followed by `relativize(o)` of the owner names and of the names inside the
RDATA of the four sections (`relF o`: cut `o` off when it is a suffix up to ASCII case, else keep the absolute name).
The owner names of the OPT and TSIG records and the TSIG algorithm name are *not* relativized (commit 4655a6b: the
root-owner check of OPT and the TSIG key lookup see the absolute name), the error raised is the same, and the section
index (`find_rrset`) and `Rdataset.add` merge exactly the same records, because relativisation is injective up to
ASCII case on the absolute legal names the wire decoder produces (`relF_lower_iff`). -/
theorem parse_origin_commutes (cfg : PCfg) (o : Name) (ho : isAbs o = true) (hc : cfg.origin = none) (w : Bytes) :
    parseMessage { cfg with origin := some o } w =
      match parseMessage cfg w with
      | .ok m => .ok { m.mapNames (relF o) with origin := some o }
      | .error e => .error e :=
  parseMessage_relF cfg o ho hc w

/-- Origins, renderer side, for every message, limit and mode: rendering with origin `o` produces exactly the octets
(or the error) of rendering, without origin, the message in which every relative name `n` of the four sections has been
replaced by `n + o` (`derelativize`); the OPT owner (root) and the TSIG owner (required absolute) never see the origin. -/
theorem render_origin_absolutize (m : Message) (o : Name) (hm : m.origin = some o) (ho : isAbs o = true) (lim : Nat)
    (pt : Bool) : m.toWire lim pt = (m.absolutize o).toWire lim pt :=
  (toWire_absolutize m o hm ho lim pt).symm

/-- "messages rendered with an origin / parsed with an origin: equal after relativisation".  `m` carries the absolute
origin `o` and may mix relative and absolute names; guard: the absolutized message is well formed in the sense of
`parse_render_partial` (`MsgOkP`: in particular every `n + o` is a legal name; OPT, padding, TSIG allowed; not an UPDATE —
for those see `update_forms_origin`).  Then parsing the rendering with the same origin succeeds, the parsed message
carries the origin, and it equals — up to the ASCII case of names, OPT up to the padding option, TSIG owner absolute as
rendered — the *relativisation* `m.relNorm o` of `m` (every name made absolute against `o`, then relativized against
`o`).  For a message all of whose names are normal (relative, or absolute and not at or below `o` — what `from_wire`,
`from_text` and `make_query` with that origin produce) `m.relNorm o` is `m` itself, so the round trip returns `m`. -/
theorem parse_render_origin (m : Message) (o : Name) (hm : m.origin = some o) (ho : isAbs o = true) (lim : Nat) (w : Bytes)
    (hok : MsgOkP eqvSpec (m.absolutize o)) (h : m.toWire lim false = .ok w)
    (cfg : PCfg) (horg : cfg.origin = none) (hnorr : cfg.oneRRPerRRset = false) (hkey : cfg.hasKey = true) :
    ∃ m' opt', parseMessage { cfg with origin := some o } w = .ok m' ∧ m'.origin = m.origin ∧
      m'.simT eqvSpec { m.relNorm o with opt := opt' } ∧ OptPadRel m.pad m.opt opt' ∧
      (m.Normal o → m'.simT eqvSpec { m with opt := opt' }) := by
  obtain ⟨m', opt', hp, horg', hs, hr⟩ := parse_toWire_origin m o hm ho lim w hok h cfg horg hnorr hkey
  refine ⟨m', opt', hp, by rw [horg', hm], hs, hr, ?_⟩
  intro hn
  rw [Message.relNorm_normal o ho m hn] at hs
  exact hs

/-- `update_forms` with an origin: the same for dynamic updates rendered and parsed with origin `o` -/
theorem update_forms_origin (m : Message) (o : Name) (hm : m.origin = some o) (ho : isAbs o = true) (zc lim : Nat)
    (w : Bytes) (hok : UMsgOkT eqvSpec ((m.absolutize o).canonUpdate zc)) (h : m.toWire lim false = .ok w)
    (cfg : PCfg) (horg : cfg.origin = none) (hkey : cfg.hasKey = true) :
    ∃ m', parseMessage { cfg with origin := some o } w = .ok m' ∧ m'.origin = some o ∧
      m'.simT eqvSpec (((m.absolutize o).canonUpdate zc).mapNames (relF o)) :=
  parse_toWire_update_origin m o hm ho zc lim w hok h cfg horg hkey

/-- non-vacuity of `parse_render_origin`: origin `ex.`; question `www` (relative), an NS record set at `WWW` (relative,
other case) with a relative target `ns` and an absolute one outside the origin (`ns.o.`), an A record at `ns`, an OPT
record with padding and a TSIG record whose (absolute) key name `k.ex.` lies below the origin: all names are normal and
the absolutized message is well formed -/
example : ∃ (m : Message) (o : Name), m.origin = some o ∧ isAbs o = true ∧ m.Normal o ∧ MsgOkP eqvSpec (m.absolutize o) := by
  refine ⟨{ id := 7, flags := 33152, origin := some [[101,120],[]], pad := 16, opt := some { ttl := 16809984, payload := 1232, options := [(10, [1,2,3,4,5,6,7,8])] }, tsig := some { name := [[107],[101,120],[]], alg := [[104,109,97,99],[]], time := 1700000000, fudge := 300, mac := [1,2,3,4], origId := 7, error := 0, other := [] }, q := [{ name := [[119,119,119]], rdclass := 1, rdtype := 2 }], an := [{ name := [[87,87,87]], rdclass := 1, rdtype := 2, ttl := 5, rdatas := [.name1 [[110,115]], .name1 [[110,115],[111],[]]] }], ad := [{ name := [[110,115]], rdclass := 1, rdtype := 1, ttl := 5, rdatas := [.raw [192,0,2,1]] }] },
    [[101,120],[]], rfl, rfl, ?_, ?_⟩
  · refine ⟨?_, ?_, ?_, ?_⟩
    · intro r hr; simp at hr; subst hr
      exact ⟨Or.inl rfl, by intro rd hrd; simp at hrd⟩
    · intro r hr; simp at hr; subst hr
      refine ⟨Or.inl rfl, ?_⟩
      intro rd hrd; simp at hrd
      rcases hrd with rfl | rfl
      · intro n hn; simp [RData.names] at hn; subst hn; exact Or.inl rfl
      · intro n hn; simp [RData.names] at hn; subst hn; exact Or.inr (by decide)
    · intro r hr; simp at hr
    · intro r hr; simp at hr; subst hr
      refine ⟨Or.inl rfl, ?_⟩
      intro rd hrd; simp at hrd; subst hrd
      intro n hn; simp [RData.names] at hn
  show MsgOkP eqvSpec { id := 7, flags := 33152, pad := 16, opt := some { ttl := 16809984, payload := 1232, options := [(10, [1,2,3,4,5,6,7,8])] }, tsig := some { name := [[107],[101,120],[]], alg := [[104,109,97,99],[]], time := 1700000000, fudge := 300, mac := [1,2,3,4], origId := 7, error := 0, other := [] }, q := [{ name := [[119,119,119],[101,120],[]], rdclass := 1, rdtype := 2 }], an := [{ name := [[87,87,87],[101,120],[]], rdclass := 1, rdtype := 2, ttl := 5, rdatas := [.name1 [[110,115],[101,120],[]], .name1 [[110,115],[111],[]]] }], ad := [{ name := [[110,115],[101,120],[]], rdclass := 1, rdtype := 1, ttl := 5, rdatas := [.raw [192,0,2,1]] }] }
  have wf : ∀ n : Name, n ∈ [[[119,119,119],[101,120],[]], [[87,87,87],[101,120],[]], [[110,115],[101,120],[]], [[110,115],[111],[]]] → NameOk eqvSpec none n := by
    intro n hn
    simp at hn
    rcases hn with rfl | rfl | rfl | rfl <;> exact ⟨_, rfl, by refine ⟨?_, ?_, ?_⟩ <;> decide, rfl, trivial⟩
  refine ⟨⟨rfl, by decide, by decide, by decide, ?_, rfl, ?_, ?_, ?_, ?_, ?_, ?_, ?_, ?_, by decide⟩, ?_⟩
  rotate_right
  · intro o ho; simp at ho; subst ho; decide
  · intro o ho; simp at ho; subst ho
    refine ⟨by decide, by decide, ?_, by decide, trivial⟩
    intro p hp; simp at hp; subst hp; exact ⟨by decide, by decide⟩
  · intro t ht; simp at ht; subst ht
    exact ⟨⟨_, rfl, by refine ⟨?_, ?_, ?_⟩ <;> decide, rfl, trivial⟩, by refine ⟨?_, ?_, ?_⟩ <;> decide, rfl, by decide, by decide,
      by decide, by decide, by decide, by decide, by decide⟩
  · intro r hr; simp at hr; subst hr
    exact ⟨wf _ (by simp), by decide, by decide, rfl, rfl, rfl, rfl⟩
  · intro r hr; simp at hr; subst hr
    refine ⟨wf _ (by simp), by decide, by decide, by decide, by decide, rfl, by simp, ?_, by decide, by decide⟩
    intro rd hrd; simp at hrd
    rcases hrd with rfl | rfl
    · exact ⟨wf _ (by simp), by decide, by decide⟩
    · exact ⟨wf _ (by simp), by decide, by decide⟩
  · intro r hr; simp at hr
  · intro r hr; simp at hr; subst hr
    refine ⟨wf _ (by simp), by decide, by decide, by decide, by decide, rfl, by simp, ?_, by decide, by decide⟩
    intro rd hrd; simp at hrd; subst hrd
    exact ⟨trivial, by decide, by decide⟩
  · simp
  · simp
  · simp

/-- Error class of one whole family of mutated wires, for *every* accepted octet string `w` (produced by the renderer or
not, any opcode, with or without origin, `one_rr_per_rrset`, TSIG…): appending octets to it gives exactly `TrailingJunk`
when `ignore_trailing=False`, and exactly the same message when `ignore_trailing=True`; and whatever was accepted with
either setting is accepted unchanged with `ignore_trailing=True`.  The reader never looks beyond the last record it
was told to read (name decoding, RDATA windows, option and TSIG field walks are all insensitive to what follows), and its
position never leaves the message. -/
theorem trailing_octets (cfg : PCfg) (w j : Bytes) (m : Message) (h : parseMessage cfg w = .ok m) :
    parseMessage { cfg with ignoreTrailing := true } (w ++ j) = .ok m ∧
    (cfg.ignoreTrailing = false → j ≠ [] → parseMessage cfg (w ++ j) = .error .trailingJunk) :=
  ⟨parseMessage_ignore_trailing cfg w j m h, (parseMessage_junk cfg w j m h).2⟩

/-- … in particular for renderings: a rendered well-formed message followed by junk is `TrailingJunk`, or — with
`ignore_trailing=True` — parses to the message `parse_render_partial` describes -/
theorem parse_render_trailing (m : Message) (lim : Nat) (w junk : Bytes) (hok : MsgOkP eqvSpec m) (h : m.toWire lim false = .ok w)
    (cfg : PCfg) (horg : cfg.origin = none) (hnorr : cfg.oneRRPerRRset = false) (hkey : cfg.hasKey = true) (hj : junk ≠ []) :
    parseMessage { cfg with ignoreTrailing := false } (w ++ junk) = .error .trailingJunk ∧
    ∃ m' opt', parseMessage { cfg with ignoreTrailing := true } (w ++ junk) = .ok m' ∧ m'.simT eqvSpec { m with opt := opt' } ∧
      OptPadRel m.pad m.opt opt' := by
  obtain ⟨m', opt', hp, hs, hr⟩ := parse_toWire_pad m lim w hok h { cfg with ignoreTrailing := false } horg hnorr hkey
  refine ⟨(parseMessage_junk _ w junk m' hp).2 rfl hj, m', opt', ?_, hs, hr⟩
  exact parseMessage_ignore_trailing { cfg with ignoreTrailing := false } w junk m' hp

-- non-vacuity: the empty message (twelve zero octets) is accepted; followed by one octet it is TrailingJunk, or accepted with ignore_trailing
example : parseMessage {} (List.replicate 12 0) = .ok { id := 0, flags := 0 } ∧
    parseMessage {} (List.replicate 12 0 ++ [7]) = .error .trailingJunk ∧
    parseMessage { ignoreTrailing := true } (List.replicate 12 0 ++ [7]) = .ok { id := 0, flags := 0 } := by
  refine ⟨rfl, rfl, rfl⟩

/-- "… (equal to the original whenever it uses absolute names)": *exact* form of `parse_render_partial`.  Guard, stated
precisely: the message is well formed as above and all its (absolute) names — owners, NS/CNAME/PTR/MX/SOA rdata names,
the TSIG owner — lie in a set `S` of names that contains the root, is closed under taking suffixes, and in which no two
members are equal only up to ASCII case (`CaseClosed S`, the message-wide `CaseConsistent` of DESIGN §6).  Then parsing
the rendering returns the message itself — every field of every record set identical, names byte for byte — except
that `request_payload`, which is not on the wire, is 0. -/
theorem parse_render_exact (S : Name → Prop) (hS : CaseClosed S) (m : Message) (lim : Nat) (w : Bytes)
    (hok : MsgOkT (exactSpec S hS) m) (h : m.toWire lim false = .ok w)
    (cfg : PCfg) (horg : cfg.origin = none) (hnorr : cfg.oneRRPerRRset = false) (hkey : cfg.hasKey = true) :
    parseMessage cfg w = .ok { m with requestPayload := 0 } :=
  parse_toWire_exact m lim w hok h cfg horg hnorr hkey

/-- "rendering the parsed message again without record shuffling reproduces the bytes exactly" — under the guard of
`parse_render_exact` (case-consistent names) and an explicit size limit (`max_size ≠ 0`; with `max_size = 0` the limit
would come from `request_payload`, which the parsed message does not carry): the parsed message renders, at the same
limit, to exactly the octets it was parsed from.
Without the guard the statement is still true of the implementation (the parser returns a compressed name in the case
of the occurrence it was compressed against, which is what is on the wire) and is covered by the correspondence check
and the direct oracle; the proof here goes through exactness of the round trip. -/
theorem render_parse_render (S : Name → Prop) (hS : CaseClosed S) (m : Message) (lim : Nat) (w : Bytes)
    (hok : MsgOkT (exactSpec S hS) m) (hlim : lim ≠ 0) (h : m.toWire lim false = .ok w)
    (cfg : PCfg) (horg : cfg.origin = none) (hnorr : cfg.oneRRPerRRset = false) (hkey : cfg.hasKey = true) :
    ∃ m', parseMessage cfg w = .ok m' ∧ m'.toWire lim false = .ok w := by
  refine ⟨_, parse_toWire_exact m lim w hok h cfg horg hnorr hkey, ?_⟩
  rw [toWire_requestPayload m lim false 0 hlim]
  exact h

/-- non-vacuity of `parse_render_exact` / `render_parse_render`: a response whose names share suffixes (so that they
are compressed) in one consistent spelling -/
example : ∃ (S : Name → Prop) (hS : CaseClosed S), MsgOkT (exactSpec S hS) { id := 7, flags := 33152, q := [{ name := [[119,119,119],[101,120],[]], rdclass := 1, rdtype := 2 }], an := [{ name := [[119,119,119],[101,120],[]], rdclass := 1, rdtype := 2, ttl := 5, rdatas := [.name1 [[110,115],[101,120],[]]] }] } := by
  refine ⟨fun x => x ∈ [[[119,119,119],[101,120],[]], [[110,115],[101,120],[]], [[101,120],[]], [[]]],
    caseClosed_of_list _ (by decide) (by decide) (by decide), ?_⟩
  have wf : ∀ n : Name, n ∈ [[[119,119,119],[101,120],[]], [[110,115],[101,120],[]]] →
      NameOk (exactSpec (fun x => x ∈ [[[119,119,119],[101,120],[]], [[110,115],[101,120],[]], [[101,120],[]], [[]]])
        (caseClosed_of_list _ (by decide) (by decide) (by decide))) none n := by
    intro n hn
    simp at hn
    rcases hn with rfl | rfl <;> exact ⟨_, rfl, by refine ⟨?_, ?_, ?_⟩ <;> decide, rfl, by show _ ∈ _; decide⟩
  refine ⟨rfl, by decide, by decide, by decide, by intro o ho; simp at ho, rfl, by intro t ht; simp at ht, ?_, ?_, ?_, ?_, ?_, ?_, ?_, by decide⟩
  · intro r hr; simp at hr; subst hr
    exact ⟨wf _ (by simp), by decide, by decide, rfl, rfl, rfl, rfl⟩
  · intro r hr; simp at hr; subst hr
    refine ⟨wf _ (by simp), by decide, by decide, by decide, by decide, rfl, by simp, ?_, by decide, by decide⟩
    intro rd hrd; simp at hrd; subst hrd
    exact ⟨wf _ (by simp), by decide, by decide⟩
  · intro r hr; simp at hr
  · intro r hr; simp at hr
  · simp
  · simp
  · simp

/-- "dynamic update with its delete/prerequisite forms" — `parse_render_partial` lifted to opcode UPDATE.  Guard
(`UMsgOkT` of the canonical form): one zone entry of type SOA and a non-meta class; every other record set, *after
canonicalisation*, is one of: an ordinary record (add, prerequisite with rdata), a delete-RR record (class NONE outside
the prerequisite section, rdata kept), or a class/type-only record with RDLENGTH 0 (delete-rrset / delete-name with
class ANY; the "present"/"absent" prerequisites with class ANY / NONE in the prerequisite section); one record per
record set; with or without OPT and TSIG, no padding, absolute names.  `canonUpdate zc` rewrites a record set whose
wire class is ANY/NONE into the parser's representation (class `zc` = the zone's class, `deleting` = ANY/NONE) and
leaves every other record set alone.  For *every* such message — whether its delete/prerequisite forms are in the
parser's representation or in the one the `UpdateMessage` API builds (`rdclass = ANY/NONE`: `present(name[,type])`,
`absent(name[,type])`, `delete(name)`) — parsing the rendering returns the canonical form, up to ASCII case of
compressed names.  The only update forms for which the parsed message is not the original (as Python objects) are
therefore exactly those with `canonUpdate m ≠ m`: the recorded finding
`C03/parse_render/library-eq/update-metaclass-form`. -/
theorem update_forms (m : Message) (zc lim : Nat) (w : Bytes) (hok : UMsgOkT eqvSpec (m.canonUpdate zc))
    (h : m.toWire lim false = .ok w) (cfg : PCfg) (horg : cfg.origin = none) (hkey : cfg.hasKey = true) :
    ∃ m', parseMessage cfg w = .ok m' ∧ m'.simT eqvSpec (m.canonUpdate zc) ∧ m'.opcode = ConstsC03.opUPDATE := by
  obtain ⟨m', hp, hs⟩ := parse_toWire_update_canon m zc lim w hok h cfg horg hkey
  refine ⟨m', hp, hs, ?_⟩
  have := hok.isUpd
  simp only [isUpdate, beq_iff_eq] at this
  have hf : (m.canonUpdate zc).flags = m.flags := rfl
  simp [Message.opcode, hs.2.1, hf] at this ⊢
  exact this

/-- … and a message already in the parser's representation (`UMsgOkT m` itself) is its own canonical form: it comes
back as itself. -/
theorem update_forms_canonical (m : Message) (lim : Nat) (w : Bytes) (hok : UMsgOkT eqvSpec m)
    (h : m.toWire lim false = .ok w) (cfg : PCfg) (horg : cfg.origin = none) (hkey : cfg.hasKey = true) :
    ∃ m', parseMessage cfg w = .ok m' ∧ m'.simT eqvSpec m :=
  parse_toWire_update_full m lim w hok h cfg horg hkey

/-- … the API's representation renders to exactly the same octets as the canonical one, whatever the limit and mode -/
theorem update_forms_api (m : Message) (zc lim : Nat) (pt : Bool) :
    (m.canonUpdate zc).toWire lim pt = m.toWire lim pt :=
  toWire_canonUpdate m zc lim pt

/-- non-vacuity of `update_forms`: zone `ex.` IN, prerequisite "name in use" (ANY ANY), an add, a delete-rrset,
a delete-rr -/
example : UMsgOkT eqvSpec { id := 9, flags := 10240, q := [{ name := [[101,120],[]], rdclass := 1, rdtype := 6 }], an := [{ name := [[97],[101,120],[]], rdclass := 1, rdtype := 255, deleting := some 255 }], au := [{ name := [[97],[101,120],[]], rdclass := 1, rdtype := 1, ttl := 300, rdatas := [.raw [10,0,0,1]] }, { name := [[98],[101,120],[]], rdclass := 1, rdtype := 1, deleting := some 255 }, { name := [[99],[101,120],[]], rdclass := 1, rdtype := 1, deleting := some 254, rdatas := [.raw [10,0,0,2]] }] } := by
  have wf : ∀ n : Name, n ∈ [[[101,120],[]], [[97],[101,120],[]], [[98],[101,120],[]], [[99],[101,120],[]]] → NameOk eqvSpec none n := by
    intro n hn
    simp at hn
    rcases hn with rfl | rfl | rfl | rfl <;> exact ⟨_, rfl, by refine ⟨?_, ?_, ?_⟩ <;> decide, rfl, trivial⟩
  refine ⟨rfl, by decide, by decide, by decide, by intro o ho; simp at ho, rfl, by intro t ht; simp at ht, ⟨_, rfl, ⟨wf _ (by simp), by decide, by decide, rfl, rfl, rfl, rfl⟩, by decide, by decide, ?_, ?_, ?_⟩, by decide⟩
  · intro r hr; simp at hr; subst hr
    exact ⟨wf _ (by simp), by decide, by decide, Or.inr ⟨rfl, rfl, rfl, rfl, Or.inl rfl⟩⟩
  · intro r hr; simp at hr
    rcases hr with rfl | rfl | rfl
    · exact ⟨wf _ (by simp), by decide, by decide, Or.inl ⟨_, rfl, trivial, by decide, by decide, by decide, Or.inl ⟨rfl, by decide, by decide, by decide⟩⟩⟩
    · exact ⟨wf _ (by simp), by decide, by decide, Or.inr ⟨rfl, rfl, rfl, rfl, Or.inl rfl⟩⟩
    · exact ⟨wf _ (by simp), by decide, by decide, Or.inl ⟨_, rfl, trivial, by decide, by decide, by decide, Or.inr ⟨rfl, rfl, by decide⟩⟩⟩
  · intro r hr; simp at hr

/-- "the same … rcode incl. extended": splitting an rcode over the header nibble and the top octet of the OPT
ttl (`rcode.to_flags`) and joining it again (`rcode.from_flags`) is the identity on 0..4095; the two parts do not
overlap any other header or EDNS bit; `to_flags` refuses everything above 4095. -/
theorem rcode_roundtrip (v : Nat) :
    (v ≤ 4095 → ∃ a b, rcodeToFlags v = some (a, b) ∧ rcodeFromFlags a b = v ∧ a < 16 ∧ b % 16777216 = 0 ∧ b < 4294967296) ∧
    (v > 4095 → rcodeToFlags v = none) := by
  constructor
  · intro h
    have hv : ¬ v > 4095 := by omega
    obtain ⟨h1, h2, h3, h4⟩ := rcode_table v (by omega)
    exact ⟨_, _, by simp [rcodeToFlags, hv], h1, h2, h3, h4⟩
  · intro h; simp [rcodeToFlags, h]

/-- "the same … opcode": `opcode.to_flags` / `opcode.from_flags` are inverse on the sixteen opcodes and touch only
the opcode bits -/
theorem opcode_roundtrip (v : Nat) (h : v < 16) :
    opcodeFromFlags (opcodeToFlags v) = v ∧ opcodeToFlags v &&& 0x87FF = 0 :=
  opcode_table v h

end C03

import Model.Parse
import Proofs.Parse
import Proofs.NameText
import Proofs.NameWire
import Proofs.ParseOffsets
import Proofs.WireParser
/-!
# C04 — untrusted wire or text input only ever raises the library's own errors

Every parser modelled here is a *total* Lean function into an error sum: termination is the
acceptance of the definitions by Lean (structural recursion for the text automata, the
lexicographic measure (pointer bound, bytes left) for compressed names).  The theorems below
state closure (what is returned is well formed and can be rendered again) and the
`continue_on_error` contract of the message reader.  The universal "no foreign exception type"
clause over every real entry point is carried by the outcome-class correspondence and oracle of
`harness/props/C04.py`.
-/
namespace C04
open Model

/-- a TTL accepted from text is in range -/
theorem ttl_closed (t : List Nat) (v : Nat) (h : ttlFromText t = .ok v) : v ≤ Consts.maxTTL :=
  ttlFromText_le t v h

/-- a name accepted from text is well formed, whatever the text and the origin -/
theorem fromText_closed (t : List Nat) (o : Option Name) (n : Name) (h : fromText t o = .ok n) : WfName n := by
  unfold fromText at h
  simp only at h
  repeat' split at h
  all_goals first
    | (simp at h; done)
    | (obtain ⟨rfl, hw⟩ := wf_of_validate _ _ h; exact hw)

/-- a name accepted from wire is well formed and absolute, so it renders to wire, and the rendering
parses back to the same name: every value returned can be rendered again -/
theorem parsed_name_rerenders (b : Bytes) (off : Nat) (n : Name) (k : Nat) (h : fromWire b off = .ok (n, k)) :
    fromWire (toWire n) 0 = .ok (n, (toWire n).length) := by
  unfold fromWire at h
  split at h
  · simp at h
  · split at h
    · simp at h
    · rename_i n' f' hrun
      split at h
      · simp at h
      · rename_i n'' hv
        simp at h
        obtain ⟨rfl, rfl⟩ := h
        obtain ⟨heq, hwf⟩ := wf_of_validate n' n'' hv
        obtain ⟨⟨m, hm⟩, _⟩ := fwAux_shape b b.length off off off [] n' f' hrun
        have habs : isAbs n'' = true := by rw [heq, hm]; simp [isAbs]
        obtain ⟨ls, hn, hp⟩ := abs_split n'' (heq ▸ hwf) habs
        have hd := Dec_plain ls hp [] [] 0
        have hrun2 := fromWireAux_of_Dec hd 0 []
        simp only [List.nil_append, List.append_nil, List.length_nil, Nat.zero_add] at hrun2
        unfold fromWire
        simp only [Nat.not_lt_zero, gt_iff_lt, if_false]
        rw [hn, hrun2, ← hn]
        simp [validate_of_wf n'' (heq ▸ hwf)]

/-- `continue_on_error`: once the 12-octet header is there nothing is raised — every failure is
recorded and a message is returned (or the model declines the record type) -/
theorem read_cont_never_raises (w : Bytes) (it qo : Bool) (hlen : 12 ≤ w.length) (e : String) :
    readMsg w { cont := true, ignoreTrailing := it, questionOnly := qo } ≠ .exc e := by
  unfold readMsg
  have : ¬ w.length < 12 := by omega
  simp only [this, if_false]
  intro h
  repeat' split at h
  all_goals simp_all

/-- strict mode raises nothing exactly when continue mode records nothing, and then both return the
same message: errors are recorded *instead of* raised, never in addition and never silently -/
theorem read_cont_clean_iff_strict (w : Bytes) (it qo : Bool) (c : List Nat) :
    readMsg w { cont := true, ignoreTrailing := it, questionOnly := qo } = .message c [] ↔
    readMsg w { cont := false, ignoreTrailing := it, questionOnly := qo } = .message c [] := by
  unfold readMsg
  by_cases hlen : w.length < 12
  · simp [hlen]
  simp only [hlen, if_false]
  split
  · simp
  · cases hq : readQuestions w (be ((w.drop 4).take 2)) { cur := 12, fur := 12, errs := [], counts := [0, 0, 0, 0] } with
    | unsupported => simp
    | raised e s => simp
    | ok s1 =>
      simp only
      by_cases hqo : qo = true
      · simp [hqo]
      simp only [hqo, Bool.false_eq_true, if_false]
      constructor
      · -- continue clean ⇒ strict
        intro h
        cases h1 : readSection w true 1 (be ((w.drop 6).take 2)) s1 with
        | unsupported => simp [h1] at h
        | raised e s => simp [h1] at h
        | ok s2 =>
          simp only [h1] at h
          cases h2 : readSection w true 2 (be ((w.drop 8).take 2)) s2 with
          | unsupported => simp [h2] at h
          | raised e s => simp [h2] at h
          | ok s3 =>
            simp only [h2] at h
            cases h3 : readSection w true 3 (be ((w.drop 10).take 2)) s3 with
            | unsupported => simp [h3] at h
            | raised e s => simp [h3] at h
            | ok s4 =>
              simp only [h3] at h
              obtain ⟨m1, e1⟩ := readSection_errs_prefix _ _ _ _ _ _ h1
              obtain ⟨m2, e2⟩ := readSection_errs_prefix _ _ _ _ _ _ h2
              obtain ⟨m3, e3⟩ := readSection_errs_prefix _ _ _ _ _ _ h3
              have h4 : s4.errs = [] := by
                split at h
                · simp at h
                · simp at h; exact h.2
              have hz3 : s3.errs = [] := by rw [e3] at h4; simp at h4; exact h4.1
              have hz2 : s2.errs = [] := by rw [e2] at hz3; simp at hz3; exact hz3.1
              have hz1 : s1.errs = [] := by rw [e1] at hz2; simp at hz2; exact hz2.1
              rw [readSection_cont_clean_imp_strict _ _ _ _ _ h1 (by rw [hz2, hz1])]
              simp only
              rw [readSection_cont_clean_imp_strict _ _ _ _ _ h2 (by rw [hz3, hz2])]
              simp only
              rw [readSection_cont_clean_imp_strict _ _ _ _ _ h3 (by rw [h4, hz3])]
              simp only
              split at h
              · simp at h
              · rename_i htr
                simp only [htr, if_false]
                exact h
      · -- strict ⇒ continue clean
        intro h
        cases h1 : readSection w false 1 (be ((w.drop 6).take 2)) s1 with
        | unsupported => simp [h1] at h
        | raised e s => simp [h1] at h
        | ok s2 =>
          simp only [h1] at h
          cases h2 : readSection w false 2 (be ((w.drop 8).take 2)) s2 with
          | unsupported => simp [h2] at h
          | raised e s => simp [h2] at h
          | ok s3 =>
            simp only [h2] at h
            cases h3 : readSection w false 3 (be ((w.drop 10).take 2)) s3 with
            | unsupported => simp [h3] at h
            | raised e s => simp [h3] at h
            | ok s4 =>
              simp only [h3] at h
              rw [readSection_strict_imp_cont _ _ _ _ _ h1]
              simp only
              rw [readSection_strict_imp_cont _ _ _ _ _ h2]
              simp only
              rw [readSection_strict_imp_cont _ _ _ _ _ h3]
              simp only
              split at h
              · simp at h
              · rename_i htr
                simp only [htr, if_false]
                exact h

/-- "failures after the header are recorded with their offset": whatever the octets and options, every
offset recorded in the returned message's `errors` lies inside the message (it is the parser position at
which the exception left the record, or the position a failed header read left behind). -/
theorem recorded_offsets_inside (w : Bytes) (o : ReadOpts) (c : List Nat) (errs : List (String × Nat))
    (h : readMsg w o = .message c errs) : ∀ p ∈ errs, p.2 ≤ w.length := by
  unfold readMsg at h
  by_cases hlen : w.length < 12
  · simp [hlen] at h
  simp only [hlen, if_false] at h
  by_cases hop : be ((w.drop 2).take 2) / 2048 % 16 = 5
  · simp [hop] at h
  simp only [hop, if_false] at h
  have h0 : RInv w { cur := 12, fur := 12, errs := [], counts := [0, 0, 0, 0] } :=
    ⟨by simp; omega, by simp; omega, by simp⟩
  -- every way out returns the errors of a state satisfying the invariant, possibly extended by one
  -- record at that state's parser position
  have key : ∀ (r : ROut), r.Inv w → ∀ (c' : List Nat) (errs' : List (String × Nat)),
      (match r with
        | .unsupported => ReadResult.unsupported
        | .ok s => .message s.counts s.errs
        | .raised e s => if o.cont = true then .message s.counts (s.errs ++ [(e, s.cur)]) else .exc e) = .message c' errs' →
      ∀ p ∈ errs', p.2 ≤ w.length := by
    intro r hr c' errs' hm p hp
    cases r with
    | unsupported => simp at hm
    | ok s => simp at hm; obtain ⟨_, rfl⟩ := hm; exact hr.2.2 p hp
    | raised e s =>
      simp only at hm
      split at hm
      · simp at hm; obtain ⟨_, rfl⟩ := hm
        simp at hp; rcases hp with hp | hp
        · exact hr.2.2 p hp
        · subst hp; exact hr.1
      · simp at hm
  have hq := readQuestions_inv w (be ((w.drop 4).take 2)) _ h0
  cases hq1 : readQuestions w (be ((w.drop 4).take 2)) { cur := 12, fur := 12, errs := [], counts := [0, 0, 0, 0] } with
  | unsupported => rw [hq1] at h; simp at h
  | raised e s => rw [hq1] at hq h; exact key _ hq c errs h
  | ok s1 =>
    rw [hq1] at hq h
    simp only at h
    split at h
    · simp at h; obtain ⟨_, rfl⟩ := h; exact hq.2.2
    · have ha := readSection_inv w o.cont 1 (be ((w.drop 6).take 2)) s1 hq
      cases ha1 : readSection w o.cont 1 (be ((w.drop 6).take 2)) s1 with
      | unsupported => rw [ha1] at h; simp at h
      | raised e s => rw [ha1] at ha h; exact key _ ha c errs h
      | ok s2 =>
        rw [ha1] at ha h
        simp only at h
        have hb := readSection_inv w o.cont 2 (be ((w.drop 8).take 2)) s2 ha
        cases hb1 : readSection w o.cont 2 (be ((w.drop 8).take 2)) s2 with
        | unsupported => rw [hb1] at h; simp at h
        | raised e s => rw [hb1] at hb h; exact key _ hb c errs h
        | ok s3 =>
          rw [hb1] at hb h
          simp only at h
          have hc := readSection_inv w o.cont 3 (be ((w.drop 10).take 2)) s3 hb
          cases hc1 : readSection w o.cont 3 (be ((w.drop 10).take 2)) s3 with
          | unsupported => rw [hc1] at h; simp at h
          | raised e s => rw [hc1] at hc h; exact key _ hc c errs h
          | ok s4 =>
            rw [hc1] at hc h
            simp only at h
            split at h
            · exact key (.raised "TrailingJunk" s4) hc c errs h
            · simp at h; obtain ⟨_, rfl⟩ := h; exact hc.2.2

/-- non-vacuity: a 12-octet header with all counts zero is read cleanly in both modes -/
example : readMsg [0,1,0,0,0,0,0,0,0,0,0,0] { cont := true, ignoreTrailing := false, questionOnly := false }
    = .message [0,0,0,0] [] := by decide

/-- Whatever a type-specific RDATA parser raises — a library error of another family or any foreign
exception — what leaves `dns.rdata.from_wire_parser` / `dns.rdata.from_text` is an instance of the wrapper's
family (FormError for wire, SyntaxError for text), and an exception already in the family passes unchanged. -/
theorem wrapper_closed (f : Family) (raised : Option ExcKind) (e : ExcKind) (h : wrapExit f raised = some e) :
    isInstanceOf e f = true ∧ (∀ r, raised = some r → isInstanceOf r f = true → e = r) ∧
    (raised = none → False) := by
  cases raised with
  | none => simp [wrapExit] at h
  | some r =>
    simp only [wrapExit] at h
    by_cases hr : isInstanceOf r f = true
    · simp [hr] at h; subst h
      exact ⟨hr, fun r' h1 _ => by injection h1, fun h => by cases h⟩
    · simp [hr] at h; subst h
      refine ⟨by cases f <;> rfl, fun r' h1 h2 => ?_, fun h => by cases h⟩
      injection h1 with h1; subst h1; exact absurd h2 hr

/-- a block that completes is not turned into an error -/
theorem wrapper_transparent (f : Family) : wrapExit f none = none := rfl

/-! ## `dns.wirebase.Parser`: the bounds discipline under every wire parser -/

open Model.WP in
/-- **No out-of-bounds access, for every parsing routine.**  Whatever sequence of `get_bytes`,
`get_counted_bytes`, `get_remaining`, `seek`, `get_name` calls, nested `with restrict_to(..)` /
`with restore_furthest()` blocks and `try … except FormError` handlers a routine is made of, started on
`Parser(wire, current)`: every byte string handed out is a slice `wire[a : a+n]` with `a + n ≤ len(wire)`
(so it has the requested length — no short read, hence no `struct.error`/`IndexError` downstream), and when
the routine ends — normally or by exception — `end` is `len(wire)` again (every `restrict_to` restored it). -/
theorem parser_window (w : Bytes) (current : Nat) (p : P) (prog : Prog) (h : mk w current = some p) :
    (exec w p prog).p.endp = w.length ∧
    ∀ a n, Out.bytes a n ∈ (exec w p prog).outs → a + n ≤ w.length := by
  unfold mk at h
  split at h
  · simp at h
  · simp at h; subst h
    have := exec_window w prog ⟨current, w.length, current⟩
    exact ⟨this.1, this.2⟩

open Model.WP in
/-- **Only FormError.**  A routine written in the fragment of the API that the library uses outside
`get_name` (no raw `seek`, no `restore_furthest` of its own; forward seeks allowed) ends with a value or with
FormError, never with the `assert size >= 0` of `get_bytes` failing, and it leaves the parser with
`furthest ≤ current ≤ end`. -/
theorem parser_lib_only_form_error (w : Bytes) (current : Nat) (p : P) (prog : Prog)
    (h : mk w current = some p) (hl : Lib prog) :
    ((exec w p prog).o = .ok ∨ (exec w p prog).o = .formError) ∧ Disc (exec w p prog).p := by
  unfold mk at h
  split at h
  · simp at h
  · rename_i hc
    simp at h; subst h
    have hd : Disc ⟨current, w.length, current⟩ := by unfold Disc; simp only; omega
    have := exec_disc w prog _ hl hd
    refine ⟨?_, this.1⟩
    cases ho : (exec w ⟨current, w.length, current⟩ prog).o with
    | ok => left; rfl
    | formError => right; rfl
    | assertion => exact absurd ho this.2

open Model.WP in
/-- The `Lib` hypothesis is needed (and the model can exhibit why): through the raw API — read 6 octets, seek
back to 0, restrict to 2 octets, `restore_furthest` — `current` ends up beyond the restricted `end`,
`remaining()` is negative and `get_remaining()` trips the assertion.  (Replayed on the implementation by the
correspondence check; no library code path does this.) -/
example : (exec [1,2,3,4,5,6,7,8] ⟨0, 8, 0⟩
    (.prim (.getBytes 6) (.prim (.seek 0) (.restrict 2 (.restoreFurthest .done (.prim .getRemaining .done)) .done)))).o
    = .assertion := by decide

open Model.WP in
/-- non-vacuity: a record-like routine (name, fixed octets, a restricted body read to its end) is in the
fragment; a routine of the same shape with a counted string in place of the name succeeds on a real wire -/
example : Lib (.prim .getName (.prim (.getBytes 2) (.restrict 4 (.prim .getRemaining .done) .done))) ∧
    (exec [1,97,0, 0,1, 10,0,0,1] ⟨0, 9, 0⟩
      (.prim (.getCounted 1) (.prim (.getBytes 3) (.restrict 4 (.prim .getRemaining .done) .done)))).o = .ok := by
  constructor
  · simp [Lib]
  · decide

end C04

import Model.Versioned
import Proofs.Versioned
import Proofs.VersionedCow
/-!
# C11 — Versioned-zone readers see one immutable snapshot; version retention is sound

Theorems of record about `Model.Versioned` (model of `dns/versioned.py`: `_versions`, `_readers`, `reader`,
`_end_read`, commit / rollback, `_prune_versions_unlocked`, `set_max_versions`, `set_pruning_policy`,
`_get_next_version_id`).  `reach ops` is the state of a freshly constructed zone after an **arbitrary** list of
operations: readers opened on the latest version, by id or by serial (successfully or not), closed (also twice),
writers opened, committed with or without changes, rolled back, policies set to the default, `max n`, unlimited or
an **arbitrary** pure callable of (number of versions retained when asked, version) via `Op.setPred f` — `f` need not be
monotone in the id or in the count.  All statements hold after every prefix of every such history (induction over the list).

Python-level immutability of snapshot objects is *not* a theorem: versions are persistent values in the model.  It is
established by enumeration in `harness/props/C11.py` (every public callable of every object reachable from a read
transaction is called on every run; mutating calls must raise and change nothing).
-/
namespace C11
open Model.Versioned

abbrev reach (ops : List Op) : State := (run init ops).1

/-- "Version ids strictly increase": along the retained versions and along everything ever committed. -/
theorem ids_strictly_increase (ops : List Op) :
    (reach ops).versions.Pairwise (fun a b => a.id < b.id) ∧ (reach ops).history.Pairwise (fun a b => a.id < b.id) := by
  have h := (inv_run init ops inv_init).pre
  have hh : (reach ops).history.Pairwise (fun a b => a.id < b.id) := by
    have hp : ((reach ops).history.map (fun v => v.id)).Pairwise (· < ·) := by
      rw [h.ids]; exact List.pairwise_lt_range'
    exact (List.pairwise_map.mp hp)
  exact ⟨hh.sublist h.suffix.sublist, hh⟩

/-- … and no id is skipped or reused: the ids ever committed are exactly 1, 2, …, n. -/
theorem ids_consecutive (ops : List Op) :
    (reach ops).history.map (fun v => v.id) = List.range' 1 (reach ops).history.length :=
  (inv_run init ops inv_init).pre.ids

/-- "the retained versions always form a contiguous run of history": the deque is a suffix of the list of all
versions ever committed (same objects, same order, nothing missing in the middle). -/
theorem retained_contiguous (ops : List Op) : (reach ops).versions <:+ (reach ops).history :=
  (inv_run init ops inv_init).pre.suffix

/-- "… that contains the newest version": the deque is never empty and its last element is the last commit. -/
theorem newest_retained (ops : List Op) :
    (reach ops).versions ≠ [] ∧ (reach ops).versions.getLast? = (reach ops).history.getLast? := by
  have h := (inv_run init ops inv_init).pre
  exact ⟨versions_ne_nil h, getLast?_of_suffix h.suffix (versions_ne_nil h)⟩

/-- "… and every version still pinned by an open reader": the very version object an open read transaction holds
is in the deque. -/
theorem pinned_retained (ops : List Op) : ∀ r ∈ (reach ops).readers, r.2 ∈ (reach ops).versions :=
  (inv_run init ops inv_init).pre.pins

/-- "… and is otherwise exactly what the pruning policy allows", part 1 (every reachable state): the oldest
retained version is at or above `least_kept` (the smallest pinned id, or the newest id when nobody reads), or the
policy — asked with the current number of retained versions — refuses to prune it.  Nothing prunable is left over. -/
theorem pruning_exact (ops : List Op) :
    FrontKept (reach ops).policy (leastKept (reach ops).readers (reach ops).versions) (reach ops).versions :=
  (inv_run init ops inv_init).stable

/-- part 2 (the loop itself, any policy, any bound, any deque): what `_prune_versions_unlocked` drops is exactly
the longest prefix of versions each of which is below `least_kept` and was allowed by the policy at the moment it
was asked; the rest is kept untouched and its first element is not prunable. -/
theorem pruning_drops_exactly_allowed_prefix (p : Policy) (least : Nat) (vs : List Ver) :
    ∃ n, n ≤ vs.length ∧ pruneLoop p least vs = vs.drop n ∧
      (∀ i (_ : i < n) (hlt : i < vs.length), vs[i].id < least ∧ prunable p (vs.length - i) vs[i] = true) ∧
      FrontKept p least (vs.drop n) :=
  pruneLoop_exact p least vs

/-- part 3, the precise meaning of "exactly what the pruning policy allows" for an arbitrary (possibly
non-monotone) policy: call a suffix `S` of the deque *closed* when its first version is not prunable at its turn —
its id is at or above `least_kept`, or the policy, asked about it with `len = |S|`, says no (`FrontKept`).  What
`_prune_versions_unlocked` retains is a closed suffix, and it is the **longest** closed suffix: every other closed
suffix is shorter.  So pruning proceeds from the oldest version and stops at the first refusal; versions behind a
refused one stay even if the policy would accept them. -/
theorem pruning_keeps_longest_closed_suffix (p : Policy) (least : Nat) (vs : List Ver) :
    pruneLoop p least vs <:+ vs ∧ FrontKept p least (pruneLoop p least vs) ∧
      ∀ S, S <:+ vs → FrontKept p least S → S.length ≤ (pruneLoop p least vs).length :=
  ⟨pruneLoop_suffix p least vs, pruneLoop_front p least vs, fun S hS hF => pruneLoop_longest p least vs S hS hF⟩

/-- `reader(serial=sn)`: the versions are scanned from the newest; the transaction is opened on the **newest**
retained version whose SOA serial is `sn` (every retained version with that serial has an id at most the chosen
one), and `KeyError` is raised exactly when no retained version has that serial. -/
theorem reader_by_serial_is_newest_match (ops : List Op) (h sn : Nat) :
    (∃ v, v ∈ (reach ops).versions ∧ v.serial = some sn ∧
        (∀ w ∈ (reach ops).versions, w.serial = some sn → w.id ≤ v.id) ∧
        (step (reach ops) (.openSerial h sn)).2 = .pinned v.id v.content) ∨
    ((∀ w ∈ (reach ops).versions, w.serial ≠ some sn) ∧
        (step (reach ops) (.openSerial h sn)) = (reach ops, .err .keyError)) := by
  have hinc := (ids_strictly_increase ops).1
  cases hf : findSerial (reach ops).versions sn with
  | some v =>
    left
    obtain ⟨hq, pre, post, he, hpost⟩ := find_rev_some hf
    refine ⟨v, by rw [he]; simp, by simpa using hq, ?_, by simp only [step, hf]⟩
    intro w hw hs
    rw [he] at hw hinc
    rcases List.mem_append.mp hw with hm | hm
    · exact Nat.le_of_lt ((List.pairwise_append.mp hinc).2.2 w hm v (by simp))
    · rcases List.mem_cons.mp hm with e | hm'
      · rw [e]; exact Nat.le_refl _
      · have := hpost w hm'; simp [hs] at this
  | none =>
    right
    refine ⟨fun w hw => by simpa using find_rev_none hf w hw, by simp only [step, hf]⟩

/-- `reader(id=i)`: opened on the retained version with that id (there is at most one), `KeyError` exactly when
no retained version has it — in particular for every id that was pruned or never issued. -/
theorem reader_by_id (ops : List Op) (h i : Nat) :
    (∃ v, v ∈ (reach ops).versions ∧ v.id = i ∧ (step (reach ops) (.openId h i)).2 = .pinned v.id v.content) ∨
    ((∀ w ∈ (reach ops).versions, w.id ≠ i) ∧ (step (reach ops) (.openId h i)) = (reach ops, .err .keyError)) := by
  cases hf : findId (reach ops).versions i with
  | some v =>
    left
    obtain ⟨hq, pre, post, he, _⟩ := find_rev_some hf
    exact ⟨v, by rw [he]; simp, by simpa using hq, by simp only [step, hf]⟩
  | none =>
    right
    exact ⟨fun w hw => by simpa using find_rev_none hf w hw, by simp only [step, hf]⟩

/-- "observes exactly the content of the version that was current when it was opened (or of the version requested
by id or serial) for its whole life, no matter how many commits happen meanwhile": whatever opening reader `h`
returned, observing through `h` returns the same (id, content) after any further operations that do not close `h`. -/
theorem snapshot_stable (s : State) (h : Nat) (v : Ver) (hopen : findReader s.readers h = some v)
    (ops : List Op) (hc : ∀ op ∈ ops, closes h op = false) :
    (step (run s ops).1 (.observe h)).2 = .pinned v.id v.content := by
  have := reader_kept_run s ops h v hc hopen
  simp only [step, this]

/-- the reader just opened on the latest version holds the newest committed version -/
theorem open_latest_pins_newest (ops : List Op) (h : Nat) (hfresh : findReader (reach ops).readers h = none) :
    ∃ v, (reach ops).history.getLast? = some v ∧
      (step (reach ops) (.openLatest h)).2 = .pinned v.id v.content ∧
      findReader (step (reach ops) (.openLatest h)).1.readers h = some v := by
  have hn := newest_retained ops
  cases hl : (reach ops).versions.getLast? with
  | none => exact absurd (List.getLast?_eq_none_iff.mp hl) hn.1
  | some v =>
    refine ⟨v, by rw [← hn.2, hl], by simp only [step, hl], ?_⟩
    simp only [step, hl]
    unfold findReader at hfresh ⊢
    rw [List.find?_append]
    cases hf : (reach ops).readers.find? (fun r => decide (r.1 = h)) with
    | some r => rw [hf] at hfresh; simp at hfresh
    | none => simp

/-! ## snapshot isolation by the copy-on-write mechanism

In the retention model above versions are persistent values.  Here they are not: `Model.Versioned.CowState` has a
heap of node cells shared between versions, a write hits a cell whoever points to it, and what keeps snapshots apart
is only the bookkeeping of the code — `WritableVersion.changed`, `_maybe_cow_with_name` (copy unless the name is
already in `changed`), `delete_node`, B-tree `update_glue_flag` (copy every re-flagged name and add *that name* to
`changed`), and `ImmutableVersion.__init__` (new immutable node for every changed name). -/

/-- "observes exactly the content of its version for its whole life, no matter how many commits happen meanwhile,
and everything reachable from it is immutable", by mechanism: after **any** sequence of transactions (begin /
replacement begin, puts, node deletes, glue re-flagging of arbitrary name lists, commit, empty commit, rollback),
(1) every node of every committed version is a frozen cell, and (2) whatever further operations follow, every
version committed so far is still there, in order, and shows exactly the same name ↦ content view. -/
theorem snapshot_isolated_by_cow (ops more : List CowOp) :
    (∀ m ∈ (cowRun cowInit ops).versions, ∀ p ∈ m, FrozenAt (cowRun cowInit ops).heap p.2) ∧
    (cowRun cowInit ops).versions <+: (cowRun (cowRun cowInit ops) more).versions ∧
    ∀ m ∈ (cowRun cowInit ops).versions,
      view (cowRun (cowRun cowInit ops) more).heap m = view (cowRun cowInit ops).heap m := by
  have h := (cow_run cowInit ops cowInv_init).1
  have h2 := cow_run (cowRun cowInit ops) more h
  exact ⟨fun m hm p hp => (h.frozen m hm p hp).2, h2.2.1, h2.2.2⟩

/-- the writer-side invariant that makes it work (the thing a wrong `changed.add` breaks): in an open write
transaction a changed name has a node of its own, allocated in this transaction, and an unchanged name still points
to the frozen node of the version it was copied from. -/
theorem writer_nodes_private_or_frozen (ops : List CowOp) (x : Writer) (hx : (cowRun cowInit ops).w = some x) :
    ∀ p ∈ x.nodes, (p.1 ∈ x.changed ∧ x.base ≤ p.2) ∨ (p.1 ∉ x.changed ∧ FrozenAt (cowRun cowInit ops).heap p.2) := by
  intro p hp
  have h := ((cow_run cowInit ops cowInv_init).1.writer x hx).1.2 p hp
  rcases h.2 with h1 | ⟨h1, _, h3⟩
  · exact Or.inl h1
  · exact Or.inr ⟨h1, h3⟩

-- version 2 = {a ↦ 5, b ↦ 6}; a later transaction rewrites a, re-flags b (glue) and deletes nothing: version 2 still shows 5 and 6
example : view (cowRun cowInit [.begin true, .put 1 5, .put 2 6, .commit, .begin false, .put 1 7, .flip [2] 9, .commit]).heap
    [(1, 3), (2, 2)] = [(1, 5), (2, 6)] := by decide
example : (cowRun cowInit [.begin true, .put 1 5, .put 2 6, .commit]).versions = [[], [(1, 3), (2, 2)]] := by decide
example : (view (cowRun cowInit [.begin true, .put 1 5, .put 2 6, .commit, .begin false, .put 1 7, .flip [2] 9, .commit]).heap
    ((cowRun cowInit [.begin true, .put 1 5, .put 2 6, .commit, .begin false, .put 1 7, .flip [2] 9, .commit]).versions.getLast?.getD []))
    = [(1, 7), (2, 9)] := by decide

-- freezing does not look at what a node holds: a node that is empty at commit (content 0 — no rdatasets) is frozen too
example : let s := cowRun cowInit [.begin true, .put 1 5, .put 2 0, .commit]
    (s.versions.getLast?.getD []).all (fun p => (s.heap[p.2]?.map (·.frozen)) == some true) = true := by decide

/-! ## the hypotheses are satisfiable; the clauses are not vacuous -/

-- a reader pins version 1 across two commits under the default policy; closing it prunes down to the newest
example : ((reach [.openLatest 1, .wopen, .commit 10 none true, .wopen, .commit 11 none true]).versions.map (·.id)) = [1, 2, 3] := by decide
example : ((reach [.openLatest 1, .wopen, .commit 10 none true, .wopen, .commit 11 none true, .close 1]).versions.map (·.id)) = [3] := by decide
-- a predicate that refuses version 1 keeps everything behind it too (contiguity)
example : ((reach [.setPolicy (some [2, 3]), .wopen, .commit 10 none true, .wopen, .commit 11 none true]).versions.map (·.id)) = [1, 2, 3] := by decide
-- max 2
example : ((reach [.setMax (some 2), .wopen, .commit 10 none true, .wopen, .commit 11 none true]).versions.map (·.id)) = [2, 3] := by decide
-- a policy that is not monotone in the count: "prune only while exactly 3 versions are retained"
example : ((reach [.setPred (fun len _ => len == 3), .wopen, .commit 10 none true, .wopen, .commit 11 none true,
    .wopen, .commit 12 none true]).versions.map (·.id)) = [3, 4] := by decide
-- not monotone in the id: true on version 2 only; version 1 is refused, so 2 stays although the policy accepts it
example : ((reach [.setPred (fun _ v => v.id == 2), .wopen, .commit 10 none true, .wopen, .commit 11 none true]).versions.map (·.id)) = [1, 2, 3] := by decide
-- two retained versions with serial 6: reader(serial=6) takes the newer one
example : (step (reach [.setMax none, .wopen, .commit 10 (some 6) true, .wopen, .commit 11 (some 6) true]) (.openSerial 1 6)).2 = .pinned 3 11 := by decide
-- snapshot_stable's hypotheses
example : findReader (reach [.openLatest 7]).readers 7 = some ⟨1, 0, none⟩ := by decide
example : (step (reach [.openLatest 7, .wopen, .commit 10 (some 5) true, .setMax (some 1)]) (.observe 7)).2 = .pinned 1 0 := by decide

end C11

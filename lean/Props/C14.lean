import Model.Tsig
import Proofs.TsigRfc
import Proofs.TsigDigest
import Proofs.TsigValidate
import Proofs.TsigExchange
import Proofs.TsigReader
import Proofs.TsigInject
import Proofs.TsigFlip
/-!
# C14 — TSIG MACs follow RFC 8945; genuine messages verify, altered ones never do

Theorems of record.  `Model.Tsig` follows `dns/tsig.py`, `dns/rdtypes/ANY/TSIG.py`, the signing tail of
`Message.to_wire` / `Renderer._write_tsig` and the TSIG part of `dns.message._WireReader`.  `Rfc8945` is
RFC 8945 §4.3 / §5.3.1 / §6 written independently.  The HMAC is an arbitrary function `H` throughout; the
algorithm table and the literal constants (`ConstsC14.*`) are regenerated from the working tree on every run.
-/
namespace C14
open Model Model.Tsig Rfc8945

/-! ## the algorithm table (a finite obligation about the regenerated table) -/

/-- octets of MAC the code emits for a table row -/
def outLen (e : AlgEntry) : Nat := if e.trunc ≠ 0 then e.trunc / 8 else e.dsize

/-- "for every supported algorithm incl. truncated variants": the regenerated `HMACTSig._hashes` /
`mac_sizes` table is exactly RFC 8945 §6 — same names (up to case), same hash, same number of MAC octets; the
truncations are whole octets and never longer than the digest. -/
theorem alg_table_is_rfc8945 :
    (∀ e ∈ algTable, (lowerName e.name, e.hash, outLen e) ∈ algorithms ∧ e.dsize = hashLen e.hash
        ∧ e.trunc % 8 = 0 ∧ outLen e ≤ e.dsize ∧ e.macSize = outLen e)
    ∧ (∀ r ∈ algorithms, ∃ e ∈ algTable, (lowerName e.name, e.hash, outLen e) = r) := by
  decide +kernel

/-- the MAC the code computes is the HMAC of the context's octets under the row's hash, cut to the RFC length -/
theorem mac_is_truncated_hmac (H : Hmac) (key : Key) (e : AlgEntry) (data : Bytes) (c : Ctx)
    (he : lookupAlg algTable key.algorithm = some e) (hc : getContext algTable key = .ok c)
    (hH : (H e.hash key.secret data).length = e.dsize) (hle : outLen e ≤ e.dsize) :
    (c.update data).sign H = (H e.hash key.secret data).take (outLen e)
      ∧ ((c.update data).sign H).length = outLen e := by
  unfold getContext at hc
  rw [he] at hc
  cases hc
  unfold Ctx.sign Ctx.update outLen
  unfold outLen at hle
  by_cases ht : e.trunc = 0
  · simp [ht, hH, List.take_of_length_le] at hle ⊢
  · simp [ht] at hle ⊢
    omega

/-! ## the octets fed to the MAC -/

/-- "the MAC equals the HMAC over the specified digest components … for requests, responses bound to a
request MAC": whenever `_digest` starts a context (`first`), the octets fed are, in order, the request MAC
with its length (iff one was given), the message with the original ID, and the TSIG variables of §4.3.3. -/
theorem digest_input_is_rfc8945 (tbl : List AlgEntry) (wire : Bytes) (key : Key) (rd : Rdata) (time : Option Nat)
    (rm : Bytes) (ctx : Option Ctx) (multi : Bool) (c : Ctx)
    (hfirst : multi = false ∨ ctx = none)
    (h : digest tbl wire key rd time rm ctx multi = .ok c) :
    c.data = if rm = [] then requestInput rd.originalId wire (varsOf key rd time)
             else responseInput rm rd.originalId wire (varsOf key rd time) := by
  have hf : (if multi then ctx else none) = none := by
    rcases hfirst with h | h <;> simp [h]
  rw [digest_first_data tbl wire key rd time rm ctx multi c hf h]
  by_cases hr : rm = [] <;> simp [hr, requestInput, responseInput]

/-- on validation the "message" is the received one with the TSIG RR cut off and ARCOUNT decremented -/
theorem validate_digests_stripped_message (V : Verifier) (tbl : List AlgEntry) (wire : Bytes) (key : Key)
    (owner : Name) (rd : Rdata) (now : Nat) (rm : Bytes) (s : Nat) (c : Ctx) (c' : Option Ctx)
    (h : validateV V tbl wire key owner rd now rm s none false = .ok (c, c')) :
    c.data = (if rm = [] then requestInput rd.originalId (stripTsig wire s) (varsOf key rd none)
              else responseInput rm rd.originalId (stripTsig wire s) (varsOf key rd none))
      ∧ V c rd.mac = true := by
  obtain ⟨_, _, _, _, _, hd, hv, _⟩ := validateV_ok V tbl wire key owner rd now rm s none false c c' h
  refine ⟨?_, hv⟩
  rw [← newWire_eq_stripTsig]
  exact digest_input_is_rfc8945 tbl _ key rd none rm none false c (Or.inl rfl) hd

/-- "… and multi-message sequences", "any subset of intermediate messages unsigned": along a whole exchange
validated with `multi=True` and the context handed on, the octets at every MAC comparison are RFC 8945's:
first envelope as a request/response, later ones prior MAC ‖ unsigned messages since ‖ message ‖ timers. -/
theorem digest_input_is_rfc8945_exchange (V : Verifier) (tbl : List AlgEntry) (key : Key) (owner : Name) (now : Nat)
    (rm : Bytes) (envs : List Env) (l : List Bytes)
    (h : runExchange V tbl key owner now rm none envs = .ok l) :
    l = exchangeInputs rm none (envs.map (Env.toSpec key)) :=
  runExchange_inputs V tbl key owner now rm envs none none l (Or.inl ⟨rfl, rfl⟩) h

/-- the signing side of an exchange: a later signed envelope digests the running context (which
`_maybe_start_digest` started with the prior MAC and its length), the message, and the timers only -/
theorem sign_later_input (H : Hmac) (tbl : List AlgEntry) (wire : Bytes) (key : Key) (rd : Rdata) (time : Nat)
    (rm : Bytes) (c0 : Ctx) (rd' : Rdata) (c' : Option Ctx)
    (h : sign H tbl wire key rd time rm (some c0) true = .ok (rd', c')) :
    ∃ c : Ctx, c.data = c0.data ++ message rd.originalId wire ++ timers (varsOf key rd (some time))
      ∧ rd'.mac = c.sign H ∧ rd'.timeSigned = time
      ∧ ∃ c2 : Ctx, c' = some c2 ∧ c2.data = macField rd'.mac := by
  unfold sign at h
  split at h; · cases h
  rename_i c hd
  dsimp only at h
  cases hm : maybeStartDigest tbl key (c.sign H) true with
  | error e => rw [hm] at h; cases h
  | ok c2 =>
    rw [hm] at h
    obtain ⟨c3, hc3⟩ := maybeStart_multi tbl key _ c2 hm
    have hd3 := maybeStart_data tbl key _ c3 (hc3 ▸ hm)
    cases h
    exact ⟨c, digest_later_data tbl wire key rd (some time) rm c0 c hd, rfl, rfl, c3, hc3, hd3⟩

/-! ## every signed message validates under the same key -/

/-- "every signed message validates under the same key", "for every supported algorithm": for every row of the
regenerated table, signing succeeds, and the message `Message.to_wire` then emits (body, TSIG RR appended,
ARCOUNT incremented) is accepted by `validate` with the same key, request MAC, context and `multi`, at any
time within the fudge window — whatever function the HMAC is.  The context handed on is the signer's. -/
theorem sign_then_validate (H : Hmac) (e : AlgEntry) (he : e ∈ algTable) (key : Key) (hk : key.algorithm = e.name)
    (body ownerEnc : Bytes) (rd : Rdata) (now vnow : Nat) (rm : Bytes) (ctx : Option Ctx) (multi : Bool)
    (hctx : ctx = none ∨ multi = true)
    (hl : 12 ≤ body.length) (ho : OctetsOk body) (hc : rd16 body 10 + 1 < 65536)
    (halg : rd.algorithm = key.algorithm) (herr : rd.error = 0) (hother : rd.other.length ≤ 65535)
    (hwin : absDiff now vnow ≤ rd.fudge) :
    ∃ wire rd' ctx', signMessage H algTable body ownerEnc key rd now rm ctx multi = .ok (wire, rd', ctx')
      ∧ wire = appendTsig body ownerEnc rd'
      ∧ Tsig.validate H algTable wire key key.name rd' vnow rm body.length ctx multi = .ok ctx' := by
  obtain ⟨e', he'⟩ := lookupAlg_mem algTable e he
  have hgc : ∃ c0, getContext algTable key = .ok c0 := by
    unfold getContext; rw [hk, he']; exact ⟨_, rfl⟩
  obtain ⟨c0, hc0⟩ := hgc
  -- `_digest` succeeds
  have hdig : ∃ c, digest algTable body key rd (some now) rm ctx multi = .ok c := by
    unfold digest
    have hnot : ¬ rd.other.length > ConstsC14.otherMax := by simp [ConstsC14.otherMax]; omega
    cases hm : (if multi then ctx else none) with
    | none => simp only [hc0, hnot, if_false]; exact ⟨_, rfl⟩
    | some c => simp only [hnot, if_false]; exact ⟨_, rfl⟩
  obtain ⟨c, hd⟩ := hdig
  have hms : ∃ c', maybeStartDigest algTable key (c.sign H) multi = .ok c' := by
    unfold maybeStartDigest
    cases multi <;> simp [hc0]
  obtain ⟨c', hm⟩ := hms
  refine ⟨_, { rd with timeSigned := now, mac := c.sign H }, c', ?_, rfl, ?_⟩
  · simp [signMessage, sign, hd, hm]
  · unfold Tsig.validate
    rw [validateV_spec]
    have h10 := rd16_appendTsig body ownerEnc { rd with timeSigned := now, mac := c.sign H } hl hc
    have hnw := newWire_appendTsig body ownerEnc { rd with timeSigned := now, mac := c.sign H } hl ho hc
    have hdc := digest_congr algTable body key rd { rd with timeSigned := now, mac := c.sign H } now rm ctx multi
      rfl rfl rfl rfl rfl
    simp only [h10, hnw, hdc, hd]
    have : ¬ absDiff now vnow > rd.fudge := by omega
    simp [this, hm, herr, halg, nameEq_refl, verifyWith]

/- Not proved (tie-only: every generated message is read back through `dns.message.from_wire`, and the model's
`read` is compared with it on the same octets).  Full statement, reader level:

  theorem read_accepts_signed (H) (e ∈ algTable) (key) (hk : key.algorithm = e.name) (body) (rd) (now vnow rm)
      (hbody : the skeleton walk of `body` by its own counts ends at `body.length` and meets no record of type TSIG)
      (hname : WfName key.name ∧ isAbs key.name ∧ WfName key.algorithm ∧ isAbs key.algorithm) (octets, ARCOUNT < 65535,
       time < 2^48, fudge/original id < 2^16, error = 0, |other| < 2^16, |now − vnow| ≤ fudge) :
      ∃ wire rd' c', signMessage H algTable body (toWire key.name) key rd now rm none false = .ok (wire, rd', c')
        ∧ ∃ r, read H algTable strict wire (.key key) vnow rm none false = .ok r
            ∧ r.tsig = some ⟨key.name, rd', some (_, rd'.mac)⟩

  What is missing: the round trip of `nameAt` over `toWire` for owner and algorithm name, of `rdataParse` over
  `rdataWire`, and the replay of the body's walk inside the longer message.  `sign_then_validate` above is the same
  statement one level down (at `dns.tsig.validate` on the rendered octets), which is where the MAC logic lives. -/

/-! ## rejection logic -/

/-- "Validation rejects … a different key name / algorithm, time outside the fudge window, … a TSIG error":
the complete decision list of `validate`, in the order the code applies it.  `absDiff t now > fudge` is
`|now − time| > fudge`; `nameEq` is the library's case-insensitive name equality. -/
theorem reject_logic (H : Hmac) (tbl : List AlgEntry) (wire : Bytes) (key : Key) (owner : Name) (rd : Rdata)
    (now : Nat) (rm : Bytes) (s : Nat) (ctx : Option Ctx) (multi : Bool) :
    Tsig.validate H tbl wire key owner rd now rm s ctx multi =
      if rd16 wire 10 = 0 then .error .formError
      else if rd.error ≠ 0 then .error (peerErr rd.error)
      else if absDiff rd.timeSigned now > rd.fudge then .error .badTime
      else if nameEq key.name owner = false then .error .badKey
      else if nameEq key.algorithm rd.algorithm = false then .error .badAlgorithm
      else match digest tbl (newWire wire s) key rd none rm ctx multi with
        | .error e => .error e
        | .ok c =>
          if c.sign H ≠ rd.mac then .error .badSignature
          else maybeStartDigest tbl key rd.mac multi := by
  unfold Tsig.validate
  rw [validateV_spec]
  repeat' split
  all_goals first
    | rfl
    | (cases hms : maybeStartDigest tbl key rd.mac multi <;> simp_all [verifyWith] <;> (subst_vars; rfl))
    | simp_all [verifyWith]

/-- the error field maps to the documented peer errors; any non-zero value is a rejection -/
theorem tsig_error_rejected (H : Hmac) (tbl : List AlgEntry) (wire : Bytes) (key : Key) (owner : Name) (rd : Rdata)
    (now : Nat) (rm : Bytes) (s : Nat) (ctx : Option Ctx) (multi : Bool) (hw : rd16 wire 10 ≠ 0) (he : rd.error ≠ 0) :
    Tsig.validate H tbl wire key owner rd now rm s ctx multi = .error (peerErr rd.error)
      ∧ peerErr 16 = .peerBadSignature ∧ peerErr 17 = .peerBadKey ∧ peerErr 18 = .peerBadTime
      ∧ peerErr 22 = .peerBadTruncation := by
  refine ⟨?_, by decide, by decide, by decide, by decide⟩
  rw [reject_logic]; simp [hw, he]

/-- "a TSIG that is not the last record is a format error" (also: outside the additional section, or with a
class other than ANY): the reader raises BadTSIG — a FormError — before looking at the RDATA or the key -/
theorem tsig_not_last_is_formerror (V : Verifier) (tbl : List AlgEntry) (strict : Bool) (w : Bytes) (kr : Keyring)
    (now : Nat) (rm : Bytes) (multi : Bool) (sec count i : Nat) (st : RState) (p : Nat)
    (hn : skipName w w.length (w.length + 1) st.cur = some p) (hh : p + 10 ≤ w.length)
    (ht : rd16 w p = ConstsC14.typeTsig)
    (hbad : sec ≠ 3 ∨ i + 1 ≠ count ∨ rd16 w (p + 2) ≠ ConstsC14.classAny) :
    readRR V tbl strict w kr now rm multi sec count i st = .error .badTSIG := by
  unfold readRR
  simp only [hn]
  have : ¬ p + 10 > w.length := by omega
  simp only [this, if_false, ht, if_true]
  have hb : sec ≠ 3 ∨ rd16 w (p + 2) ≠ ConstsC14.classAny ∨ i + 1 ≠ count := by
    rcases hbad with h | h | h
    · exact Or.inl h
    · exact Or.inr (Or.inr h)
    · exact Or.inr (Or.inl h)
  simp [hb]

/-! ## request-MAC binding -/

/-- "responses bound to a request MAC", "rejects … a different request MAC": two different request MACs
(one of them possibly absent) never lead to the same MAC input, everything else being equal. -/
theorem request_mac_binding (tbl : List AlgEntry) (wire : Bytes) (key : Key) (rd : Rdata) (time : Option Nat)
    (rm1 rm2 : Bytes) (ctx : Option Ctx) (multi : Bool) (c1 c2 : Ctx)
    (hfirst : multi = false ∨ ctx = none)
    (h1 : digest tbl wire key rd time rm1 ctx multi = .ok c1)
    (h2 : digest tbl wire key rd time rm2 ctx multi = .ok c2)
    (hne : rm1 ≠ rm2) : c1.data ≠ c2.data := by
  have hf : (if multi then ctx else none) = none := by
    rcases hfirst with h | h <;> simp [h]
  rw [digest_first_data tbl wire key rd time rm1 ctx multi c1 hf h1,
    digest_first_data tbl wire key rd time rm2 ctx multi c2 hf h2]
  intro heq
  rw [List.append_assoc, List.append_assoc, List.append_left_inj] at heq
  by_cases e1 : rm1 = [] <;> by_cases e2 : rm2 = []
  · exact hne (e1.trans e2.symm)
  · simp only [e1, e2, if_true, if_false, macField] at heq
    have := congrArg List.length heq
    simp [be_length] at this
    try omega
  · simp only [e1, e2, if_true, if_false, macField] at heq
    have := congrArg List.length heq
    simp [be_length] at this
    try omega
  · simp only [e1, e2, if_false, macField] at heq
    exact hne (List.append_inj_right heq (by simp [be_length]))

/-- consequently a response validated against another request MAC is rejected with BadSignature, unless the
(possibly truncated) HMAC of two different inputs collides — collision-freeness under this key is the explicit
hypothesis `hcf`. -/
theorem request_mac_binding_rejects (H : Hmac) (tbl : List AlgEntry) (wire : Bytes) (key : Key) (owner : Name)
    (rd : Rdata) (now : Nat) (rm1 rm2 : Bytes) (s : Nat) (c1 : Ctx)
    (hgen : digest tbl (newWire wire s) key rd none rm1 none false = .ok c1) (hmac : rd.mac = c1.sign H)
    (hne : rm1 ≠ rm2)
    (hcf : ∀ c c' : Ctx, c.secret = c'.secret → c.hash = c'.hash → c.size = c'.size → c.sign H = c'.sign H →
      c.data = c'.data)
    (hpre : rd16 wire 10 ≠ 0 ∧ rd.error = 0 ∧ absDiff rd.timeSigned now ≤ rd.fudge ∧ nameEq key.name owner = true
      ∧ nameEq key.algorithm rd.algorithm = true) :
    Tsig.validate H tbl wire key owner rd now rm2 s none false = .error .badSignature := by
  obtain ⟨h0, he, ht, hk, ha⟩ := hpre
  rw [reject_logic]
  have : ¬ absDiff rd.timeSigned now > rd.fudge := by omega
  simp only [h0, he, this, hk, ha, if_false, ne_eq, not_true_eq_false, Bool.true_eq_false]
  obtain ⟨c0, hc0⟩ := getContext_ok_of_digest tbl _ key rd none rm1 c1 hgen
  cases hd2 : digest tbl (newWire wire s) key rd none rm2 none false with
  | error e =>
    -- `_digest` fails the same way for both request MACs
    exfalso
    unfold digest at hd2 hgen
    simp only [Bool.false_eq_true, if_false, hc0] at hd2 hgen
    split at hgen
    · cases hgen
    · rename_i hno; simp [hno] at hd2
  | ok c2 =>
    simp only
    have hdiff := request_mac_binding tbl _ key rd none rm1 rm2 none false c1 c2 (Or.inl rfl) hgen hd2 hne
    have hsame : c1.secret = c2.secret ∧ c1.hash = c2.hash ∧ c1.size = c2.size := by
      unfold digest at hd2 hgen
      simp only [Bool.false_eq_true, if_false, hc0] at hd2 hgen
      split at hgen
      · cases hgen
      · rename_i hno
        simp only [hno, if_false] at hd2
        cases hgen; cases hd2
        by_cases e1 : rm1 = [] <;> by_cases e2 : rm2 = [] <;> simp [Ctx.update, e1, e2]
    have : c2.sign H ≠ rd.mac := by
      intro heq
      exact hdiff (hcf c1 c2 hsame.1 hsame.2.1 hsame.2.2 (by rw [heq, hmac]))
    simp [this]

/-! ## the reader: what acceptance means, and what an alteration can and cannot do -/

/-- "every message whose authenticated content was altered": **acceptance is sound.**  If the reader returns a
message as signed (key `k`, stand-alone message), then the TSIG RR is the last record of the additional section
(found at `s` by the section walk, class ANY, ending the message), its error field is 0, the time is within the
fudge window, owner and algorithm equal the key's, and the MAC in the record is the (truncated) HMAC of exactly
the RFC 8945 digest components *of the received message*. -/
theorem accepted_carries_valid_mac (H : Hmac) (tbl : List AlgEntry) (strict : Bool) (w : Bytes) (k : Key) (now : Nat)
    (rm : Bytes) (r : ReadOk) (f : Found)
    (h : read H tbl strict w (.key k) now rm none false = .ok r) (hf : r.tsig = some f) :
    ∃ s c, walkTo w = some s ∧ f.checked = some (c, f.rd.mac) ∧ c.sign H = f.rd.mac
      ∧ c.data = (if rm = [] then requestInput f.rd.originalId (stripTsig w s) (varsOf k f.rd none)
                  else responseInput rm f.rd.originalId (stripTsig w s) (varsOf k f.rd none))
      ∧ f.rd.error = 0 ∧ absDiff f.rd.timeSigned now ≤ f.rd.fudge
      ∧ nameEq k.name f.owner = true ∧ nameEq k.algorithm f.rd.algorithm = true := by
  obtain ⟨s, p, owner, rd, c, c', hfe, _, a, _⟩ :=
    accepted_of_read (verifyWith H) tbl strict w k now rm none false r f h hf
  subst hfe
  obtain ⟨_, he, ht, hn, ha, _, hv, _⟩ := validateV_ok _ tbl w k owner rd now rm s none false c c' a.valid
  obtain ⟨hdat, _⟩ := validate_digests_stripped_message _ tbl w k owner rd now rm s c c' a.valid
  refine ⟨s, c, a.walk, rfl, ?_, hdat, he, ht, hn, ha⟩
  simpa [verifyWith] using hv

/-- **the MAC input determines the authenticated content** (the message is self-delimiting, so no two
different splittings of the digested octets are possible).  Two messages accepted as signed under the same key,
request MAC, running context and `multi`, whose MAC inputs are the same octet string, have their TSIG RR at the
same offset `s`, agree on *every octet from 2 to `s`* (all of the message but its ID, which RFC 8945 replaces by
the original ID), and on original ID, time signed and fudge; stand-alone / first messages also on error and
other data. -/
theorem mac_input_determines_content (V1 V2 : Verifier) (tbl : List AlgEntry) (st1 st2 : Bool) (w1 w2 : Bytes) (k : Key)
    (now1 now2 : Nat) (rm : Bytes) (ctx : Option Ctx) (multi : Bool) (r1 r2 : ReadOk) (f1 f2 : Found) (c1 c2 : Ctx)
    (m1 m2 : Bytes) (ho1 : OctetsOk w1) (ho2 : OctetsOk w2)
    (h1 : readV V1 tbl st1 w1 (.key k) now1 rm ctx multi = .ok r1) (hf1 : r1.tsig = some f1)
    (h2 : readV V2 tbl st2 w2 (.key k) now2 rm ctx multi = .ok r2) (hf2 : r2.tsig = some f2)
    (hc1 : f1.checked = some (c1, m1)) (hc2 : f2.checked = some (c2, m2)) (hd : c1.data = c2.data) :
    ∃ s, walkTo w1 = some s ∧ walkTo w2 = some s ∧ (∀ i, 2 ≤ i → i < s → w1[i]? = w2[i]?)
      ∧ f1.rd.originalId = f2.rd.originalId ∧ f1.rd.timeSigned = f2.rd.timeSigned ∧ f1.rd.fudge = f2.rd.fudge
      ∧ ((multi = false ∨ ctx = none) → f1.rd.error = f2.rd.error ∧ f1.rd.other = f2.rd.other) := by
  obtain ⟨s1, p1, o1, rd1, c1', x1, e1, _, a1, _⟩ := accepted_of_read V1 tbl st1 w1 k now1 rm ctx multi r1 f1 h1 hf1
  obtain ⟨s2, p2, o2, rd2, c2', x2, e2, _, a2, _⟩ := accepted_of_read V2 tbl st2 w2 k now2 rm ctx multi r2 f2 h2 hf2
  subst e1; subst e2
  simp only [Option.some.injEq, Prod.mk.injEq] at hc1 hc2
  obtain ⟨rfl, _⟩ := hc1
  obtain ⟨rfl, _⟩ := hc2
  obtain ⟨hs, hb, _, r⟩ := same_input_same_content V1 V2 tbl w1 w2 k now1 now2 rm ctx multi s1 s2 p1 p2 o1 o2 rd1 rd2
    c1' c2' x1 x2 ho1 ho2 a1 a2 hd
  subst hs
  exact ⟨s1, a1.walk, a2.walk, hb, r⟩

/-- "rejects any single-bit alteration of authenticated content": **every single-bit alteration is rejected by
parsing / a check, or changes the (MAC input, MAC) pair** — unless the bit lies in the message ID, in the owner
name of the TSIG RR (`s`…`p`), in the algorithm name (from `p+10` up to the fixed-layout tail of the RDATA) or,
as shipped (`strict = false`), in the 4 TTL octets `p+4`…`p+7` of the TSIG RR.  Stated contrapositively: if the
genuine message and the message with bit `i` flipped are both returned as signed, then the pairs differ or `i`
is in one of those places.  (ID and name *case* are not authenticated by RFC 8945; the TTL is — that disjunct
is the recorded finding and disappears for `strict = true`.) -/
theorem bitflip_changes_input (V V' : Verifier) (tbl : List AlgEntry) (strict : Bool) (w : Bytes) (k : Key) (now now' : Nat)
    (rm : Bytes) (ctx : Option Ctx) (multi : Bool) (r r' : ReadOk) (f f' : Found) (i : Nat)
    (ho : OctetsOk w) (hi : i < 8 * w.length) (hfirst : multi = false ∨ ctx = none)
    (h : readV V tbl strict w (.key k) now rm ctx multi = .ok r) (hf : r.tsig = some f)
    (h' : readV V' tbl strict (flipBit w i) (.key k) now' rm ctx multi = .ok r') (hf' : r'.tsig = some f') :
    ∃ s p c c', walkTo w = some s ∧ skipName w w.length (w.length + 1) s = some p
      ∧ f.checked = some (c, f.rd.mac) ∧ f'.checked = some (c', f'.rd.mac)
      ∧ ((c'.data ≠ c.data ∨ f'.rd.mac ≠ f.rd.mac)
          ∨ i < 16 ∨ (8 * s ≤ i ∧ i < 8 * p)
          ∨ (strict = false ∧ 8 * (p + 4) ≤ i ∧ i < 8 * (p + 8))
          ∨ (8 * (p + 10) ≤ i ∧ i / 8 + (tsigTail f.rd).length < w.length)) := by
  obtain ⟨s, p, o, rd, c, c1, e, _, a, hst⟩ := accepted_of_read V tbl strict w k now rm ctx multi r f h hf
  obtain ⟨s', p', o', rd', c', c1', e', _, a', hst'⟩ := accepted_of_read V' tbl strict (flipBit w i) k now' rm ctx multi r' f' h' hf'
  subst e; subst e'
  refine ⟨s, p, c, c', a.walk, a.name, rfl, rfl, ?_⟩
  dsimp only
  by_cases hpair : c'.data = c.data ∧ rd'.mac = rd.mac
  · right
    have hi8 : i / 8 < w.length := by omega
    rcases flip_same_pair_location V V' tbl w k now now' rm ctx multi s p s' p' o o' rd rd' c c' c1 c1' i ho hi8 hfirst
      a a' hpair.1 hpair.2 with h1 | h1 | h1 | h1
    · left; omega
    · right; left; omega
    · right; right; left
      obtain ⟨hpp, hlo, hhi⟩ := h1
      refine ⟨?_, by omega, by omega⟩
      cases hs : strict with
      | false => rfl
      | true =>
        exfalso
        have hb := skipName_bounds _ _ _ _ _ a.name
        have hh := a.hdr
        exact flip_ttl_excluded w i p ho (by omega) (hst hs) (by rw [← hpp]; exact hst' hs) ⟨hlo, hhi⟩
    · right; right; right; omega
  · left
    by_cases hd : c'.data = c.data
    · right; intro hm; exact hpair ⟨hd, hm⟩
    · left; exact hd

/-- the consequence under an explicit unforgeability hypothesis about the external HMAC (never an axiom):
suppose that, among contexts keyed with `k`'s secret, only the genuine (input, MAC) pair verifies.  Then *every*
single-bit alteration outside the message ID, the TSIG owner name and the algorithm name — and, for the code as
shipped (`strict = false`), outside the TTL field of the TSIG RR: this is the explicit guard that makes the
statement `_partial` — is rejected or comes back as an unsigned message.

Full statement (what the property demands, true of the `strict = true` variant, see `altered_bit_rejected`):
the same without the TTL guard.  It is false as shipped: `ttl_bit_accepted_asShipped`. -/
theorem altered_bit_rejected_partial (strict : Bool) (H : Hmac) (tbl : List AlgEntry) (w : Bytes) (k : Key) (now now' : Nat) (rm : Bytes)
    (r : ReadOk) (f : Found) (c : Ctx) (i s p : Nat) (ho : OctetsOk w) (hi : i < 8 * w.length)
    (h : read H tbl strict w (.key k) now rm none false = .ok r) (hf : r.tsig = some f)
    (hc : f.checked = some (c, f.rd.mac)) (hs : walkTo w = some s) (hp : skipName w w.length (w.length + 1) s = some p)
    (hunf : ∀ (c' : Ctx) (m' : Bytes), c'.secret = k.secret → verifyWith H c' m' = true → c'.data = c.data ∧ m' = f.rd.mac)
    (hbit : 16 ≤ i ∧ ¬ (8 * s ≤ i ∧ i < 8 * p) ∧ ¬ (8 * (p + 10) ≤ i ∧ i / 8 + (tsigTail f.rd).length < w.length))
    (hguard : strict = false → ¬ (8 * (p + 4) ≤ i ∧ i < 8 * (p + 8))) :
    ∀ r', read H tbl strict (flipBit w i) (.key k) now' rm none false = .ok r' → r'.tsig = none := by
  intro r' h'
  cases hf' : r'.tsig with
  | none => rfl
  | some f' =>
    exfalso
    obtain ⟨s0, p0, c0, c', hs0, hp0, hc0, hc', hcase⟩ :=
      bitflip_changes_input (verifyWith H) (verifyWith H) tbl strict w k now now' rm none false r r' f f' i ho hi (Or.inl rfl)
        h hf h' hf'
    rw [hs] at hs0; cases hs0
    rw [hp] at hp0; cases hp0
    rw [hc] at hc0
    simp only [Option.some.injEq, Prod.mk.injEq, and_true] at hc0
    subst hc0
    -- the altered message's pair verified, so it is the genuine pair
    obtain ⟨s2, p2, o2, rd2, c2, c2', e2, _, a2, _⟩ :=
      accepted_of_read (verifyWith H) tbl strict (flipBit w i) k now' rm none false r' f' h' hf'
    subst e2
    have hcc : c2 = c' := by simpa using hc'
    rw [← hcc] at hcase
    obtain ⟨_, _, _, _, _, hdig, hv, _⟩ := validateV_ok _ tbl _ k o2 rd2 now' rm s2 none false c2 c2' a2.valid
    have hsec : c2.secret = k.secret := by
      unfold digest at hdig
      simp only [Bool.false_eq_true, if_false] at hdig
      split at hdig; · cases hdig
      rename_i c00 hc00
      split at hdig; · cases hdig
      cases hdig
      unfold getContext at hc00
      split at hc00
      · cases hc00
        by_cases hr : rm = [] <;> simp [Ctx.update, hr]
      · cases hc00
    obtain ⟨hd, hm⟩ := hunf c2 rd2.mac hsec hv
    rcases hcase with h1 | h1 | h1 | h1 | h1
    · rcases h1 with h1 | h1
      · exact h1 hd
      · exact h1 hm
    · omega
    · exact hbit.2.1 h1
    · exact hguard h1.1 h1.2
    · exact hbit.2.2 h1

/-- "Validation rejects every message whose authenticated content was altered in any bit", for the intended
variant (a TSIG RR with a non-zero TTL is a format error): no guard on the TTL field. -/
theorem altered_bit_rejected (H : Hmac) (tbl : List AlgEntry) (w : Bytes) (k : Key) (now now' : Nat) (rm : Bytes)
    (r : ReadOk) (f : Found) (c : Ctx) (i s p : Nat) (ho : OctetsOk w) (hi : i < 8 * w.length)
    (h : read H tbl true w (.key k) now rm none false = .ok r) (hf : r.tsig = some f)
    (hc : f.checked = some (c, f.rd.mac)) (hs : walkTo w = some s) (hp : skipName w w.length (w.length + 1) s = some p)
    (hunf : ∀ (c' : Ctx) (m' : Bytes), c'.secret = k.secret → verifyWith H c' m' = true → c'.data = c.data ∧ m' = f.rd.mac)
    (hbit : 16 ≤ i ∧ ¬ (8 * s ≤ i ∧ i < 8 * p) ∧ ¬ (8 * (p + 10) ≤ i ∧ i / 8 + (tsigTail f.rd).length < w.length)) :
    ∀ r', read H tbl true (flipBit w i) (.key k) now' rm none false = .ok r' → r'.tsig = none :=
  altered_bit_rejected_partial true H tbl w k now now' rm r f c i s p ho hi h hf hc hs hp hunf hbit (by simp)

/-! ## non-vacuity -/

def okOf {α} : Except Err α → Option α
  | .ok a => some a
  | .error _ => none

def errOf {α} : Except Err α → Option Err
  | .ok _ => none
  | .error e => some e

def exKey : Key := ⟨[[107], []], [1, 2, 3], [[104,109,97,99,45,115,104,97,50,53,54],[]]⟩
def exBody : Bytes := [0x12, 0x34, 1, 0, 0, 1, 0, 0, 0, 0, 0, 0, 1, 97, 0, 0, 1, 0, 1]
def exRd : Rdata := ⟨exKey.algorithm, 0, 300, [], 0x1234, 0, []⟩
def exH : Hmac := fun _ k d => k ++ d    -- a (collision-free) toy
def exSigned : Bytes × Rdata := match signMessage exH algTable exBody [1, 107, 0] exKey exRd 1000 [] none false with
  | .ok (w, rd', _) => (w, rd')
  | .error _ => ([], exRd)

/-- a key, a message body and a TSIG template meeting the hypotheses of `sign_then_validate` (HMAC-SHA256 row,
ARCOUNT 0, fudge 300, verification 299 s later), and what the model computes on them with a toy HMAC -/
example :
    (⟨exKey.algorithm, 4, 32, 0, 32⟩ : AlgEntry) ∈ algTable ∧ 12 ≤ exBody.length ∧ OctetsOk exBody
      ∧ rd16 exBody 10 + 1 < 65536 ∧ absDiff 1000 1299 ≤ exRd.fudge
      ∧ exSigned.2.mac.take 5 = [1, 2, 3, 0x12, 0x34]
      ∧ exSigned.1.length = exBody.length + (tsigRR [1, 107, 0] exSigned.2).length
      ∧ okOf (Tsig.validate exH algTable exSigned.1 exKey exKey.name exSigned.2 1299 [] exBody.length none false)
          = some none := by
  unfold OctetsOk
  decide +kernel

/-- `reject_logic` distinguishes its branches: accepted at the edge of the window, BadTime one second later,
BadSignature for another MAC, BadKey / BadAlgorithm / PeerBadTime for the other checks -/
example :
    let w : Bytes := [0,7,0,0,0,0,0,0,0,0,0,1,0]
    let rd : Rdata := ⟨exKey.algorithm, 1000, 300, [9], 7, 0, []⟩
    okOf (Tsig.validate (fun _ _ _ => [9]) algTable w exKey exKey.name rd 1300 [] 12 none false) = some none
      ∧ errOf (Tsig.validate (fun _ _ _ => [9]) algTable w exKey exKey.name rd 1301 [] 12 none false) = some .badTime
      ∧ errOf (Tsig.validate (fun _ _ _ => [8]) algTable w exKey exKey.name rd 1300 [] 12 none false) = some .badSignature
      ∧ errOf (Tsig.validate (fun _ _ _ => [9]) algTable w exKey [[108], []] rd 1300 [] 12 none false) = some .badKey
      ∧ errOf (Tsig.validate (fun _ _ _ => [9]) algTable w exKey exKey.name { rd with algorithm := [[120], []] } 1300 [] 12 none false)
          = some .badAlgorithm
      ∧ errOf (Tsig.validate (fun _ _ _ => [9]) algTable w exKey exKey.name { rd with error := 18 } 1300 [] 12 none false)
          = some .peerBadTime := by
  decide +kernel

/-- what the reader reports on `w` at time `now` when it accepts it as signed: (MAC input, MAC) -/
def exAccepted (strict : Bool) (w : Bytes) (now : Nat) : Option (Bytes × Bytes) :=
  match read exH algTable strict w (.key exKey) now [] none false with
  | .ok r => match r.tsig with
    | some f => match f.checked with
      | some (c, m) => some (c.data, m)
      | none => none
    | none => none
  | .error _ => none

/-- the hypotheses of `accepted_carries_valid_mac`, `mac_input_determines_content`, `bitflip_changes_input` are
met by a concrete message: the reader accepts the message signed above (its TSIG RR starts at 19, the owner name
ends at 22), an ID bit flip is accepted with the same pair, a flip in the question is rejected. -/
example :
    (exAccepted true exSigned.1 1299).isSome = true ∧ walkTo exSigned.1 = some 19
      ∧ skipName exSigned.1 exSigned.1.length (exSigned.1.length + 1) 19 = some 22 ∧ OctetsOk exSigned.1
      ∧ exAccepted true (flipBit exSigned.1 3) 1299 = exAccepted true exSigned.1 1299
      ∧ exAccepted true (flipBit exSigned.1 110) 1299 = none
      ∧ exAccepted true (flipBit exSigned.1 (8 * 50)) 1299 = none := by
  unfold OctetsOk
  decide +kernel

/-- **the recorded finding, in the model of the code as shipped**: bit 215 is the last bit of the TTL field of the
TSIG RR (octets 26–29) of the genuine message; altering it leaves the message accepted with the very same (MAC
input, MAC) pair, so no hypothesis about the HMAC can exclude it.  The negation of the unguarded statement for
`strict = false`; with `strict = true` the same alteration is rejected. -/
theorem ttl_bit_accepted_asShipped :
    8 * (22 + 4) ≤ 215 ∧ 215 < 8 * (22 + 8)
      ∧ (exAccepted false exSigned.1 1299).isSome = true
      ∧ exAccepted false (flipBit exSigned.1 215) 1299 = exAccepted false exSigned.1 1299
      ∧ exAccepted true (flipBit exSigned.1 215) 1299 = none := by
  decide +kernel

/-- two request MACs of different length and of equal length (hypothesis of `request_mac_binding`) -/
example : ([] : Bytes) ≠ [0] ∧ ([1, 2] : Bytes) ≠ [1, 3] := by decide

end C14

import Model.Tsig
import Proofs.TsigRfc
import Proofs.TsigDigest
import Proofs.TsigValidate
import Proofs.TsigExchange
import Proofs.TsigReader
import Proofs.TsigInject
import Proofs.TsigFlip
import Proofs.TsigName
import Proofs.TsigCodec
import Proofs.TsigRoundTrip
import Proofs.TsigCompress
/-!
# C14 — TSIG MACs follow RFC 8945; genuine messages verify, altered ones never do

Theorems of record.  `Model.Tsig` follows `dns/tsig.py`, `dns/rdtypes/ANY/TSIG.py`, the signing tail of
`Message.to_wire` / `Renderer._write_tsig` and the TSIG part of `dns.message._WireReader`.  `Rfc8945` is
RFC 8945 §4.3 / §5.3.1 / §6 written independently.  The HMAC is an arbitrary function `H` throughout; the
algorithm table and the literal constants (`ConstsC14.*`) are regenerated from the working tree on every run.
-/
namespace C14
open Model Model.Tsig Rfc8945

/-! ## the algorithm table (a finite obligation about the regenerated table) -/

/-- octets of MAC the code emits for a table row -/
def outLen (e : AlgEntry) : Nat := if e.trunc ≠ 0 then e.trunc / 8 else e.dsize

/-- "for every supported algorithm incl. truncated variants": the regenerated `HMACTSig._hashes` /
`mac_sizes` table is exactly RFC 8945 §6 — same names (up to case), same hash, same number of MAC octets; the
truncations are whole octets and never longer than the digest. -/
theorem alg_table_is_rfc8945 :
    (∀ e ∈ algTable, (lowerName e.name, e.hash, outLen e) ∈ algorithms ∧ e.dsize = hashLen e.hash
        ∧ e.trunc % 8 = 0 ∧ outLen e ≤ e.dsize ∧ e.macSize = outLen e)
    ∧ (∀ r ∈ algorithms, ∃ e ∈ algTable, (lowerName e.name, e.hash, outLen e) = r) := by
  decide +kernel

/-- the MAC the code computes is the HMAC of the context's octets under the row's hash, cut to the RFC length -/
theorem mac_is_truncated_hmac (H : Hmac) (key : Key) (e : AlgEntry) (data : Bytes) (c : Ctx)
    (he : lookupAlg algTable key.algorithm = some e) (hc : getContext algTable key = .ok c)
    (hH : (H e.hash key.secret data).length = e.dsize) (hle : outLen e ≤ e.dsize) :
    (c.update data).sign H = (H e.hash key.secret data).take (outLen e)
      ∧ ((c.update data).sign H).length = outLen e := by
  unfold getContext at hc
  rw [he] at hc
  cases hc
  unfold Ctx.sign Ctx.update outLen
  unfold outLen at hle
  by_cases ht : e.trunc = 0
  · simp [ht, hH, List.take_of_length_le] at hle ⊢
  · simp [ht] at hle ⊢
    omega

/-! ## the octets fed to the MAC -/

/-- "the MAC equals the HMAC over the specified digest components … for requests, responses bound to a
request MAC": whenever `_digest` starts a context (`first`), the octets fed are, in order, the request MAC
with its length (iff one was given), the message with the original ID, and the TSIG variables of §4.3.3. -/
theorem digest_input_is_rfc8945 (tbl : List AlgEntry) (wire : Bytes) (key : Key) (rd : Rdata) (time : Option Nat)
    (rm : Bytes) (ctx : Option Ctx) (multi : Bool) (c : Ctx)
    (hfirst : multi = false ∨ ctx = none)
    (h : digest tbl wire key rd time rm ctx multi = .ok c) :
    c.data = if rm = [] then requestInput rd.originalId wire (varsOf key rd time)
             else responseInput rm rd.originalId wire (varsOf key rd time) := by
  have hf : (if multi then ctx else none) = none := by
    rcases hfirst with h | h <;> simp [h]
  rw [digest_first_data tbl wire key rd time rm ctx multi c hf h]
  by_cases hr : rm = [] <;> simp [hr, requestInput, responseInput]

/-- on validation the "message" is the received one with the TSIG RR cut off and ARCOUNT decremented -/
theorem validate_digests_stripped_message (V : Verifier) (tbl : List AlgEntry) (wire : Bytes) (key : Key)
    (owner : Name) (rd : Rdata) (now : Nat) (rm : Bytes) (s : Nat) (c : Ctx) (c' : Option Ctx)
    (h : validateV V tbl wire key owner rd now rm s none false = .ok (c, c')) :
    c.data = (if rm = [] then requestInput rd.originalId (stripTsig wire s) (varsOf key rd none)
              else responseInput rm rd.originalId (stripTsig wire s) (varsOf key rd none))
      ∧ V c rd.mac = true := by
  obtain ⟨_, _, _, _, _, hd, hv, _⟩ := validateV_ok V tbl wire key owner rd now rm s none false c c' h
  refine ⟨?_, hv⟩
  rw [← newWire_eq_stripTsig]
  exact digest_input_is_rfc8945 tbl _ key rd none rm none false c (Or.inl rfl) hd

/-- "… and multi-message sequences", "any subset of intermediate messages unsigned": along a whole exchange
validated with `multi=True` and the context handed on, the octets at every MAC comparison are RFC 8945's:
first envelope as a request/response, later ones prior MAC ‖ unsigned messages since ‖ message ‖ timers. -/
theorem digest_input_is_rfc8945_exchange (V : Verifier) (tbl : List AlgEntry) (key : Key) (owner : Name) (now : Nat)
    (rm : Bytes) (envs : List Env) (l : List Bytes)
    (h : runExchange V tbl key owner now rm none envs = .ok l) :
    l = exchangeInputs rm none (envs.map (Env.toSpec key)) :=
  runExchange_inputs V tbl key owner now rm envs none none l (Or.inl ⟨rfl, rfl⟩) h

/-- the signing side of an exchange: a later signed envelope digests the running context (which
`_maybe_start_digest` started with the prior MAC and its length), the message, and the timers only -/
theorem sign_later_input (H : Hmac) (tbl : List AlgEntry) (wire : Bytes) (key : Key) (rd : Rdata) (time : Nat)
    (rm : Bytes) (c0 : Ctx) (rd' : Rdata) (c' : Option Ctx)
    (h : sign H tbl wire key rd time rm (some c0) true = .ok (rd', c')) :
    ∃ c : Ctx, c.data = c0.data ++ message rd.originalId wire ++ timers (varsOf key rd (some time))
      ∧ rd'.mac = c.sign H ∧ rd'.timeSigned = time
      ∧ ∃ c2 : Ctx, c' = some c2 ∧ c2.data = macField rd'.mac := by
  unfold sign at h
  split at h; · cases h
  rename_i c hd
  dsimp only at h
  cases hm : maybeStartDigest tbl key (c.sign H) true with
  | error e => rw [hm] at h; cases h
  | ok c2 =>
    rw [hm] at h
    obtain ⟨c3, hc3⟩ := maybeStart_multi tbl key _ c2 hm
    have hd3 := maybeStart_data tbl key _ c3 (hc3 ▸ hm)
    cases h
    exact ⟨c, digest_later_data tbl wire key rd (some time) rm c0 c hd, rfl, rfl, c3, hc3, hd3⟩

/-! ## every signed message validates under the same key -/

/-- "every signed message validates under the same key", "for every supported algorithm": for every row of the
regenerated table, signing succeeds, and the message `Message.to_wire` then emits (body, TSIG RR appended,
ARCOUNT incremented) is accepted by `validate` with the same key, request MAC, context and `multi`, at any
time within the fudge window — whatever function the HMAC is.  The context handed on is the signer's. -/
theorem sign_then_validate (H : Hmac) (e : AlgEntry) (he : e ∈ algTable) (key : Key) (hk : key.algorithm = e.name)
    (body ownerEnc : Bytes) (rd : Rdata) (now vnow : Nat) (rm : Bytes) (ctx : Option Ctx) (multi : Bool)
    (hl : 12 ≤ body.length) (ho : Tsig.OctetsOk body) (hc : rd16 body 10 + 1 < 65536)
    (halg : rd.algorithm = key.algorithm) (herr : rd.error = 0) (hother : rd.other.length ≤ 65535)
    (hwin : absDiff now vnow ≤ rd.fudge) :
    ∃ wire rd' ctx', signMessage H algTable body ownerEnc key rd now rm ctx multi = .ok (wire, rd', ctx')
      ∧ wire = appendTsig body ownerEnc rd'
      ∧ Tsig.validate H algTable wire key key.name rd' vnow rm body.length ctx multi = .ok ctx' := by
  obtain ⟨wire, rd', ctx', c, hs, hw, _, hv⟩ := sign_then_validate_gen H e he key hk body ownerEnc key.name rd now vnow rm
    ctx multi hl ho hc (nameEq_refl _) halg herr hother hwin
  exact ⟨wire, rd', ctx', hs, hw, by simp [Tsig.validate, hv]⟩

/-- **sign, render, read** ("every signed message validates under the same key", at the level of
`dns.message.from_wire`).  A message body that the section walk gets through (`BodyOk`: header written, counts
right, no TSIG record), signed by the model of `Message.to_wire` with a key of the regenerated table and rendered
with an owner-name encoding `o` that reads back as a name equal to the key's (`OwnerEncodes`: any encoding,
compressed or not; `sign_then_read_uncompressed` discharges it for the plain encoding), is **accepted by the
reader** with the same key, request MAC, context and `multi` at any time within the fudge window; the reader
reports exactly the TSIG that was written (`rd'`: the template with time signed and MAC filled in), the message it
saw under the TSIG is the body that was signed (`newWire wire body.length = body`), and the context it hands on
is the signer's.  `H` is any function with at most 64 octets of output. -/
theorem sign_then_read (H : Hmac) (strict : Bool) (key : Key) (body o : Bytes) (owner : Name) (rd : Rdata)
    (now vnow : Nat) (rm : Bytes) (ctx : Option Ctx) (multi : Bool)
    (hok : SignedOk H key body o owner rd now vnow) :
    ∃ wire rd' ctx' c, signMessage H algTable body o key rd now rm ctx multi = .ok (wire, rd', ctx')
      ∧ wire = appendTsig body o rd' ∧ SignedFields H rd rd' now
      ∧ newWire wire body.length = body
      ∧ read H algTable strict wire (.key key) vnow rm ctx multi
          = .ok ⟨some ⟨owner, rd', some (c, rd'.mac)⟩, ctx'⟩ :=
  sign_then_read_core H strict key body o owner rd now vnow rm ctx multi hok

/-- the uncompressed owner name `toWire key.name` is such an encoding (C01: `Dec_plain`, `fromWireAux_of_Dec`) -/
theorem sign_then_read_uncompressed (pre : Bytes) (n : Name) (hw : WfName n) (ha : isAbs n = true) :
    OwnerEncodes pre (toWire n) n ∧ nameEq n n = true :=
  ⟨ownerEncodes_plain pre n hw ha, nameEq_refl n⟩

/-- the **compressed** owner name the real renderer writes is such an encoding too.  `Message.to_wire` emits the TSIG
RR through `RRset.to_wire` / `Name.to_wire(file, compress)` with the compression table built while the body was
rendered; C01 models that as `toWireC` and proves (`toWireC_sound`) that a table every entry of which decodes in the
buffer to its key up to case stays so.  For any such table — whatever it holds, whichever suffix of the key name it
matches, at whatever offset — what `toWireC` appends for the key name is skipped as a whole by the section walk and
decodes, whatever follows, to a name equal to the key's: the hypothesis `OwnerEncodes` of `sign_then_read` and its
`nameEq` side condition hold for the renderer's own output, not only for the plain encoding. -/
theorem compressed_owner_encodes (pre : Bytes) (tbl : CTable) (n : Name) (hw : WfName n) (ha : isAbs n = true)
    (hs : TableSound C01.lowEq pre tbl) :
    ∃ o tbl' m, toWireC pre tbl n none = .ok (pre ++ o, tbl') ∧ OwnerEncodes pre o m ∧ nameEq n m = true :=
  ownerEncodes_compressed pre tbl n hw ha hs

/-- **sign, render with compression, read.**  `sign_then_read` with the owner name written by the renderer's
compressing name writer against any sound table: the reader accepts, reports the TSIG written and the body signed,
and hands on the signer's context.  (`hrest` collects the remaining hypotheses of `sign_then_read`, which do not
depend on how the owner is encoded.) -/
theorem sign_then_read_compressed (H : Hmac) (strict : Bool) (key : Key) (body : Bytes) (tbl : CTable) (rd : Rdata)
    (now vnow : Nat) (rm : Bytes) (ctx : Option Ctx) (multi : Bool)
    (hw : WfName key.name) (ha : isAbs key.name = true)
    (hs : TableSound C01.lowEq (setArcount body (rd16 body 10 + 1)) tbl)
    (hrest : ∀ o owner, OwnerEncodes (setArcount body (rd16 body 10 + 1)) o owner → nameEq key.name owner = true →
      SignedOk H key body o owner rd now vnow) :
    ∃ o tbl' owner wire rd' ctx' c,
      toWireC (setArcount body (rd16 body 10 + 1)) tbl key.name none = .ok (setArcount body (rd16 body 10 + 1) ++ o, tbl')
      ∧ signMessage H algTable body o key rd now rm ctx multi = .ok (wire, rd', ctx')
      ∧ wire = appendTsig body o rd' ∧ newWire wire body.length = body ∧ nameEq key.name owner = true
      ∧ read H algTable strict wire (.key key) vnow rm ctx multi = .ok ⟨some ⟨owner, rd', some (c, rd'.mac)⟩, ctx'⟩ := by
  obtain ⟨o, tbl', owner, htc, henc, hne⟩ := ownerEncodes_compressed _ tbl key.name hw ha hs
  obtain ⟨wire, rd', ctx', c, h1, h2, _, h4, h5⟩ :=
    sign_then_read_core H strict key body o owner rd now vnow rm ctx multi (hrest o owner henc hne)
  exact ⟨o, tbl', owner, wire, rd', ctx', c, htc, h1, h2, h4, hne, h5⟩

/-- "… multi-message sequences", "any subset of intermediate messages unsigned": **a whole exchange**.  The sender
signs the envelopes marked `signed` with `to_wire(multi=True, tsig_ctx=…)` and digests the unsigned ones whole into
the running context; the receiver reads them one after the other with `multi=True`, handing `tsig_ctx` on.  For
*every* pattern of signed and unsigned envelopes (RFC 8945 §5.3.1 demands that the first and last be signed and at
least every 100th; the theorem needs none of that) every envelope is accepted, a TSIG is reported exactly for the
signed ones, and nothing is rejected. -/
theorem sign_then_read_exchange (H : Hmac) (strict : Bool) (key : Key) (rm : Bytes) (envs : List SEnv)
    (hall : ∀ e ∈ envs, SEnv.Ok H key e) :
    ∃ ws rs, signExchange H key rm none envs = .ok ws
      ∧ readExchange H strict key rm none (ws.zip (envs.map SEnv.vnow)) = .ok rs
      ∧ ws.length = envs.length
      ∧ rs.map (fun r => r.tsig.isSome) = envs.map SEnv.isSigned :=
  sign_then_read_exchange_core H strict key rm envs none hall

/-- the code as it is now (repair 1f3fc58): an **unsigned envelope followed by octets that are not part of it**, read
with `multi=True`, `ignore_trailing=True` and a running context, is digested into that context as *the message
only* — the next context is the old one plus exactly the message octets, whatever trails them — so the MAC input
of the next signed envelope is RFC 8945 §5.3.1's ("any unsigned messages since the last TSIG"), not the buffer's. -/
theorem unsigned_envelope_digests_message_only (V : Verifier) (tbl : List AlgEntry) (strict : Bool) (body junk : Bytes)
    (kr : Keyring) (now : Nat) (rm : Bytes) (c : Ctx) (hb : BodyOk body) :
    readVI true V tbl strict (body ++ junk) kr now rm (some c) true = .ok ⟨none, some (c.update body)⟩ := by
  rw [readVI_unsigned_junk V tbl strict body junk kr now rm (some c) true hb]
  simp

/-- **a whole exchange, every envelope possibly followed by trailing octets**, read with `ignore_trailing=True`:
the statement of `sign_then_read_exchange` holds unchanged — every envelope is accepted, a TSIG is reported exactly
for the signed ones — for any pattern of signed / unsigned envelopes and any list `junks` of trailing octet
strings (one per envelope, empty or not). -/
theorem sign_then_read_exchange_trailing (H : Hmac) (strict : Bool) (key : Key) (rm : Bytes) (envs : List SEnv)
    (junks : List Bytes) (hj : junks.length = envs.length) (hall : ∀ e ∈ envs, SEnv.Ok H key e) :
    ∃ ws rs, signExchange H key rm none envs = .ok ws
      ∧ readExchangeJ H strict key rm none (ws.zip (junks.zip (envs.map SEnv.vnow))) = .ok rs
      ∧ ws.length = envs.length
      ∧ rs.map (fun r => r.tsig.isSome) = envs.map SEnv.isSigned :=
  sign_then_read_exchange_junk_core H strict key rm envs none junks hj hall

/-- the reader's name decoding is C01's: the fuel-driven `nameAt` used so that the kernel can evaluate the reader
is `Model.fromWireAux` (`nameFuel` always suffices), hence a decoded TSIG owner is a `Dec` derivation with strictly
backward pointers and a well-formed name (`Proofs/NameWire.lean`), and conversely. -/
theorem name_decoding_is_c01 (w : Bytes) (endp cur f : Nat) (acc : List Label) :
    nameAt w endp (nameFuel w) cur cur f acc = fromWireAux w endp cur cur f acc
      ∧ (∀ n, decodeName w cur = .ok n → ∃ ls fwd, Dec w cur cur ls fwd ∧ n = ls ++ [[]] ∧ WfName n)
      ∧ (∀ ls fwd, Dec w cur cur ls fwd → WfName (ls ++ [[]]) → decodeName w cur = .ok (ls ++ [[]])) :=
  ⟨nameAt_fuel w endp cur f acc, fun n h => decodeName_ok w cur n h, fun ls fwd hd hw => decodeName_of_Dec w cur ls fwd hd hw⟩

/-! ## rejection logic -/

/-- "Validation rejects … a different key name / algorithm, time outside the fudge window, … a TSIG error":
the complete decision list of `validate`, in the order the code applies it.  `absDiff t now > fudge` is
`|now − time| > fudge`; `nameEq` is the library's case-insensitive name equality. -/
theorem reject_logic (H : Hmac) (tbl : List AlgEntry) (wire : Bytes) (key : Key) (owner : Name) (rd : Rdata)
    (now : Nat) (rm : Bytes) (s : Nat) (ctx : Option Ctx) (multi : Bool) :
    Tsig.validate H tbl wire key owner rd now rm s ctx multi =
      if rd16 wire 10 = 0 then .error .formError
      else if rd.error ≠ 0 then .error (peerErr rd.error)
      else if absDiff rd.timeSigned now > rd.fudge then .error .badTime
      else if nameEq key.name owner = false then .error .badKey
      else if nameEq key.algorithm rd.algorithm = false then .error .badAlgorithm
      else match digest tbl (newWire wire s) key rd none rm ctx multi with
        | .error e => .error e
        | .ok c =>
          if c.sign H ≠ rd.mac then .error .badSignature
          else maybeStartDigest tbl key rd.mac multi := by
  unfold Tsig.validate
  rw [validateV_spec]
  repeat' split
  all_goals first
    | rfl
    | (cases hms : maybeStartDigest tbl key rd.mac multi <;> simp_all [verifyWith] <;> (subst_vars; rfl))
    | simp_all [verifyWith]

/-- the error field maps to the documented peer errors; any non-zero value is a rejection -/
theorem tsig_error_rejected (H : Hmac) (tbl : List AlgEntry) (wire : Bytes) (key : Key) (owner : Name) (rd : Rdata)
    (now : Nat) (rm : Bytes) (s : Nat) (ctx : Option Ctx) (multi : Bool) (hw : rd16 wire 10 ≠ 0) (he : rd.error ≠ 0) :
    Tsig.validate H tbl wire key owner rd now rm s ctx multi = .error (peerErr rd.error)
      ∧ peerErr 16 = .peerBadSignature ∧ peerErr 17 = .peerBadKey ∧ peerErr 18 = .peerBadTime
      ∧ peerErr 22 = .peerBadTruncation := by
  refine ⟨?_, by decide, by decide, by decide, by decide⟩
  rw [reject_logic]; simp [hw, he]

/-- "a TSIG that is not the last record is a format error" (also: outside the additional section, or with a
class other than ANY): the reader raises BadTSIG — a FormError — before looking at the RDATA or the key -/
theorem tsig_not_last_is_formerror (V : Verifier) (tbl : List AlgEntry) (strict : Bool) (w : Bytes) (kr : Keyring)
    (now : Nat) (rm : Bytes) (multi : Bool) (sec count i : Nat) (st : RState) (p : Nat)
    (hn : skipName w w.length (w.length + 1) st.cur = some p) (hh : p + 10 ≤ w.length)
    (ht : rd16 w p = ConstsC14.typeTsig)
    (hbad : sec ≠ 3 ∨ i + 1 ≠ count ∨ rd16 w (p + 2) ≠ ConstsC14.classAny) :
    readRR V tbl strict w kr now rm multi sec count i st = .error .badTSIG := by
  unfold readRR
  simp only [hn]
  have : ¬ p + 10 > w.length := by omega
  simp only [this, if_false, ht, if_true]
  have hb : sec ≠ 3 ∨ rd16 w (p + 2) ≠ ConstsC14.classAny ∨ i + 1 ≠ count := by
    rcases hbad with h | h | h
    · exact Or.inl h
    · exact Or.inr (Or.inr h)
    · exact Or.inr (Or.inl h)
  simp [hb]

/-! ## request-MAC binding -/

/-- "responses bound to a request MAC", "rejects … a different request MAC": two different request MACs
(one of them possibly absent) never lead to the same MAC input, everything else being equal. -/
theorem request_mac_binding (tbl : List AlgEntry) (wire : Bytes) (key : Key) (rd : Rdata) (time : Option Nat)
    (rm1 rm2 : Bytes) (ctx : Option Ctx) (multi : Bool) (c1 c2 : Ctx)
    (hfirst : multi = false ∨ ctx = none)
    (h1 : digest tbl wire key rd time rm1 ctx multi = .ok c1)
    (h2 : digest tbl wire key rd time rm2 ctx multi = .ok c2)
    (hne : rm1 ≠ rm2) : c1.data ≠ c2.data := by
  have hf : (if multi then ctx else none) = none := by
    rcases hfirst with h | h <;> simp [h]
  rw [digest_first_data tbl wire key rd time rm1 ctx multi c1 hf h1,
    digest_first_data tbl wire key rd time rm2 ctx multi c2 hf h2]
  intro heq
  rw [List.append_assoc, List.append_assoc, List.append_left_inj] at heq
  by_cases e1 : rm1 = [] <;> by_cases e2 : rm2 = []
  · exact hne (e1.trans e2.symm)
  · simp only [e1, e2, if_true, if_false, macField] at heq
    have := congrArg List.length heq
    simp [be_length] at this
    try omega
  · simp only [e1, e2, if_true, if_false, macField] at heq
    have := congrArg List.length heq
    simp [be_length] at this
    try omega
  · simp only [e1, e2, if_false, macField] at heq
    exact hne (List.append_inj_right heq (by simp [be_length]))

/-- consequently a response validated against another request MAC is rejected with BadSignature, unless the
(possibly truncated) HMAC of two different inputs collides — collision-freeness under this key is the explicit
hypothesis `hcf`. -/
theorem request_mac_binding_rejects (H : Hmac) (tbl : List AlgEntry) (wire : Bytes) (key : Key) (owner : Name)
    (rd : Rdata) (now : Nat) (rm1 rm2 : Bytes) (s : Nat) (c1 : Ctx)
    (hgen : digest tbl (newWire wire s) key rd none rm1 none false = .ok c1) (hmac : rd.mac = c1.sign H)
    (hne : rm1 ≠ rm2)
    (hcf : ∀ c c' : Ctx, c.secret = c'.secret → c.hash = c'.hash → c.size = c'.size → c.sign H = c'.sign H →
      c.data = c'.data)
    (hpre : rd16 wire 10 ≠ 0 ∧ rd.error = 0 ∧ absDiff rd.timeSigned now ≤ rd.fudge ∧ nameEq key.name owner = true
      ∧ nameEq key.algorithm rd.algorithm = true) :
    Tsig.validate H tbl wire key owner rd now rm2 s none false = .error .badSignature := by
  obtain ⟨h0, he, ht, hk, ha⟩ := hpre
  rw [reject_logic]
  have : ¬ absDiff rd.timeSigned now > rd.fudge := by omega
  simp only [h0, he, this, hk, ha, if_false, ne_eq, not_true_eq_false, Bool.true_eq_false]
  obtain ⟨c0, hc0⟩ := getContext_ok_of_digest tbl _ key rd none rm1 c1 hgen
  cases hd2 : digest tbl (newWire wire s) key rd none rm2 none false with
  | error e =>
    -- `_digest` fails the same way for both request MACs
    exfalso
    unfold digest at hd2 hgen
    simp only [Bool.false_eq_true, if_false, hc0] at hd2 hgen
    split at hgen
    · cases hgen
    · rename_i hno; simp [hno] at hd2
  | ok c2 =>
    simp only
    have hdiff := request_mac_binding tbl _ key rd none rm1 rm2 none false c1 c2 (Or.inl rfl) hgen hd2 hne
    have hsame : c1.secret = c2.secret ∧ c1.hash = c2.hash ∧ c1.size = c2.size := by
      unfold digest at hd2 hgen
      simp only [Bool.false_eq_true, if_false, hc0] at hd2 hgen
      split at hgen
      · cases hgen
      · rename_i hno
        simp only [hno, if_false] at hd2
        cases hgen; cases hd2
        by_cases e1 : rm1 = [] <;> by_cases e2 : rm2 = [] <;> simp [Ctx.update, e1, e2]
    have : c2.sign H ≠ rd.mac := by
      intro heq
      exact hdiff (hcf c1 c2 hsame.1 hsame.2.1 hsame.2.2 (by rw [heq, hmac]))
    simp [this]

/-! ## the reader: what acceptance means, and what an alteration can and cannot do -/

/-- "every message whose authenticated content was altered": **acceptance is sound**, for every kind of keyring (a
`Key`, a `dict` of `bytes` secrets or `Key`s, a callable).  If the reader returns a message as signed and checked
(stand-alone message), then the TSIG RR is the last record of the additional section (found at `s` by the section
walk, class ANY, ending the message), the keyring resolved a key `k` for its owner name, its error field is 0, the
time is within the fudge window, owner and algorithm equal the key's, and the MAC in the record is the (truncated)
HMAC of exactly the RFC 8945 digest components *of the received message*. -/
theorem accepted_carries_valid_mac (H : Hmac) (tbl : List AlgEntry) (strict : Bool) (w : Bytes) (kr : Keyring) (now : Nat)
    (rm : Bytes) (r : ReadOk) (f : Found) (c0 : Ctx) (m0 : Bytes)
    (h : read H tbl strict w kr now rm none false = .ok r) (hf : r.tsig = some f) (hck : f.checked = some (c0, m0)) :
    ∃ s c k, walkTo w = some s ∧ resolveKey kr f.owner f.rd = .ok (some k)
      ∧ f.checked = some (c, f.rd.mac) ∧ c.sign H = f.rd.mac
      ∧ c.data = (if rm = [] then requestInput f.rd.originalId (stripTsig w s) (varsOf k f.rd none)
                  else responseInput rm f.rd.originalId (stripTsig w s) (varsOf k f.rd none))
      ∧ f.rd.error = 0 ∧ absDiff f.rd.timeSigned now ≤ f.rd.fudge
      ∧ nameEq k.name f.owner = true ∧ nameEq k.algorithm f.rd.algorithm = true := by
  obtain ⟨s, p, owner, rd, k, c, c', hres, hfe, _, a, _⟩ :=
    accepted_of_read_any (verifyWith H) tbl strict w kr now rm none false r f c0 m0 h hf hck
  subst hfe
  obtain ⟨_, he, ht, hn, ha, _, hv, _⟩ := validateV_ok _ tbl w k owner rd now rm s none false c c' a.valid
  obtain ⟨hdat, _⟩ := validate_digests_stripped_message _ tbl w k owner rd now rm s c c' a.valid
  refine ⟨s, c, k, a.walk, hres, rfl, ?_, hdat, he, ht, hn, ha⟩
  simpa [verifyWith] using hv

/-- **the MAC input determines every RFC 8945 digest component** (the digested string is self-delimiting — the
message by its section counts, the two names as prefix-free codes — so no two different splittings of it are
possible).  Two messages accepted as signed and checked under any two keyrings, with the same request MAC, running
context and `multi`, whose MAC inputs are the same octet string, have their TSIG RR at the same offset `s`, the
same §4.3.2 "DNS message" (hence agree on *every octet from 2 to `s`*: all of the message but its ID, which
RFC 8945 replaces by the original ID), the same original ID, time signed and fudge; stand-alone / first messages
also the same error and other data and the same canonical key name and algorithm name (§4.3.3: names are digested
in canonical form, so their case and compression are not authenticated).  CLASS is ANY and — in the code as it is
now — TTL is 0 in both, or they would not have been accepted. -/
theorem mac_input_determines_content (V1 V2 : Verifier) (tbl : List AlgEntry) (st1 st2 : Bool) (w1 w2 : Bytes)
    (kr1 kr2 : Keyring) (now1 now2 : Nat) (rm : Bytes) (ctx : Option Ctx) (multi : Bool) (r1 r2 : ReadOk) (f1 f2 : Found)
    (c1 c2 : Ctx) (m1 m2 : Bytes) (ho1 : Tsig.OctetsOk w1) (ho2 : Tsig.OctetsOk w2)
    (h1 : readV V1 tbl st1 w1 kr1 now1 rm ctx multi = .ok r1) (hf1 : r1.tsig = some f1)
    (h2 : readV V2 tbl st2 w2 kr2 now2 rm ctx multi = .ok r2) (hf2 : r2.tsig = some f2)
    (hc1 : f1.checked = some (c1, m1)) (hc2 : f2.checked = some (c2, m2)) (hd : c1.data = c2.data) :
    ∃ s, walkTo w1 = some s ∧ walkTo w2 = some s ∧ (∀ i, 2 ≤ i → i < s → w1[i]? = w2[i]?)
      ∧ message f1.rd.originalId (stripTsig w1 s) = message f2.rd.originalId (stripTsig w2 s)
      ∧ f1.rd.originalId = f2.rd.originalId ∧ f1.rd.timeSigned = f2.rd.timeSigned ∧ f1.rd.fudge = f2.rd.fudge
      ∧ ((multi = false ∨ ctx = none) → f1.rd.error = f2.rd.error ∧ f1.rd.other = f2.rd.other
          ∧ canon f1.owner = canon f2.owner ∧ canon f1.rd.algorithm = canon f2.rd.algorithm) := by
  obtain ⟨s1, p1, o1, rd1, k1, c1', x1, _, e1, _, a1, _⟩ :=
    accepted_of_read_any V1 tbl st1 w1 kr1 now1 rm ctx multi r1 f1 c1 m1 h1 hf1 hc1
  obtain ⟨s2, p2, o2, rd2, k2, c2', x2, _, e2, _, a2, _⟩ :=
    accepted_of_read_any V2 tbl st2 w2 kr2 now2 rm ctx multi r2 f2 c2 m2 h2 hf2 hc2
  subst e1; subst e2
  simp only [Option.some.injEq, Prod.mk.injEq] at hc1 hc2
  obtain ⟨rfl, _⟩ := hc1
  obtain ⟨rfl, _⟩ := hc2
  obtain ⟨hs, hb, hdrop, hoid, ht, hfu, hr⟩ := same_input_same_content V1 V2 tbl w1 w2 k1 k2 now1 now2 rm ctx multi s1 s2 p1 p2
    o1 o2 rd1 rd2 c1' c2' x1 x2 ho1 ho2 a1 a2 hd
  subst hs
  obtain ⟨_, _, _, hn1, ha1, _⟩ := validateV_ok V1 tbl w1 k1 o1 rd1 now1 rm s1 ctx multi c1' x1 a1.valid
  obtain ⟨_, _, _, hn2, ha2, _⟩ := validateV_ok V2 tbl w2 k2 o2 rd2 now2 rm s1 ctx multi c2' x2 a2.valid
  refine ⟨s1, a1.walk, a2.walk, hb, ?_, hoid, ht, hfu, fun hfirst => ?_⟩
  · simp only [message, ← newWire_eq_stripTsig, hdrop, hoid]
  · obtain ⟨he, hot, hkn, hka⟩ := hr hfirst
    refine ⟨he, hot, ?_, ?_⟩
    · have e1 : canon o1 = canon k1.name := by
        rw [← digestable_eq_canon, ← digestable_eq_canon]; unfold digestable; rw [(nameEq_iff _ _).mp hn1]
      have e2 : canon o2 = canon k2.name := by
        rw [← digestable_eq_canon, ← digestable_eq_canon]; unfold digestable; rw [(nameEq_iff _ _).mp hn2]
      rw [e1, e2, hkn]
    · have e1 : canon rd1.algorithm = canon k1.algorithm := by
        rw [← digestable_eq_canon, ← digestable_eq_canon]; unfold digestable; rw [(nameEq_iff _ _).mp ha1]
      have e2 : canon rd2.algorithm = canon k2.algorithm := by
        rw [← digestable_eq_canon, ← digestable_eq_canon]; unfold digestable; rw [(nameEq_iff _ _).mp ha2]
      rw [e1, e2, hka]

/-- where an altered bit can hide, for both variants of the TTL decision point (`strict = true`: the code as it is
now, a TSIG RR with a non-zero TTL is BadTSIG; `strict = false`: the code as it was shipped) and every kind of
keyring.  If the genuine message and the message with bit `i` flipped are both returned as signed and checked, then
the (MAC input, MAC) pairs differ, or `i` is in the message ID, in the owner name of the TSIG RR (`s`…`p`), in the
algorithm name (from `p+10` up to the fixed-layout tail of the RDATA) or — in the as-shipped variant only — in the
4 TTL octets `p+4`…`p+7`. -/
theorem bitflip_location_variants (V V' : Verifier) (tbl : List AlgEntry) (strict : Bool) (w : Bytes) (kr : Keyring)
    (now now' : Nat) (rm : Bytes) (ctx : Option Ctx) (multi : Bool) (r r' : ReadOk) (f f' : Found) (i : Nat)
    (ho : Tsig.OctetsOk w) (hi : i < 8 * w.length) (hfirst : multi = false ∨ ctx = none)
    (h : readV V tbl strict w kr now rm ctx multi = .ok r) (hf : r.tsig = some f) (hck : f.checked ≠ none)
    (h' : readV V' tbl strict (flipBit w i) kr now' rm ctx multi = .ok r') (hf' : r'.tsig = some f')
    (hck' : f'.checked ≠ none) :
    ∃ s p c c', walkTo w = some s ∧ skipName w w.length (w.length + 1) s = some p
      ∧ f.checked = some (c, f.rd.mac) ∧ f'.checked = some (c', f'.rd.mac)
      ∧ ((c'.data ≠ c.data ∨ f'.rd.mac ≠ f.rd.mac)
          ∨ i < 16 ∨ (8 * s ≤ i ∧ i < 8 * p)
          ∨ (strict = false ∧ 8 * (p + 4) ≤ i ∧ i < 8 * (p + 8))
          ∨ (8 * (p + 10) ≤ i ∧ i / 8 + (tsigTail f.rd).length < w.length)) := by
  obtain ⟨⟨c0, m0⟩, hc0⟩ := Option.ne_none_iff_exists'.mp hck
  obtain ⟨⟨c0', m0'⟩, hc0'⟩ := Option.ne_none_iff_exists'.mp hck'
  obtain ⟨s, p, o, rd, k, c, c1, _, e, _, a, hst⟩ := accepted_of_read_any V tbl strict w kr now rm ctx multi r f c0 m0 h hf hc0
  obtain ⟨s', p', o', rd', k', c', c1', _, e', _, a', hst'⟩ :=
    accepted_of_read_any V' tbl strict (flipBit w i) kr now' rm ctx multi r' f' c0' m0' h' hf' hc0'
  subst e; subst e'
  refine ⟨s, p, c, c', a.walk, a.name, rfl, rfl, ?_⟩
  dsimp only
  by_cases hpair : c'.data = c.data ∧ rd'.mac = rd.mac
  · right
    have hi8 : i / 8 < w.length := by omega
    rcases flip_same_pair_location V V' tbl w k k' now now' rm ctx multi s p s' p' o o' rd rd' c c' c1 c1' i ho hi8 hfirst
      a a' hpair.1 hpair.2 with h1 | h1 | h1 | h1
    · left; omega
    · right; left; omega
    · right; right; left
      obtain ⟨hpp, hlo, hhi⟩ := h1
      refine ⟨?_, by omega, by omega⟩
      cases hs : strict with
      | false => rfl
      | true =>
        exfalso
        have hb := skipName_bounds _ _ _ _ _ a.name
        have hh := a.hdr
        exact flip_ttl_excluded w i p ho (by omega) (hst hs) (by rw [← hpp]; exact hst' hs) ⟨hlo, hhi⟩
    · right; right; right; omega
  · left
    by_cases hd : c'.data = c.data
    · right; intro hm; exact hpair ⟨hd, hm⟩
    · left; exact hd

/-- "rejects any single-bit alteration of authenticated content" — the code as it is now (`strict = true`), any
keyring.  **Every single-bit alteration is rejected by parsing / a check, or changes the (MAC input, MAC) pair,
or leaves every RFC 8945 digest component unchanged.**  Contrapositively: if the genuine message and the message
with bit `i` flipped are both returned as signed and checked and the same pair reached the comparison, then the
canonical owner and algorithm names are unchanged and `i` lies

* in the message ID (octets 0–1): RFC 8945 §4.3.2 digests the message "with the original message ID" taken from
  the TSIG RR, so the ID on the wire is deliberately not authenticated (forwarders rewrite it); or
* inside the owner-name encoding of the TSIG RR (`s`…`p`), the decoded name still being the same canonical name:
  §4.3.3 digests the key NAME "in canonical wire format" (lower case, uncompressed), and names are compared
  case-insensitively, so only the case of letters (or an equivalent encoding of the same name) can differ; or
* inside the algorithm-name encoding (`p+10` up to the fixed-layout tail of the RDATA), likewise with the same
  canonical algorithm name.

Nothing else: not the flags, counts, question or any record, not TYPE/CLASS/TTL/RDLENGTH of the TSIG RR, not
time signed, fudge, MAC size, MAC, original ID, error, other length or other data. -/
theorem bitflip_changes_input (V V' : Verifier) (tbl : List AlgEntry) (w : Bytes) (kr : Keyring) (now now' : Nat)
    (rm : Bytes) (ctx : Option Ctx) (multi : Bool) (r r' : ReadOk) (f f' : Found) (i : Nat)
    (ho : Tsig.OctetsOk w) (hi : i < 8 * w.length) (hfirst : multi = false ∨ ctx = none)
    (h : readV V tbl true w kr now rm ctx multi = .ok r) (hf : r.tsig = some f) (hck : f.checked ≠ none)
    (h' : readV V' tbl true (flipBit w i) kr now' rm ctx multi = .ok r') (hf' : r'.tsig = some f')
    (hck' : f'.checked ≠ none) :
    ∃ s p c c', walkTo w = some s ∧ skipName w w.length (w.length + 1) s = some p
      ∧ f.checked = some (c, f.rd.mac) ∧ f'.checked = some (c', f'.rd.mac)
      ∧ ((c'.data ≠ c.data ∨ f'.rd.mac ≠ f.rd.mac)
          ∨ (canon f'.owner = canon f.owner ∧ canon f'.rd.algorithm = canon f.rd.algorithm
              ∧ (i < 16 ∨ (8 * s ≤ i ∧ i < 8 * p)
                  ∨ (8 * (p + 10) ≤ i ∧ i / 8 + (tsigTail f.rd).length < w.length)))) := by
  obtain ⟨s, p, c, c', hs, hp, hc, hc', hcase⟩ :=
    bitflip_location_variants V V' tbl true w kr now now' rm ctx multi r r' f f' i ho hi hfirst h hf hck h' hf' hck'
  refine ⟨s, p, c, c', hs, hp, hc, hc', ?_⟩
  by_cases hd : c'.data = c.data
  case neg => exact Or.inl (Or.inl hd)
  rcases hcase with h1 | h1
  · exact Or.inl h1
  · right
    obtain ⟨_, _, _, _, _, _, _, _, hnames⟩ := mac_input_determines_content V' V tbl true true (flipBit w i) w kr kr now' now rm
      ctx multi r' r f' f c' c _ _ (flipBit_octets w i ho) ho h' hf' h hf hc' hc hd
    obtain ⟨_, _, hco, hca⟩ := hnames hfirst
    refine ⟨hco, hca, ?_⟩
    rcases h1 with h1 | h1 | h1 | h1
    · exact Or.inl h1
    · exact Or.inr (Or.inl h1)
    · simp at h1
    · exact Or.inr (Or.inr h1)

/-- the consequence under an explicit unforgeability hypothesis about the external HMAC (never an axiom):
suppose that, among contexts keyed with a secret the keyring can resolve, only the genuine (input, MAC) pair
verifies.  Then *every* single-bit alteration outside the message ID, the TSIG owner-name encoding and the
algorithm-name encoding is rejected or comes back without a checked TSIG.  Stated for both variants of the TTL
decision point and any keyring: for the retained as-shipped variant (`strict = false`) the TTL field must be
excluded by the explicit guard `hguard` (see `ttl_bit_accepted_in_asShipped_variant`); for the code as it is now
the guard is vacuous and the statement is `altered_bit_rejected` below. -/
theorem altered_bit_rejected_variants (strict : Bool) (H : Hmac) (tbl : List AlgEntry) (w : Bytes) (kr : Keyring)
    (now now' : Nat) (rm : Bytes)
    (r : ReadOk) (f : Found) (c : Ctx) (i s p : Nat) (ho : Tsig.OctetsOk w) (hi : i < 8 * w.length)
    (h : read H tbl strict w kr now rm none false = .ok r) (hf : r.tsig = some f)
    (hc : f.checked = some (c, f.rd.mac)) (hs : walkTo w = some s) (hp : skipName w w.length (w.length + 1) s = some p)
    (hunf : ∀ (c' : Ctx) (m' : Bytes), (∃ o rd k', resolveKey kr o rd = .ok (some k') ∧ c'.secret = k'.secret) →
      verifyWith H c' m' = true → c'.data = c.data ∧ m' = f.rd.mac)
    (hbit : 16 ≤ i ∧ ¬ (8 * s ≤ i ∧ i < 8 * p) ∧ ¬ (8 * (p + 10) ≤ i ∧ i / 8 + (tsigTail f.rd).length < w.length))
    (hguard : strict = false → ¬ (8 * (p + 4) ≤ i ∧ i < 8 * (p + 8))) :
    ∀ r', read H tbl strict (flipBit w i) kr now' rm none false = .ok r' →
      ∀ f', r'.tsig = some f' → f'.checked = none := by
  intro r' h' f' hf'
  cases hck' : f'.checked with
  | none => rfl
  | some cm =>
    exfalso
    have hck : f.checked ≠ none := by rw [hc]; simp
    have hck'' : f'.checked ≠ none := by rw [hck']; simp
    obtain ⟨s0, p0, c0, c', hs0, hp0, hc0, hc', hcase⟩ :=
      bitflip_location_variants (verifyWith H) (verifyWith H) tbl strict w kr now now' rm none false r r' f f' i ho hi
        (Or.inl rfl) h hf hck h' hf' hck''
    rw [hs] at hs0; cases hs0
    rw [hp] at hp0; cases hp0
    rw [hc] at hc0
    simp only [Option.some.injEq, Prod.mk.injEq, and_true] at hc0
    subst hc0
    -- the altered message's pair verified, so it is the genuine pair
    obtain ⟨s2, p2, o2, rd2, k2, c2, c2', hres2, e2, _, a2, _⟩ :=
      accepted_of_read_any (verifyWith H) tbl strict (flipBit w i) kr now' rm none false r' f' cm.1 cm.2 h' hf' (by rw [hck'])
    subst e2
    have hcc : c2 = c' := by simpa using hc'
    rw [← hcc] at hcase
    obtain ⟨_, _, _, _, _, hdig, hv, _⟩ := validateV_ok _ tbl _ k2 o2 rd2 now' rm s2 none false c2 c2' a2.valid
    have hsec : c2.secret = k2.secret := by
      unfold digest at hdig
      simp only [Bool.false_eq_true, if_false] at hdig
      split at hdig; · cases hdig
      rename_i c00 hc00
      split at hdig; · cases hdig
      cases hdig
      unfold getContext at hc00
      split at hc00
      · cases hc00
        by_cases hr : rm = [] <;> simp [Ctx.update, hr]
      · cases hc00
    obtain ⟨hd, hm⟩ := hunf c2 rd2.mac ⟨o2, rd2, k2, hres2, hsec⟩ hv
    rcases hcase with h1 | h1 | h1 | h1 | h1
    · rcases h1 with h1 | h1
      · exact h1 hd
      · exact h1 hm
    · omega
    · exact hbit.2.1 h1
    · exact hguard h1.1 h1.2
    · exact hbit.2.2 h1

/-- "Validation rejects every message whose authenticated content was altered in any bit" — the code as it is
now (the TTL repair 62699df is in: a TSIG RR with a non-zero TTL is BadTSIG), any keyring, no guard on the TTL
field: every bit of the message from the flags to the last octet of the other data, except the encodings of the
two names, is covered. -/
theorem altered_bit_rejected (H : Hmac) (tbl : List AlgEntry) (w : Bytes) (kr : Keyring) (now now' : Nat) (rm : Bytes)
    (r : ReadOk) (f : Found) (c : Ctx) (i s p : Nat) (ho : Tsig.OctetsOk w) (hi : i < 8 * w.length)
    (h : read H tbl true w kr now rm none false = .ok r) (hf : r.tsig = some f)
    (hc : f.checked = some (c, f.rd.mac)) (hs : walkTo w = some s) (hp : skipName w w.length (w.length + 1) s = some p)
    (hunf : ∀ (c' : Ctx) (m' : Bytes), (∃ o rd k', resolveKey kr o rd = .ok (some k') ∧ c'.secret = k'.secret) →
      verifyWith H c' m' = true → c'.data = c.data ∧ m' = f.rd.mac)
    (hbit : 16 ≤ i ∧ ¬ (8 * s ≤ i ∧ i < 8 * p) ∧ ¬ (8 * (p + 10) ≤ i ∧ i / 8 + (tsigTail f.rd).length < w.length)) :
    ∀ r', read H tbl true (flipBit w i) kr now' rm none false = .ok r' →
      ∀ f', r'.tsig = some f' → f'.checked = none :=
  altered_bit_rejected_variants true H tbl w kr now now' rm r f c i s p ho hi h hf hc hs hp hunf hbit (by simp)

/-- what `Message.use_tsig` picks from each kind of keyring: the key itself; a `dict` entry found by name (a
`bytes` secret becomes a `Key` with the given name and algorithm); what a callable returns for the name -/
theorem use_tsig_key (k : Key) (alg : Name) (n : Name) (f : Name → Option Key) (es : List (Name × KeyVal)) :
    useTsig (.key k) (some n) alg = some (k, k.name)
      ∧ useTsig (.callable f) (some n) alg = (f n).map (fun k => (k, n))
      ∧ (∀ sec, es.find? (fun e => nameEq e.1 n) = some (n, .secret sec) →
          useTsig (.dict es) (some n) alg = some (⟨n, sec, alg⟩, n))
      ∧ useTsig .absent (some n) alg = none := by
  refine ⟨rfl, rfl, ?_, rfl⟩
  intro sec h
  simp [useTsig, h]

/-! ## non-vacuity -/

def okOf {α} : Except Err α → Option α
  | .ok a => some a
  | .error _ => none

def errOf {α} : Except Err α → Option Err
  | .ok _ => none
  | .error e => some e

def exKey : Key := ⟨[[107], []], [1, 2, 3], [[104,109,97,99,45,115,104,97,50,53,54],[]]⟩
def exBody : Bytes := [0x12, 0x34, 1, 0, 0, 1, 0, 0, 0, 0, 0, 0, 1, 97, 0, 0, 1, 0, 1]
def exRd : Rdata := ⟨exKey.algorithm, 0, 300, [], 0x1234, 0, []⟩
def exH : Hmac := fun _ k d => k ++ d    -- a (collision-free) toy
def exSigned : Bytes × Rdata := match signMessage exH algTable exBody [1, 107, 0] exKey exRd 1000 [] none false with
  | .ok (w, rd', _) => (w, rd')
  | .error _ => ([], exRd)

/-- a key, a message body and a TSIG template meeting the hypotheses of `sign_then_validate` (HMAC-SHA256 row,
ARCOUNT 0, fudge 300, verification 299 s later), and what the model computes on them with a toy HMAC -/
example :
    (⟨exKey.algorithm, 4, 32, 0, 32⟩ : AlgEntry) ∈ algTable ∧ 12 ≤ exBody.length ∧ OctetsOk exBody
      ∧ rd16 exBody 10 + 1 < 65536 ∧ absDiff 1000 1299 ≤ exRd.fudge
      ∧ exSigned.2.mac.take 5 = [1, 2, 3, 0x12, 0x34]
      ∧ exSigned.1.length = exBody.length + (tsigRR [1, 107, 0] exSigned.2).length
      ∧ okOf (Tsig.validate exH algTable exSigned.1 exKey exKey.name exSigned.2 1299 [] exBody.length none false)
          = some none := by
  unfold Tsig.OctetsOk
  decide +kernel

/-- `reject_logic` distinguishes its branches: accepted at the edge of the window, BadTime one second later,
BadSignature for another MAC, BadKey / BadAlgorithm / PeerBadTime for the other checks -/
example :
    let w : Bytes := [0,7,0,0,0,0,0,0,0,0,0,1,0]
    let rd : Rdata := ⟨exKey.algorithm, 1000, 300, [9], 7, 0, []⟩
    okOf (Tsig.validate (fun _ _ _ => [9]) algTable w exKey exKey.name rd 1300 [] 12 none false) = some none
      ∧ errOf (Tsig.validate (fun _ _ _ => [9]) algTable w exKey exKey.name rd 1301 [] 12 none false) = some .badTime
      ∧ errOf (Tsig.validate (fun _ _ _ => [8]) algTable w exKey exKey.name rd 1300 [] 12 none false) = some .badSignature
      ∧ errOf (Tsig.validate (fun _ _ _ => [9]) algTable w exKey [[108], []] rd 1300 [] 12 none false) = some .badKey
      ∧ errOf (Tsig.validate (fun _ _ _ => [9]) algTable w exKey exKey.name { rd with algorithm := [[120], []] } 1300 [] 12 none false)
          = some .badAlgorithm
      ∧ errOf (Tsig.validate (fun _ _ _ => [9]) algTable w exKey exKey.name { rd with error := 18 } 1300 [] 12 none false)
          = some .peerBadTime := by
  decide +kernel

/-- what the reader reports on `w` at time `now` when it accepts it as signed: (MAC input, MAC) -/
def exAccepted (strict : Bool) (w : Bytes) (now : Nat) : Option (Bytes × Bytes) :=
  match read exH algTable strict w (.key exKey) now [] none false with
  | .ok r => match r.tsig with
    | some f => match f.checked with
      | some (c, m) => some (c.data, m)
      | none => none
    | none => none
  | .error _ => none

/-- the hypotheses of `accepted_carries_valid_mac`, `mac_input_determines_content`, `bitflip_changes_input` are
met by a concrete message: the reader accepts the message signed above (its TSIG RR starts at 19, the owner name
ends at 22), an ID bit flip is accepted with the same pair, a flip in the question is rejected. -/
example :
    (exAccepted true exSigned.1 1299).isSome = true ∧ walkTo exSigned.1 = some 19
      ∧ skipName exSigned.1 exSigned.1.length (exSigned.1.length + 1) 19 = some 22 ∧ OctetsOk exSigned.1
      ∧ exAccepted true (flipBit exSigned.1 3) 1299 = exAccepted true exSigned.1 1299
      ∧ exAccepted true (flipBit exSigned.1 110) 1299 = none
      ∧ exAccepted true (flipBit exSigned.1 (8 * 50)) 1299 = none := by
  unfold Tsig.OctetsOk
  decide +kernel

/-- the keyring-generic theorems are not vacuous for the other keyring shapes: the same message is accepted and
checked through a `dict` holding the bare secret, a `dict` holding the `Key`, and a callable; a keyring that does
not know the name, or none at all, is UnknownTSIGKey -/
example :
    let isChecked := fun (kr : Keyring) => match read exH algTable true exSigned.1 kr 1299 [] none false with
      | .ok r => (r.tsig.bind (·.checked)).isSome
      | .error _ => false
    isChecked (.dict [(exKey.name, .secret exKey.secret)]) = true
      ∧ isChecked (.dict [([[120], []], .key exKey), (exKey.name, .key exKey)]) = true
      ∧ isChecked (.callable fun n => if nameEq n exKey.name then some exKey else none) = true
      ∧ errOf (read exH algTable true exSigned.1 (.dict [([[120], []], .key exKey)]) 1299 [] none false) = some .unknownTSIGKey
      ∧ errOf (read exH algTable true exSigned.1 (.callable fun _ => none) 1299 [] none false) = some .unknownTSIGKey
      ∧ errOf (read exH algTable true exSigned.1 .absent 1299 [] none false) = some .unknownTSIGKey := by
  decide +kernel

/-- a statement about the **retained as-shipped model variant only** (`strict = false`, the code before the repair
62699df; the check probes the working tree and demands correspondence with `strict = true` now): bit 215 is the
last bit of the TTL field of the TSIG RR (octets 26–29) of the genuine message; in that variant altering it leaves
the message accepted with the very same (MAC input, MAC) pair, so the guard `hguard` of
`altered_bit_rejected_variants` cannot be dropped there.  In the current variant the same alteration is rejected. -/
theorem ttl_bit_accepted_in_asShipped_variant :
    8 * (22 + 4) ≤ 215 ∧ 215 < 8 * (22 + 8)
      ∧ (exAccepted false exSigned.1 1299).isSome = true
      ∧ exAccepted false (flipBit exSigned.1 215) 1299 = exAccepted false exSigned.1 1299
      ∧ exAccepted true (flipBit exSigned.1 215) 1299 = none := by
  decide +kernel

/-- the hypotheses of `sign_then_read` are satisfiable: the body, key and template of the examples above with the
plain owner encoding and an HMAC stand-in of 32 octets form a `SignedOk` envelope, at any signing time and any
verification time within the fudge of 300 s -/
private theorem exSignedOk (now vnow : Nat) (ht : now < 281474976710656) (hw : absDiff now vnow ≤ 300) :
    SignedOk (fun _ k d => (k ++ d).take 32) exKey exBody (toWire exKey.name) exKey.name exRd now vnow where
  alg := ⟨⟨exKey.algorithm, 4, 32, 0, 32⟩, by decide, rfl⟩
  bodyOk := ⟨by decide, by unfold Tsig.OctetsOk; decide, ⟨19, 19, 19, by decide +kernel, by decide +kernel, by decide +kernel, by decide +kernel⟩⟩
  cnt := by decide
  enc := ownerEncodes_plain _ _ (by refine ⟨?_, ?_, ?_⟩ <;> decide) (by decide)
  own := nameEq_refl _
  rdalg := rfl
  algWf := by refine ⟨?_, ?_, ?_⟩ <;> decide
  algAbs := by decide
  err := rfl
  time := ht
  fudge := by decide
  oid := by decide
  hmac := fun _ k d => by simp; omega
  size := by decide
  win := hw

/-- … and so are those of `sign_then_read_exchange`: signed, unsigned, unsigned, signed -/
example : ∀ e ∈ [SEnv.signed exBody (toWire exKey.name) exKey.name exRd 1000 1299, SEnv.unsigned exBody 1300,
      SEnv.unsigned exBody 1300, SEnv.signed exBody (toWire exKey.name) exKey.name exRd 1001 1301],
    SEnv.Ok (fun _ k d => (k ++ d).take 32) exKey e := by
  intro e he
  simp only [List.mem_cons, List.not_mem_nil, or_false] at he
  have hb : BodyOk exBody := (exSignedOk 0 0 (by decide) (by decide)).bodyOk
  rcases he with rfl | rfl | rfl | rfl
  · exact exSignedOk 1000 1299 (by decide) (by decide)
  · exact hb
  · exact hb
  · exact exSignedOk 1001 1301 (by decide) (by decide)

/-- `compressed_owner_encodes` / `sign_then_read_compressed` are not vacuous: in the example body (ARCOUNT raised to
1) the question name `a.` stands at offset 12; the table entry (`a.` ↦ 12) is sound there, and the key name `k.a.`
is then written as the label `k` and a pointer to 12 -/
example :
    let pre := setArcount exBody 1
    TableSound C01.lowEq pre [([[97], []], 12)]
      ∧ (match toWireC pre [([[97], []], 12)] [[107], [97], []] none with
          | .ok r => some r
          | .error _ => none)
          = some (pre ++ [1, 107, 192, 12], [([[97], []], 12), ([[107], [97], []], 19)])
      ∧ WfName [[107], [97], []] ∧ isAbs [[107], [97], []] = true := by
  intro pre
  refine ⟨?_, by decide +kernel, by refine ⟨?_, ?_, ?_⟩ <;> decide, by decide⟩
  intro p hp
  simp only [List.mem_cons, List.not_mem_nil, or_false] at hp
  subst hp
  refine ⟨by decide, [[97]], 15, ?_, rfl⟩
  have hroot : Dec pre 14 12 [] 15 := Dec.root 14 12 (by decide)
  exact Dec.label 12 12 1 [] 15 (by decide) (by decide) (by decide) (by decide) hroot

/-- `unsigned_envelope_digests_message_only` on a concrete buffer: the example body followed by three octets, read
with a running context holding `[7]`, leaves the context `[7] ++ body`; read strictly the same buffer is TrailingJunk -/
example :
    (match readVI true (fun _ _ => true) algTable true (exBody ++ [1, 2, 3]) (.key exKey) 0 [] (some ⟨[], 4, 0, [7]⟩) true with
      | .ok r => r.ctx.map (·.data)
      | .error _ => none) = some (7 :: exBody)
    ∧ errOf (readV (fun _ _ => true) algTable true (exBody ++ [1, 2, 3]) (.key exKey) 0 [] (some ⟨[], 4, 0, [7]⟩) true)
        = some .trailingJunk := by
  decide +kernel

/-- two request MACs of different length and of equal length (hypothesis of `request_mac_binding`) -/
example : ([] : Bytes) ≠ [0] ∧ ([1, 2] : Bytes) ≠ [1, 3] := by decide

end C14

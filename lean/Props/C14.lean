import Model.Tsig
import Proofs.TsigRfc
import Proofs.TsigDigest
import Proofs.TsigValidate
import Proofs.TsigExchange
/-!
# C14 — TSIG MACs follow RFC 8945; genuine messages verify, altered ones never do

Theorems of record.  `Model.Tsig` follows `dns/tsig.py`, `dns/rdtypes/ANY/TSIG.py`, the signing tail of
`Message.to_wire` / `Renderer._write_tsig` and the TSIG part of `dns.message._WireReader`.  `Rfc8945` is
RFC 8945 §4.3 / §5.3.1 / §6 written independently.  The HMAC is an arbitrary function `H` throughout; the
algorithm table and the literal constants (`ConstsC14.*`) are regenerated from the working tree on every run.
-/
namespace C14
open Model Model.Tsig Rfc8945

/-! ## the algorithm table (a finite obligation about the regenerated table) -/

/-- octets of MAC the code emits for a table row -/
def outLen (e : AlgEntry) : Nat := if e.trunc ≠ 0 then e.trunc / 8 else e.dsize

/-- "for every supported algorithm incl. truncated variants": the regenerated `HMACTSig._hashes` /
`mac_sizes` table is exactly RFC 8945 §6 — same names (up to case), same hash, same number of MAC octets; the
truncations are whole octets and never longer than the digest. -/
theorem alg_table_is_rfc8945 :
    (∀ e ∈ algTable, (lowerName e.name, e.hash, outLen e) ∈ algorithms ∧ e.dsize = hashLen e.hash
        ∧ e.trunc % 8 = 0 ∧ outLen e ≤ e.dsize ∧ e.macSize = outLen e)
    ∧ (∀ r ∈ algorithms, ∃ e ∈ algTable, (lowerName e.name, e.hash, outLen e) = r) := by
  decide +kernel

/-- the MAC the code computes is the HMAC of the context's octets under the row's hash, cut to the RFC length -/
theorem mac_is_truncated_hmac (H : Hmac) (key : Key) (e : AlgEntry) (data : Bytes) (c : Ctx)
    (he : lookupAlg algTable key.algorithm = some e) (hc : getContext algTable key = .ok c)
    (hH : (H e.hash key.secret data).length = e.dsize) (hle : outLen e ≤ e.dsize) :
    (c.update data).sign H = (H e.hash key.secret data).take (outLen e)
      ∧ ((c.update data).sign H).length = outLen e := by
  unfold getContext at hc
  rw [he] at hc
  cases hc
  unfold Ctx.sign Ctx.update outLen
  unfold outLen at hle
  by_cases ht : e.trunc = 0
  · simp [ht, hH, List.take_of_length_le] at hle ⊢
  · simp [ht] at hle ⊢
    omega

/-! ## the octets fed to the MAC -/

/-- "the MAC equals the HMAC over the specified digest components … for requests, responses bound to a
request MAC": whenever `_digest` starts a context (`first`), the octets fed are, in order, the request MAC
with its length (iff one was given), the message with the original ID, and the TSIG variables of §4.3.3. -/
theorem digest_input_is_rfc8945 (tbl : List AlgEntry) (wire : Bytes) (key : Key) (rd : Rdata) (time : Option Nat)
    (rm : Bytes) (ctx : Option Ctx) (multi : Bool) (c : Ctx)
    (hfirst : multi = false ∨ ctx = none)
    (h : digest tbl wire key rd time rm ctx multi = .ok c) :
    c.data = if rm = [] then requestInput rd.originalId wire (varsOf key rd time)
             else responseInput rm rd.originalId wire (varsOf key rd time) := by
  have hf : (if multi then ctx else none) = none := by
    rcases hfirst with h | h <;> simp [h]
  rw [digest_first_data tbl wire key rd time rm ctx multi c hf h]
  by_cases hr : rm = [] <;> simp [hr, requestInput, responseInput]

/-- on validation the "message" is the received one with the TSIG RR cut off and ARCOUNT decremented -/
theorem validate_digests_stripped_message (V : Verifier) (tbl : List AlgEntry) (wire : Bytes) (key : Key)
    (owner : Name) (rd : Rdata) (now : Nat) (rm : Bytes) (s : Nat) (c : Ctx) (c' : Option Ctx)
    (h : validateV V tbl wire key owner rd now rm s none false = .ok (c, c')) :
    c.data = (if rm = [] then requestInput rd.originalId (stripTsig wire s) (varsOf key rd none)
              else responseInput rm rd.originalId (stripTsig wire s) (varsOf key rd none))
      ∧ V c rd.mac = true := by
  obtain ⟨_, _, _, _, _, hd, hv, _⟩ := validateV_ok V tbl wire key owner rd now rm s none false c c' h
  refine ⟨?_, hv⟩
  rw [← newWire_eq_stripTsig]
  exact digest_input_is_rfc8945 tbl _ key rd none rm none false c (Or.inl rfl) hd

/-- "… and multi-message sequences", "any subset of intermediate messages unsigned": along a whole exchange
validated with `multi=True` and the context handed on, the octets at every MAC comparison are RFC 8945's:
first envelope as a request/response, later ones prior MAC ‖ unsigned messages since ‖ message ‖ timers. -/
theorem digest_input_is_rfc8945_exchange (V : Verifier) (tbl : List AlgEntry) (key : Key) (owner : Name) (now : Nat)
    (rm : Bytes) (envs : List Env) (l : List Bytes)
    (h : runExchange V tbl key owner now rm none envs = .ok l) :
    l = exchangeInputs rm none (envs.map (Env.toSpec key)) :=
  runExchange_inputs V tbl key owner now rm envs none none l (Or.inl ⟨rfl, rfl⟩) h

/-- the signing side of an exchange: a later signed envelope digests the running context (which
`_maybe_start_digest` started with the prior MAC and its length), the message, and the timers only -/
theorem sign_later_input (H : Hmac) (tbl : List AlgEntry) (wire : Bytes) (key : Key) (rd : Rdata) (time : Nat)
    (rm : Bytes) (c0 : Ctx) (rd' : Rdata) (c' : Option Ctx)
    (h : sign H tbl wire key rd time rm (some c0) true = .ok (rd', c')) :
    ∃ c : Ctx, c.data = c0.data ++ message rd.originalId wire ++ timers (varsOf key rd (some time))
      ∧ rd'.mac = c.sign H ∧ rd'.timeSigned = time
      ∧ ∃ c2 : Ctx, c' = some c2 ∧ c2.data = macField rd'.mac := by
  unfold sign at h
  split at h; · cases h
  rename_i c hd
  dsimp only at h
  cases hm : maybeStartDigest tbl key (c.sign H) true with
  | error e => rw [hm] at h; cases h
  | ok c2 =>
    rw [hm] at h
    obtain ⟨c3, hc3⟩ := maybeStart_multi tbl key _ c2 hm
    have hd3 := maybeStart_data tbl key _ c3 (hc3 ▸ hm)
    cases h
    exact ⟨c, digest_later_data tbl wire key rd (some time) rm c0 c hd, rfl, rfl, c3, hc3, hd3⟩

/-! ## every signed message validates under the same key -/

theorem lookupAlg_mem (tbl : List AlgEntry) (e : AlgEntry) (he : e ∈ tbl) : ∃ e', lookupAlg tbl e.name = some e' := by
  unfold lookupAlg
  have : (tbl.find? fun x => nameEq x.name e.name).isSome = true := by
    rw [List.find?_isSome]
    exact ⟨e, he, nameEq_refl e.name⟩
  exact Option.isSome_iff_exists.mp this

theorem digest_congr (tbl : List AlgEntry) (wire : Bytes) (key : Key) (rd rd' : Rdata) (t : Nat) (rm : Bytes)
    (ctx : Option Ctx) (multi : Bool)
    (h1 : rd'.originalId = rd.originalId) (h2 : rd'.fudge = rd.fudge) (h3 : rd'.error = rd.error)
    (h4 : rd'.other = rd.other) (h5 : rd'.timeSigned = t) :
    digest tbl wire key rd' none rm ctx multi = digest tbl wire key rd (some t) rm ctx multi := by
  unfold digest
  simp [h1, h2, h3, h4, h5]

theorem rd16_appendTsig (body o : Bytes) (rd : Rdata) (hl : 12 ≤ body.length) (hc : rd16 body 10 + 1 < 65536) :
    rd16 (appendTsig body o rd) 10 = rd16 body 10 + 1 := by
  unfold appendTsig setArcount
  have hlen : (List.take 10 (body ++ tsigRR o rd)).length = 10 := by simp; omega
  have := rd16_u16 (rd16 body 10 + 1) hc (List.take 10 (body ++ tsigRR o rd)) (List.drop 12 (body ++ tsigRR o rd))
  rw [hlen] at this
  exact this

/-- "every signed message validates under the same key", "for every supported algorithm": for every row of the
regenerated table, signing succeeds, and the message `Message.to_wire` then emits (body, TSIG RR appended,
ARCOUNT incremented) is accepted by `validate` with the same key, request MAC, context and `multi`, at any
time within the fudge window — whatever function the HMAC is.  The context handed on is the signer's. -/
theorem sign_then_validate (H : Hmac) (e : AlgEntry) (he : e ∈ algTable) (key : Key) (hk : key.algorithm = e.name)
    (body ownerEnc : Bytes) (rd : Rdata) (now vnow : Nat) (rm : Bytes) (ctx : Option Ctx) (multi : Bool)
    (hctx : ctx = none ∨ multi = true)
    (hl : 12 ≤ body.length) (ho : OctetsOk body) (hc : rd16 body 10 + 1 < 65536)
    (halg : rd.algorithm = key.algorithm) (herr : rd.error = 0) (hother : rd.other.length ≤ 65535)
    (hwin : absDiff now vnow ≤ rd.fudge) :
    ∃ wire rd' ctx', signMessage H algTable body ownerEnc key rd now rm ctx multi = .ok (wire, rd', ctx')
      ∧ wire = appendTsig body ownerEnc rd'
      ∧ Tsig.validate H algTable wire key key.name rd' vnow rm body.length ctx multi = .ok ctx' := by
  obtain ⟨e', he'⟩ := lookupAlg_mem algTable e he
  have hgc : ∃ c0, getContext algTable key = .ok c0 := by
    unfold getContext; rw [hk, he']; exact ⟨_, rfl⟩
  obtain ⟨c0, hc0⟩ := hgc
  -- `_digest` succeeds
  have hdig : ∃ c, digest algTable body key rd (some now) rm ctx multi = .ok c := by
    unfold digest
    have hnot : ¬ rd.other.length > ConstsC14.otherMax := by simp [ConstsC14.otherMax]; omega
    cases hm : (if multi then ctx else none) with
    | none => simp only [hc0, hnot, if_false]; exact ⟨_, rfl⟩
    | some c => simp only [hnot, if_false]; exact ⟨_, rfl⟩
  obtain ⟨c, hd⟩ := hdig
  have hms : ∃ c', maybeStartDigest algTable key (c.sign H) multi = .ok c' := by
    unfold maybeStartDigest
    cases multi <;> simp [hc0]
  obtain ⟨c', hm⟩ := hms
  refine ⟨_, { rd with timeSigned := now, mac := c.sign H }, c', ?_, rfl, ?_⟩
  · simp [signMessage, sign, hd, hm]
  · unfold Tsig.validate
    rw [validateV_spec]
    have h10 := rd16_appendTsig body ownerEnc { rd with timeSigned := now, mac := c.sign H } hl hc
    have hnw := newWire_appendTsig body ownerEnc { rd with timeSigned := now, mac := c.sign H } hl ho hc
    have hdc := digest_congr algTable body key rd { rd with timeSigned := now, mac := c.sign H } now rm ctx multi
      rfl rfl rfl rfl rfl
    simp only [h10, hnw, hdc, hd]
    have : ¬ absDiff now vnow > rd.fudge := by omega
    simp [this, hm, herr, halg, nameEq_refl, verifyWith]

/-! ## rejection logic -/

/-- "Validation rejects … a different key name / algorithm, time outside the fudge window, … a TSIG error":
the complete decision list of `validate`, in the order the code applies it.  `absDiff t now > fudge` is
`|now − time| > fudge`; `nameEq` is the library's case-insensitive name equality. -/
theorem reject_logic (H : Hmac) (tbl : List AlgEntry) (wire : Bytes) (key : Key) (owner : Name) (rd : Rdata)
    (now : Nat) (rm : Bytes) (s : Nat) (ctx : Option Ctx) (multi : Bool) :
    Tsig.validate H tbl wire key owner rd now rm s ctx multi =
      if rd16 wire 10 = 0 then .error .formError
      else if rd.error ≠ 0 then .error (peerErr rd.error)
      else if absDiff rd.timeSigned now > rd.fudge then .error .badTime
      else if nameEq key.name owner = false then .error .badKey
      else if nameEq key.algorithm rd.algorithm = false then .error .badAlgorithm
      else match digest tbl (newWire wire s) key rd none rm ctx multi with
        | .error e => .error e
        | .ok c =>
          if c.sign H ≠ rd.mac then .error .badSignature
          else maybeStartDigest tbl key rd.mac multi := by
  unfold Tsig.validate
  rw [validateV_spec]
  repeat' split
  all_goals first
    | rfl
    | (cases hms : maybeStartDigest tbl key rd.mac multi <;> simp_all [verifyWith] <;> (subst_vars; rfl))
    | simp_all [verifyWith]

/-- the error field maps to the documented peer errors; any non-zero value is a rejection -/
theorem tsig_error_rejected (H : Hmac) (tbl : List AlgEntry) (wire : Bytes) (key : Key) (owner : Name) (rd : Rdata)
    (now : Nat) (rm : Bytes) (s : Nat) (ctx : Option Ctx) (multi : Bool) (hw : rd16 wire 10 ≠ 0) (he : rd.error ≠ 0) :
    Tsig.validate H tbl wire key owner rd now rm s ctx multi = .error (peerErr rd.error)
      ∧ peerErr 16 = .peerBadSignature ∧ peerErr 17 = .peerBadKey ∧ peerErr 18 = .peerBadTime
      ∧ peerErr 22 = .peerBadTruncation := by
  refine ⟨?_, by decide, by decide, by decide, by decide⟩
  rw [reject_logic]; simp [hw, he]

/-- "a TSIG that is not the last record is a format error" (also: outside the additional section, or with a
class other than ANY): the reader raises BadTSIG — a FormError — before looking at the RDATA or the key -/
theorem tsig_not_last_is_formerror (V : Verifier) (tbl : List AlgEntry) (strict : Bool) (w : Bytes) (kr : Keyring)
    (now : Nat) (rm : Bytes) (multi : Bool) (sec count i : Nat) (st : RState) (p : Nat)
    (hn : skipName w w.length (w.length + 1) st.cur = some p) (hh : p + 10 ≤ w.length)
    (ht : rd16 w p = ConstsC14.typeTsig)
    (hbad : sec ≠ 3 ∨ i + 1 ≠ count ∨ rd16 w (p + 2) ≠ ConstsC14.classAny) :
    readRR V tbl strict w kr now rm multi sec count i st = .error .badTSIG := by
  unfold readRR
  simp only [hn]
  have : ¬ p + 10 > w.length := by omega
  simp only [this, if_false, ht, if_true]
  have hb : sec ≠ 3 ∨ rd16 w (p + 2) ≠ ConstsC14.classAny ∨ i + 1 ≠ count := by
    rcases hbad with h | h | h
    · exact Or.inl h
    · exact Or.inr (Or.inr h)
    · exact Or.inr (Or.inl h)
  simp [hb]

/-! ## request-MAC binding -/

/-- "responses bound to a request MAC", "rejects … a different request MAC": two different request MACs
(one of them possibly absent) never lead to the same MAC input, everything else being equal. -/
theorem request_mac_binding (tbl : List AlgEntry) (wire : Bytes) (key : Key) (rd : Rdata) (time : Option Nat)
    (rm1 rm2 : Bytes) (ctx : Option Ctx) (multi : Bool) (c1 c2 : Ctx)
    (hfirst : multi = false ∨ ctx = none)
    (h1 : digest tbl wire key rd time rm1 ctx multi = .ok c1)
    (h2 : digest tbl wire key rd time rm2 ctx multi = .ok c2)
    (hne : rm1 ≠ rm2) : c1.data ≠ c2.data := by
  have hf : (if multi then ctx else none) = none := by
    rcases hfirst with h | h <;> simp [h]
  rw [digest_first_data tbl wire key rd time rm1 ctx multi c1 hf h1,
    digest_first_data tbl wire key rd time rm2 ctx multi c2 hf h2]
  intro heq
  rw [List.append_assoc, List.append_assoc, List.append_left_inj] at heq
  by_cases e1 : rm1 = [] <;> by_cases e2 : rm2 = []
  · exact hne (e1.trans e2.symm)
  · simp only [e1, e2, if_true, if_false, macField] at heq
    have := congrArg List.length heq
    simp [be_length] at this
    try omega
  · simp only [e1, e2, if_true, if_false, macField] at heq
    have := congrArg List.length heq
    simp [be_length] at this
    try omega
  · simp only [e1, e2, if_false, macField] at heq
    exact hne (List.append_inj_right heq (by simp [be_length]))

/-- consequently a response validated against another request MAC is rejected with BadSignature, unless the
(possibly truncated) HMAC of two different inputs collides — collision-freeness under this key is the explicit
hypothesis `hcf`. -/
theorem request_mac_binding_rejects (H : Hmac) (tbl : List AlgEntry) (wire : Bytes) (key : Key) (owner : Name)
    (rd : Rdata) (now : Nat) (rm1 rm2 : Bytes) (s : Nat) (c1 : Ctx)
    (hgen : digest tbl (newWire wire s) key rd none rm1 none false = .ok c1) (hmac : rd.mac = c1.sign H)
    (hne : rm1 ≠ rm2)
    (hcf : ∀ c c' : Ctx, c.secret = c'.secret → c.hash = c'.hash → c.size = c'.size → c.sign H = c'.sign H →
      c.data = c'.data)
    (hpre : rd16 wire 10 ≠ 0 ∧ rd.error = 0 ∧ absDiff rd.timeSigned now ≤ rd.fudge ∧ nameEq key.name owner = true
      ∧ nameEq key.algorithm rd.algorithm = true) :
    Tsig.validate H tbl wire key owner rd now rm2 s none false = .error .badSignature := by
  obtain ⟨h0, he, ht, hk, ha⟩ := hpre
  rw [reject_logic]
  have : ¬ absDiff rd.timeSigned now > rd.fudge := by omega
  simp only [h0, he, this, hk, ha, if_false, ne_eq, not_true_eq_false, Bool.true_eq_false]
  obtain ⟨c0, hc0⟩ := getContext_ok_of_digest tbl _ key rd none rm1 c1 hgen
  cases hd2 : digest tbl (newWire wire s) key rd none rm2 none false with
  | error e =>
    -- `_digest` fails the same way for both request MACs
    exfalso
    unfold digest at hd2 hgen
    simp only [Bool.false_eq_true, if_false, hc0] at hd2 hgen
    split at hgen
    · cases hgen
    · rename_i hno; simp [hno] at hd2
  | ok c2 =>
    simp only
    have hdiff := request_mac_binding tbl _ key rd none rm1 rm2 none false c1 c2 (Or.inl rfl) hgen hd2 hne
    have hsame : c1.secret = c2.secret ∧ c1.hash = c2.hash ∧ c1.size = c2.size := by
      unfold digest at hd2 hgen
      simp only [Bool.false_eq_true, if_false, hc0] at hd2 hgen
      split at hgen
      · cases hgen
      · rename_i hno
        simp only [hno, if_false] at hd2
        cases hgen; cases hd2
        by_cases e1 : rm1 = [] <;> by_cases e2 : rm2 = [] <;> simp [Ctx.update, e1, e2]
    have : c2.sign H ≠ rd.mac := by
      intro heq
      exact hdiff (hcf c1 c2 hsame.1 hsame.2.1 hsame.2.2 (by rw [heq, hmac]))
    simp [this]

/-! ## non-vacuity -/

def okOf {α} : Except Err α → Option α
  | .ok a => some a
  | .error _ => none

def errOf {α} : Except Err α → Option Err
  | .ok _ => none
  | .error e => some e

def exKey : Key := ⟨[[107], []], [1, 2, 3], [[104,109,97,99,45,115,104,97,50,53,54],[]]⟩
def exBody : Bytes := [0x12, 0x34, 1, 0, 0, 1, 0, 0, 0, 0, 0, 0, 1, 97, 0, 0, 1, 0, 1]
def exRd : Rdata := ⟨exKey.algorithm, 0, 300, [], 0x1234, 0, []⟩
def exH : Hmac := fun _ k d => k ++ d.take 2
def exSigned : Bytes × Rdata := match signMessage exH algTable exBody [1, 107, 0] exKey exRd 1000 [] none false with
  | .ok (w, rd', _) => (w, rd')
  | .error _ => ([], exRd)

/-- a key, a message body and a TSIG template meeting the hypotheses of `sign_then_validate` (HMAC-SHA256 row,
ARCOUNT 0, fudge 300, verification 299 s later), and what the model computes on them with a toy HMAC -/
example :
    (⟨exKey.algorithm, 4, 32, 0, 32⟩ : AlgEntry) ∈ algTable ∧ 12 ≤ exBody.length ∧ OctetsOk exBody
      ∧ rd16 exBody 10 + 1 < 65536 ∧ absDiff 1000 1299 ≤ exRd.fudge
      ∧ exSigned.2.mac = [1, 2, 3, 0x12, 0x34] ∧ exSigned.1.length = exBody.length + 3 + 10 + 13 + 8 + 2 + 5 + 6
      ∧ okOf (Tsig.validate exH algTable exSigned.1 exKey exKey.name exSigned.2 1299 [] exBody.length none false)
          = some none := by
  unfold OctetsOk
  decide +kernel

/-- `reject_logic` distinguishes its branches: accepted at the edge of the window, BadTime one second later,
BadSignature for another MAC, BadKey / BadAlgorithm / PeerBadTime for the other checks -/
example :
    let w : Bytes := [0,7,0,0,0,0,0,0,0,0,0,1,0]
    let rd : Rdata := ⟨exKey.algorithm, 1000, 300, [9], 7, 0, []⟩
    okOf (Tsig.validate (fun _ _ _ => [9]) algTable w exKey exKey.name rd 1300 [] 12 none false) = some none
      ∧ errOf (Tsig.validate (fun _ _ _ => [9]) algTable w exKey exKey.name rd 1301 [] 12 none false) = some .badTime
      ∧ errOf (Tsig.validate (fun _ _ _ => [8]) algTable w exKey exKey.name rd 1300 [] 12 none false) = some .badSignature
      ∧ errOf (Tsig.validate (fun _ _ _ => [9]) algTable w exKey [[108], []] rd 1300 [] 12 none false) = some .badKey
      ∧ errOf (Tsig.validate (fun _ _ _ => [9]) algTable w exKey exKey.name { rd with algorithm := [[120], []] } 1300 [] 12 none false)
          = some .badAlgorithm
      ∧ errOf (Tsig.validate (fun _ _ _ => [9]) algTable w exKey exKey.name { rd with error := 18 } 1300 [] 12 none false)
          = some .peerBadTime := by
  decide +kernel

/-- two request MACs of different length and of equal length (hypothesis of `request_mac_binding`) -/
example : ([] : Bytes) ≠ [0] ∧ ([1, 2] : Bytes) ≠ [1, 3] := by decide

end C14

import Proofs.WritersLive
/-!
# C12 — Versioned-zone writers are serialized, FIFO and deadlock-free in every schedule

Theorems of record about `Model.Writers` (lean/Model/Writers.lean), the small-step model of `dns/versioned.py`'s
`Zone.writer`, `_maybe_wakeup_one_waiter_unlocked`, `_end_write*`, `_commit_version*`, `reader`, `_end_read`.
`Reach c n s`: `s` is reachable from the initial zone by **any** sequence of steps of threads `< n` (any `n`), whatever
their roles `c.role` (writer that commits / writer that rolls back / reader) and transaction bodies `c.body`;
one step = one source line that touches the lock, an event or a guarded field.
All statements are proved through one inductive invariant (`Model.Writers.Inv`, lean/Proofs/Writers*.lean).

Liveness ("every waiting writer is eventually admitted once its predecessors end") is proved under an explicit
**bounded-fairness** hypothesis (`FairExec c n k`: the scheduler never passes over a started, enabled thread more than `k`
times between two of its steps), in finitary form with an explicit bound (`eventually_admitted`): a writer that has
arrived is admitted within `360·(d+1)·(k+1)²` steps, `d` = admissions still needed (queue position + token holder + 1),
independently of the number of threads.  Plain weak fairness ("continuously enabled ⇒ eventually scheduled") is *not*
enough for this code: `threading.Lock` is not FIFO, so a writer (or the token holder) sitting in `acquire` is enabled
only intermittently and an unbounded stream of other lock users could overtake it forever; the skip bound is what rules
that out.  Transaction bodies terminate by construction (one model step).
-/
namespace C12
open Model.Writers

variable {c : Cfg} {n : Nat} {s s' : State}

/-- "at most one write transaction on a versioned zone is open at a time": two threads between admission
(`self._write_txn = Transaction(..)`) and the end of their transaction are the same thread, and it is `_write_txn`. -/
theorem mutex (h : Reach c n s) (t u : Tid) (ht : isOwner (s.loc t).pc = true) (hu : isOwner (s.loc u).pc = true) :
    t = u ∧ s.writeTxn = some t := by
  have hi := (reach_inv h).lk
  have h1 := (hi.own t).mp ht
  have h2 := (hi.own u).mp hu
  rw [h1] at h2
  exact ⟨Option.some.inj h2, h1⟩

example : ∃ s, Reach { role := fun _ => .writer true, body := fun t x => x ++ [t] } 2 s ∧ isOwner (s.loc 0).pc = true :=
  ⟨_, .step 0 (.step 0 (.step 0 (.step 0 (.step 0 .init (by decide) rfl) (by decide) rfl) (by decide) rfl) (by decide) rfl)
    (by decide) rfl, rfl⟩

/-- the critical sections of `_version_lock` exclude each other (what "exactly one thread owns the lock" means in the
model), and only the thread recorded as holder is inside one. -/
theorem lock_mutex (h : Reach c n s) (t u : Tid) (ht : holdsLock (s.loc t).pc = true)
    (hu : holdsLock (s.loc u).pc = true) : t = u ∧ s.lock = some t := by
  have hi := (reach_inv h).lk
  have h1 := (hi.lock t).mp ht
  have h2 := (hi.lock u).mp hu
  rw [h1] at h2
  exact ⟨Option.some.inj h2, h1⟩

/-- `token_set`: while `_write_event` is some event `e`, no write transaction is open (except for the instant between
the token holder's `self._write_txn = ..` and `self._write_event = None`), and `e` has been `set()` unless the thread
that popped it is still between `popleft()` and `set()` under the lock. -/
theorem token_set (h : Reach c n s) (e : Ev) (he : s.writeEvent = some e) :
    (s.writeTxn = none ∨ (s.writeTxn = some (s.owner e) ∧ (s.loc (s.owner e)).pc = .wClrEv)) ∧
    (s.lock = none → e ∈ s.evSet) := by
  have hi := reach_inv h
  obtain ⟨_, _, _, _, hset, htx⟩ := hi.ev.tok e he
  refine ⟨?_, ?_⟩
  · rcases htx with h1 | h1
    · exact .inl h1
    · exact .inr ⟨(hi.lk.own _).mp (by rw [h1]; rfl), h1⟩
  · intro hl
    rcases hset with h1 | h1
    · exact h1
    · exact absurd hl h1.2.1

/-- `token_unique`: exactly one thread holds the event that is `_write_event` in its local variable `event`; it is on its
way to admission (`wait` → re-acquire → test → create the transaction), so no other thread can pass the admission test. -/
theorem token_unique (h : Reach c n s) (e : Ev) (he : s.writeEvent = some e) :
    (s.loc (s.owner e)).ev = some e ∧ tokenPc (s.loc (s.owner e)).pc = true ∧ e ∉ s.waiters ∧
    ∀ u, (s.loc u).ev = some e → u = s.owner e := by
  have hi := reach_inv h
  obtain ⟨_, hev, hpc, hnw, _, _⟩ := hi.ev.tok e he
  exact ⟨hev, hpc, hnw, fun u hu => ((hi.ev.evLt u e hu).2).symm⟩

/-- `queue_exact` (1): every event in `_write_waiters` belongs to exactly one thread, which is parked on it
(`event.wait()` or the release just before), the event is not set and is not the token; the queue has no duplicates. -/
theorem queue_sound (h : Reach c n s) :
    s.waiters.Nodup ∧ ∀ e ∈ s.waiters, (s.loc (s.owner e)).ev = some e ∧ queuedPc (s.loc (s.owner e)).pc = true ∧
      e ∉ s.evSet ∧ s.writeEvent ≠ some e ∧ ∀ u, (s.loc u).ev = some e → u = s.owner e := by
  have hi := reach_inv h
  refine ⟨hi.ev.wqNodup, fun e he => ?_⟩
  obtain ⟨_, h1, h2, h3, h4⟩ := hi.ev.wq e he
  exact ⟨h1, h2, h3, h4, fun u hu => ((hi.ev.evLt u e hu).2).symm⟩

/-- `queue_exact` (2): every blocked writer is accounted for: a thread parked in `event.wait()` has its event either in
the queue or as the token (so a wake-up is never lost: nobody waits on an event that nobody will set). -/
theorem queue_complete (h : Reach c n s) (t : Tid) (ht : (s.loc t).pc = .wWait) :
    ∃ e, (s.loc t).ev = some e ∧ (e ∈ s.waiters ∨ s.writeEvent = some e) := by
  have hi := reach_inv h
  obtain ⟨h1, h2⟩ := hi.ev.wait t ht
  rcases hev : (s.loc t).ev with _ | e
  · exact absurd hev h1
  · exact ⟨e, rfl, h2 e hev⟩

/-- `queue_exact` (3), the arrival order: the writers in the order of their first critical section in `writer()` are
the admitted ones, then the token holder, then the owners of the queued events in queue order, then the writer that is
in its first critical section right now. -/
theorem queue_exact (h : Reach c n s) : s.arrivals = s.admitted ++ (tokPart s ++ s.waiters.map s.owner ++ inCS s) :=
  (reach_inv h).q.queue

/-- `no_orphan`: with the lock free, a non-empty waiter queue always has somebody who will pop it: an open write
transaction or an outstanding token. -/
theorem no_orphan (h : Reach c n s) (hl : s.lock = none) (htx : s.writeTxn = none) (hev : s.writeEvent = none) :
    s.waiters = [] := by
  have hi := reach_inv h
  apply Classical.byContradiction
  intro hne
  rcases hi.ev.orphan hne with h1 | h1 | h1 | h1
  · exact h1 htx
  · exact h1 hev
  · exact h1.1 hl
  · exact h1.1 hl

/-- `fifo`: "writers are admitted in the order they started waiting": the admission order is a prefix of the arrival
order (order of the first critical section, in which a writer either is admitted or enqueues itself). -/
theorem fifo (h : Reach c n s) : s.admitted <+: s.arrivals := fifo_of_inv (reach_inv h).q

/-- `deadlock_free` / no lost wake-up: in every reachable state in which some thread of the pool is not finished, some
thread of the pool can take a step. -/
theorem deadlock_free (h : Reach c n s) (t : Tid) (ht : t < n) (hd : (s.loc t).pc ≠ .done) :
    ∃ u, u < n ∧ (step c s u).isSome := by
  obtain ⟨u, hu, he⟩ := deadlock_free_aux (reach_inv h) ht hd
  exact ⟨u, hu, (enabled_iff c s u).mpr he⟩

/-- the holder of the wake-up token is never blocked by anything but a (bounded) lock hold. -/
theorem token_holder_enabled (h : Reach c n s) (e : Ev) (he : s.writeEvent = some e) (hl : s.lock = none) :
    (step c s (s.owner e)).isSome := by
  have hi := reach_inv h
  obtain ⟨_, hev, hpc, _, hset, _⟩ := hi.ev.tok e he
  have hin : e ∈ s.evSet := by
    rcases hset with h1 | h1
    · exact h1
    · exact absurd hl h1.2.1
  apply (enabled_iff c s _).mpr
  apply free_enabled hi hl
  · intro hd; rw [hd] at hpc; cases hpc
  · intro _; exact ⟨e, hev, hin⟩

/-- `bounded_bypass` (safety form of "every waiting writer is eventually admitted once its predecessors end"):
the writer whose event is at position `k` of the queue in state `s` is, in every later state `s'`, the admission number
`p = |admitted| + |token holder| + k` (counting from 0): exactly the `k` waiters before it and the token holder are
admitted in between, nobody else, and it is not admitted before that (it is in `admitted` exactly when more than `p`
writers have been admitted); every admission needs the previous transaction to have ended
(`|admitted| = ends + [a transaction is open]`), so it is admitted after exactly `k + 1` further write-ends when a
transaction is open in `s`. -/
theorem bounded_bypass (h : Reach c n s) {k : Nat} {e : Ev} (hk : s.waiters[k]? = some e) (hs : ReachFrom c n s s') :
    s'.arrivals[s.admitted.length + (tokPart s).length + k]? = some (s.owner e) ∧
    (∀ hlt : s.admitted.length + (tokPart s).length + k < s'.admitted.length,
        s'.admitted[s.admitted.length + (tokPart s).length + k] = s.owner e) ∧
    (s.owner e ∈ s'.admitted ↔ s.admitted.length + (tokPart s).length + k < s'.admitted.length) ∧
    s'.admitted.length = s'.ends + (if s'.writeTxn = none then 0 else 1) := by
  obtain ⟨h1, h2, h3⟩ := bounded_bypass_aux h hk hs
  exact ⟨h1, h2, admitted_iff_position (reach_of_reachFrom h hs) h1, h3⟩

/-- every writer arrives once: the arrival order has no repetition (so "position in the arrival order" is meaningful). -/
theorem arrivals_nodup (h : Reach c n s) : s.arrivals.Nodup := (reach_invArr h).nodup

/-- a parked writer is never stuck *for lack of an enabled step*: its event is queued or is the token; some thread can
move; and if it holds the token and the lock is free, it can move itself (the safety core of liveness, no fairness needed). -/
theorem waiting_writer_not_stuck (h : Reach c n s) (t : Tid) (ht : t < n) (hw : (s.loc t).pc = .wWait) :
    (∃ e, (s.loc t).ev = some e ∧ (e ∈ s.waiters ∨ s.writeEvent = some e)) ∧
    (∃ u, u < n ∧ (step c s u).isSome) ∧
    (∀ e, (s.loc t).ev = some e → s.writeEvent = some e → s.lock = none → (step c s t).isSome) := by
  refine ⟨queue_complete h t hw, deadlock_free h t ht (by rw [hw]; decide), ?_⟩
  intro e he hwe hl
  have := token_holder_enabled h e hwe hl
  rwa [(token_unique h e hwe).2.2.2 t he]

variable {k L : Nat} {sk sk' : Tid → Nat}

/-- the ranking argument: for a writer `w` that has arrived and is not yet admitted, **every** step of a `k`-fair
scheduler decreases `rank` = flattened lexicographic measure (admissions still needed; steps left of the thread the next
admission waits for: owner of the open transaction / the thread waking the head of the queue / the token holder;
its fairness budget; `lockFuel` of a foreign lock holder; that holder's fairness budget). -/
theorem fair_step_decreases_rank (h : Reach c n s) (w : Tid) (hw : w ∈ s.arrivals) (hna : w ∉ s.admitted) {t : Tid}
    (hst : FStep c k s sk t s' sk') :
    rank k s' sk' (stageThread s') (stageM s' w) < rank k s sk (stageThread s) (stageM s w) :=
  writer_rank_step h hw hna hst

/-- liveness in the form that speaks about every fair execution, short or long: after `L` steps of a `k`-fair execution
either `w` has been admitted, or the rank has gone down by at least `L` (and the rank is at most
`admitBound k d = 360·(d+1)·(k+1)²`, `d` = admissions still needed). -/
theorem fair_execution_bound (h : Reach c n s) (w : Tid) (hw : w ∈ s.arrivals) (hx : FairExec c n k s sk L s' sk') :
    w ∈ s'.admitted ∨
      (L + rank k s' sk' (stageThread s') (stageM s' w) ≤ rank k s sk (stageThread s) (stageM s w) ∧
        rank k s sk (stageThread s) (stageM s w) ≤ admitBound k (needD s w)) := by
  rcases writer_admitted_or_rank h hw hx with h1 | ⟨_, h1⟩
  · exact .inl h1
  · refine .inr ⟨h1, Nat.le_trans (rank_le _ _ _ _ _) ?_⟩
    have hf := stageFuel_lt (s.loc (stageThread s)).pc
    unfold admitBound
    have : 9 * (stageM s w + 1) ≤ 360 * (needD s w + 1) := by unfold stageM; omega
    exact Nat.mul_le_mul_right _ (Nat.mul_le_mul_right _ this)

/-- `eventually_admitted` ("every waiting writer is eventually admitted once its predecessors end"), finitary form under
bounded fairness: from any reachable state, along **every** `k`-fair execution of length at least
`admitBound k d = 360·(d+1)·(k+1)²`, a writer that has arrived (`w ∈ arrivals`: it has been through its first critical
section, where it either was admitted or enqueued itself) has been admitted; `d = needD s w` is the number of admissions
still needed.  The bound does not depend on the number of threads nor on what other writers and readers do. -/
theorem eventually_admitted (h : Reach c n s) (w : Tid) (hw : w ∈ s.arrivals) (hx : FairExec c n k s sk L s' sk')
    (hL : admitBound k (needD s w) ≤ L) : w ∈ s'.admitted :=
  eventually_admitted_aux h hw hx hL

/-- the same for a writer parked in `event.wait()` -/
theorem eventually_admitted_waiting (h : Reach c n s) (w : Tid) (hw : (s.loc w).pc = .wWait)
    (hx : FairExec c n k s sk L s' sk') (hL : admitBound k (needD s w) ≤ L) : w ∈ s'.admitted :=
  eventually_admitted_aux h (waiting_mem_arrivals h hw) hx hL

/-- the same in terms of the queue: the writer whose event is at position `j` of `_write_waiters` needs at most `j + 2`
admissions (the token holder, the `j` waiters before it, itself), hence is admitted within `360·(j+3)·(k+1)²` steps. -/
theorem eventually_admitted_queue (h : Reach c n s) {j : Nat} {e : Ev} (hj : s.waiters[j]? = some e)
    (hx : FairExec c n k s sk L s' sk') (hL : admitBound k (j + 2) ≤ L) : s.owner e ∈ s'.admitted := by
  obtain ⟨hmem, hd⟩ := needD_of_queue h hj
  have := tokPart_length_le s
  exact eventually_admitted_aux h hmem hx (Nat.le_trans (admitBound_mono (by omega)) hL)

/-- an execution that a fair scheduler cannot continue (no thread of the pool enabled) has admitted every writer that had
arrived: together with `eventually_admitted` this covers executions shorter than the bound. -/
theorem admitted_when_quiescent (h : Reach c n s) (w : Tid) (hw : w ∈ s.arrivals)
    (hq : ∀ u, u < n → (step c s u).isSome = false) : w ∈ s.admitted := by
  apply Classical.byContradiction
  intro hna
  have hi := reach_inv h
  have hp := pending_ne_nil h hw hna
  have hpos := stage_pc hi hp
  have hnd := stageFuel_not_idle _ hpos
  have hσn : stageThread s < n := lt_of_not_idle hi hnd.1
  obtain ⟨u, hu, he⟩ := deadlock_free h (stageThread s) hσn hnd.2
  rw [hq u hu] at he; cases he

/-- `serial_equivalence`: "the final zone equals the serial application of the committed transactions in admission
order": `zone.nodes` is the fold of the bodies of the committed transactions, which are the admitted committing
transactions in admission order (minus the one still open). In particular the private copy taken by the deferred
`_setup_version` outside the lock is the zone as of admission (`InvSer.snapA`), because only the owner can commit. -/
theorem serial_equivalence (h : Reach c n s) :
    s.nodes = applyTxns c s.committed ∧
    admittedCommitters c s = s.committed ++ curCommitter c s ∧
    (s.writeTxn = none → s.nodes = applyTxns c (admittedCommitters c s)) := by
  have hi := (reach_inv h).ser
  refine ⟨hi.nodes, hi.ac, fun hw => ?_⟩
  rw [hi.ac, hi.nodes]
  simp [curCommitter, hw]

/-- the snapshot handed to an admitted writer is the current zone (no lost update), or the empty version for
`writer(replacement=True)`; and the version id it was given is the next one. -/
theorem snapshot_is_current (h : Reach c n s) (t : Tid) (ht : snapAPc (s.loc t).pc = true) :
    (s.loc t).snap = (if c.repl t then [] else s.nodes) ∧ (s.loc t).vid = s.versions.length + 1 := by
  have hi := (reach_inv h).ser
  refine ⟨hi.snapA t ht, hi.vid t ?_⟩
  revert ht; cases (s.loc t).pc <;> simp

/-- the `replacement` option in the serial reading: committing transaction `t` makes the zone `body t zone`, or
`body t []` when `t` was opened with `writer(replacement=True)`: whatever earlier transactions wrote is discarded, and
nothing of a concurrent or later transaction is. -/
theorem serial_step (c : Cfg) (ts : List Tid) (t : Tid) :
    applyTxns c (ts ++ [t]) = c.body t (if c.repl t then [] else applyTxns c ts) :=
  applyTxns_snoc c ts t

/-- `readers_atomic`: "readers never observe a partially applied transaction": the version a reader holds is one of the
*published* versions (the first `|committed| + 1` elements of `_versions`; the element appended by a commit that is still
in progress, and that is withdrawn again if the pruning policy raises, is never handed out), and every published
version is the serial application of a prefix of the admitted committing transactions (version id = prefix length + 1). -/
theorem readers_atomic (h : Reach c n s) :
    (∀ t, readerHasPc (s.loc t).pc = true → (s.loc t).rver ∈ s.versions.take (s.committed.length + 1)) ∧
    ∀ v ∈ s.versions.take (s.committed.length + 1),
      ∃ i, i ≤ s.committed.length ∧ v = (i + 1, applyTxns c ((admittedCommitters c s).take i)) := by
  have hi := (reach_inv h).ser
  refine ⟨hi.rver, fun v hv => ?_⟩
  obtain ⟨i, hi', hv'⟩ := List.getElem_of_mem hv
  rw [List.length_take] at hi'
  have hlt : i < s.versions.length := by omega
  refine ⟨i, by omega, hi.versions i v (by omega) ?_⟩
  rw [List.getElem_take] at hv'
  rw [List.getElem?_eq_getElem hlt, hv']

/-- a commit whose pruning policy raises (`c.pruneFails t`; any callback, the theorems hold for every choice) behaves as a
rollback with hand-off: the appended version is withdrawn under the same lock hold (`cUndo`), the zone content and the
list of committed transactions do not change, the transaction does not count among the committers, and its end wakes the
next waiter like every other end (all the admission theorems above quantify over this path too). -/
theorem failed_commit_is_rollback (h : Reach c n s) (t : Tid) (ht : (s.loc t).pc = .cUndo) :
    c.pruneFails t = true ∧ willCommit c t = false ∧ s.writeTxn = some t ∧ s.lock = some t ∧
    s.nodes = applyTxns c s.committed ∧ s.versions.length = s.committed.length + 2 ∧
    ∃ s', step c s t = some s' ∧ s'.versions = s.versions.dropLast ∧ s'.versions.length = s'.committed.length + 1 ∧
      s'.nodes = s.nodes ∧ s'.committed = s.committed ∧ (s'.loc t).pc = .eTxnNone := by
  have hi := reach_inv h
  have hf := hi.ser.undoF t ht
  have hw := (hi.lk.own t).mp (by rw [ht]; rfl)
  have hl := (hi.lk.lock t).mp (by rw [ht]; rfl)
  have hlen := hi.ser.vlen
  rw [nAppended_of_own hw] at hlen
  simp [ht] at hlen
  refine ⟨hf, by simp [willCommit, hf], hw, hl, hi.ser.nodes, by omega, ?_⟩
  refine ⟨{ s with versions := s.versions.dropLast }.setLoc t { s.loc t with pc := .eTxnNone }, by simp [step, ht],
    rfl, ?_, rfl, rfl, by simp⟩
  simp [List.length_dropLast]; omega

/-- transactions whose commit failed leave no trace in the final zone: with no transaction open, the zone is the serial
application of the admitted transactions that commit *and* whose pruning went through. -/
theorem serial_equivalence_failed_commits (h : Reach c n s) (hw : s.writeTxn = none) :
    s.nodes = applyTxns c (s.admitted.filter fun t => c.role t == .writer true && !c.pruneFails t) :=
  (serial_equivalence h).2.2 hw

/-- `readers_nonblocking` (1): "readers never wait for a write transaction to end": a reader thread is never parked on an
event; the only thing that can stop it is `_version_lock` being held at this instant. -/
theorem readers_nonblocking (h : Reach c n s) (t : Tid) (hr : c.role t = .reader) (hd : (s.loc t).pc ≠ .done)
    (hl : s.lock = none) : (step c s t).isSome := by
  have hp := reader_pcs h t hr
  apply (enabled_iff c s t).mpr
  apply free_enabled (reach_inv h) hl hd
  intro hw; rw [hw] at hp; cases hp

/-- `readers_nonblocking` (2): every hold of `_version_lock` is a straight-line section of at most 8 steps: the holder is
never blocked (no `wait`, no second `acquire` under the lock), each of its steps decreases `lockFuel`, and it releases
when `lockFuel` reaches 0. -/
theorem lock_hold_bounded (h : Reach c n s) (u : Tid) (hl : s.lock = some u) :
    lockFuel (s.loc u).pc ≤ 8 ∧
    ∃ s', step c s u = some s' ∧ lockFuel (s'.loc u).pc < lockFuel (s.loc u).pc ∧
      ((s'.lock = some u ∧ 0 < lockFuel (s'.loc u).pc) ∨ (s'.lock = none ∧ lockFuel (s'.loc u).pc = 0)) := by
  have hi := reach_inv h
  have he := (enabled_iff c s u).mpr (holder_enabled hi hl)
  obtain ⟨s', hs'⟩ := Option.isSome_iff_exists.mp he
  exact ⟨lockFuel_le _, s', hs', holder_progress hi.lk hl (step_trans hs')⟩

/-- `readers_nonblocking` (4), *which steps happen inside the critical section*: the deferred `_setup_version()` (version
id, the copy of the whole node map, the public `writable_version_factory` hook) and the transaction body run **without**
the lock: a thread at one of these program points does not hold `_version_lock`, nobody holds it on its behalf, and every
program point at which the lock *is* held is one of the bounded bookkeeping points counted by `lockFuel`
(`lock_hold_bounded`): no callback, copy or wait among them.  So while an admitted writer builds its version, readers
can open and close and further writers can enqueue as soon as the lock is free of a bookkeeping holder. -/
theorem setup_outside_lock (h : Reach c n s) (t : Tid)
    (ht : (s.loc t).pc = .wSetupId ∨ (s.loc t).pc = .wSetupCopy ∨ (s.loc t).pc = .wReturn ∨ (s.loc t).pc = .wBody) :
    s.lock ≠ some t ∧ s.writeTxn = some t ∧
    (∀ u, s.lock = some u → 0 < lockFuel (s.loc u).pc ∧ (s.loc u).pc ≠ .wSetupId ∧ (s.loc u).pc ≠ .wSetupCopy ∧
      (s.loc u).pc ≠ .wBody) ∧
    (s.lock = none → ∀ r, c.role r = .reader → (s.loc r).pc ≠ .done → (step c s r).isSome) := by
  have hi := reach_inv h
  have hnl : holdsLock (s.loc t).pc = false := by rcases ht with h1 | h1 | h1 | h1 <;> rw [h1] <;> rfl
  have hown : isOwner (s.loc t).pc = true := by rcases ht with h1 | h1 | h1 | h1 <;> rw [h1] <;> rfl
  refine ⟨fun hl => ?_, (hi.lk.own t).mp hown, fun u hu => ?_, fun hl r hr hd => readers_nonblocking h r hr hd hl⟩
  · have := (hi.lk.lock t).mpr hl; rw [hnl] at this; cases this
  · have hh := (hi.lk.lock u).mpr hu
    refine ⟨(lockFuel_pos_iff _).mpr hh, ?_, ?_, ?_⟩ <;> (intro e; rw [e] at hh; cases hh)

/-- `readers_nonblocking` (3): the steps of other threads neither move the lock holder nor take the lock from it. -/
theorem lock_hold_stable (h : Reach c n s) (u t : Tid) (hl : s.lock = some u) (hne : t ≠ u)
    (hs : step c s t = some s') : s'.lock = some u ∧ s'.loc u = s.loc u :=
  holder_stable (reach_inv h).lk hl hne (step_trans hs)

/-- `readers_wait_free` (1), own steps: a reader's program is straight-line: every own step uses up at least one unit of
`readerFuel` (11 at the call of `reader()`, 6 when `reader()` has returned, 0 when `_end_read` has returned; a lookup
`reader(id=..)` / `reader(serial=..)` that finds nothing skips from the lookup to the release): `reader()` completes in at
most 5 own steps and `_end_read` in 4, no retry loop, whatever the writers do. -/
theorem reader_own_steps (h : Reach c n s) (r : Tid) (hrole : c.role r = .reader) (hs : step c s r = some s') :
    readerFuel (s'.loc r).pc + 1 ≤ readerFuel (s.loc r).pc :=
  reader_step_fuel hrole (reader_pcs h r hrole) (step_trans hs)

/-- `reader(id=k)` hands out the published version with that id, never anything else: a reader holding a version holds
one of the published versions, and if it asked for id `k` (and got one) the version has id `k`. -/
theorem reader_by_id (h : Reach c n s) (r : Tid) (k : Nat) (v : Nat × Content) (hp : (s.loc r).pc = .rdPick)
    (hk : c.pick r = .byId k) (hf : s.versions.find? (fun v => v.1 == k) = some v) :
    ∃ s', step c s r = some s' ∧ (s'.loc r).rver = v ∧ v.1 = k ∧ v ∈ s.versions.take (s.committed.length + 1) := by
  have hi := reach_inv h
  have hs : step c s r = some (s.setLoc r { s.loc r with pc := .rdAdd, rver := v }) := by simp [step, hp, hk, hf]
  have hi' := reach_inv (.step r h (lt_of_not_idle hi (by rw [hp]; decide)) hs)
  refine ⟨_, hs, by simp, by simpa using List.find?_some hf, ?_⟩
  have := hi'.ser.rver r (by simp)
  simpa using this

/-- `readers_wait_free` (2), what can delay a reader: an unfinished reader can take its next step unless another thread
holds `_version_lock` at this instant (a hold that ends within 8 steps of that thread, `lock_hold_bounded`): no condition
on `_write_txn`, `_write_event` or the waiter queue appears. -/
theorem reader_blocked_only_by_lock (h : Reach c n s) (r : Tid) (hrole : c.role r = .reader)
    (hd : (s.loc r).pc ≠ .done) : (step c s r).isSome ∨ ∃ v, s.lock = some v ∧ v ≠ r := by
  rcases reader_enabled (reach_inv h) (reader_pcs h r hrole) hd with h1 | h1
  · exact .inl ((enabled_iff c s r).mpr h1)
  · exact .inr h1

/-- `readers_wait_free` (3), finitary form under bounded fairness: a reader that has called `reader()` has returned from
`_end_read` after at most `108·(k+1)²` steps of any `k`-fair execution: a bound in which no write transaction, queue
length or number of threads appears (each of its 10 own steps costs at most `k` passes plus `k` lock hand-overs of at
most 8 steps, each delayed by at most `k` passes). -/
theorem readers_wait_free (h : Reach c n s) (r : Tid) (hrole : c.role r = .reader) (hst : (s.loc r).pc ≠ .idle)
    (hx : FairExec c n k s sk L s' sk') (hL : 108 * (k + 1) * (k + 1) ≤ L) : (s'.loc r).pc = .done := by
  rcases reader_finishes h hrole hst hx with h1 | h1
  · exact h1
  · apply Classical.byContradiction
    intro hnd
    have hr' := reach_of_reachFrom h (reachFrom_of_fairExec hx)
    have hp' := reader_pcs hr' r hrole
    have hidle' := not_idle_reachFrom hst (reachFrom_of_fairExec hx)
    have hpos : 0 < readerFuel (s'.loc r).pc := by
      revert hp' hnd hidle'; cases (s'.loc r).pc <;> simp
    have hrp : 0 < rank k s' sk' r (readerFuel (s'.loc r).pc) := rank_pos hpos
    have hle := rank_le k s sk r (readerFuel (s.loc r).pc)
    have hf : readerFuel (s.loc r).pc ≤ 10 := by
      have hp := reader_pcs h r hrole
      revert hp hst; cases (s.loc r).pc <;> simp
    have h2 : 9 * (readerFuel (s.loc r).pc + 1) * (k + 1) * (k + 1) ≤ 108 * (k + 1) * (k + 1) :=
      Nat.mul_le_mul_right _ (Nat.mul_le_mul_right _ (by omega))
    omega

/-! ## Non-vacuity: the protocol's rare interleaving is reachable in the model

Writer 0 is admitted, writer 1 queues, writer 0 commits and wakes 1 (token out, event set), and writer 2 arrives
*between the wake-up and the woken thread re-taking the lock*: it must queue behind the token. -/
def demoCfg : Cfg := { role := fun _ => .writer true, body := fun t x => x ++ [t] }

def demoSchedule : List Tid :=
  [0, 0, 0, 0, 0, 0, 0,            -- writer 0: call, event=None, acquire, test, create txn, clear event, release
   1, 1, 1, 1, 1, 1, 1,            -- writer 1: call … acquire, test fails, new event, append, release
   0, 0, 0, 0,                     -- writer 0: setup id, copy, return, body
   0, 0, 0, 0, 0, 0, 0, 0, 0,      -- writer 0: acquire, append version, prune, nodes, txn=None, test, popleft, set, release
   2, 2, 2, 2, 2, 2, 2]            -- writer 2: arrives now: test fails because the token is out

example : ∃ s, run demoCfg init demoSchedule = some s ∧ s.writeTxn = none ∧ s.writeEvent = some 0 ∧ s.waiters = [1] ∧
    s.admitted = [0] ∧ s.arrivals = [0, 1, 2] ∧ s.nodes = [0] := ⟨_, rfl, rfl, rfl, rfl, rfl, rfl, rfl⟩

/-- the state after `demoSchedule` -/
def demoState : State := (run demoCfg init demoSchedule).getD init

theorem demo_reach : Reach demoCfg 3 demoState :=
  reach_of_run demoSchedule demoState (by decide) rfl

-- hypotheses of `token_set` / `token_unique` / `token_holder_enabled` (token out, lock free)
example : demoState.writeEvent = some 0 ∧ demoState.lock = none ∧ demoState.owner 0 = 1 := ⟨rfl, rfl, rfl⟩
-- hypotheses of `queue_sound` / `bounded_bypass` (a non-empty queue: writer 2 at position 0, behind the token holder 1)
example : demoState.waiters[0]? = some 1 ∧ demoState.owner 1 = 2 ∧ (tokPart demoState).length = 1 := ⟨rfl, rfl, rfl⟩
-- hypotheses of `queue_complete` (a thread parked in `event.wait()`), of `deadlock_free` (an unfinished thread)
example : (demoState.loc 1).pc = .wWait ∧ (demoState.loc 2).pc ≠ .done := ⟨rfl, by decide⟩
-- `bounded_bypass` instantiated: writer 2 is admission number 2 (after 0 and the token holder 1) in every later state
example (s' : State) (hs : ReachFrom demoCfg 3 demoState s') : (2 ∈ s'.admitted ↔ 2 < s'.admitted.length) :=
  (bounded_bypass demo_reach (k := 0) (e := 1) rfl hs).2.2.1

/-- one writer and one reader: the reader is admitted while the write transaction is open and sees the old version -/
def demoCfgR : Cfg := { role := fun t => if t = 0 then .writer true else .reader, body := fun t x => x ++ [t + 7] }
def demoScheduleR : List Tid :=
  [0, 0, 0, 0, 0, 0, 0, 0, 0, 0, 0,    -- writer 0 admitted, version set up, body run
   1, 1, 1, 1, 1, 1,                  -- reader 1: call, acquire, pick, register, release, return
   0, 0, 0, 0,                        -- writer 0: acquire, append version, prune, publish nodes
   1]                                 -- reader 1 reads
def demoStateR : State := (run demoCfgR init demoScheduleR).getD init

theorem demoR_reach : Reach demoCfgR 2 demoStateR :=
  reach_of_run demoScheduleR demoStateR (by decide) rfl

-- hypotheses of `readers_atomic` / `readers_nonblocking` / `lock_hold_bounded`: a reader holding version 1 while version 2
-- exists, the writer inside its commit section
example : readerHasPc (demoStateR.loc 1).pc = true ∧ (demoStateR.loc 1).seen = [] ∧ demoStateR.versions = [(1, []), (2, [7])] ∧
    demoStateR.lock = some 0 ∧ demoCfgR.role 1 = .reader ∧ demoStateR.nodes = [7] := ⟨rfl, rfl, rfl, rfl, rfl, rfl⟩

/-- writer 0 appends and commits; writer 1 is a `writer(replacement=True)` that queues behind it, then commits: the zone is
what writer 1 wrote alone -/
def demoCfgRepl : Cfg :=
  { role := fun _ => .writer true, body := fun t x => x ++ [t + 5], repl := fun t => t == 1 }
def demoScheduleRepl : List Tid :=
  [0, 0, 0, 0, 0, 0, 0, 1, 1, 1, 1, 1, 1, 1, 0, 0, 0, 0, 0, 0, 0, 0, 0, 0, 0, 0, 0,
   1, 1, 1, 1, 1, 1, 1, 1, 1, 1, 1, 1, 1, 1, 1, 1, 1]
example : ∃ s, run demoCfgRepl init demoScheduleRepl = some s ∧ s.admitted = [0, 1] ∧ s.committed = [0, 1] ∧
    s.nodes = [6] ∧ s.versions = [(1, []), (2, [5]), (3, [6])] ∧ applyTxns demoCfgRepl [0, 1] = [6] :=
  ⟨_, rfl, rfl, rfl, rfl, rfl, rfl⟩

/-- writer 0's commit fails in the pruning policy while writer 1 is queued behind it: the version is withdrawn, writer 1 is
woken, admitted and commits on top of the *old* zone -/
def demoCfgFail : Cfg :=
  { role := fun _ => .writer true, body := fun t x => x ++ [t + 5], pruneFails := fun t => t == 0 }
def demoScheduleFail : List Tid :=
  [0, 0, 0, 0, 0, 0, 0, 1, 1, 1, 1, 1, 1, 1, 0, 0, 0, 0, 0, 0, 0]   -- 0 admitted, 1 queued, 0 appends its version
def demoStateFail : State := (run demoCfgFail init demoScheduleFail).getD init
example : (demoStateFail.loc 0).pc = .cUndo ∧ demoStateFail.versions = [(1, []), (2, [5])] ∧ demoStateFail.nodes = [] ∧
    demoStateFail.waiters = [0] := ⟨rfl, rfl, rfl, rfl⟩
example : ∃ s, run demoCfgFail init (demoScheduleFail ++ [0, 0, 0, 0, 0, 0,
      1, 1, 1, 1, 1, 1, 1, 1, 1, 1, 1, 1, 1, 1, 1, 1, 1]) = some s ∧
    s.admitted = [0, 1] ∧ s.committed = [1] ∧ s.nodes = [6] ∧ s.versions = [(1, []), (2, [6])] ∧
    (s.loc 0).pc = .done ∧ (s.loc 1).pc = .done := ⟨_, rfl, rfl, rfl, rfl, rfl, rfl, rfl⟩

/-- a writer commits twice-removed history: reader 1 asks for version id 1 (found: the initial empty version), reader 2's
lookup finds nothing (`KeyError`): it releases the lock and is finished without ever registering -/
def demoCfgPick : Cfg :=
  { role := fun t => if t = 0 then .writer true else .reader, body := fun t x => x ++ [t + 5],
    pick := fun t => if t = 1 then .byId 1 else if t = 2 then .missing else .latest }
example : ∃ s, run demoCfgPick init ([0,0,0,0,0,0,0,0,0,0,0,0,0,0,0,0,0,0] ++ [1,1,1,1,1,1] ++ [2,2,2,2]) = some s ∧
    s.versions = [(1, []), (2, [5])] ∧ (s.loc 1).rver = (1, []) ∧ s.readers = [1] ∧ (s.loc 2).pc = .done ∧ s.lock = none :=
  ⟨_, rfl, rfl, rfl, rfl, rfl, rfl⟩

/-! ## Non-vacuity of the fairness hypotheses

A 2-fair execution of three committing writers that all start before the first one is admitted (70 steps): writers 1
and 2 queue up and are admitted in arrival order.  (The length hypothesis `admitBound k d ≤ L` of `eventually_admitted`
is met only by long executions, i.e. large pools whose threads start a few at a time: the bound is independent of `n`
while a pool of `n` threads has executions of length up to about `40·n`; `fair_execution_bound` and
`admitted_when_quiescent` are the forms that also speak about short executions.) -/
def fairSchedule : List Tid :=
  [0, 1, 2, 0, 1, 2, 0, 0, 0, 0, 0, 1, 0, 1, 0, 1, 0, 1, 0, 1, 2, 2, 2, 2, 2, 0, 0, 0, 0, 0, 0, 0, 0, 0, 1, 1, 1, 1, 1, 1,
   1, 1, 1, 1, 1, 1, 1, 1, 1, 1, 1, 1, 1, 2, 2, 2, 2, 2, 2, 2, 2, 2, 2, 2, 2, 2, 2, 2, 2, 2]

/-- state after the first 20 steps: writer 0 holds the transaction, writer 1 is queued, writer 2 has not arrived yet -/
def fairMid : State × (Tid → Nat) := (fairRun demoCfg 3 2 init (fun _ => 0) (fairSchedule.take 20)).getD (init, fun _ => 0)

example : fairMid.1.admitted = [0] ∧ fairMid.1.waiters = [0] ∧ fairMid.1.owner 0 = 1 ∧ fairMid.1.arrivals = [0, 1] ∧
    needD fairMid.1 1 = 1 ∧ (fairMid.1.loc 1).pc = .wWait := ⟨rfl, rfl, rfl, rfl, rfl, rfl⟩

theorem fairMid_reach : Reach demoCfg 3 fairMid.1 :=
  reach_of_reachFrom .init (reachFrom_of_fairExec
    (fairExec_of_fairRun (k := 2) (fairSchedule.take 20) init (fun _ => 0) fairMid.1 fairMid.2
      (by intro u _; exact ⟨rfl, rfl⟩) rfl))

/-- a 2-fair execution of 50 steps from there, at the end of which the waiting writers 1 and 2 have been admitted -/
theorem fairMid_exec : ∃ s' sk', FairExec demoCfg 3 2 fairMid.1 fairMid.2 50 s' sk' ∧ s'.admitted = [0, 1, 2] ∧
    s'.nodes = [0, 1, 2] := by
  have hpool := fairRun_pool (c := demoCfg) (n := 3) (k := 2) (fairSchedule.take 20) init (fun _ => 0) fairMid.1 fairMid.2
    (by intro u _; exact ⟨rfl, rfl⟩) rfl
  exact ⟨_, _, fairExec_of_fairRun (fairSchedule.drop 20) fairMid.1 fairMid.2 _ _ hpool rfl, rfl, rfl⟩

end C12

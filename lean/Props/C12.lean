import Model.Writers
/-! # C12 — placeholder while the proofs are being built -/
namespace C12
open Model.Writers
theorem init_reach (c : Cfg) (n : Nat) : Reach c n init := .init
end C12

import Proofs.SetAlg
import Proofs.SetAlg2
import Proofs.SetAlg3
import Generated.C07
/-!
# C07 — Records and record sets have value semantics and exact set algebra

Theorems of record.  `Model.SetAlg` follows `dns/set.py` (the insertion-ordered dict used as a set is an
insertion-ordered duplicate-free list; every loop is the code's loop), `Model.Rdataset` follows
`dns/rdataset.py` and the value semantics of `dns/rdata.py` over an abstract record.  They are tied to the
code by the correspondence check on whole operation histories.
-/
namespace C07
open Model Model.SetAlg Model.RdsProofs

variable {α : Type} [DecidableEq α]

/-- "A record set is a mathematical set …: duplicates collapse" — every operation of `dns.set.Set`, in place
or copying, aliased or not, keeps the items duplicate-free. -/
theorem nodup_preserved (s o : List α) (x : α) (hs : s.Nodup) :
    (add s x).Nodup ∧ (discard s x).Nodup ∧ (update s o).Nodup ∧ (ofList o).Nodup ∧
    (unionUpdate s o).Nodup ∧ (interUpdate s o).Nodup ∧ (diffUpdate s o).Nodup ∧ (symDiffUpdate s o).Nodup ∧
    (union s o).Nodup ∧ (inter s o).Nodup ∧ (diff s o).Nodup ∧ (symDiff s o).Nodup ∧
    (∀ r, remove s x = some r → r.Nodup) ∧ (∀ y r, pop s = some (y, r) → r.Nodup) ∧
    (∀ i r, delItem s i = some r → r.Nodup) ∧ (∀ a b st, (delSlice s a b st).Nodup) :=
  ⟨nodup_add s x hs, nodup_discard s x hs, nodup_unionUpdate s o hs, nodup_ofList o,
   nodup_unionUpdate s o hs, nodup_interUpdate s o hs, nodup_diffUpdate s o hs, nodup_symDiffUpdate s o hs,
   nodup_unionUpdate s o hs, nodup_interUpdate s o hs, nodup_diffUpdate s o hs, nodup_symDiffUpdate s o hs,
   fun r h => nodup_remove s r x hs h, fun y r h => nodup_pop s r y hs h,
   fun i r h => nodup_delItem s r i hs h, fun a b st => nodup_delSlice s a b st hs⟩

/-- "… that remembers first-insertion order" and "union, intersection, difference, symmetric difference …
agree with set theory": the four loops of the code, run on duplicate-free operands, produce exactly
`self`'s surviving items in their order followed (for union and symmetric difference) by `other`'s new
items in `other`'s order. -/
theorem ops_closed_form (s o : List α) (hs : s.Nodup) (ho : o.Nodup) :
    unionUpdate s o = s ++ o.filter (fun x => decide (x ∉ s)) ∧
    interUpdate s o = s.filter (fun x => decide (x ∈ o)) ∧
    diffUpdate s o = s.filter (fun x => decide (x ∉ o)) ∧
    symDiffUpdate s o = s.filter (fun x => decide (x ∉ o)) ++ o.filter (fun x => decide (x ∉ s)) :=
  ⟨unionUpdate_eq s o ho, interUpdate_eq s o hs, diffUpdate_eq s o hs, symDiffUpdate_eq s o hs ho⟩

/-- the membership laws of set theory for the four operations (consequence of the closed forms; for union
no hypothesis at all is needed). -/
theorem mem_laws (s o : List α) (x : α) (hs : s.Nodup) (ho : o.Nodup) :
    (x ∈ unionUpdate s o ↔ x ∈ s ∨ x ∈ o) ∧
    (x ∈ interUpdate s o ↔ x ∈ s ∧ x ∈ o) ∧
    (x ∈ diffUpdate s o ↔ x ∈ s ∧ x ∉ o) ∧
    (x ∈ symDiffUpdate s o ↔ (x ∈ s ∧ x ∉ o) ∨ (x ∈ o ∧ x ∉ s)) := by
  refine ⟨mem_unionUpdate s o x, ?_, ?_, ?_⟩
  · rw [interUpdate_eq s o hs]; simp
  · rw [diffUpdate_eq s o hs]; simp
  · rw [symDiffUpdate_eq s o hs ho]; simp

/-- "subset and disjointness agree with set theory" -/
theorem predicates (s o : List α) :
    (isSubset s o = true ↔ ∀ x ∈ s, x ∈ o) ∧ (isSuperset s o = true ↔ ∀ x ∈ o, x ∈ s) ∧
    (isDisjoint s o = true ↔ ∀ x, ¬ (x ∈ s ∧ x ∈ o)) :=
  ⟨isSubset_iff s o, isSuperset_iff s o, isDisjoint_iff s o⟩

/-- "(in-place and copying forms alike)": a copying form is the in-place form run on a clone, and the clone
has the same items in the same order. -/
theorem inplace_eq_copy (s o : List α) :
    union s o = unionUpdate s o ∧ inter s o = interUpdate s o ∧ diff s o = diffUpdate s o ∧
    symDiff s o = symDiffUpdate s o :=
  ⟨rfl, rfl, rfl, rfl⟩

/-- aliasing `self is other`: the four special-cased branches of the code return what the general loop
(which would mutate a dict while iterating it) denotes at `other = self`, i.e. what set theory says for
`a ∪ a`, `a ∩ a`, `a \ a`, `a △ a`. -/
theorem self_alias_ok (s : List α) (hs : s.Nodup) :
    unionUpdateSelf s = unionUpdate s s ∧ interUpdateSelf s = interUpdate s s ∧
    diffUpdateSelf s = diffUpdate s s ∧ symDiffUpdateSelf s = symDiffUpdate s s :=
  ⟨(unionUpdate_self s hs).symm, (interUpdate_self s hs).symm, (diffUpdate_self s hs).symm,
   (symDiffUpdate_self s hs).symm⟩

/-- "equality ignores order": `Set.__eq__` holds exactly when the two sets have the same members. -/
theorem eq_ignores_order (s o : List α) (hs : s.Nodup) (ho : o.Nodup) :
    setEq s o = true ↔ ∀ x, x ∈ s ↔ x ∈ o :=
  setEq_iff s o hs ho

/-- the small mutators: `add` inserts (at the end, only if absent), `discard`/`remove` delete exactly the
item, `remove` refuses an absent item, `pop` returns the most recently inserted item. -/
theorem small_mutators (s : List α) (x y : α) (hs : s.Nodup) :
    (y ∈ add s x ↔ y ∈ s ∨ y = x) ∧ (x ∈ s → add s x = s) ∧ (x ∉ s → add s x = s ++ [x]) ∧
    (y ∈ discard s x ↔ y ∈ s ∧ y ≠ x) ∧ ((remove s x).isSome ↔ x ∈ s) ∧
    (∀ r, pop s = some (y, r) → s = r ++ [y]) := by
  refine ⟨mem_add s x y, ?_, ?_, mem_discard s x y hs, remove_iff s x, fun r h => pop_spec s r y h⟩
  · intro h; simp [add, h]
  · intro h; simp [add, h]

/-! ## records (`dns.rdata.Rdata.__eq__`, `__hash__`, `_cmp` over the abstract record) -/

/-- "two records are equal iff they have the same class and type and the same DNSSEC canonical encoding"
(and the same relativity of their embedded names, as coded): the sequence of tests of `__eq__` decides
exactly equality of the four components, i.e. equality of abstract records. -/
theorem rdata_eq_iff (a b : Rd) :
    (rdEq a b = true ↔ a.cls = b.cls ∧ a.typ = b.typ ∧ a.rel = b.rel ∧ a.dig = b.dig) ∧
      (rdEq a b = true ↔ a = b) :=
  ⟨rdEq_iff a b, rdEq_iff_eq a b⟩

/-- "equal records hash equally", whatever Python's `hash` on bytes is. -/
theorem rdata_hash_congr (H : Bytes → Nat) (a b : Rd) (h : rdEq a b = true) : rdHash H a = rdHash H b := by
  rw [(rdEq_iff_eq a b).1 h]

/-- "record ordering is canonical RDATA octet order": `_cmp` decides the strict total order "relative records
first, then lexicographic octet order of the canonical encoding" (`rdLt`, stated with core `List.lt`);
the three outcomes are exclusive and exhaustive, `== 0` exactly on equal relativity and encoding, and the
order is transitive. -/
theorem cmp_total_order (a b c : Rd) :
    (rdCmp a b < 0 ↔ rdLt a b) ∧ (rdCmp a b > 0 ↔ rdLt b a) ∧
    (rdCmp a b = 0 ↔ a.rel = b.rel ∧ a.dig = b.dig) ∧
    (rdCmp a b < 0 ↔ rdCmp b a > 0) ∧
    (rdCmp a b < 0 → rdCmp b c < 0 → rdCmp a c < 0) := by
  refine ⟨rdCmp_lt a b, rdCmp_gt a b, rdCmp_eq a b, ?_, ?_⟩
  · rw [rdCmp_lt, rdCmp_gt]
  · intro h1 h2
    exact (rdCmp_lt a c).2 (rdLt_trans ((rdCmp_lt a b).1 h1) ((rdCmp_lt b c).1 h2))

/-! ## record sets (`dns.rdataset.Rdataset`) -/

/-- "A record of a different class, type or covered type is refused": `add` raises `IncompatibleTypes`
leaving the rdataset untouched, resp. `DifferingCovers` leaving records and `covers` untouched. -/
theorem add_refuses (sing : List Nat) (s : Rds) (rd : Rd) (ttl : Option Nat) :
    ((s.cls ≠ rd.cls ∨ s.typ ≠ rd.typ) → rdsAdd sing s rd ttl = (s, some .incompatibleTypes)) ∧
    (s.cls = rd.cls → s.typ = rd.typ → (s.typ = 46 ∨ s.typ = 24) → ¬ (s.items = [] ∧ s.covers = 0) →
      s.covers ≠ rd.covers →
      (rdsAdd sing s rd ttl).2 = some .differingCovers ∧ (rdsAdd sing s rd ttl).1.items = s.items ∧
        (rdsAdd sing s rd ttl).1.covers = s.covers) :=
  ⟨rdsAdd_incompatible sing s rd ttl, rdsAdd_differingCovers sing s rd ttl⟩

/-- "singleton types keep only the newest record": after a successful `add` of a record of a singleton type
to a non-empty rdataset the rdataset contains exactly that record; for every other type `add` is `Set.add`. -/
theorem singleton_keeps_newest (sing : List Nat) (s : Rds) (rd : Rd) (ttl : Option Nat)
    (hc : s.cls = rd.cls) (ht : s.typ = rd.typ) (hns : ¬ (s.typ = 46 ∨ s.typ = 24)) :
    (rdsAdd sing s rd ttl).2 = none ∧
    (rd.typ ∈ sing → s.items ≠ [] → (rdsAdd sing s rd ttl).1.items = [rd]) ∧
    (rd.typ ∉ sing → (rdsAdd sing s rd ttl).1.items = SetAlg.add s.items rd) := by
  rw [rdsAdd_ok sing s rd ttl hc ht hns]
  obtain ⟨_, _, _, _, i5⟩ := insertStep_fields sing (mergeTtl s ttl) rd
  rw [(mergeTtl_fields s ttl).1] at i5
  refine ⟨rfl, ?_, ?_⟩
  · intro h1 h2
    have : s.items.length > 0 := List.length_pos_iff.2 h2
    simp only [i5, h1, this, and_self, if_true]
  · intro h1
    simp only [i5, h1, false_and, if_false]

/-- the generated singleton set is the one the model is run with; SOA and CNAME are in it (non-vacuity of
`singleton_keeps_newest` against the code's current table) -/
theorem singletons_generated : 5 ∈ Consts.singletons ∧ 6 ∈ Consts.singletons ∧ 1 ∉ Consts.singletons := by
  decide

/-- the singleton table regenerated from `dns.rdatatype._singletons` on every run (and fed to the model the
driver runs) is pinned to the specification, not trusted: exactly CNAME 5 (RFC 1034 §3.6.2, RFC 2181 §10.1),
SOA 6 (RFC 1035, RFC 2181 §6.1), NXT 30 (RFC 2535 §5.1), DNAME 39 (RFC 6672 §2.4) and NSEC 47 (RFC 4035 §2.3) — the
list documented by `is_singleton()`.  A type added to or dropped from the code's table breaks this obligation;
so "singleton types keep only the newest record" is a statement about these five types. -/
theorem singletons_are_rfc : Consts.singletons = [5, 6, 30, 39, 47] := by decide

/-- the types whose records carry a covered type are SIG 24 and RRSIG 46 (RFC 2535 §4.1, RFC 4034 §3.1): the
model's own literal, which `Rdataset.add` is tied to by the correspondence check with signature pools -/
theorem sig_types_are_rfc : sigTypes = [24, 46] := rfl

/-- "the set's TTL is the minimum of the TTLs merged into it", stated over histories exactly as the code
behaves: after any sequence of operations (each possibly raising, binary ones with arbitrary or aliased
operands) on a freshly constructed rdataset, the TTL equals the minimum of the TTLs merged (constructor
argument, `add(…, ttl)`, `update_ttl`, and the other operand's TTL in `union_update`, `intersection_update`,
`update`, `symmetric_difference_update`) since a merge last found the set empty. -/
theorem ttl_is_min (sing : List Nat) (cls typ covers ttl0 : Nat) (ops : List Op) :
    (run sing (rdsNew cls typ covers ttl0, [ttl0]) ops).2 ≠ [] ∧
    (run sing (rdsNew cls typ covers ttl0, [ttl0]) ops).1.ttl =
      minOf (run sing (rdsNew cls typ covers ttl0, [ttl0]) ops).2 :=
  run_ttl sing ops _ _ ⟨by simp, rfl⟩

/-- the overridden update methods refine the `Set` algebra: the rdataset invariant (duplicate-free, all
records of the set's class and type) is kept by `add` and by the loops over `add` whatever the outcome, and
for a type that is neither a singleton nor a signature, `union_update`/`update` with records of the same
class and type is `Set.union_update` on the items (plus the TTL merge), so `ops_closed_form` and `mem_laws`
apply to rdatasets. -/
theorem rds_refines_set (sing : List Nat) (s o : Rds) (rd : Rd) (ttl : Option Nat) (hs : WfRds s) :
    WfRds (rdsAdd sing s rd ttl).1 ∧ WfRds (rdsUnionUpdate sing s o false).1 ∧ WfRds (rdsUpdate sing s o).1 ∧
    (s.typ ∉ sing → ¬ (s.typ = 46 ∨ s.typ = 24) → (∀ r ∈ o.items, r.cls = s.cls ∧ r.typ = s.typ) →
      rdsUnionUpdate sing s o false =
        ({ updateTtl s o.ttl with items := SetAlg.unionUpdate s.items o.items }, none)) := by
  have hw1 : WfRds (updateTtl s o.ttl) := by
    obtain ⟨e1, e2, e3, _⟩ := updateTtl_fields s o.ttl
    exact wf_of_fields s _ hs e1 e2 e3
  refine ⟨rdsAdd_wf sing s rd ttl hs, ?_, ?_, ?_⟩
  · simp only [rdsUnionUpdate, Bool.false_eq_true, if_false]
    exact rdsAddAll_wf sing _ _ hw1
  · simp only [rdsUpdate]
    exact rdsAddAll_wf sing _ _ hw1
  · intro h1 h2 h3
    obtain ⟨e1, e2, e3, _⟩ := updateTtl_fields s o.ttl
    simp only [rdsUnionUpdate, Bool.false_eq_true, if_false]
    rw [rdsAddAll_refines sing (updateTtl s o.ttl) o.items (by rw [e3]; exact h1) (by rw [e3]; exact h2)
      (by intro r hr; rw [e2, e3]; exact h3 r hr), e1]

/-- every in-place operation of a (mutable) rdataset object — `add`, `update_ttl`, `remove`, `discard`, `pop`,
`clear`, index and slice deletion, the four `*_update` methods, `update` and `-=`, with any other operand,
aliased or not, raising or not — and every history of them keeps the rdataset duplicate-free with records of
its own class and type ("duplicates collapse" for the whole `Rdataset` surface, not only for `Set`). -/
theorem rdataset_ops_keep_invariant (sing : List Nat) (h : List (InPlace × Rds × Bool)) (r : Reg)
    (hw : WfRds r.s) : WfRds (regRun sing r h).s :=
  regRun_wf sing h r hw

/-- "ImmutableRdataset: mutators raise, functional ops return new immutable sets", in the model the driver
runs: an in-place operation on an immutable rdataset object leaves it exactly as it is and reports the error
`immutable` — except `difference_update` with an empty, distinct argument, which performs no write and
returns normally; so does every history of in-place operations; wrapping copies the value; and a copying
form on an immutable object computes what it computes on a mutable object of the same value, returning an
immutable result. -/
theorem immutable_rdataset (sing : List Nat) (s o : Rds) (op : InPlace) (alias : Bool)
    (h : List (InPlace × Rds × Bool)) (kind : Nat) :
    (regApply sing ⟨s, true⟩ op o alias).1 = ⟨s, true⟩ ∧
    ((regApply sing ⟨s, true⟩ op o alias).2 = some .immutable ∨
      ((regApply sing ⟨s, true⟩ op o alias).2 = none ∧ alias = false ∧ o.items = [])) ∧
    regRun sing ⟨s, true⟩ h = ⟨s, true⟩ ∧
    regFreeze ⟨s, false⟩ = ⟨s, true⟩ ∧
    (regFun sing ⟨s, true⟩ kind o).1.imm = true ∧
    (regFun sing ⟨s, true⟩ kind o).1.s = (regFun sing ⟨s, false⟩ kind o).1.s ∧
    (regFun sing ⟨s, true⟩ kind o).2 = (regFun sing ⟨s, false⟩ kind o).2 := by
  refine ⟨regApply_imm sing s op o alias, ?_, regRun_imm sing s h, rfl, rfl, rfl, rfl⟩
  unfold regApply
  simp only [if_true]
  cases op <;> try exact Or.inl rfl
  by_cases c : (!alias && o.items.isEmpty) = true
  · right
    simp only [c, if_true, true_and]
    simp only [Bool.and_eq_true, Bool.not_eq_true', List.isEmpty_iff] at c
    exact c
  · left
    simp [c]

/-- **partial (enumeration, not proof)**: "Names and records are immutable values (no attribute can be
rebound and no field is a mutable container)" and "ImmutableRdataset: mutators raise".  The finite surface
(every immutable class × every slot × setattr/delattr, field carrier types of every specimen, every mutator
of ImmutableRdataset and of dns.immutable.Dict) is enumerated from the imported code on every run into
`Generated/C07.lean`; this obligation fails as soon as one entry of the regenerated table is bad. -/
theorem immutability_surface_partial :
    ConstsC07.surface.all (fun e => e.2.2.2) = true ∧ ConstsC07.surface.length > 500 ∧
      ConstsC07.classesProbed ≥ 60 := by
  decide +kernel

/-! ## non-vacuity -/
example : unionUpdate [3, 1, 2] [2, 5, 1, 4] = [3, 1, 2, 5, 4] ∧ interUpdate [3, 1, 2] [2, 5, 1] = [1, 2] ∧
    diffUpdate [3, 1, 2] [2, 5] = [3, 1] ∧ symDiffUpdate [3, 1, 2] [2, 5, 1, 4] = [3, 5, 4] := by decide
example : setEq [1, 2, 3] [3, 1, 2] = true ∧ setEq [1, 2] [1, 3] = false := by decide
example : ([3, 1, 2] : List Nat).Nodup := by decide
-- a CNAME rdataset keeps only the newest record, and its TTL is the minimum merged since it was last empty
example : (run Consts.singletons (rdsNew 1 5 0 300, [300])
    [.add ⟨1, 5, false, [1]⟩ (some 100), .add ⟨1, 5, false, [2]⟩ (some 500)]).1 =
      { cls := 1, typ := 5, covers := 0, ttl := 100, items := [⟨1, 5, false, [2]⟩] } := by decide
-- an RRSIG covering NS is refused by an rdataset of RRSIGs covering A
example : (rdsAdd Consts.singletons { cls := 1, typ := 46, covers := 1, ttl := 5, items := [⟨1, 46, false, [0, 1, 9]⟩] }
    ⟨1, 46, false, [0, 2, 9]⟩ none).2 = some .differingCovers := by decide
-- an ImmutableRdataset refuses add and |=, accepts `difference_update(empty)`, and its union is immutable
example : (regApply Consts.singletons ⟨{ cls := 1, typ := 1, covers := 0, ttl := 5, items := [⟨1, 1, false, [1]⟩] }, true⟩
      (.add ⟨1, 1, false, [2]⟩ none) (rdsNew 1 1 0 0) false).2 = some .immutable ∧
    (regApply Consts.singletons ⟨rdsNew 1 1 0 5, true⟩ .diffUpdate (rdsNew 1 1 0 0) false).2 = none ∧
    (regFun Consts.singletons ⟨{ cls := 1, typ := 1, covers := 0, ttl := 5, items := [⟨1, 1, false, [1]⟩] }, true⟩ 0
      { cls := 1, typ := 1, covers := 0, ttl := 3, items := [⟨1, 1, false, [2]⟩] }).1 =
      ⟨{ cls := 1, typ := 1, covers := 0, ttl := 3, items := [⟨1, 1, false, [1]⟩, ⟨1, 1, false, [2]⟩] }, true⟩ := by decide
-- relative records sort first; otherwise octet order with the shorter encoding first
example : rdLt ⟨1, 15, true, [9]⟩ ⟨1, 15, false, [0]⟩ ∧ rdLt ⟨1, 16, false, [1]⟩ ⟨1, 16, false, [1, 0]⟩ := by
  unfold rdLt; decide

end C07

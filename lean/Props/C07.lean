import Proofs.SetAlg
import Generated.C07
/-!
# C07 — Records and record sets have value semantics and exact set algebra

Theorems of record.  `Model.SetAlg` follows `dns/set.py` (the insertion-ordered dict used as a set is an
insertion-ordered duplicate-free list; every loop is the code's loop), `Model.Rdataset` follows
`dns/rdataset.py` and the value semantics of `dns/rdata.py` over an abstract record.  They are tied to the
code by the correspondence check on whole operation histories.
-/
namespace C07
open Model Model.SetAlg

variable {α : Type} [DecidableEq α]

/-- "A record set is a mathematical set …: duplicates collapse" — every operation of `dns.set.Set`, in place
or copying, aliased or not, keeps the items duplicate-free. -/
theorem nodup_preserved (s o : List α) (x : α) (hs : s.Nodup) :
    (add s x).Nodup ∧ (discard s x).Nodup ∧ (update s o).Nodup ∧ (ofList o).Nodup ∧
    (unionUpdate s o).Nodup ∧ (interUpdate s o).Nodup ∧ (diffUpdate s o).Nodup ∧ (symDiffUpdate s o).Nodup ∧
    (union s o).Nodup ∧ (inter s o).Nodup ∧ (diff s o).Nodup ∧ (symDiff s o).Nodup ∧
    (∀ r, remove s x = some r → r.Nodup) ∧ (∀ y r, pop s = some (y, r) → r.Nodup) ∧
    (∀ i r, delItem s i = some r → r.Nodup) ∧ (∀ a b st, (delSlice s a b st).Nodup) :=
  ⟨nodup_add s x hs, nodup_discard s x hs, nodup_unionUpdate s o hs, nodup_ofList o,
   nodup_unionUpdate s o hs, nodup_interUpdate s o hs, nodup_diffUpdate s o hs, nodup_symDiffUpdate s o hs,
   nodup_unionUpdate s o hs, nodup_interUpdate s o hs, nodup_diffUpdate s o hs, nodup_symDiffUpdate s o hs,
   fun r h => nodup_remove s r x hs h, fun y r h => nodup_pop s r y hs h,
   fun i r h => nodup_delItem s r i hs h, fun a b st => nodup_delSlice s a b st hs⟩

/-- "… that remembers first-insertion order" and "union, intersection, difference, symmetric difference …
agree with set theory": the four loops of the code, run on duplicate-free operands, produce exactly
`self`'s surviving items in their order followed (for union and symmetric difference) by `other`'s new
items in `other`'s order. -/
theorem ops_closed_form (s o : List α) (hs : s.Nodup) (ho : o.Nodup) :
    unionUpdate s o = s ++ o.filter (fun x => decide (x ∉ s)) ∧
    interUpdate s o = s.filter (fun x => decide (x ∈ o)) ∧
    diffUpdate s o = s.filter (fun x => decide (x ∉ o)) ∧
    symDiffUpdate s o = s.filter (fun x => decide (x ∉ o)) ++ o.filter (fun x => decide (x ∉ s)) :=
  ⟨unionUpdate_eq s o ho, interUpdate_eq s o hs, diffUpdate_eq s o hs, symDiffUpdate_eq s o hs ho⟩

/-- the membership laws of set theory for the four operations (consequence of the closed forms; for union
no hypothesis at all is needed). -/
theorem mem_laws (s o : List α) (x : α) (hs : s.Nodup) (ho : o.Nodup) :
    (x ∈ unionUpdate s o ↔ x ∈ s ∨ x ∈ o) ∧
    (x ∈ interUpdate s o ↔ x ∈ s ∧ x ∈ o) ∧
    (x ∈ diffUpdate s o ↔ x ∈ s ∧ x ∉ o) ∧
    (x ∈ symDiffUpdate s o ↔ (x ∈ s ∧ x ∉ o) ∨ (x ∈ o ∧ x ∉ s)) := by
  refine ⟨mem_unionUpdate s o x, ?_, ?_, ?_⟩
  · rw [interUpdate_eq s o hs]; simp
  · rw [diffUpdate_eq s o hs]; simp
  · rw [symDiffUpdate_eq s o hs ho]; simp

/-- "subset and disjointness agree with set theory" -/
theorem predicates (s o : List α) :
    (isSubset s o = true ↔ ∀ x ∈ s, x ∈ o) ∧ (isSuperset s o = true ↔ ∀ x ∈ o, x ∈ s) ∧
    (isDisjoint s o = true ↔ ∀ x, ¬ (x ∈ s ∧ x ∈ o)) :=
  ⟨isSubset_iff s o, isSuperset_iff s o, isDisjoint_iff s o⟩

/-- "(in-place and copying forms alike)": a copying form is the in-place form run on a clone, and the clone
has the same items in the same order. -/
theorem inplace_eq_copy (s o : List α) :
    union s o = unionUpdate s o ∧ inter s o = interUpdate s o ∧ diff s o = diffUpdate s o ∧
    symDiff s o = symDiffUpdate s o :=
  ⟨rfl, rfl, rfl, rfl⟩

/-- aliasing `self is other`: the four special-cased branches of the code return what the general loop
(which would mutate a dict while iterating it) denotes at `other = self`, i.e. what set theory says for
`a ∪ a`, `a ∩ a`, `a \ a`, `a △ a`. -/
theorem self_alias_ok (s : List α) (hs : s.Nodup) :
    unionUpdateSelf s = unionUpdate s s ∧ interUpdateSelf s = interUpdate s s ∧
    diffUpdateSelf s = diffUpdate s s ∧ symDiffUpdateSelf s = symDiffUpdate s s :=
  ⟨(unionUpdate_self s hs).symm, (interUpdate_self s hs).symm, (diffUpdate_self s hs).symm,
   (symDiffUpdate_self s hs).symm⟩

/-- "equality ignores order": `Set.__eq__` holds exactly when the two sets have the same members. -/
theorem eq_ignores_order (s o : List α) (hs : s.Nodup) (ho : o.Nodup) :
    setEq s o = true ↔ ∀ x, x ∈ s ↔ x ∈ o :=
  setEq_iff s o hs ho

/-- the small mutators: `add` inserts (at the end, only if absent), `discard`/`remove` delete exactly the
item, `remove` refuses an absent item, `pop` returns the most recently inserted item. -/
theorem small_mutators (s : List α) (x y : α) (hs : s.Nodup) :
    (y ∈ add s x ↔ y ∈ s ∨ y = x) ∧ (x ∈ s → add s x = s) ∧ (x ∉ s → add s x = s ++ [x]) ∧
    (y ∈ discard s x ↔ y ∈ s ∧ y ≠ x) ∧ ((remove s x).isSome ↔ x ∈ s) ∧
    (∀ r, pop s = some (y, r) → s = r ++ [y]) := by
  refine ⟨mem_add s x y, ?_, ?_, mem_discard s x y hs, remove_iff s x, fun r h => pop_spec s r y h⟩
  · intro h; simp [add, h]
  · intro h; simp [add, h]

/-- **partial (enumeration, not proof)**: "Names and records are immutable values (no attribute can be
rebound and no field is a mutable container)" and "ImmutableRdataset: mutators raise".  The finite surface
(every immutable class × every slot × setattr/delattr, field carrier types of every specimen, every mutator
of ImmutableRdataset and of dns.immutable.Dict) is enumerated from the imported code on every run into
`Generated/C07.lean`; this obligation fails as soon as one entry of the regenerated table is bad. -/
theorem immutability_surface_partial :
    ConstsC07.surface.all (fun e => e.2.2.2) = true ∧ ConstsC07.surface.length > 500 ∧
      ConstsC07.classesProbed ≥ 60 := by
  decide +kernel

/-! ## non-vacuity -/
example : unionUpdate [3, 1, 2] [2, 5, 1, 4] = [3, 1, 2, 5, 4] ∧ interUpdate [3, 1, 2] [2, 5, 1] = [1, 2] ∧
    diffUpdate [3, 1, 2] [2, 5] = [3, 1] ∧ symDiffUpdate [3, 1, 2] [2, 5, 1, 4] = [3, 5, 4] := by decide
example : setEq [1, 2, 3] [3, 1, 2] = true ∧ setEq [1, 2] [1, 3] = false := by decide
example : ([3, 1, 2] : List Nat).Nodup := by decide

end C07

import Generated.C13
/-!
# Model of `dns/xfr.py` (`Inbound`, `make_query`, `extract_serial_from_query`) and of the loop glue of
`dns.query.inbound_xfr`.  Imports only the constants regenerated from the working tree.

The zone is this file's own minimal abstraction: the *graph* of a finite map
`(owner, rdtype) ↦ (ttl, set of rdata)`, i.e. a list of records `(owner, rdtype, rdata, ttl)` read as a
set (membership is the only observable; duplicates and order carry no meaning, the driver prints sorted
and de-duplicated).  Real zones keep one TTL per rdataset and never hold a CNAME next to other data; the
operations below preserve that (`put` re-stores a whole rdataset under one TTL and applies the exclusion of
`dns.node.Node._append_rdataset`).  The zone's serial is the serial of its apex SOA record.  A transaction is
a working copy plus the `changed` flag that decides whether `commit` installs it (`dns/zone.py`).

Names arrive canonicalised (ASCII lower case) from the driver, so the library's case-insensitive name
equality is structural equality here.  Class is outside the model.  `rdtype` stands for the pair
(rdtype, covers): `rdtype + 65536 * covers`.

The parameter `fix` of the transfer functions: `true` is the code as it is (surplus rrsets after the final
SOA are refused before committing, commit 3feda1c); `false` is the loop without that look-ahead, kept as an
auxiliary relaxation (it distributes over list append, which the proofs use) and as the record of what the
repair changed.
-/
namespace Model.Xfr

abbrev Name := List (List Nat)

def soaType : Nat := 6
def axfrType : Nat := 252
def ixfrType : Nat := 251

/-- An rdata: for SOA the serial and an id for the remaining fields; for every other type `serial = 0`. -/
structure Rdata where
  serial : Nat
  body : Nat
  deriving DecidableEq, Repr

structure RRset where
  owner : Name
  rdtype : Nat
  ttl : Nat
  rdatas : List Rdata
  deriving DecidableEq, Repr

structure RR where
  owner : Name
  rdtype : Nat
  rdata : Rdata
  ttl : Nat
  deriving DecidableEq, Repr

abbrev Zone := List RR

/-- the records of an rrset -/
def recsOf (rs : RRset) : List RR := rs.rdatas.map fun d => ⟨rs.owner, rs.rdtype, d, rs.ttl⟩

def recsOfAll (l : List RRset) : List RR := l.flatMap recsOf

/-- one-record rrset, as `one_rr_per_rrset=True` produces -/
def single (r : RR) : RRset := ⟨r.owner, r.rdtype, r.ttl, [r.rdata]⟩

/-- Zones are compared as sets of records. -/
def Zone.equiv (a b : Zone) : Prop := ∀ r, r ∈ a ↔ r ∈ b

infix:50 " ≃z " => Zone.equiv

/-- serial of the apex SOA record of a zone, if any -/
def Zone.serial (z : Zone) (origin : Name) : Option Nat :=
  (z.find? fun r => r.owner == origin && r.rdtype == soaType).map (·.rdata.serial)

/-! ## names (`dns/name.py`, on canonical-case names) -/

def isAbs (n : Name) : Bool := n.getLast? == some []

/-- `Name.is_subdomain`: same absoluteness and `b`'s labels are a suffix of `a`'s -/
def isSubdomain (a b : Name) : Bool := (isAbs a == isAbs b) && b.isSuffixOf a

/-! ## RFC 1982 (`dns/serial.py`, 32 bits) -/

def two32 : Nat := 4294967296
def two31 : Nat := 2147483648

/-- `Serial(a) < b` -/
def serialLt (a b : Nat) : Bool :=
  let a := a % two32
  let b := b % two32
  (decide (a < b) && decide (b - a < two31)) || (decide (a > b) && decide (a - b > two31))

/-- `Serial(a) == b` (and `!=` its negation): equality modulo 2^32 -/
def serialEq (a b : Nat) : Bool := a % two32 == b % two32

/-- `Serial(a) > b` -/
def serialGt (a b : Nat) : Bool :=
  let a := a % two32
  let b := b % two32
  (decide (a < b) && decide (b - a > two31)) || (decide (a > b) && decide (a - b < two31))

/-! ## errors -/

inductive XErr where
  | TransferError | FormError | SerialWentBackwards | UseTCP | ValueError | DeleteNotExact
  | KeyError
  | EOF            -- the stream ended before the transfer was done (`_net_read` raises `EOFError`)
  | Internal       -- unreachable on parsed messages (empty rrset indexed, txn asserted present)
  deriving DecidableEq, Repr

def XErr.toString : XErr → String
  | .TransferError => "TransferError"
  | .FormError => "FormError"
  | .SerialWentBackwards => "SerialWentBackwards"
  | .UseTCP => "UseTCP"
  | .ValueError => "ValueError"
  | .DeleteNotExact => "DeleteNotExact"
  | .KeyError => "KeyError"
  | .EOF => "EOFError"
  | .Internal => "Internal"

/-! ## nodes (`dns/node.py`, `dns/rdataset.py`) -/

inductive Kind where
  | regular | neutral | cname
  deriving DecidableEq, Repr

/-- `NodeKind.classify(rdtype, covers)` -/
def kindOf (t : Nat) : Kind :=
  if (t % 65536) ∈ ConstsC13.cnameTypes ∨ (t % 65536 = ConstsC13.rrsig ∧ (t / 65536) ∈ ConstsC13.cnameTypes) then .cname
  else if (t % 65536) ∈ ConstsC13.neutralTypes ∨ (t % 65536 = ConstsC13.rrsig ∧ (t / 65536) ∈ ConstsC13.neutralTypes) then
    .neutral
  else .regular

/-- `dns.rdatatype.is_singleton` -/
def isSingleton (t : Nat) : Bool := decide ((t % 65536) ∈ ConstsC13.singletons)

/-- `Node._append_rdataset`: does storing an rdataset of type `t` at a node drive the record `r` of that
node out?  (a CNAME drives out other data, other data drives out a CNAME; neutral types coexist) -/
def drivesOut (t : Nat) (r : RR) : Bool :=
  (kindOf t == .cname && kindOf r.rdtype == .regular) || (kindOf t == .regular && kindOf r.rdtype == .cname)

/-- `WritableVersion.put_rdataset` = `Node.replace_rdataset`: the rdataset of that type is dropped, the
exclusion is applied, the new rdataset is appended -/
def put (w : Zone) (o : Name) (t ttl : Nat) (ds : List Rdata) : Zone :=
  (w.filter fun r => !(r.owner == o && (r.rdtype == t || drivesOut t r))) ++ ds.map fun d => ⟨o, t, d, ttl⟩

/-- the records of the rdataset `(o, t)` -/
def existing (w : Zone) (o : Name) (t : Nat) : List RR := w.filter fun r => r.owner == o && r.rdtype == t

/-- `existing.union(rdataset)`: every `add` to a singleton type clears the set first -/
def unionData (single : Bool) (old new : List Rdata) : List Rdata :=
  if single then (match new.getLast? with | some d => [d] | none => old) else old ++ new

/-- TTL minimisation of `Rdataset.update_ttl` -/
def unionTtl (old : List RR) (ttl : Nat) : Nat :=
  match old with
  | [] => ttl
  | e :: _ => min e.ttl ttl

/-- the TTL of an rdataset (of its records; they share it) -/
def ttlOf (old : List RR) : Nat :=
  match old with
  | [] => 0
  | e :: _ => e.ttl

/-! ## transactions (`dns/transaction.py` `_add` / `_delete`, `dns/zone.py` `WritableVersion`) -/

structure Txn where
  work : Zone
  changed : Bool
  deriving DecidableEq, Repr

/-- `txn_manager.writer(replacement)` -/
def writer (zone : Zone) (replacement : Bool) : Txn :=
  { work := if replacement then [] else zone, changed := false }

/-- `txn.add(name, rdataset)`: non-origin SOA is refused, otherwise the union with the existing rdataset
is stored -/
def txnAdd (origin : Name) (x : Txn) (rs : RRset) : Except XErr Txn :=
  if rs.rdtype = soaType ∧ rs.owner ≠ origin then .error .ValueError
  else .ok { work := put x.work rs.owner rs.rdtype (unionTtl (existing x.work rs.owner rs.rdtype) rs.ttl)
                       (unionData (isSingleton rs.rdtype) ((existing x.work rs.owner rs.rdtype).map (·.rdata)) rs.rdatas),
             changed := true }

/-- `txn.replace(name, rdataset)` -/
def txnReplace (origin : Name) (x : Txn) (rs : RRset) : Except XErr Txn :=
  if rs.rdtype = soaType ∧ rs.owner ≠ origin then .error .ValueError
  else .ok { work := put x.work rs.owner rs.rdtype rs.ttl rs.rdatas, changed := true }

/-- what is left of the rdataset `(o, t)` after removing `ds` -/
def remaining (w : Zone) (o : Name) (t : Nat) (ds : List Rdata) : List Rdata :=
  ((existing w o t).map (·.rdata)).filter fun d => !ds.contains d

/-- `txn.delete_exact(name, rdataset)` (TTLs are not compared) -/
def txnDeleteExact (x : Txn) (rs : RRset) : Except XErr Txn :=
  if rs.rdatas = [] then
    -- an empty rdataset is falsy: the whole name is deleted, and must exist
    if x.work.any (fun r => r.owner == rs.owner) then
      .ok { work := x.work.filter fun r => !(r.owner == rs.owner), changed := true }
    else .error .DeleteNotExact
  else if rs.rdatas.all (fun d => ((existing x.work rs.owner rs.rdtype).map (·.rdata)).contains d) then
    if (remaining x.work rs.owner rs.rdtype rs.rdatas).isEmpty then
      .ok { work := x.work.filter fun r => !(r.owner == rs.owner && r.rdtype == rs.rdtype), changed := true }
    else
      .ok { work := put x.work rs.owner rs.rdtype (ttlOf (existing x.work rs.owner rs.rdtype))
                      (remaining x.work rs.owner rs.rdtype rs.rdatas),
            changed := true }
  else .error .DeleteNotExact

/-! ## `Inbound` -/

structure Inbound where
  origin : Name
  rdtype : Nat
  incremental : Bool
  serial : Option Nat
  isUdp : Bool
  soa : Option RRset        -- `soa_rdataset` (a copy of the first rrset)
  done : Bool
  expectingSOA : Bool
  deleteMode : Bool
  txn : Option Txn
  zone : Zone               -- the committed content of the transaction manager
  deriving DecidableEq, Repr

structure Msg where
  rcode : Nat
  question : List (Name × Nat)
  answer : List RRset
  deriving DecidableEq, Repr

/-- `Inbound.__init__` -/
def Inbound.init (origin : Option Name) (zone : Zone) (rdtype : Nat) (serial : Option Nat) (isUdp : Bool) :
    Except XErr Inbound :=
  if rdtype = ixfrType then
    if serial.isNone then .error .ValueError
    else match origin with
      | none => .error .ValueError
      | some o => .ok { origin := o, rdtype := rdtype, incremental := true, serial := serial, isUdp := isUdp,
                        soa := none, done := false, expectingSOA := false, deleteMode := false, txn := none,
                        zone := zone }
  else if rdtype = axfrType then
    if isUdp then .error .ValueError
    else match origin with
      | none => .error .ValueError
      | some o => .ok { origin := o, rdtype := rdtype, incremental := false, serial := serial, isUdp := isUdp,
                        soa := none, done := false, expectingSOA := false, deleteMode := false, txn := none,
                        zone := zone }
  else .error .ValueError

/-- `rdataset == self.soa_rdataset` for two `RRset`s: same owner, same type, same set of rdatas -/
def rrsetEq (a b : RRset) : Bool :=
  a.owner == b.owner && a.rdtype == b.rdtype &&
    a.rdatas.all (fun d => b.rdatas.contains d) && b.rdatas.all (fun d => a.rdatas.contains d)

/-- `rdataset == self.soa_rdataset` -/
def eqFirst (soa : Option RRset) (rr : RRset) : Bool :=
  match soa with
  | some f => rrsetEq rr f
  | none => false

/-- `rdataset[0].serial` -/
def firstSerial (rs : RRset) : Option Nat := rs.rdatas.head?.map (·.serial)

/-- The result of a step: the new state, or the exception together with the committed zone at the moment
it is raised (what the caller is left with after `__exit__` has rolled the open transaction back). -/
abbrev R := Except (XErr × Zone) Inbound

/-- `delete_mode` after an apex SOA has been seen: it inverts in incremental mode -/
def nextDm (s : Inbound) : Bool := if s.incremental then !s.deleteMode else s.deleteMode

/-- `rdataset == self.soa_rdataset and ((not self.incremental) or self.delete_mode)` (after the toggle) -/
def isFinalSoa (s : Inbound) (rr : RRset) : Bool := eqFirst s.soa rr && (!s.incremental || nextDm s)

/-- "This is the final SOA".  `more` says whether further rrsets follow in the same message; it is
consulted only by the repaired variant (`fix = true`), which refuses surplus records *before*
committing (DESIGN §6 D11). -/
def procFinalSoa (fix : Bool) (s : Inbound) (txn : Txn) (rr : RRset) (more : Bool) : R :=
  if s.expectingSOA then .error (.FormError, s.zone)                  -- empty IXFR sequence
  else if s.incremental && decide (s.serial ≠ firstSerial rr) then .error (.FormError, s.zone)
  else if fix && more then .error (.FormError, s.zone)                -- repaired variant only
  else match txnReplace s.origin txn rr with
    | .error e => .error (e, s.zone)
    | .ok t => .ok { s with deleteMode := nextDm s, txn := none, done := true,
                            zone := if t.changed then t.work else s.zone }

/-- "This is not the final SOA" -/
def procOtherSoa (s : Inbound) (txn : Txn) (rr : RRset) : R :=
  if s.incremental then
    if nextDm s then
      -- start of an IXFR deletion set
      if firstSerial rr ≠ s.serial then .error (.FormError, s.zone)   -- IXFR base serial mismatch
      else .ok { s with deleteMode := nextDm s, expectingSOA := false }
    else
      -- start of an IXFR addition set
      match txnReplace s.origin txn rr with
      | .error e => .error (e, s.zone)
      | .ok t => .ok { s with deleteMode := nextDm s, expectingSOA := false, serial := firstSerial rr,
                              txn := some t }
  else .error (.FormError, s.zone)                                    -- unexpected origin SOA in AXFR

/-- `if self.expecting_SOA:` on a non-SOA rrset: this is an AXFR-style answer; roll back and start a
replacement writer -/
def fallbackState (s : Inbound) : Inbound :=
  if s.expectingSOA then
    { s with incremental := false, expectingSOA := false, deleteMode := false, txn := some (writer s.zone true) }
  else s

def fallbackTxn (s : Inbound) (txn : Txn) : Txn := if s.expectingSOA then writer s.zone true else txn

/-- out-of-zone skip, then delete or add (`s` and `txn` are those after the fallback decision) -/
def procData (s : Inbound) (txn : Txn) (rr : RRset) : R :=
  if isSubdomain rr.owner s.origin = false then .ok s
  else if s.deleteMode then
    match txnDeleteExact txn rr with
    | .error e => .error (e, s.zone)
    | .ok t => .ok { s with txn := some t }
  else
    match txnAdd s.origin txn rr with
    | .error e => .error (e, s.zone)
    | .ok t => .ok { s with txn := some t }

/-- One iteration of the `for rrset in message.answer[answer_index:]` loop of `process_message`. -/
def procRRset (fix : Bool) (s : Inbound) (rr : RRset) (more : Bool) : R :=
  if s.done then .error (.FormError, s.zone)                          -- answers after final SOA
  else match s.txn with
  | none => .error (.Internal, s.zone)
  | some txn =>
    if rr.rdtype = soaType ∧ rr.owner = s.origin then
      if isFinalSoa s rr then procFinalSoa fix s txn rr more else procOtherSoa s txn rr
    else procData (fallbackState s) (fallbackTxn s txn) rr

/-- the loop over the answer section -/
def procAnswers (fix : Bool) (s : Inbound) : List RRset → R
  | [] => .ok s
  | rr :: rest =>
    match procRRset fix s rr (!rest.isEmpty) with
    | .error e => .error e
    | .ok s' => procAnswers fix s' rest

/-- the first-message part of `process_message` (`if self.soa_rdataset is None:`) applied to the
first rrset `rr`; `restEmpty` says whether anything follows it in the message -/
def firstSoa (s : Inbound) (rr : RRset) (restEmpty : Bool) : R :=
  if rr.owner ≠ s.origin then .error (.FormError, s.zone)            -- RRset not for zone origin
  else if rr.rdtype ≠ soaType then .error (.FormError, s.zone)       -- first RRset is not an SOA
  else if s.incremental then
    match firstSerial rr with
    | none => .error (.Internal, s.zone)
    | some ser =>
      if some ser = s.serial then .ok { s with soa := some rr, done := true }       -- already up to date
      else if serialLt ser (s.serial.getD 0) then .error (.SerialWentBackwards, s.zone)
      else if s.isUdp && restEmpty then .error (.UseTCP, s.zone)                   -- the "truncated" response
      else .ok { s with soa := some rr, expectingSOA := true }
  else .ok { s with soa := some rr }

/-- `if self.txn is None: self.txn = self.txn_manager.writer(not self.incremental)` -/
def openTxn (s : Inbound) : Inbound :=
  if s.txn.isNone then { s with txn := some (writer s.zone (!s.incremental)) } else s

/-- the rcode and question checks of `process_message` for a transfer of type `t` of the zone at `o` -/
def headerErrOf (o : Name) (t : Nat) (m : Msg) : Option XErr :=
  if m.rcode ≠ 0 then some .TransferError
  else match m.question with
    | q :: _ => if q.1 ≠ o then some .FormError else if q.2 ≠ t then some .FormError else none
    | [] => none

def headerErr (s : Inbound) (m : Msg) : Option XErr := headerErrOf s.origin s.rdtype m

/-- first-SOA handling (first message only) and the loop over the rest of the answer section -/
def procBody (fix : Bool) (s : Inbound) (m : Msg) : R :=
  match s.soa with
  | none =>
    match m.answer with
    | [] => .error (.FormError, s.zone)                      -- no answer
    | rr :: rest =>
      match firstSoa s rr rest.isEmpty with
      | .error e => .error e
      | .ok s1 => procAnswers fix s1 rest
  | some _ => procAnswers fix s m.answer

/-- `if self.is_udp and not self.done: raise FormError("unexpected end of UDP IXFR")` -/
def udpCheck (s : Inbound) : R :=
  if s.isUdp && !s.done then .error (.FormError, s.zone) else .ok s

/-- `Inbound.process_message` -/
def procMessage (fix : Bool) (s0 : Inbound) (m : Msg) : R :=
  match headerErr (openTxn s0) m with
  | some e => .error (e, s0.zone)
  | none =>
    match procBody fix (openTxn s0) m with
    | .error e => .error e
    | .ok s2 => udpCheck s2

/-- the `while not done` loop of `dns.query._inbound_xfr` over the messages the peer sends -/
def runLoop (fix : Bool) (s : Inbound) : List Msg → R
  | [] => .error (.EOF, s.zone)
  | m :: ms =>
    match procMessage fix s m with
    | .error e => .error e
    | .ok s' => if s'.done then .ok s' else runLoop fix s' ms

structure Config where
  origin : Option Name
  rdtype : Nat
  serial : Option Nat
  isUdp : Bool
  deriving DecidableEq, Repr

/-- What the caller observes: the exception, if any, and the zone afterwards.  (`__exit__` rolls an open
transaction back; a rollback never changes the committed zone.) -/
structure Outcome where
  err : Option XErr
  zone : Zone
  deriving DecidableEq, Repr

/-- `with Inbound(...) as inbound: while not done: done = inbound.process_message(next message)` -/
def run (fix : Bool) (c : Config) (z0 : Zone) (msgs : List Msg) : Outcome :=
  match Inbound.init c.origin z0 c.rdtype c.serial c.isUdp with
  | .error e => ⟨some e, z0⟩
  | .ok s =>
    match runLoop fix s msgs with
    | .error (e, z) => ⟨some e, z⟩
    | .ok s' => ⟨none, s'.zone⟩

/-! ## `Inbound` driven directly as a context manager

`with dns.xfr.Inbound(...) as inbound: for m in msgs: if inbound.process_message(m): break` — the caller may
stop feeding before the transfer is done and leave the block normally, or by an exception of its own. -/

/-- feed messages until one completes the transfer or the caller has no more -/
def feedLoop (fix : Bool) (s : Inbound) : List Msg → R
  | [] => .ok s
  | m :: ms =>
    match procMessage fix s m with
    | .error e => .error e
    | .ok s' => if s'.done then .ok s' else feedLoop fix s' ms

/-- a caller that keeps feeding every message it has, also after `process_message` returned `True`
(a call on a finished `Inbound` opens a transaction again; it is rolled back on exit) -/
def feedAll (fix : Bool) (s : Inbound) : List Msg → R
  | [] => .ok s
  | m :: ms =>
    match procMessage fix s m with
    | .error e => .error e
    | .ok s' => feedAll fix s' ms

/-- `Inbound.__exit__(exc_type, exc_val, exc_tb)`: `if self.txn: self.txn.rollback()` — an open transaction is
rolled back whether or not an exception is in flight (it is never committed here); the manager's zone is
what it was -/
def Inbound.exit (s : Inbound) (_excInFlight : Bool) : Zone :=
  match s.txn with
  | some _ => s.zone
  | none => s.zone

/-- what the caller is left with: an exception of `process_message` (if any), whether a call returned
`True`, and the zone after `__exit__` -/
structure Driven where
  err : Option XErr
  done : Bool
  zone : Zone
  deriving DecidableEq, Repr

/-- the block `with Inbound(...) as inbound:` fed `msgs`, then left (`callerRaises`: by an exception of the
caller's own) -/
def drive (fix : Bool) (c : Config) (z0 : Zone) (msgs : List Msg) (callerRaises : Bool) : Driven :=
  match Inbound.init c.origin z0 c.rdtype c.serial c.isUdp with
  | .error e => ⟨some e, false, z0⟩
  | .ok s =>
    match feedLoop fix s msgs with
    | .error (e, z) => ⟨some e, false, z⟩
    | .ok s' => ⟨none, s'.done, s'.exit (callerRaises && !s'.done)⟩

/-- the same block when the caller does not stop at `True` but feeds everything -/
def driveAll (fix : Bool) (c : Config) (z0 : Zone) (msgs : List Msg) : Driven :=
  match Inbound.init c.origin z0 c.rdtype c.serial c.isUdp with
  | .error e => ⟨some e, false, z0⟩
  | .ok s =>
    match feedAll fix s msgs with
    | .error (e, z) => ⟨some e, false, z⟩
    | .ok s' => ⟨none, s'.done, s'.exit false⟩

/-! ## `make_query` / `extract_serial_from_query` -/

/-- `make_query(txn_manager, serial)`: the query type and the serial put into the authority SOA.
`serial` argument: `none` = `None`, `some 0` = "use the zone's serial".  Returns (rdtype, serial). -/
def makeQuery (origin : Option Name) (z : Zone) (serial : Option Int) : Except XErr (Nat × Option Nat) :=
  match origin with
  | none => .error .ValueError
  | some o =>
    match serial with
    | none => .ok (axfrType, none)
    | some v =>
      if v = 0 then
        match z.serial o with
        | some s => .ok (ixfrType, some s)
        | none => .ok (axfrType, none)
      else if 0 < v ∧ v < 4294967296 then .ok (ixfrType, some v.toNat)
      else .error .ValueError

/-- `extract_serial_from_query` on a query with question type `qtype` and authority SOA serial `auth` -/
def extractSerial (qtype : Nat) (auth : Option Nat) : Except XErr (Option Nat) :=
  if qtype = axfrType then .ok none
  else if qtype ≠ ixfrType then .error .ValueError
  else match auth with
    | some s => .ok (some s)
    | none => .error .KeyError     -- `find_rrset` raises KeyError

/-! ## what reading a response from the wire does to its answer section
(`dns.message._WireReader._get_section` with `xfr=True`, `Message.find_rrset`, `RRset.add`) -/

/-- `rrset.add(rd, ttl)` on the rrset found for the record: TTL minimisation, singleton rule, no duplicates -/
def mergeInto (rs : RRset) (r : RR) : RRset :=
  { rs with ttl := (match rs.rdatas with | [] => r.ttl | _ :: _ => min rs.ttl r.ttl),
            rdatas := if isSingleton rs.rdtype then [r.rdata]
                      else if rs.rdatas.contains r.rdata then rs.rdatas else rs.rdatas ++ [r.rdata] }

/-- the rrset `find_rrset` returns for a record when it may reuse one: the index keeps, per
(owner, type, covers), the rrset created last -/
def mergeLast : List RRset → RR → Option (List RRset)
  | [], _ => none
  | rs :: rest, r =>
    match mergeLast rest r with
    | some rest' => some (rs :: rest')
    | none => if rs.owner == r.owner && rs.rdtype == r.rdtype then some (mergeInto rs r :: rest) else none

/-- the loop over the records of the answer section: `force_unique` starts as `one_rr_per_rrset` and stays
on from the first SOA on (a zone transfer's order matters from there) -/
def parseLoop : Bool → List RRset → List RR → List RRset
  | _, acc, [] => acc
  | force, acc, r :: rest =>
    if force || r.rdtype == soaType then parseLoop true (acc ++ [single r]) rest
    else match mergeLast acc r with
      | some acc' => parseLoop false acc' rest
      | none => parseLoop false (acc ++ [single r]) rest

/-- `if ttl > 0x7FFFFFFF: ttl = 0` (RFC 2181 §8) -/
def clampTtl (r : RR) : RR := if r.ttl > 2147483647 then { r with ttl := 0 } else r

/-- the answer section of `dns.message.from_wire(wire, xfr=True, one_rr_per_rrset=oneRR)` for a message
whose answer records are `recs`, in wire order -/
def parseAnswer (oneRR : Bool) (recs : List RR) : List RRset := parseLoop oneRR [] (recs.map clampTtl)

/-- a response message as it is on the wire: header fields and the answer records in order -/
structure WireMsg where
  rcode : Nat
  question : List (Name × Nat)
  recs : List RR
  deriving DecidableEq, Repr

/-- `dns.message.from_wire(wire, xfr=True, one_rr_per_rrset=oneRR)` -/
def readMsg (oneRR : Bool) (w : WireMsg) : Msg := ⟨w.rcode, w.question, parseAnswer oneRR w.recs⟩

/-- the `serial` argument of `make_query` as Python passes it -/
inductive SerialArg where
  | absent            -- `None`
  | int (i : Int)
  | notInt            -- a str, a float, …
  deriving DecidableEq, Repr

/-- `make_query(txn_manager, serial)` for any argument: no origin, or a serial that is not an `int`, is refused -/
def makeQueryOf (origin : Option Name) (z : Zone) : SerialArg → Except XErr (Nat × Option Nat)
  | .absent => makeQuery origin z none
  | .int i => makeQuery origin z (some i)
  | .notInt => .error .ValueError

/-- `extract_serial_from_query(query)` for any message object: anything but a `QueryMessage` is refused -/
def extractSerialOf (isQueryMessage : Bool) (qtype : Nat) (auth : Option Nat) : Except XErr (Option Nat) :=
  if isQueryMessage then extractSerial qtype auth else .error .ValueError

/-! ## `dns.query.inbound_xfr`: which query, and UDP first with a TCP retry -/

inductive UdpMode where
  | never | tryFirst | only
  deriving DecidableEq, Repr

/-- the (rdtype, serial) the transfer runs with: `make_query(txn_manager)` when no query is supplied,
otherwise the question type of the supplied query and `extract_serial_from_query` of it
(`query = some (question rdtype, serial of the SOA in its authority section)`) -/
def queryOf (origin : Option Name) (z0 : Zone) (query : Option (Nat × Option Nat)) : Except XErr (Nat × Option Nat) :=
  match query with
  | none => makeQuery origin z0 (some 0)
  | some (qt, auth) =>
    match extractSerial qt auth with
    | .error e => .error e
    | .ok s => .ok (qt, s)

/-- `dns.query.inbound_xfr` with the sockets abstracted: `udp` are the datagrams the server answers the
query with over UDP, `tcp` the messages it sends over TCP.  An IXFR with `udp_mode != NEVER` is tried over
UDP; `UseTCP` (and only it) leads to the TCP attempt — same query, same serial — unless the mode is `ONLY`. -/
def inboundXfr (fix : Bool) (origin : Option Name) (query : Option (Nat × Option Nat)) (mode : UdpMode) (z0 : Zone)
    (udp tcp : List Msg) : Outcome :=
  match queryOf origin z0 query with
  | .error e => ⟨some e, z0⟩
  | .ok (rdtype, serial) =>
    if rdtype = ixfrType ∧ mode ≠ .never then
      match run fix ⟨origin, rdtype, serial, true⟩ z0 udp with
      | ⟨some .UseTCP, z⟩ =>
        if mode = .only then ⟨some .UseTCP, z⟩ else run fix ⟨origin, rdtype, serial, false⟩ z tcp
      | out => out
    else run fix ⟨origin, rdtype, serial, false⟩ z0 tcp

end Model.Xfr

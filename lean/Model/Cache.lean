/-!
Model of the resolver caches of `dns/resolver.py`: `CacheBase`, `Cache`, `LRUCacheNode`, `LRUCache`.

* The clock (`time.time()`) is an explicit field `now`; it only moves through `Op.adv` (a monotone clock is an
  assumption of the property: "at or after its expiration time").  It is constant inside one method call.
* An `Answer` is reduced to what the caches look at: an identity `val` and its absolute `exp`iration.
* `Cache.data` (a Python dict) is an association list with unique keys; its order is never observed.
* `LRUCache`: the sentinel ring of `LRUCacheNode`s is the list `ring`, `sentinel.next` first (most recently
  used) … `sentinel.prev` last (least recently used).  `LRUCache.data` is the key set of that list (the code
  updates both together in every branch; the correspondence check dumps both and compares them).
  `link_after(sentinel)` = cons, `unlink` = removal of the node, `sentinel.prev` = last element.
* `Node.stamp` / `LState.tick` are **ghost** fields (not in the code): `tick` counts operations, `stamp` is the
  `tick` of the last `put`/hit of that node.  No branch looks at them; they only let the theorems say
  "least recently used" in terms of time rather than in terms of the list itself.
* `set_max_size` is the repaired one (takes the lock, evicts down to the new limit at once; DESIGN §6 D14 was fixed
  in the repository).
-/
namespace Model.Cache

abbrev Key := Nat

structure Ans where
  val : Nat
  exp : Nat
  deriving DecidableEq, Repr

/-! ## dict as association list -/

def dget {α : Type} (d : List (Key × α)) (k : Key) : Option α :=
  match d with
  | [] => none
  | p :: rest => if p.1 = k then some p.2 else dget rest k

def ddel {α : Type} (d : List (Key × α)) (k : Key) : List (Key × α) :=
  d.filter (fun p => p.1 ≠ k)

def dset {α : Type} (d : List (Key × α)) (k : Key) (v : α) : List (Key × α) :=
  ddel d k ++ [(k, v)]

/-! ## operations and results (shared by both caches) -/

inductive Op where
  | get (k : Key)
  | put (k : Key) (a : Ans)
  | flush (k : Key)
  | flushAll
  | setMax (n : Int)        -- LRUCache only
  | adv (dt : Nat)          -- the clock moves forward
  | hits
  | misses
  | hitsFor (k : Key)       -- LRUCache only
  | reset                   -- reset_statistics
  | snapshot                -- get_statistics_snapshot
  deriving DecidableEq, Repr

inductive Out where
  | none
  | val (v : Nat)
  | num (n : Nat)
  | unit
  | stats (h m : Nat)
  deriving DecidableEq, Repr

/-! ## `Cache` -/

structure CState where
  data : List (Key × Ans)
  nextCleaning : Nat
  interval : Nat
  hits : Nat
  misses : Nat
  now : Nat
  deriving Repr

def initC (interval t0 : Nat) : CState :=
  { data := [], nextCleaning := t0 + interval, interval := interval, hits := 0, misses := 0, now := t0 }

/-- `Cache._maybe_clean` -/
def maybeClean (s : CState) : CState :=
  if s.nextCleaning ≤ s.now then
    { s with data := s.data.filter (fun p => ¬ p.2.exp ≤ s.now), nextCleaning := s.now + s.interval }
  else s

def stepC (s : CState) : Op → CState × Out
  | .get k =>
    let s := maybeClean s
    match dget s.data k with
    | none => ({ s with misses := s.misses + 1 }, .none)
    | some a =>
      if a.exp ≤ s.now then ({ s with misses := s.misses + 1 }, .none)
      else ({ s with hits := s.hits + 1 }, .val a.val)
  | .put k a =>
    let s := maybeClean s
    ({ s with data := dset s.data k a }, .unit)
  | .flush k => ({ s with data := ddel s.data k }, .unit)
  | .flushAll => ({ s with data := [], nextCleaning := s.now + s.interval }, .unit)
  | .adv dt => ({ s with now := s.now + dt }, .unit)
  | .hits => (s, .num s.hits)
  | .misses => (s, .num s.misses)
  | .reset => ({ s with hits := 0, misses := 0 }, .unit)
  | .snapshot => (s, .stats s.hits s.misses)
  | .setMax _ => (s, .unit)
  | .hitsFor _ => (s, .num 0)

def runC (s : CState) : List Op → CState × List Out
  | [] => (s, [])
  | op :: rest =>
    let r := stepC s op
    let q := runC r.1 rest
    (q.1, r.2 :: q.2)

/-! ## `LRUCache` -/

structure Node where
  key : Key
  ans : Ans
  hits : Nat
  stamp : Nat      -- ghost
  deriving DecidableEq, Repr

structure LState where
  ring : List Node
  maxSize : Nat
  hits : Nat
  misses : Nat
  now : Nat
  tick : Nat       -- ghost
  deriving Repr

/-- `set_max_size`'s clamp -/
def clampMax (n : Int) : Nat := if n < 1 then 1 else n.toNat

def initL (n : Int) (t0 : Nat) : LState :=
  { ring := [], maxSize := clampMax n, hits := 0, misses := 0, now := t0, tick := 0 }

/-- `self.data.get(key)` -/
def findNode (r : List Node) (k : Key) : Option Node := r.find? (fun n => n.key = k)

/-- `node.unlink(); del self.data[node.key]` -/
def removeKey (r : List Node) (k : Key) : List Node := r.filter (fun n => n.key ≠ k)

/-- `while len(self.data) >= max_size: gnode = self.sentinel.prev; gnode.unlink(); del self.data[gnode.key]`
(`fuel` bounds the loop; it is called with `ring.length`, which is enough whenever `limit ≥ 1`). -/
def evictLoop (limit : Nat) : Nat → List Node → List Node
  | 0, r => r
  | fuel + 1, r => if r.length ≥ limit then evictLoop limit fuel r.dropLast else r

def evictTo (limit : Nat) (r : List Node) : List Node := evictLoop limit r.length r

def stepL (s : LState) (op : Op) : LState × Out :=
  let s := { s with tick := s.tick + 1 }
  match op with
  | .get k =>
    match findNode s.ring k with
    | none => ({ s with misses := s.misses + 1 }, .none)
    | some n =>
      let r := removeKey s.ring k
      if n.ans.exp ≤ s.now then ({ s with ring := r, misses := s.misses + 1 }, .none)
      else ({ s with ring := { n with hits := n.hits + 1, stamp := s.tick } :: r, hits := s.hits + 1 }, .val n.ans.val)
  | .put k a =>
    let r := removeKey s.ring k
    let r := evictTo s.maxSize r
    ({ s with ring := { key := k, ans := a, hits := 0, stamp := s.tick } :: r }, .unit)
  | .flush k => ({ s with ring := removeKey s.ring k }, .unit)
  | .flushAll => ({ s with ring := [] }, .unit)
  | .setMax n =>
    let m := clampMax n
    ({ s with maxSize := m, ring := evictTo (m + 1) s.ring }, .unit)
  | .adv dt => ({ s with now := s.now + dt }, .unit)
  | .hits => (s, .num s.hits)
  | .misses => (s, .num s.misses)
  | .hitsFor k =>
    match findNode s.ring k with
    | none => (s, .num 0)
    | some n => if n.ans.exp ≤ s.now then (s, .num 0) else (s, .num n.hits)
  | .reset => ({ s with hits := 0, misses := 0 }, .unit)
  | .snapshot => (s, .stats s.hits s.misses)

def runL (s : LState) : List Op → LState × List Out
  | [] => (s, [])
  | op :: rest =>
    let r := stepL s op
    let q := runL r.1 rest
    (q.1, r.2 :: q.2)

/-! ## lock discipline: `with self.lock: body`

Small-step system for any number of threads using one cache.  Each thread has a program (list of operations).
A thread is `idle`, or `holding` the lock with its body still to run, or has `ran` its body and not yet released.
The scheduler picks a thread number at each step; a choice that cannot move (lock taken, program finished) is
a no-op.  The body of a method is one step: that it is atomic once the lock is held is the contract of
`threading.Lock` plus the lock discipline of the code (checked by the monitor of the correspondence harness).
`acq` records (thread, operation) in lock-acquisition order; `ran` (ghost) records (thread, operation, result)
in the order the bodies ran. -/

inductive Phase where
  | idle
  | holding     -- lock acquired, body not yet run
  | ran         -- body run, lock not yet released
  deriving DecidableEq, Repr

structure Thread where
  prog : List Op
  phase : Phase
  outs : List Out

structure Sys (σ : Type) where
  shared : σ
  lock : Option Nat
  threads : Nat → Thread
  acq : List (Nat × Op)
  ran : List (Nat × Op × Out)

def upd (f : Nat → Thread) (i : Nat) (t : Thread) : Nat → Thread := fun j => if j = i then t else f j

def sysStep {σ : Type} (step : σ → Op → σ × Out) (y : Sys σ) (i : Nat) : Sys σ :=
  let t := y.threads i
  match t.phase, t.prog with
  | .idle, [] => y
  | .idle, op :: _ =>
    match y.lock with
    | some _ => y                                   -- blocked in `acquire`
    | none => { y with lock := some i, threads := upd y.threads i { t with phase := .holding },
                       acq := y.acq ++ [(i, op)] }
  | .holding, [] => y
  | .holding, op :: rest =>
    let r := step y.shared op
    { y with shared := r.1, ran := y.ran ++ [(i, op, r.2)],
             threads := upd y.threads i { prog := rest, phase := .ran, outs := t.outs ++ [r.2] } }
  | .ran, _ => { y with lock := none, threads := upd y.threads i { t with phase := .idle } }

def sysRun {σ : Type} (step : σ → Op → σ × Out) (y : Sys σ) : List Nat → Sys σ
  | [] => y
  | i :: rest => sysRun step (sysStep step y i) rest

def sysInit {σ : Type} (s : σ) (progs : Nat → List Op) : Sys σ :=
  { shared := s, lock := none, threads := fun i => { prog := progs i, phase := .idle, outs := [] }, acq := [], ran := [] }

/-- the sequential object: run a list of operations one after the other -/
def runG {σ : Type} (step : σ → Op → σ × Out) (s : σ) : List Op → σ × List Out
  | [] => (s, [])
  | op :: rest =>
    let r := step s op
    let q := runG step r.1 rest
    (q.1, r.2 :: q.2)

/-! ## finer lock model: a method is `acquire; steps…; release`

Here nothing is atomic by construction.  A call is a list of commands; `acc f` reads/writes the shared cache
state (data, ring, statistics, max_size, next_cleaning, the clock), `loc f` touches only the thread's registers.
**Any** thread may execute its next command at any time — an `acc` is executed whether or not the thread holds the
lock, `release` frees the lock whoever calls it (as `threading.Lock` does).  The lock discipline is a property of the
*code* (`disc`): shared accesses occur only between the one `acquire` and the one `release` of the call.  That
discipline is what the access monitor of the harness checks on the real methods. -/

inductive Cmd (σ ρ : Type) where
  | acquire
  | release
  | acc (f : ρ → σ → ρ × σ)
  | loc (f : ρ → ρ)

structure Call (σ ρ : Type) where
  op : Op
  code : List (Cmd σ ρ)
  init : ρ
  ret : ρ → Out

structure Running (σ ρ : Type) where
  call : Call σ ρ
  rest : List (Cmd σ ρ)
  regs : ρ

structure MThread (σ ρ : Type) where
  todo : List (Call σ ρ)
  cur : Option (Running σ ρ)
  outs : List Out

structure MSys (σ ρ : Type) where
  shared : σ
  lock : Option Nat
  threads : Nat → MThread σ ρ
  acq : List (Nat × Op)

def updM {σ ρ : Type} (f : Nat → MThread σ ρ) (i : Nat) (t : MThread σ ρ) : Nat → MThread σ ρ :=
  fun j => if j = i then t else f j

def mStep {σ ρ : Type} (y : MSys σ ρ) (i : Nat) : MSys σ ρ :=
  let t := y.threads i
  match t.cur with
  | none =>
    match t.todo with
    | [] => y
    | c :: r => { y with threads := updM y.threads i { t with todo := r, cur := some ⟨c, c.code, c.init⟩ } }
  | some ⟨c, [], regs⟩ => { y with threads := updM y.threads i { t with cur := none, outs := t.outs ++ [c.ret regs] } }
  | some ⟨c, .acquire :: k, regs⟩ =>
    match y.lock with
    | some _ => y                                    -- blocked
    | none => { y with lock := some i, acq := y.acq ++ [(i, c.op)],
                       threads := updM y.threads i { t with cur := some ⟨c, k, regs⟩ } }
  | some ⟨c, .release :: k, regs⟩ =>
    { y with lock := none, threads := updM y.threads i { t with cur := some ⟨c, k, regs⟩ } }
  | some ⟨c, .acc f :: k, regs⟩ =>
    let r := f regs y.shared
    { y with shared := r.2, threads := updM y.threads i { t with cur := some ⟨c, k, r.1⟩ } }
  | some ⟨c, .loc f :: k, regs⟩ =>
    { y with threads := updM y.threads i { t with cur := some ⟨c, k, f regs⟩ } }

def mRun {σ ρ : Type} (y : MSys σ ρ) : List Nat → MSys σ ρ
  | [] => y
  | i :: rest => mRun (mStep y i) rest

def mInit {σ ρ : Type} (s : σ) (progs : Nat → List (Call σ ρ)) : MSys σ ρ :=
  { shared := s, lock := none, threads := fun i => { todo := progs i, cur := none, outs := [] }, acq := [] }

/-- where a piece of code stands with respect to its critical section -/
inductive Ph where
  | pre | cs | post
  deriving DecidableEq

/-- the lock discipline: one `acquire`, then one `release`; shared accesses only in between -/
def disc {σ ρ : Type} : Ph → List (Cmd σ ρ) → Bool
  | .post, [] => true
  | _, [] => false
  | .pre, .acquire :: k => disc .cs k
  | .cs, .release :: k => disc .post k
  | .cs, .acc _ :: k => disc .cs k
  | p, .loc _ :: k => disc p k
  | _, _ :: _ => false

/-- the same code run alone, start to end -/
def solo {σ ρ : Type} : List (Cmd σ ρ) → ρ → σ → ρ × σ
  | [], r, s => (r, s)
  | .acquire :: k, r, s => solo k r s
  | .release :: k, r, s => solo k r s
  | .acc f :: k, r, s => solo k (f r s).1 (f r s).2
  | .loc f :: k, r, s => solo k (f r) s

def callSem {σ ρ : Type} (c : Call σ ρ) (s : σ) : σ × Out := ((solo c.code c.init s).2, c.ret (solo c.code c.init s).1)

/-! ### the cache methods at that granularity

Registers of a thread inside a method.  Each `acc` below is one statement (or one loop) of the method body in
`dns/resolver.py`; the leading and trailing `loc` are argument evaluation and the hand-over of the return value,
which happen outside the lock (`set_max_size` also clamps its argument there).  Sweeps and the eviction loop are one
`acc` each (their inner iterations only touch state the lock already protects). -/

structure Regs where
  now : Nat
  flag : Bool
  ans : Option Ans
  node : Option Node
  n : Nat
  out : Out

def regs0 : Regs := { now := 0, flag := false, ans := none, node := none, n := 0, out := .unit }

/-- `Cache._maybe_clean`, statement by statement -/
def cleanC : List (Cmd CState Regs) :=
  [ .acc (fun r s => ({ r with now := s.now, flag := decide (s.nextCleaning ≤ s.now) }, s)),   -- now = time.time(); if next_cleaning <= now
    .acc (fun r s => (r, if r.flag then { s with data := s.data.filter (fun p => ¬ p.2.exp ≤ r.now) } else s)),
    .acc (fun r s => (r, if r.flag then { s with nextCleaning := s.now + s.interval } else s)) ] -- now = time.time(); next_cleaning = …

def codeC : Op → List (Cmd CState Regs)
  | .get k =>
    [.loc id, .acquire] ++ cleanC ++
    [ .acc (fun r s => ({ r with ans := dget s.data k }, s)),                                    -- v = self.data.get(key)
      .acc (fun r s => match r.ans with                                                          -- expiry test and statistics
        | none => ({ r with out := .none }, { s with misses := s.misses + 1 })
        | some a => if a.exp ≤ s.now then ({ r with out := .none }, { s with misses := s.misses + 1 })
                    else ({ r with out := .val a.val }, { s with hits := s.hits + 1 })),
      .release, .loc id ]
  | .put k a =>
    [.loc id, .acquire] ++ cleanC ++ [ .acc (fun r s => (r, { s with data := dset s.data k a })), .release, .loc id ]
  | .flush k => [.loc id, .acquire, .acc (fun r s => (r, { s with data := ddel s.data k })), .release, .loc id]
  | .flushAll =>
    [.loc id, .acquire, .acc (fun r s => (r, { s with data := [] })),
      .acc (fun r s => (r, { s with nextCleaning := s.now + s.interval })), .release, .loc id]
  | .adv dt => [.acquire, .acc (fun r s => (r, { s with now := s.now + dt })), .release]
  | .hits => [.loc id, .acquire, .acc (fun r s => ({ r with n := s.hits }, s)), .release, .loc (fun r => { r with out := .num r.n })]
  | .misses => [.loc id, .acquire, .acc (fun r s => ({ r with n := s.misses }, s)), .release, .loc (fun r => { r with out := .num r.n })]
  | .reset =>
    [.loc id, .acquire, .acc (fun r s => (r, { s with hits := 0 })), .acc (fun r s => (r, { s with misses := 0 })), .release, .loc id]
  | .snapshot => [.loc id, .acquire, .acc (fun r s => ({ r with out := .stats s.hits s.misses }, s)), .release, .loc id]
  | .setMax _ => [.acquire, .release]
  | .hitsFor _ => [.acquire, .release, .loc (fun r => { r with out := .num 0 })]

def callC (op : Op) : Call CState Regs := { op := op, code := codeC op, init := regs0, ret := fun r => r.out }

def codeL : Op → List (Cmd LState Regs)
  | .get k =>
    [ .loc id, .acquire,
      .acc (fun r s => ({ r with node := findNode s.ring k }, { s with tick := s.tick + 1 })),   -- node = self.data.get(key)
      .acc (fun r s => match r.node with                                                         -- miss
        | none => ({ r with out := .none }, { s with misses := s.misses + 1 })
        | some _ => (r, s)),
      .acc (fun r s => match r.node with                                                         -- expiry test, before the list is touched
        | none => (r, s)
        | some n => ({ r with flag := decide (n.ans.exp ≤ s.now) }, s)),
      .acc (fun r s => match r.node with                                                         -- node.unlink() (both branches)
        | none => (r, s)
        | some _ => (r, { s with ring := removeKey s.ring k })),
      .acc (fun r s => match r.node with                                                         -- del data[key] / link_after
        | none => (r, s)
        | some n => if r.flag then (r, s)
                    else (r, { s with ring := { n with hits := n.hits + 1, stamp := s.tick } :: s.ring })),
      .acc (fun r s => match r.node with                                                         -- statistics
        | none => (r, s)
        | some n => if r.flag then ({ r with out := .none }, { s with misses := s.misses + 1 })
                    else ({ r with out := .val n.ans.val }, { s with hits := s.hits + 1 })),
      .release, .loc id ]
  | .put k a =>
    [ .loc id, .acquire,
      .acc (fun r s => ({ r with node := findNode s.ring k }, { s with tick := s.tick + 1 })),
      .acc (fun r s => (r, { s with ring := removeKey s.ring k })),                               -- if node: unlink, del
      .acc (fun r s => (r, { s with ring := evictTo s.maxSize s.ring })),                         -- while len(data) >= max_size
      .acc (fun r s => (r, { s with ring := { key := k, ans := a, hits := 0, stamp := s.tick } :: s.ring })),
      .release, .loc id ]
  | .flush k =>
    [.loc id, .acquire, .acc (fun r s => (r, { s with tick := s.tick + 1, ring := removeKey s.ring k })), .release, .loc id]
  | .flushAll => [.loc id, .acquire, .acc (fun r s => (r, { s with tick := s.tick + 1, ring := [] })), .release, .loc id]
  | .setMax n =>
    [ .loc (fun r => { r with n := clampMax n }),                                                 -- clamp, outside the lock
      .acquire,
      .acc (fun r s => (r, { s with tick := s.tick + 1, maxSize := r.n })),
      .acc (fun r s => (r, { s with ring := evictTo (s.maxSize + 1) s.ring })),                   -- while len(data) > max_size
      .release, .loc id ]
  | .adv dt => [.acquire, .acc (fun r s => (r, { s with tick := s.tick + 1, now := s.now + dt })), .release]
  | .hits =>
    [.loc id, .acquire, .acc (fun r s => ({ r with n := s.hits }, { s with tick := s.tick + 1 })), .release,
      .loc (fun r => { r with out := .num r.n })]
  | .misses =>
    [.loc id, .acquire, .acc (fun r s => ({ r with n := s.misses }, { s with tick := s.tick + 1 })), .release,
      .loc (fun r => { r with out := .num r.n })]
  | .hitsFor k =>
    [ .loc id, .acquire,
      .acc (fun r s => ({ r with node := findNode s.ring k }, { s with tick := s.tick + 1 })),
      .acc (fun r s => match r.node with
        | none => ({ r with n := 0 }, s)
        | some n => if n.ans.exp ≤ s.now then ({ r with n := 0 }, s) else ({ r with n := n.hits }, s)),
      .release, .loc (fun r => { r with out := .num r.n }) ]
  | .reset =>
    [.loc id, .acquire, .acc (fun r s => (r, { s with tick := s.tick + 1, hits := 0 })),
      .acc (fun r s => (r, { s with misses := 0 })), .release, .loc id]
  | .snapshot =>
    [.loc id, .acquire, .acc (fun r s => ({ r with out := .stats s.hits s.misses }, { s with tick := s.tick + 1 })), .release, .loc id]

def callL (op : Op) : Call LState Regs := { op := op, code := codeL op, init := regs0, ret := fun r => r.out }

/-! ## the ring at pointer level: `LRUCacheNode.link_after` / `unlink` as coded

Nodes are numbers, the sentinel is 0; `next` / `prev` are the two pointer fields.  The four (two) assignments are in
the order of the code, each reading the pointers as the previous assignment left them. -/

structure Ptrs where
  next : Nat → Nat
  prev : Nat → Nat

def setP (f : Nat → Nat) (i v : Nat) : Nat → Nat := fun j => if j = i then v else f j

/-- `self.prev = node; self.next = node.next; node.next.prev = self; node.next = self` (self = `x`, node = `a`) -/
def linkAfter (p : Ptrs) (x a : Nat) : Ptrs :=
  let p1 : Ptrs := { p with prev := setP p.prev x a }
  let p2 : Ptrs := { p1 with next := setP p1.next x (p1.next a) }
  let p3 : Ptrs := { p2 with prev := setP p2.prev (p2.next a) x }
  { p3 with next := setP p3.next a x }

/-- `self.next.prev = self.prev; self.prev.next = self.next` -/
def unlinkP (p : Ptrs) (x : Nat) : Ptrs :=
  let p1 : Ptrs := { p with prev := setP p.prev (p.next x) (p.prev x) }
  { p1 with next := setP p1.next (p1.prev x) (p1.next x) }

/-- `LRUCache.__init__`: `sentinel.prev = sentinel; sentinel.next = sentinel` -/
def ptrs0 : Ptrs := { next := fun _ => 0, prev := fun _ => 0 }

/-- the make-room loop of `put` / the shrink loop of `set_max_size` at pointer level:
`while len(self.data) >= limit: gnode = self.sentinel.prev; gnode.unlink(); del self.data[gnode.key]` -/
def evictP (limit : Nat) : Nat → Ptrs × Nat → Ptrs × Nat
  | 0, pc => pc
  | fuel + 1, (p, count) => if count ≥ limit then evictP limit fuel (unlinkP p (p.prev 0), count - 1) else (p, count)

/-- `flush()`: `gnode = sentinel.next; while gnode != sentinel: next = gnode.next; gnode.unlink(); gnode = next` -/
def flushP : Nat → Ptrs → Nat → Ptrs
  | 0, p, _ => p
  | fuel + 1, p, g => if g = 0 then p else flushP fuel (unlinkP p g) (p.next g)

/-- node identity at pointer level: the node that carries key `k` (the sentinel is 0) -/
def nid (k : Key) : Nat := k + 1

/-- the pointer operations of each `LRUCache` method, in the order of the code; what the code decides by looking
at the dict (`node is None`, `len(self.data)`) or at the answer (expired) is decided here from the list model, what
it decides by following pointers (`sentinel.prev`, `gnode.next`) is decided from the pointers -/
def stepP (p : Ptrs) (s : LState) : Op → Ptrs
  | .get k =>
    match findNode s.ring k with
    | none => p
    | some n => if n.ans.exp ≤ s.now then unlinkP p (nid k) else linkAfter (unlinkP p (nid k)) (nid k) 0
  | .put k _ =>
    match findNode s.ring k with
    | none => linkAfter (evictP s.maxSize s.ring.length (p, s.ring.length)).1 (nid k) 0
    | some _ => linkAfter (evictP s.maxSize s.ring.length (unlinkP p (nid k), s.ring.length - 1)).1 (nid k) 0
  | .flush k =>
    match findNode s.ring k with
    | none => p
    | some _ => unlinkP p (nid k)
  | .flushAll => flushP (s.ring.length + 1) p (p.next 0)
  | .setMax n => (evictP (clampMax n + 1) s.ring.length (p, s.ring.length)).1
  | _ => p

def runPL (p : Ptrs) (s : LState) : List Op → Ptrs × LState
  | [] => (p, s)
  | op :: rest => runPL (stepP p s op) (stepL s op).1 rest

end Model.Cache

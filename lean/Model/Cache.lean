/-!
Model of the resolver caches of `dns/resolver.py`: `CacheBase`, `Cache`, `LRUCacheNode`, `LRUCache`.

* The clock (`time.time()`) is an explicit field `now`; it only moves through `Op.adv` (a monotone clock is an
  assumption of the property: "at or after its expiration time").  It is constant inside one method call.
* An `Answer` is reduced to what the caches look at: an identity `val` and its absolute `exp`iration.
* `Cache.data` (a Python dict) is an association list with unique keys; its order is never observed.
* `LRUCache`: the sentinel ring of `LRUCacheNode`s is the list `ring`, `sentinel.next` first (most recently
  used) … `sentinel.prev` last (least recently used).  `LRUCache.data` is the key set of that list (the code
  updates both together in every branch; the correspondence check dumps both and compares them).
  `link_after(sentinel)` = cons, `unlink` = removal of the node, `sentinel.prev` = last element.
* `Node.stamp` / `LState.tick` are **ghost** fields (not in the code): `tick` counts operations, `stamp` is the
  `tick` of the last `put`/hit of that node.  No branch looks at them; they only let the theorems say
  "least recently used" in terms of time rather than in terms of the list itself.
* `set_max_size` is the repaired one (takes the lock, evicts down to the new limit at once; DESIGN §6 D14 was fixed
  in the repository).
-/
namespace Model.Cache

abbrev Key := Nat

structure Ans where
  val : Nat
  exp : Nat
  deriving DecidableEq, Repr

/-! ## dict as association list -/

def dget {α : Type} (d : List (Key × α)) (k : Key) : Option α :=
  match d with
  | [] => none
  | p :: rest => if p.1 = k then some p.2 else dget rest k

def ddel {α : Type} (d : List (Key × α)) (k : Key) : List (Key × α) :=
  d.filter (fun p => p.1 ≠ k)

def dset {α : Type} (d : List (Key × α)) (k : Key) (v : α) : List (Key × α) :=
  ddel d k ++ [(k, v)]

/-! ## operations and results (shared by both caches) -/

inductive Op where
  | get (k : Key)
  | put (k : Key) (a : Ans)
  | flush (k : Key)
  | flushAll
  | setMax (n : Int)        -- LRUCache only
  | adv (dt : Nat)          -- the clock moves forward
  | hits
  | misses
  | hitsFor (k : Key)       -- LRUCache only
  | reset                   -- reset_statistics
  | snapshot                -- get_statistics_snapshot
  deriving DecidableEq, Repr

inductive Out where
  | none
  | val (v : Nat)
  | num (n : Nat)
  | unit
  | stats (h m : Nat)
  deriving DecidableEq, Repr

/-! ## `Cache` -/

structure CState where
  data : List (Key × Ans)
  nextCleaning : Nat
  interval : Nat
  hits : Nat
  misses : Nat
  now : Nat
  deriving Repr

def initC (interval t0 : Nat) : CState :=
  { data := [], nextCleaning := t0 + interval, interval := interval, hits := 0, misses := 0, now := t0 }

/-- `Cache._maybe_clean` -/
def maybeClean (s : CState) : CState :=
  if s.nextCleaning ≤ s.now then
    { s with data := s.data.filter (fun p => ¬ p.2.exp ≤ s.now), nextCleaning := s.now + s.interval }
  else s

def stepC (s : CState) : Op → CState × Out
  | .get k =>
    let s := maybeClean s
    match dget s.data k with
    | none => ({ s with misses := s.misses + 1 }, .none)
    | some a =>
      if a.exp ≤ s.now then ({ s with misses := s.misses + 1 }, .none)
      else ({ s with hits := s.hits + 1 }, .val a.val)
  | .put k a =>
    let s := maybeClean s
    ({ s with data := dset s.data k a }, .unit)
  | .flush k => ({ s with data := ddel s.data k }, .unit)
  | .flushAll => ({ s with data := [], nextCleaning := s.now + s.interval }, .unit)
  | .adv dt => ({ s with now := s.now + dt }, .unit)
  | .hits => (s, .num s.hits)
  | .misses => (s, .num s.misses)
  | .reset => ({ s with hits := 0, misses := 0 }, .unit)
  | .snapshot => (s, .stats s.hits s.misses)
  | .setMax _ => (s, .unit)
  | .hitsFor _ => (s, .num 0)

def runC (s : CState) : List Op → CState × List Out
  | [] => (s, [])
  | op :: rest =>
    let r := stepC s op
    let q := runC r.1 rest
    (q.1, r.2 :: q.2)

/-! ## `LRUCache` -/

structure Node where
  key : Key
  ans : Ans
  hits : Nat
  stamp : Nat      -- ghost
  deriving DecidableEq, Repr

structure LState where
  ring : List Node
  maxSize : Nat
  hits : Nat
  misses : Nat
  now : Nat
  tick : Nat       -- ghost
  deriving Repr

/-- `set_max_size`'s clamp -/
def clampMax (n : Int) : Nat := if n < 1 then 1 else n.toNat

def initL (n : Int) (t0 : Nat) : LState :=
  { ring := [], maxSize := clampMax n, hits := 0, misses := 0, now := t0, tick := 0 }

/-- `self.data.get(key)` -/
def findNode (r : List Node) (k : Key) : Option Node := r.find? (fun n => n.key = k)

/-- `node.unlink(); del self.data[node.key]` -/
def removeKey (r : List Node) (k : Key) : List Node := r.filter (fun n => n.key ≠ k)

/-- `while len(self.data) >= max_size: gnode = self.sentinel.prev; gnode.unlink(); del self.data[gnode.key]`
(`fuel` bounds the loop; it is called with `ring.length`, which is enough whenever `limit ≥ 1`). -/
def evictLoop (limit : Nat) : Nat → List Node → List Node
  | 0, r => r
  | fuel + 1, r => if r.length ≥ limit then evictLoop limit fuel r.dropLast else r

def evictTo (limit : Nat) (r : List Node) : List Node := evictLoop limit r.length r

def stepL (s : LState) (op : Op) : LState × Out :=
  let s := { s with tick := s.tick + 1 }
  match op with
  | .get k =>
    match findNode s.ring k with
    | none => ({ s with misses := s.misses + 1 }, .none)
    | some n =>
      let r := removeKey s.ring k
      if n.ans.exp ≤ s.now then ({ s with ring := r, misses := s.misses + 1 }, .none)
      else ({ s with ring := { n with hits := n.hits + 1, stamp := s.tick } :: r, hits := s.hits + 1 }, .val n.ans.val)
  | .put k a =>
    let r := removeKey s.ring k
    let r := evictTo s.maxSize r
    ({ s with ring := { key := k, ans := a, hits := 0, stamp := s.tick } :: r }, .unit)
  | .flush k => ({ s with ring := removeKey s.ring k }, .unit)
  | .flushAll => ({ s with ring := [] }, .unit)
  | .setMax n =>
    let m := clampMax n
    ({ s with maxSize := m, ring := evictTo (m + 1) s.ring }, .unit)
  | .adv dt => ({ s with now := s.now + dt }, .unit)
  | .hits => (s, .num s.hits)
  | .misses => (s, .num s.misses)
  | .hitsFor k =>
    match findNode s.ring k with
    | none => (s, .num 0)
    | some n => if n.ans.exp ≤ s.now then (s, .num 0) else (s, .num n.hits)
  | .reset => ({ s with hits := 0, misses := 0 }, .unit)
  | .snapshot => (s, .stats s.hits s.misses)

def runL (s : LState) : List Op → LState × List Out
  | [] => (s, [])
  | op :: rest =>
    let r := stepL s op
    let q := runL r.1 rest
    (q.1, r.2 :: q.2)

/-! ## lock discipline: `with self.lock: body`

Small-step system for any number of threads using one cache.  Each thread has a program (list of operations).
A thread is `idle`, or `holding` the lock with its body still to run, or has `ran` its body and not yet released.
The scheduler picks a thread number at each step; a choice that cannot move (lock taken, program finished) is
a no-op.  The body of a method is one step: that it is atomic once the lock is held is the contract of
`threading.Lock` plus the lock discipline of the code (checked by the monitor of the correspondence harness).
`acq` records (thread, operation) in lock-acquisition order; `ran` (ghost) records (thread, operation, result)
in the order the bodies ran. -/

inductive Phase where
  | idle
  | holding     -- lock acquired, body not yet run
  | ran         -- body run, lock not yet released
  deriving DecidableEq, Repr

structure Thread where
  prog : List Op
  phase : Phase
  outs : List Out

structure Sys (σ : Type) where
  shared : σ
  lock : Option Nat
  threads : Nat → Thread
  acq : List (Nat × Op)
  ran : List (Nat × Op × Out)

def upd (f : Nat → Thread) (i : Nat) (t : Thread) : Nat → Thread := fun j => if j = i then t else f j

def sysStep {σ : Type} (step : σ → Op → σ × Out) (y : Sys σ) (i : Nat) : Sys σ :=
  let t := y.threads i
  match t.phase, t.prog with
  | .idle, [] => y
  | .idle, op :: _ =>
    match y.lock with
    | some _ => y                                   -- blocked in `acquire`
    | none => { y with lock := some i, threads := upd y.threads i { t with phase := .holding },
                       acq := y.acq ++ [(i, op)] }
  | .holding, [] => y
  | .holding, op :: rest =>
    let r := step y.shared op
    { y with shared := r.1, ran := y.ran ++ [(i, op, r.2)],
             threads := upd y.threads i { prog := rest, phase := .ran, outs := t.outs ++ [r.2] } }
  | .ran, _ => { y with lock := none, threads := upd y.threads i { t with phase := .idle } }

def sysRun {σ : Type} (step : σ → Op → σ × Out) (y : Sys σ) : List Nat → Sys σ
  | [] => y
  | i :: rest => sysRun step (sysStep step y i) rest

def sysInit {σ : Type} (s : σ) (progs : Nat → List Op) : Sys σ :=
  { shared := s, lock := none, threads := fun i => { prog := progs i, phase := .idle, outs := [] }, acq := [], ran := [] }

/-- the sequential object: run a list of operations one after the other -/
def runG {σ : Type} (step : σ → Op → σ × Out) (s : σ) : List Op → σ × List Out
  | [] => (s, [])
  | op :: rest =>
    let r := step s op
    let q := runG step r.1 rest
    (q.1, r.2 :: q.2)

end Model.Cache

import Model.Name
/-!
C04 model: outcome classes of the untrusted-input parsers.

* `ttlFromText`  — `dns.ttl.from_text` on ASCII text.
* `readMsg`      — the skeleton of `dns.message._WireReader.read` (`_get_question`, `_get_section`,
  `continue_on_error` bookkeeping, `ignore_trailing`, `question_only`) for QUERY-style messages whose
  records are of a small set of types with fully modelled bodies (A/AAAA in class IN, NS/CNAME/PTR, TXT,
  private-use types ≥ 65280 which use the generic codec).  Anything else makes the model answer
  `unsupported`, which the harness does not compare.
Errors are class names of the dnspython hierarchy as strings; the harness maps them to families.
-/
namespace Model

/-! ## dns.ttl.from_text -/

def ttlUnit (c : Nat) : Option Nat :=
  let c := lowerOctet c
  if c = 119 then some 604800 else if c = 100 then some 86400 else if c = 104 then some 3600
  else if c = 109 then some 60 else if c = 115 then some 1 else none

/-- the `for c in text` loop: state (total, current, need_digit) -/
def ttlLoop : List Nat → Nat → Nat → Bool → Except String Nat
  | [], total, current, _ => if current ≠ 0 then .error "BadTTL" else .ok total
  | c :: cs, total, current, needDigit =>
    if isDigit c then ttlLoop cs total (current * 10 + (c - 48)) false
    else if needDigit then .error "BadTTL"
    else match ttlUnit c with
      | some u => ttlLoop cs (total + current * u) 0 true
      | none => .error "BadTTL"

def decimalValue (t : List Nat) : Nat := t.foldl (fun a c => a * 10 + (c - 48)) 0

def ttlFromText (t : List Nat) : Except String Nat :=
  let totalE : Except String Nat :=
    if t ≠ [] ∧ t.all isDigit then
      -- `int(text)` refuses more than 4300 digits (CPython's default `int_max_str_digits`); since the
      -- `fix:` commit that is reported as BadTTL
      (if t.length > 4300 then .error "BadTTL" else .ok (decimalValue t))
    else if t = [] then .error "BadTTL"
    else ttlLoop t 0 0 true
  match totalE with
  | .error e => .error e
  | .ok total => if total > Consts.maxTTL then .error "BadTTL" else .ok total

/-! ## `dns.exception.ExceptionWrapper` (dns/exception.py): the net under every RDATA parser

`dns.rdata.from_wire_parser` runs the type's parser inside `ExceptionWrapper(FormError)` and
`dns.rdata.from_text` inside `ExceptionWrapper(SyntaxError)`: `__exit__` re-raises anything that is not an
instance of the family as the family's base class (message kept, original chained). -/

/-- what matters about an exception: which of the two families it is an instance of (a class can be in
neither; none is in both) -/
inductive ExcKind where
  | form      -- dns.exception.FormError or a subclass (BadPointer, NameTooLong, ...)
  | syntax    -- dns.exception.SyntaxError or a subclass (UnexpectedEnd, BadEscape, ...)
  | other     -- any other DNSException, or a foreign exception (IndexError, struct.error, ...)
  deriving DecidableEq, Repr

inductive Family where
  | form | syntax
  deriving DecidableEq, Repr

def isInstanceOf (e : ExcKind) (f : Family) : Bool :=
  match e, f with
  | .form, .form => true
  | .syntax, .syntax => true
  | _, _ => false

def Family.base : Family → ExcKind
  | .form => .form
  | .syntax => .syntax

/-- `ExceptionWrapper(family).__exit__`: `none` = the block completed -/
def wrapExit (f : Family) (raised : Option ExcKind) : Option ExcKind :=
  match raised with
  | none => none
  | some e => if isInstanceOf e f then some e else some f.base

/-! ## message reader skeleton -/

def nameErrClass (e : NameErr) : String := e.toString

/-- `fromWireAux` (Model.Name) with the parser position restored by `restore_furthest` also reported
on failure (the `finally` clause runs on exceptions too); `Proofs.Parse` shows it agrees with
`fromWireAux` on everything else. -/
def fromWireAuxF (w : Bytes) (endp : Nat) (cur bp furthest : Nat) (acc : List Label) :
    Except (NameErr × Nat) (Name × Nat) :=
  if h : cur < endp ∧ endp ≤ w.length then
    if w[cur]'(by omega) = 0 then .ok (acc ++ [[]], max furthest (cur + 1))
    else if w[cur]'(by omega) < Consts.ptrLabelMin then
      if w[cur]'(by omega) > endp - (cur + 1) then .error (.formError, max furthest (cur + 1))
      else
        fromWireAuxF w endp (cur + 1 + w[cur]'(by omega)) bp
          (max (max furthest (cur + 1)) (cur + 1 + w[cur]'(by omega)))
          (acc ++ [(w.drop (cur + 1)).take (w[cur]'(by omega))])
    else if w[cur]'(by omega) ≥ Consts.ptrTagMin then
      if h2 : cur + 1 < endp then
        if h3 : (w[cur]'(by omega) % 64) * 256 + w[cur + 1]'(by omega) ≥ bp then
          .error (.badPointer, max (max furthest (cur + 1)) (cur + 2))
        else
          fromWireAuxF w endp ((w[cur]'(by omega) % 64) * 256 + w[cur + 1]'(by omega))
            ((w[cur]'(by omega) % 64) * 256 + w[cur + 1]'(by omega))
            (max (max furthest (cur + 1)) (cur + 2)) acc
      else .error (.formError, max furthest (cur + 1))
    else .error (.badLabelType, max furthest (cur + 1))
  else .error (.formError, furthest)
termination_by (bp, endp - cur)
decreasing_by
  · simp_wf
    right; omega
  · simp_wf
    left; omega

/-- `parser.get_name()` at `cur` with the parser end at `endp`; returns name and new position;
on failure the class and the parser position left behind -/
def pGetName (w : Bytes) (endp cur : Nat) (fur : Nat := cur) : Except (String × Nat) (Name × Nat) :=
  match fromWireAuxF w endp cur cur fur [] with
  | .error (e, f) => .error (nameErrClass e, f)
  | .ok (n, f) => match validate n with
    | .error e => .error (nameErrClass e, f)
    | .ok n => .ok (n, f)

def be (bs : Bytes) : Nat := bs.foldl (fun a b => a * 256 + b) 0

/-- `parser.get_bytes(k)` -/
def pGetBytes (w : Bytes) (endp cur k : Nat) : Except (String × Nat) (Bytes × Nat) :=
  if k > endp - cur then .error ("FormError", cur) else .ok ((w.drop cur).take k, cur + k)

inductive BodyKind where
  | fixed (n : Nat) | name | txt | generic | unsupported
  deriving DecidableEq

/-- which body parser `get_rdata_class(rdclass, rdtype)` selects, for the modelled subset -/
def bodyKind (rdclass rdtype : Nat) : BodyKind :=
  if rdtype = 1 ∧ rdclass = 1 then .fixed 4
  else if rdtype = 28 ∧ rdclass = 1 then .fixed 16
  else if rdtype = 2 ∨ rdtype = 5 ∨ rdtype = 12 then .name
  else if rdtype = 16 then .txt
  else if rdtype ≥ 65280 ∧ rdtype < 65535 then .generic
  else .unsupported

/-- TXT body: counted strings until the slice is exhausted; at least one -/
def txtLoop (w : Bytes) (endp : Nat) : (fuel cur count : Nat) → Except (String × Nat) Nat
  | 0, cur, _ => .error ("FormError", cur)
  | fuel + 1, cur, count =>
    if endp - cur = 0 then (if count = 0 then .error ("FormError", cur) else .ok cur)
    else match pGetBytes w endp cur 1 with
      | .error e => .error e
      | .ok (lb, c1) => match pGetBytes w endp c1 (be lb) with
        | .error e => .error e
        | .ok (_, c2) => txtLoop w endp fuel c2 (count + 1)

/-- rdata body inside `restrict_to(rdlen)`: every failure is reported as the FormError family
(`ExceptionWrapper(FormError)`; name errors are FormError subclasses themselves). On failure also the
parser position at which the exception left the body. -/
def pBody (w : Bytes) (kind : BodyKind) (cur rdlen : Nat) : Except (String × Nat) Unit :=
  let e := cur + rdlen
  let r : Except (String × Nat) Nat :=
    match kind with
    | .fixed n => if rdlen = n then .ok e else .error ("FormError", e)   -- after get_remaining()
    | .name => match pGetName w e cur with
      | .error err => .error err
      | .ok (_, c) => .ok c
    | .txt => txtLoop w e (rdlen + 1) cur 0
    | .generic => .ok e
    | .unsupported => .error ("unsupported", cur)
  match r with
  | .error err => .error err
  | .ok c => if c ≠ e then .error ("FormError", c) else .ok ()

structure RState where
  cur : Nat
  fur : Nat                    -- the parser's `furthest` (differs from `cur` only after a `seek`)
  errs : List (String × Nat)   -- continue_on_error records: (class, parser.current)
  counts : List Nat            -- records accepted per section (question, answer, authority, additional)
  deriving Repr

inductive ROut where
  | ok (s : RState)
  | raised (e : String) (s : RState)   -- exception escaped the section loop at parser position s.cur
  | unsupported

def bump (counts : List Nat) (sec : Nat) : List Nat :=
  counts.zipIdx.map fun (c, i) => if i = sec then c + 1 else c

/-- `_get_question` -/
def readQuestions (w : Bytes) : (n : Nat) → RState → ROut
  | 0, s => .ok s
  | n + 1, s =>
    match pGetName w w.length s.cur s.fur with
    | .error (e, f) => .raised e { s with cur := f, fur := f }
    | .ok (_, c) =>
      match pGetBytes w w.length c 4 with
      | .error (e, f) => .raised e { s with cur := f, fur := f }
      | .ok (_, c2) => readQuestions w n { s with cur := c2, fur := c2, counts := bump s.counts 0 }

/-- `_get_section`, one record per iteration.  `cont` = continue_on_error. -/
def readSection (w : Bytes) (cont : Bool) (sec : Nat) : (n : Nat) → RState → ROut
  | 0, s => .ok s
  | n + 1, s =>
    match pGetName w w.length s.cur s.fur with
    | .error (e, f) => .raised e { s with cur := f, fur := f }
    | .ok (_, c) =>
      match pGetBytes w w.length c 10 with
      | .error (e, f) => .raised e { s with cur := f, fur := f }
      | .ok (hdr, c2) =>
        let rdtype := be (hdr.take 2)
        let rdclass := be ((hdr.drop 2).take 2)
        let rdlen := be ((hdr.drop 8).take 2)
        if rdtype = 41 ∨ rdtype = 250 then .unsupported
        else
          let kind := bodyKind rdclass rdtype
          if kind = .unsupported then .unsupported
          else
            -- `with parser.restrict_to(rdlen)`
            let bodyR : Except (String × Nat) Unit :=
              if rdlen > w.length - c2 then .error ("FormError", c2) else pBody w kind c2 rdlen
            match bodyR with
            | .ok () => readSection w cont sec n { s with cur := c2 + rdlen, fur := c2 + rdlen, counts := bump s.counts sec }
            | .error (e, f) =>
              if cont then
                -- `_add_error(e)` records parser.current (= f), then `seek(rdata_start + rdlen)` which
                -- moves `current` but not `furthest`; a seek beyond the end raises FormError out of the handler
                if c2 + rdlen > w.length then
                  .raised "FormError" { s with cur := f, fur := f, errs := s.errs ++ [(e, f)] }
                else readSection w cont sec n { s with cur := c2 + rdlen, fur := f, errs := s.errs ++ [(e, f)] }
              else .raised e { s with cur := f, fur := f }

structure ReadOpts where
  cont : Bool
  ignoreTrailing : Bool
  questionOnly : Bool

inductive ReadResult where
  | message (counts : List Nat) (errs : List (String × Nat))   -- a message object is returned
  | exc (e : String)                                            -- an exception is raised
  | unsupported
  deriving DecidableEq, Repr

/-- `_WireReader.read` for opcode QUERY/NOTIFY/IQUERY/STATUS messages -/
def readMsg (w : Bytes) (o : ReadOpts) : ReadResult :=
  if w.length < 12 then .exc "ShortHeader"
  else
    let opcode := (be ((w.drop 2).take 2) / 2048) % 16
    if opcode = 5 then .unsupported
    else
      let qd := be ((w.drop 4).take 2)
      let an := be ((w.drop 6).take 2)
      let au := be ((w.drop 8).take 2)
      let ad := be ((w.drop 10).take 2)
      let s0 : RState := { cur := 12, fur := 12, errs := [], counts := [0, 0, 0, 0] }
      let finish (r : ROut) : ReadResult :=
        match r with
        | .unsupported => .unsupported
        | .ok s => .message s.counts s.errs
        | .raised e s => if o.cont then .message s.counts (s.errs ++ [(e, s.cur)]) else .exc e
      match readQuestions w qd s0 with
      | .ok s1 =>
        if o.questionOnly then .message s1.counts s1.errs
        else match readSection w o.cont 1 an s1 with
          | .ok s2 => match readSection w o.cont 2 au s2 with
            | .ok s3 => match readSection w o.cont 3 ad s3 with
              | .ok s4 =>
                if !o.ignoreTrailing ∧ s4.cur ≠ w.length then finish (.raised "TrailingJunk" s4)
                else .message s4.counts s4.errs
              | r => finish r
            | r => finish r
          | r => finish r
      | r => finish r

end Model

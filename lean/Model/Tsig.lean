import Model.Bytes
import Model.Name
import Generated.C14
/-!
Model of `dns/tsig.py` (`HMACTSig`, `get_context`, `_digest`, `_maybe_start_digest`, `sign`, `validate`),
the TSIG RDATA codec of `dns/rdtypes/ANY/TSIG.py`, `Renderer._write_tsig` / the signing tail of
`Message.to_wire`, and the part of `dns.message._WireReader` that decides where a TSIG record may stand,
which key it is checked with and what is fed to the MAC.

* HMAC is an opaque parameter `H : hash id → key → message → digest`.
* A MAC context (`HMACTSig`) is the key, the hash, the truncation and **the octets fed to `update()` so far**.
* The reader is a *skeleton*: owner names and RDATA of records other than TSIG are skipped, not decoded
  (decoding them is the subject of C01–C03); it accepts a superset of what the real reader accepts, and
  agrees with it on messages whose other records are well formed.
* `ttlStrict` is the decision point of the recorded finding "the TTL field of the TSIG RR is neither
  digested nor required to be 0": `false` = as shipped, `true` = intended (BadTSIG unless 0).
-/
namespace Model.Tsig
open Model

/-! ## `struct.pack` big-endian -/

def u16 (n : Nat) : Bytes := [n / 256 % 256, n % 256]
def u32 (n : Nat) : Bytes := [n / 16777216 % 256, n / 65536 % 256, n / 256 % 256, n % 256]

/-- `struct.unpack("!H", w[i:i+2])` (0 for a missing octet; callers check the length first) -/
def rd16 (w : Bytes) (i : Nat) : Nat := w.getD i 0 * 256 + w.getD (i + 1) 0
def rd32 (w : Bytes) (i : Nat) : Nat := rd16 w i * 65536 + rd16 w (i + 2)
def rd48 (w : Bytes) (i : Nat) : Nat := rd16 w i * 4294967296 + rd32 w (i + 2)

/-- `w[a:b]` -/
def slice (w : Bytes) (a b : Nat) : Bytes := (w.take b).drop a

/-! ## errors (the *families* the property speaks of) -/

inductive Err where
  | formError | badTime | badSignature | badKey | badAlgorithm
  | peerBadSignature | peerBadKey | peerBadTime | peerBadTruncation | peerError
  | notImplemented | valueError
  | shortHeader | trailingJunk | badTSIG | unknownTSIGKey
  deriving DecidableEq, Repr

def Err.toString : Err → String
  | .formError => "FormError" | .badTime => "BadTime" | .badSignature => "BadSignature"
  | .badKey => "BadKey" | .badAlgorithm => "BadAlgorithm"
  | .peerBadSignature => "PeerBadSignature" | .peerBadKey => "PeerBadKey" | .peerBadTime => "PeerBadTime"
  | .peerBadTruncation => "PeerBadTruncation" | .peerError => "PeerError"
  | .notImplemented => "NotImplementedError" | .valueError => "ValueError"
  | .shortHeader => "ShortHeader" | .trailingJunk => "TrailingJunk" | .badTSIG => "BadTSIG"
  | .unknownTSIGKey => "UnknownTSIGKey"

/-! ## keys, rdata, contexts -/

structure Key where
  name : Name
  secret : Bytes
  algorithm : Name
  deriving Repr, DecidableEq

/-- `dns.rdtypes.ANY.TSIG.TSIG` -/
structure Rdata where
  algorithm : Name
  timeSigned : Nat
  fudge : Nat
  mac : Bytes
  originalId : Nat
  error : Nat
  other : Bytes
  deriving Repr, DecidableEq

/-- the external HMAC: hash id, key, message ↦ full-length digest -/
abbrev Hmac := Nat → Bytes → Bytes → Bytes

/-- one row of `HMACTSig._hashes` -/
structure AlgEntry where
  name : Name
  hash : Nat
  dsize : Nat
  trunc : Nat      -- bits; 0 = the code's `None`
  macSize : Nat    -- `dns.tsig.mac_sizes`
  deriving Repr, DecidableEq

def algTable : List AlgEntry :=
  ConstsC14.algTable.map fun r => ⟨r.1, r.2.1, r.2.2.1, r.2.2.2.1, r.2.2.2.2⟩

/-- dict lookup by `Name.__eq__` / `__hash__` -/
def lookupAlg (tbl : List AlgEntry) (alg : Name) : Option AlgEntry :=
  tbl.find? fun e => nameEq e.name alg

/-- `HMACTSig`: `hmac_context` (key, digestmod, data so far) and `size` -/
structure Ctx where
  secret : Bytes
  hash : Nat
  size : Nat
  data : Bytes
  deriving Repr, DecidableEq

def Ctx.update (c : Ctx) (d : Bytes) : Ctx := { c with data := c.data ++ d }

/-- `HMACTSig.sign`: the digest, cut to `size // 8` octets when `size` is set -/
def Ctx.sign (H : Hmac) (c : Ctx) : Bytes :=
  let d := H c.hash c.secret c.data
  if c.size ≠ 0 then d.take (c.size / 8) else d

/-- what `HMACTSig.verify` decides (`hmac.compare_digest` = equality of the two octet strings) -/
abbrev Verifier := Ctx → Bytes → Bool

def verifyWith (H : Hmac) : Verifier := fun c expected => c.sign H == expected

/-- `get_context(key)`; GSS-TSIG is outside the model (reported as NotImplemented) -/
def getContext (tbl : List AlgEntry) (key : Key) : Except Err Ctx :=
  match lookupAlg tbl key.algorithm with
  | some e => .ok { secret := key.secret, hash := e.hash, size := e.trunc, data := [] }
  | none => .error .notImplemented

/-- canonical wire form of a name: `Name.to_digestable()` -/
def digestable (n : Name) : Bytes := toWire (lowerName n)

/-- `struct.pack("!HIH", (time >> 32) & 0xFFFF, time & 0xFFFFFFFF, fudge)` -/
def timeEncoded (time fudge : Nat) : Bytes :=
  u16 ((time >>> ConstsC14.timeUpperShift) &&& ConstsC14.timeUpperMask)
    ++ u32 (time &&& ConstsC14.timeLowerMask) ++ u16 fudge

/-- `_digest(wire, key, rdata, time, request_mac, ctx, multi)`: the context after all `update()` calls -/
def digest (tbl : List AlgEntry) (wire : Bytes) (key : Key) (rd : Rdata) (time : Option Nat)
    (requestMac : Bytes) (ctx : Option Ctx) (multi : Bool) : Except Err Ctx :=
  let time := time.getD rd.timeSigned
  match (if multi then ctx else none) with
  | none =>      -- `first`
    match getContext tbl key with
    | .error e => .error e
    | .ok c0 =>
      let c1 := if requestMac ≠ [] then (c0.update (u16 requestMac.length)).update requestMac else c0
      let c2 := (c1.update (u16 rd.originalId)).update (wire.drop ConstsC14.msgIdLen)
      let c3 := ((c2.update (digestable key.name)).update (u16 ConstsC14.classAny)).update (u32 0)
      if rd.other.length > ConstsC14.otherMax then .error .valueError
      else
        let c4 := c3.update (digestable key.algorithm ++ timeEncoded time rd.fudge)
        .ok (c4.update (u16 rd.error ++ u16 rd.other.length ++ rd.other))
  | some c =>    -- a later message of a multi-message exchange
    let c2 := (c.update (u16 rd.originalId)).update (wire.drop ConstsC14.msgIdLen)
    if rd.other.length > ConstsC14.otherMax then .error .valueError
    else .ok (c2.update (timeEncoded time rd.fudge))

/-- `_maybe_start_digest(key, mac, multi)` -/
def maybeStartDigest (tbl : List AlgEntry) (key : Key) (mac : Bytes) (multi : Bool) : Except Err (Option Ctx) :=
  if multi then
    match getContext tbl key with
    | .error e => .error e
    | .ok c => .ok (some ((c.update (u16 mac.length)).update mac))
  else .ok none

/-- `sign(wire, key, rdata, time, request_mac, ctx, multi)` -/
def sign (H : Hmac) (tbl : List AlgEntry) (wire : Bytes) (key : Key) (rd : Rdata) (time : Nat)
    (requestMac : Bytes) (ctx : Option Ctx) (multi : Bool) : Except Err (Rdata × Option Ctx) :=
  match digest tbl wire key rd (some time) requestMac ctx multi with
  | .error e => .error e
  | .ok c =>
    let mac := c.sign H
    match maybeStartDigest tbl key mac multi with
    | .error e => .error e
    | .ok c' => .ok ({ rd with timeSigned := time, mac := mac }, c')

/-- the octets `validate` digests as "the message": ARCOUNT decremented, cut at the TSIG RR -/
def newWire (wire : Bytes) (tsigStart : Nat) : Bytes :=
  wire.take ConstsC14.arcountOff ++ u16 (rd16 wire ConstsC14.arcountOff - 1)
    ++ slice wire ConstsC14.arcountEnd tsigStart

/-- the mapping of a non-zero TSIG error field -/
def peerErr (e : Nat) : Err :=
  if e = ConstsC14.rcBadSig then .peerBadSignature
  else if e = ConstsC14.rcBadKey then .peerBadKey
  else if e = ConstsC14.rcBadTime then .peerBadTime
  else if e = ConstsC14.rcBadTrunc then .peerBadTruncation
  else .peerError

/-- `abs(a - b)` -/
def absDiff (a b : Nat) : Nat := if a ≥ b then a - b else b - a

/-- `validate(wire, key, owner, rdata, now, request_mac, tsig_start, ctx, multi)` (needs `len(wire) ≥ 12`,
which the reader guarantees).  Result: the context at the MAC comparison and the next context. -/
def validateV (V : Verifier) (tbl : List AlgEntry) (wire : Bytes) (key : Key) (owner : Name) (rd : Rdata)
    (now : Nat) (requestMac : Bytes) (tsigStart : Nat) (ctx : Option Ctx) (multi : Bool) :
    Except Err (Ctx × Option Ctx) :=
  if rd16 wire ConstsC14.arcountOff = 0 then .error .formError
  else if rd.error ≠ 0 then .error (peerErr rd.error)
  else if absDiff rd.timeSigned now > rd.fudge then .error .badTime
  else if !nameEq key.name owner then .error .badKey
  else if !nameEq key.algorithm rd.algorithm then .error .badAlgorithm
  else
    match digest tbl (newWire wire tsigStart) key rd none requestMac ctx multi with
    | .error e => .error e
    | .ok c =>
      if !V c rd.mac then .error .badSignature
      else
        match maybeStartDigest tbl key rd.mac multi with
        | .error e => .error e
        | .ok c' => .ok (c, c')

def validate (H : Hmac) (tbl : List AlgEntry) (wire : Bytes) (key : Key) (owner : Name) (rd : Rdata)
    (now : Nat) (requestMac : Bytes) (tsigStart : Nat) (ctx : Option Ctx) (multi : Bool) :
    Except Err (Option Ctx) :=
  match validateV (verifyWith H) tbl wire key owner rd now requestMac tsigStart ctx multi with
  | .error e => .error e
  | .ok r => .ok r.2

/-! ## names inside the message (`dns.name.from_wire_parser`), with explicit fuel

Same steps as `Model.fromWireAux` (C01), but by structural recursion on a step counter, so that the kernel can
evaluate the reader on concrete messages.  Every step either consumes a label or follows a strictly backward
pointer, so `(len+1)*(len+2)` steps always suffice. -/

def nameAt (w : Bytes) (endp : Nat) : Nat → Nat → Nat → Nat → List Label → Except NameErr (Name × Nat)
  | 0, _, _, _, _ => .error .formError
  | fuel + 1, cur, bp, furthest, acc =>
    if cur < endp ∧ endp ≤ w.length then
      let c := w.getD cur 0
      if c = 0 then .ok (acc ++ [[]], max furthest (cur + 1))
      else if c < Consts.ptrLabelMin then
        if c > endp - (cur + 1) then .error .formError
        else nameAt w endp fuel (cur + 1 + c) bp (max (max furthest (cur + 1)) (cur + 1 + c))
          (acc ++ [(w.drop (cur + 1)).take c])
      else if c ≥ Consts.ptrTagMin then
        if cur + 1 < endp then
          let t := (c % 64) * 256 + w.getD (cur + 1) 0
          if t ≥ bp then .error .badPointer
          else nameAt w endp fuel t t (max (max furthest (cur + 1)) (cur + 2)) acc
        else .error .formError
      else .error .badLabelType
    else .error .formError

def nameFuel (w : Bytes) : Nat := (w.length + 1) * (w.length + 2)

/-- `parser.get_name()` at `cur` of the whole message (validated by the `Name` constructor) -/
def decodeName (w : Bytes) (cur : Nat) : Except NameErr Name :=
  match nameAt w w.length (nameFuel w) cur cur cur [] with
  | .error e => .error e
  | .ok (n, _) => Model.validate n

/-! ## TSIG RDATA codec and the rendered TSIG RR -/

/-- `TSIG._to_wire` -/
def rdataWire (rd : Rdata) : Bytes :=
  toWire rd.algorithm ++ timeEncoded rd.timeSigned rd.fudge ++ u16 rd.mac.length ++ rd.mac
    ++ u16 rd.originalId ++ u16 rd.error ++ u16 rd.other.length ++ rd.other

/-- `TSIG.from_wire_parser` on the parser restricted to `[start, endp)` of `w` (+ the exact-consumption
check of `restrict_to`, the constructor's `Rcode.make` range check, both wrapped into FormError). -/
def rdataParse (w : Bytes) (start endp : Nat) : Except Err Rdata :=
  match nameAt w endp (nameFuel w) start start start [] with
  | .error _ => .error .formError
  | .ok (alg, p) =>
    match Model.validate alg with
    | .error _ => .error .formError
    | .ok alg =>
      if p + 10 > endp then .error .formError           -- uint48, uint16, 2-octet MAC size
      else
        let time := rd48 w p
        let fudge := rd16 w (p + 6)
        let macLen := rd16 w (p + 8)
        if p + 10 + macLen > endp then .error .formError
        else
          let mac := slice w (p + 10) (p + 10 + macLen)
          let q := p + 10 + macLen
          if q + 6 > endp then .error .formError        -- "!HH" and the 2-octet other length
          else
            let oid := rd16 w q
            let err := rd16 w (q + 2)
            let olen := rd16 w (q + 4)
            if q + 6 + olen > endp then .error .formError
            else if q + 6 + olen ≠ endp then .error .formError
            else if err > ConstsC14.rcodeMax then .error .formError
            else .ok { algorithm := alg, timeSigned := time, fudge := fudge, mac := mac, originalId := oid,
                       error := err, other := slice w (q + 6) (q + 6 + olen) }

/-- `Renderer._write_tsig` body: owner (as the renderer encoded it), TYPE, CLASS ANY, TTL 0, RDLENGTH, RDATA -/
def tsigRR (ownerEnc : Bytes) (rd : Rdata) : Bytes :=
  ownerEnc ++ u16 ConstsC14.typeTsig ++ u16 ConstsC14.classAny ++ u32 0
    ++ u16 (rdataWire rd).length ++ rdataWire rd

def setArcount (w : Bytes) (n : Nat) : Bytes := w.take 10 ++ u16 n ++ w.drop 12

/-- the message after `r.add_rrset(ADDITIONAL, self.tsig); r.write_header()` -/
def appendTsig (body ownerEnc : Bytes) (rd : Rdata) : Bytes :=
  setArcount (body ++ tsigRR ownerEnc rd) (rd16 body 10 + 1)

/-- the signing tail of `Message.to_wire`: `body` is `r.get_wire()` after `write_header()` -/
def signMessage (H : Hmac) (tbl : List AlgEntry) (body ownerEnc : Bytes) (key : Key) (rd : Rdata) (now : Nat)
    (requestMac : Bytes) (ctx : Option Ctx) (multi : Bool) : Except Err (Bytes × Rdata × Option Ctx) :=
  match sign H tbl body key rd now requestMac ctx multi with
  | .error e => .error e
  | .ok (rd', c') => .ok (appendTsig body ownerEnc rd', rd', c')

/-! ## the reader (`_WireReader.read` / `_get_question` / `_get_section`), skeleton -/

/-- position after the name at `cur` (labels skipped, a pointer ends the name); `end_` is the parser end -/
def skipName (w : Bytes) (end_ : Nat) : Nat → Nat → Option Nat
  | 0, _ => none
  | fuel + 1, cur =>
    if cur < end_ then
      let c := w.getD cur 0
      if c = 0 then some (cur + 1)
      else if c < 64 then
        if cur + 1 + c ≤ end_ then skipName w end_ fuel (cur + 1 + c) else none
      else if c ≥ 192 then
        if cur + 2 ≤ end_ then some (cur + 2) else none
      else none
    else none

/-- `_get_question`: `count` × (name, "!HH") -/
def skipQuestions (w : Bytes) : Nat → Nat → Option Nat
  | 0, cur => some cur
  | n + 1, cur =>
    match skipName w w.length (w.length + 1) cur with
    | none => none
    | some p => if p + 4 ≤ w.length then skipQuestions w n (p + 4) else none

inductive KeyVal where
  | secret (s : Bytes)
  | key (k : Key)
  deriving Repr, DecidableEq

/-- the `keyring` argument of `from_wire` / `use_tsig`: `None`/`True`, `False`, a `Key`, a `dict`
(name ↦ `bytes` secret or `Key`), or a callable `(message, name) ↦ Key | None` (modelled as a function of the
name; what it does with the message — GSS-TSIG negotiation — is outside the model) -/
inductive Keyring where
  | absent
  | noValidate
  | key (k : Key)
  | dict (entries : List (Name × KeyVal))
  | callable (f : Name → Option Key)

/-- what the section loop has found -/
structure Found where
  owner : Name
  rd : Rdata
  checked : Option (Ctx × Bytes)   -- context and MAC handed to `verify` (none when `keyring is False`)
  deriving Repr

structure RState where
  cur : Nat
  tsig : Option Found
  ctx : Option Ctx
  deriving Repr

/-- key resolution of `_get_section` for a TSIG record; `none` in the result = `keyring is False` -/
def resolveKey (kr : Keyring) (owner : Name) (rd : Rdata) : Except Err (Option Key) :=
  match kr with
  | .absent => .error .unknownTSIGKey
  | .noValidate => .ok none
  | .key k => .ok (some k)
  | .dict es =>
    match es.find? (fun e => nameEq e.1 owner) with
    | none => .error .unknownTSIGKey
    | some (_, .secret s) => .ok (some { name := owner, secret := s, algorithm := rd.algorithm })
    | some (_, .key k) => .ok (some k)
  | .callable f =>
    match f owner with
    | none => .error .unknownTSIGKey
    | some k => .ok (some k)

/-- key and TSIG owner name chosen by `Message.use_tsig(keyring, keyname, algorithm=…)`; `none` where the code
raises (missing dict entry, callable returning nothing usable, no keyring) -/
def useTsig (kr : Keyring) (keyname : Option Name) (algorithm : Name) : Option (Key × Name) :=
  match kr with
  | .key k => some (k, k.name)
  | .callable f =>
    match keyname with
    | none => none
    | some n => (f n).map fun k => (k, n)
  | .dict es =>
    let name? : Option Name := match keyname with
      | some n => some n
      | none => es.head?.map (fun (e : Name × KeyVal) => e.1)
    match name? with
    | none => none
    | some n =>
      match es.find? (fun (e : Name × KeyVal) => nameEq e.1 n) with
      | none => none
      | some (_, .secret s) => some ({ name := n, secret := s, algorithm := algorithm }, n)
      | some (_, .key k) => some (k, n)
  | .absent => none
  | .noValidate => none

/-- one record of `_get_section` (`sec` 1 answer, 2 authority, 3 additional; `i` its index, `count` the section count) -/
def readRR (V : Verifier) (tbl : List AlgEntry) (ttlStrict : Bool) (w : Bytes) (kr : Keyring) (now : Nat)
    (requestMac : Bytes) (multi : Bool) (sec count i : Nat) (st : RState) : Except Err RState :=
  match skipName w w.length (w.length + 1) st.cur with
  | none => .error .formError
  | some p =>
    if p + 10 > w.length then .error .formError
    else
      let rdtype := rd16 w p
      let rdclass := rd16 w (p + 2)
      let ttl := rd32 w (p + 4)
      let rdlen := rd16 w (p + 8)
      if rdtype = ConstsC14.typeTsig then
        if sec ≠ 3 ∨ rdclass ≠ ConstsC14.classAny ∨ i + 1 ≠ count then .error .badTSIG
        else if ttlStrict ∧ ttl ≠ 0 then .error .badTSIG
        else if p + 10 + rdlen > w.length then .error .formError
        else
          match decodeName w st.cur with
          | .error _ => .error .formError
          | .ok owner =>
            match rdataParse w (p + 10) (p + 10 + rdlen) with
            | .error e => .error e
            | .ok rd =>
              match resolveKey kr owner rd with
              | .error e => .error e
              | .ok none => .ok { cur := p + 10 + rdlen, tsig := some ⟨owner, rd, none⟩, ctx := st.ctx }
              | .ok (some key) =>
                match validateV V tbl w key owner rd now requestMac st.cur st.ctx multi with
                | .error e => .error e
                | .ok (c, c') => .ok { cur := p + 10 + rdlen, tsig := some ⟨owner, rd, some (c, rd.mac)⟩, ctx := c' }
      else
        if p + 10 + rdlen > w.length then .error .formError
        else .ok { st with cur := p + 10 + rdlen }

def readSection (V : Verifier) (tbl : List AlgEntry) (ttlStrict : Bool) (w : Bytes) (kr : Keyring) (now : Nat)
    (requestMac : Bytes) (multi : Bool) (sec count : Nat) : Nat → RState → Except Err RState
  | 0, st => .ok st
  | n + 1, st =>
    match readRR V tbl ttlStrict w kr now requestMac multi sec count (count - (n + 1)) st with
    | .error e => .error e
    | .ok st' => readSection V tbl ttlStrict w kr now requestMac multi sec count n st'

structure ReadOk where
  tsig : Option Found
  ctx : Option Ctx       -- `message.tsig_ctx` on return
  deriving Repr

/-- `dns.message.from_wire(wire, keyring, request_mac, tsig_ctx=ctx, multi=multi, ignore_trailing=…)` as far as TSIG
is concerned.  `ignoreTrailing` lets octets after the last record through; an unsigned envelope of a multi-message
exchange is digested into the running context as *the message only* (`wire[:parser.current]`, repair 1f3fc58). -/
def readVI (ignoreTrailing : Bool) (V : Verifier) (tbl : List AlgEntry) (ttlStrict : Bool) (w : Bytes) (kr : Keyring)
    (now : Nat) (requestMac : Bytes) (ctx : Option Ctx) (multi : Bool) : Except Err ReadOk :=
  if w.length < 12 then .error .shortHeader
  else
    match skipQuestions w (rd16 w 4) 12 with
    | none => .error .formError
    | some p =>
      let st0 : RState := { cur := p, tsig := none, ctx := ctx }
      match readSection V tbl ttlStrict w kr now requestMac multi 1 (rd16 w 6) (rd16 w 6) st0 with
      | .error e => .error e
      | .ok st1 =>
      match readSection V tbl ttlStrict w kr now requestMac multi 2 (rd16 w 8) (rd16 w 8) st1 with
      | .error e => .error e
      | .ok st2 =>
      match readSection V tbl ttlStrict w kr now requestMac multi 3 (rd16 w 10) (rd16 w 10) st2 with
      | .error e => .error e
      | .ok st3 =>
        if ignoreTrailing = false ∧ st3.cur ≠ w.length then .error .trailingJunk
        else
          -- `if self.multi and self.message.tsig_ctx and not self.message.had_tsig: tsig_ctx.update(wire[:current])`
          match multi, st3.ctx, st3.tsig with
          | true, some c, none => .ok { tsig := none, ctx := some (c.update (w.take st3.cur)) }
          | _, _, _ => .ok { tsig := st3.tsig, ctx := st3.ctx }

/-- the default `ignore_trailing=False` -/
def readV (V : Verifier) (tbl : List AlgEntry) (ttlStrict : Bool) (w : Bytes) (kr : Keyring) (now : Nat)
    (requestMac : Bytes) (ctx : Option Ctx) (multi : Bool) : Except Err ReadOk :=
  readVI false V tbl ttlStrict w kr now requestMac ctx multi

def read (H : Hmac) (tbl : List AlgEntry) (ttlStrict : Bool) (w : Bytes) (kr : Keyring) (now : Nat)
    (requestMac : Bytes) (ctx : Option Ctx) (multi : Bool) : Except Err ReadOk :=
  readV (verifyWith H) tbl ttlStrict w kr now requestMac ctx multi

def readI (ignoreTrailing : Bool) (H : Hmac) (tbl : List AlgEntry) (ttlStrict : Bool) (w : Bytes) (kr : Keyring) (now : Nat)
    (requestMac : Bytes) (ctx : Option Ctx) (multi : Bool) : Except Err ReadOk :=
  readVI ignoreTrailing (verifyWith H) tbl ttlStrict w kr now requestMac ctx multi

/-! ## single-bit alterations -/

/-- flip bit `i` (0 = most significant bit of octet 0) -/
def flipBit (w : Bytes) (i : Nat) : Bytes :=
  w.set (i / 8) (Nat.xor (w.getD (i / 8) 0) (128 >>> (i % 8)))

/-- verdict on an altered message relative to the pair (digest input, MAC) of the genuine one:
`A` accepted as signed (the very same pair reaches the MAC comparison), `u` accepted as an unsigned message,
`r` rejected (by parsing, by a check, or because a different pair reaches the comparison). -/
def flipVerdict (tbl : List AlgEntry) (ttlStrict : Bool) (kr : Keyring) (now : Nat) (requestMac : Bytes)
    (ctx : Option Ctx) (multi : Bool) (orig : Ctx × Bytes) (w' : Bytes) : Char :=
  match readV (fun c m => decide (c = orig.1 ∧ m = orig.2)) tbl ttlStrict w' kr now requestMac ctx multi with
  | .error _ => 'r'
  | .ok r => match r.tsig with
    | none => 'u'
    | some _ => 'A'

end Model.Tsig

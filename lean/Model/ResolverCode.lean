import Model.Resolver
import Generated.C16
/-!
The model of `dns/resolver.py` instantiated with the constants regenerated from the working tree on every run
(`Generated/C16.lean`): the back-off schedule, whether the back-off sleep is clipped to the remaining lifetime, and
`MAX_CHAIN`.  Kept apart from `Model/Resolver.lean` so that a changed constant re-checks the obligations that mention
it (`Props/C16.lean`) without re-elaborating the constant-independent lemmas.
-/
namespace Model.Resolver
open Model

/-- the schedule of the code as regenerated from the working tree -/
def codeBackoff : Backoff :=
  { init := ConstsC16.backoffInitMs, factor := ConstsC16.backoffFactor, cap := ConstsC16.backoffCapMs }

/-- `Resolver.resolve` of the working tree -/
def codeResolve (cfg : Config) (req : Request) (now : Nat) (cache : Cache) (script : List ScriptStep) :
    List Event × Result × St :=
  resolve cfg codeBackoff ConstsC16.clipSleep ConstsC16.maxChain req now cache script

end Model.Resolver
